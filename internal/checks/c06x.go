package checks

import (
	"encoding/binary"
	"fmt"
	"math"
	"os"
	"strings"
	"sync"

	"github.com/gogpu/naga/ir"
	"github.com/gogpu/naga/spirv"

	"verif/internal/explore"
	"verif/internal/irx"
	"verif/internal/nagax"
	"verif/internal/spv"
	"verif/internal/wgen"
	"verif/internal/wref"
	"verif/internal/xrt"
)

// C06, families F6c2 (chains through named constants) and F6c3 (structural folds).
//
// Every *item* (one compile-time evaluation) is judged on its own: items are compiled in batches for
// speed, but a batch that fails as a whole (rejected, backend error, malformed output) is split until
// the failure is attributed to single items, so the number of failing cases per key is a property of
// the tree and not of the batching. Expected values come from the reference evaluator (run-time
// semantics of the same expression); observed values from executing the compiled program (lowered
// module under the IR interpreter, SPIR-V binary under the SPIR-V interpreter) or, for the non-value
// contexts, from the array length / taken case / LocalSize / acceptance of const_assert.

func init() {
	extraFamilyByName["F6c2"] = func() *wgen.Family { return c06xReplayFamily("F6c2") }
	extraFamilyByName["F6c3"] = func() *wgen.Family { return c06xReplayFamily("F6c3") }
	prev := perProgram["C06"]
	perProgram["C06"] = func(r *explore.Run, p *prog) {
		if strings.HasPrefix(p.Sig, "F6c2/") || strings.HasPrefix(p.Sig, "F6c3/") {
			c06xReplay(r, p)
			return
		}
		prev(r, p)
	}
}

// c06xEval is the reference evaluation of one scalar constant expression.
func c06xEval(e wgen.Expr) (uint32, bool) { return c06Eval(e, e.T()) }

// ---------------------------------------------------------------- observations

type c6obs struct {
	fail   string // "" = agrees with the reference; otherwise the failure class
	detail string
	src    string
	skip   string // not judged (reason)
}

// c6run runs the items idx as one program. whole != "" means the program failed in a way that cannot be
// attributed to one item (it is then split).
type c6run func(idx []int) (whole, detail, src string, per []c6obs)

func c6split(run c6run, idx []int, out []c6obs) {
	if len(idx) == 0 {
		return
	}
	whole, detail, src, per := run(idx)
	if whole == "" {
		for k, i := range idx {
			out[i] = per[k]
			if out[i].src == "" {
				out[i].src = src
			}
		}
		return
	}
	if len(idx) == 1 {
		out[idx[0]] = c6obs{fail: whole, detail: detail, src: src}
		return
	}
	mid := len(idx) / 2
	c6split(run, idx[:mid], out)
	c6split(run, idx[mid:], out)
}

func seq(n int) []int {
	s := make([]int, n)
	for i := range s {
		s[i] = i
	}
	return s
}

func pick[T any](xs []T, idx []int) []T {
	out := make([]T, len(idx))
	for k, i := range idx {
		out[k] = xs[i]
	}
	return out
}

// leafDiffers compares one leaf scalar (same rules as compareBufs).
func leafDiffers(k wgen.SK, want, got uint32, approx bool) bool {
	if want == got {
		return false
	}
	if k != wgen.F32 {
		return true
	}
	if isBadFloat(want) {
		return false
	}
	fw, fg := float64(math.Float32frombits(want)), float64(math.Float32frombits(got))
	if fw == fg {
		return false
	}
	if approx && math.Abs(fw-fg) <= 2e-4*math.Abs(fw)+1e-5 {
		return false
	}
	return true
}

func fmtLeaves(k wgen.SK, v []uint32) string {
	var sb strings.Builder
	for i, x := range v {
		if i > 0 {
			sb.WriteString(",")
		}
		switch k {
		case wgen.I32:
			fmt.Fprintf(&sb, "%d", int32(x))
		case wgen.F32:
			fmt.Fprintf(&sb, "%v", math.Float32frombits(x))
		default:
			fmt.Fprintf(&sb, "%d", x)
		}
	}
	return sb.String()
}

// c06xRef evaluates the items with the reference evaluator; ok[j] false = WGSL does not define item j
// (or a result is a float WGSL leaves latitude on).
func c06xRef(items []wgen.CItem) (want [][]uint32, ok []bool) {
	n := len(items)
	want, ok = make([][]uint32, n), make([]bool, n)
	var run func(idx []int)
	run = func(idx []int) {
		if len(idx) == 0 {
			return
		}
		c := wgen.BuildConstBatch(pick(items, idx), "mc", "expr")
		ref, err := runRef(c, wref.Config{})
		if err != nil || ref.undef != "" {
			if len(idx) == 1 {
				return
			}
			run(idx[:len(idx)/2])
			run(idx[len(idx)/2:])
			return
		}
		rt := items[idx[0]].Result.T()
		st := wgen.StorageType(rt)
		stride := wgen.Stride(wgen.Array(st, 0))
		b := ref.bufs[xrt.Binding{Group: 0, Binding: 0}]
		for k, i := range idx {
			w := make([]uint32, rt.NumScalars())
			good := true
			for l := range w {
				w[l] = binary.LittleEndian.Uint32(b[k*stride+4*l:])
				if rt.S == wgen.F32 && isBadFloat(w[l]) {
					good = false
				}
			}
			want[i], ok[i] = w, good
		}
	}
	// group by result type (a batch has one output element type)
	by := map[string][]int{}
	var order []string
	for i, it := range items {
		k := it.Result.T().String()
		if _, seen := by[k]; !seen {
			order = append(order, k)
		}
		by[k] = append(by[k], i)
	}
	for _, k := range order {
		run(by[k])
	}
	return
}

// c06xValue observes the items in the value layout (bk, cc). All items have the same result type.
func c06xValue(items []wgen.CItem, want [][]uint32, bk, cc string, approx bool) []c6obs {
	out := make([]c6obs, len(items))
	rt := items[0].Result.T()
	st := wgen.StorageType(rt)
	stride := wgen.Stride(wgen.Array(st, 0))
	nl := rt.NumScalars()
	key := xrt.Binding{Group: 0, Binding: 0}
	run := func(idx []int) (whole, detail, src string, per []c6obs) {
		c := wgen.BuildConstBatch(pick(items, idx), bk, cc)
		src = wgen.Print(c.Mod)
		m, stage, ferr, pn := nagax.Front(src)
		if pn != nil {
			return "panic:" + errClass(pn.Value), pn.Value, src, nil
		}
		if ferr != nil {
			return "rejected@" + stage + ":" + errClass(ferr.Error()), "a valid constant expression is rejected: " + trunc(ferr.Error(), 300), src, nil
		}
		per = make([]c6obs, len(idx))
		judge := func(b []byte, class string) {
			for k, i := range idx {
				if per[k].fail != "" {
					continue
				}
				got := make([]uint32, nl)
				bad := false
				for l := range got {
					got[l] = binary.LittleEndian.Uint32(b[k*stride+4*l:])
					if leafDiffers(st.S, want[i][l], got[l], approx) {
						bad = true
					}
				}
				if bad {
					per[k] = c6obs{fail: class, detail: fmt.Sprintf("o[%d] = %s: the compiled constant is (%s), run-time evaluation of the same expression gives (%s)", k, wgen.ExprString(items[i].Result), fmtLeaves(st.S, got), fmtLeaves(st.S, want[i]))}
				}
			}
		}
		b1 := c.Bufs.Clone()
		if e := irx.Exec(m, b1, xrt.Opts{NumWorkgroups: c.Groups}); e == nil {
			judge(b1[key], "wrong-value(ir)")
		}
		bin, e2, pn2 := nagax.SPIRV(m, spirv.DefaultOptions())
		if pn2 != nil || e2 != nil {
			if len(idx) > 1 {
				return "spirv-backend-error", "", src, nil
			}
			per[0].skip = "spirv backend error (C08)"
			return "", "", src, per
		}
		mod, e3 := spv.Parse(bin)
		if e3 != nil {
			if len(idx) > 1 {
				return "spirv-unreadable", "", src, nil
			}
			per[0].skip = "spirv reader"
			return "", "", src, per
		}
		b2 := c.Bufs.Clone()
		if e := spv.Exec(mod, b2, xrt.Opts{NumWorkgroups: c.Groups, EntryPoint: "main"}); e != nil {
			cls, skip := failClass(e)
			if len(idx) > 1 {
				return "exec", "", src, nil
			}
			if skip != "" {
				per[0].skip = skip
			} else if per[0].fail == "" {
				per[0] = c6obs{fail: "exec:" + cls, detail: e.Error()}
			}
			return "", "", src, per
		}
		judge(b2[key], "wrong-value")
		return "", "", src, per
	}
	c6split(run, seq(len(items)), out)
	return out
}

// ---------------------------------------------------------------- non-value contexts

func c06xBindText(items []wgen.CItem, bk string, scope string) string {
	var sb strings.Builder
	seen := map[string]bool{}
	for _, it := range items {
		for _, b := range it.Binds {
			if seen[b.Name] {
				continue
			}
			seen[b.Name] = true
			mod := bk == "mc" || bk == "mcT" || bk == "inline"
			if (scope == "module") != mod {
				continue
			}
			kw, ind := "const", ""
			if scope == "fn" {
				ind = "  "
				if bk == "let" {
					kw = "let"
				}
			}
			if bk == "mcT" || bk == "fcT" {
				fmt.Fprintf(&sb, "%s%s %s: %s = %s;\n", ind, kw, b.Name, b.Ty, wgen.ExprString(b.Init))
			} else {
				fmt.Fprintf(&sb, "%s%s %s = %s;\n", ind, kw, b.Name, wgen.ExprString(b.Init))
			}
		}
	}
	return sb.String()
}

func c06xStructText(items []wgen.CItem) string {
	m := &wgen.Module{}
	seen := map[string]bool{}
	for _, it := range items {
		for _, st := range it.Structs {
			if !seen[st.Name] {
				seen[st.Name] = true
				m.Structs = append(m.Structs, st)
			}
		}
	}
	if len(m.Structs) == 0 {
		return ""
	}
	return wgen.Print(m)
}

func c06xLit(t *wgen.Type, bits uint32, bare bool) string {
	if t.S == wgen.Bool {
		if bits != 0 {
			return "true"
		}
		return "false"
	}
	l := &wgen.Lit{Ty: t, Bits: bits}
	if bare && t.S != wgen.U32 && !(t.S == wgen.I32 && bits == 0x80000000) {
		l.Bare = true
	}
	return wgen.LitString(l)
}

func frontWhole(src string) (*ir.Module, string, string) {
	m, stage, ferr, pn := nagax.Front(src)
	if pn != nil {
		return nil, "panic:" + errClass(pn.Value), pn.Value
	}
	if ferr != nil {
		return nil, "rejected@" + stage + ":" + errClass(ferr.Error()), "a valid compile-time context is rejected: " + trunc(ferr.Error(), 300)
	}
	return m, "", ""
}

// c06xArraySize: var<private> z<j>: array<u32, (E)>; the lowered type must have E's value as its length.
func c06xArraySize(items []wgen.CItem, want [][]uint32, bk string) []c6obs {
	out := make([]c6obs, len(items))
	run := func(idx []int) (whole, detail, src string, per []c6obs) {
		sub := pick(items, idx)
		var sb strings.Builder
		sb.WriteString(c06xStructText(sub))
		sb.WriteString(c06xBindText(sub, bk, "module"))
		for k, it := range sub {
			fmt.Fprintf(&sb, "var<private> z%d: array<u32, (%s)>;\n", k, wgen.ExprString(it.Result))
		}
		sb.WriteString(c06Hdr + "@compute @workgroup_size(1) fn main() {\n")
		for k := range sub {
			fmt.Fprintf(&sb, "  o[%d] = z%d[0];\n", k, k)
		}
		sb.WriteString("}\n")
		src = sb.String()
		m, w, d := frontWhole(src)
		if w != "" {
			return w, d, src, nil
		}
		per = make([]c6obs, len(idx))
		for k, i := range idx {
			name := fmt.Sprintf("z%d", k)
			found := false
			for gi := range m.GlobalVariables {
				g := &m.GlobalVariables[gi]
				if g.Name != name {
					continue
				}
				found = true
				at, ok := m.Types[g.Type].Inner.(ir.ArrayType)
				if !ok {
					per[k] = c6obs{fail: "not-an-array", detail: "the variable's lowered type is not an array"}
					break
				}
				sv := int64(want[i][0])
				if at.Size.Constant == nil {
					per[k] = c6obs{fail: "size-not-evaluated", detail: fmt.Sprintf("array<u32, %s>: the lowered type has no constant size, WGSL evaluates it to %d", wgen.ExprString(items[i].Result), sv)}
				} else if int64(*at.Size.Constant) != sv {
					per[k] = c6obs{fail: "wrong-value", detail: fmt.Sprintf("array<u32, %s> has %d elements in the lowered module, WGSL evaluates the size to %d", wgen.ExprString(items[i].Result), *at.Size.Constant, sv)}
				}
			}
			if !found {
				per[k].skip = "global not found in the lowered module"
			}
		}
		return "", "", src, per
	}
	c6split(run, seq(len(items)), out)
	return out
}

// c06xCase: switch x { case E: {o[j]=1} default: {o[j]=2} } with x loaded from a buffer holding E's value.
func c06xCase(items []wgen.CItem, want [][]uint32, bk string) []c6obs {
	out := make([]c6obs, len(items))
	rt := items[0].Result.T()
	run := func(idx []int) (whole, detail, src string, per []c6obs) {
		sub := pick(items, idx)
		var sb strings.Builder
		sb.WriteString(c06xStructText(sub))
		sb.WriteString(c06xBindText(sub, bk, "module"))
		sb.WriteString(c06Hdr + "@compute @workgroup_size(1) fn main() {\n")
		sb.WriteString(c06xBindText(sub, bk, "fn"))
		in := make([]byte, 4*len(idx))
		for k, it := range sub {
			binary.LittleEndian.PutUint32(in[4*k:], want[idx[k]][0])
			fmt.Fprintf(&sb, "  let x%d = bitcast<%s>(inp[%d]);\n  switch x%d { case %s: { o[%d] = 1u; } default: { o[%d] = 2u; } }\n", k, rt, k, k, wgen.ExprString(it.Result), k, k)
		}
		sb.WriteString("}\n")
		src = sb.String()
		m, w, d := frontWhole(src)
		if w != "" {
			return w, d, src, nil
		}
		per = make([]c6obs, len(idx))
		mk := func() xrt.Buffers {
			return xrt.Buffers{{Group: 0, Binding: 0}: make([]byte, 4*len(idx)), {Group: 0, Binding: 1}: append([]byte(nil), in...)}
		}
		judge := func(b []byte, class string) {
			for k, i := range idx {
				if per[k].fail == "" && binary.LittleEndian.Uint32(b[4*k:]) != 1 {
					per[k] = c6obs{fail: class, detail: fmt.Sprintf("case %s is not taken for selector %s (the selector constant was folded to another value)", wgen.ExprString(items[i].Result), fmtLeaves(rt.S, want[i]))}
				}
			}
		}
		b1 := mk()
		if e := irx.Exec(m, b1, xrt.Opts{}); e == nil {
			judge(b1[xrt.Binding{Group: 0, Binding: 0}], "wrong-case(ir)")
		}
		bin, e2, pn2 := nagax.SPIRV(m, spirv.DefaultOptions())
		if e2 != nil || pn2 != nil {
			if len(idx) > 1 {
				return "spirv-backend-error", "", src, nil
			}
			per[0].skip = "spirv backend error (C08)"
			return "", "", src, per
		}
		mod, e3 := spv.Parse(bin)
		if e3 != nil {
			return "", "", src, per
		}
		b2 := mk()
		if e := spv.Exec(mod, b2, xrt.Opts{EntryPoint: "main"}); e != nil {
			cls, skip := failClass(e)
			if len(idx) > 1 {
				return "exec", "", src, nil
			}
			if skip != "" {
				per[0].skip = skip
			} else if per[0].fail == "" {
				per[0] = c6obs{fail: "exec:" + cls, detail: e.Error()}
			}
			return "", "", src, per
		}
		judge(b2[xrt.Binding{Group: 0, Binding: 0}], "wrong-case")
		return "", "", src, per
	}
	c6split(run, seq(len(items)), out)
	return out
}

// c06xWGSize: one entry point per item, @workgroup_size(E).
func c06xWGSize(items []wgen.CItem, want [][]uint32, bk string) []c6obs {
	out := make([]c6obs, len(items))
	run := func(idx []int) (whole, detail, src string, per []c6obs) {
		sub := pick(items, idx)
		var sb strings.Builder
		sb.WriteString(c06xStructText(sub))
		sb.WriteString(c06xBindText(sub, bk, "module"))
		sb.WriteString(c06Hdr)
		for k, it := range sub {
			fmt.Fprintf(&sb, "@compute @workgroup_size(%s) fn m%d() { o[%d] = 1u; }\n", wgen.ExprString(it.Result), k, k)
		}
		src = sb.String()
		m, w, d := frontWhole(src)
		if w != "" {
			return w, d, src, nil
		}
		per = make([]c6obs, len(idx))
		for k, i := range idx {
			name := fmt.Sprintf("m%d", k)
			for ei := range m.EntryPoints {
				if ep := &m.EntryPoints[ei]; ep.Name == name && int64(ep.Workgroup[0]) != int64(want[i][0]) {
					per[k] = c6obs{fail: "wrong-value(ir)", detail: fmt.Sprintf("@workgroup_size(%s) is %d in the lowered module, WGSL evaluates it to %d", wgen.ExprString(items[i].Result), ep.Workgroup[0], want[i][0])}
				}
			}
		}
		bin, e2, pn2 := nagax.SPIRV(m, spirv.DefaultOptions())
		if e2 != nil || pn2 != nil {
			if len(idx) > 1 {
				return "spirv-backend-error", "", src, nil
			}
			per[0].skip = "spirv backend error (C08)"
			return "", "", src, per
		}
		mod, e3 := spv.Parse(bin)
		if e3 != nil {
			return "", "", src, per
		}
		for k, i := range idx {
			if per[k].fail != "" {
				continue
			}
			if ls, e := mod.LocalSize(fmt.Sprintf("m%d", k)); e == nil && int64(ls[0]) != int64(want[i][0]) {
				per[k] = c6obs{fail: "wrong-value", detail: fmt.Sprintf("@workgroup_size(%s) gives LocalSize %d, WGSL evaluates it to %d", wgen.ExprString(items[i].Result), ls[0], want[i][0])}
			}
		}
		return "", "", src, per
	}
	c6split(run, seq(len(items)), out)
	return out
}

// c06xAssertBuild writes the program holding one const_assert per item (module scope when the
// intermediates are module constants or absent, function scope otherwise).
func c06xAssertBuild(sub []wgen.CItem, lits []string, bk string) string {
	fnScope := bk == "fc" || bk == "fcT" || bk == "let"
	var sb strings.Builder
	sb.WriteString(c06xStructText(sub))
	sb.WriteString(c06xBindText(sub, bk, "module"))
	if !fnScope {
		for k, it := range sub {
			fmt.Fprintf(&sb, "const_assert %s == (%s);\n", lits[k], wgen.ExprString(it.Result))
		}
	}
	sb.WriteString(c06Hdr + "@compute @workgroup_size(1) fn main() {\n")
	if fnScope {
		sb.WriteString(c06xBindText(sub, bk, "fn"))
		for k, it := range sub {
			fmt.Fprintf(&sb, "  const_assert %s == (%s);\n", lits[k], wgen.ExprString(it.Result))
		}
	}
	sb.WriteString("  o[0] = 1u;\n}\n")
	return sb.String()
}

// c06xAssertTrue: const_assert <value> == (E) must be accepted (batched, split on rejection).
func c06xAssertTrue(items []wgen.CItem, want [][]uint32, bk string, bare bool) []c6obs {
	rt := items[0].Result.T()
	out := make([]c6obs, len(items))
	run := func(idx []int) (whole, detail, src string, per []c6obs) {
		lits := make([]string, len(idx))
		for k, i := range idx {
			lits[k] = c06xLit(rt, want[i][0], bare)
		}
		src = c06xAssertBuild(pick(items, idx), lits, bk)
		_, w, d := frontWhole(src)
		if w != "" {
			return strings.Replace(w, "rejected@", "rejected-true-assertion@", 1), d, src, nil
		}
		return "", "", src, make([]c6obs, len(idx))
	}
	c6split(run, seq(len(items)), out)
	return out
}

// c06xAssertFalse: const_assert <another value> == (E) must be rejected (one program per item).
func c06xAssertFalse(items []wgen.CItem, want [][]uint32, bk string, bare bool) []c6obs {
	rt := items[0].Result.T()
	out := make([]c6obs, len(items))
	for i, it := range items {
		v := want[i][0]
		var lit string
		switch rt.S {
		case wgen.Bool:
			lit = c06xLit(rt, v^1, bare)
		case wgen.F32:
			lit = c06xLit(rt, v^0x00400000, bare)
		default:
			lit = c06xLit(rt, v+1, bare)
		}
		src := c06xAssertBuild([]wgen.CItem{it}, []string{lit}, bk)
		_, w, _ := frontWhole(src)
		switch {
		case strings.HasPrefix(w, "panic"):
			out[i] = c6obs{fail: w, src: src}
		case w == "":
			out[i] = c6obs{fail: "accepted-false-assertion", src: src, detail: fmt.Sprintf("const_assert %s == (%s) is accepted although the expression evaluates to %s", lit, wgen.ExprString(it.Result), fmtLeaves(rt.S, want[i]))}
		}
	}
	return out
}

// ---------------------------------------------------------------- layouts

// A layout places the named intermediates (bk) and the result (cc). Value contexts: expr, modconst,
// modconstT, fnconst, fnconstT, let. Non-value contexts: arraysize, case, assert, assert-false, wgsize.
type c6layout struct{ bk, cc string }

func (l c6layout) String() string { return l.bk + ">" + l.cc }

func (l c6layout) isValue() bool {
	switch l.cc {
	case "arraysize", "case", "assert", "assert-false", "wgsize":
		return false
	}
	return true
}

// scope: the consumer context without the placement of the intermediates (function-scope assertions
// and selectors are distinguished from module-scope ones).
func (l c6layout) scope() string {
	if (l.cc == "assert" || l.cc == "assert-false") && (l.bk == "fc" || l.bk == "fcT" || l.bk == "let") {
		return l.cc + "(fn)"
	}
	return l.cc
}

// eligible: which items a non-value context can hold (integer scalars; sizes within 1..256).
func (l c6layout) eligible(rt *wgen.Type, want []uint32) bool {
	if l.isValue() {
		return true
	}
	if rt.K != wgen.TScalar {
		return false
	}
	isInt := rt.S == wgen.I32 || rt.S == wgen.U32
	switch l.cc {
	case "assert", "assert-false":
		return true
	case "case":
		return isInt
	}
	if !isInt {
		return false
	}
	v := int64(want[0])
	if rt.S == wgen.I32 {
		v = int64(int32(want[0]))
	}
	return v >= 1 && v <= 256
}

// observe runs the items (all of one result type, all eligible) in the layout.
func (l c6layout) observe(items []wgen.CItem, want [][]uint32, bare, approx bool) []c6obs {
	switch l.cc {
	case "arraysize":
		return c06xArraySize(items, want, l.bk)
	case "case":
		return c06xCase(items, want, l.bk)
	case "wgsize":
		return c06xWGSize(items, want, l.bk)
	case "assert":
		return c06xAssertTrue(items, want, l.bk, bare)
	case "assert-false":
		return c06xAssertFalse(items, want, l.bk, bare)
	}
	return c06xValue(items, want, l.bk, l.cc, approx)
}

// ---------------------------------------------------------------- F6c2 driver

var c06xChainLayouts = []c6layout{
	{"mcT", "expr"}, {"mcT", "modconst"}, {"mcT", "modconstT"}, {"mcT", "fnconst"},
	{"mc", "expr"}, {"mc", "modconst"}, {"mc", "modconstT"}, {"mc", "fnconst"},
	{"fcT", "expr"}, {"fcT", "fnconst"}, {"fc", "expr"}, {"fc", "fnconst"},
	{"let", "expr"},
	{"mcT", "arraysize"}, {"mcT", "case"}, {"mcT", "assert"}, {"mcT", "assert-false"}, {"mcT", "wgsize"},
	{"mc", "arraysize"}, {"mc", "case"}, {"mc", "assert"}, {"mc", "assert-false"}, {"mc", "wgsize"},
	{"fcT", "case"}, {"fcT", "assert"}, {"fcT", "assert-false"}, {"fc", "case"}, {"fc", "assert"}, {"fc", "assert-false"},
}

// link1 cache: the first link alone, per (literal style, op1, binding kind).
var c06xLink1 sync.Map // key -> *c6link1

type c6link1 struct {
	once sync.Once
	obs  []c6obs
}

func c06xLink1Obs(g *wgen.ChainGroup, l c6layout) []c6obs {
	e, _ := c06xLink1.LoadOrStore(g.Link1Key()+"|"+l.String(), &c6link1{})
	ent := e.(*c6link1)
	ent.once.Do(func() {
		items, want := g.Link1(c06xEval)
		if len(items) == 0 {
			return
		}
		ent.obs = make([]c6obs, len(items))
		rt := items[0].Result.T()
		var idx []int
		for i := range items {
			if l.eligible(rt, want[i]) {
				idx = append(idx, i)
			}
		}
		if len(idx) == 0 {
			return
		}
		for k, o := range l.observe(pick(items, idx), pick(want, idx), g.Bare, false) {
			ent.obs[idx[k]] = o
		}
	})
	return ent.obs
}

// c06xDebug: authoring hook (tests print the failing programs).
var c06xDebug func(key, detail, src string)

func violate(r *explore.Run, key, detail, sig, layout, src string) {
	if c06xDebug != nil {
		c06xDebug(key, detail, src)
	}
	r.Violate(explore.Violation{Key: key, Detail: detail, Replay: map[string]any{"sig": sig, "layout": layout, "src": src}})
}

func c06xChainGroup(r *explore.Run, g *wgen.ChainGroup, thorough bool) {
	maxOthers := 2
	if thorough {
		maxOthers = 4
	}
	its := g.Items(c06xEval, maxOthers)
	if len(its) == 0 {
		r.Skip("F6c2 group without valid operand valuation")
		return
	}
	all := make([]wgen.CItem, len(its))
	for j, it := range its {
		all[j] = g.CItem(it, fmt.Sprint(j))
	}
	wantAll, ok := c06xRef(all)
	var items []wgen.CItem
	var chain []wgen.ChainItem
	var want [][]uint32
	for j := range all {
		if ok[j] {
			items, chain, want = append(items, all[j]), append(chain, its[j]), append(want, wantAll[j])
		} else {
			r.Skip("reference cannot evaluate / result with latitude")
		}
	}
	if len(items) == 0 {
		return
	}
	style := "suffixed"
	if g.Bare {
		style = "abstract"
	}
	rt := g.RetType()
	r.DistinctBytes([]byte(fmt.Sprint(g.Op1, g.Op2, g.Pos, want)))
	for _, l := range c06xChainLayouts {
		if g.Approx && !l.isValue() {
			continue
		}
		var idx []int
		for i := range items {
			if l.eligible(rt, want[i]) {
				idx = append(idx, i)
			}
		}
		if len(idx) == 0 {
			continue
		}
		r.Count("evaluations", int64(len(idx)))
		r.Count("evaluations_F6c2", int64(len(idx)))
		// the first link alone (`A = op1(literals)`, A used directly): a chain through an intermediate that
		// is already wrong on its own is attributed to that link and not run
		l1 := c06xLink1Obs(g, c6layout{l.bk, "expr"})
		var run []int
		for _, i := range idx {
			ci := chain[i]
			if ci.Rep < len(l1) && l1[ci.Rep].fail != "" {
				o1 := l1[ci.Rep]
				violate(r, "C06|F6c2|link1|"+l.bk+"|"+style+"|"+g.Op1+"|"+o1.fail,
					fmt.Sprintf("a named constant bound to %s (binding %s) is already wrong when used alone: %s", g.Op1, l.bk, o1.detail), g.Sig, l.String(), o1.src)
				r.Count("chain_failures_attributed_to_first_link", 1)
				continue
			}
			run = append(run, i)
		}
		idx = run
		if len(idx) == 0 {
			continue
		}
		sub, sw := pick(items, idx), pick(want, idx)
		obs := l.observe(sub, sw, g.Bare, g.Approx)
		var rest []int
		for k, o := range obs {
			if o.skip != "" {
				r.Skip(o.skip)
			}
			if o.fail != "" {
				rest = append(rest, k)
			}
		}
		if len(rest) == 0 {
			continue
		}
		l2items := make([]wgen.CItem, len(rest))
		for n, k := range rest {
			l2items[n] = g.Link2(chain[idx[k]])
		}
		l2 := l.observe(l2items, pick(sw, rest), g.Bare, g.Approx)
		var rest2 []int
		for n, k := range rest {
			if l2[n].fail != "" {
				violate(r, "C06|F6c2|link2|"+l.scope()+"|"+style+"|"+g.Op2+"@"+fmt.Sprint(g.Pos)+"|"+l2[n].fail,
					fmt.Sprintf("%s on literal operands in context %s already fails: %s", g.Op2, l.scope(), l2[n].detail), g.Sig, l.String(), l2[n].src)
				r.Count("chain_failures_attributed_to_second_link", 1)
				continue
			}
			rest2 = append(rest2, k)
		}
		if len(rest2) == 0 {
			continue
		}
		// the computed constant consumed directly (without op2) in the same context
		if l.cc != "expr" {
			l1c := c06xLink1Obs(g, l)
			var keep []int
			for _, k := range rest2 {
				ci := chain[idx[k]]
				if ci.Rep < len(l1c) && l1c[ci.Rep].fail != "" {
					o1 := l1c[ci.Rep]
					violate(r, "C06|F6c2|link1ctx|"+l.String()+"|"+style+"|"+g.Op1+"|"+o1.fail,
						fmt.Sprintf("a named constant bound to %s cannot be consumed on its own in layout %s: %s", g.Op1, l, o1.detail), g.Sig, l.String(), o1.src)
					r.Count("chain_failures_attributed_to_first_link_in_context", 1)
					continue
				}
				keep = append(keep, k)
			}
			rest2 = keep
			if len(rest2) == 0 {
				continue
			}
		}
		// the same consumer over a named constant bound to a literal of A's value
		nitems := make([]wgen.CItem, len(rest2))
		for n, k := range rest2 {
			nitems[n] = g.Named(chain[idx[k]], fmt.Sprint(n))
		}
		nobs := l.observe(nitems, pick(sw, rest2), g.Bare, g.Approx)
		for n, k := range rest2 {
			if nobs[n].fail != "" {
				violate(r, "C06|F6c2|named|"+l.String()+"|"+style+"|"+g.Op2+"@"+fmt.Sprint(g.Pos)+"|"+nobs[n].fail,
					fmt.Sprintf("%s consuming a named constant bound to a literal (layout %s) already fails: %s", g.Op2, l, nobs[n].detail), g.Sig, l.String(), nobs[n].src)
				r.Count("chain_failures_attributed_to_named_operand", 1)
				continue
			}
			it, o := sub[k], obs[k]
			violate(r, "C06|F6c2|"+l.String()+"|"+style+"|"+it.Class+"|A="+it.VClass+"|"+o.fail,
				fmt.Sprintf("%s of a literal, of a named literal, and %s on literals are all evaluated correctly on their own, but chained through the named constant (layout %s) the result is wrong: %s", g.Op2, g.Op1, l, o.detail), g.Sig, l.String(), o.src)
			r.Count("chain_failures_interaction", 1)
		}
	}
}

// c06xWide: the larger bounds of F6c2/F6c3 (approximately specified operators as op2, four boundary values per
// extra operand, all 3- and 4-letter swizzles) have been enumerated in smoke runs only; their failure classes on
// the unchanged tree are not triaged, and an untriaged class would be reported as a violation. Until they are,
// the thorough tier keeps the quick bounds for these two families (VERIF_C06_WIDE=1 enables the larger ones
// for authoring).
func c06xWide(r *explore.Run) bool { return r.Thorough() && os.Getenv("VERIF_C06_WIDE") != "" }

func c06xChains(r *explore.Run) {
	groups := wgen.F6c2Groups(c06xWide(r))
	r.Extra("family_F6c2_groups", len(groups))
	r.ParallelFor(len(groups), func(i int) { c06xChainGroup(r, groups[i], c06xWide(r)) })
}

// ---------------------------------------------------------------- F6c3 driver

var c06xStructLayouts = []c6layout{
	{"inline", "expr"}, {"inline", "modconst"}, {"inline", "modconstT"}, {"inline", "fnconst"},
	{"mcT", "expr"}, {"mcT", "modconst"}, {"mcT", "fnconst"},
	{"mc", "expr"}, {"mc", "modconst"}, {"mc", "fnconst"},
	{"fcT", "expr"}, {"fcT", "fnconst"}, {"fc", "expr"}, {"fc", "fnconst"},
	{"let", "expr"},
	{"inline", "arraysize"}, {"inline", "case"}, {"inline", "assert"}, {"inline", "assert-false"}, {"inline", "wgsize"},
	{"mcT", "arraysize"}, {"mcT", "case"}, {"mcT", "assert"}, {"mcT", "assert-false"}, {"mcT", "wgsize"},
	{"mc", "arraysize"}, {"mc", "case"}, {"mc", "assert"}, {"mc", "assert-false"}, {"mc", "wgsize"},
	{"fcT", "case"}, {"fcT", "assert"}, {"fcT", "assert-false"}, {"fc", "case"}, {"fc", "assert"}, {"fc", "assert-false"},
}

// c6sref: reference values of every access of a group (computed once per group).
type c6sref struct {
	want [][]uint32
	ok   []bool
}

func c06xStructRef(g *wgen.SGroup) *c6sref {
	items := make([]wgen.CItem, g.NumAccesses())
	for i := range items {
		items[i] = g.Item(i, false)
	}
	w, ok := c06xRef(items)
	return &c6sref{w, ok}
}

// c06xStructObserve observes every eligible access of g in layout l. judged[i] false = not part of the layout.
func c06xStructObserve(g *wgen.SGroup, ref *c6sref, l c6layout) (obs []c6obs, judged []bool) {
	n := g.NumAccesses()
	obs, judged = make([]c6obs, n), make([]bool, n)
	named := l.bk != "inline"
	by := map[string][]int{}
	var order []string
	items := make([]wgen.CItem, n)
	for i := 0; i < n; i++ {
		if !ref.ok[i] {
			continue
		}
		items[i] = g.Item(i, named)
		rt := items[i].Result.T()
		if !l.eligible(rt, ref.want[i]) {
			continue
		}
		k := rt.String()
		if _, seen := by[k]; !seen {
			order = append(order, k)
		}
		by[k] = append(by[k], i)
	}
	for _, k := range order {
		idx := by[k]
		for j, o := range l.observe(pick(items, idx), pick(ref.want, idx), g.Bare, false) {
			obs[idx[j]], judged[idx[j]] = o, true
		}
	}
	return
}

type c6sentry struct {
	once   sync.Once
	obs    []c6obs
	judged []bool
}

var c06xStructCanon sync.Map // canonical group sig | layout -> *c6sentry
var c06xStructWhole sync.Map // group sig | bk -> *c6sentry

func c06xStructGroup(r *explore.Run, g *wgen.SGroup, canon map[string]*wgen.SGroup) {
	ref := c06xStructRef(g)
	style := g.Style
	r.DistinctBytes([]byte(fmt.Sprint(g.TypeName, g.Shape, ref.want)))
	cg := canon[g.TypeName+"|"+g.Style]
	for _, l := range c06xStructLayouts {
		var obs []c6obs
		var judged []bool
		if g == cg {
			e, _ := c06xStructCanon.LoadOrStore(g.Sig+"|"+l.String(), &c6sentry{})
			ent := e.(*c6sentry)
			ent.once.Do(func() { ent.obs, ent.judged = c06xStructObserve(g, ref, l) })
			obs, judged = ent.obs, ent.judged
		} else {
			obs, judged = c06xStructObserve(g, ref, l)
		}
		var failing []int
		nj := 0
		for i, o := range obs {
			if !judged[i] {
				continue
			}
			nj++
			if o.skip != "" {
				r.Skip(o.skip)
			}
			if o.fail != "" {
				failing = append(failing, i)
			}
		}
		r.Count("evaluations", int64(nj))
		r.Count("evaluations_F6c3", int64(nj))
		if len(failing) == 0 {
			continue
		}
		// (a) the constructor alone, stored whole (vector and matrix types)
		var whole *c6obs
		if w := g.Whole(l.bk != "inline"); w != nil {
			e, _ := c06xStructWhole.LoadOrStore(g.Sig+"|"+l.bk, &c6sentry{})
			ent := e.(*c6sentry)
			ent.once.Do(func() {
				ww, ok := c06xRef([]wgen.CItem{*w})
				if ok[0] {
					ent.obs = c6layout{l.bk, "expr"}.observe([]wgen.CItem{*w}, ww, g.Bare, false)
				}
			})
			if len(ent.obs) == 1 && ent.obs[0].fail != "" {
				whole = &ent.obs[0]
			}
		}
		// (b) the same access on the canonical flat constructor of the type in the same layout
		var cobs []c6obs
		var cj []bool
		if cg != nil && cg != g {
			e, _ := c06xStructCanon.LoadOrStore(cg.Sig+"|"+l.String(), &c6sentry{})
			ent := e.(*c6sentry)
			ent.once.Do(func() { ent.obs, ent.judged = c06xStructObserve(cg, c06xStructRef(cg), l) })
			cobs, cj = ent.obs, ent.judged
		}
		for _, i := range failing {
			o := obs[i]
			acc := g.AccessName(i)
			// construct-level failures (the context does not evaluate this form at all) are keyed by the
			// class of type and access form; value-level failures by the exact type and access
			akey := func(fail string) string {
				if c06xValueLevel(fail) {
					return g.TypeName + "|" + acc + "|" + fail
				}
				return g.TypeClass() + "|" + g.AccessKind(i) + "|" + fail
			}
			switch {
			case g == cg:
				violate(r, "C06|F6c3|access|"+l.String()+"|"+style+"|"+akey(o.fail),
					fmt.Sprintf("access %s on the flat constructor of %s (layout %s): %s", acc, g.TypeName, l, o.detail), g.Sig, l.String(), o.src)
				r.Count("structure_failures_on_flat_constructor", 1)
			case whole != nil:
				violate(r, "C06|F6c3|cons|"+l.bk+"|"+style+"|"+g.TypeName+"|"+g.Shape+"|"+whole.fail,
					fmt.Sprintf("the constructor %s of %s (binding %s) is already wrong when stored whole: %s", g.Shape, g.TypeName, l.bk, whole.detail), g.Sig, l.String(), whole.src)
				r.Count("structure_failures_attributed_to_constructor", 1)
			case cobs != nil && i < len(cobs) && cj[i] && cobs[i].fail != "":
				violate(r, "C06|F6c3|access|"+l.String()+"|"+style+"|"+akey(cobs[i].fail),
					fmt.Sprintf("access %s already fails on the flat constructor of %s (layout %s): %s", acc, g.TypeName, l, cobs[i].detail), g.Sig, l.String(), cobs[i].src)
				r.Count("structure_failures_attributed_to_access_form", 1)
			default:
				violate(r, "C06|F6c3|"+l.String()+"|"+style+"|"+g.TypeName+"|"+g.Shape+"|"+c06xAccKey(g, i, o.fail)+"|"+o.fail,
					fmt.Sprintf("the constructor %s of %s stored whole and access %s on the flat constructor are both right, but %s on this constructor (layout %s) is wrong: %s", g.Shape, g.TypeName, acc, acc, l, o.detail), g.Sig, l.String(), o.src)
				r.Count("structure_failures_interaction", 1)
			}
		}
	}
}

// c06xValueLevel: the failure is a wrong value (as opposed to the construct not being evaluated at all).
func c06xValueLevel(fail string) bool {
	return strings.HasPrefix(fail, "wrong") || strings.HasPrefix(fail, "exec:") || strings.Contains(fail, "const_assert failed")
}

func c06xAccKey(g *wgen.SGroup, i int, fail string) string {
	if c06xValueLevel(fail) {
		return g.AccessName(i)
	}
	return g.AccessKind(i)
}

func c06xStructCanonMap(groups []*wgen.SGroup) map[string]*wgen.SGroup {
	canon := map[string]*wgen.SGroup{}
	for _, g := range groups {
		if g.Flat {
			k := g.TypeName + "|" + g.Style
			if canon[k] == nil {
				canon[k] = g
			}
		}
	}
	return canon
}

func c06xStructure(r *explore.Run) {
	groups := wgen.F6c3Groups(c06xWide(r))
	r.Extra("family_F6c3_groups", len(groups))
	canon := c06xStructCanonMap(groups)
	r.ParallelFor(len(groups), func(i int) { c06xStructGroup(r, groups[i], canon) })
}

// ---------------------------------------------------------------- replay support

func c06xReplayFamily(name string) *wgen.Family {
	return &wgen.Family{Name: name, Count: 0, At: func(i int) *wgen.Case { return nil }}
}

func c06xReplay(r *explore.Run, p *prog) {
	thorough := os.Getenv("VERIF_TIER") == "thorough"
	switch {
	case strings.HasPrefix(p.Sig, "F6c2/"):
		for _, g := range wgen.F6c2Groups(true) {
			if g.Sig == p.Sig {
				c06xChainGroup(r, g, thorough)
			}
		}
	case strings.HasPrefix(p.Sig, "F6c3/"):
		groups := wgen.F6c3Groups(thorough)
		canon := c06xStructCanonMap(groups)
		for _, g := range groups {
			if g.Sig == p.Sig {
				c06xStructGroup(r, g, canon)
			}
		}
	}
}

func c06xOnly(r *explore.Run, which string) {
	switch which {
	case "chains":
		c06xChains(r)
	case "structure":
		c06xStructure(r)
	case "repr":
		c06xNotRepresentable(r)
	case "new":
		c06xChains(r)
		c06xStructure(r)
	}
}

// ---------------------------------------------------------------- values that are not representable

// c06xNotRepresentable: an abstract value (literal, abstract arithmetic, named abstract constant) that is not
// representable in the type its context requires is a shader-creation error in WGSL, in every context that
// forces the conversion; so are out-of-range suffixed literals, AbstractInt overflow and overflow of a
// concrete f32 constant expression. naga must reject; substituting a (wrapped / saturated / infinite) value
// is a violation.
func c06xNotRepresentable(r *explore.Run) {
	vals := map[string][]string{
		"i32": {"2147483648", "-2147483649", "4294967295", "2147483647 + 1", "-2147483647 - 2", "65536 * 65536"},
		"u32": {"-1", "4294967296", "0 - 1", "2 - 5", "65536 * 65536"},
		"f32": {"1e39", "-1e39", "1e38 * 10.0", "3.5e38"},
	}
	const hdr = "@group(0) @binding(0) var<storage, read_write> o: array<u32>;\n"
	use := map[string]string{"i32": "u32(x)", "u32": "x", "f32": "u32(x)"}
	ctxs := []struct{ name, text string }{
		{"modconst", "const x: %[1]s = %[2]s;\n" + hdr + "@compute @workgroup_size(1) fn main() { o[0] = %[3]s; }\n"},
		{"fnconst", hdr + "@compute @workgroup_size(1) fn main() { const x: %[1]s = %[2]s; o[0] = %[3]s; }\n"},
		{"let", hdr + "@compute @workgroup_size(1) fn main() { let x: %[1]s = %[2]s; o[0] = %[3]s; }\n"},
		{"var", hdr + "@compute @workgroup_size(1) fn main() { var x: %[1]s = %[2]s; o[0] = %[3]s; }\n"},
		{"private-init", "var<private> x: %[1]s = %[2]s;\n" + hdr + "@compute @workgroup_size(1) fn main() { o[0] = %[3]s; }\n"},
		{"conversion", hdr + "@compute @workgroup_size(1) fn main() { let x = %[1]s(%[2]s); o[0] = %[3]s; }\n"},
		{"vector-component", hdr + "@compute @workgroup_size(1) fn main() { let x = vec2<%[1]s>(%[2]s, %[1]s()).x; o[0] = %[3]s; }\n"},
		{"named-abstract", "const a = %[2]s;\nconst x: %[1]s = a;\n" + hdr + "@compute @workgroup_size(1) fn main() { o[0] = %[3]s; }\n"},
		{"argument", "fn f(x: %[1]s) -> u32 { return %[3]s; }\n" + hdr + "@compute @workgroup_size(1) fn main() { o[0] = f(%[2]s); }\n"},
	}
	probe := func(ctx, ty, e, src string) {
		r.Count("evaluations", 1)
		r.Count("evaluations_not_representable", 1)
		if ok, _, pn := compiles(src); !pn && ok {
			r.Violate(explore.Violation{Key: "C06|representable|" + ctx + "|" + ty + "|accepted",
				Detail: fmt.Sprintf("%s is not representable in %s (context %s): a shader-creation error in WGSL, but the program compiles", e, ty, ctx), Replay: map[string]any{"src": src}})
		}
	}
	for _, ty := range []string{"i32", "u32", "f32"} {
		for _, e := range vals[ty] {
			for _, c := range ctxs {
				probe(c.name, ty, e, fmt.Sprintf(c.text, ty, e, use[ty]))
			}
		}
	}
	for _, lx := range [][2]string{{"i32", "2147483648i"}, {"u32", "4294967296u"}, {"f32", "1e39f"}, {"abstract-int", "9223372036854775808"}} {
		probe("literal", lx[0], lx[1], fmt.Sprintf("const x = %s;\n"+hdr+"@compute @workgroup_size(1) fn main() { o[0] = 1u; }\n", lx[1]))
	}
	probe("abstract-arithmetic", "abstract-int", "9223372036854775807 + 1", "const x = 9223372036854775807 + 1;\n"+hdr+"@compute @workgroup_size(1) fn main() { o[0] = 1u; }\n")
	for _, e := range []string{"3e38f * 10f", "3e38f + 3e38f", "-3e38f - 3e38f"} {
		probe("concrete-overflow", "f32", e, fmt.Sprintf("const x = %s;\n"+hdr+"@compute @workgroup_size(1) fn main() { o[0] = u32(x); }\n", e))
		probe("concrete-overflow(fn)", "f32", e, fmt.Sprintf(hdr+"@compute @workgroup_size(1) fn main() { const x = %s; o[0] = u32(x); }\n", e))
	}
}
