package checks

import (
	"fmt"
	"strings"

	"verif/internal/explore"
	"verif/internal/wgen"
)

// ---------------------------------------------------------------- C10 input generators
// Every generator is an indexed finite set: Count() and At(i). Nothing is random.

type c10Gen struct {
	Name  string
	Count int
	At    func(i int) string
	Label func(i int) string // short stable description of input i

	// Many, when set, makes index i a job that yields several inputs (At is then unused); SubLabel
	// names input j of job i.
	Many     func(i int) []string
	SubLabel func(i, j int) string
	// Resolve, when set, turns the generator's failures (sorted by index) into keyed violations after
	// the whole generator has run; otherwise every failure is keyed by its failure class alone.
	Resolve func(fs []c10Failure) []explore.Violation
	// Split > 0: indices [0,Split) run first; SkipEnv turns their failures into an environment
	// assignment ("NAME=value") handed to the workers of the remaining indices (the generator reads it
	// when it is built in the worker and yields nothing for the indices it decides to skip).
	Split   int
	SkipEnv func(fs []c10Failure) string
	// Light: run the inputs without the two non-default option sets (see c10RunOne)
	Light bool
}

func (g *c10Gen) label(i, j int) string {
	if g.Many != nil && g.SubLabel != nil {
		return g.Label(i) + " :: " + g.SubLabel(i, j)
	}
	return g.Label(i)
}

func (g *c10Gen) src(i, j int) string {
	if g.Many != nil {
		if m := g.Many(i); j < len(m) {
			return m[j]
		}
		return ""
	}
	return g.At(i)
}

var c10Alphabet = []string{"(", ")", "{", "}", "[", "]", "<", ">", ",", ";", ":", ".", "@", "=", "-", "*", "&", "a", "1", "fn", "var", "let", "struct", "array"}

var c10Contexts = []struct{ name, pre, post string }{
	{"module", "", ""},
	{"stmt", "fn f() { ", " }"},
	{"expr", "fn f() { let x = ", "; }"},
}

// genTokenStrings: every token string of length 1..L over the alphabet, in three contexts.
func genTokenStrings(L int) c10Gen {
	k := len(c10Alphabet)
	total := 0
	pow := 1
	var offs []int // start index of each length
	for l := 1; l <= L; l++ {
		pow *= k
		offs = append(offs, total)
		total += pow
	}
	decode := func(i int) (ctx int, toks []string) {
		ctx = i % len(c10Contexts)
		i /= len(c10Contexts)
		l := 0
		for l+1 < len(offs) && i >= offs[l+1] {
			l++
		}
		i -= offs[l]
		for j := 0; j <= l; j++ {
			toks = append(toks, c10Alphabet[i%k])
			i /= k
		}
		return
	}
	return c10Gen{Name: fmt.Sprintf("tokens<=%d", L), Count: total * len(c10Contexts),
		At: func(i int) string {
			ctx, toks := decode(i)
			return c10Contexts[ctx].pre + strings.Join(toks, " ") + c10Contexts[ctx].post
		},
		Label: func(i int) string {
			ctx, toks := decode(i)
			return c10Contexts[ctx].name + ":" + strings.Join(toks, " ")
		}}
}

// genTokenEdits: every single-token edit of every seed: delete, duplicate, swap with successor,
// replace by each alphabet token.
func genTokenEdits(seeds []wgen.Micro, double bool) c10Gen {
	type seedInfo struct {
		name string
		src  string
		toks []wgen.Tok
		base int
	}
	per := 3 + len(c10Alphabet)
	var infos []seedInfo
	total := 0
	for _, s := range seeds {
		t := wgen.Tokenize(s.Src, false)
		infos = append(infos, seedInfo{s.Name, s.Src, t, total})
		n := len(t) * per
		if double {
			n *= per // second edit at the following token
		}
		total += n
	}
	locate := func(i int) (*seedInfo, int) {
		lo, hi := 0, len(infos)-1
		for lo < hi {
			mid := (lo + hi + 1) / 2
			if infos[mid].base <= i {
				lo = mid
			} else {
				hi = mid - 1
			}
		}
		return &infos[lo], i - infos[lo].base
	}
	apply := func(src string, toks []wgen.Tok, pos, edit int) (string, []wgen.Tok) {
		if pos >= len(toks) {
			return src, toks
		}
		t := toks[pos]
		var out string
		switch {
		case edit == 0: // delete
			out = src[:t.Start] + src[t.End:]
		case edit == 1: // duplicate
			out = src[:t.End] + " " + t.Text + src[t.End:]
		case edit == 2: // swap with successor
			if pos+1 < len(toks) {
				u := toks[pos+1]
				out = src[:t.Start] + u.Text + src[t.End:u.Start] + t.Text + src[u.End:]
			} else {
				out = src
			}
		default:
			out = src[:t.Start] + c10Alphabet[edit-3] + src[t.End:]
		}
		return out, nil
	}
	return c10Gen{Name: "token-edits", Count: total,
		At: func(i int) string {
			s, r := locate(i)
			if double {
				e2 := r % per
				r /= per
				pos, e1 := r/per, r%per
				out, _ := apply(s.src, s.toks, pos, e1)
				t2 := wgen.Tokenize(out, false)
				out2, _ := apply(out, t2, pos+1, e2)
				return out2
			}
			pos, e := r/per, r%per
			out, _ := apply(s.src, s.toks, pos, e)
			return out
		},
		Label: func(i int) string {
			s, r := locate(i)
			return fmt.Sprintf("%s edit#%d", s.name, r)
		}}
}

var c10Bytes = []byte{0x00, 0x80, 0xC0, 0xFF, '\r', '/', '*', '"'}

// genByteEdits: every prefix and every single-byte substitution at every offset.
func genByteEdits(seeds []wgen.Micro) c10Gen {
	type info struct {
		name, src string
		base      int
	}
	var infos []info
	total := 0
	for _, s := range seeds {
		infos = append(infos, info{s.Name, s.Src, total})
		total += len(s.Src) * (1 + len(c10Bytes))
	}
	locate := func(i int) (*info, int) {
		k := 0
		for k+1 < len(infos) && infos[k+1].base <= i {
			k++
		}
		return &infos[k], i - infos[k].base
	}
	return c10Gen{Name: "byte-edits", Count: total,
		At: func(i int) string {
			s, r := locate(i)
			per := 1 + len(c10Bytes)
			off, e := r/per, r%per
			if e == 0 {
				return s.src[:off]
			}
			return s.src[:off] + string([]byte{c10Bytes[e-1]}) + s.src[off+1:]
		},
		Label: func(i int) string {
			s, r := locate(i)
			return fmt.Sprintf("%s byte#%d", s.name, r)
		}}
}

// genPrefixTailEdits: every prefix of every small seed with an invalid UTF-8 byte substituted at each of its last two
// positions (a source cut mid-token or mid-character, with an invalid byte next to the cut).
func genPrefixTailEdits(seeds []wgen.Micro) c10Gen {
	type info struct {
		name, src string
		base      int
	}
	var infos []info
	total := 0
	tail := []byte{0x80, 0xC0, 0xE2, 0xFF} // continuation byte, invalid lead bytes, first byte of a 3-byte sequence
	per := 2 * len(tail)
	for _, s := range seeds {
		infos = append(infos, info{s.Name, s.Src, total})
		total += len(s.Src) * per
	}
	locate := func(i int) (*info, int) {
		k := 0
		for k+1 < len(infos) && infos[k+1].base <= i {
			k++
		}
		return &infos[k], i - infos[k].base
	}
	return c10Gen{Name: "prefix-tail-edits", Count: total,
		At: func(i int) string {
			s, r := locate(i)
			cut, e := r/per+1, r%per
			pos, bi := e/len(tail), e%len(tail)
			p := []byte(s.src[:cut])
			if k := len(p) - 1 - pos; k >= 0 {
				p[k] = tail[bi]
			}
			return string(p)
		},
		Label: func(i int) string {
			s, r := locate(i)
			return fmt.Sprintf("%s prefix-tail#%d", s.name, r)
		}}
}

// ---------------------------------------------------------------- scaling ladders

type ladder struct {
	name  string
	sizes []int
	gen   func(n int) string
}

// ladderQuickMax: the quick tier takes only rungs n <= the value (ladders whose object grows faster than n)
var ladderQuickMax = map[string]int{"nested-big-arrays": 64}

func rep(s string, n int) string { return strings.Repeat(s, n) }

var depthSizes = []int{1, 8, 64, 512, 4096, 16384}
var bigN = []int{1, 256, 65536, 1 << 20, 1 << 24, 1 << 28, 1<<31 - 1, 1<<32 - 1}

const mainHdr = "@compute @workgroup_size(1) fn main() "

var c10Ladders = []ladder{
	{"nested-parens", depthSizes, func(n int) string { return "fn f() { let x = " + rep("(", n) + "1" + rep(")", n) + "; }" }},
	{"nested-blocks", depthSizes, func(n int) string { return "fn f() " + rep("{", n) + rep("}", n) }},
	{"nested-ifs", depthSizes, func(n int) string { return "fn f() { " + rep("if true { ", n) + rep("}", n) + " }" }},
	{"nested-loops", depthSizes, func(n int) string { return "fn f() { " + rep("loop { ", n) + rep("break; }", n) + " }" }},
	{"nested-switch", depthSizes, func(n int) string { return "fn f() { " + rep("switch 1 { default: { ", n) + rep("} }", n) + " }" }},
	{"unary-minus-chain", depthSizes, func(n int) string { return "fn f() { let x = " + rep("-", n) + "1; }" }},
	{"unary-not-chain", depthSizes, func(n int) string { return "fn f() { let x = " + rep("!", n) + "true; }" }},
	{"unary-compl-chain", depthSizes, func(n int) string { return "fn f() { let x = " + rep("~", n) + "1u; }" }},
	{"deref-addr-chain", depthSizes, func(n int) string { return "fn f() { var v = 1; let x = " + rep("*&", n) + "v; }" }},
	{"nested-array-type", depthSizes, func(n int) string { return "var<private> a: " + rep("array<", n) + "i32" + rep(", 1>", n) + ";" }},
	{"nested-array-type-used", depthSizes[:4], func(n int) string {
		return "var<private> a: " + rep("array<", n) + "i32" + rep(", 1>", n) + ";\n@group(0) @binding(0) var<storage, read_write> o: i32;\n" + mainHdr + "{ o = a" + rep("[0]", n) + "; }"
	}},
	{"nested-vec-template", depthSizes, func(n int) string { return "var<private> a: " + rep("vec2<", n) + "f32" + rep(">", n) + ";" }},
	{"nested-ptr-type", depthSizes, func(n int) string { return "fn f(p: " + rep("ptr<function, ", n) + "i32" + rep(">", n) + ") {}" }},
	{"struct-nesting-chain", depthSizes[:5], func(n int) string {
		var b strings.Builder
		b.WriteString("struct S0 { a: i32 }\n")
		for i := 1; i <= n; i++ {
			fmt.Fprintf(&b, "struct S%d { a: S%d }\n", i, i-1)
		}
		fmt.Fprintf(&b, "var<private> v: S%d;\n@group(0) @binding(0) var<storage, read_write> o: i32;\n%s{ o = v%s; }", n, mainHdr, rep(".a", n+1))
		return b.String()
	}},
	{"struct-nesting-chain-reverse", depthSizes[:5], func(n int) string {
		var b strings.Builder
		for i := n; i >= 1; i-- {
			fmt.Fprintf(&b, "struct S%d { a: S%d }\n", i, i-1)
		}
		b.WriteString("struct S0 { a: i32 }\n")
		fmt.Fprintf(&b, "var<private> v: S%d;", n)
		return b.String()
	}},
	{"alias-chain", depthSizes[:5], func(n int) string {
		var b strings.Builder
		for i := n; i >= 1; i-- {
			fmt.Fprintf(&b, "alias A%d = A%d;\n", i, i-1)
		}
		b.WriteString("alias A0 = i32;\n")
		fmt.Fprintf(&b, "var<private> v: A%d;", n)
		return b.String()
	}},
	{"const-chain", depthSizes[:5], func(n int) string {
		var b strings.Builder
		for i := n; i >= 1; i-- {
			fmt.Fprintf(&b, "const c%d = c%d + 1;\n", i, i-1)
		}
		b.WriteString("const c0 = 1;\n")
		return b.String()
	}},
	{"const-doubling", []int{1, 8, 16, 24, 30, 31, 62, 64, 512}, func(n int) string {
		var b strings.Builder
		b.WriteString("const c0 = 1;\n")
		for i := 1; i <= n; i++ {
			fmt.Fprintf(&b, "const c%d = c%d + c%d;\n", i, i-1, i-1)
		}
		return b.String()
	}},
	{"call-chain", depthSizes[:5], func(n int) string {
		var b strings.Builder
		b.WriteString("fn f0() -> i32 { return 1; }\n")
		for i := 1; i <= n; i++ {
			fmt.Fprintf(&b, "fn f%d() -> i32 { return f%d(); }\n", i, i-1)
		}
		fmt.Fprintf(&b, "@group(0) @binding(0) var<storage, read_write> o: i32;\n%s{ o = f%d(); }", mainHdr, n)
		return b.String()
	}},
	{"nested-call-args", depthSizes, func(n int) string {
		return "fn g(x: i32) -> i32 { return x; }\nfn f() { let x = " + rep("g(", n) + "1" + rep(")", n) + "; }"
	}},
	{"nested-builtin-args", depthSizes, func(n int) string { return "fn f() { let x = " + rep("abs(", n) + "1.0" + rep(")", n) + "; }" }},
	{"nested-constructors", depthSizes, func(n int) string { return "fn f() { let x = " + rep("vec4<f32>(", n) + "1.0" + rep(")", n) + "; }" }},
	{"nested-select", depthSizes[:5], func(n int) string {
		return "fn f(c: bool) { let x = " + rep("select(1, ", n) + "2" + rep(", c)", n) + "; }"
	}},
	{"index-chain", depthSizes, func(n int) string { return "fn f() { var a = array<i32, 1>(1); let x = a" + rep("[0]", n) + "; }" }},
	{"member-chain", depthSizes, func(n int) string { return "struct S { a: i32 }\nfn f() { var s: S; let x = s" + rep(".a", n) + "; }" }},
	{"swizzle-chain", depthSizes, func(n int) string { return "fn f() { let v = vec4<f32>(1.0); let x = v" + rep(".xyzw", n) + "; }" }},
	{"add-chain", depthSizes, func(n int) string { return "fn f() { let x = 1" + rep(" + 1", n) + "; }" }},
	{"add-chain-runtime", depthSizes, func(n int) string { return "fn f(a: i32) -> i32 { return a" + rep(" + a", n) + "; }" }},
	{"and-chain-runtime", depthSizes, func(n int) string {
		return "@group(0) @binding(0) var<storage, read_write> o: u32;\nfn f(a: bool) -> bool { return a" + rep(" && a", n) + "; }\n" + mainHdr + "{ o = u32(f(o == 1u)); }"
	}},
	{"or-chain-runtime", depthSizes, func(n int) string {
		return "@group(0) @binding(0) var<storage, read_write> o: u32;\nfn f(a: bool) -> bool { return a" + rep(" || a", n) + "; }\n" + mainHdr + "{ o = u32(f(o == 1u)); }"
	}},
	{"mul-paren-chain", depthSizes, func(n int) string {
		return "fn f(a: f32) -> f32 { return " + rep("(a * ", n) + "a" + rep(")", n) + "; }"
	}},
	{"else-if-chain", depthSizes[:5], func(n int) string {
		return "fn f(a: i32) -> i32 { if a == 0 { return 0; }" + rep(" else if a == 1 { return 1; }", n) + " return 2; }"
	}},
	{"long-identifier", []int{1, 64, 4096, 60000}, func(n int) string { return "var<private> " + rep("a", n) + ": i32;" }},
	{"long-int-literal", []int{1, 8, 20, 64, 4096, 60000}, func(n int) string { return "const c = 1" + rep("0", n) + ";" }},
	{"long-float-literal", []int{1, 8, 40, 400, 4096, 60000}, func(n int) string { return "const c = 1" + rep("0", n) + ".0;" }},
	{"long-float-fraction", []int{1, 8, 40, 400, 4096, 60000}, func(n int) string { return "const c = 0." + rep("0", n) + "1;" }},
	{"huge-exponent", []int{1, 38, 39, 308, 309, 4096, 1 << 30}, func(n int) string {
		return fmt.Sprintf("const c = 1e%d;\nconst d = 1e-%d;\nconst e = 1.0e%df;", n, n, n)
	}},
	{"long-hex-literal", []int{1, 8, 9, 16, 17, 4096}, func(n int) string { return "const c = 0x" + rep("F", n) + ";" }},
	{"hex-float-exponent", []int{1, 127, 128, 1023, 1024, 100000, 1 << 30}, func(n int) string { return fmt.Sprintf("const c = 0x1p%d;\nconst d = 0x1p-%d;", n, n) }},
	{"nested-block-comment", depthSizes, func(n int) string { return rep("/*", n) + rep("*/", n) + "\nconst c = 1;" }},
	{"unterminated-block-comment", depthSizes, func(n int) string { return "const c = 1;\n" + rep("/*", n) }},
	{"many-semicolons", depthSizes, func(n int) string { return rep(";", n) + "\nfn f() { " + rep(";", n) + " }" }},
	{"many-locals", depthSizes[:5], func(n int) string {
		var b strings.Builder
		b.WriteString("@group(0) @binding(0) var<storage, read_write> o: i32;\n" + mainHdr + "{\n")
		for i := 0; i < n; i++ {
			fmt.Fprintf(&b, "var v%d = %d;\n", i, i)
		}
		fmt.Fprintf(&b, "o = v%d; }", n-1)
		return b.String()
	}},
	{"many-functions", depthSizes[:5], func(n int) string {
		var b strings.Builder
		for i := 0; i < n; i++ {
			fmt.Fprintf(&b, "fn f%d() -> i32 { return %d; }\n", i, i)
		}
		return b.String()
	}},
	{"many-members", depthSizes[:5], func(n int) string {
		var b strings.Builder
		b.WriteString("struct S {\n")
		for i := 0; i < n; i++ {
			fmt.Fprintf(&b, "m%d: vec3<f32>,\n", i)
		}
		b.WriteString("}\n@group(0) @binding(0) var<storage, read_write> s: S;\n" + mainHdr + "{ s.m0 = s.m" + fmt.Sprint(n-1) + "; }")
		return b.String()
	}},
	{"many-params", []int{1, 8, 64, 512, 4096, 4500}, func(n int) string {
		var b strings.Builder
		b.WriteString("fn f(")
		for i := 0; i < n; i++ {
			fmt.Fprintf(&b, "p%d: i32, ", i)
		}
		b.WriteString(") -> i32 { return p0; }\n@group(0) @binding(0) var<storage, read_write> o: array<i32>;\n" + mainHdr + "{ o[0] = f(")
		for i := 0; i < n; i++ {
			fmt.Fprintf(&b, "%d, ", i)
		}
		b.WriteString("); }")
		return b.String()
	}},
	{"many-members-i32", []int{4096, 5000}, func(n int) string {
		var b strings.Builder
		b.WriteString("struct S {\n")
		for i := 0; i < n; i++ {
			fmt.Fprintf(&b, "m%d:i32,", i)
		}
		b.WriteString("}\n@group(0) @binding(0) var<storage, read_write> s: S;\n" + mainHdr + "{ s.m0 = s.m" + fmt.Sprint(n-1) + "; }")
		return b.String()
	}},
	{"many-cases", depthSizes[:5], func(n int) string {
		var b strings.Builder
		b.WriteString("fn f(a: i32) -> i32 { switch a {\n")
		for i := 0; i < n; i++ {
			fmt.Fprintf(&b, "case %d: { return %d; }\n", i, i)
		}
		b.WriteString("default: { return -1; } } }")
		return b.String()
	}},
	{"many-case-selectors", depthSizes[:5], func(n int) string {
		var b strings.Builder
		b.WriteString("fn f(a: i32) -> i32 { switch a { case 0")
		for i := 1; i < n; i++ {
			fmt.Fprintf(&b, ", %d", i)
		}
		b.WriteString(": { return 1; } default: { return -1; } } }")
		return b.String()
	}},
	{"many-globals", depthSizes[:5], func(n int) string {
		var b strings.Builder
		for i := 0; i < n; i++ {
			fmt.Fprintf(&b, "var<private> g%d: i32 = %d;\n", i, i)
		}
		return b.String()
	}},
	{"many-bindings", []int{1, 8, 64, 512}, func(n int) string {
		var b strings.Builder
		for i := 0; i < n; i++ {
			fmt.Fprintf(&b, "@group(0) @binding(%d) var<storage, read_write> b%d: array<u32>;\n", i, i)
		}
		b.WriteString(mainHdr + "{\n")
		for i := 0; i < n; i++ {
			fmt.Fprintf(&b, "b%d[0] = %du;\n", i, i)
		}
		b.WriteString("}")
		return b.String()
	}},
	{"many-attributes", depthSizes[:5], func(n int) string { return rep("@must_use ", n) + "fn f() -> i32 { return 1; }" }},
	{"array-ctor-elements", depthSizes[:5], func(n int) string {
		return fmt.Sprintf("@group(0) @binding(0) var<storage, read_write> o: i32;\n%s{ var a = array<i32, %d>(1%s); o = a[0]; }", mainHdr, n, rep(", 1", n-1))
	}},
	// ---- size ladders: a short source requesting a huge object
	{"private-array-size", bigN, func(n int) string {
		return fmt.Sprintf("var<private> a: array<i32, %d>;\n@group(0) @binding(0) var<storage, read_write> o: i32;\n%s{ o = a[0]; }", n, mainHdr)
	}},
	{"workgroup-array-size", bigN, func(n int) string {
		return fmt.Sprintf("var<workgroup> a: array<u32, %d>;\n@group(0) @binding(0) var<storage, read_write> o: u32;\n%s{ o = a[0]; }", n, mainHdr)
	}},
	{"storage-array-size", bigN, func(n int) string {
		return fmt.Sprintf("@group(0) @binding(0) var<storage, read_write> a: array<vec4<f32>, %d>;\n%s{ a[0] = a[1]; }", n, mainHdr)
	}},
	{"local-array-size", bigN, func(n int) string {
		return fmt.Sprintf("@group(0) @binding(0) var<storage, read_write> o: i32;\n%s{ var a: array<i32, %d>; o = a[0]; }", mainHdr, n)
	}},
	{"zero-value-array-size", bigN, func(n int) string {
		return fmt.Sprintf("@group(0) @binding(0) var<storage, read_write> o: i32;\n%s{ let a = array<i32, %d>(); o = a[0]; }", mainHdr, n)
	}},
	{"const-zero-array-size", bigN, func(n int) string {
		return fmt.Sprintf("const K = array<i32, %d>();\n@group(0) @binding(0) var<storage, read_write> o: i32;\n%s{ o = K[0]; }", n, mainHdr)
	}},
	{"private-init-array-size", bigN, func(n int) string {
		return fmt.Sprintf("var<private> a: array<i32, %d> = array<i32, %d>();\n@group(0) @binding(0) var<storage, read_write> o: i32;\n%s{ o = a[0]; }", n, n, mainHdr)
	}},
	// n^3 elements: n=256 is a 64 MiB object whose element-wise zero value costs tens of CPU seconds (below the
	// cap on an idle machine, above it on a loaded one), so the quick tier stops at n=64 (2^18 elements)
	{"nested-big-arrays", []int{1, 64, 256, 65535}, func(n int) string {
		return fmt.Sprintf("var<private> a: array<array<array<u32, %d>, %d>, %d>;\n@group(0) @binding(0) var<storage, read_write> o: u32;\n%s{ o = a[0][0][0]; }", n, n, n, mainHdr)
	}},
	{"struct-of-big-arrays-zero", bigN[:7], func(n int) string {
		return fmt.Sprintf("struct S { a: array<vec4<f32>, %d>, b: array<mat4x4<f32>, %d> }\n@group(0) @binding(0) var<storage, read_write> o: f32;\n%s{ let s = S(); o = s.a[0].x; }", n, n, mainHdr)
	}},
	{"workgroup-size-huge", bigN, func(n int) string {
		return fmt.Sprintf("@compute @workgroup_size(%d, %d, %d) fn main() {}", n, n, n)
	}},
	{"binding-number-huge", bigN, func(n int) string {
		return fmt.Sprintf("@group(%d) @binding(%d) var<storage, read_write> o: u32;\n%s{ o = 1u; }", n, n, mainHdr)
	}},
	{"location-huge", bigN, func(n int) string {
		return fmt.Sprintf("@fragment fn fs(@location(%d) a: f32) -> @location(%d) vec4<f32> { return vec4<f32>(a); }", n, n)
	}},
	{"align-size-huge", bigN, func(n int) string {
		return fmt.Sprintf("struct S { @align(%d) a: f32, @size(%d) b: f32 }\n@group(0) @binding(0) var<storage, read_write> s: S;\n%s{ s.a = s.b; }", n, n, mainHdr)
	}},
	{"shift-amount-huge", bigN, func(n int) string {
		return fmt.Sprintf("const c = 1u << %du;\nconst d = 1 << %d;\nfn f(a: u32) -> u32 { return a >> %du; }", n, n, n)
	}},
	{"vector-index-huge", bigN, func(n int) string {
		return fmt.Sprintf("fn f() -> f32 { let v = vec4<f32>(1.0); var a = array<f32, 4>(); return v[%d] + a[%d]; }", n, n)
	}},
}

// cyclic / self-referential seeds (fixed programs)
var c10Cyclic = []wgen.Micro{
	{Name: "self-struct", Src: "struct S { a: S }\nvar<private> v: S;"},
	{Name: "mutual-struct", Src: "struct A { b: B }\nstruct B { a: A }\nvar<private> v: A;"},
	{Name: "struct-array-self", Src: "struct S { a: array<S, 2> }\nvar<private> v: S;"},
	{Name: "struct-runtime-array-self", Src: "struct S { a: array<S> }\n@group(0) @binding(0) var<storage> v: S;"},
	{Name: "alias-cycle", Src: "alias A = B;\nalias B = A;\nvar<private> v: A;"},
	{Name: "alias-self", Src: "alias A = A;\nvar<private> v: A;"},
	{Name: "alias-array-self", Src: "alias A = array<A, 2>;\nvar<private> v: A;"},
	{Name: "alias-vec-self", Src: "alias A = vec2<A>;\nvar<private> v: A;"},
	{Name: "alias-ptr-self", Src: "alias A = ptr<function, A>;\nfn f(p: A) {}"},
	{Name: "alias-struct-cycle", Src: "alias A = S;\nstruct S { a: A }\nvar<private> v: S;"},
	{Name: "const-cycle", Src: "const a = b;\nconst b = a;"},
	{Name: "const-self", Src: "const a = a + 1;"},
	{Name: "override-cycle", Src: "override a: i32 = b;\noverride b: i32 = a;"},
	{Name: "global-init-cycle", Src: "var<private> a: i32 = b;\nvar<private> b: i32 = a;"},
	{Name: "const-type-cycle", Src: "const n = arr[0];\nconst arr = array<i32, n>(1);"},
	{Name: "array-size-self", Src: "var<private> a: array<i32, a>;"},
	{Name: "recursive-fn", Src: "fn f(x: i32) -> i32 { return f(x); }\n@group(0) @binding(0) var<storage, read_write> o: i32;\n" + mainHdr + "{ o = f(1); }"},
	{Name: "mutual-recursive-fn", Src: "fn f(x: i32) -> i32 { return g(x); }\nfn g(x: i32) -> i32 { return f(x); }\n@group(0) @binding(0) var<storage, read_write> o: i32;\n" + mainHdr + "{ o = f(1); }"},
	{Name: "entry-calls-itself", Src: "@group(0) @binding(0) var<storage, read_write> o: i32;\n" + mainHdr + "{ main(); }"},
	{Name: "fn-named-like-struct", Src: "struct f { a: i32 }\nfn f() -> f { return f(1); }"},
	{Name: "struct-member-own-type-ctor", Src: "struct S { a: i32 }\nconst k = S(S(1).a);"},
	{Name: "zero-sized-things", Src: "var<private> a: array<i32, 0>;\nstruct E {}\nvar<private> e: E;"},
	{Name: "negative-array", Src: "var<private> a: array<i32, -1>;"},
	{Name: "call-undefined-in-const", Src: "const c = nope(1);"},
	{Name: "value-less-call-in-expr", Src: "fn v() {}\nfn f() { let x = v(); let y = v() + 1; }"},
	{Name: "void-as-arg", Src: "fn v() {}\nfn g(a: i32) {}\nfn f() { g(v()); }"},
	{Name: "return-void-call", Src: "fn v() {}\nfn f() -> i32 { return v(); }"},
	{Name: "index-void-call", Src: "fn v() {}\nfn f() { let x = v()[0]; let y = v().x; }"},
	{Name: "store-to-void-call", Src: "fn v() {}\nfn f() { v() = 1; }"},
	{Name: "atomic-on-nonatomic", Src: "var<workgroup> a: u32;\n" + mainHdr + "{ atomicAdd(&a, 1u); }"},
	{Name: "ptr-to-ptr", Src: "fn f() { var x = 1; let p = &x; let q = &p; }"},
	{Name: "deref-nonptr", Src: "fn f() { let x = 1; let y = *x; }"},
	{Name: "texture-misuse", Src: "@group(0) @binding(0) var t: texture_2d<f32>;\n@fragment fn fs() -> @location(0) vec4<f32> { return t; }"},
	{Name: "sampler-arith", Src: "@group(0) @binding(0) var s: sampler;\n@fragment fn fs() -> @location(0) vec4<f32> { let x = s + s; return vec4<f32>(0.0); }"},
	{Name: "entry-no-body-stage-mix", Src: "@vertex @fragment fn vs() -> @builtin(position) vec4<f32> { return vec4<f32>(0.0); }"},
	{Name: "missing-return", Src: "fn f() -> i32 { }\n" + mainHdr + "{ let x = f(); }"},
	{Name: "bom-and-nul", Src: "\xEF\xBB\xBFconst a = 1;\x00const b = 2;"},
	{Name: "only-at", Src: "@"},
	{Name: "only-template", Src: "<"},
	{Name: "lonely-brace", Src: "}"},
	{Name: "empty", Src: ""},
	{Name: "whitespace-only", Src: " \t\r\n"},
}

func genLadders(maxDepth, maxBig int) c10Gen {
	type ent struct {
		l *ladder
		n int
	}
	var ents []ent
	for i := range c10Ladders {
		l := &c10Ladders[i]
		for _, n := range l.sizes {
			maxN := maxDepth
			if l.sizes[len(l.sizes)-1] > 1<<20 {
				maxN = maxBig // object-size ladder
			}
			wide := strings.HasPrefix(l.name, "many-") && n <= 5000 // wide-but-flat constructs are cheap: keep their large rungs in the quick tier
			if n > maxN && n != 1<<31-1 && n != 1<<32-1 && !wide {
				continue // quick tier: small rungs only (plus the two integer-limit values)
			}
			if q := ladderQuickMax[l.name]; q > 0 && maxDepth < 1<<62 && n > q {
				continue
			}
			if s := l.gen(n); len(s) <= 65536 {
				ents = append(ents, ent{l, n})
			}
		}
	}
	return c10Gen{Name: "ladders", Count: len(ents) + len(c10Cyclic),
		At: func(i int) string {
			if i < len(ents) {
				return ents[i].l.gen(ents[i].n)
			}
			return c10Cyclic[i-len(ents)].Src
		},
		Label: func(i int) string {
			if i < len(ents) {
				return fmt.Sprintf("ladder:%s n=%d", ents[i].l.name, ents[i].n)
			}
			return "fixed:" + c10Cyclic[i-len(ents)].Name
		}}
}

// genValid: all valid generated programs and seeds (a crash on a valid program is also C10).
func genValid(fams []*wgen.Family, texts []wgen.Micro) c10Gen {
	total := len(texts)
	var bases []int
	for _, f := range fams {
		bases = append(bases, total)
		total += f.Count
	}
	find := func(i int) (*wgen.Family, int) {
		for k := len(fams) - 1; k >= 0; k-- {
			if i >= bases[k] {
				return fams[k], i - bases[k]
			}
		}
		return nil, i
	}
	return c10Gen{Name: "valid-programs", Count: total,
		At: func(i int) string {
			if f, j := find(i); f != nil {
				return wgen.Print(f.At(j).Mod)
			}
			return texts[i].Src
		},
		Label: func(i int) string {
			if f, j := find(i); f != nil {
				return f.At(j).Sig
			}
			return texts[i].Name
		}}
}
