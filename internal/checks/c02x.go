package checks

import (
	"bytes"
	"fmt"
	"sort"
	"strings"
	"sync/atomic"
	"time"

	"github.com/gogpu/naga/ir"
	"github.com/gogpu/naga/spirv"

	"verif/internal/explore"
	"verif/internal/nagax"
	"verif/internal/spvval"
	"verif/internal/wgen"
)

// C02 extensions:
//   (1) F1s "every feature alone" programs (internal/wgen/f1s.go): the README-listed subset is contributed to
//       every consumer of the shared valid-program families, the rest is checked here only;
//   (2) F1sMany "many types / many functions" modules (ids of 1-3 decimal digits, near-colliding cache keys);
//   (3) further option deviations for programs with resources: image bounds-check policies and
//       CapabilitiesAvailable restrictions;
//   (4) the history dimension: every ordered pair (and every triple of a core) of a module cover set on ONE
//       reused spirv.Backend; the later outputs are validated with the full rule set.

func init() {
	validExtra = append(validExtra,
		func(thorough bool) *wgen.Family { return wgen.F1sShared() },
		func(thorough bool) *wgen.Family { return wgen.F1sMany() })
	extraFamilyByName["F1sShared"] = wgen.F1sShared
	extraFamilyByName["F1sMany"] = wgen.F1sMany
	extraFamilyByName["F1sRest"] = func() *wgen.Family { return wgen.F1sRest(false) }
	extraFamilyByName["F1sRestT"] = func() *wgen.Family { return wgen.F1sRest(true) }
}

const c02ExtraRule = "Extensions: F1s = one module per overload of every texture / derivative / subgroup / quad / packing / atomic / barrier builtin function, every @builtin value and interpolation mode per stage, and every capability-bearing type (f16/i64/u64/f64, 64-bit and float atomics, binding arrays, ray queries, push constants) in every stage WGSL allows, each alone in its module, under every option set within 1 deviation plus image bounds-check policies and CapabilitiesAvailable restrictions; F1sMany = modules with N in {8,24,40,110} distinct types and p/r/pr/p2/pointer-parameter functions per type in three declaration orders (ids of 1-3 digits); history = every ordered pair of the module cover set (and every triple of its core) compiled on ONE reused spirv.Backend under default / 1.0 / 1.3 options, every later output that differs from the fresh-backend output validated with the full rule set (an identical output inherits the fresh verdict)"

// c02WantsExtra: programs that see the additional option deviations (they have images / capabilities to restrict).
func c02WantsExtra(p *prog) bool {
	return p.Case == nil || strings.HasPrefix(p.Case.Family, "F1s")
}

// c02AllCaps: every capability the public API exports (an explicit allow-list equal to "everything").
var c02AllCaps = []spirv.Capability{
	spirv.CapabilityMatrix, spirv.CapabilityShader, spirv.CapabilityFloat16, spirv.CapabilityFloat64, spirv.CapabilityInt64, spirv.CapabilityInt16,
	spirv.CapabilityImageGatherExtended, spirv.CapabilityInt8, spirv.CapabilityLinkage, spirv.CapabilityInt64Atomics, spirv.CapabilityClipDistance,
	spirv.CapabilityImageCubeArray, spirv.CapabilitySampleRateShading, spirv.CapabilitySampled1D, spirv.CapabilityImage1D, spirv.CapabilitySampledCubeArray,
	spirv.CapabilityStorageImageExtendedFormats, spirv.CapabilityImageQuery, spirv.CapabilityDerivativeControl, spirv.CapabilityStorageBuffer16BitAccess,
	spirv.CapabilityUniformAndStorageBuffer16BitAccess, spirv.CapabilityStorageInputOutput16, spirv.CapabilityMultiView, spirv.CapabilityFragmentBarycentricKHR,
	spirv.CapabilityShaderNonUniform, spirv.CapabilityAtomicFloat32AddEXT, spirv.CapabilityDotProductInput4x8BitPacked, spirv.CapabilityDotProduct,
	spirv.CapabilityGroupNonUniform, spirv.CapabilityGroupNonUniformVote, spirv.CapabilityGroupNonUniformArithmetic, spirv.CapabilityGroupNonUniformBallot,
	spirv.CapabilityGroupNonUniformShuffle, spirv.CapabilityGroupNonUniformShuffleRel, spirv.CapabilityGroupNonUniformQuad, spirv.CapabilityGeometry,
	spirv.CapabilitySubgroupBallotKHR, spirv.CapabilityInt64ImageEXT,
}

func c02CapSet(cs ...spirv.Capability) map[spirv.Capability]struct{} {
	m := map[spirv.Capability]struct{}{}
	for _, c := range cs {
		m[c] = struct{}{}
	}
	return m
}

// c02ExtraConfigs: option deviations beyond nagax.SPIRVConfigs — the three image/index bounds-check policies and
// CapabilitiesAvailable in {minimal, minimal + image queries, everything}. Thorough: each also at every version.
func c02ExtraConfigs(thorough bool) []nagax.SPIRVConfig {
	type dv struct {
		label string
		apply func(o *spirv.Options)
	}
	pol := func(p spirv.BoundsCheckPolicy) func(o *spirv.Options) {
		return func(o *spirv.Options) {
			o.BoundsCheckPolicies = spirv.BoundsCheckPolicies{ImageLoad: p, ImageStore: p, Index: p}
		}
	}
	devs := []dv{
		{"bounds=restrict", pol(spirv.BoundsCheckRestrict)},
		{"bounds=rzsw", pol(spirv.BoundsCheckReadZeroSkipWrite)},
		{"caps=minimal", func(o *spirv.Options) {
			o.CapabilitiesAvailable = c02CapSet(spirv.CapabilityMatrix, spirv.CapabilityShader)
		}},
		{"caps=minimal+query", func(o *spirv.Options) {
			o.CapabilitiesAvailable = c02CapSet(spirv.CapabilityMatrix, spirv.CapabilityShader, spirv.CapabilityImageQuery)
		}},
		{"caps=all", func(o *spirv.Options) { o.CapabilitiesAvailable = c02CapSet(c02AllCaps...) }},
		{"bounds=restrict+caps=minimal", func(o *spirv.Options) {
			pol(spirv.BoundsCheckRestrict)(o)
			o.CapabilitiesAvailable = c02CapSet(spirv.CapabilityMatrix, spirv.CapabilityShader)
		}},
		{"bounds=rzsw+caps=minimal", func(o *spirv.Options) {
			pol(spirv.BoundsCheckReadZeroSkipWrite)(o)
			o.CapabilitiesAvailable = c02CapSet(spirv.CapabilityMatrix, spirv.CapabilityShader)
		}},
	}
	var out []nagax.SPIRVConfig
	for _, d := range devs {
		o := spirv.DefaultOptions()
		d.apply(&o)
		out = append(out, nagax.SPIRVConfig{Label: d.label, Dev: 1, Opts: o})
	}
	if thorough {
		for _, v := range []spirv.Version{spirv.Version1_0, spirv.Version1_2, spirv.Version1_3, spirv.Version1_4, spirv.Version1_5, spirv.Version1_6} {
			for _, d := range devs {
				o := spirv.DefaultOptions()
				o.Version = v
				d.apply(&o)
				out = append(out, nagax.SPIRVConfig{Label: fmt.Sprintf("v%d.%d+%s", v.Major, v.Minor, d.label), Dev: 2, Opts: o})
			}
		}
	}
	return out
}

func c02Extra(r *explore.Run, rs *ruleStats, texts []wgen.Micro) {
	t0 := time.Now()
	defer func() { r.Extra("extensions_wall_s", time.Since(t0).Seconds()) }()
	extra := c02ExtraConfigs(r.Thorough())
	r.Extra("extra_configs", len(extra))
	// (1) the F1s programs outside the shared subset: standard deviations + the extra ones
	rest := wgen.F1sRest(r.Thorough())
	forEachProgram(r, []*wgen.Family{rest}, nil, func(p *prog) {
		c02Program(r, p, 1, rs)
		c02ProgramConfigs(r, p, extra, rs)
	})
	// (2) the extra deviations for the shared F1s programs, the many-types modules, the micro-programs and the corpus
	for _, f := range []*wgen.Family{wgen.F1sShared(), wgen.F1sMany()} {
		f := f
		r.ParallelFor(f.Count, func(i int) {
			c := f.At(i)
			c02ProgramConfigs(r, &prog{Sig: c.Sig, Src: wgen.Print(c.Mod), Case: c}, extra, rs)
		})
	}
	img := wgen.F1sImages()
	xt := append([]wgen.Micro{{Name: img.Sig, Src: img.Src}}, texts...)
	r.ParallelFor(len(xt), func(i int) {
		p := &prog{Sig: xt[i].Name, Src: xt[i].Src}
		if i == 0 {
			c02Program(r, p, 1, rs)
		}
		c02ProgramConfigs(r, p, extra, rs)
	})
	// (3) history
	c02History(r, rs)
}

// ---------------------------------------------------------------- history dimension

// c02CoverSigs: the module cover set, most state-changing first (the first c02Core* entries are the core whose
// triples are enumerated). Chosen so that every piece of backend-level state a compile can touch is touched by
// some module: version bump (by-value copies of workgroup/uniform composites), Float16 / Int64 / Float64 / Int8
// capabilities, 16-bit storage classes incl. Input/Output, 64-bit and float atomics, ray query, descriptor
// indexing, push constants, multiview, sample-rate shading, sample mask, frag depth, clip distances, primitive id,
// subgroup / quad operations and builtins, packed dot product, derivative control, image query, 1D / cube-array /
// multisampled / extended-format images, workgroup memory and atomics, all three stages and several entry points.
var c02CoverSigs = []string{
	"F1s/type/workgroup/struct/copy/compute",
	"micro/shared_binding_two_entry_points",
	"F1s/type/f16/vec2<f16>/location/vertex",
	"F1s/subgroupAdd/f32/compute",
	"F1s/builtin/sample_mask/in+out/fragment",
	"F1s/type/ray_query/compute",
	"F1s/textureStore/storage_2d<rg32float,write>/co=i32/compute",
	"F1s/type/i64/i64/storage/compute",
	"F1s/type/uniform/struct/copy/compute",
	"F1s/fwidthFine/f32/fragment",
	"F1s/builtin/position/struct/pos-first/vertex",
	"F1s/type/f16/vec4<f16>/storage/compute",
	"F1s/atomic/workgroup/u32/bare/atomicAdd/compute",
	"F1s/textureSample/cube_array<f32>/ai=i32/fragment",
	"F1sMany/n=24/fwd",
	// --- end of the thorough core (15)
	"F1s/type/workgroup/array<u32, 4>/copy/compute",
	"F1s/type/workgroup/nested/copy/compute",
	"F1s/type/private/struct/copy/compute",
	"F1s/type/f16/f16/uniform/compute",
	"F1s/type/f16/vec2<f16>/location/fragment",
	"F1s/type/f64/f64/storage/compute",
	"F1s/type/atomic64/u64/storage/atomicAdd/compute",
	"F1s/type/atomicf32/storage/atomicAdd/compute",
	"F1s/type/binding_array/sized-dynamic/fragment",
	"F1s/type/push_constant/compute",
	"F1s/type/ray_query/fragment",
	"F1s/builtin/sample_index/param/fragment",
	"F1s/builtin/frag_depth/bare/fragment",
	"F1s/builtin/view_index/i32/param/fragment",
	"F1s/builtin/clip_distances/4/vertex",
	"F1s/builtin/primitive_index/param/fragment",
	"F1s/builtin/num_workgroups/param/wg=1/compute",
	"F1s/builtin/interpolate/perspective/sample/fragment",
	"F1s/builtin/subgroup_size/compute",
	"F1s/subgroupBallot/fragment",
	"F1s/quadSwapX/vec4<f32>/fragment",
	"F1s/subgroupShuffle/u32/id=u32/compute",
	"F1s/subgroupAll/compute",
	"F1s/dot4I8Packed/compute",
	"F1s/pack4xI8/compute",
	"F1s/dpdx/vec2<f32>/fragment",
	"F1s/textureLoad/1d<f32>/co=i32/lvl=i32/compute",
	"F1s/textureDimensions/2d<f32>/compute",
	"F1s/textureNumSamples/multisampled_2d<f32>/fragment",
	"F1s/textureGather/2d<f32>/c=0/offset/fragment",
	"F1s/textureLoad/storage_3d<r32uint,read_write>/co=u32/fragment",
	"F1s/atomic/storage/i32/member/atomicCompareExchangeWeak/old/compute",
	"F1s/workgroupBarrier/compute",
	"F1s/workgroupUniformLoad/vec2<f32>/compute",
	"F1s/arrayLength/u32/compute",
	"F1s/builtin/discard/fragment",
	"micro/vertex_fragment_io_structs",
	"micro/multi_entry_points_mixed_stages_shared_helpers",
	"micro/textures_and_samplers",
	"micro/atomics_workgroup_barriers",
}

const (
	c02CoreQuick    = 8
	c02CoreThorough = 15
)

// c02CoverSet resolves the cover signatures to sources (missing ones are reported, never silently dropped).
func c02CoverSet() (out []wgen.Micro, missing []string) {
	by := map[string]string{}
	for _, p := range wgen.F1sPrograms(false) {
		by[p.Sig] = p.Src
	}
	for _, p := range wgen.F1sManyPrograms() {
		by[p.Sig] = p.Src
	}
	for _, m := range wgen.Micros {
		by["micro/"+m.Name] = m.Src
	}
	for _, s := range c02CoverSigs {
		if src, ok := by[s]; ok {
			out = append(out, wgen.Micro{Name: s, Src: src})
		} else {
			missing = append(missing, s)
		}
	}
	return
}

type c02HistEnt struct {
	name string
	mod  *ir.Module
	solo map[string][]byte          // option set -> output of a fresh backend
	base map[string]map[string]bool // option set -> finding classes of the fresh output
}

func c02FindingSet(rep *spvval.Report) map[string]bool {
	s := map[string]bool{}
	for _, f := range rep.Findings {
		s[f.Rule+"|"+errClass(f.Detail)] = true
	}
	return s
}

type c02OptSet struct {
	name string
	o    spirv.Options
}

func c02HistOptSets() []c02OptSet {
	mk := func(name string, f func(o *spirv.Options)) c02OptSet {
		o := spirv.DefaultOptions()
		f(&o)
		return c02OptSet{name, o}
	}
	return []c02OptSet{
		mk("default", func(o *spirv.Options) {}),
		mk("v1.0", func(o *spirv.Options) { o.Version = spirv.Version1_0 }),
		mk("v1.3", func(o *spirv.Options) { o.Version = spirv.Version1_3 }),
		mk("debug", func(o *spirv.Options) { o.Debug = true }),
	}
}

// c02Hist is the state of the history exploration: the cover modules with the outputs and verdicts of fresh backends.
type c02Hist struct {
	r       *explore.Run
	rs      *ruleStats
	optsets []c02OptSet
	ents    []*c02HistEnt

	seqs, outputs, differing, validated int64
}

func c02NewHist(r *explore.Run, rs *ruleStats, cover []wgen.Micro) *c02Hist {
	h := &c02Hist{r: r, rs: rs, optsets: c02HistOptSets()}
	for _, p := range cover {
		m, _, err, pn := nagax.Front(p.Src)
		if err != nil || pn != nil {
			r.Skip("history: cover module rejected by the front end (C08)")
			continue
		}
		e := &c02HistEnt{name: p.Name, mod: m, solo: map[string][]byte{}, base: map[string]map[string]bool{}}
		for _, os := range h.optsets {
			b, err, pn := nagax.SPIRV(m, os.o)
			if err != nil || pn != nil {
				continue // not compilable under this option set: the module still takes part as a predecessor
			}
			e.solo[os.name] = b
			e.base[os.name] = c02FindingSet(spvval.Validate(b))
		}
		h.ents = append(h.ents, e)
	}
	return h
}

// judge examines one output of a history against the fresh output of the same module.
func (h *c02Hist) judge(e *c02HistEnt, os string, out []byte, err error, hist []string) {
	r := h.r
	solo, ok := e.solo[os]
	if !ok || err != nil {
		return // acceptance is C08's / C12's matter
	}
	atomic.AddInt64(&h.outputs, 1)
	if bytes.Equal(out, solo) {
		return // same bytes as the fresh compile, which the per-program pass validates
	}
	atomic.AddInt64(&h.differing, 1)
	rep := spvval.Validate(out)
	atomic.AddInt64(&h.validated, 1)
	r.Count("evaluations", 1)
	if h.rs != nil {
		h.rs.mu.Lock()
		for k, v := range rep.Fired {
			h.rs.fired[k] += int64(v)
		}
		h.rs.mu.Unlock()
	}
	if len(rep.Unsupported) > 0 {
		r.Skip("validator: unsupported construct (verdict undecided)")
		return
	}
	seen := map[string]bool{}
	for _, f := range rep.Findings {
		cls := f.Rule + "|" + errClass(f.Detail)
		if e.base[os][cls] || seen[cls] {
			continue // the fresh output has the same finding: reported (or known) through the per-program pass
		}
		seen[cls] = true
		prev := strings.Join(hist[:len(hist)-1], " ; ")
		r.Violate(explore.Violation{Key: "C02|history|" + cls + "|after " + prev + "|" + os,
			Detail: fmt.Sprintf("SPIR-V for %s compiled on a spirv.Backend that previously compiled [%s] (options %s) breaks rule %s: %s (the output of a fresh backend does not)", e.name, prev, os, f.Rule, f.Detail),
			Replay: map[string]any{"sig": c02HistSigPrefix + os + "|" + strings.Join(hist, "|"), "src": "", "history": append([]string(nil), hist...), "options": os, "kind": "backend-reuse"}})
	}
}

// run compiles the modules idx in order on one new backend and judges every output after the first.
func (h *c02Hist) run(os c02OptSet, idx []int) {
	defer func() { recover() }()
	be := spirv.NewBackend(os.o)
	var hist []string
	for k, i := range idx {
		e := h.ents[i]
		out, err := be.Compile(e.mod)
		hist = append(hist, e.name)
		if k == 0 && len(idx) > 1 {
			continue // first compile on a new backend == fresh compile (C12 compares the bytes)
		}
		h.judge(e, os.name, append([]byte(nil), out...), err, hist)
	}
	atomic.AddInt64(&h.seqs, 1)
}

const c02HistSigPrefix = "C02history|"

// c02HistoryReplay re-runs one recorded history ("C02history|<options>|<module>|<module>...").
func c02HistoryReplay(r *explore.Run, sig string) {
	parts := strings.Split(strings.TrimPrefix(sig, c02HistSigPrefix), "|")
	if len(parts) < 2 {
		return
	}
	all, _ := c02CoverSet()
	by := map[string]wgen.Micro{}
	for _, m := range all {
		by[m.Name] = m
	}
	var cover []wgen.Micro
	var idx []int
	for _, name := range parts[1:] {
		m, ok := by[name]
		if !ok {
			return
		}
		idx = append(idx, len(cover))
		cover = append(cover, m)
	}
	h := c02NewHist(r, nil, cover)
	if len(h.ents) != len(cover) {
		return
	}
	for _, os := range h.optsets {
		if os.name == parts[0] {
			h.run(os, idx)
		}
	}
}

func c02History(r *explore.Run, rs *ruleStats) {
	cover, missing := c02CoverSet()
	for _, m := range missing {
		fmt.Println("HARNESS-ERROR: C02 history cover module not found:", m)
		r.NotExhaustive("history cover module missing: " + m)
	}
	h := c02NewHist(r, rs, cover)
	n := len(h.ents)
	r.Extra("history_modules", n)
	r.Extra("history_option_sets", len(h.optsets))
	r.ParallelFor(n*n, func(k int) {
		for _, os := range h.optsets {
			h.run(os, []int{k / n, k % n})
		}
	})
	core := c02CoreQuick
	if r.Thorough() {
		core = c02CoreThorough
	}
	if core > n {
		core = n
	}
	r.ParallelFor(core*core*core, func(k int) {
		for _, os := range h.optsets {
			h.run(os, []int{k / (core * core), (k / core) % core, k % core})
		}
	})
	r.Extra("history_sequences", h.seqs)
	r.Extra("history_outputs_judged", h.outputs)
	r.Extra("history_outputs_differing_from_fresh", h.differing)
	r.Extra("history_outputs_validated", h.validated)
	r.Extra("history_core", core)
	names := make([]string, 0, n)
	for _, e := range h.ents {
		names = append(names, e.name)
	}
	sort.Strings(names)
	r.Extra("history_cover", names)
	r.Count("transitions", h.seqs*2)
	if n >= 2 {
		r.Sample(map[string]any{"history": []string{h.ents[0].name, h.ents[1].name}, "on": "one spirv.NewBackend(opts)", "options": "default | v1.0 | v1.3 | debug",
			"oracle": "every output after the first: identical to the fresh-backend output (whose verdict it inherits) or validated with the full rule set"})
	}
}
