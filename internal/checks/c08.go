package checks

import (
	"github.com/gogpu/naga/ir"
	"strings"

	"verif/internal/explore"
	"verif/internal/nagax"
	"verif/internal/wgen"
)

func init() {
	Registry["C08"] = runC08
	perProgram["C08"] = c08Program
}

func entryNames(m *ir.Module) []string {
	var out []string
	for i := range m.EntryPoints {
		out = append(out, m.EntryPoints[i].Name)
	}
	return out
}

func hasStage(m *ir.Module, st ir.ShaderStage) bool {
	for i := range m.EntryPoints {
		if m.EntryPoints[i].Stage == st {
			return true
		}
	}
	return false
}

func c08Program(r *explore.Run, p *prog) {
	sc := sigClass(p.Sig)
	fail := func(stage, cfg string, msg string) {
		r.Violate(explore.Violation{Key: "C08|" + stage + "|" + cfg + "|" + errClass(msg) + "|" + sc,
			Detail: "valid program rejected at " + stage + " [" + cfg + "]: " + msg + "\nprogram " + p.Sig, Replay: p.replay()})
	}
	r.Count("evaluations", 1)
	m, stage, err, pn := nagax.Front(p.Src)
	if pn != nil {
		r.Skip("naga panic (belongs to C10)")
		return
	}
	if err != nil {
		fail(stage, "-", err.Error())
		return
	}
	r.Count("evaluations", 1)
	verrs, verr, pn := nagax.Validate(m)
	if pn != nil {
		r.Skip("naga panic (belongs to C10)")
	} else if verr != nil {
		fail("validate", "-", verr.Error())
	} else if len(verrs) > 0 {
		fail("validate", "-", verrs[0].Error())
	}
	r.Count("evaluations", 1)
	if _, err, pn := nagax.CompileDefault(p.Src); pn == nil && err != nil {
		fail("compile", "default", err.Error())
	}
	// option deviations: operator programs and micro-programs see every option set within one
	// deviation; control-flow trees (whose acceptance does not depend on options) see one
	// deviation only in the thorough tier.
	d := 1
	if p.Case != nil && (strings.HasPrefix(p.Case.Family, "F2") || strings.HasPrefix(p.Case.Family, "F3")) && !r.Thorough() {
		d = 0
	}
	if strings.HasPrefix(p.Sig, "F5/") && !r.Thorough() {
		d = 0
	}
	for _, c := range nagax.SPIRVConfigs(d) {
		r.Count("evaluations", 1)
		b, err, pn := nagax.SPIRV(m, c.Opts)
		if pn != nil {
			r.Skip("naga panic (belongs to C10)")
			continue
		}
		if err != nil {
			fail("spirv", c.Label, err.Error())
		} else if c.Dev == 0 {
			r.DistinctBytes(b)
		}
	}
	for _, c := range nagax.HLSLConfigs(d) {
		r.Count("evaluations", 1)
		_, _, err, pn := nagax.HLSL(m, c.Opts)
		if pn != nil {
			r.Skip("naga panic (belongs to C10)")
			continue
		}
		if err != nil {
			fail("hlsl", c.Label, err.Error())
		}
	}
	for _, c := range nagax.MSLConfigs(d) {
		r.Count("evaluations", 1)
		_, _, err, pn := nagax.MSL(m, c.Opts)
		if pn != nil {
			r.Skip("naga panic (belongs to C10)")
			continue
		}
		if err != nil {
			fail("msl", c.Label, err.Error())
		}
	}
	onlyCompute := !hasStage(m, ir.StageVertex) && !hasStage(m, ir.StageFragment)
	for _, c := range nagax.GLSLConfigs(d) {
		if !onlyCompute && p.Case == nil && c.Opts.LangVersion.ES {
			continue // ES profiles cannot express every texture/IO feature of the micro programs
		}
		for _, ep := range entryNames(m) {
			r.Count("evaluations", 1)
			o := c.Opts
			o.EntryPoint = ep
			_, _, err, pn := nagax.GLSL(m, o)
			if pn != nil {
				r.Skip("naga panic (belongs to C10)")
				continue
			}
			if err != nil {
				fail("glsl", c.Label, err.Error())
			}
		}
	}
}

func runC08() int {
	r := explore.New("C08")
	// every family that other checks execute or inspect is also an acceptance obligation here
	// (those checks skip a program the front end rejects, attributing the rejection to C08)
	fams := append(quickFamilies(r), wgen.F3(r.Thorough()), wgen.F4Access(), wgen.F15Zero(), wgen.F15Ops(), wgen.F4Idx())
	texts := append([]wgen.Micro{}, wgen.Micros...)
	for _, fp := range wgen.F5Programs(r.Thorough()) {
		texts = append(texts, wgen.Micro{Name: fp.Sig, Src: fp.Src})
	}
	forEachProgram(r, fams, texts, func(p *prog) { c08Program(r, p) })
	r.Sample(map[string]any{"program": wgen.Micros[0].Name, "stages": "parse, lower, validate, Compile, spirv x configs(d<=1), hlsl x configs, msl x configs, glsl x configs x entry points"})
	printKeys(r)
	return r.Finish("every program of F1, F2 (node budget per tier), F3 memory shapes, F4acc access forms, F15 hostile-data programs, F5 interface programs and the feature micro-programs x every stage x every backend option set within 1 deviation of the default; an error return is a violation; distinct = distinct default-option SPIR-V binaries", []string{
		"generated programs are valid WGSL by construction (conservative grammar; unreachable code and spec-debatable constructs are not generated)",
		"GLSL ES profiles are not required to express texture/IO micro-programs"})
}
