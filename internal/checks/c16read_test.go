package checks

import (
	"strings"
	"testing"
)

func c16DeclList(r *cRead) string {
	var out []string
	for _, d := range r.decls {
		out = append(out, d.Kind+":"+d.Name)
	}
	return strings.Join(out, " ")
}

func TestC16ReaderDeclarations(t *testing.T) {
	cases := []struct{ dialect, src, want string }{
		{"hlsl", `struct S { float4 p : SV_Position; nointerpolation uint t : LOC1; };
cbuffer u : register(b1) { S u; }
RWByteAddressBuffer o : register(u0);
static const int k = int(3);
typedef uint R[3];
R mk(uint a0, uint a1[3]) { uint ret[3] = { a0, a1[0], 2u }; return ret; }
[numthreads(1, 1, 1)]
void cs(uint3 gid : SV_DispatchThreadID) { S s = (S)0; for (uint i = 0u; i < 2u; i++) { uint e = i; } switch(gid.x) { case 0: { o.Store(0, asuint(k)); break; } default: { break; } } }`,
			"struct:S member:p member:t cbuffer:u global:u global:o global:k typedef:R function:mk param:a0 param:a1 local:ret function:cs param:gid local:s local:i local:e"},
		{"msl", `using metal::uint;
struct D { template<typename T> operator T() && { return T {}; } };
struct B { uint size0; };
typedef uint A[1];
template <typename X>
B cas(device X *p, uint c) { bool sw = metal::f(p, &c); return B{c}; }
constant int k = 3;
kernel void cs(metal::uint3 gid [[thread_position_in_grid]], device A& o [[buffer(0)]], metal::texture2d<float, metal::access::sample> tx [[texture(0)]], constant B& _bs [[buffer(30)]]) {
    threadgroup metal::atomic_uint w; int c = {}; if (uint(gid.x) < 1 + (_bs.size0 - 0 - 4) / 4) { o[gid.x] = 1u; } }`,
			"struct:D tparam:T struct:B member:size0 typedef:A tparam:X function:cas param:p param:c local:sw global:k function:cs param:gid param:o param:tx param:_bs local:w local:c"},
		{"glsl", `#version 450 core
precision highp float;
layout(local_size_x = 1, local_size_y = 1, local_size_z = 1) in;
struct S { uint a; };
layout(std430) buffer B0 { uint m[]; };
layout(std140) uniform U1 { S u; } inst;
layout(location = 0) smooth in vec2 v0;
uniform sampler2D tx;
shared uint w;
uint f(S q) { uint acc = 0u; bool li = true; while(true) { if (!li) { break; } li = false; } return acc + q.a; }
void main() { uvec3 g = gl_GlobalInvocationID; m[g.x] = f(inst.u); }`,
			"struct:S member:a block:B0 global:m block:U1 member:u global:inst global:v0 global:tx global:w function:f param:q local:acc local:li function:main local:g"},
	}
	for _, c := range cases {
		r := cParse(c.src, c.dialect)
		if r.err != "" {
			t.Errorf("%s: %s", c.dialect, r.err)
			continue
		}
		if got := c16DeclList(r); got != c.want {
			t.Errorf("%s declarations:\n got  %s\n want %s", c.dialect, got, c.want)
		}
		if len(r.problems) != 0 {
			t.Errorf("%s: unexpected problems %v", c.dialect, r.problems)
		}
	}
}

func TestC16ReaderCapture(t *testing.T) {
	base := cParse(`static float g; struct I { float2 uv : LOC0; };
float4 fs(I arg) : SV_Target0 { g = arg.uv.x; float t = g; return (t).xxxx; }`, "hlsl")
	// the parameter takes the spelling of the global: both references to the global are captured
	got := cParse(`static float x; struct I { float2 uv : LOC0; };
float4 fs(I x) : SV_Target0 { x = x.uv.x; float t = x; return (t).xxxx; }`, "hlsl")
	class, _, aligned := cCompare(base, got)
	if !aligned || class != "resolves-elsewhere" {
		t.Errorf("capture by a parameter: class %q aligned %v", class, aligned)
	}
	// consistent renaming: equal
	ren := cParse(`static float h; struct J { float2 st : LOC0; };
float4 fs(J a2) : SV_Target0 { h = a2.st.x; float t = h; return (t).xxxx; }`, "hlsl")
	if class, detail, aligned := cCompare(base, ren); !aligned || class != "" {
		t.Errorf("consistent renaming judged %q (%s) aligned %v", class, detail, aligned)
	}
	// member access that does not follow the member
	mem := cParse(`static float h; struct J { float2 st : LOC0; };
float4 fs(J a2) : SV_Target0 { h = a2.uv.x; float t = h; return (t).xxxx; }`, "hlsl")
	if class, _, _ := cCompare(base, mem); class != "member-access-elsewhere" {
		t.Errorf("stale member access judged %q", class)
	}
	// duplicates, reserved spellings
	d := cParse("uint a__b; void main() { uint gl_x = 1u; uint q = 2u; uint q = 3u; }", "glsl")
	var classes []string
	for _, p := range d.problems {
		classes = append(classes, p.class)
	}
	if strings.Join(classes, " ") != "reserved-double-underscore reserved-gl-prefix duplicate" {
		t.Errorf("problem classes: %v", classes)
	}
	// a local redeclaring a parameter is in the parameter's scope; a helper parameter hiding a global is not a duplicate
	e := cParse("static uint v; uint h(uint v) { return v; } void f(uint p) { uint p = 1u; }", "hlsl")
	classes = nil
	for _, p := range e.problems {
		classes = append(classes, p.class)
	}
	if strings.Join(classes, " ") != "hides duplicate" {
		t.Errorf("scope classes: %v", classes)
	}
}
