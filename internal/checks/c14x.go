package checks

import (
	"crypto/sha256"
	"encoding/hex"
	"errors"
	"fmt"
	"math"
	"regexp"
	"strings"

	"github.com/gogpu/naga/ir"
	"github.com/gogpu/naga/msl"

	"verif/internal/explore"
	"verif/internal/glslx"
	"verif/internal/irx"
	"verif/internal/mslx"
	"verif/internal/nagax"
	"verif/internal/wgen"
	"verif/internal/wref"
	"verif/internal/xrt"
)

// C14, general form (wgen.OvProg): every route gets its own freshly lowered module, so that what one
// route does to the caller's module cannot contaminate the observation of the next (histories are a
// space of their own, c14Histories).

// ---------------------------------------------------------------- routes

// c14xRoute runs one resolution route on a freshly lowered module.
type c14xRoute struct {
	name    string
	backend string // backend whose behaviour on the substituted program excuses a mismatch for carrier programs ("" = none)
	// run returns the resulting buffers, naga's error class ("" = none) and an execution error.
	run func(m *ir.Module, pc map[string]float64, c *wgen.Case, o xrt.Opts) (xrt.Buffers, string, error)
}

func pcClone(pc map[string]float64) map[string]float64 {
	out := make(map[string]float64, len(pc))
	for k, v := range pc {
		out[k] = v
	}
	return out
}

// mslResources mirrors the resource map of the C04 runner: buffer slot = binding number, sizes buffer in slot 30.
func mslResources(m *ir.Module, c *wgen.Case, opts *msl.Options) (map[int]xrt.Binding, []xrt.Binding) {
	res := map[ir.ResourceBinding]msl.BindTarget{}
	slots := map[int]xrt.Binding{}
	var sizes []xrt.Binding
	for gi := range m.GlobalVariables {
		g := &m.GlobalVariables[gi]
		if g.Binding == nil {
			continue
		}
		slot := uint8(g.Binding.Binding)
		res[*g.Binding] = msl.BindTarget{Buffer: &slot, Mutable: true}
		slots[int(slot)] = xrt.Binding{Group: g.Binding.Group, Binding: g.Binding.Binding}
	}
	for _, g := range c.Mod.Globals {
		if (g.Space == "storage" || g.Space == "uniform") && wgen.HasRuntimeArray(g.Ty) {
			sizes = append(sizes, xrt.Binding{Group: uint32(g.Group), Binding: uint32(g.Binding)})
		}
	}
	sb := uint8(30)
	opts.PerEntryPointMap = map[string]msl.EntryPointResources{"main": {Resources: res, SizesBuffer: &sb}}
	opts.FakeMissingBindings = false
	return slots, sizes
}

func c14xRoutes() []c14xRoute {
	type beRun = func(m *ir.Module, c *wgen.Case, opts xrt.Opts) (xrt.Buffers, string, error, *nagax.Panic)
	onResolved := func(name string, be beRun) c14xRoute {
		return c14xRoute{name: "ProcessOverrides+" + name, backend: name, run: func(m *ir.Module, pc map[string]float64, c *wgen.Case, o xrt.Opts) (xrt.Buffers, string, error) {
			res, es := c14Resolve(m, pc)
			if es != "" {
				return nil, es, nil
			}
			got, _, err, pn := be(res, c, o)
			var ce *compileErr
			if pn != nil {
				return nil, "panic:" + errClass(pn.Value), nil
			}
			if errors.As(err, &ce) {
				return nil, "err:" + errClass(ce.err.Error()), nil
			}
			return got, "", err
		}}
	}
	irRun := func(strict bool) beRun {
		return func(m *ir.Module, c *wgen.Case, o xrt.Opts) (xrt.Buffers, string, error, *nagax.Panic) {
			p, err := irx.Compile(m)
			if err != nil {
				return nil, "", err, nil
			}
			p.EvalUnemittedAtUse = !strict
			b := c.Bufs.Clone()
			err = p.Run(b, o)
			return b, "", err, nil
		}
	}
	routes := []c14xRoute{
		onResolved("ir", irRun(false)),
		onResolved("spirv", spirvBackend().configs(0)[0].run),
		onResolved("hlsl", hlslBackend().configs(0)[0].run),
		onResolved("msl", mslBackend().configs(0)[0].run),
		onResolved("glsl", glslBackend().configs(0)[0].run),
	}
	routes[0].backend = "ir"
	routes = append(routes, c14xRoute{name: "msl.PipelineConstants", backend: "msl", run: func(m *ir.Module, pc map[string]float64, c *wgen.Case, o xrt.Opts) (xrt.Buffers, string, error) {
		opts := nagax.MSLConfigs(0)[0].Opts
		slots, sizes := mslResources(m, c, &opts)
		opts.PipelineConstants = pcClone(pc)
		src, info, err, pn := nagax.MSL(m, opts)
		if err != nil || pn != nil {
			return nil, errStr(err, pn), nil
		}
		p, err := mslx.Parse(src)
		if err != nil {
			return nil, "", err
		}
		bufs := c.Bufs.Clone()
		o.EntryPoint = info.EntryPointNames["main"]
		err = p.Exec(bufs, mslx.Opts{Opts: o, BufferSlots: slots, SizesOrder: sizes, WorkgroupSize: entryWG(c)})
		return bufs, "", err
	}})
	routes = append(routes, c14xRoute{name: "glsl.PipelineConstants", backend: "glsl", run: func(m *ir.Module, pc map[string]float64, c *wgen.Case, o xrt.Opts) (xrt.Buffers, string, error) {
		opts := nagax.GLSLConfigs(0)[0].Opts
		opts.EntryPoint = "main"
		opts.PipelineConstants = ir.PipelineConstants(pcClone(pc))
		src, _, err, pn := nagax.GLSL(m, opts)
		if err != nil || pn != nil {
			return nil, errStr(err, pn), nil
		}
		p, err := glslx.Parse(src)
		if err != nil {
			return nil, "", err
		}
		bufs := c.Bufs.Clone()
		err = p.Exec(bufs, glslx.Opts{Opts: o})
		return bufs, "", err
	}})
	return routes
}

// plainBackend runs backend name on an override-free module (the substituted program as naga lowers it).
func c14PlainBackend(name string, m *ir.Module, c *wgen.Case, o xrt.Opts) (xrt.Buffers, error) {
	var got xrt.Buffers
	var err error
	var pn *nagax.Panic
	switch name {
	case "ir":
		p, e := irx.Compile(m)
		if e != nil {
			return nil, e
		}
		p.EvalUnemittedAtUse = true
		got = c.Bufs.Clone()
		err = p.Run(got, o)
	case "spirv":
		got, _, err, pn = spirvBackend().configs(0)[0].run(m, c, o)
	case "hlsl":
		got, _, err, pn = hlslBackend().configs(0)[0].run(m, c, o)
	case "msl":
		got, _, err, pn = mslBackend().configs(0)[0].run(m, c, o)
	case "glsl":
		got, _, err, pn = glslBackend().configs(0)[0].run(m, c, o)
	}
	if pn != nil {
		return nil, pn
	}
	return got, err
}

// ---------------------------------------------------------------- which part of the caller's module changed

var idxRe = regexp.MustCompile(`\[[^\]]*\]`)

// moduleDiffClass reduces the first differing path between two modules to a stable class: the owner
// (Functions / EntryPoints / a module-level table) and, for function bodies, whether the changed
// statement sits at the top level of the body or inside a nested block, plus the changed field.
func moduleDiffClass(diff string) string {
	line := strings.SplitN(diff, "\n", 2)[0]
	path := strings.SplitN(line, ": ", 2)[0]
	path = idxRe.ReplaceAllString(path, "")
	parts := strings.Split(strings.TrimPrefix(path, "m."), ".")
	if len(parts) == 0 || parts[0] == "" {
		return "unknown"
	}
	owner := parts[0]
	rest := parts[1:]
	if owner == "EntryPoints" && len(rest) > 0 && rest[0] == "Function" {
		owner = "EntryPoints.Function"
		rest = rest[1:]
	}
	if len(rest) == 0 {
		return owner
	}
	if rest[0] != "Body" {
		return owner + "." + rest[0]
	}
	// statements: count nesting by the block-holding fields below Body
	depth := 0
	last := ""
	for _, f := range rest[1:] {
		switch f {
		case "Accept", "Reject", "Body", "Continuing", "Cases", "Block":
			depth++
		case "Kind":
		default:
			last = f
		}
	}
	if depth == 0 {
		return owner + ".Body(top-level)." + last
	}
	return owner + ".Body(nested)." + last
}

// ---------------------------------------------------------------- definedness of override-expressions

// An override-expression (built only from literals and overrides) is evaluated at pipeline-creation
// time; WGSL makes overflow, division by zero and lossy shifts there an error. Such cases are asserted
// as "error or the wrapped run-time value" (dubious); cases where WGSL leaves the value to the
// implementation are not asserted (skip).
const (
	ovOK = iota
	ovDubious
	ovSkip
)

type ovEval struct {
	env    map[string]uint32
	ty     map[string]*wgen.Type
	status int
	why    string
}

func (v *ovEval) flag(s int, why string) {
	if s > v.status {
		v.status, v.why = s, why
	}
}

func f32of(b uint32) float32 { return math.Float32frombits(b) }

func (v *ovEval) checkF(b uint32, what string) {
	if isBadFloat(b) {
		v.flag(ovSkip, what+" is inf/nan/subnormal")
	}
}

// pure reports whether e is built only from literals, overrides and scalar operations.
func (v *ovEval) pure(e wgen.Expr) bool {
	if e == nil || e.T() == nil || e.T().K != wgen.TScalar {
		return false
	}
	switch e := e.(type) {
	case *wgen.Lit:
		return true
	case *wgen.Ref:
		_, ok := v.env[e.Name]
		return ok && !e.Var
	case *wgen.Bin:
		return v.pure(e.L) && v.pure(e.R)
	case *wgen.Un:
		return v.pure(e.X)
	case *wgen.Paren:
		return v.pure(e.X)
	case *wgen.Bitcast:
		return v.pure(e.X)
	case *wgen.Cons:
		if len(e.Args) != 1 {
			return false
		}
		return v.pure(e.Args[0])
	case *wgen.Call:
		if e.User {
			return false
		}
		for _, a := range e.Args {
			if !v.pure(a) {
				return false
			}
		}
		return true
	}
	return false
}

func hasOverride(e wgen.Expr, env map[string]uint32) bool {
	found := false
	var walk func(e wgen.Expr)
	walk = func(e wgen.Expr) {
		switch e := e.(type) {
		case *wgen.Ref:
			if _, ok := env[e.Name]; ok && !e.Var {
				found = true
			}
		case *wgen.Bin:
			walk(e.L)
			walk(e.R)
		case *wgen.Un:
			walk(e.X)
		case *wgen.Paren:
			walk(e.X)
		case *wgen.Bitcast:
			walk(e.X)
		case *wgen.Cons:
			for _, a := range e.Args {
				walk(a)
			}
		case *wgen.Call:
			for _, a := range e.Args {
				walk(a)
			}
		}
	}
	walk(e)
	return found
}

// eval evaluates a pure expression with run-time (wrapping) semantics and records every point where
// pipeline-creation-time evaluation would be an error or implementation-defined.
func (v *ovEval) eval(e wgen.Expr) uint32 {
	switch e := e.(type) {
	case *wgen.Lit:
		return e.Bits
	case *wgen.Ref:
		return v.env[e.Name]
	case *wgen.Paren:
		return v.eval(e.X)
	case *wgen.Un:
		x := v.eval(e.X)
		switch e.Op {
		case "-":
			if e.Ty.S == wgen.F32 {
				return x ^ 0x80000000
			}
			if x == 0x80000000 {
				v.flag(ovDubious, "negation overflows")
			}
			return -x
		case "!":
			return x ^ 1
		case "~":
			return ^x
		}
	case *wgen.Bitcast:
		x := v.eval(e.X)
		if e.Ty.S == wgen.F32 {
			v.checkF(x, "bitcast result")
		}
		return x
	case *wgen.Cons:
		x := v.eval(e.Args[0])
		from, to := e.Args[0].T().S, e.Ty.S
		if from == wgen.F32 && (to == wgen.I32 || to == wgen.U32) {
			f := f32of(x)
			if to == wgen.I32 && !(f >= -2147483648 && f <= 2147483520) {
				v.flag(ovSkip, "f32->i32 out of range")
			}
			if to == wgen.U32 && !(f > -1 && f <= 4294967040) {
				v.flag(ovSkip, "f32->u32 out of range")
			}
		}
		if to == wgen.F32 && from == wgen.I32 {
			if n := int64(int32(x)); int64(float32(n)) != n {
				v.flag(ovSkip, "inexact i32->f32")
			}
		}
		if to == wgen.F32 && from == wgen.U32 {
			if n := uint64(x); !(float32(n) < 4294967296.0 && uint64(float32(n)) == n) {
				v.flag(ovSkip, "inexact u32->f32")
			}
		}
		return ovConvertScalar(x, from, to)
	case *wgen.Bin:
		a, b := v.eval(e.L), v.eval(e.R)
		return v.bin(e.Op, e.L.T().S, a, b)
	case *wgen.Call:
		args := make([]wref.Val, len(e.Args))
		for i, a := range e.Args {
			args[i] = wref.Val{T: a.T(), S: []uint32{v.eval(a)}}
		}
		r := v.builtin(e.Fn, args, e.Ty)
		if e.Ty.S == wgen.F32 {
			v.checkF(r, e.Fn+" result")
		}
		return r
	}
	v.flag(ovSkip, fmt.Sprintf("unsupported expression %T", e))
	return 0
}

func (v *ovEval) builtin(fn string, args []wref.Val, t *wgen.Type) (out uint32) {
	defer func() {
		if r := recover(); r != nil {
			v.flag(ovSkip, fmt.Sprintf("builtin %s: %v", fn, r))
		}
	}()
	switch fn {
	case "extractBits", "insertBits":
		n := len(args)
		if uint64(args[n-2].S[0])+uint64(args[n-1].S[0]) > 32 {
			v.flag(ovDubious, "offset+count > 32")
		}
	}
	return wref.Builtin(fn, args, t).S[0]
}

func (v *ovEval) bin(op string, k wgen.SK, a, b uint32) uint32 {
	t := wgen.Scalar(k)
	rt := wref.BinType(op, t, t)
	switch k {
	case wgen.I32:
		x, y := int64(int32(a)), int64(int32(b))
		switch op {
		case "+":
			if s := x + y; s != int64(int32(s)) {
				v.flag(ovDubious, "i32 + overflows")
			}
		case "-":
			if s := x - y; s != int64(int32(s)) {
				v.flag(ovDubious, "i32 - overflows")
			}
		case "*":
			if s := x * y; s != int64(int32(s)) {
				v.flag(ovDubious, "i32 * overflows")
			}
		case "/", "%":
			if y == 0 || (x == math.MinInt32 && y == -1) {
				v.flag(ovDubious, "i32 division by zero / overflow")
			}
		}
	case wgen.U32:
		x, y := uint64(a), uint64(b)
		switch op {
		case "+":
			if x+y > math.MaxUint32 {
				v.flag(ovDubious, "u32 + overflows")
			}
		case "-":
			if y > x {
				v.flag(ovDubious, "u32 - overflows")
			}
		case "*":
			if x*y > math.MaxUint32 {
				v.flag(ovDubious, "u32 * overflows")
			}
		case "/", "%":
			if y == 0 {
				v.flag(ovDubious, "u32 division by zero")
			}
		}
	}
	if op == "<<" || op == ">>" {
		if b >= 32 {
			v.flag(ovDubious, "shift count >= 32")
		} else if op == "<<" {
			if k == wgen.I32 {
				if int32(a<<b)>>b != int32(a) {
					v.flag(ovDubious, "lossy left shift")
				}
			} else if (a<<b)>>b != a {
				v.flag(ovDubious, "lossy left shift")
			}
		}
		r := ovBinScalar(op, k, a, b)
		return r
	}
	if k == wgen.F32 {
		switch op {
		case "/":
			if b&0x7FFFFFFF == 0 {
				v.flag(ovSkip, "f32 division by zero")
			}
		case "%":
			if b&0x7FFFFFFF == 0 {
				v.flag(ovSkip, "f32 remainder by zero")
			} else {
				x, y := f32of(a), f32of(b)
				q := float32(math.Trunc(float64(x / y)))
				if x-y*q != float32(math.Mod(float64(x), float64(y))) || float64(x/y) != float64(x)/float64(y) {
					v.flag(ovSkip, "f32 remainder not exact under the WGSL formula")
				}
			}
		}
	}
	r := ovBinScalar(op, k, a, b)
	if rt.S == wgen.F32 {
		v.checkF(r, "f32 "+op+" result")
	}
	return r
}


// visit evaluates every maximal override-expression of e (recording its definedness).
func (v *ovEval) visit(e wgen.Expr) {
	if e == nil {
		return
	}
	if v.pure(e) {
		if hasOverride(e, v.env) {
			v.eval(e)
		}
		return
	}
	switch e := e.(type) {
	case *wgen.Bin:
		v.visit(e.L)
		v.visit(e.R)
	case *wgen.Un:
		v.visit(e.X)
	case *wgen.Paren:
		v.visit(e.X)
	case *wgen.Bitcast:
		v.visit(e.X)
	case *wgen.Cons:
		for _, a := range e.Args {
			v.visit(a)
		}
	case *wgen.Call:
		for _, a := range e.Args {
			v.visit(a)
		}
	case *wgen.Index:
		v.visit(e.X)
		v.visit(e.I)
	case *wgen.Field:
		v.visit(e.X)
	case *wgen.Swz:
		v.visit(e.X)
	case *wgen.AddrOf:
		v.visit(e.X)
	case *wgen.Deref:
		v.visit(e.X)
	}
}

func (v *ovEval) visitStmts(ss []wgen.Stmt) {
	for _, s := range ss {
		v.visitStmt(s)
	}
}

func (v *ovEval) visitStmt(s wgen.Stmt) {
	switch s := s.(type) {
	case *wgen.VarDecl:
		v.visit(s.Init)
	case *wgen.Assign:
		v.visit(s.LHS)
		v.visit(s.RHS)
	case *wgen.IncDec:
		v.visit(s.LHS)
	case *wgen.If:
		v.visit(s.Cond)
		v.visitStmts(s.Then)
		v.visitStmts(s.Else)
	case *wgen.Switch:
		v.visit(s.Sel)
		for _, c := range s.Cases {
			v.visitStmts(c.Body)
		}
	case *wgen.Loop:
		v.visitStmts(s.Body)
		v.visitStmts(s.Continuing)
		v.visit(s.BreakIf)
	case *wgen.For:
		if s.Init != nil {
			v.visitStmt(s.Init)
		}
		v.visit(s.Cond)
		if s.Upd != nil {
			v.visitStmt(s.Upd)
		}
		v.visitStmts(s.Body)
	case *wgen.While:
		v.visit(s.Cond)
		v.visitStmts(s.Body)
	case *wgen.Return:
		v.visit(s.X)
	case *wgen.Block:
		v.visitStmts(s.Body)
	case *wgen.ExprStmt:
		if s.X != nil {
			v.visit(s.X)
		}
	}
}

// c14Definedness resolves every override of p under vals (supplied value, else initialiser) and
// classifies the (program, value map) pair. env holds the resolved bits per override.
func c14Definedness(p *wgen.OvProg, vals map[string]float64) (status int, why string, env map[string]uint32) {
	v := &ovEval{env: map[string]uint32{}, ty: map[string]*wgen.Type{}}
	defer func() {
		if r := recover(); r != nil {
			status, why, env = ovSkip, fmt.Sprintf("definedness evaluator: %v", r), v.env
		}
	}()
	for _, c := range p.Mod.Consts { // named module constants (literal-valued in these programs)
		if v.pure(c.Init) {
			v.env[c.Name] = v.eval(c.Init)
		}
	}
	for i := range p.Ovs {
		d := &p.Ovs[i]
		if x, ok := vals[d.Name]; ok {
			v.env[d.Name] = wgen.OvConvert(d.Ty, x)
			if d.Ty.S == wgen.F32 {
				v.checkF(v.env[d.Name], "supplied value")
			}
			continue
		}
		if d.Init == nil {
			v.env[d.Name] = 0
			continue
		}
		if v.pure(d.Init) {
			v.env[d.Name] = v.eval(d.Init)
		} else {
			v.flag(ovSkip, "initialiser of "+d.Name+" outside the evaluator")
			v.env[d.Name] = 0
		}
	}
	for _, g := range p.Mod.Globals {
		v.visit(g.Init)
	}
	for _, f := range p.Mod.Funcs {
		v.visitStmts(f.Body)
	}
	return v.status, v.why, v.env
}

// ---------------------------------------------------------------- one program

func bufDigest(c *wgen.Case, b xrt.Buffers) string {
	h := sha256.New()
	for _, k := range outBindings(c) {
		h.Write(b[k])
	}
	return hex.EncodeToString(h.Sum(nil)[:8])
}

type c14Plain struct {
	bufs xrt.Buffers
	cls  string
}

func c14xProgram(r *explore.Run, routes []c14xRoute, p *wgen.OvProg) {
	src := p.Source()
	m0, stage, err, pn := nagax.Front(src)
	if pn != nil {
		r.Skip("naga panic (C10)")
		return
	}
	if err != nil {
		r.Violate(explore.Violation{Key: "C14|" + p.Part + "|front-end|" + p.Class + "|" + errClass(err.Error()), Detail: "valid override program rejected at " + stage + ": " + err.Error(), Replay: map[string]any{"sig": p.Sig, "src": src}})
		return
	}
	h0 := irx.Hash(m0)
	carrier := p.Part == "cf" || p.Part == "inj"
	// reference result with no value supplied (to classify "the supplied value was ignored")
	var wantAbsent xrt.Buffers
	if c, missing := p.Subst(wgen.OvMap{Vals: map[string]float64{}}); missing == "" {
		if ref, e := runRef(c, wref.Config{}); e == nil && ref.undef == "" {
			wantAbsent = ref.bufs
		}
	}
	for _, mp := range p.Maps {
		c, missing := p.Subst(mp)
		var want xrt.Buffers
		status := ovOK
		why := ""
		if missing == "" {
			var env map[string]uint32
			status, why, env = c14Definedness(p, mp.Vals)
			if status == ovOK && p.Keep != nil && !p.Keep(env) {
				status, why = ovSkip, "outside the operator's domain"
			}
			if status == ovDubious {
				// the substituted program is itself invalid WGSL (its constant expression overflows, divides by
				// zero or shifts lossily): nothing to compare with
				r.Skip("not asserted (pipeline-creation error in WGSL): " + why)
				continue
			}
			if status == ovSkip {
				r.Skip("not asserted (implementation-defined in WGSL): " + strings.SplitN(why, ":", 2)[0])
				continue
			}
			ref, e := runRef(c, wref.Config{})
			if e != nil {
				fmt.Println("HARNESS-ERROR: reference evaluator failed on", p.Sig, mp.Label, ":", e)
				r.Skip("reference evaluator error")
				continue
			}
			if ref.undef != "" {
				r.Skip("wgsl-undefined execution")
				continue
			}
			want = ref.bufs
		} else {
			c = &wgen.Case{Mod: p.Mod, Bufs: p.Bufs, Groups: p.Groups, BufTypes: p.BufTypes}
		}
		plain := map[string]c14Plain{}
		var plainMod *ir.Module
		for ri := range routes {
			rt := &routes[ri]
			r.Count("evaluations", 1)
			m := m0
			if ri > 0 || mp.Label != p.Maps[0].Label {
				m, _, _, _ = nagax.Front(src)
			}
			opts := xrt.Opts{NumWorkgroups: p.Groups, StepLimit: int64(200_000) * int64(p.Groups[0])}
			got, nerr, xerr := rt.run(m, p.PC(mp), c, opts)
			rp := map[string]any{"sig": p.Sig, "src": src, "constants": mp.Label, "route": rt.name}
			key := func(class string) string { return "C14|" + p.Part + "|" + rt.name + "|" + p.Class + "|" + class }
			if h := irx.Hash(m); h != h0 {
				fresh, _, _, _ := nagax.Front(src)
				where := moduleDiffClass(irx.Diff(fresh, m))
				r.Violate(explore.Violation{Key: "C14|" + p.Part + "|" + rt.name + "|caller-module-modified:" + where, Detail: fmt.Sprintf("%s [%s] via %s: resolution altered the caller's module: %s", p.Sig, mp.Label, rt.name, firstLine(irx.Diff(fresh, m))), Replay: rp})
			}
			// carrier programs: a failure that the same backend shows on the substituted program as well is the
			// backend's (C01/C03-C05/C08), not override resolution's
			plainOutcome := func() (xrt.Buffers, string) {
				if po, ok := plain[rt.backend]; ok {
					return po.bufs, po.cls
				}
				var po c14Plain
				if plainMod == nil {
					plainMod, _, _, _ = nagax.Front(wgen.Print(c.Mod))
				}
				if plainMod != nil {
					b, e := c14PlainBackend(rt.backend, irx.Clone(plainMod), c, opts)
					po.bufs = b
					if e != nil {
						po.cls, _ = failClass(e)
						var ce *compileErr
						if errors.As(e, &ce) {
							po.cls = "compile:" + errClass(ce.err.Error())
						}
					}
				}
				plain[rt.backend] = po
				return po.bufs, po.cls
			}
			if missing != "" {
				if nerr == "" && xerr == nil {
					r.Violate(explore.Violation{Key: key("missing-value-accepted"), Detail: fmt.Sprintf("%s [%s]: override %s has no default and no value was supplied, yet %s produced output", p.Sig, mp.Label, missing, rt.name), Replay: rp})
				}
				continue
			}
			if nerr != "" {
				if carrier && rt.backend != "" && !strings.Contains(nerr, "override") && !strings.Contains(nerr, "ExprOverride") {
					if _, pcls := plainOutcome(); pcls == "compile:"+strings.TrimPrefix(nerr, "err:") {
						r.Skip("backend rejects the substituted program the same way (C08, not C14)")
						continue
					}
				}
				r.Violate(explore.Violation{Key: key("naga-error:" + nerr), Detail: fmt.Sprintf("%s [%s] via %s: naga reports %s for a resolvable module", p.Sig, mp.Label, rt.name, nerr), Replay: rp})
				continue
			}
			if xerr != nil {
				cls, skip := failClass(xerr)
				if skip != "" {
					r.Skip(skip)
					continue
				}
				if strings.HasPrefix(cls, "trap:") && rt.backend == "glsl" {
					r.Skip("execution undefined in the target language (outside the property's scope)")
					continue
				}
				if rt.backend != "" {
					if _, pcls := plainOutcome(); pcls == cls {
						r.Skip("backend fails the same way on the substituted program (C01/C03-C05, not C14)")
						continue
					}
				}
				r.Violate(explore.Violation{Key: key("exec:" + cls), Detail: fmt.Sprintf("%s [%s] via %s: %v", p.Sig, mp.Label, rt.name, xerr), Replay: rp})
				continue
			}
			diff := compareBufs(c, want, got)
			if diff == "" {
				r.Distinct(bufDigest(c, got))
				continue
			}
			if carrier && rt.backend != "" {
				if pb, pcls := plainOutcome(); pcls == "" && pb != nil && compareBufs(c, pb, got) == "" {
					r.Skip("backend computes the same wrong result for the substituted program (C01/C03-C05, not C14)")
					continue
				}
			}
			which := "absent"
			if len(mp.Vals) > 0 {
				which = "supplied"
				if wantAbsent != nil && compareBufs(c, wantAbsent, got) == "" {
					which = "supplied:ignored"
				}
			}
			r.Violate(explore.Violation{Key: key("wrong-value(" + which + ")"), Detail: fmt.Sprintf("%s [%s] via %s: %s (the substituted WGSL program is the reference)", p.Sig, mp.Label, rt.name, diff), Replay: rp})
		}
	}
}


// ---------------------------------------------------------------- histories on ONE lowered module

type c14Op struct {
	name string
	// run performs the operation on m and returns a digest of its result
	run func(m *ir.Module, p *wgen.OvProg) string
}

func textDigest(s string, err error, pn *nagax.Panic) string {
	if err != nil || pn != nil {
		return errStr(err, pn)
	}
	h := sha256.Sum256([]byte(s))
	return hex.EncodeToString(h[:8])
}

func c14Ops(p *wgen.OvProg) []c14Op {
	var ops []c14Op
	c := &wgen.Case{Mod: p.Mod, Bufs: p.Bufs, Groups: p.Groups, BufTypes: p.BufTypes}
	for mi := 0; mi < 2 && mi < len(p.Maps); mi++ {
		mp := p.Maps[mi]
		tag := string(rune('A' + mi))
		ops = append(ops, c14Op{"resolve(" + tag + ")", func(m *ir.Module, p *wgen.OvProg) string {
			res, es := c14Resolve(m, p.PC(mp))
			if es != "" {
				return es
			}
			return irx.Hash(res)
		}})
		ops = append(ops, c14Op{"msl.PC(" + tag + ")", func(m *ir.Module, p *wgen.OvProg) string {
			opts := nagax.MSLConfigs(0)[0].Opts
			mslResources(m, c, &opts)
			opts.PipelineConstants = p.PC(mp)
			if len(opts.PipelineConstants) == 0 {
				opts.PipelineConstants = nil
			}
			s, _, err, pn := nagax.MSL(m, opts)
			return textDigest(s, err, pn)
		}})
		ops = append(ops, c14Op{"glsl.PC(" + tag + ")", func(m *ir.Module, p *wgen.OvProg) string {
			opts := nagax.GLSLConfigs(0)[0].Opts
			opts.EntryPoint = "main"
			opts.PipelineConstants = ir.PipelineConstants(p.PC(mp))
			s, _, err, pn := nagax.GLSL(m, opts)
			return textDigest(s, err, pn)
		}})
	}
	ops = append(ops,
		c14Op{"spirv", func(m *ir.Module, p *wgen.OvProg) string {
			b, err, pn := nagax.SPIRV(m, nagax.SPIRVConfigs(0)[0].Opts)
			return textDigest(string(b), err, pn)
		}},
		c14Op{"hlsl", func(m *ir.Module, p *wgen.OvProg) string {
			s, _, err, pn := nagax.HLSL(m, nagax.HLSLConfigs(0)[0].Opts)
			return textDigest(s, err, pn)
		}},
		c14Op{"msl", func(m *ir.Module, p *wgen.OvProg) string {
			opts := nagax.MSLConfigs(0)[0].Opts
			mslResources(m, c, &opts)
			s, _, err, pn := nagax.MSL(m, opts)
			return textDigest(s, err, pn)
		}},
		c14Op{"glsl", func(m *ir.Module, p *wgen.OvProg) string {
			opts := nagax.GLSLConfigs(0)[0].Opts
			opts.EntryPoint = "main"
			s, _, err, pn := nagax.GLSL(m, opts)
			return textDigest(s, err, pn)
		}})
	return ops
}

func opKind(name string) string { return strings.SplitN(name, "(", 2)[0] }

// c14History explores, breadth first, every sequence of at most depth operations on one lowered
// module of p. A state is the caller's module (identified by its canonical hash); a sequence is
// extended only from states not seen before (the unchanged module is the root state, so on a tree
// where no operation touches the caller's module the search ends after depth 1). Invariants per
// transition: the module hash is unchanged, and the operation's result equals its result on a
// freshly lowered module.
func c14History(r *explore.Run, p *wgen.OvProg, depth int) {
	src := p.Source()
	fresh, _, err, pn := nagax.Front(src)
	if err != nil || pn != nil {
		return
	}
	h0 := irx.Hash(fresh)
	ops := c14Ops(p)
	freshRes := make([]string, len(ops))
	for i, op := range ops {
		m, _, _, _ := nagax.Front(src)
		freshRes[i] = op.run(m, p)
	}
	seen := map[string]bool{h0: true}
	frontier := [][]int{nil}
	r.Count("states", 1)
	for d := 0; d < depth; d++ {
		var next [][]int
		for _, seq := range frontier {
			for oi, op := range ops {
				// replay the prefix on a fresh module, then take the transition
				m, _, _, _ := nagax.Front(src)
				for _, k := range seq {
					ops[k].run(m, p)
				}
				before := irx.Hash(m)
				res := op.run(m, p)
				after := irx.Hash(m)
				r.Count("transitions", 1)
				r.Count("evaluations", 1)
				var names []string
				for _, k := range seq {
					names = append(names, ops[k].name)
				}
				names = append(names, op.name)
				rp := map[string]any{"sig": p.Sig, "src": src, "sequence": strings.Join(names, " ; "), "maps": fmt.Sprint(p.Maps[0].Label, " / ", p.Maps[min(1, len(p.Maps)-1)].Label)}
				if after != before {
					bm, _, _, _ := nagax.Front(src)
					for _, k := range seq {
						ops[k].run(bm, p)
					}
					where := moduleDiffClass(irx.Diff(bm, m))
					r.Violate(explore.Violation{Key: "C14|hist|" + opKind(op.name) + "|caller-module-modified:" + where,
						Detail: fmt.Sprintf("%s: after [%s] the caller's module differs: %s", p.Sig, strings.Join(names, " ; "), firstLine(irx.Diff(bm, m))), Replay: rp})
				}
				if res != freshRes[oi] {
					prev := "fresh"
					if len(seq) > 0 {
						prev = opKind(ops[seq[len(seq)-1]].name)
					}
					cls := p.Class
					if p.Part == "cf" { // position/mode; the tree is in the detail
						cls = strings.Join(strings.Split(cls, "/")[:2], "/")
					}
					r.Violate(explore.Violation{Key: "C14|hist|" + prev + ">" + opKind(op.name) + "|" + cls + "|result-depends-on-history",
						Detail: fmt.Sprintf("%s: [%s] gives a different result for its last operation than a freshly lowered module does", p.Sig, strings.Join(names, " ; ")), Replay: rp})
				}
				if !seen[after] {
					seen[after] = true
					r.Count("states", 1)
					next = append(next, append(append([]int(nil), seq...), oi))
				}
			}
		}
		frontier = next
		if len(frontier) == 0 {
			break
		}
	}
}

// ---------------------------------------------------------------- scalar semantics (WGSL run-time rules)

func b2u32(b bool) uint32 {
	if b {
		return 1
	}
	return 0
}

func ovBinScalar(op string, k wgen.SK, a, b uint32) uint32 {
	cmp := func(lt, eq bool) (uint32, bool) {
		switch op {
		case "==":
			return b2u32(eq), true
		case "!=":
			return b2u32(!eq), true
		case "<":
			return b2u32(lt), true
		case "<=":
			return b2u32(lt || eq), true
		case ">":
			return b2u32(!lt && !eq), true
		case ">=":
			return b2u32(!lt), true
		}
		return 0, false
	}
	switch k {
	case wgen.F32:
		x, y := f32of(a), f32of(b)
		if r, ok := cmp(x < y, x == y); ok {
			return r
		}
		switch op {
		case "+":
			return math.Float32bits(x + y)
		case "-":
			return math.Float32bits(x - y)
		case "*":
			return math.Float32bits(x * y)
		case "/":
			return math.Float32bits(x / y)
		case "%":
			return math.Float32bits(float32(math.Mod(float64(x), float64(y))))
		}
	case wgen.I32:
		x, y := int32(a), int32(b)
		if r, ok := cmp(x < y, x == y); ok {
			return r
		}
		switch op {
		case "+":
			return a + b
		case "-":
			return a - b
		case "*":
			return a * b
		case "/":
			if y == 0 || (x == math.MinInt32 && y == -1) {
				return a
			}
			return uint32(x / y)
		case "%":
			if y == 0 || (x == math.MinInt32 && y == -1) {
				return 0
			}
			return uint32(x % y)
		case "&":
			return a & b
		case "|":
			return a | b
		case "^":
			return a ^ b
		case "<<":
			return a << (b & 31)
		case ">>":
			return uint32(x >> (b & 31))
		}
	case wgen.U32:
		if r, ok := cmp(a < b, a == b); ok {
			return r
		}
		switch op {
		case "+":
			return a + b
		case "-":
			return a - b
		case "*":
			return a * b
		case "/":
			if b == 0 {
				return a
			}
			return a / b
		case "%":
			if b == 0 {
				return 0
			}
			return a % b
		case "&":
			return a & b
		case "|":
			return a | b
		case "^":
			return a ^ b
		case "<<":
			return a << (b & 31)
		case ">>":
			return a >> (b & 31)
		}
	case wgen.Bool:
		switch op {
		case "&", "&&":
			return a & b
		case "|", "||":
			return a | b
		case "==":
			return b2u32(a == b)
		case "!=":
			return b2u32(a != b)
		}
	}
	panic("ovBinScalar " + op)
}

func ovConvertScalar(x uint32, from, to wgen.SK) uint32 {
	if from == to {
		return x
	}
	switch to {
	case wgen.Bool:
		if from == wgen.F32 {
			return b2u32(f32of(x) != 0)
		}
		return b2u32(x != 0)
	case wgen.I32:
		if from == wgen.F32 {
			f := f32of(x)
			switch {
			case f != f:
				return 0
			case f >= 2147483648.0:
				return math.MaxInt32
			case f <= -2147483648.0:
				return 0x80000000
			}
			return uint32(int32(f))
		}
		return x
	case wgen.U32:
		if from == wgen.F32 {
			f := f32of(x)
			switch {
			case f != f || f <= 0:
				return 0
			case f >= 4294967296.0:
				return math.MaxUint32
			}
			return uint32(f)
		}
		return x
	case wgen.F32:
		switch from {
		case wgen.Bool:
			if x != 0 {
				return math.Float32bits(1)
			}
			return 0
		case wgen.I32:
			return math.Float32bits(float32(int32(x)))
		case wgen.U32:
			return math.Float32bits(float32(x))
		}
	}
	panic("ovConvertScalar")
}

// c14HistoryPrograms: the programs whose lowered module is taken through operation histories: one per
// construct class of the helper-site operator programs (each spec, first literal variant), the
// dependency shapes with all defaults, and the control-flow trees of budget 1 (2 when thorough).
func c14HistoryPrograms(thorough bool) []*wgen.OvProg {
	var out []*wgen.OvProg
	pick := func(p *wgen.OvProg) {
		// maps A and B: the first two maps that supply a value (else absent + first)
		var ms []wgen.OvMap
		for _, m := range p.Maps {
			if len(m.Vals) > 0 && len(ms) < 2 {
				ms = append(ms, m)
			}
		}
		if len(ms) < 2 {
			ms = append([]wgen.OvMap{p.Maps[0]}, ms...)
		}
		q := *p
		q.Maps = ms
		out = append(out, &q)
	}
	for _, p := range wgen.F6oOps(false) {
		if strings.Contains(p.Sig, "/helper/") && strings.Contains(p.Sig, "/lit0/") {
			pick(p)
		}
	}
	for _, p := range wgen.F6oShapes(false) {
		if strings.Contains(p.Sig, "/ids=0/rev=false") && !strings.Contains(p.Sig, "/defaults=-") && !strings.Contains(p.Sig, "-/ids") && !strings.Contains(p.Sig, "-d") {
			pick(p)
		}
	}
	k := 1
	if thorough {
		k = 2
	}
	for _, p := range wgen.F6oCf(k, 0, []string{"entry", "callee", "calleeval"}, []string{"direct", "folded"}, 3) {
		pick(p)
	}
	return out
}

// ---------------------------------------------------------------- replay

func init() {
	perProgram["C14"] = func(r *explore.Run, p *prog) {
		// locate the program by signature in the (thorough, i.e. superset) enumeration
		var fams [][]*wgen.OvProg
		switch {
		case strings.HasPrefix(p.Sig, "F6o-spell/"):
			fams = append(fams, wgen.F6oSpell())
		case strings.HasPrefix(p.Sig, "F6o-comp/"):
			fams = append(fams, wgen.F6oComp())
		case strings.HasPrefix(p.Sig, "F6o-shape/"):
			fams = append(fams, wgen.F6oShapes(true))
		case strings.HasPrefix(p.Sig, "F6o-ops/"):
			fams = append(fams, wgen.F6oOps(true))
		case strings.HasPrefix(p.Sig, "F6o-chain/"):
			fams = append(fams, wgen.F6oChains(true))
		case strings.HasPrefix(p.Sig, "F6o-cf/"):
			fams = append(fams, wgen.F6oCf(2, 3, []string{"entry", "callee", "calleeval"}, []string{"direct", "folded", "let"}, 5))
		case strings.HasPrefix(p.Sig, "F6o-inj/"):
			fams = append(fams, wgen.F6oInj([]string{"buf", "let", "var", "fn", "asg"}, true))
		}
		for _, f := range fams {
			for _, q := range f {
				if q.Sig == p.Sig {
					c14xProgram(r, c14xRoutes(), q)
					for _, h := range c14HistoryPrograms(true) {
						if h.Sig == p.Sig {
							c14History(r, h, 3)
						}
					}
					return
				}
			}
		}
		fmt.Println("replay: no C14 program with signature", p.Sig, "(the replay object holds the full case)")
	}
}
