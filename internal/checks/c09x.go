package checks

import (
	"fmt"
	"sort"
	"strings"
	"sync"

	"github.com/gogpu/naga/ir"

	"verif/internal/explore"
	"verif/internal/irx"
	"verif/internal/nagax"
	"verif/internal/wgen"
)

// C09 on family F9 (internal/wgen/f9.go): statement-lowered builtins x operand types x pointer shapes x
// operand modes x compaction triggers x placements x positions. Three oracles per program:
//
//  1. the strict IR validator on the module returned by lowering (which runs expression compaction
//     itself), with the statement rules of internal/irx/validate_stmt.go: every handle of every
//     statement refers to an available expression of the kind and type the statement requires, a
//     statement's result is the result expression of that statement kind and of the type the operation
//     yields, every result expression has exactly one producing statement;
//  2. dataflow by name: the generator binds the operands of operation k to lets a<k>, b<k>, c<k>, p<k> and
//     its result to r<k>; in the lowered function the expression named r<k> must depend (through
//     expression operands and, for statement results, through the operands of the producing statement)
//     on every expression named after one of its operands; an operation without result must be a
//     statement that depends on all of them; a result must be consumed by another statement. A handle
//     that is in range and well typed but refers to the wrong expression is found this way;
//  3. each explicit IR-to-IR compaction pass (CompactUnused, CompactConstants, CompactExpressions,
//     CompactTypes, ReorderTypes, DeduplicateEmits) applied once to a deep clone: no panic, no IR-rule
//     finding class and no dataflow finding that the input module did not have, and a second
//     application is a no-op (same canonical hash).
//
// F9lite (one program per standard-WGSL operation variant) is contributed to the shared valid-program
// families; the full family is enumerated by c09xPass, which has the signature of the c09Extra hook of
// c09.go and is wired there.

func init() {
	validExtra = append(validExtra, func(thorough bool) *wgen.Family { return wgen.F9Lite() })
	c09Extra = append(c09Extra, c09xPass)
	extraFamilyByName["F9lite"] = wgen.F9Lite
	extraFamilyByName["F9"] = func() *wgen.Family { return wgen.F9(false) }
	extraFamilyByName["F9T"] = func() *wgen.Family { return wgen.F9(true) }
	prev := perProgram["C09"]
	perProgram["C09"] = func(r *explore.Run, p *prog) {
		if p.Case != nil && (p.Case.Family == "F9" || p.Case.Family == "F9T") {
			c09xProgram(r, p, nil, nil)
			return
		}
		prev(r, p)
	}
}

var c09xPassNames = map[string]bool{"CompactUnused": true, "CompactConstants": true, "CompactExpressions": true, "CompactTypes": true, "ReorderTypes": true, "DeduplicateEmits": true}

type c09xStats struct {
	mu        sync.Mutex
	n         map[string]int64
	rejected  map[string]int
	rejectedN int
}

func (x *c09xStats) add(k string, n int64) {
	if x == nil {
		return
	}
	x.mu.Lock()
	x.n[k] += n
	x.mu.Unlock()
}

type f9OpTag struct {
	k        int
	kind     string
	builtin  string
	operands []string
	result   string
}

func f9ParseTags(tags []string) (fn, key string, ops []f9OpTag) {
	for _, t := range tags {
		switch {
		case strings.HasPrefix(t, "f9fn="):
			fn = t[5:]
		case strings.HasPrefix(t, "f9key="):
			key = t[6:]
		case strings.HasPrefix(t, "f9op="):
			p := strings.Split(t[5:], ":")
			if len(p) != 5 {
				continue
			}
			o := f9OpTag{kind: p[1], builtin: p[2], result: p[4]}
			fmt.Sscanf(p[0], "%d", &o.k)
			if p[3] != "" {
				o.operands = strings.Split(p[3], ",")
			}
			ops = append(ops, o)
		}
	}
	sort.Slice(ops, func(i, j int) bool { return ops[i].k < ops[j].k })
	return
}

func f9Function(m *ir.Module, name string) *ir.Function {
	for i := range m.EntryPoints {
		if m.EntryPoints[i].Name == name || m.EntryPoints[i].Function.Name == name {
			return &m.EntryPoints[i].Function
		}
	}
	for i := range m.Functions {
		if m.Functions[i].Name == name {
			return &m.Functions[i]
		}
	}
	return nil
}

type f9Stmt struct {
	kind       string
	uses, defs []ir.ExpressionHandle
}

// f9Dataflow applies oracle 2 to one function; it returns finding texts (class first) and the number of
// individual checks made.
func f9Dataflow(fn *ir.Function, ops []f9OpTag) (findings []string, checks, unnamed int) {
	byName := map[string]ir.ExpressionHandle{}
	dup := map[string]bool{}
	for h, n := range fn.NamedExpressions {
		if _, ok := byName[n]; ok {
			dup[n] = true
		}
		byName[n] = h
	}
	var stmts []f9Stmt
	producer := map[ir.ExpressionHandle][]int{}
	irx.WalkStatements(fn.Body, func(s ir.Statement) {
		if _, isEmit := s.Kind.(ir.StmtEmit); isEmit || s.Kind == nil {
			return
		}
		u, d := irx.StmtOperands(s)
		stmts = append(stmts, f9Stmt{kind: fmt.Sprintf("%T", s.Kind), uses: u, defs: d})
		for _, x := range d {
			producer[x] = append(producer[x], len(stmts)-1)
		}
	})
	n := len(fn.Expressions)
	// deps: everything the value of the roots depends on
	deps := func(roots []ir.ExpressionHandle) map[ir.ExpressionHandle]bool {
		seen := map[ir.ExpressionHandle]bool{}
		stack := append([]ir.ExpressionHandle{}, roots...)
		for len(stack) > 0 {
			h := stack[len(stack)-1]
			stack = stack[:len(stack)-1]
			if int(h) >= n || seen[h] {
				continue
			}
			seen[h] = true
			k := fn.Expressions[h].Kind
			if k == nil {
				continue
			}
			stack = append(stack, irx.ExprOperands(k)...)
			if irx.IsStatementResult(k) {
				for _, si := range producer[h] {
					stack = append(stack, stmts[si].uses...)
				}
			}
		}
		return seen
	}
	lookup := func(name string) (ir.ExpressionHandle, bool) {
		h, ok := byName[name]
		if !ok || dup[name] {
			unnamed++
			return 0, false
		}
		return h, true
	}
	for _, o := range ops {
		var opnd []ir.ExpressionHandle
		var opndNames []string
		for _, name := range o.operands {
			if h, ok := lookup(name); ok {
				opnd = append(opnd, h)
				opndNames = append(opndNames, name)
			}
		}
		if o.result != "" {
			rh, ok := lookup(o.result)
			if !ok {
				continue
			}
			d := deps([]ir.ExpressionHandle{rh})
			for i, h := range opnd {
				checks++
				if !d[h] {
					findings = append(findings, fmt.Sprintf("result-independent-of-operand|the value named %s (e%d, %T) of %s does not depend on the expression named %s (e%d)",
						o.result, rh, fn.Expressions[rh].Kind, o.builtin, opndNames[i], h))
				}
			}
			// the result is consumed by a statement other than its producer
			checks++
			used := false
			for si, s := range stmts {
				isProducer := false
				for _, pi := range producer[rh] {
					isProducer = isProducer || pi == si
				}
				if !isProducer && deps(s.uses)[rh] {
					used = true
					break
				}
			}
			if !used {
				findings = append(findings, fmt.Sprintf("result-not-consumed|no statement depends on the value named %s (e%d, %T) of %s", o.result, rh, fn.Expressions[rh].Kind, o.builtin))
			}
			continue
		}
		if len(opnd) == 0 {
			continue
		}
		// no result: one statement depends on every named operand
		checks++
		found := false
		for _, s := range stmts {
			d := deps(s.uses)
			all := true
			for _, h := range opnd {
				all = all && d[h]
			}
			if all {
				found = true
				break
			}
		}
		if !found {
			findings = append(findings, fmt.Sprintf("operands-not-used-together|no statement depends on all of the expressions named %s of %s", strings.Join(opndNames, ","), o.builtin))
		}
	}
	sort.Strings(findings)
	return
}

// c09xProgram judges one F9 program. A violation is believed only if a second, independent evaluation of the same
// program (fresh lowering, fresh clones) reports it again under the same key: an alarm that does not reproduce is
// counted (unstable_violation_keys_dropped) and dropped, as the soundness policy demands (DESIGN.md 1.4).
func c09xProgram(r *explore.Run, p *prog, st *c09Stats, xs *c09xStats) {
	first := map[string]explore.Violation{}
	c09xProgramOnce(r, p, st, xs, true, func(v explore.Violation) { first[v.Key] = v })
	if len(first) == 0 {
		return
	}
	second := map[string]explore.Violation{}
	c09xProgramOnce(r, p, nil, nil, false, func(v explore.Violation) { second[v.Key] = v })
	for k, v := range first {
		if _, ok := second[k]; ok {
			r.Violate(v)
		} else {
			r.Count("unstable_violation_keys_dropped", 1)
		}
	}
}

func c09xProgramOnce(r *explore.Run, p *prog, st *c09Stats, xs *c09xStats, count bool, sink func(explore.Violation)) {
	fnName, key, ops := f9ParseTags(p.Case.Tags)
	m, stage, err, pn := nagax.Front(p.Src)
	if pn != nil || err != nil {
		r.Skip("front end rejected/panicked (belongs to C08/C10)")
		if xs != nil {
			xs.mu.Lock()
			xs.rejectedN++
			msg := stage + ": "
			if err != nil {
				msg += errClass(err.Error())
			} else {
				msg += "panic"
			}
			if len(xs.rejected) < 40 {
				xs.rejected[key+" "+msg]++
			}
			xs.mu.Unlock()
		}
		return
	}
	r.Count("evaluations", 1)
	rep := irx.Validate(m, irx.ValidateOpts{})
	if st != nil {
		st.mu.Lock()
		for k, v := range rep.Fired {
			st.fired[k] += int64(v)
		}
		st.mu.Unlock()
	}
	r.Distinct(irx.Hash(m))
	seen := map[string]bool{}
	violate := func(k, detail string, extra map[string]any) {
		if seen[k] {
			return
		}
		seen[k] = true
		rp := p.replay()
		for a, b := range extra {
			rp[a] = b
		}
		sink(explore.Violation{Key: k, Detail: detail, Replay: rp})
	}
	for _, f := range rep.Findings {
		violate("C09|"+f.Rule+"|"+errClass(f.Detail)+"|"+key, "lowered module of "+p.Sig+" breaks IR rule "+f.Rule+": "+f.Detail, nil)
	}
	// oracle 2 on the lowered module
	baseFlow := map[string]bool{}
	if fn := f9Function(m, fnName); fn != nil {
		fl, n, un := f9Dataflow(fn, ops)
		xs.add("dataflow_checks", int64(n))
		xs.add("dataflow_names_absent", int64(un))
		for _, f := range fl {
			cls := f[:strings.Index(f, "|")]
			baseFlow[cls] = true
			violate("C09|f9-dataflow|"+cls+"|"+key, "lowered module of "+p.Sig+": "+f[len(cls)+1:], nil)
		}
	} else {
		violate("C09|f9-dataflow|function-missing|"+key, "lowered module of "+p.Sig+" has no function "+fnName, nil)
	}
	// oracle 3: explicit passes, depth 1
	baseFindings := findingSet(rep)
	for _, ps := range c13Passes() {
		if !c09xPassNames[ps.name] {
			continue
		}
		r.Count("evaluations", 1)
		xs.add("pass_applications", 1)
		in := irx.Clone(m)
		out, err, pnc := applyPass(ps, in)
		extra := map[string]any{"passes": []string{ps.name}}
		if pnc != "" {
			violate("C09|pass-panic|"+ps.name+"|"+errClass(pnc)+"|"+key, fmt.Sprintf("%s panics on the lowered module of %s: %s", ps.name, p.Sig, pnc), extra)
			continue
		}
		if err != nil {
			violate("C09|pass-error|"+ps.name+"|"+errClass(err.Error())+"|"+key, fmt.Sprintf("%s fails on the lowered module of %s: %v", ps.name, p.Sig, err), extra)
			continue
		}
		orep := irx.Validate(out, irx.ValidateOpts{SkipNagaValidate: true})
		if st != nil {
			st.mu.Lock()
			for k, v := range orep.Fired {
				st.fired[k] += int64(v)
			}
			st.mu.Unlock()
		}
		newFindings := findingSet(orep)
		var ks []string
		for k := range newFindings {
			if !baseFindings[k] {
				ks = append(ks, k)
			}
		}
		sort.Strings(ks)
		for _, k := range ks {
			detail := ""
			for _, f := range orep.Findings {
				if strings.HasPrefix(k, f.Rule+":") {
					detail = f.Detail
					break
				}
			}
			violate("C09|pass-ill-formed|"+ps.name+"|"+k+"|"+key, fmt.Sprintf("after %s the lowered module of %s breaks IR rule %s: %s", ps.name, p.Sig, k, detail), extra)
		}
		if fn := f9Function(out, fnName); fn != nil {
			fl, n, un := f9Dataflow(fn, ops)
			xs.add("dataflow_checks", int64(n))
			xs.add("dataflow_names_absent", int64(un))
			for _, f := range fl {
				cls := f[:strings.Index(f, "|")]
				if !baseFlow[cls] {
					violate("C09|pass-dataflow|"+ps.name+"|"+cls+"|"+key, fmt.Sprintf("after %s on the lowered module of %s: %s", ps.name, p.Sig, f[len(cls)+1:]), extra)
				}
			}
		} else {
			violate("C09|pass-dataflow|"+ps.name+"|function-missing|"+key, fmt.Sprintf("after %s the module of %s has no function %s", ps.name, p.Sig, fnName), extra)
		}
		hout := irx.Hash(out)
		again := irx.Clone(out)
		out2, err2, pn2 := applyPass(ps, again)
		if pn2 != "" || err2 != nil {
			violate("C09|pass-panic|"+ps.name+"|second-application|"+key, fmt.Sprintf("%s applied a second time to the module of %s fails: %s %v", ps.name, p.Sig, pn2, err2), extra)
		} else if irx.Hash(out2) != hout {
			violate("C09|pass-not-idempotent|"+ps.name+"|"+key, fmt.Sprintf("running %s twice on the lowered module of %s gives a different module than running it once: %s", ps.name, p.Sig, trunc(irx.Diff(out, out2), 300)), extra)
		}
	}
}

// c09xPass enumerates F9 inside the run of C09 (signature of the c09Extra hook).
func c09xPass(r *explore.Run, st *c09Stats) string {
	fam := wgen.F9(r.Thorough())
	xs := &c09xStats{n: map[string]int64{}, rejected: map[string]int{}}
	forEachProgram(r, []*wgen.Family{fam}, nil, func(p *prog) { c09xProgram(r, p, st, xs) })
	dims := wgen.F9Stats(r.Thorough())
	r.Extra("f9_dimensions", dims)
	r.Extra("f9_dataflow_checks", xs.n["dataflow_checks"])
	r.Extra("f9_dataflow_names_absent", xs.n["dataflow_names_absent"])
	r.Extra("f9_pass_applications", xs.n["pass_applications"])
	r.Extra("f9_front_end_rejected", xs.rejectedN)
	if xs.rejectedN > 0 {
		r.Extra("f9_front_end_rejected_classes", xs.rejected)
	}
	r.Sample(map[string]any{"family": fam.Name, "index": 0, "sig": fam.At(0).Sig, "oracles": "strict validator incl. statement rules; dataflow by let names; 6 compaction passes at depth 1 with idempotence"})
	bound := "quick: every operation x every trigger x placements {before, between operand lets and call, after, between two operations} x modes in the entry point, and every operation x every other position x every placement x modes with the constant-index trigger"
	if r.Thorough() {
		bound = "thorough: the full product"
	}
	return fmt.Sprintf("; F9: %d programs = %d operation variants (%d statement-lowered builtins: atomics, textureStore, textureAtomic*, workgroupUniformLoad, subgroup ballot/collective/gather, quad operations, barriers, ray queries, user calls; operand types scalar/vector x i32/u32/f32/bool, pointer shapes, storage/workgroup) x %d compaction triggers x %d placements x %d positions (entry point, helper, if/else/for/continuing/switch/block bodies) x %d operand modes (%s): strict validator with statement-operand and statement-result rules (result kind and type per statement, exactly one producing statement per result expression), dataflow by let names (result depends on each named operand, operands used together, result consumed), and each of the 6 explicit compaction passes applied once to a clone (no new finding, idempotent)",
		dims["programs"], dims["operation_variants"], dims["builtins"], dims["triggers"], dims["placements"], dims["positions"], dims["modes"], bound)
}
