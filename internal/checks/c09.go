package checks

import (
	"fmt"
	"sort"
	"strings"
	"sync"

	"verif/internal/explore"
	"verif/internal/irx"
	"verif/internal/nagax"
	"verif/internal/wgen"
)

func init() {
	Registry["C09"] = runC09
	perProgram["C09"] = func(r *explore.Run, p *prog) { c09Program(r, p, nil) }
}

type c09Stats struct {
	mu    sync.Mutex
	fired map[string]int64
}

func c09Program(r *explore.Run, p *prog, st *c09Stats) {
	m, _, err, pn := nagax.Front(p.Src)
	if pn != nil || err != nil {
		r.Skip("front end rejected/panicked (belongs to C08/C10)")
		return
	}
	r.Count("evaluations", 1)
	rep := irx.Validate(m, irx.ValidateOpts{})
	if st != nil {
		st.mu.Lock()
		for k, v := range rep.Fired {
			st.fired[k] += int64(v)
		}
		st.mu.Unlock()
	}
	r.Distinct(irx.Hash(m))
	sc := sigClass(p.Sig)
	seen := map[string]bool{}
	for _, f := range rep.Findings {
		key := "C09|" + f.Rule + "|" + errClass(f.Detail) + "|" + sc
		if seen[key] {
			continue
		}
		seen[key] = true
		r.Violate(explore.Violation{Key: key, Detail: "lowered module of " + p.Sig + " breaks IR rule " + f.Rule + ": " + f.Detail, Replay: p.replay()})
	}
}

// c09Extra: further passes contributed by other files of this package (appended in init functions); each
// runs inside the one explore.Run of the check and returns text appended to the rule description.
var c09Extra []func(r *explore.Run, st *c09Stats) string

func runC09() int {
	r := explore.New("C09")
	st := &c09Stats{fired: map[string]int64{}}
	texts := append(append([]wgen.Micro{}, wgen.Micros...), corpus()...)
	texts = append(texts, c09TypeReuseMicros()...)
	forEachProgram(r, quickFamilies(r), texts, func(p *prog) { c09Program(r, p, st) })
	extraRule := ""
	for _, f := range c09Extra {
		extraRule += f(r, st)
	}
	var unex []string
	for _, rule := range irx.Rules() {
		if st.fired[rule] == 0 {
			unex = append(unex, rule)
		}
	}
	sort.Strings(unex)
	r.Extra("rule_fire_counts", st.fired)
	r.Extra("rules_unexercised", unex)
	r.Sample(map[string]any{"program": "corpus/" + "access", "rules": irx.Rules()})
	printKeys(r)
	return r.Finish("the module returned by LowerWithSource for every program of the shared valid-program families (F1, F2, F2L, F4c, F1lit and the contributed ones), the micro-programs and the 172 corpus shaders is checked by an independent strict IR validator (24 rules: handle ranges and backward references, no abstract types, type uniqueness, recorded type = independently inferred type, emit coverage/dominance, terminators, return paths and types, store/call/atomic typing, entry-point bindings, resource bindings, plus naga's own validator)"+extraRule+"; distinct = distinct canonical module hashes",
		[]string{"the strict validator (internal/irx) is written against the property's statement and upstream naga's valid:: rules"})
}

// c09TypeReuseMicros: every composite type constructor of WGSL written twice (and three times) in one module, in
// different positions (two globals, a global and a function parameter / local / alias): structurally equal
// anonymous types must share one arena entry whatever the spelling site.
func c09TypeReuseMicros() []wgen.Micro {
	types := []string{"vec3<f32>", "mat2x3<f32>", "array<vec4<f32>, 4>", "array<array<u32, 2>, 3>", "atomic<u32>", "array<atomic<i32>, 2>",
		"binding_array<texture_2d<f32>, 4>", "binding_array<sampler, 2>", "texture_2d<f32>", "texture_storage_2d<rgba8unorm, write>", "texture_depth_2d", "ptr<function, vec2<i32>>"}
	var out []wgen.Micro
	for i, t := range types {
		var b strings.Builder
		space := "var<private>"
		bind := ""
		switch {
		case strings.HasPrefix(t, "binding_array"), strings.HasPrefix(t, "texture"), strings.HasPrefix(t, "sampler"):
			space = "var"
		case strings.Contains(t, "atomic"):
			space = "var<workgroup>"
		}
		if strings.HasPrefix(t, "ptr") {
			fmt.Fprintf(&b, "fn f1(p: %s) -> i32 { return (*p).x; }\nfn f2(q: %s) -> i32 { return (*q).y; }\n@compute @workgroup_size(1) fn main() { var v = vec2<i32>(1, 2); _ = f1(&v) + f2(&v); }\n", t, t)
		} else {
			for k := 0; k < 3; k++ {
				if space == "var" {
					bind = fmt.Sprintf("@group(0) @binding(%d) ", k)
				}
				fmt.Fprintf(&b, "%s%s g%d: %s;\n", bind, space, k, t)
			}
			fmt.Fprintf(&b, "alias A = %s;\n", t)
			b.WriteString("@compute @workgroup_size(1) fn main() { }\n")
		}
		out = append(out, wgen.Micro{Name: fmt.Sprintf("c09/type-reuse/%d", i), Src: b.String()})
	}
	return out
}
