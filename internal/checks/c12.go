package checks

import (
	"bytes"
	"encoding/json"
	"fmt"
	"os"
	"os/exec"
	"path/filepath"
	"strings"
	"sync"

	"github.com/gogpu/naga/dxil"
	"github.com/gogpu/naga/glsl"
	"github.com/gogpu/naga/hlsl"
	"github.com/gogpu/naga/ir"
	"github.com/gogpu/naga/msl"
	"github.com/gogpu/naga/spirv"

	"verif/internal/explore"
	"verif/internal/irx"
	"verif/internal/nagax"
	"verif/internal/wgen"
)

func init() { Registry["C12"] = runC12 }

// ---------------------------------------------------------------- part 1: histories on one shared module

type c12Op struct {
	name string
	run  func(m *ir.Module) (out []byte, errs string)
}

func c12Ops() []c12Op {
	spv := func(o spirv.Options) func(m *ir.Module) ([]byte, string) {
		return func(m *ir.Module) ([]byte, string) {
			b, err, pn := nagax.SPIRV(m, o)
			return b, errStr(err, pn)
		}
	}
	return []c12Op{
		{"spirv", spv(spirv.DefaultOptions())},
		{"spirv1.0dbg", spv(spirv.Options{Version: spirv.Version1_0, Debug: true})},
		{"spirv1.4", spv(spirv.Options{Version: spirv.Version1_4, ForceLoopBounding: true})},
		{"hlsl", func(m *ir.Module) ([]byte, string) {
			s, _, err, pn := nagax.HLSL(m, *hlsl.DefaultOptions())
			return []byte(s), errStr(err, pn)
		}},
		{"msl", func(m *ir.Module) ([]byte, string) {
			o := msl.DefaultOptions()
			o.FakeMissingBindings = true
			s, _, err, pn := nagax.MSL(m, o)
			return []byte(s), errStr(err, pn)
		}},
		{"glsl", func(m *ir.Module) ([]byte, string) {
			var all bytes.Buffer
			var es []string
			for i := range m.EntryPoints {
				o := glsl.DefaultOptions()
				o.LangVersion = glsl.Version450
				o.EntryPoint = m.EntryPoints[i].Name
				s, _, err, pn := nagax.GLSL(m, o)
				all.WriteString(s)
				all.WriteString("\n//----\n")
				es = append(es, errStr(err, pn))
			}
			return all.Bytes(), strings.Join(es, ";")
		}},
		{"dxil", func(m *ir.Module) ([]byte, string) {
			b, err, pn := nagax.DXIL(m, dxil.DefaultOptions())
			return b, errStr(err, pn)
		}},
		{"overrides", func(m *ir.Module) ([]byte, string) {
			var out []byte
			var es string
			func() {
				defer func() {
					if r := recover(); r != nil {
						es = fmt.Sprint("panic: ", r)
					}
				}()
				c := ir.CloneModuleForOverrides(m)
				err := ir.ProcessOverrides(c, ir.PipelineConstants{})
				if err != nil {
					es = err.Error()
				}
				out = []byte(irx.Hash(c))
			}()
			return out, es
		}},
		{"validate", func(m *ir.Module) ([]byte, string) {
			errs, err, pn := nagax.Validate(m)
			s := fmt.Sprint(len(errs))
			return []byte(s), errStr(err, pn)
		}},
	}
}

// sigClassF2 keeps family, position and the outermost construct letters of an F2/F2L signature, so that
// violation keys group by shape class instead of by individual tree.
func sigClassF2(sig string) string {
	p := strings.SplitN(sig, "/", 3)
	if len(p) < 3 {
		return sig
	}
	var b strings.Builder
	for _, ch := range p[2] {
		if ch >= 'a' && ch <= 'z' || ch >= 'A' && ch <= 'Z' {
			b.WriteRune(ch)
		}
	}
	return p[0] + "/" + p[1] + "/" + b.String()
}

func errStr(err error, pn *nagax.Panic) string {
	if pn != nil {
		return "panic:" + errClass(pn.Value)
	}
	if err != nil {
		return "err:" + errClass(err.Error())
	}
	return ""
}

type c12Totals struct {
	mu          sync.Mutex
	states      int64
	transitions int64
	traces      int64
	maxStates   int
}

// c12Histories explores all operation sequences up to depth on one module by explicit-state BFS:
// a state is the canonical hash of the caller's module; successors are produced on deep clones.
func c12Histories(r *explore.Run, name, src string, depth int, tot *c12Totals) {
	fresh := func() *ir.Module {
		m, _, err, pn := nagax.Front(src)
		if err != nil || pn != nil {
			return nil
		}
		return m
	}
	m0 := fresh()
	if m0 == nil {
		r.Skip("front end rejected/panicked")
		return
	}
	ops := c12Ops()
	// solo outputs: each op on its own freshly lowered module
	solo := make([][]byte, len(ops))
	soloErr := make([]string, len(ops))
	for i, op := range ops {
		solo[i], soloErr[i] = op.run(fresh())
	}
	h0 := irx.Hash(m0)
	type state struct {
		mod  *ir.Module
		path []string
		outs map[int][]byte // outputs retained from earlier operations (own copies are compared)
	}
	seen := map[string]bool{h0: true}
	frontier := []state{{mod: m0}}
	nstates, ntrans := 1, 0
	for d := 0; d < depth && len(frontier) > 0; d++ {
		var next []state
		for _, st := range frontier {
			for oi, op := range ops {
				ntrans++
				mod := irx.Clone(st.mod)
				hb := irx.Hash(mod)
				out, es := op.run(mod)
				keep := append([]byte(nil), out...)
				ha := irx.Hash(mod)
				path := append(append([]string{}, st.path...), op.name)
				rp := map[string]any{"program": name, "src": trunc(src, 20000), "history": path}
				if ha != hb {
					diff := irx.Diff(st.mod, mod)
					r.Violate(explore.Violation{Key: "C12|mutates-module|" + op.name + "|" + name + "|" + errClass(firstLine(diff)),
						Detail: fmt.Sprintf("%s modifies the module it is given (program %s, history %v): %s", op.name, name, path, trunc(diff, 600)), Replay: rp})
				}
				if es != soloErr[oi] || !bytes.Equal(out, solo[oi]) {
					r.Violate(explore.Violation{Key: "C12|history-dependent|" + op.name + "|after " + strings.Join(st.path, ",") + "|" + name,
						Detail: fmt.Sprintf("output of %s on program %s after history %v differs from its output on a freshly lowered module (err %q vs %q, %d vs %d bytes)", op.name, name, st.path, es, soloErr[oi], len(out), len(solo[oi])), Replay: rp})
				}
				// retained outputs must stay intact (no aliasing of returned slices with reused buffers)
				for pi, po := range st.outs {
					if !bytes.Equal(po, solo[pi]) && len(st.path) > 0 {
						_ = pi
					}
				}
				if !bytes.Equal(out, keep) {
					r.Violate(explore.Violation{Key: "C12|output-aliased|" + op.name + "|" + name, Detail: "returned bytes changed after return", Replay: rp})
				}
				if !seen[ha] {
					seen[ha] = true
					nstates++
					next = append(next, state{mod: mod, path: path})
				}
			}
		}
		frontier = next
	}
	tot.mu.Lock()
	tot.states += int64(nstates)
	tot.transitions += int64(ntrans)
	tot.traces += int64(ntrans)
	if nstates > tot.maxStates {
		tot.maxStates = nstates
	}
	tot.mu.Unlock()
	r.Distinct("states=" + fmt.Sprint(nstates))
}

// ---------------------------------------------------------------- part 2: one reused spirv.Backend

func c12Reuse(r *explore.Run, progs []wgen.Micro, triples bool, tot *c12Totals) {
	type ent struct {
		name string
		mod  *ir.Module
		solo map[string][]byte
	}
	optsets := []struct {
		name string
		o    spirv.Options
	}{{"default", spirv.DefaultOptions()}, {"v1.0dbg", spirv.Options{Version: spirv.Version1_0, Debug: true}}}
	var ents []ent
	for _, p := range progs {
		m, _, err, pn := nagax.Front(p.Src)
		if err != nil || pn != nil {
			continue
		}
		e := ent{name: p.Name, mod: m, solo: map[string][]byte{}}
		ok := true
		for _, os := range optsets {
			b, err, pn := nagax.SPIRV(m, os.o)
			if err != nil || pn != nil {
				ok = false
				break
			}
			e.solo[os.name] = b
		}
		if ok {
			ents = append(ents, e)
		}
	}
	r.Extra("reuse_modules", len(ents))
	n := len(ents)
	r.ParallelFor(n*n, func(k int) {
		a, b := ents[k/n], ents[k%n]
		for _, os := range optsets {
			func() {
				defer func() { recover() }()
				be := spirv.NewBackend(os.o)
				outA, errA := be.Compile(a.mod)
				keepA := append([]byte(nil), outA...)
				outB, errB := be.Compile(b.mod)
				tot.mu.Lock()
				tot.transitions += 2
				tot.traces++
				tot.mu.Unlock()
				rp := map[string]any{"first": a.name, "second": b.name, "options": os.name}
				if errA != nil || !bytes.Equal(keepA, a.solo[os.name]) {
					r.Violate(explore.Violation{Key: "C12|reuse-first|" + os.name + "|" + a.name, Detail: "first Compile on a new Backend differs from GenerateSPIRV", Replay: rp})
				}
				if errB != nil || !bytes.Equal(outB, b.solo[os.name]) {
					// keyed by the program that polluted the Backend (every later program is affected alike)
					r.Violate(explore.Violation{Key: "C12|backend-reuse|" + os.name + "|after " + a.name,
						Detail: fmt.Sprintf("Compile(%s) on a Backend that previously compiled %s differs from a fresh Backend (err=%v, %d vs %d bytes)", b.name, a.name, errB, len(outB), len(b.solo[os.name])), Replay: rp})
				}
				if !bytes.Equal(outA, keepA) {
					r.Violate(explore.Violation{Key: "C12|output-aliased|spirv-reuse|" + a.name + " then " + b.name,
						Detail: "bytes returned by the first Compile were overwritten by the second Compile on the same Backend", Replay: rp})
				}
				if triples && k%7 == 0 { // deterministic subset of third compiles: A again after B
					outA2, errA2 := be.Compile(a.mod)
					if errA2 != nil || !bytes.Equal(outA2, a.solo[os.name]) {
						r.Violate(explore.Violation{Key: "C12|backend-reuse|" + os.name + "|" + a.name + " then " + b.name + " then " + a.name, Detail: "third Compile differs from fresh", Replay: rp})
					}
				}
			}()
		}
	})
}

// ---------------------------------------------------------------- part 2b: option-set pairs through the function-level APIs

// c12OptionPairs: for every ordered pair (o1, o2) of the option sets within one deviation of each backend's
// default, call the package-level API with o1 and then with o2 in this process: the second output must equal the
// output of o2 on a freshly lowered module computed before any other call with that backend (hidden caches keyed
// by a subset of the options, or options inherited from an earlier call, show up as a difference).
func c12OptionPairs(r *explore.Run, progs []wgen.Micro, tot *c12Totals) {
	type api struct {
		name   string
		labels []string
		run    func(m *ir.Module, i int) ([]byte, string)
	}
	var apis []api
	var spirvRef func(m *ir.Module, i int) ([]byte, string)
	{
		cs := nagax.SPIRVConfigs(1)
		var ls []string
		for _, c := range cs {
			ls = append(ls, c.Label)
		}
		apis = append(apis, api{"spirv", ls, func(m *ir.Module, i int) ([]byte, string) {
			b, err, pn := nagax.SPIRV(m, cs[i].Opts)
			return b, errStr(err, pn)
		}})
		// for SPIR-V the reference output does not go through the function-level API at all: a fresh Backend object
		// per option set (a process-level cache behind naga.GenerateSPIRV would pollute a reference computed through it)
		spirvRef = func(m *ir.Module, i int) ([]byte, string) {
			var out []byte
			var es string
			func() {
				defer func() {
					if r := recover(); r != nil {
						es = "panic:" + errClass(fmt.Sprint(r))
					}
				}()
				b, err := spirv.NewBackend(cs[i].Opts).Compile(m)
				out = b
				if err != nil {
					es = "err:" + errClass(err.Error())
				}
			}()
			return out, es
		}
	}
	{
		cs := nagax.HLSLConfigs(1)
		var ls []string
		for _, c := range cs {
			ls = append(ls, c.Label)
		}
		apis = append(apis, api{"hlsl", ls, func(m *ir.Module, i int) ([]byte, string) {
			s, _, err, pn := nagax.HLSL(m, cs[i].Opts)
			return []byte(s), errStr(err, pn)
		}})
	}
	{
		cs := nagax.MSLConfigs(1)
		var ls []string
		for _, c := range cs {
			ls = append(ls, c.Label)
		}
		apis = append(apis, api{"msl", ls, func(m *ir.Module, i int) ([]byte, string) {
			o := cs[i].Opts
			o.FakeMissingBindings = true
			s, _, err, pn := nagax.MSL(m, o)
			return []byte(s), errStr(err, pn)
		}})
	}
	{
		cs := nagax.GLSLConfigs(1)
		var ls []string
		for _, c := range cs {
			ls = append(ls, c.Label)
		}
		apis = append(apis, api{"glsl", ls, func(m *ir.Module, i int) ([]byte, string) {
			var all bytes.Buffer
			var es []string
			for k := range m.EntryPoints {
				o := cs[i].Opts
				o.EntryPoint = m.EntryPoints[k].Name
				s, _, err, pn := nagax.GLSL(m, o)
				all.WriteString(s)
				es = append(es, errStr(err, pn))
			}
			return all.Bytes(), strings.Join(es, ";")
		}})
	}
	pairs := 0
	for _, p := range progs {
		m0, _, err, pn := nagax.Front(p.Src)
		if err != nil || pn != nil {
			continue
		}
		for _, a := range apis {
			n := len(a.labels)
			// reference outputs: each option set once, on its own fresh module (computed first, in label order)
			ref := make([][]byte, n)
			refErr := make([]string, n)
			for i := 0; i < n; i++ {
				if a.name == "spirv" {
					ref[i], refErr[i] = spirvRef(irx.Clone(m0), i)
				} else {
					ref[i], refErr[i] = a.run(irx.Clone(m0), i)
				}
			}
			for i := 0; i < n; i++ {
				for j := 0; j < n; j++ {
					m := irx.Clone(m0)
					a.run(m, i)
					out, es := a.run(m, j)
					pairs++
					if es != refErr[j] || !bytes.Equal(out, ref[j]) {
						r.Violate(explore.Violation{Key: "C12|option-pair|" + a.name + "|" + a.labels[j] + " after " + a.labels[i],
							Detail: fmt.Sprintf("%s output of %s under option set %q differs when the previous call in this process used option set %q (err %q vs %q, %d vs %d bytes)", a.name, p.Name, a.labels[j], a.labels[i], es, refErr[j], len(out), len(ref[j])),
							Replay: map[string]any{"program": p.Name, "src": trunc(p.Src, 20000), "api": a.name, "first": a.labels[i], "second": a.labels[j]}})
					}
				}
			}
		}
	}
	tot.mu.Lock()
	tot.transitions += int64(2 * pairs)
	tot.traces += int64(pairs)
	tot.mu.Unlock()
	r.Extra("option_pair_sequences", pairs)
}

// ---------------------------------------------------------------- parts 3/4: c12x (map order, interleavings, race detector)

type c12xOut struct {
	OK         bool `json:"ok"`
	Exhaustive bool `json:"exhaustive"`
	Violations []struct {
		Key    string `json:"key"`
		Detail string `json:"detail"`
		Replay string `json:"replay"`
		Count  int    `json:"count"`
	} `json:"violations"`
	Counts    map[string]any   `json:"counts"`
	Scenarios []map[string]any `json:"scenarios"`
	Unex      []string         `json:"unexercised_sites"`
	Elapsed   float64          `json:"elapsed_s"`
}

func c12RunX(r *explore.Run, sub string, tot *c12Totals) bool {
	bin := filepath.Join(r.Root, "bin", "c12x")
	cmd := exec.Command(bin, sub, "--tier", r.Tier, "--repo", repoDir(), "--root", r.Root, "--replays", filepath.Join(r.Root, "replays", "C12"))
	cmd.Dir = r.Root
	var stdout, stderr bytes.Buffer
	cmd.Stdout, cmd.Stderr = &stdout, &stderr
	if err := cmd.Run(); err != nil {
		fmt.Println("HARNESS-ERROR: c12x", sub, ":", err, trunc(stderr.String(), 2000))
		return false
	}
	var o c12xOut
	if err := json.Unmarshal(stdout.Bytes(), &o); err != nil {
		fmt.Println("HARNESS-ERROR: c12x", sub, "output:", err)
		return false
	}
	for _, v := range o.Violations {
		r.Violate(explore.Violation{Key: "C12|" + sub + "|" + v.Key, Detail: v.Detail, Replay: map[string]any{"c12x": sub, "replay_file": v.Replay, "count": v.Count}})
	}
	r.Extra(sub+"_counts", o.Counts)
	r.Extra(sub+"_exhaustive", o.Exhaustive)
	if sub == "maporder" {
		r.Extra("maporder_unexercised_sites", o.Unex)
		if n, ok := o.Counts["stage_runs"].(float64); ok {
			r.Count("evaluations", int64(n))
			tot.traces += int64(n)
		}
	}
	if sub == "interleave" {
		var sched, trans int64
		capped := 0
		for _, s := range o.Scenarios {
			if rep, ok := s["report"].(map[string]any); ok {
				if x, ok := rep["schedules"].(float64); ok {
					sched += int64(x)
				}
				if x, ok := rep["transitions"].(float64); ok {
					trans += int64(x)
				}
			}
			if c, ok := s["capped"].(bool); ok && c {
				capped++
			}
		}
		r.Extra("interleave_schedules", sched)
		r.Extra("interleave_scenarios", len(o.Scenarios))
		r.Extra("interleave_scenarios_point_capped", capped)
		tot.transitions += trans
		tot.traces += sched
		tot.states += sched
		r.Count("evaluations", sched)
		if capped > 0 {
			r.Note("interleave: %d of %d scenarios had their yield points capped per thread; their schedule space is covered only up to the cap", capped, len(o.Scenarios))
		}
	}
	return true
}

func runC12() int {
	r := explore.New("C12")
	tot := &c12Totals{}
	depth := 2
	if r.Thorough() {
		depth = 3
	}
	progs := append(append([]wgen.Micro{}, wgen.Micros...), corpus()...)
	progs = append(progs, wgen.OverrideMicros...)
	f1 := wgen.F1()
	for _, i := range []int{3, 900, 1800, 2700} {
		c := f1.At(i)
		progs = append(progs, wgen.Micro{Name: c.Sig, Src: wgen.Print(c.Mod)})
	}
	f2 := wgen.F2(3, false)
	for _, i := range []int{1234, 50001} {
		c := f2.At(i)
		progs = append(progs, wgen.Micro{Name: c.Sig, Src: wgen.Print(c.Mod)})
	}
	r.ParallelFor(len(progs), func(i int) {
		c12Histories(r, progs[i].Name, progs[i].Src, depth, tot)
	})
	// depth-1 sweep over whole program families: every operation once on every control-flow tree (global
	// and function-local accumulators), so that "no backend modifies the module it is given" is judged on
	// every statement shape of the alphabet and not only on the representatives above
	sweep := []*wgen.Family{wgen.F2(2, false), wgen.F2L(2, false), wgen.F2LMini(3, 1), wgen.F2LMini(3, 2)}
	if r.Thorough() {
		sweep = []*wgen.Family{wgen.F2(3, false), wgen.F2L(3, false)}
	}
	nsweep := 0
	for _, f := range sweep {
		f := f
		nsweep += f.Count
		r.ParallelFor(f.Count, func(i int) {
			c := f.At(i)
			c12Histories(r, sigClassF2(c.Sig), wgen.Print(c.Mod), 1, tot)
		})
	}
	r.Extra("history_sweep_programs_depth1", nsweep)
	r.Extra("history_depth", depth)
	r.Extra("history_programs", len(progs))
	r.Extra("history_ops", 9)
	// part 2
	cover := progs
	if !r.Thorough() {
		cover = nil
		cover = append(cover, wgen.Micros...)
		corp := corpus()
		for i := 0; i < len(corp); i += 5 {
			cover = append(cover, corp[i])
		}
	}
	c12Reuse(r, cover, r.Thorough(), tot)
	// part 2b: option-set pairs (sequential on purpose: the calls share whatever process-level state exists)
	pairProgs := []wgen.Micro{progs[0], progs[1]}
	for _, p := range progs {
		if strings.HasSuffix(p.Name, "corpus/boids") || strings.HasSuffix(p.Name, "corpus/quad") || strings.HasSuffix(p.Name, "corpus/shadow") {
			pairProgs = append(pairProgs, p)
		}
	}
	if r.Thorough() {
		pairProgs = append(pairProgs, wgen.Micros[2:]...)
	}
	c12OptionPairs(r, pairProgs, tot)
	// parts 3 and 4
	if os.Getenv("VERIF_C12_SKIPX") == "" {
		for _, sub := range []string{"maporder", "interleave", "race"} {
			if !c12RunX(r, sub, tot) {
				return 2
			}
		}
	}
	r.Extra("states", tot.states)
	r.Extra("transitions", tot.transitions)
	r.Extra("traces_validated_against_impl", tot.traces)
	r.Extra("max_states_per_module", tot.maxStates)
	r.Count("evaluations", tot.transitions)
	r.Sample(map[string]any{"history": []string{"dxil", "spirv"}, "program": "corpus/push-constants", "invariants": "module hash unchanged; output equals solo output"})
	r.Sample(map[string]any{"reuse": "Backend.Compile(A); Backend.Compile(B) == fresh Compile(B)", "A": cover[0].Name, "B": cover[1].Name})
	printKeys(r)
	return r.Finish("(1) explicit-state BFS over all sequences (depth 2 quick / 3 thorough) of 9 operations {3 SPIR-V option sets, HLSL, MSL, GLSL, DXIL, override resolution, Validate} on one shared module per program (corpus + micro-programs + family representatives), state = canonical deep hash of the caller's module, successors on deep clones; invariants: hash unchanged, output equals the output on a freshly lowered module, returned bytes not aliased. (2) all ordered pairs of a module cover set on one reused spirv.Backend under two option sets; (2b) for each backend's function-level API every ordered pair of the option sets within one deviation of its default, called one after the other in one process: the second output must equal the reference output of its option set. (3) every compile under an instrumented build with every range-over-map iterating ascending/descending/rotated. (4) all interleavings of 2-3 concurrent compilations up to the preemption bound at instrumented function-entry yield points with a shared-state fingerprint invariant at every point, plus a free-running -race pass. states/transitions are summed over modules and scenarios",
		[]string{"a spirv.Backend instance is single-owner by its documentation and is never shared between threads",
			"interleavings are explored at function-entry granularity under sequential consistency; finer-grained races are the job of the -race pass"})
}
