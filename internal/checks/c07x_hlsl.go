package checks

// C07/F3x, HLSL storage buffers: naga addresses them as (RW)ByteAddressBuffer with explicit byte
// addresses. The probe body of an F3x program reads every corner leaf through a constant access
// path (and writes it, for the read_write global), so every address is an integer constant
// expression in the text. This file reads those accesses back with a small token scanner written
// from the HLSL grammar of method calls on byte-address buffers (`buf.Load2(expr)`,
// `buf.Load<T>(expr)`, `buf.Store(expr, v)`, `buf.InterlockedAdd(expr, ...)`) and compares the
// byte ranges with the WGSL offsets:
//   * every probed leaf must be covered by some load on its buffer;
//   * every load must cover at least one leaf of the value (whole members are copied too);
//   * every probed leaf of the read_write buffer must have a store that starts at its offset and
//     has exactly its width; every store must start at the offset of a leaf of the value.
// Addresses that are not constant expressions, and template types the table does not know, are
// counted as skipped.

import (
	"strconv"
	"strings"
)

type hTok struct {
	k byte // 'i' identifier, 'n' number, 'p' punctuation
	s string
}

func hlslLex(src string) []hTok {
	var out []hTok
	i := 0
	isIdStart := func(c byte) bool { return c == '_' || c >= 'a' && c <= 'z' || c >= 'A' && c <= 'Z' }
	isDigit := func(c byte) bool { return c >= '0' && c <= '9' }
	for i < len(src) {
		c := src[i]
		switch {
		case c == ' ' || c == '\t' || c == '\n' || c == '\r':
			i++
		case c == '/' && i+1 < len(src) && src[i+1] == '/':
			for i < len(src) && src[i] != '\n' {
				i++
			}
		case c == '/' && i+1 < len(src) && src[i+1] == '*':
			j := strings.Index(src[i+2:], "*/")
			if j < 0 {
				return out
			}
			i += j + 4
		case isIdStart(c):
			j := i
			for j < len(src) && (isIdStart(src[j]) || isDigit(src[j])) {
				j++
			}
			out = append(out, hTok{'i', src[i:j]})
			i = j
		case isDigit(c) || c == '.' && i+1 < len(src) && isDigit(src[i+1]):
			j := i
			for j < len(src) && (isDigit(src[j]) || isIdStart(src[j]) || src[j] == '.' ||
				((src[j] == '+' || src[j] == '-') && j > i && (src[j-1] == 'e' || src[j-1] == 'E') && !strings.HasPrefix(src[i:j], "0x"))) {
				j++
			}
			out = append(out, hTok{'n', src[i:j]})
			i = j
		default:
			out = append(out, hTok{'p', string(c)})
			i++
		}
	}
	return out
}

// hlslConstInt evaluates toks[*pos:] as an integer constant expression over literals, + * and
// parentheses, stopping at a ',' or ')' of depth 0. ok=false when anything else occurs.
func hlslConstInt(toks []hTok, pos *int) (int, bool) {
	var expr func() (int, bool)
	factor := func() (int, bool) {
		if *pos >= len(toks) {
			return 0, false
		}
		t := toks[*pos]
		if t.k == 'n' {
			s := strings.TrimRight(t.s, "uUlL")
			v, err := strconv.ParseInt(s, 0, 64)
			if err != nil {
				return 0, false
			}
			*pos++
			return int(v), true
		}
		if t.k == 'p' && t.s == "(" {
			*pos++
			v, ok := expr()
			if !ok || *pos >= len(toks) || toks[*pos].s != ")" {
				return 0, false
			}
			*pos++
			return v, true
		}
		return 0, false
	}
	term := func() (int, bool) {
		v, ok := factor()
		for ok && *pos < len(toks) && toks[*pos].k == 'p' && toks[*pos].s == "*" {
			*pos++
			var w int
			w, ok = factor()
			v *= w
		}
		return v, ok
	}
	expr = func() (int, bool) {
		v, ok := term()
		for ok && *pos < len(toks) && toks[*pos].k == 'p' && toks[*pos].s == "+" {
			*pos++
			var w int
			w, ok = term()
			v += w
		}
		return v, ok
	}
	v, ok := expr()
	if !ok || *pos >= len(toks) || toks[*pos].k != 'p' || (toks[*pos].s != "," && toks[*pos].s != ")") {
		return 0, false
	}
	return v, true
}

// hlslTypeBytes: sizeof of a scalar/vector/matrix type name as a Load<T>/Store<T> argument.
func hlslTypeBytes(name string) (int, bool) {
	for _, b := range []struct {
		n string
		w int
	}{{"float16_t", 2}, {"half", 2}, {"int16_t", 2}, {"uint16_t", 2}, {"float", 4}, {"uint", 4}, {"int", 4}} {
		if rest, ok := strings.CutPrefix(name, b.n); ok {
			switch len(rest) {
			case 0:
				return b.w, true
			case 1:
				if rest[0] >= '1' && rest[0] <= '4' {
					return b.w * int(rest[0]-'0'), true
				}
			case 3:
				if rest[1] == 'x' && rest[0] >= '1' && rest[0] <= '4' && rest[2] >= '1' && rest[2] <= '4' {
					return b.w * int(rest[0]-'0') * int(rest[2]-'0'), true
				}
			}
		}
	}
	return 0, false
}

type hlslAccess struct {
	store, load bool
	addr, size  int
}

// hlslBufferAccesses returns, per register index of every (RW)ByteAddressBuffer declared in src, the
// constant-address accesses made on it anywhere in the text. skipped counts accesses left out.
func hlslBufferAccesses(src string, skip func(string)) map[int][]hlslAccess {
	toks := hlslLex(src)
	reg := map[string]int{}
	for i := 0; i+6 < len(toks); i++ {
		if toks[i].k == 'i' && (toks[i].s == "ByteAddressBuffer" || toks[i].s == "RWByteAddressBuffer") && toks[i+1].k == 'i' &&
			toks[i+2].s == ":" && toks[i+3].s == "register" && toks[i+4].s == "(" && toks[i+5].k == 'i' && len(toks[i+5].s) >= 2 {
			if n, err := strconv.Atoi(toks[i+5].s[1:]); err == nil && (toks[i+5].s[0] == 't' || toks[i+5].s[0] == 'u') {
				reg[toks[i+1].s] = n
			}
		}
	}
	out := map[int][]hlslAccess{}
	for i := 0; i+3 < len(toks); i++ {
		if toks[i].k != 'i' || toks[i+1].s != "." || toks[i+2].k != 'i' {
			continue
		}
		rn, ok := reg[toks[i].s]
		if !ok || (i > 0 && toks[i-1].s == ".") {
			continue
		}
		m := toks[i+2].s
		a := hlslAccess{}
		switch {
		case m == "Load":
			a.load, a.size = true, 4
		case m == "Load2" || m == "Load3" || m == "Load4":
			a.load, a.size = true, 4*int(m[4]-'0')
		case m == "Store":
			a.store, a.size = true, 4
		case m == "Store2" || m == "Store3" || m == "Store4":
			a.store, a.size = true, 4*int(m[5]-'0')
		case strings.HasPrefix(m, "Interlocked"):
			a.load, a.store, a.size = true, true, 4
		case m == "GetDimensions":
			continue
		default:
			skip("hlsl: unknown method on a byte-address buffer")
			continue
		}
		j := i + 3
		if toks[j].s == "<" { // Load<T> / Store<T>
			if j+2 >= len(toks) || toks[j+1].k != 'i' || toks[j+2].s != ">" {
				skip("hlsl: template argument of a buffer access not understood")
				continue
			}
			sz, ok := hlslTypeBytes(toks[j+1].s)
			if !ok {
				skip("hlsl: template argument of a buffer access not understood")
				continue
			}
			a.size = sz
			j += 3
		}
		if j >= len(toks) || toks[j].s != "(" {
			continue
		}
		j++
		v, ok := hlslConstInt(toks, &j)
		if !ok {
			skip("hlsl: buffer access at a non-constant address")
			continue
		}
		a.addr = v
		out[rn] = append(out[rn], a)
	}
	return out
}

// c07xHLSLAddresses judges the accesses on one buffer against the probed leaves.
type c07xLeaf struct {
	Path       string
	Off, Width int
	Class      string
}

// (messages: failure class, then " :: " and the particulars, which do not enter the violation key)
func c07xHLSLAddresses(acc []hlslAccess, probes, all []c07xLeaf, rw bool, bad func(string)) {
	for _, p := range probes {
		cov := false
		for _, a := range acc {
			if a.load && a.addr <= p.Off && p.Off+p.Width <= a.addr+a.size {
				cov = true
			}
		}
		if !cov {
			bad("load: no Load covers the leaf at its WGSL offset (" + p.Class + ") :: " + p.Path + " at " + strconv.Itoa(p.Off))
		}
		if !rw {
			continue
		}
		at, exact := false, false
		sz := 0
		for _, a := range acc {
			if a.store && a.addr == p.Off {
				at = true
				sz = a.size
				if a.size == p.Width {
					exact = true
				}
			}
		}
		if !at {
			bad("store: no Store starts at the WGSL offset of the leaf (" + p.Class + ") :: " + p.Path + " at " + strconv.Itoa(p.Off))
		} else if !exact {
			bad("store: Store of " + strconv.Itoa(sz) + " bytes to a leaf of " + strconv.Itoa(p.Width) + " bytes (" + p.Class + ") :: " + p.Path)
		}
	}
	for _, a := range acc {
		if a.load {
			cov := false
			for _, p := range all {
				if a.addr <= p.Off && p.Off+p.Width <= a.addr+a.size {
					cov = true
				}
			}
			if !cov && !a.store {
				bad("load: a Load covers no leaf of the value :: " + strconv.Itoa(a.size) + " bytes at " + strconv.Itoa(a.addr))
			}
		}
		if a.store {
			at := false
			for _, p := range all {
				if a.addr == p.Off {
					at = true
				}
			}
			if !at {
				bad("store: a Store is not at the WGSL offset of any leaf of the value :: at " + strconv.Itoa(a.addr))
			}
		}
	}
}
