package checks

// c16closure.go: the self-collision closure of C16.
//
// Phase 1 compiles a seed with neutral user names and harvests every spelling the backends *declare*
// in the emitted text that is not one of the user's names (temporaries, wrappers, interface structs and
// their members, interface parameters, helper functions and their parameters and locals, padding
// members, loop guards, size-buffer names, varyings, block and instance names, sanitised forms ...).
// Phase 2 gives each user entity, one at a time, each harvested spelling and judges the output against
// the output under neutral names. Spellings that appear only in those outputs (names derived from the
// new user name, suffixed forms chosen to avoid the collision) are harvested again and tried at a
// second position while the first renaming stays in place, to the closure depth of the tier.
//
// Nothing here knows how naga spells anything: the candidate names are read from naga's own output.

import (
	"bytes"
	"errors"
	"fmt"
	"regexp"
	"sort"
	"strings"
	"sync"

	"github.com/gogpu/naga/glsl"
	"github.com/gogpu/naga/hlsl"
	"github.com/gogpu/naga/ir"
	"github.com/gogpu/naga/msl"

	"verif/internal/explore"
	"verif/internal/glslx"
	"verif/internal/hlslx"
	"verif/internal/mslx"
	"verif/internal/nagax"
	"verif/internal/xrt"
)

type c16Ent struct {
	key     string // placeholder in the template ($key)
	neutral string
	kind    string // struct member alias const override private workgroup storage uniform handle fn param lvar llet lconst ep
}

type c16EP struct {
	key   string
	stage string // vs fs cs
}

type c16Seed struct {
	name string
	tmpl string
	ents []c16Ent
	eps  []c16EP
	bufs func() xrt.Buffers
	// derived
	fixed map[string]bool // identifier-like words of the template that are not placeholders
}

var c16Placeholder = regexp.MustCompile(`\$[A-Za-z0-9]+`)
var c16Word = regexp.MustCompile(`[A-Za-z_][A-Za-z0-9_]*`)

func (s *c16Seed) prepare() {
	s.fixed = map[string]bool{}
	for _, w := range c16Word.FindAllString(c16Placeholder.ReplaceAllString(s.tmpl, " "), -1) {
		s.fixed[w] = true
	}
	have := map[string]bool{}
	for _, e := range s.ents {
		have[e.key] = true
	}
	for _, ph := range c16Placeholder.FindAllString(s.tmpl, -1) {
		if !have[ph[1:]] {
			panic("c16 seed " + s.name + ": placeholder without entity: " + ph)
		}
	}
}

func (s *c16Seed) neutralNames() map[string]string {
	m := map[string]string{}
	for _, e := range s.ents {
		m[e.key] = e.neutral
	}
	return m
}

func (s *c16Seed) source(names map[string]string) string {
	return c16Placeholder.ReplaceAllStringFunc(s.tmpl, func(ph string) string { return names[ph[1:]] })
}

type c16Exec struct {
	err         string
	unsupported bool
	out         xrt.Buffers
}

// c16Unit is one emitted text (HLSL and MSL: the module; GLSL: one entry point) and what was read from it.
type c16Unit struct {
	backend    string
	unit       string // "" or the entry-point key (glsl)
	compileErr string
	text       string
	rd         *cRead
	epNames    map[string]string // reflection: WGSL entry-point name -> emitted name
	interpOK   bool
	interpErr  string // interpreter rejected the text as malformed
	problems   []string
	exec       map[string]c16Exec // per compute entry-point key
}

func (u *c16Unit) tag() string {
	if u.unit == "" {
		return u.backend
	}
	return u.backend + "." + u.unit
}

func c16IsRuntimeSized(m *ir.Module, t ir.TypeHandle) bool {
	switch x := m.Types[t].Inner.(type) {
	case ir.ArrayType:
		return x.Size.Constant == nil
	case ir.StructType:
		if n := len(x.Members); n > 0 {
			return c16IsRuntimeSized(m, x.Members[n-1].Type)
		}
	}
	return false
}

func c16Equal(a, b xrt.Buffers) bool {
	if len(a) != len(b) {
		return false
	}
	for k, v := range a {
		if !bytes.Equal(v, b[k]) {
			return false
		}
	}
	return true
}

// c16Compile emits the seed under the given names with every text backend and reads the results. The
// interpreters are only consulted for units in want (nil = all): units whose neutral text they cannot
// read are not offered to them again.
func c16Compile(s *c16Seed, names map[string]string, skipInterp map[string]bool) (units []*c16Unit, frontErr string) {
	src := s.source(names)
	m, _, err, pn := nagax.Front(src)
	if pn != nil {
		return nil, "panic: " + pn.Value
	}
	if err != nil {
		return nil, err.Error()
	}
	execWith := func(u *c16Unit, run func(ep c16EP, emitted string, b xrt.Buffers) error) {
		u.exec = map[string]c16Exec{}
		for _, ep := range s.eps {
			if ep.stage != "cs" {
				continue
			}
			emitted, ok := u.epNames[names[ep.key]]
			if !ok {
				continue
			}
			b := s.bufs()
			e := c16Exec{}
			if err := run(ep, emitted, b); err != nil {
				e.err = err.Error()
				var un *xrt.Unsupported
				e.unsupported = errors.As(err, &un)
			}
			e.out = b
			u.exec[ep.key] = e
		}
	}
	interpFail := func(u *c16Unit, err error) {
		var un *xrt.Unsupported
		if errors.As(err, &un) {
			return
		}
		u.interpErr = err.Error()
	}
	// HLSL
	{
		u := &c16Unit{backend: "hlsl"}
		units = append(units, u)
		text, info, err, pn := nagax.HLSL(m, *hlsl.DefaultOptions())
		if pn != nil || err != nil {
			u.compileErr = errStr(err, pn)
		} else {
			u.text = text
			u.rd = cParse(text, "hlsl")
			if ti, ok := info.(*hlsl.TranslationInfo); ok && ti != nil {
				u.epNames = ti.EntryPointNames
			} else if ti, ok := info.(hlsl.TranslationInfo); ok {
				u.epNames = ti.EntryPointNames
			}
			if !skipInterp[u.tag()] {
				if p, err := hlslx.Parse(text); err != nil {
					interpFail(u, err)
				} else {
					u.interpOK = true
					u.problems = p.Problems()
					execWith(u, func(ep c16EP, emitted string, b xrt.Buffers) error {
						return p.Exec(b, hlslx.Opts{Opts: xrt.Opts{EntryPoint: emitted}})
					})
				}
			}
		}
	}
	// MSL
	{
		u := &c16Unit{backend: "msl"}
		units = append(units, u)
		opts := msl.DefaultOptions()
		res := map[ir.ResourceBinding]msl.BindTarget{}
		slots := map[int]xrt.Binding{}
		var sizes []xrt.Binding
		for gi := range m.GlobalVariables {
			g := &m.GlobalVariables[gi]
			if g.Binding == nil {
				continue
			}
			slot := uint8(g.Binding.Binding)
			switch m.Types[g.Type].Inner.(type) {
			case ir.ImageType:
				res[*g.Binding] = msl.BindTarget{Texture: &slot}
			case ir.SamplerType:
				res[*g.Binding] = msl.BindTarget{Sampler: &msl.BindSamplerTarget{Slot: slot}}
			default:
				res[*g.Binding] = msl.BindTarget{Buffer: &slot, Mutable: true}
				slots[int(slot)] = xrt.Binding{Group: g.Binding.Group, Binding: g.Binding.Binding}
				if c16IsRuntimeSized(m, g.Type) {
					sizes = append(sizes, xrt.Binding{Group: g.Binding.Group, Binding: g.Binding.Binding})
				}
			}
		}
		sort.Slice(sizes, func(i, j int) bool { return sizes[i].Binding < sizes[j].Binding })
		sb := uint8(30)
		opts.PerEntryPointMap = map[string]msl.EntryPointResources{}
		for _, ep := range s.eps {
			opts.PerEntryPointMap[names[ep.key]] = msl.EntryPointResources{Resources: res, SizesBuffer: &sb}
		}
		text, info, err, pn := nagax.MSL(m, opts)
		if pn != nil || err != nil {
			u.compileErr = errStr(err, pn)
		} else {
			u.text = text
			u.rd = cParse(text, "msl")
			u.epNames = info.EntryPointNames
			if !skipInterp[u.tag()] {
				if p, err := mslx.Parse(text); err != nil {
					interpFail(u, err)
				} else {
					u.interpOK = true
					u.problems = p.Problems()
					execWith(u, func(ep c16EP, emitted string, b xrt.Buffers) error {
						return p.Exec(b, mslx.Opts{Opts: xrt.Opts{EntryPoint: emitted}, BufferSlots: slots, SizesOrder: sizes, WorkgroupSize: [3]uint32{1, 1, 1}})
					})
				}
			}
		}
	}
	// GLSL: one text per entry point
	for _, ep := range s.eps {
		u := &c16Unit{backend: "glsl", unit: ep.stage + "_" + ep.key}
		units = append(units, u)
		g := glsl.DefaultOptions()
		g.LangVersion = glsl.Version450
		g.EntryPoint = names[ep.key]
		text, info, err, pn := nagax.GLSL(m, g)
		if pn != nil || err != nil {
			u.compileErr = errStr(err, pn)
			continue
		}
		u.text = text
		u.rd = cParse(text, "glsl")
		u.epNames = map[string]string{names[ep.key]: info.EntryPointNames[names[ep.key]]}
		if _, ok := info.EntryPointNames[names[ep.key]]; !ok {
			u.epNames = map[string]string{}
		}
		if ep.stage == "cs" && !skipInterp[u.tag()] {
			if p, err := glslx.Parse(text); err != nil {
				interpFail(u, err)
			} else {
				u.interpOK = true
				u.problems = p.Problems()
				u.exec = map[string]c16Exec{}
				b := s.bufs()
				e := c16Exec{}
				if err := p.Exec(b, glslx.Opts{}); err != nil {
					e.err = err.Error()
					var un *xrt.Unsupported
					e.unsupported = errors.As(err, &un)
				}
				e.out = b
				u.exec[ep.key] = e
			}
		}
	}
	return units, ""
}

// c16InterpProblems selects, from the interpreter's findings that the neutral text does not have, those
// that concern identifiers (same classes as the fixed-list part of the check).
func c16InterpProblems(backend string, base, got []string) []string {
	baseSet := map[string]bool{}
	for _, p := range base {
		baseSet[c16StripLine(p)] = true
	}
	var out []string
	for _, p := range got {
		if baseSet[c16StripLine(p)] {
			continue
		}
		lp := strings.ToLower(p)
		switch {
		case strings.Contains(lp, "keyword") || strings.Contains(lp, "reserved word") || strings.Contains(lp, "predeclared") || strings.Contains(lp, "gl_"):
			if m := quoted.FindStringSubmatch(p); m != nil && certainKeyword(backend, m[1]) {
				out = append(out, p)
			}
		case strings.Contains(lp, "duplicate") || strings.Contains(lp, "same spelling") || strings.Contains(lp, "redeclares") || strings.Contains(lp, "redeclared in") || strings.Contains(lp, "redefined") || strings.Contains(lp, "declared twice") || strings.Contains(lp, "defined twice"):
			out = append(out, p)
		case strings.Contains(lp, "consecutive underscores"):
			out = append(out, p)
		case strings.Contains(lp, "hides") || strings.Contains(lp, "intrinsic") || strings.Contains(lp, "builtin") || strings.Contains(lp, "built-in"):
			out = append(out, p)
		}
	}
	sort.Strings(out)
	return out
}

var c16LineNo = regexp.MustCompile(`\(?(previous |previous declaration |first )?(at )?line \d+\)?:? ?|@\d+|in scope \d+ ?`)

func c16StripLine(p string) string { return c16LineNo.ReplaceAllString(p, "") }

// c16ProblemClass removes line numbers and spellings from an interpreter finding.
func c16ProblemClass(p string) string {
	return trunc(errClass(quoted.ReplaceAllString(c16StripLine(p), "<id>")), 80)
}

type c16Failure struct {
	unit   string
	class  string
	detail string
}

// c16Judge compares the units emitted under some renaming with the units emitted under neutral names.
func c16Judge(s *c16Seed, names map[string]string, base, got []*c16Unit, taint map[string]bool, count func(string)) []c16Failure {
	var out []c16Failure
	for i, g := range got {
		b := base[i]
		if taint[g.tag()] {
			count("unit not judged: the parent case already fails in it")
			continue
		}
		fail := func(class, detail string) { out = append(out, c16Failure{g.tag(), class, detail}) }
		if b.compileErr != "" {
			count("unit not emitted under neutral names")
			continue
		}
		count("units judged")
		if g.compileErr != "" {
			fail("backend-error", g.compileErr)
			continue
		}
		if g.rd.err != "" {
			if b.rd.err == "" {
				fail("not-well-formed", "declaration reader: "+g.rd.err)
			}
			continue
		}
		if b.rd.err != "" {
			count("unit unreadable under neutral names")
			continue
		}
		class, detail, aligned := cCompare(b.rd, g.rd)
		if aligned {
			count("alpha-comparisons")
		} else {
			count("texts differing in more than spelling (alpha-comparison not applicable)")
		}
		// A declaration that hides one of an enclosing scope is harmful exactly when some reference now
		// resolves to it instead of the hidden entity, which the alpha-comparison reports; hiding that
		// captures nothing (a helper's parameter spelled like a user global) is legal in all three
		// languages and not held against the output.
		var np []string
		for _, p := range cNewProblems(b.rd, g.rd, aligned) {
			if !strings.HasPrefix(p, "hides:") {
				np = append(np, p)
			}
		}
		if len(np) > 0 {
			fail("identifier-problem:"+problemClass(np[0]), strings.Join(np, "; "))
			continue
		}
		if class != "" {
			fail(class, detail)
			continue
		}
		// reflection: the reported name of every entry point names a function of the text
		bad := false
		for _, ep := range s.eps {
			if g.unit != "" && g.unit != ep.stage+"_"+ep.key {
				continue
			}
			emitted, ok := g.epNames[names[ep.key]]
			if !ok {
				if _, bok := b.epNames[s.neutralNames()[ep.key]]; bok {
					fail("entry-point-name-not-reported", "no emitted name is reported for entry point "+names[ep.key])
					bad = true
				}
				break
			}
			if !g.rd.hasFunction(emitted) {
				fail("entry-point-name-not-in-output", fmt.Sprintf("the reported name %q of entry point %s does not name a function in the text", emitted, names[ep.key]))
				bad = true
				break
			}
		}
		if bad {
			continue
		}
		if !b.interpOK {
			continue
		}
		count("interpreter readings")
		if g.interpErr != "" {
			fail("not-well-formed", trunc(g.interpErr, 200))
			continue
		}
		if !g.interpOK {
			count("interpreter: unsupported construct")
			continue
		}
		if np := c16InterpProblems(g.backend, b.problems, g.problems); len(np) > 0 {
			fail("identifier-problem:interpreter:"+c16ProblemClass(np[0]), strings.Join(np, "; "))
			continue
		}
		for _, ep := range s.eps {
			be, ok := b.exec[ep.key]
			if !ok || be.err != "" {
				continue
			}
			ge, ok := g.exec[ep.key]
			if !ok {
				fail("entry-point-name-not-in-output", "compute entry point "+names[ep.key]+" could not be located for execution")
				break
			}
			count("executions")
			if ge.unsupported {
				count("interpreter: unsupported construct")
				continue
			}
			if ge.err != "" {
				fail("exec:"+errClass(ge.err), ge.err)
				break
			}
			if !c16Equal(ge.out, be.out) {
				fail("different-result", fmt.Sprintf("entry point %s computes %v; under neutral names %v (a reference resolves to another entity)", names[ep.key], ge.out, be.out))
				break
			}
		}
	}
	return out
}

func c16Harvest(units []*c16Unit) []string {
	seen := map[string]bool{}
	var out []string
	for _, u := range units {
		if u.rd == nil {
			continue
		}
		for _, n := range u.rd.declNames() {
			if !seen[n] {
				seen[n] = true
				out = append(out, n)
			}
		}
	}
	sort.Strings(out)
	return out
}

type c16Job struct {
	set   [][2]string // (entity key, name) in order of application
	depth int
	taint map[string]bool // units in which the parent case already fails (not judged again)
}

func (j c16Job) label() (pos, lab string) {
	var ps, ls []string
	for _, kv := range j.set {
		ps = append(ps, kv[0])
		ls = append(ls, kv[1])
	}
	return strings.Join(ps, "+"), strings.Join(ls, "+")
}

func c16ValidWGSLIdent(n string) bool {
	if n == "" || n == "_" || strings.HasPrefix(n, "__") {
		return false
	}
	return !(n[0] >= '0' && n[0] <= '9')
}

// c16Closure runs the closure on one seed. level1 supplies the first-level names per entity (nil: the
// harvest of the neutral output, at every entity). second selects the entities tried at deeper levels
// for a given first entity.
type c16Plan struct {
	name     string
	seed     *c16Seed
	depth    int
	level1   func(harvest []string) []c16Job
	deeper   func(parent c16Job, fresh []string) []c16Job
	maxFresh int
}

func c16RunPlan(r *explore.Run, pl c16Plan) int {
	s := pl.seed
	s.prepare()
	neutral := s.neutralNames()
	base, ferr := c16Compile(s, neutral, nil)
	if ferr != "" {
		fmt.Println("HARNESS-ERROR: neutral C16 seed", s.name, "rejected:", ferr)
		return 2
	}
	skipInterp := map[string]bool{}
	for _, u := range base {
		switch {
		case u.compileErr != "":
			r.Note("seed %s: %s not emitted under neutral names: %s", s.name, u.tag(), u.compileErr)
		case u.rd.err != "":
			fmt.Println("HARNESS-ERROR: neutral C16 seed", s.name, u.tag(), "unreadable:", u.rd.err)
			return 2
		}
		if !u.interpOK {
			skipInterp[u.tag()] = true
			if u.interpErr != "" {
				r.Note("seed %s: interpreter cannot read the neutral %s text (%s); judged by the declaration reader only", s.name, u.tag(), trunc(u.interpErr, 120))
			}
		}
		for k, e := range u.exec {
			if e.err != "" {
				r.Note("seed %s: neutral %s entry point %s not executable (%s)", s.name, u.tag(), k, trunc(e.err, 120))
			}
		}
	}
	harvest0 := c16Harvest(base)
	known := map[string]bool{}
	for _, h := range harvest0 {
		known[h] = true
	}
	user := map[string]bool{}
	for _, e := range s.ents {
		user[e.neutral] = true
	}
	var h1 []string
	for _, h := range harvest0 {
		if !user[h] {
			h1 = append(h1, h)
		}
	}
	r.Extra(pl.name+"_harvest", len(h1))
	r.Extra(pl.name+"_entities", len(s.ents))
	jobs := pl.level1(h1)
	for depth := 1; depth <= pl.depth && len(jobs) > 0; depth++ {
		fresh := make([][]string, len(jobs))
		failed := make([]map[string]bool, len(jobs))
		var mu sync.Mutex
		ran := 0
		r.ParallelFor(len(jobs), func(i int) {
			j := jobs[i]
			names := map[string]string{}
			for k, v := range neutral {
				names[k] = v
			}
			ok := true
			for _, kv := range j.set {
				if !c16ValidWGSLIdent(kv[1]) || s.fixed[kv[1]] {
					ok = false
				}
				for k, v := range names {
					if v == kv[1] && k != kv[0] {
						ok = false // would collide with another user name at the WGSL level
					}
				}
				names[kv[0]] = kv[1]
			}
			if !ok {
				r.Skip("candidate is a word of the seed text, another user name, or not a WGSL identifier")
				return
			}
			got, ferr := c16Compile(s, names, skipInterp)
			if ferr != "" {
				if strings.HasPrefix(ferr, "panic") {
					r.Skip("naga panic (C10)")
				} else {
					r.Skip("name rejected by the WGSL front end (reserved word or invalid identifier)")
				}
				return
			}
			pos, lab := j.label()
			r.Count("evaluations", int64(len(got)))
			r.Distinct(s.name + ":" + pos)
			fails := c16Judge(s, names, base, got, j.taint, func(c string) { r.Count("closure: "+c, 1) })
			if len(fails) > 0 || len(j.taint) > 0 {
				failed[i] = map[string]bool{}
				for u := range j.taint {
					failed[i][u] = true
				}
			}
			for _, f := range fails {
				failed[i][f.unit] = true
				be := f.unit
				seedTag := s.name
				if i := strings.Index(be, "."); i > 0 {
					seedTag += "." + be[i+1:]
					be = be[:i]
				}
				r.Violate(explore.Violation{Key: "C16|" + be + "|" + seedTag + ":" + pos + "|" + f.class + "|" + lab,
					Detail: fmt.Sprintf("%s output for %s = %s in seed %s: %s", f.unit, pos, lab, s.name, f.detail),
					Replay: map[string]any{"names": names, "backend": f.unit, "src": s.source(names)}})
			}
			// spellings declared now that were not declared under neutral names
			var fr []string
			for _, h := range c16Harvest(got) {
				if known[h] {
					continue
				}
				mine := false
				for _, kv := range j.set {
					if kv[1] == h {
						mine = true
					}
				}
				if !mine {
					fr = append(fr, h)
				}
			}
			fresh[i] = fr
			mu.Lock()
			ran++
			mu.Unlock()
		})
		r.Count(fmt.Sprintf("%s_depth%d_cases", pl.name, depth), int64(ran))
		if depth == pl.depth || pl.deeper == nil {
			break
		}
		var next []c16Job
		nfresh := 0
		for i, j := range jobs {
			fr := fresh[i]
			if pl.maxFresh > 0 && len(fr) > pl.maxFresh {
				fr = fr[:pl.maxFresh]
			}
			nfresh += len(fr)
			for _, nj := range pl.deeper(j, fr) {
				nj.taint = failed[i]
				next = append(next, nj)
			}
		}
		r.Count(fmt.Sprintf("%s_depth%d_fresh_spellings", pl.name, depth), int64(nfresh))
		jobs = next
	}
	return 0
}
