package checks

import (
	"fmt"
	"sort"
	"strconv"
	"strings"

	"github.com/gogpu/naga/glsl"
	"github.com/gogpu/naga/hlsl"
	"github.com/gogpu/naga/ir"
	"github.com/gogpu/naga/msl"
	"github.com/gogpu/naga/spirv"

	"verif/internal/explore"
	"verif/internal/nagax"
	"verif/internal/wgen"
)

// C17, attribute-order part: every F5X program (one interface written with every permutation of every
// attribute list) against the interface model, in all four targets.

// expected interpolation of a user-defined vertex output / fragment input (WGSL defaults filled in)
type c17Interp struct{ flat, linear, centroid, sample bool }

func c17WantInterp(io wgen.F5XIO) c17Interp {
	w := c17Interp{}
	switch io.Interp {
	case "flat":
		w.flat = true
	case "linear":
		w.linear = true
	case "":
		w.flat = f5xIsIntType(io.Type)
	}
	if !w.flat {
		w.centroid = io.Sampling == "centroid"
		w.sample = io.Sampling == "sample"
	}
	return w
}

func (w c17Interp) String() string {
	switch {
	case w.flat:
		return "flat"
	case w.linear:
		return "linear" + map[bool]string{true: ",centroid"}[w.centroid] + map[bool]string{true: ",sample"}[w.sample]
	}
	return "perspective" + map[bool]string{true: ",centroid"}[w.centroid] + map[bool]string{true: ",sample"}[w.sample]
}

func f5xIsIntType(t string) bool { return strings.Contains(t, "u32") || strings.Contains(t, "i32") }

func c17Interstage(stage, dir string) bool {
	return stage == "fragment" && dir == "in" || stage == "vertex" && dir == "out"
}

// c17Where tells whether input/output idx of e is written as a struct member or as a bare parameter/return.
func c17Where(e wgen.F5XEntry, dir string, idx int) string {
	if dir == "out" {
		if e.OutStruct != "" {
			return ":member"
		}
		return ":bare"
	}
	if e.InStruct != "" && (e.NStruct == 0 || idx < e.NStruct) {
		return ":member"
	}
	return ":bare"
}

func c17IOTag(io wgen.F5XIO) string {
	if io.Builtin != "" {
		return "builtin(" + io.Builtin + ")"
	}
	if io.BlendSrc >= 0 {
		return fmt.Sprintf("location(%d) blend_src(%d)", io.Location, io.BlendSrc)
	}
	return fmt.Sprintf("location(%d)", io.Location)
}

// ---------------------------------------------------------------- HLSL

// D3D system-value semantics of the WGSL builtins (num_workgroups has none: it needs a constant buffer)
var hlslBuiltinSem = map[string]string{"position": "SV_POSITION", "vertex_index": "SV_VERTEXID", "instance_index": "SV_INSTANCEID",
	"front_facing": "SV_ISFRONTFACE", "sample_index": "SV_SAMPLEINDEX", "sample_mask": "SV_COVERAGE", "frag_depth": "SV_DEPTH",
	"global_invocation_id": "SV_DISPATCHTHREADID", "local_invocation_id": "SV_GROUPTHREADID", "local_invocation_index": "SV_GROUPINDEX",
	"workgroup_id": "SV_GROUPID"}

func hlslEntryNames(info any) map[string]string {
	switch ti := info.(type) {
	case *hlsl.TranslationInfo:
		if ti != nil {
			return ti.EntryPointNames
		}
	case hlsl.TranslationInfo:
		return ti.EntryPointNames
	}
	return nil
}

func c17xHLSL(p *wgen.F5XProgram, m *ir.Module, fail c17Fail, count func()) {
	src, info, err, pn := nagax.HLSL(m, *hlsl.DefaultOptions())
	if err != nil || pn != nil {
		return
	}
	prog := ctParse(src)
	count()
	names := hlslEntryNames(info)
	// flatten: a parameter with a semantic is one element; a parameter of struct type contributes its members
	var flatten func(vs []ctVar, depth int) []ctVar
	flatten = func(vs []ctVar, depth int) []ctVar {
		var out []ctVar
		for _, v := range vs {
			if v.Semantic != "" {
				out = append(out, v)
			} else if st := prog.structByName(v.Type); st != nil && depth < 3 {
				out = append(out, flatten(st.Members, depth+1)...)
			}
		}
		return out
	}
	locSem := map[string]map[int]string{} // "vertex-out"/"fragment-in" -> location -> semantic name
	for _, e := range p.Entries {
		name, ok := names[e.Name]
		if !ok {
			fail("hlsl:entry-point-name", "no entry-point name reported for "+e.Name)
			continue
		}
		fn := prog.funcByName(name)
		if fn == nil {
			fail("hlsl:entry-point-name", fmt.Sprintf("reflection maps %s to %s, which is not a function in the text", e.Name, name))
			continue
		}
		if e.Stage == "compute" {
			ok := false
			for _, a := range fn.PreAttrs {
				if a.Name == "numthreads" && len(a.Args) == 3 && a.Args[0] == strconv.Itoa(e.Workgroup[0]) && a.Args[1] == strconv.Itoa(e.Workgroup[1]) && a.Args[2] == strconv.Itoa(e.Workgroup[2]) {
					ok = true
				}
			}
			if !ok {
				fail("hlsl:numthreads", fmt.Sprintf("%s: no [numthreads(%d, %d, %d)] on the entry function (attributes %v)", e.Name, e.Workgroup[0], e.Workgroup[1], e.Workgroup[2], fn.PreAttrs))
			}
		}
		ins := flatten(fn.Params, 0)
		var outs []ctVar
		if fn.RetSem != "" {
			outs = []ctVar{{Type: fn.RetType, Semantic: fn.RetSem, Quals: []string{fn.RetType}}}
		} else if st := prog.structByName(fn.RetType); st != nil {
			outs = flatten(st.Members, 1)
		}
		check := func(ios []wgen.F5XIO, dir string, elems []ctVar) {
			claimed := make([]bool, len(elems))
			for idx, io := range ios {
				wh := c17Where(e, dir, idx)
				tag := e.Name + " " + dir + " " + c17IOTag(io)
				var hits []int
				for i, el := range elems {
					sn, si := ctSemantic(el.Semantic)
					switch {
					case io.Builtin != "":
						if w, ok := hlslBuiltinSem[io.Builtin]; ok && sn == w && si == 0 {
							hits = append(hits, i)
						}
					case e.Stage == "fragment" && dir == "out":
						want := io.Location
						if io.BlendSrc >= 0 {
							want = io.BlendSrc // D3D dual-source blending: the two sources are render-target outputs 0 and 1
						}
						if sn == "SV_TARGET" && si == want {
							hits = append(hits, i)
						}
					default:
						if !strings.HasPrefix(sn, "SV_") && si == io.Location {
							hits = append(hits, i)
						}
					}
				}
				if io.Builtin != "" {
					if _, ok := hlslBuiltinSem[io.Builtin]; !ok {
						continue
					}
					if len(hits) != 1 {
						fail("hlsl:builtin-semantic"+wh, fmt.Sprintf("%s: %d elements of the entry signature carry %s", tag, len(hits), hlslBuiltinSem[io.Builtin]))
					}
					for _, h := range hits {
						claimed[h] = true
					}
					continue
				}
				if len(hits) != 1 {
					fail("hlsl:location-semantic"+wh, fmt.Sprintf("%s: %d elements of the entry signature carry a semantic with index %d", tag, len(hits), io.Location))
					for _, h := range hits {
						claimed[h] = true
					}
					continue
				}
				el := elems[hits[0]]
				claimed[hits[0]] = true
				if c17Interstage(e.Stage, dir) {
					w := c17WantInterp(io)
					got := c17Interp{flat: el.has("nointerpolation"), linear: el.has("noperspective"), centroid: el.has("centroid"), sample: el.has("sample")}
					none := got == c17Interp{}
					if got != w && !(dir == "out" && none) { // the pixel-shader input decides; a vertex output may leave it out but must not contradict
						fail("hlsl:interpolation"+wh, fmt.Sprintf("%s (%s): interpolation modifiers say %v, WGSL says %v", tag, io.Type, got, w))
					}
					k := e.Stage + "-" + dir
					if locSem[k] == nil {
						locSem[k] = map[int]string{}
					}
					sn, _ := ctSemantic(el.Semantic)
					locSem[k][io.Location] = sn
				}
			}
			for i, el := range elems {
				if sn, _ := ctSemantic(el.Semantic); !claimed[i] && !strings.HasPrefix(sn, "SV_") {
					fail("hlsl:io-invented", fmt.Sprintf("%s %s: signature element %s : %s corresponds to no WGSL input/output", e.Name, dir, el.Name, el.Semantic))
				}
			}
		}
		check(e.Inputs, "in", ins)
		check(e.Outputs, "out", outs)
	}
	for loc, a := range locSem["vertex-out"] {
		if b, ok := locSem["fragment-in"][loc]; ok && a != b {
			fail("hlsl:varying-link", fmt.Sprintf("location %d is %s%d on the vertex output and %s%d on the fragment input", loc, a, loc, b, loc))
		}
	}
}

// ---------------------------------------------------------------- MSL

var mslBuiltinAttr = map[string]string{"position": "position", "vertex_index": "vertex_id", "instance_index": "instance_id",
	"front_facing": "front_facing", "sample_index": "sample_id", "sample_mask": "sample_mask", "frag_depth": "depth",
	"global_invocation_id": "thread_position_in_grid", "local_invocation_id": "thread_position_in_threadgroup",
	"local_invocation_index": "thread_index_in_threadgroup", "workgroup_id": "threadgroup_position_in_grid", "num_workgroups": "threadgroups_per_grid"}

var mslInterpAttrs = map[string]c17Interp{"flat": {flat: true}, "center_perspective": {}, "center_no_perspective": {linear: true},
	"centroid_perspective": {centroid: true}, "centroid_no_perspective": {linear: true, centroid: true},
	"sample_perspective": {sample: true}, "sample_no_perspective": {linear: true, sample: true}}

var mslStageWord = map[string]string{"vertex": "vertex", "fragment": "fragment", "compute": "kernel"}

func c17xMSL(p *wgen.F5XProgram, m *ir.Module, fail c17Fail, count func()) {
	src, info, err, pn := nagax.MSL(m, msl.DefaultOptions())
	if err != nil || pn != nil {
		return
	}
	prog := ctParse(src)
	count()
	userName := map[string]map[int]string{}
	for _, e := range p.Entries {
		name, ok := info.EntryPointNames[e.Name]
		if !ok {
			fail("msl:entry-point-name", "no entry-point name reported for "+e.Name)
			continue
		}
		fn := prog.funcByName(name)
		if fn == nil {
			fail("msl:entry-point-name", fmt.Sprintf("reflection maps %s to %s, which is not a function in the text", e.Name, name))
			continue
		}
		if fn.Stage != mslStageWord[e.Stage] {
			fail("msl:stage-qualifier", fmt.Sprintf("%s (%s) is declared %q", e.Name, e.Stage, fn.Stage))
		}
		var ins, outs []ctVar
		for _, pa := range fn.Params {
			if _, ok := pa.attr("stage_in"); ok {
				if st := prog.structByName(pa.Type); st != nil {
					ins = append(ins, st.Members...)
				}
				continue
			}
			ins = append(ins, pa)
		}
		if st := prog.structByName(fn.RetType); st != nil {
			outs = st.Members
		}
		check := func(ios []wgen.F5XIO, dir string, elems []ctVar) {
			for idx, io := range ios {
				wh := c17Where(e, dir, idx)
				tag := e.Name + " " + dir + " " + c17IOTag(io)
				var hits []ctVar
				for _, el := range elems {
					switch {
					case io.Builtin != "":
						if _, ok := el.attr(mslBuiltinAttr[io.Builtin]); ok {
							hits = append(hits, el)
						}
					case e.Stage == "vertex" && dir == "in":
						if n, ok := el.attrInt("attribute"); ok && n == io.Location {
							hits = append(hits, el)
						}
					case e.Stage == "fragment" && dir == "out":
						if n, ok := el.attrInt("color"); ok && n == io.Location {
							ix, hasIx := el.attrInt("index")
							if io.BlendSrc < 0 && (!hasIx || ix == 0) || io.BlendSrc >= 0 && (hasIx && ix == io.BlendSrc || !hasIx && io.BlendSrc == 0) {
								hits = append(hits, el)
							}
						}
					default:
						if a, ok := el.attr("user"); ok && len(a.Args) == 1 {
							if n, ok := ctTrailingInt(a.Args[0]); ok && n == io.Location {
								hits = append(hits, el)
							}
						}
					}
				}
				if len(hits) != 1 {
					cls := "msl:location-attribute"
					if io.Builtin != "" {
						cls = "msl:builtin-attribute"
					} else if io.BlendSrc >= 0 {
						cls = "msl:blend-src-index"
					}
					fail(cls+wh, fmt.Sprintf("%s: %d arguments/members of the entry signature carry the matching attribute", tag, len(hits)))
					continue
				}
				el := hits[0]
				if io.Invariant && e.Stage == "vertex" {
					if _, ok := el.attr("invariant"); !ok {
						fail("msl:invariant"+wh, fmt.Sprintf("%s: [[invariant]] missing next to [[position]] (attributes %v)", tag, el.Attrs))
					}
				}
				if io.Builtin == "" && c17Interstage(e.Stage, dir) {
					w := c17WantInterp(io)
					var got []string
					for _, a := range el.Attrs {
						if _, ok := mslInterpAttrs[a.Name]; ok {
							got = append(got, a.Name)
						}
					}
					okI := false
					switch {
					case len(got) == 0:
						okI = dir == "out" || w == c17Interp{} // no attribute = center_perspective; a vertex output may leave it to the fragment input
					case len(got) == 1:
						okI = mslInterpAttrs[got[0]] == w
					}
					if !okI {
						fail("msl:interpolation"+wh, fmt.Sprintf("%s (%s): interpolation attributes %v, WGSL says %v", tag, io.Type, got, w))
					}
					k := e.Stage + "-" + dir
					if userName[k] == nil {
						userName[k] = map[int]string{}
					}
					a, _ := el.attr("user")
					userName[k][io.Location] = a.Args[0]
				}
			}
			// nothing invented: every user()/attribute()/color() element corresponds to an item
			for _, el := range elems {
				var n int
				var ok bool
				switch {
				case e.Stage == "vertex" && dir == "in":
					n, ok = el.attrInt("attribute")
				case e.Stage == "fragment" && dir == "out":
					n, ok = el.attrInt("color")
				default:
					if a, has := el.attr("user"); has && len(a.Args) == 1 {
						n, ok = ctTrailingInt(a.Args[0])
					}
				}
				if !ok {
					continue
				}
				found := false
				for _, io := range ios {
					found = found || io.Builtin == "" && io.Location == n
				}
				if !found {
					fail("msl:io-invented", fmt.Sprintf("%s %s: element %s %v corresponds to no WGSL input/output", e.Name, dir, el.Name, el.Attrs))
				}
			}
		}
		check(e.Inputs, "in", ins)
		check(e.Outputs, "out", outs)
	}
	for loc, a := range userName["vertex-out"] {
		if b, ok := userName["fragment-in"][loc]; ok && a != b {
			fail("msl:varying-link", fmt.Sprintf("location %d is user(%s) on the vertex output and user(%s) on the fragment input", loc, a, b))
		}
	}
}

// ---------------------------------------------------------------- GLSL

var glslTypeName = map[string]string{"f32": "float", "vec2<f32>": "vec2", "vec3<f32>": "vec3", "vec4<f32>": "vec4", "u32": "uint", "i32": "int",
	"vec2<i32>": "ivec2", "vec4<i32>": "ivec4", "vec2<u32>": "uvec2", "vec3<u32>": "uvec3", "vec4<u32>": "uvec4"}

var c17GLSLVersions = []glsl.Version{glsl.Version330, glsl.Version400, glsl.Version410, glsl.Version420, glsl.Version430, glsl.Version450, glsl.Version460,
	glsl.VersionES300, glsl.VersionES310, glsl.VersionES320}

// the versions exercised for attribute order in the quick tier: one without and one with explicit varying
// locations per profile
var c17GLSLQuick = []glsl.Version{glsl.Version330, glsl.Version450, glsl.VersionES300, glsl.VersionES310}

func glslHasNoPerspective(v glsl.Version) bool { return !v.ES }
func glslHasSample(v glsl.Version) bool {
	if v.ES {
		return v.Major > 3 || v.Major == 3 && v.Minor >= 20
	}
	return v.Major >= 4
}

type c17GLSLDecl struct {
	name   string
	hasLoc bool
}

func c17xGLSL(p *wgen.F5XProgram, m *ir.Module, versions []glsl.Version, fail c17Fail, count func()) {
	for _, ver := range versions {
		vtag := "glsl" + ver.VersionNumber() + map[bool]string{true: "es"}[ver.ES]
		link := map[string]map[int]c17GLSLDecl{}
		for _, e := range p.Entries {
			o := glsl.DefaultOptions()
			o.LangVersion = ver
			o.EntryPoint = e.Name
			src, _, err, pn := nagax.GLSL(m, o)
			if err != nil || pn != nil {
				continue
			}
			prog := ctParse(src)
			count()
			var ins, outs []ctVar
			for _, g := range prog.Globals {
				if strings.HasPrefix(g.Name, "gl_") {
					continue
				}
				if g.has("in") {
					ins = append(ins, g)
				} else if g.has("out") {
					outs = append(outs, g)
				}
			}
			if e.Stage == "compute" {
				ok := false
				for _, st := range prog.Stmts {
					if len(st) > 2 && st[0] == "layout" && st[len(st)-1] == "in" {
						as := ctAttrList(ctLex(strings.Join(st[2:len(st)-2], " ")))
						got := [3]int{1, 1, 1}
						for _, a := range as {
							if len(a.Args) == 1 {
								n, _ := strconv.Atoi(a.Args[0])
								switch a.Name {
								case "local_size_x":
									got[0] = n
								case "local_size_y":
									got[1] = n
								case "local_size_z":
									got[2] = n
								}
							}
						}
						ok = ok || got == e.Workgroup
					}
				}
				if !ok {
					fail(vtag+":local-size", fmt.Sprintf("%s: no layout(local_size = %v) in declaration", e.Name, e.Workgroup))
				}
			}
			check := func(ios []wgen.F5XIO, dir string, elems []ctVar) {
				claimed := make([]bool, len(elems))
				for idx, io := range ios {
					wh := c17Where(e, dir, idx)
					tag := e.Name + " " + dir + " " + c17IOTag(io)
					if io.Builtin != "" {
						if io.Builtin == "position" && io.Invariant && e.Stage == "vertex" {
							ok := false
							for _, st := range prog.Stmts {
								ok = ok || len(st) == 2 && st[0] == "invariant" && st[1] == "gl_Position"
							}
							if !ok {
								fail(vtag+":invariant"+wh, tag+": no `invariant gl_Position;` declaration")
							}
						}
						continue
					}
					w := c17WantInterp(io)
					inter := c17Interstage(e.Stage, dir)
					qualsOK := func(el ctVar) bool {
						if !inter {
							return true
						}
						if el.has("flat") != w.flat || el.has("centroid") != w.centroid {
							return false
						}
						if glslHasNoPerspective(ver) && el.has("noperspective") != w.linear {
							return false
						}
						if glslHasSample(ver) && el.has("sample") != w.sample {
							return false
						}
						return true
					}
					hit := -1
					for i, el := range elems {
						if n, ok := el.attrInt("location"); ok && n == io.Location && !claimed[i] {
							ix, hasIx := el.attrInt("index")
							if io.BlendSrc >= 0 && (!hasIx && io.BlendSrc != 0 || hasIx && ix != io.BlendSrc) {
								continue
							}
							hit = i
							break
						}
					}
					if hit < 0 && io.BlendSrc < 0 {
						// a declaration without a location links by name: identify it by type and qualifiers
						for i, el := range elems {
							if _, ok := el.attrInt("location"); !ok && !claimed[i] && el.Type == glslTypeName[io.Type] && qualsOK(el) {
								hit = i
								break
							}
						}
					}
					if hit < 0 {
						cls := ":io-missing"
						if io.BlendSrc >= 0 {
							cls = ":blend-src-index"
						}
						fail(vtag+cls+wh, fmt.Sprintf("%s (%s, %v): no `%s` declaration with this location (or, without a location, this type and these qualifiers)", tag, io.Type, w, dir))
						continue
					}
					claimed[hit] = true
					el := elems[hit]
					if el.Type != glslTypeName[io.Type] {
						fail(vtag+":io-type"+wh, fmt.Sprintf("%s: declared as %s, WGSL type %s", tag, el.Type, io.Type))
					}
					if !qualsOK(el) {
						fail(vtag+":interpolation"+wh, fmt.Sprintf("%s (%s): qualifiers %v, WGSL says %v", tag, io.Type, el.Quals, w))
					}
					if io.BlendSrc < 0 {
						if ix, ok := el.attrInt("index"); ok && ix != 0 {
							fail(vtag+":blend-src-index"+wh, fmt.Sprintf("%s: output without @blend_src declared with index %d", tag, ix))
						}
					}
					if e.Stage == "vertex" && dir == "in" || e.Stage == "fragment" && dir == "out" {
						if _, ok := el.attrInt("location"); !ok {
							fail(vtag+":location-missing"+wh, fmt.Sprintf("%s: `%s %s` has no layout(location)", tag, dir, el.Name))
						}
					}
					if inter {
						k := e.Stage + "-" + dir
						if link[k] == nil {
							link[k] = map[int]c17GLSLDecl{}
						}
						_, hasLoc := el.attrInt("location")
						link[k][io.Location] = c17GLSLDecl{name: el.Name, hasLoc: hasLoc}
					}
				}
				for i, el := range elems {
					if !claimed[i] {
						fail(vtag+":io-invented", fmt.Sprintf("%s: `%s %s %s` corresponds to no WGSL input/output", e.Name, dir, el.Type, el.Name))
					}
				}
			}
			check(e.Inputs, "in", ins)
			check(e.Outputs, "out", outs)
		}
		// a vertex output and the fragment input of the same location link by location (both declare it) or by name
		var locs []int
		for loc := range link["vertex-out"] {
			locs = append(locs, loc)
		}
		sort.Ints(locs)
		for _, loc := range locs {
			a := link["vertex-out"][loc]
			b, ok := link["fragment-in"][loc]
			if !ok {
				continue
			}
			if a.hasLoc != b.hasLoc || !a.hasLoc && a.name != b.name {
				fail(vtag+":varying-link", fmt.Sprintf("location %d: vertex output %s (location qualifier %v) does not link with fragment input %s (location qualifier %v)", loc, a.name, a.hasLoc, b.name, b.hasLoc))
			}
		}
	}
}

// ---------------------------------------------------------------- driver

func c17XProgram(r *explore.Run, p *wgen.F5XProgram) {
	if p.IROnly {
		return
	}
	m, _, err, pn := nagax.Front(p.Src)
	if err != nil || pn != nil {
		r.Skip("front end rejected/panicked (C08/C10), F5X/" + p.Sub + ": " + errClass(errStr(err, pn)))
		return
	}
	seen := map[string]bool{}
	fail := func(class, detail string) {
		key := "C17|" + class + "|" + p.Class
		if seen[key] {
			return
		}
		seen[key] = true
		r.Violate(explore.Violation{Key: key, Detail: class + ": " + detail + "\nprogram " + p.Sig + "\n" + p.Src, Replay: map[string]any{"sig": p.Sig, "src": p.Src}})
	}
	count := func() { r.Count("evaluations", 1) }
	base := p.Base()
	blend := map[string]int{}
	for _, e := range p.Entries {
		for _, io := range e.Outputs {
			if io.BlendSrc >= 0 {
				blend[e.Name+"/"+io.Name] = io.BlendSrc
			}
		}
	}
	c17SPIRV(base, m, spirv.Version1_1, fail, count, blend)
	c17SPIRV(base, m, spirv.Version1_4, fail, count, blend)
	if len(p.Resources) > 0 {
		c17HLSL(base, m, false, fail, count)
		c17HLSL(base, m, true, fail, count)
		c17MSL(base, m, fail, count)
		c17GLSL(base, m, fail, count)
	}
	c17xHLSL(p, m, fail, count)
	c17xMSL(p, m, fail, count)
	vs := c17GLSLQuick
	if r.Thorough() {
		vs = c17GLSLVersions
	}
	c17xGLSL(p, m, vs, fail, count)
	r.Distinct(p.Class)
}
