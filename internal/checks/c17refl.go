package checks

import (
	"fmt"
	"sort"
	"strings"

	"github.com/gogpu/naga/glsl"
	"github.com/gogpu/naga/hlsl"
	"github.com/gogpu/naga/ir"
	"github.com/gogpu/naga/msl"

	"verif/internal/explore"
	"verif/internal/nagax"
	"verif/internal/wgen"
)

// C17, reflection against text, both directions, at every GLSL version (including those where a
// resource falls back to another kind of declaration), with and without a binding map; HLSL
// RegisterBindings and MSL RequiresSizesBuffer / EntryPointNames against the text.

func c17IsBufferKind(k string) bool { return k == "uniform" || k == "storage_ro" || k == "storage_rw" }
func c17IsTextureKind(k string) bool {
	return k == "texture" || k == "depth_texture" || k == "storage_texture"
}
func c17IsSamplerKind(k string) bool { return k == "sampler" || k == "comparison_sampler" }

func glslHasBindingLayout(v glsl.Version) bool { // layout(binding = N): GLSL 4.20, GLSL ES 3.10
	if v.ES {
		return v.Major > 3 || v.Major == 3 && v.Minor >= 10
	}
	return v.Major > 4 || v.Major == 4 && v.Minor >= 20
}
func glslHasSSBO(v glsl.Version) bool { // buffer blocks: GLSL 4.30, GLSL ES 3.10
	if v.ES {
		return v.Major > 3 || v.Major == 3 && v.Minor >= 10
	}
	return v.Major > 4 || v.Major == 4 && v.Minor >= 30
}

func glslOpaqueType(t string) bool {
	for _, p := range []string{"sampler", "isampler", "usampler", "image", "iimage", "uimage", "texture", "itexture", "utexture"} {
		if strings.HasPrefix(t, p) {
			return true
		}
	}
	return false
}

func c17ReflGLSL(p *wgen.F5Program, m *ir.Module, fail c17Fail, count func()) {
	c17ReflGLSLPairs(p, m, "", fail, count)
}

// pairTex names the texture every sampler is used with; "" = the F5 rule (the last used texture of the
// sampler's class).
func c17ReflGLSLPairs(p *wgen.F5Program, m *ir.Module, pairTex string, fail c17Fail, count func()) {
	for _, ver := range c17GLSLVersions {
		vtag := "glsl" + ver.VersionNumber() + map[bool]string{true: "es"}[ver.ES]
		for _, mapped := range []bool{false, true} {
			mtag := map[bool]string{true: "mapped", false: "default"}[mapped]
			for _, e := range p.Entries {
				o := glsl.DefaultOptions()
				o.LangVersion = ver
				o.EntryPoint = e.Name
				slot := map[string]int{}
				if mapped {
					o.BindingMap = map[glsl.BindingMapKey]uint8{}
					for i, r := range p.Resources {
						o.BindingMap[glsl.BindingMapKey{Group: uint32(r.Group), Binding: uint32(r.Binding)}] = uint8(20 + i)
						slot[r.Name] = 20 + i
					}
				}
				src, info, err, pn := nagax.GLSL(m, o)
				if err != nil || pn != nil {
					continue
				}
				prog := ctParse(src)
				count()
				cls := func(c string) string { return vtag + ":" + c + ":" + mtag }
				used := map[string]bool{}
				for _, u := range e.Uses {
					used[u] = true
				}
				resAt := func(b ir.ResourceBinding, pred func(string) bool) *wgen.F5Resource {
					for i := range p.Resources {
						r := &p.Resources[i]
						if int(b.Group) == r.Group && int(b.Binding) == r.Binding && pred(r.Kind) && used[r.Name] {
							return r
						}
					}
					return nil
				}
				// entry-point name
				if n, ok := info.EntryPointNames[e.Name]; !ok || prog.funcByName(n) == nil {
					fail(cls("reflection-entry-point-name"), fmt.Sprintf("%s: reported as %q (present=%v), which is not a function in the text", e.Name, n, ok))
				}
				// blocks <-> Uniforms
				blocks := map[string]*ctBlock{}
				for i := range prog.Blocks {
					blocks[prog.Blocks[i].Name] = &prog.Blocks[i]
				}
				reported := map[string]int{}
				seenRes := map[string]int{}
				for _, u := range info.Uniforms {
					reported[u.BlockName]++
					b := blocks[u.BlockName]
					if b == nil {
						fail(cls("reflection-invented-block"), fmt.Sprintf("%s: reflection lists block %s which the text does not declare", e.Name, u.BlockName))
						continue
					}
					if u.IsStorage != (b.Storage == "buffer") {
						fail(cls("reflection-block-kind"), fmt.Sprintf("%s: reflection says IsStorage=%v for block %s, which the text declares as a `%s` block", e.Name, u.IsStorage, u.BlockName, b.Storage))
					}
					r := resAt(u.Binding, c17IsBufferKind)
					if r == nil {
						fail(cls("reflection-block-binding"), fmt.Sprintf("%s: block %s is reported for @group(%d) @binding(%d), which is not a buffer this entry point uses", e.Name, u.BlockName, u.Binding.Group, u.Binding.Binding))
						continue
					}
					seenRes[r.Name]++
					if r.Shared {
						continue
					}
					if glslHasSSBO(ver) {
						want := "buffer"
						if r.Kind == "uniform" {
							want = "uniform"
						}
						if b.Storage != want {
							fail(cls("block-storage"), fmt.Sprintf("%s: the block for %s (%s) is a `%s` block", e.Name, r.Name, r.Kind, b.Storage))
						}
					} else if r.Kind == "uniform" && b.Storage != "uniform" {
						fail(cls("block-storage"), fmt.Sprintf("%s: the block for uniform %s is a `%s` block", e.Name, r.Name, b.Storage))
					}
					if mapped {
						got, has := -1, false
						for _, a := range b.Layout {
							if a.Name == "binding" && len(a.Args) == 1 {
								fmt.Sscanf(a.Args[0], "%d", &got)
								has = true
							}
						}
						if has && got != slot[r.Name] {
							fail(cls("layout-binding"), fmt.Sprintf("%s: block %s for %s has layout(binding=%d), the binding map says %d", e.Name, b.Name, r.Name, got, slot[r.Name]))
						}
						if !has && glslHasBindingLayout(ver) {
							fail(cls("layout-binding-missing"), fmt.Sprintf("%s: block %s for %s has no layout(binding), the binding map says %d", e.Name, b.Name, r.Name, slot[r.Name]))
						}
					}
				}
				var bnames []string
				for n := range blocks {
					bnames = append(bnames, n)
				}
				sort.Strings(bnames)
				for _, n := range bnames {
					if reported[n] != 1 {
						fail(cls("reflection-missing-block"), fmt.Sprintf("%s: block %s is declared in the text and reported %d times", e.Name, n, reported[n]))
					}
				}
				nbuf := 0
				for _, r := range p.Resources {
					if c17IsBufferKind(r.Kind) && used[r.Name] {
						nbuf++
						if seenRes[r.Name] != 1 && !r.Shared {
							fail(cls("reflection-missing-resource"), fmt.Sprintf("%s: used buffer %s is reported %d times in Uniforms", e.Name, r.Name, seenRes[r.Name]))
						}
					}
				}
				if len(blocks) != nbuf {
					fail(cls("block-count"), fmt.Sprintf("%s uses %d buffer resources but the text declares %d interface blocks", e.Name, nbuf, len(blocks)))
				}
				// opaque uniforms <-> TextureMappings / TextureSamplerPairs
				opaque := map[string]bool{}
				for _, g := range prog.Globals {
					if g.has("uniform") && glslOpaqueType(g.Type) {
						opaque[g.Name] = true
					}
				}
				var tnames []string
				for n := range info.TextureMappings {
					tnames = append(tnames, n)
				}
				sort.Strings(tnames)
				for _, n := range tnames {
					tm := info.TextureMappings[n]
					if !opaque[n] {
						fail(cls("reflection-invented-texture"), fmt.Sprintf("%s: TextureMappings lists %s, which is not an opaque uniform of the text", e.Name, n))
					}
					if resAt(tm.TextureBinding, c17IsTextureKind) == nil {
						fail(cls("reflection-texture-binding"), fmt.Sprintf("%s: %s is reported for texture @group(%d) @binding(%d), which is not a texture this entry point uses", e.Name, n, tm.TextureBinding.Group, tm.TextureBinding.Binding))
					}
					if tm.SamplerBinding != nil && resAt(*tm.SamplerBinding, c17IsSamplerKind) == nil {
						fail(cls("reflection-sampler-binding"), fmt.Sprintf("%s: %s is reported with sampler @group(%d) @binding(%d), which is not a sampler this entry point uses", e.Name, n, tm.SamplerBinding.Group, tm.SamplerBinding.Binding))
					}
				}
				for _, n := range info.TextureSamplerPairs {
					if !opaque[n] {
						fail(cls("reflection-invented-pair"), fmt.Sprintf("%s: TextureSamplerPairs lists %s, which is not an opaque uniform of the text", e.Name, n))
					}
				}
				// every (texture, sampler) pair the entry point samples is one combined uniform of the text, reported
				// with both source bindings and listed in TextureSamplerPairs (textures read without a sampler and
				// storage images are outside the documented contract of TextureMappings and are not demanded)
				for _, sm := range p.Resources {
					if !c17IsSamplerKind(sm.Kind) || !used[sm.Name] || sm.Shared {
						continue
					}
					texKind := map[string]string{"sampler": "texture", "comparison_sampler": "depth_texture"}[sm.Kind]
					var tex *wgen.F5Resource
					for i := range p.Resources {
						if p.Resources[i].Kind == texKind && used[p.Resources[i].Name] && (pairTex == "" || p.Resources[i].Name == pairTex) {
							tex = &p.Resources[i]
						}
					}
					if tex == nil || tex.Shared {
						continue
					}
					n := 0
					for name, tm := range info.TextureMappings {
						if int(tm.TextureBinding.Group) == tex.Group && int(tm.TextureBinding.Binding) == tex.Binding && tm.SamplerBinding != nil &&
							int(tm.SamplerBinding.Group) == sm.Group && int(tm.SamplerBinding.Binding) == sm.Binding {
							n++
							listed := false
							for _, pn := range info.TextureSamplerPairs {
								listed = listed || pn == name
							}
							if !listed {
								fail(cls("reflection-missing-pair"), fmt.Sprintf("%s: combined uniform %s (%s sampled with %s) is not in TextureSamplerPairs", e.Name, name, tex.Name, sm.Name))
							}
						}
					}
					if n != 1 {
						fail(cls("reflection-missing-pair"), fmt.Sprintf("%s: %s is sampled with %s but TextureMappings has %d entries with these two bindings", e.Name, tex.Name, sm.Name, n))
					}
				}
			}
		}
	}
}

func hlslRegKey(a *ctAttr) string {
	if a == nil {
		return "(none)"
	}
	reg, space := "", "space0"
	for _, x := range a.Args {
		if strings.HasPrefix(x, "space") {
			space = x
		} else {
			reg = x
		}
	}
	return reg + "," + space
}

func c17ReflHLSL(p *wgen.F5Program, m *ir.Module, fail c17Fail, count func()) {
	for _, mapped := range []bool{false, true} {
		o := *hlsl.DefaultOptions()
		tag := "hlsl-default"
		if mapped {
			tag = "hlsl-mapped"
			o.FakeMissingBindings = false
			o.BindingMap = map[hlsl.ResourceBinding]hlsl.BindTarget{}
			for _, r := range p.Resources {
				o.BindingMap[hlsl.ResourceBinding{Group: uint32(r.Group), Binding: uint32(r.Binding)}] = hlsl.BindTarget{Space: uint8(r.Group + 2), Register: uint32(r.Binding + 10)}
			}
		}
		src, info, err, pn := nagax.HLSL(m, o)
		if err != nil || pn != nil {
			continue
		}
		ti, _ := info.(*hlsl.TranslationInfo)
		if ti == nil {
			continue
		}
		prog := ctParse(src)
		count()
		decl := map[string]*ctAttr{} // declared name -> register
		for i := range prog.Globals {
			if g := &prog.Globals[i]; g.Register != nil {
				decl[g.Name] = g.Register
			}
		}
		for i := range prog.Blocks {
			if b := &prog.Blocks[i]; b.Register != nil {
				decl[b.Name] = b.Register
			}
		}
		var names []string
		for n := range ti.RegisterBindings {
			names = append(names, n)
		}
		sort.Strings(names)
		for _, n := range names {
			toks := ctLex(ti.RegisterBindings[n])
			as := ctAttrList(toks)
			var rep *ctAttr
			if len(as) > 0 && as[0].Name == "register" {
				rep = &as[0]
			}
			d, ok := decl[n]
			if !ok {
				fail(tag+":reflection-invented-register", fmt.Sprintf("RegisterBindings lists %s (%s), which the text does not declare with a register", n, ti.RegisterBindings[n]))
				continue
			}
			if hlslRegKey(d) != hlslRegKey(rep) {
				fail(tag+":reflection-register", fmt.Sprintf("RegisterBindings says %s for %s, the text declares register(%s)", ti.RegisterBindings[n], n, hlslRegKey(d)))
			}
		}
		// every declaration that stands for a WGSL resource is reported
		for _, r := range p.Resources {
			for n := range decl {
				if strings.TrimRight(n, "_") == r.Name {
					if _, ok := ti.RegisterBindings[n]; !ok {
						fail(tag+":reflection-missing-register", fmt.Sprintf("%s (%s) is declared with register(%s) but is not in RegisterBindings", n, r.Kind, hlslRegKey(decl[n])))
					}
				}
			}
		}
		fns := map[string]bool{}
		for _, f := range prog.Funcs {
			fns[f.Name] = true
		}
		for _, e := range p.Entries {
			if n, ok := ti.EntryPointNames[e.Name]; !ok || !fns[n] {
				fail(tag+":entry-point-name", fmt.Sprintf("reflection maps %s to %q (present=%v), which is not a function in the text", e.Name, n, ok))
			}
		}
	}
}

func c17ReflMSL(p *wgen.F5Program, m *ir.Module, fail c17Fail, count func()) {
	for _, mapped := range []bool{false, true} {
		o := msl.DefaultOptions()
		tag := "msl-default"
		if mapped {
			tag = "msl-mapped"
			o.FakeMissingBindings = false
			o.PerEntryPointMap = map[string]msl.EntryPointResources{}
			for ei, e := range p.Entries {
				res := map[ir.ResourceBinding]msl.BindTarget{}
				for i, r := range p.Resources {
					s := uint8(8 + i)
					key := ir.ResourceBinding{Group: uint32(r.Group), Binding: uint32(r.Binding)}
					switch {
					case c17IsBufferKind(r.Kind):
						res[key] = msl.BindTarget{Buffer: &s, Mutable: r.Kind == "storage_rw"}
					case c17IsTextureKind(r.Kind):
						res[key] = msl.BindTarget{Texture: &s, Mutable: r.Kind == "storage_texture"}
					default:
						res[key] = msl.BindTarget{Sampler: &msl.BindSamplerTarget{Slot: s}}
					}
				}
				sb := uint8(24 + ei)
				o.PerEntryPointMap[e.Name] = msl.EntryPointResources{Resources: res, SizesBuffer: &sb}
			}
		}
		src, info, err, pn := nagax.MSL(m, o)
		if err != nil || pn != nil {
			continue
		}
		prog := ctParse(src)
		count()
		anySizes := false
		for ei, e := range p.Entries {
			n, ok := info.EntryPointNames[e.Name]
			fn := prog.funcByName(n)
			if !ok || fn == nil {
				fail(tag+":entry-point-name", fmt.Sprintf("reflection maps %s to %q (present=%v), which is not a function in the text", e.Name, n, ok))
				continue
			}
			if fn.Stage != mslStageWord[e.Stage] {
				fail(tag+":stage-qualifier", fmt.Sprintf("%s (%s) is declared %q", e.Name, e.Stage, fn.Stage))
			}
			obs, _ := c17MSLObserve(prog, info, e.Name, p.Resources)
			for k, s := range obs.slots {
				if !strings.HasPrefix(k, "#") {
					continue
				}
				// an argument that is no WGSL resource: the buffer of runtime-array sizes
				anySizes = true
				if mapped && s != fmt.Sprintf("buffer(%d)", 24+ei) {
					fail(tag+":sizes-buffer-slot", fmt.Sprintf("%s: the extra buffer argument of type %s is bound at [[%s]], the map says SizesBuffer=%d", e.Name, k[1:], s, 24+ei))
				}
			}
		}
		if anySizes != info.RequiresSizesBuffer {
			fail(tag+":reflection-requires-sizes-buffer", fmt.Sprintf("RequiresSizesBuffer=%v but an entry point takes an extra (non-resource) buffer argument: %v", info.RequiresSizesBuffer, anySizes))
		}
	}
}

func c17ReflProgram(r *explore.Run, p *wgen.F5Program) {
	m, _, err, pn := nagax.Front(p.Src)
	if err != nil || pn != nil {
		return // counted by the interface pass over the same program
	}
	seen := map[string]bool{}
	fail := func(class, detail string) {
		parts := strings.Split(p.Sig, "/")
		key := "C17|" + class + "|" + parts[1] + "/" + parts[2]
		if seen[key] {
			return
		}
		seen[key] = true
		r.Violate(explore.Violation{Key: key, Detail: class + ": " + detail + "\nprogram " + p.Sig, Replay: map[string]any{"sig": p.Sig, "src": p.Src}})
	}
	count := func() { r.Count("evaluations", 1); r.Count("reflection_evaluations", 1) }
	c17ReflGLSL(p, m, fail, count)
	c17ReflHLSL(p, m, fail, count)
	c17ReflMSL(p, m, fail, count)
}

// c17ReflSelect: the programs swept over every GLSL version: unshared bindings and at least one entry point
// using all three resources (quick: first IO variant only; thorough: both variants, over the thorough
// tier's larger set of use-subset rows).
func c17ReflSelect(progs []*wgen.F5Program, thorough bool) []*wgen.F5Program {
	var out []*wgen.F5Program
	for _, p := range progs {
		if !strings.Contains(p.Sig, "share=false") || !thorough && !strings.Contains(p.Sig, "io=[0") {
			continue
		}
		if strings.Contains(p.Sig, "uses=[7 ") || strings.Contains(p.Sig, "uses=[7]") || strings.Contains(p.Sig, " 7]") {
			out = append(out, p)
		}
	}
	return out
}
