package checks

import (
	"fmt"
	"strings"
)

// The feature snippet table of the C10 "features" generator. '$' = per-position identifier prefix,
// "%G" = per-position group number. Snippets are valid, odd or invalid WGSL on purpose; the oracle is
// only "no panic / fatal error / hang", so no snippet has to be accepted.

func fc(name, decl, use string) c10Feat { return c10Feat{Name: name, Decl: decl, Use: use, Stage: 'c'} }
func ff(name, decl, use string) c10Feat { return c10Feat{Name: name, Decl: decl, Use: use, Stage: 'f'} }
func fv(name, decl, use string) c10Feat { return c10Feat{Name: name, Decl: decl, Use: use, Stage: 'v'} }
func fd(name, decl string) c10Feat      { return c10Feat{Name: name, Decl: decl} }

// The core: 25 snippets that lower to a module and touch module-wide machinery (call graph, bindings,
// name tables, entry-point interfaces, resource passing, overrides, extensions); partners of every
// snippet outside the pair set (the first 8, "mini core") and members of all triples (thorough).
var c10CoreNames = strings.Fields(`rec-self-used bind-same-twice-used bind-fixed-0-0 ep-compute-main shadow-type-f32-alias tex-2d-helper ptr-param-function enable-f16
rec-mutual-used bind-same-two-entry-points bind-same-binding-other-group ep-io-struct ep-wgsize-override shadow-builtin-fn-min shadow-type-vec3-struct
tex-helper-shared-by-two tex-sample-implicit atomic-workgroup-ops stage-compute-barriers stage-fragment-derivatives arr-runtime arr-override-size-workgroup
override-plain struct-empty fn-unreachable-after-return`)

const c10MiniCore = 8

// The pair set (with the core): all ordered pairs of these are enumerated.
var c10PairNames = strings.Fields(`
rec-self-unused rec-mutual-unused rec-three-cycle rec-void-self rec-self-global rec-through-ptr call-forward fn-params-64 fn-missing-return
fn-return-value-in-void fn-unreachable-after-loop fn-unreachable-after-discard fn-void-call-as-arg fn-dup-name fn-fixed-name fn-param-shadows-global
fn-local-shadows-fn fn-returns-struct
shadow-builtin-fn-max-void shadow-builtin-fn-textureSample shadow-builtin-fn-atomicAdd shadow-builtin-fn-workgroupBarrier shadow-builtin-fn-dpdx
shadow-type-vec4-struct shadow-type-array-struct shadow-type-i32-alias shadow-type-u32-struct shadow-type-texture-alias shadow-type-sampler-struct
shadow-fn-as-const-abs shadow-fn-as-override-main ident-keyword-like ident-target-keywords ident-target-keyword-globals ident-unicode
dup-struct-name dup-var-name dup-mixed-kinds fixed-name-struct fixed-name-var fixed-name-const
ep-fragment-main ep-vertex-main ep-dup-in-snippet ep-calls-ep ep-calls-itself ep-fn-calls-ep ep-empty-fragment ep-two-stages ep-missing-wgsize
ep-wgsize-override-nodefault ep-wgsize-override-expr ep-dup-location-in ep-location-huge ep-io-struct-empty ep-io-struct-shared-with-buffer
ep-compute-builtins ep-fragment-builtins ep-interpolate-forms ep-many-entry-points
bind-same-twice-unused bind-same-one-used bind-same-via-helpers bind-same-different-kind bind-same-three bind-fixed-0-0-unused bind-fixed-0-0-texture
bind-huge bind-negative bind-const-expr bind-missing-both bind-missing-both-texture bind-on-private bind-many bind-binding-array
forward-refs arr-zero-size arr-override-size-nodefault arr-override-size-private arr-override-size-nested arr-huge-storage arr-runtime-in-struct
arr-runtime-not-last arr-runtime-ptr-arg arr-of-vec3-uniform struct-empty-uniform struct-nested struct-align-size struct-with-bool-storage
ptr-param-private ptr-param-workgroup ptr-param-storage ptr-param-uniform ptr-param-element ptr-param-handle ptr-param-two-aliasing ptr-let-chain
atomic-storage-struct-array atomic-ptr-param override-nodefault override-from-override override-in-private-init override-id-dup override-id-fixed
override-as-index override-unused var-module-inferred var-module-push-constant var-storage-rw-in-vertex-like var-workgroup-in-fragment-like
enable-subgroups enable-unknown f16-without-enable f16-in-buffers f16-io requires-known diagnostic-off const-assert-true const-assert-override
stmt-switch-forms stmt-switch-in-loop-continue stmt-loop-forms stmt-assign-dynamic-component stmt-compound-struct-member-self stmt-discard-forms
expr-builtin-math expr-short-circuit-side-effects expr-frexp-modf-struct
space-uniform-struct space-storage-rw-array-runtime space-workgroup-atomic space-storage-rw-struct-nested-atomic space-handle-storage-texture
tex-2d-used tex-depth-2d-helper tex-storage-2d-rw-used tex-cube-array-helper tex-external-used tex-sampler-only tex-helper-recursive
tex-sample-implicit-in-compute swizzle-vec4-len5
stage-fragment-barriers stage-compute-derivatives stage-fragment-discard stage-helper-derivatives stage-helper-barriers
stage-compute-workgroup-uniform-load stage-fragment-atomics-storage stage-vertex-atomics-storage`)

func c10Features() []c10Feat {
	var t []c10Feat
	t = append(t, c10FeatFunctions()...)
	t = append(t, c10FeatNames()...)
	t = append(t, c10FeatEntryPoints()...)
	t = append(t, c10FeatBindings()...)
	t = append(t, c10FeatTypes()...)
	t = append(t, c10FeatStatements()...)
	t = append(t, c10FeatExpressions()...)
	t = append(t, c10FeatDirectives()...)
	t = append(t, c10FeatSpaces()...)
	t = append(t, c10FeatTextures()...)
	t = append(t, c10FeatSwizzles()...)
	t = append(t, c10FeatStageBuiltins()...)
	byName := map[string]int{}
	for i := range t {
		byName[t[i].Name] = i
	}
	mark := func(names []string, core bool) {
		for k, n := range names {
			i, ok := byName[n]
			if !ok {
				panic("C10 features: unknown snippet in pair/core list: " + n)
			}
			t[i].Pair = true
			if core {
				t[i].Core = true
				t[i].Mini = k < c10MiniCore
			}
		}
	}
	mark(c10CoreNames, true)
	mark(c10PairNames, false)
	return t
}

func c10FeatFunctions() []c10Feat {
	params := func(n int) c10Feat {
		var ps, as []string
		for i := 0; i < n; i++ {
			ps = append(ps, fmt.Sprintf("p%d: i32", i))
			as = append(as, fmt.Sprint(i))
		}
		sum := "0"
		if n > 0 {
			sum = "p0 + p" + fmt.Sprint(n-1)
		}
		return fc(fmt.Sprintf("fn-params-%d", n), "fn $f("+strings.Join(ps, ", ")+") -> i32 { return "+sum+"; }", "_ = $f("+strings.Join(as, ", ")+");")
	}
	return []c10Feat{
		fc("rec-self-used", "fn $r(n: i32) -> i32 { if n <= 0 { return 0; } return $r(n - 1); }", "_ = $r(3);"),
		fc("rec-self-unused", "fn $r(n: i32) -> i32 { if n <= 0 { return 0; } return $r(n - 1); }", ""),
		fc("rec-mutual-used", "fn $p(n: i32) -> i32 { if n <= 0 { return 0; } return $q(n - 1); }\nfn $q(n: i32) -> i32 { return $p(n); }", "_ = $p(2);"),
		fc("rec-mutual-unused", "fn $p(n: i32) -> i32 { if n <= 0 { return 0; } return $q(n - 1); }\nfn $q(n: i32) -> i32 { return $p(n); }", ""),
		fc("rec-three-cycle", "fn $x(n: i32) -> i32 { return $y(n); }\nfn $y(n: i32) -> i32 { return $z(n); }\nfn $z(n: i32) -> i32 { if n < 0 { return 0; } return $x(n - 1); }", "_ = $y(1);"),
		fc("rec-void-self", "fn $r() { $r(); }", "$r();"),
		ff("rec-self-global", "@group(%G) @binding(0) var<uniform> $u: vec4<f32>;\nfn $r(n: i32) -> f32 { if n <= 0 { return $u.x; } return $r(n - 1); }", "_ = $r(3);"),
		fc("rec-through-ptr", "fn $r(p: ptr<function, i32>) { if *p > 0 { *p -= 1; $r(p); } }", "var $v = 3; $r(&$v);"),
		fc("rec-in-arg", "fn $r(n: i32) -> i32 { if n <= 0 { return 0; } return $r($r(n - 1)); }", "_ = $r(1);"),
		fc("call-forward", "fn $a() -> i32 { return $b(); }\nfn $b() -> i32 { return 1; }", "_ = $a();"),
		fc("call-chain", "fn $c0() -> i32 { return 1; }\nfn $c1() -> i32 { return $c0(); }\nfn $c2() -> i32 { return $c1(); }\nfn $c3() -> i32 { return $c2() + $c1(); }", "_ = $c3();"),
		fc("call-unused-helper", "fn $h(a: f32) -> f32 { return a * 2.0; }", ""),
		params(0), params(1), params(2), params(16), params(64),
		fc("fn-missing-return", "fn $f() -> i32 { }", "_ = $f();"),
		fc("fn-missing-return-branch", "fn $f(a: i32) -> i32 { if a > 0 { return 1; } }", "_ = $f(1);"),
		fc("fn-return-value-in-void", "fn $f() { return 1; }", "$f();"),
		fc("fn-return-nothing-in-valued", "fn $f() -> i32 { return; }", "_ = $f();"),
		fc("fn-unreachable-after-return", "fn $f() -> i32 { return 1; return 2; }", "_ = $f();"),
		fc("fn-unreachable-after-loop", "fn $f() -> i32 { loop { } return 2; }", "_ = $f();"),
		fc("fn-unreachable-after-break", "fn $f() -> i32 { var i = 0; loop { break; i = 1; } return i; }", "_ = $f();"),
		ff("fn-unreachable-after-discard", "fn $f() -> i32 { discard; return 2; }", "_ = $f();"),
		fc("fn-void-call-as-value", "fn $v() {}", "let $x = $v();"),
		fc("fn-void-call-as-arg", "fn $v() {}\nfn $g(a: i32) {}", "$g($v());"),
		fc("fn-value-call-as-statement", "fn $v() -> i32 { return 1; }", "$v();"),
		fc("fn-must-use-discarded", "@must_use fn $v() -> i32 { return 1; }", "$v();"),
		fc("fn-must-use-void", "@must_use fn $v() {}", "$v();"),
		fd("fn-dup-name", "fn dup_fn() {}\nfn dup_fn() {}"),
		fd("fn-fixed-name", "fn shared_fn() -> i32 { return 1; }"),
		fd("fn-dup-param", "fn $f(a: i32, a: i32) -> i32 { return a; }"),
		fc("fn-param-shadows-global", "var<private> $g: i32 = 1;\nfn $f($g: f32) -> f32 { return $g; }", "_ = $f(1.0);"),
		fc("fn-local-shadows-fn", "fn $f() -> i32 { let $f = 1; return $f; }", "_ = $f();"),
		fc("fn-local-shadows-param", "fn $f(a: i32) -> i32 { let a = 2.0; return i32(a); }", "_ = $f(1);"),
		fc("fn-returns-struct", "struct $S { a: i32, b: vec2<f32> }\nfn $f() -> $S { return $S(1, vec2<f32>(0.0)); }", "_ = $f().b.x;"),
		fc("fn-returns-array", "fn $f() -> array<i32, 3> { return array<i32, 3>(1, 2, 3); }", "_ = $f()[1];"),
		fd("fn-returns-ptr", "var<private> $g: i32;\nfn $f() -> ptr<private, i32> { return &$g; }"),
		fd("fn-returns-texture", "@group(%G) @binding(0) var $t: texture_2d<f32>;\nfn $f() -> texture_2d<f32> { return $t; }"),
		fd("fn-returns-runtime-array", "fn $f() -> array<i32> { }"),
		fd("fn-param-runtime-array", "fn $f(a: array<i32>) {}"),
		fd("fn-param-atomic", "fn $f(a: atomic<u32>) {}"),
		fd("fn-return-attr", "fn $f() -> @location(0) f32 { return 1.0; }"),
		fd("fn-no-body", "fn $f();"),
		fd("fn-nested", "fn $f() { fn $g() {} }"),
		fd("fn-call-undefined", "fn $f() { $nope(); }"),
		fd("fn-call-wrong-arity", "fn $g(a: i32) {}\nfn $f() { $g(); $g(1, 2); }"),
		fd("fn-call-struct-as-fn", "struct $S { a: i32 }\nfn $f() { $S(1); }"),
		fd("fn-call-var-as-fn", "var<private> $v: i32;\nfn $f() { $v(); let x = $v(1); }"),
		fd("fn-call-type-as-value", "fn $f() { let x = i32; let y = vec3; }"),
	}
}

func c10FeatNames() []c10Feat {
	return []c10Feat{
		fc("shadow-builtin-fn-min", "fn min(a: i32, b: i32) -> i32 { return a; }", "_ = min(1, 2);"),
		fd("shadow-builtin-fn-max-void", "fn max() {}"),
		fd("shadow-builtin-fn-textureSample", "fn textureSample(a: i32) -> i32 { return a; }"),
		fd("shadow-builtin-fn-atomicAdd", "fn atomicAdd(a: i32) -> i32 { return a; }"),
		fd("shadow-builtin-fn-workgroupBarrier", "fn workgroupBarrier() {}"),
		fd("shadow-builtin-fn-dpdx", "fn dpdx(a: f32) -> f32 { return a; }"),
		fd("shadow-builtin-fn-arrayLength", "fn arrayLength() -> u32 { return 0u; }"),
		fd("shadow-builtin-fn-select", "fn select(a: i32) {}"),
		fd("shadow-type-vec3-struct", "struct vec3 { a: i32 }"),
		fd("shadow-type-vec4-struct", "struct vec4 { a: i32 }"),
		fd("shadow-type-array-struct", "struct array { a: i32 }"),
		fd("shadow-type-f32-alias", "alias f32 = i32;"),
		fd("shadow-type-i32-alias", "alias i32 = f32;"),
		fd("shadow-type-u32-struct", "struct u32 { a: bool }"),
		fd("shadow-type-bool-alias", "alias bool = u32;"),
		fd("shadow-type-vec4f-alias", "alias vec4f = vec2<i32>;"),
		fd("shadow-type-texture-alias", "alias texture_2d = i32;"),
		fd("shadow-type-sampler-struct", "struct sampler { a: i32 }"),
		fd("shadow-type-atomic-alias", "alias atomic = i32;"),
		fd("shadow-type-ptr-fn", "fn ptr() {}"),
		fd("shadow-type-mat4x4-const", "const mat4x4 = 1;"),
		fd("shadow-type-var-i32", "var<private> i32: u32;"),
		fd("shadow-fn-as-const-abs", "const abs = 1;"),
		fd("shadow-fn-as-var-vec4", "var<private> vec4: f32;"),
		fd("shadow-fn-as-override-main", "override main: f32 = 1.0;"),
		fd("reserved-fn-enum", "fn enum() {}"),
		fd("reserved-var-class", "var<private> class: i32;"),
		fd("reserved-struct-static", "struct static { a: i32 }"),
		fd("reserved-member-typedef", "struct $S { typedef: i32, NULL: i32 }"),
		fd("keyword-fn-fn", "fn fn() {}"),
		fd("keyword-var-var", "var<private> var: i32;"),
		fd("keyword-struct-struct", "struct struct { a: i32 }"),
		fd("keyword-let-let", "fn $f() { let let = 1; }"),
		fd("keyword-member-return", "struct $S { return: i32 }"),
		fd("keyword-true-const", "const true = false;"),
		fd("ident-underscore", "var<private> _: i32;"),
		fd("ident-double-underscore", "var<private> __$x: i32;\nfn $f() -> i32 { return __$x; }"),
		fd("ident-trailing-underscores", "var<private> $x__: i32;\nfn $f() -> i32 { return $x__; }"),
		fd("ident-keyword-like", "var<private> $main: i32;\nvar<private> $gl_Position: f32;\nvar<private> $float4: f32;\nvar<private> $_main: f32;"),
		fd("ident-target-keywords", "fn $f() -> i32 { let asm = 1; let register = 2; let typedef = 3; let kernel = 4; let half = 5; let input = 6; let output = 7; let sample = 8; let texture = 9; return asm + kernel + texture; }"),
		fd("ident-target-keyword-globals", "var<private> kernel: i32;\nvar<private> float: f32;\nvar<private> half4: f32;\nvar<private> uint: u32;\nfn $f() -> f32 { return float + half4 + f32(kernel) + f32(uint); }"),
		fc("ident-unicode", "var<private> $Δx: f32 = 1.0;\nfn $résumé(値: f32) -> f32 { return 値 + $Δx; }", "_ = $résumé(1.0);"),
		fd("ident-unicode-invalid", "var<private> $x😀: f32;"),
		fd("ident-unicode-nfc-clash", "var<private> $é: f32;\nvar<private> $é: f32;"),
		fd("ident-very-long", "var<private> $"+strings.Repeat("long_", 60)+": i32;"),
		fd("dup-struct-name", "struct DupS { a: i32 }\nstruct DupS { b: f32 }"),
		fd("dup-alias-name", "alias DupA = i32;\nalias DupA = f32;"),
		fd("dup-const-name", "const dup_c = 1;\nconst dup_c = 2;"),
		fd("dup-var-name", "var<private> dup_v: i32;\nvar<private> dup_v: f32;"),
		fd("dup-override-name", "override dup_o: i32 = 1;\noverride dup_o: i32 = 2;"),
		fd("dup-mixed-kinds", "struct $dup { a: i32 }\nfn $dup() {}\nconst $dup = 1;"),
		fd("dup-fn-vs-var", "var<private> $x: i32;\nfn $x() {}"),
		fd("dup-member-name", "struct $S { a: i32, a: f32 }"),
		fd("dup-local", "fn $f() { let a = 1; let a = 2; var a = 3; }"),
		fd("fixed-name-struct", "struct Shared { a: i32 }\nvar<private> $v: Shared;"),
		fd("fixed-name-var", "var<private> shared_v: i32 = 1;"),
		fd("fixed-name-const", "const shared_c = 1;"),
	}
}

func c10FeatEntryPoints() []c10Feat {
	return []c10Feat{
		fd("ep-compute-main", "@compute @workgroup_size(1) fn main() {}"),
		fd("ep-fragment-main", "@fragment fn main() -> @location(0) vec4<f32> { return vec4<f32>(1.0); }"),
		fd("ep-vertex-main", "@vertex fn main() -> @builtin(position) vec4<f32> { return vec4<f32>(1.0); }"),
		fd("ep-dup-in-snippet", "@compute @workgroup_size(1) fn $e() {}\n@compute @workgroup_size(1) fn $e() {}"),
		fd("ep-vs-fn-same-name", "fn $e() {}\n@compute @workgroup_size(1) fn $e() {}"),
		fd("ep-calls-ep", "@compute @workgroup_size(1) fn $e1() {}\n@compute @workgroup_size(1) fn $e2() { $e1(); }"),
		fd("ep-calls-itself", "@compute @workgroup_size(1) fn $e() { $e(); }"),
		fd("ep-fragment-calls-compute", "@compute @workgroup_size(1) fn $e1() {}\n@fragment fn $e2() { $e1(); }"),
		fc("ep-fn-calls-ep", "@compute @workgroup_size(1) fn $e1() {}\nfn $h() { $e1(); }", "$h();"),
		fd("ep-empty-fragment", "@fragment fn $e() {}"),
		fd("ep-empty-vertex", "@vertex fn $e() {}"),
		fd("ep-vertex-no-position", "@vertex fn $e() -> @location(0) f32 { return 1.0; }"),
		fd("ep-two-stages", "@vertex @fragment fn $e() -> @builtin(position) vec4<f32> { return vec4<f32>(0.0); }"),
		fd("ep-stage-twice", "@compute @compute @workgroup_size(1) fn $e() {}"),
		fd("ep-wgsize-without-stage", "@workgroup_size(1) fn $e() {}"),
		fd("ep-wgsize-on-fragment", "@fragment @workgroup_size(1) fn $e() {}"),
		fd("ep-missing-wgsize", "@compute fn $e() {}"),
		fd("ep-wgsize-twice", "@compute @workgroup_size(1) @workgroup_size(2) fn $e() {}"),
		fd("ep-wgsize-zero", "@compute @workgroup_size(0) fn $e() {}"),
		fd("ep-wgsize-negative", "@compute @workgroup_size(-1) fn $e() {}"),
		fd("ep-wgsize-four", "@compute @workgroup_size(1, 2, 3, 4) fn $e() {}"),
		fd("ep-wgsize-empty", "@compute @workgroup_size() fn $e() {}"),
		fd("ep-wgsize-mixed-sign", "@compute @workgroup_size(1u, 1i) fn $e() {}"),
		fd("ep-wgsize-float", "@compute @workgroup_size(1.5) fn $e() {}"),
		fd("ep-wgsize-huge", "@compute @workgroup_size(65536, 65536, 65536) fn $e() {}"),
		fd("ep-wgsize-trailing-comma", "@compute @workgroup_size(8, 8,) fn $e() {}"),
		fd("ep-wgsize-const-expr", "const $k = 2;\n@compute @workgroup_size($k * 2, $k) fn $e() {}"),
		fd("ep-wgsize-override", "override $n: u32 = 4u;\n@compute @workgroup_size($n, 1, 1) fn $e() {}"),
		fd("ep-wgsize-override-nodefault", "override $n: u32;\n@compute @workgroup_size($n) fn $e() {}"),
		fd("ep-wgsize-override-expr", "override $n: u32 = 4u;\n@compute @workgroup_size($n * 2u + 1u) fn $e() {}"),
		fd("ep-wgsize-undeclared", "@compute @workgroup_size($nope) fn $e() {}"),
		fd("ep-wgsize-var", "var<private> $v: u32 = 1u;\n@compute @workgroup_size($v) fn $e() {}"),
		fd("ep-compute-returns", "@compute @workgroup_size(1) fn $e() -> i32 { return 1; }"),
		fd("ep-compute-returns-location", "@compute @workgroup_size(1) fn $e() -> @location(0) f32 { return 1.0; }"),
		fd("ep-param-no-binding", "@fragment fn $e(a: f32) {}"),
		fd("ep-return-no-binding", "@fragment fn $e() -> vec4<f32> { return vec4<f32>(0.0); }"),
		fd("ep-dup-location-in", "@fragment fn $e(@location(0) a: f32, @location(0) b: f32) {}"),
		fd("ep-dup-location-out", "struct $O { @location(0) a: vec4<f32>, @location(0) b: vec4<f32> }\n@fragment fn $e() -> $O { return $O(vec4<f32>(0.0), vec4<f32>(1.0)); }"),
		fd("ep-dup-builtin", "@fragment fn $e(@builtin(position) a: vec4<f32>, @builtin(position) b: vec4<f32>) {}"),
		fd("ep-location-and-builtin", "@fragment fn $e(@location(0) @builtin(position) a: vec4<f32>) {}"),
		fd("ep-location-negative", "@fragment fn $e(@location(-1) a: f32) {}"),
		fd("ep-location-float", "@fragment fn $e(@location(1.5) a: f32) {}"),
		fd("ep-location-huge", "@fragment fn $e(@location(4294967295) a: f32) -> @location(4294967295) vec4<f32> { return vec4<f32>(a); }"),
		fd("ep-location-empty", "@fragment fn $e(@location() a: f32) {}"),
		fd("ep-location-two-args", "@fragment fn $e(@location(0, 1) a: f32) {}"),
		fd("ep-location-const-expr", "const $k = 1;\n@fragment fn $e(@location($k + 1) a: f32) -> @location($k) vec4<f32> { return vec4<f32>(a); }"),
		fd("ep-location-bool", "@fragment fn $e(@location(0) a: bool) {}"),
		fd("ep-location-struct-nested", "struct $I { @location(0) a: f32 }\nstruct $J { i: $I }\n@fragment fn $e(j: $J) {}"),
		fd("ep-location-array", "@fragment fn $e(@location(0) a: array<f32, 2>) {}"),
		fd("ep-location-matrix", "@vertex fn $e(@location(0) a: mat2x2<f32>) -> @builtin(position) vec4<f32> { return vec4<f32>(a[0], a[1]); }"),
		fd("ep-io-struct", "struct $VI { @location(0) p: vec3<f32>, @builtin(vertex_index) vi: u32 }\nstruct $VO { @builtin(position) p: vec4<f32>, @location(0) @interpolate(flat) id: u32, @location(1) uv: vec2<f32> }\n@vertex fn $vs(i: $VI, @builtin(instance_index) n: u32) -> $VO { var o: $VO; o.p = vec4<f32>(i.p, 1.0); o.id = i.vi + n; return o; }\n@fragment fn $fs(i: $VO, @builtin(front_facing) ff: bool) -> @location(0) vec4<f32> { if ff { return vec4<f32>(i.uv, f32(i.id), 1.0); } return i.p; }"),
		fd("ep-io-struct-empty", "struct $E {}\n@fragment fn $e(i: $E) -> $E { return $E(); }"),
		fd("ep-io-struct-unattributed", "struct $I { a: f32 }\n@fragment fn $e(i: $I) -> $I { return i; }"),
		fd("ep-io-struct-shared-with-buffer", "struct $I { @location(0) a: vec4<f32>, @builtin(position) p: vec4<f32> }\n@group(%G) @binding(0) var<storage, read_write> $b: $I;\n@fragment fn $e(i: $I) -> @location(0) vec4<f32> { $b = i; return $b.a; }"),
		fd("ep-builtin-wrong-stage", "@compute @workgroup_size(1) fn $e(@builtin(position) p: vec4<f32>, @builtin(vertex_index) v: u32) {}"),
		fd("ep-builtin-wrong-type", "@vertex fn $e(@builtin(vertex_index) i: f32) -> @builtin(position) vec4<f32> { return vec4<f32>(i); }"),
		fd("ep-builtin-unknown", "@fragment fn $e(@builtin(bogus) i: u32) {}"),
		fd("ep-builtin-empty", "@fragment fn $e(@builtin() i: u32) {}"),
		fd("ep-builtin-number", "@fragment fn $e(@builtin(0) i: u32) {}"),
		fd("ep-builtin-output-as-input", "@fragment fn $e(@builtin(frag_depth) d: f32) {}"),
		fd("ep-builtin-on-helper", "fn $h(@builtin(position) p: vec4<f32>) {}"),
		fd("ep-compute-builtins", "@group(%G) @binding(0) var<storage, read_write> $o: array<u32>;\n@compute @workgroup_size(2, 2) fn $e(@builtin(global_invocation_id) g: vec3<u32>, @builtin(local_invocation_id) l: vec3<u32>, @builtin(local_invocation_index) li: u32, @builtin(workgroup_id) w: vec3<u32>, @builtin(num_workgroups) n: vec3<u32>) { $o[li] = g.x + l.y + w.z + n.x; }"),
		fd("ep-fragment-builtins", "struct $O { @builtin(frag_depth) d: f32, @builtin(sample_mask) m: u32, @location(0) c: vec4<f32> }\n@fragment fn $e(@builtin(position) p: vec4<f32>, @builtin(front_facing) ff: bool, @builtin(sample_index) si: u32, @builtin(sample_mask) sm: u32) -> $O { return $O(p.z, sm & si, select(p, -p, ff)); }"),
		fd("ep-vertex-clip-distances", "struct $O { @builtin(position) p: vec4<f32>, @builtin(clip_distances) c: array<f32, 2> }\n@vertex fn $e() -> $O { var o: $O; return o; }"),
		fd("ep-subgroup-builtins", "@compute @workgroup_size(1) fn $e(@builtin(subgroup_invocation_id) i: u32, @builtin(subgroup_size) s: u32) { _ = i + s; }"),
		fd("ep-primitive-index", "@fragment fn $e(@builtin(primitive_index) i: u32) {}"),
		fd("ep-interpolate-forms", "struct $I { @location(0) @interpolate(flat) a: i32, @location(1) @interpolate(linear, sample) b: f32, @location(2) @interpolate(perspective, centroid) c: f32, @location(3) @interpolate(flat, either) d: u32, @location(4) @interpolate(linear) e: vec2<f32> }\n@fragment fn $e(i: $I) -> @location(0) vec4<f32> { return vec4<f32>(f32(i.a) + i.b + i.c + f32(i.d) + i.e.x); }"),
		fd("ep-interpolate-bogus", "@fragment fn $e(@location(0) @interpolate(bogus) a: f32) {}"),
		fd("ep-interpolate-empty", "@fragment fn $e(@location(0) @interpolate() a: f32) {}"),
		fd("ep-interpolate-three", "@fragment fn $e(@location(0) @interpolate(flat, first, first) a: f32) {}"),
		fd("ep-interpolate-int-not-flat", "@fragment fn $e(@location(0) a: i32) {}"),
		fd("ep-interpolate-on-builtin", "@fragment fn $e(@builtin(position) @interpolate(flat) a: vec4<f32>) {}"),
		fd("ep-invariant", "@vertex fn $e() -> @invariant @builtin(position) vec4<f32> { return vec4<f32>(0.0); }"),
		fd("ep-invariant-on-location", "@vertex fn $e() -> @invariant @location(0) vec4<f32> { return vec4<f32>(0.0); }"),
		fd("ep-blend-src", "struct $O { @location(0) @blend_src(0) a: vec4<f32>, @location(0) @blend_src(1) b: vec4<f32> }\n@fragment fn $e() -> $O { return $O(vec4<f32>(0.0), vec4<f32>(1.0)); }"),
		fd("ep-ptr-param", "@compute @workgroup_size(1) fn $e(p: ptr<function, i32>) {}"),
		fd("ep-texture-param", "@fragment fn $e(t: texture_2d<f32>) {}"),
		fd("ep-const-assert-inside", "@compute @workgroup_size(1) fn $e() { const_assert 1 < 2; }"),
		fd("ep-attr-after-fn", "fn @compute $e() {}"),
		fd("ep-attr-unknown", "@bogus fn $e() {}"),
		fd("ep-attr-dangling", "@ fn $e() {}"),
		fd("ep-attr-args-on-stage", "@compute(1) @workgroup_size(1) fn $e() {}"),
		fd("ep-attr-const", "@const fn $e() -> i32 { return 1; }"),
		fd("ep-attr-diagnostic", "@diagnostic(off, derivative_uniformity) @fragment fn $e(@location(0) a: f32) -> @location(0) vec4<f32> { if a > 0.0 { return vec4<f32>(dpdx(a)); } return vec4<f32>(0.0); }"),
		fd("ep-attr-diagnostic-bogus", "@diagnostic(bogus, a.b.c) fn $e() {}"),
		fd("ep-many-entry-points", "@compute @workgroup_size(1) fn $e0() {}\n@compute @workgroup_size(2) fn $e1() {}\n@fragment fn $e2() {}\n@fragment fn $e3() -> @location(0) vec4<f32> { return vec4<f32>(0.0); }\n@vertex fn $e4() -> @builtin(position) vec4<f32> { return vec4<f32>(0.0); }\n@vertex fn $e5(@builtin(vertex_index) i: u32) -> @builtin(position) vec4<f32> { return vec4<f32>(f32(i)); }"),
	}
}

func c10FeatBindings() []c10Feat {
	return []c10Feat{
		fc("bind-same-twice-used", "@group(%G) @binding(0) var<uniform> $a: vec4<f32>;\n@group(%G) @binding(0) var<uniform> $b: vec4<f32>;", "_ = $a.x + $b.y;"),
		fc("bind-same-twice-unused", "@group(%G) @binding(0) var<uniform> $a: vec4<f32>;\n@group(%G) @binding(0) var<uniform> $b: vec4<f32>;", ""),
		fc("bind-same-one-used", "@group(%G) @binding(0) var<uniform> $a: vec4<f32>;\n@group(%G) @binding(0) var<storage, read_write> $b: array<u32>;", "$b[0] = 1u;"),
		fc("bind-same-via-helpers", "@group(%G) @binding(1) var<uniform> $a: vec4<f32>;\n@group(%G) @binding(1) var<uniform> $b: vec4<f32>;\nfn $ha() -> f32 { return $a.x; }\nfn $hb() -> f32 { return $b.x; }", "_ = $ha() + $hb();"),
		ff("bind-same-different-kind", "@group(%G) @binding(0) var<uniform> $a: vec4<f32>;\n@group(%G) @binding(0) var $t: texture_2d<f32>;\n@group(%G) @binding(0) var $s: sampler;", "_ = textureSample($t, $s, $a.xy);"),
		fd("bind-same-two-entry-points", "@group(%G) @binding(0) var<uniform> $a: vec4<f32>;\n@group(%G) @binding(0) var<storage, read_write> $b: array<u32>;\n@fragment fn $fs() -> @location(0) vec4<f32> { return $a; }\n@compute @workgroup_size(1) fn $cs() { $b[0] = 1u; }"),
		fc("bind-same-three", "@group(%G) @binding(2) var<storage> $a: array<u32>;\n@group(%G) @binding(2) var<storage> $b: array<u32>;\n@group(%G) @binding(2) var<storage> $c: array<u32>;", "_ = $a[0] + $b[0] + $c[0];"),
		fc("bind-fixed-0-0", "@group(0) @binding(0) var<storage, read_write> $o: array<u32>;", "$o[0] = 1u;"),
		fc("bind-fixed-0-0-unused", "@group(0) @binding(0) var<uniform> $u: vec4<f32>;", ""),
		ff("bind-fixed-0-0-texture", "@group(0) @binding(0) var $t: texture_2d<f32>;", "_ = textureLoad($t, vec2<i32>(0), 0);"),
		fc("bind-same-binding-other-group", "@group(0) @binding(7) var<uniform> $a: vec4<f32>;\n@group(1) @binding(7) var<uniform> $b: vec4<f32>;\n@group(2) @binding(7) var<uniform> $c: vec4<f32>;", "_ = $a.x + $b.x + $c.x;"),
		fc("bind-sparse", "@group(3) @binding(17) var<uniform> $a: vec4<f32>;\n@group(%G) @binding(1000) var<uniform> $b: vec4<f32>;", "_ = $a.x + $b.x;"),
		fc("bind-huge", "@group(4294967295) @binding(4294967295) var<uniform> $a: vec4<f32>;", "_ = $a.x;"),
		fc("bind-overflow", "@group(4294967296) @binding(18446744073709551616) var<uniform> $a: vec4<f32>;", "_ = $a.x;"),
		fc("bind-negative", "@group(-1) @binding(-2) var<uniform> $a: vec4<f32>;", "_ = $a.x;"),
		fc("bind-float", "@group(1.5) @binding(0.0) var<uniform> $a: vec4<f32>;", "_ = $a.x;"),
		fc("bind-empty-args", "@group() @binding() var<uniform> $a: vec4<f32>;", "_ = $a.x;"),
		fc("bind-extra-args", "@group(0, 1) @binding(0, 1) var<uniform> $a: vec4<f32>;", "_ = $a.x;"),
		fc("bind-const-expr", "const $k = 2;\n@group($k - 2) @binding($k * 3) var<uniform> $a: vec4<f32>;", "_ = $a.x;"),
		fc("bind-override-arg", "override $k: u32 = 1u;\n@group(0) @binding($k) var<uniform> $a: vec4<f32>;", "_ = $a.x;"),
		fc("bind-missing-group", "@binding(0) var<uniform> $a: vec4<f32>;", "_ = $a.x;"),
		fc("bind-missing-binding", "@group(%G) var<uniform> $a: vec4<f32>;", "_ = $a.x;"),
		fc("bind-missing-both", "var<uniform> $a: vec4<f32>;", "_ = $a.x;"),
		fc("bind-missing-both-storage", "var<storage, read_write> $a: array<u32>;", "$a[0] = 1u;"),
		ff("bind-missing-both-texture", "var $t: texture_2d<f32>;", "_ = textureDimensions($t);"),
		fc("bind-on-private", "@group(%G) @binding(0) var<private> $a: i32;", "$a = 1;"),
		fc("bind-on-workgroup", "@group(%G) @binding(0) var<workgroup> $a: i32;", "$a = 1;"),
		fd("bind-on-const", "@group(%G) @binding(0) const $a = 1;"),
		fd("bind-on-fn", "@group(%G) @binding(0) fn $f() {}"),
		fd("bind-on-struct-member", "struct $S { @group(0) @binding(0) a: i32 }"),
		fc("bind-dup-attr", "@group(0) @group(1) @binding(0) @binding(1) var<uniform> $a: vec4<f32>;", "_ = $a.x;"),
		fc("bind-attr-order", "@binding(3) @group(%G) var<uniform> $a: vec4<f32>;", "_ = $a.x;"),
		fc("bind-many", func() string {
			var b strings.Builder
			for i := 0; i < 24; i++ {
				fmt.Fprintf(&b, "@group(%%G) @binding(%d) var<storage, read_write> $m%d: array<u32>;\n", i+10, i)
			}
			return b.String()
		}(), "$m0[0] = $m23[0] + $m11[1];"),
		fc("bind-binding-array", "@group(%G) @binding(0) var $ta: binding_array<texture_2d<f32>, 4>;", "_ = textureDimensions($ta[1]);"),
		fc("bind-binding-array-unsized", "@group(%G) @binding(0) var $ta: binding_array<texture_2d<f32>>;\n@group(%G) @binding(1) var<uniform> $i: u32;", "_ = textureDimensions($ta[$i]);"),
	}
}
