package checks

import (
	"encoding/binary"
	"errors"
	"fmt"
	"math"
	"strings"

	"github.com/gogpu/naga/ir"
	"github.com/gogpu/naga/msl"

	"verif/internal/explore"
	"verif/internal/glslx"
	"verif/internal/hlslx"
	"verif/internal/mslx"
	"verif/internal/nagax"
	"verif/internal/spv"
	"verif/internal/wgen"
	"verif/internal/wref"
	"verif/internal/xrt"
)

// refResult caches the reference outcome of one case.
type refResult struct {
	bufs  xrt.Buffers
	undef string // non-empty: WGSL does not define this execution
}

func runRef(c *wgen.Case, cfg wref.Config) (*refResult, error) {
	b := c.Bufs.Clone()
	err := wref.Exec(c.Mod, "", b, c.Groups, cfg)
	if err != nil {
		var u *wref.Undefined
		if errors.As(err, &u) {
			return &refResult{undef: u.Why}, nil
		}
		return nil, err
	}
	return &refResult{bufs: b}, nil
}

// writable bindings of a case, in order.
func outBindings(c *wgen.Case) []xrt.Binding {
	var out []xrt.Binding
	for _, g := range c.Mod.Globals {
		if g.Space == "storage" && g.RW {
			out = append(out, xrt.Binding{Group: uint32(g.Group), Binding: uint32(g.Binding)})
		}
	}
	return out
}

func isBadFloat(b uint32) bool {
	e := b & 0x7F800000
	return e == 0x7F800000 || (e == 0 && b&0x007FFFFF != 0) // inf/nan or subnormal
}

// compareBufs compares every leaf scalar of every writable buffer. Returns "" or a description.
func compareBufs(c *wgen.Case, want, got xrt.Buffers) string {
	for _, k := range outBindings(c) {
		t := c.BufTypes[k]
		w, g := want[k], got[k]
		if len(w) != len(g) {
			return fmt.Sprintf("buffer %s length changed %d -> %d", k, len(w), len(g))
		}
		offs := wgen.LeafOffsets(t, 0, nil)
		for li, o := range offs {
			if o+4 > len(w) {
				continue
			}
			ew := binary.LittleEndian.Uint32(w[o:])
			eg := binary.LittleEndian.Uint32(g[o:])
			if ew == eg {
				continue
			}
			if t.Leaf(li) == wgen.F32 {
				if isBadFloat(ew) {
					continue // WGSL leaves inf/nan/subnormal results to the implementation
				}
				fw, fg := float64(math.Float32frombits(ew)), float64(math.Float32frombits(eg))
				if fw == fg { // +0 / -0
					continue
				}
				if c.Approx {
					tol := 2e-4*math.Abs(fw) + 1e-5
					if math.Abs(fw-fg) <= tol {
						continue
					}
				}
				return fmt.Sprintf("buffer %s byte %d (leaf %d): want %v (0x%08x) got %v (0x%08x)", k, o, li, float32(fw), ew, float32(fg), eg)
			}
			return fmt.Sprintf("buffer %s byte %d (leaf %d): want 0x%08x got 0x%08x", k, o, li, ew, eg)
		}
		// padding bytes must not be compared (WGSL lets a store touch or not touch them)
	}
	return ""
}

// failClass maps an interpreter error to a stable class (or "" for skip).
func failClass(err error) (class string, skip string) {
	var tr *xrt.Trap
	var un *xrt.Unsupported
	var sl *xrt.StepLimit
	var mf *xrt.Malformed
	switch {
	case errors.As(err, &un):
		return "", "interpreter: unsupported construct"
	case errors.As(err, &tr):
		return "trap:" + tr.Kind, ""
	case errors.As(err, &sl):
		return "non-termination", ""
	case errors.As(err, &mf):
		msg := mf.What
		if i := strings.Index(msg, ": "); i >= 0 && strings.HasPrefix(msg, "line ") {
			msg = msg[i+2:]
		}
		return "malformed-output:" + errClass(msg), ""
	}
	return "exec-error:" + errClass(err.Error()), ""
}

// semBackend abstracts one backend for the semantic checks.
type semBackend struct {
	prop    string
	name    string
	configs func(d int) []semConfig
	// excused: trap kinds that the property itself places outside its scope for this backend
	// (C05: "executions free of GLSL-undefined behaviour").
	excused map[string]bool
}

type semConfig struct {
	label string
	dev   int
	// run compiles m and executes the case; returns resulting buffers.
	run func(m *ir.Module, c *wgen.Case, opts xrt.Opts) (xrt.Buffers, string, error, *nagax.Panic)
}

func entryWG(c *wgen.Case) [3]uint32 {
	f := c.Mod.Entry()
	var wg [3]uint32
	for i := range wg {
		wg[i] = uint32(f.WG[i])
		if wg[i] == 0 {
			wg[i] = 1
		}
	}
	return wg
}

func spirvBackend() *semBackend {
	return &semBackend{prop: "C01", name: "spirv", configs: func(d int) []semConfig {
		var out []semConfig
		for _, sc := range nagax.SPIRVConfigs(d) {
			sc := sc
			if strings.Contains(sc.Label, "pointsize") || strings.Contains(sc.Label, "adjustcoord") || strings.Contains(sc.Label, "noio16") {
				continue // vertex-only / f16-only options: no effect on compute programs
			}
			out = append(out, semConfig{label: sc.Label, dev: sc.Dev, run: func(m *ir.Module, c *wgen.Case, o xrt.Opts) (xrt.Buffers, string, error, *nagax.Panic) {
				b, err, pn := nagax.SPIRV(m, sc.Opts)
				if pn != nil || err != nil {
					return nil, "", wrapCompile(err), pn
				}
				mod, err := spv.Parse(b)
				if err != nil {
					return nil, "", err, nil
				}
				bufs := c.Bufs.Clone()
				o.EntryPoint = "main"
				err = spv.Exec(mod, bufs, o)
				return bufs, "", err, nil
			}})
		}
		return out
	}}
}

type compileErr struct{ err error }

func (c *compileErr) Error() string { return c.err.Error() }
func wrapCompile(err error) error {
	if err == nil {
		return nil
	}
	return &compileErr{err}
}

func hlslBackend() *semBackend {
	return &semBackend{prop: "C03", name: "hlsl", configs: func(d int) []semConfig {
		var out []semConfig
		for _, sc := range nagax.HLSLConfigs(d) {
			sc := sc
			out = append(out, semConfig{label: sc.Label, dev: sc.Dev, run: func(m *ir.Module, c *wgen.Case, o xrt.Opts) (xrt.Buffers, string, error, *nagax.Panic) {
				src, _, err, pn := nagax.HLSL(m, sc.Opts)
				if pn != nil || err != nil {
					return nil, "", wrapCompile(err), pn
				}
				p, err := hlslx.Parse(src)
				if err != nil {
					return nil, src, err, nil
				}
				bufs := c.Bufs.Clone()
				o.EntryPoint = ""
				err = p.Exec(bufs, hlslx.Opts{Opts: o})
				return bufs, src, err, nil
			}})
		}
		return out
	}}
}

func mslBackend() *semBackend {
	return &semBackend{prop: "C04", name: "msl", configs: func(d int) []semConfig {
		var out []semConfig
		for _, sc := range nagax.MSLConfigs(d) {
			sc := sc
			out = append(out, semConfig{label: sc.Label, dev: sc.Dev, run: func(m *ir.Module, c *wgen.Case, o xrt.Opts) (xrt.Buffers, string, error, *nagax.Panic) {
				opts := sc.Opts
				// explicit resource map: buffer slot = binding number, sizes buffer in slot 30
				res := map[ir.ResourceBinding]msl.BindTarget{}
				slots := map[int]xrt.Binding{}
				var sizes []xrt.Binding
				for gi := range m.GlobalVariables {
					g := &m.GlobalVariables[gi]
					if g.Binding == nil {
						continue
					}
					slot := uint8(g.Binding.Binding)
					res[*g.Binding] = msl.BindTarget{Buffer: &slot, Mutable: true}
					slots[int(slot)] = xrt.Binding{Group: g.Binding.Group, Binding: g.Binding.Binding}
				}
				for _, g := range c.Mod.Globals {
					if (g.Space == "storage" || g.Space == "uniform") && wgen.HasRuntimeArray(g.Ty) {
						sizes = append(sizes, xrt.Binding{Group: uint32(g.Group), Binding: uint32(g.Binding)})
					}
				}
				sb := uint8(30)
				opts.PerEntryPointMap = map[string]msl.EntryPointResources{"main": {Resources: res, SizesBuffer: &sb}}
				opts.FakeMissingBindings = false
				src, info, err, pn := nagax.MSL(m, opts)
				if pn != nil || err != nil {
					return nil, "", wrapCompile(err), pn
				}
				p, err := mslx.Parse(src)
				if err != nil {
					return nil, src, err, nil
				}
				bufs := c.Bufs.Clone()
				o.EntryPoint = info.EntryPointNames["main"]
				err = p.Exec(bufs, mslx.Opts{Opts: o, BufferSlots: slots, SizesOrder: sizes, WorkgroupSize: entryWG(c)})
				return bufs, src, err, nil
			}})
		}
		return out
	}}
}

func glslBackend() *semBackend {
	return &semBackend{prop: "C05", name: "glsl", excused: map[string]bool{"div0": true, "sdiv-overflow": true, "mod-negative": true, "shift-range": true, "f2i-range": true},
		configs: func(d int) []semConfig {
			var out []semConfig
			for _, sc := range nagax.GLSLConfigs(d) {
				sc := sc
				out = append(out, semConfig{label: sc.Label, dev: sc.Dev, run: func(m *ir.Module, c *wgen.Case, o xrt.Opts) (xrt.Buffers, string, error, *nagax.Panic) {
					opts := sc.Opts
					opts.EntryPoint = "main"
					src, _, err, pn := nagax.GLSL(m, opts)
					if pn != nil || err != nil {
						return nil, "", wrapCompile(err), pn
					}
					p, err := glslx.Parse(src)
					if err != nil {
						return nil, src, err, nil
					}
					bufs := c.Bufs.Clone()
					err = p.Exec(bufs, glslx.Opts{Opts: o})
					return bufs, src, err, nil
				}})
			}
			return out
		}}
}

// semProgram checks one executable case against one backend under all configs within d deviations.
func semProgram(r *explore.Run, be *semBackend, p *prog, d int) {
	semProgramKeyed(r, be, p, d, sigClass(p.Sig))
}

// semProgramKeyed is semProgram with an explicit construct class for violation keys.
func semProgramKeyed(r *explore.Run, be *semBackend, p *prog, d int, sc string) {
	c := p.Case
	if c == nil || c.NoExec {
		return
	}
	ref, err := runRef(c, wref.Config{})
	if err != nil {
		fmt.Println("HARNESS-ERROR: reference evaluator failed on", c.Sig, ":", err)
		r.Skip("reference evaluator error")
		return
	}
	if ref.undef != "" {
		r.Skip("wgsl-undefined execution")
		return
	}
	m, _, ferr, pn := nagax.Front(p.Src)
	if pn != nil || ferr != nil {
		r.Skip("front end rejected/panicked (belongs to C08/C10)")
		return
	}
	for _, cfg := range be.configs(d) {
		r.Count("evaluations", int64(c.Groups[0]*c.Groups[1]*c.Groups[2]))
		r.Count("executions", 1)
		steps := int64(200_000) * int64(c.Groups[0])
		got, text, err, pn := cfg.run(m, c, xrt.Opts{NumWorkgroups: c.Groups, StepLimit: steps})
		if pn != nil {
			r.Skip("naga panic (belongs to C10)")
			continue
		}
		rep := p.replay()
		rep["config"] = cfg.label
		rep["backend"] = be.name
		if text != "" {
			rep["emitted"] = trunc(text, 6000)
		}
		if err != nil {
			var ce *compileErr
			if errors.As(err, &ce) {
				r.Skip("backend returned an error (belongs to C08)")
				continue
			}
			class, skip := failClass(err)
			if be.excused[strings.TrimPrefix(class, "trap:")] && strings.HasPrefix(class, "trap:") {
				skip = "execution undefined in the target language (outside the property's scope)"
			}
			if skip != "" {
				r.Skip(skip)
				continue
			}
			r.Violate(explore.Violation{Key: be.prop + "|" + sc + "|" + cfg.label + "|" + class,
				Detail: fmt.Sprintf("%s output of %s [%s] fails when executed: %v", be.name, p.Sig, cfg.label, err), Replay: rep})
			continue
		}
		if diff := compareBufs(c, ref.bufs, got); diff != "" {
			r.Violate(explore.Violation{Key: be.prop + "|" + sc + "|" + cfg.label + "|mismatch",
				Detail: fmt.Sprintf("%s output of %s [%s] computes a different result than WGSL prescribes: %s", be.name, p.Sig, cfg.label, diff), Replay: rep})
			continue
		}
		if cfg.dev == 0 {
			for _, k := range outBindings(c) {
				r.DistinctBytes(got[k])
			}
		}
	}
}

// semExtra: further executable families contributed by other files of this package (appended in init
// functions); each is run by all four semantic checks at the default option set (all option sets within
// one deviation in the thorough tier).
var semExtra = []func(thorough bool) *wgen.Family{
	// deeper nesting of loops and single-clause switches with break/continue (the structural checks see k<=4)
	func(thorough bool) *wgen.Family {
		if thorough {
			return wgen.F2Mini(6, 3)
		}
		return wgen.F2Mini(5, 3)
	},
	// loops whose continuing block is itself a statement list (nested if/else and loops) followed by break-if
	func(thorough bool) *wgen.Family {
		if thorough {
			return wgen.F2Mini(5, 4)
		}
		return wgen.F2Mini(4, 4)
	},
	// operation sequences on a function-local struct (field stores, whole reads/writes/copies, pointer updates)
	func(thorough bool) *wgen.Family {
		if thorough {
			return wgen.F13s(4)
		}
		return wgen.F13s(3)
	},
}

func runSem(be *semBackend) int {
	r := explore.New(be.prop)
	fams := append(quickFamilies(r), wgen.F3(r.Thorough()), wgen.F4Access(), wgen.F4Idx())
	nbase := len(fams)
	for _, f := range semExtra {
		fams = append(fams, f(r.Thorough()))
	}
	extraFam := map[string]bool{}
	for _, f := range fams[nbase:] {
		extraFam[f.Name] = true
	}
	d1 := 1
	forEachProgram(r, fams, nil, func(p *prog) {
		d := d1
		if (strings.HasPrefix(p.Case.Family, "F2") || strings.HasPrefix(p.Case.Family, "F3") || strings.HasPrefix(p.Case.Family, "F4c") || extraFam[p.Case.Family]) && !r.Thorough() {
			d = 0
		}
		semProgram(r, be, p, d)
	})
	c := wgen.F1().At(0)
	r.Sample(map[string]any{"program": c.Sig, "source": wgen.Print(c.Mod), "invocations": c.Groups[0]})
	printKeys(r)
	return r.Finish("every program of F1 (operators x shapes x sources, boundary-value input tuples laid over N invocations), F2 (all control-flow trees within the node budget x 3 positions x 16 control inputs), F3 (memory shapes: every type tree of the layout grammar read leaf by leaf and copied five ways) and F4acc (27 dynamic access forms with every in-bounds index, u32 and i32) x every "+be.name+" option set within 1 deviation (F2: default only in the quick tier); the emitted code is executed by an independent interpreter and compared leaf-by-leaf with the reference WGSL evaluator; evaluations = invocations executed; distinct = distinct output buffers observed",
		[]string{"the reference evaluator (internal/wref) and the target interpreter are the trusted base; they were written independently of naga from the language specifications",
			"inputs on which WGSL leaves latitude (inf/nan/subnormal results, inexact int->float, division by zero in GLSL) are excluded or masked",
			"approximate float builtins are compared with a tolerance of 2e-4 relative"})
}

func init() {
	for _, be := range []*semBackend{spirvBackend(), hlslBackend(), mslBackend(), glslBackend()} {
		be := be
		Registry[be.prop] = func() int { return runSem(be) }
		perProgram[be.prop] = func(r *explore.Run, p *prog) { semProgram(r, be, p, 1) }
	}
}
