package checks

import (
	"bytes"
	"errors"
	"fmt"
	"os"
	"regexp"
	"sort"
	"strings"

	"github.com/gogpu/naga/glsl"
	"github.com/gogpu/naga/hlsl"
	"github.com/gogpu/naga/ir"
	"github.com/gogpu/naga/msl"

	"verif/internal/explore"
	"verif/internal/glslx"
	"verif/internal/hlslx"
	"verif/internal/mslx"
	"verif/internal/nagax"
	"verif/internal/xrt"
)

func init() { Registry["C16"] = runC16 }

var c16Positions = []string{"ST", "MEM", "AL", "CN", "PRIV", "WG", "STO", "UNI", "FN", "PARAM", "LVAR", "LLET", "EP", "FN2", "ST2"}

var c16Neutral = map[string]string{"ST": "Thing", "MEM": "field", "AL": "Word", "CN": "kLimit", "PRIV": "counter", "WG": "sharedv", "STO": "outbuf", "UNI": "params",
	"FN": "helperf", "PARAM": "argv", "LVAR": "tmpv", "LLET": "resv", "EP": "entryp", "FN2": "otherf", "ST2": "Other"}

// c16Source instantiates the seed: one entity of every kind, every entity used, builtins called
// next to user entities so that shadowing would change the result.
func c16Source(names map[string]string) string {
	n := func(k string) string { return names[k] }
	return fmt.Sprintf(`struct %[1]s { %[2]s: u32, second: u32 }
struct %[15]s { %[2]s: vec2<u32>, inner: %[1]s }
alias %[3]s = u32;
const %[4]s: u32 = 3u;
var<private> %[5]s: u32;
var<workgroup> %[6]s: u32;
@group(0) @binding(0) var<storage, read_write> %[7]s: array<u32>;
@group(0) @binding(1) var<uniform> %[8]s: vec4<u32>;
fn %[9]s(%[10]s: u32) -> u32 {
  var %[11]s = %[10]s + 1u;
  let %[12]s = %[11]s * 2u;
  return %[12]s + %[4]s;
}
fn %[14]s(%[10]s: vec2<u32>, %[11]s: u32) -> u32 {
  var acc = 0u;
  for (var i = 0u; i < 2u; i++) { acc += %[10]s[i] %% 5u; }
  return min(acc, 100u) + max(%[11]s, 2u) + u32(abs(-3)) + clamp(%[11]s, 1u, 4u) + select(1u, 2u, acc > 1u);
}
@compute @workgroup_size(1)
fn %[13]s(@builtin(global_invocation_id) gid: vec3<u32>) {
  var s: %[1]s;
  s.%[2]s = %[9]s(7u);
  s.second = 1u;
  var t: %[15]s;
  t.%[2]s = vec2<u32>(s.%[2]s, 9u);
  t.inner = s;
  %[5]s = s.%[2]s;
  %[6]s = %[8]s.x;
  workgroupBarrier();
  let a: %[3]s = %[5]s + %[6]s;
  %[7]s[0] = a + s.second + t.inner.%[2]s;
  %[7]s[1] = %[14]s(t.%[2]s, %[8]s.y) + u32(dot(vec2<f32>(1.0, 2.0), vec2<f32>(3.0, 4.0)));
  %[7]s[2] = countOneBits(a) + firstLeadingBit(a | 1u) + u32(floor(2.5)) + u32(sqrt(16.0)) + u32(length(vec2<f32>(3.0, 4.0)));
}
`, n("ST"), n("MEM"), n("AL"), n("CN"), n("PRIV"), n("WG"), n("STO"), n("UNI"), n("FN"), n("PARAM"), n("LVAR"), n("LLET"), n("EP"), n("FN2"), n("ST2"))
}

var c16NagaPatterns = []string{"naga_div", "naga_mod", "naga_neg", "naga_abs", "naga_f2i32", "naga_f2u32", "naga_modf", "naga_frexp", "_e1", "_e12", "type_1", "type_2", "local", "local_1", "loop_bound", "loop_init",
	"should_continue", "_value2", "ret", "arg0", "arg1", "obj", "mat", "vec", "main", "main_", "main_1", "gl_Position", "gl_x", "metal", "DefaultConstructible", "_buffer_sizes", "_mslBufferSizes", "size0",
	"inner", "unnamed", "member", "param", "function", "global", "const_", "_group_0_binding_0_cs", "_pad1", "_pad1_0", "_end_pad_0", "ConstructThing", "GetMatmOnThing", "input", "output", "in_", "out_", "fragment", "vertex", "kernel",
	"thread", "device", "constant", "threadgroup", "cbuffer", "tbuffer", "register", "packoffset", "globallycoherent", "groupshared", "nointerpolation", "row_major", "column_major", "precise", "snorm", "unorm",
	"Texture2D", "SamplerState", "RWByteAddressBuffer", "ByteAddressBuffer", "StructuredBuffer", "float4x4", "float3", "uint3", "half", "double", "min16float", "dword", "matrix", "vector", "string",
	"asuint", "asint", "asfloat", "mul", "lerp", "frac", "rsqrt", "ddx", "mad", "rcp", "saturate", "isnan", "texture", "sampler", "sampler2D", "vec3", "ivec2", "uvec4", "mat4", "highp", "mediump", "lowp", "precision",
	"attribute", "varying", "uniform", "buffer", "shared", "coherent", "volatile", "restrict", "readonly", "writeonly", "layout", "centroid", "flat", "smooth", "noperspective", "patch", "sample", "subroutine",
	"inout", "discard", "active", "filter", "common", "partition", "superp", "input_", "fixed", "unsigned", "signed", "short", "long", "char", "int", "uint", "float", "bool_", "void", "goto", "union", "enum", "typedef", "template", "this", "namespace", "using", "class", "public", "private_", "protected", "virtual", "operator", "new", "delete", "sizeof", "static", "extern", "inline", "auto", "register_", "NULL", "nullptr", "true_", "asm", "and", "or", "not", "xor", "bitand", "bitor", "compl", "and_eq", "not_eq", "alignas", "alignof", "decltype", "noexcept", "static_assert", "thread_local", "constexpr", "explicit", "friend", "mutable", "typename", "wchar_t", "char16_t", "try", "catch", "throw",
	"abs", "min", "max", "clamp", "select", "dot", "floor", "sqrt", "length", "countbits", "firstbithigh", "popcount", "clz", "ctz", "mix", "step", "mod", "fmod", "pow", "exp", "log", "sin", "cos", "any", "all",
	"Foo", "foo", "FOO", "fOO", "x1", "x1_", "x_1", "x__1", "_x", "__x", "x_", "x__", "a_1", "a_1_", "a1", "A1", "π", "变量", "été", "Ünïcode", "name2", "name_2", "Name_2"}

var c16Adversarial = []string{"main", "main_", "main_1", "inner", "local", "type_1", "_e1", "naga_div", "obj", "ret", "input", "output", "in_", "out_", "float", "int", "half", "kernel", "device", "constant", "thread",
	"abs", "min", "max", "select", "texture", "sample", "shared", "buffer", "uniform", "x1", "x1_", "x_1", "a_1", "a_1_", "Foo", "foo", "FOO", "vec3", "float3", "uint", "matrix", "vector", "string", "line", "point", "triangle", "filter"}

// Keyword sets of which the author is certain (used to confirm a "keyword"-class problem reported by
// an interpreter before it counts as a violation; names merely living in a target namespace such as
// metal::texture2d are not reserved in user scope and are not counted).
func wordSet(s string) map[string]bool {
	m := map[string]bool{}
	for _, w := range strings.Fields(s) {
		m[w] = true
	}
	return m
}

var certainCpp = wordSet(`alignas alignof and and_eq asm auto bitand bitor bool break case catch char char16_t char32_t class compl const constexpr const_cast continue decltype default delete do double dynamic_cast else enum explicit export extern false float for friend goto if inline int long mutable namespace new noexcept not not_eq nullptr operator or or_eq private protected public register reinterpret_cast return short signed sizeof static static_assert static_cast struct switch template this thread_local throw true try typedef typeid typename union unsigned using virtual void volatile wchar_t while xor xor_eq kernel vertex fragment device constant thread threadgroup half`)

var certainHLSL = wordSet(`AppendStructuredBuffer asm asm_fragment BlendState bool break Buffer ByteAddressBuffer case cbuffer centroid class column_major compile compile_fragment CompileShader const continue ComputeShader ConsumeStructuredBuffer default DepthStencilState DepthStencilView discard do double DomainShader dword else export extern false float for fxgroup GeometryShader groupshared half Hullshader if in inline inout InputPatch int interface line lineadj linear LineStream matrix min16float min10float min16int min12int min16uint namespace nointerpolation noperspective NULL out OutputPatch packoffset pass pixelfragment PixelShader point PointStream precise RasterizerState RenderTargetView return register row_major RWBuffer RWByteAddressBuffer RWStructuredBuffer RWTexture1D RWTexture1DArray RWTexture2D RWTexture2DArray RWTexture3D sample sampler SamplerState SamplerComparisonState shared snorm stateblock stateblock_state static string struct switch StructuredBuffer tbuffer technique technique10 technique11 texture Texture1D Texture1DArray Texture2D Texture2DArray Texture2DMS Texture2DMSArray Texture3D TextureCube TextureCubeArray true typedef triangle triangleadj TriangleStream uint uniform unorm unsigned vector vertexfragment VertexShader void volatile while float1 float2 float3 float4 int1 int2 int3 int4 uint1 uint2 uint3 uint4 bool1 bool2 bool3 bool4 half2 half3 half4 double2 double3 double4 float2x2 float3x3 float4x4 float2x3 float3x2 float4x2 float2x4 float3x4 float4x3`)

var certainGLSL = wordSet(`attribute const uniform varying buffer shared coherent volatile restrict readonly writeonly atomic_uint layout centroid flat smooth noperspective patch sample break continue do for while switch case default if else subroutine in out inout float double int void bool true false invariant precise discard return mat2 mat3 mat4 mat2x2 mat2x3 mat2x4 mat3x2 mat3x3 mat3x4 mat4x2 mat4x3 mat4x4 vec2 vec3 vec4 ivec2 ivec3 ivec4 bvec2 bvec3 bvec4 uvec2 uvec3 uvec4 dvec2 dvec3 dvec4 uint lowp mediump highp precision struct sampler2D sampler3D samplerCube sampler2DShadow image2D common partition active asm class union enum typedef template this resource goto inline noinline public static extern external interface long short half fixed unsigned superp input output hvec2 hvec3 hvec4 fvec2 fvec3 fvec4 filter sizeof cast namespace using`)

func certainKeyword(backend, name string) bool {
	name = strings.TrimRight(name, "_")
	switch backend {
	case "msl":
		return certainCpp[name]
	case "hlsl":
		return certainHLSL[name]
	case "glsl":
		return certainGLSL[name] || strings.HasPrefix(name, "gl_")
	}
	return false
}

var quoted = regexp.MustCompile(`"([^"]+)"`)

type c16Obs struct {
	compileErr  string
	malformed   string
	problems    []string
	out         []byte
	execErr     string
	epMissing   bool
	unsupported bool
}

type c16Backend struct {
	name string
	run  func(m *ir.Module, ep string) c16Obs
}

func c16Buffers() xrt.Buffers {
	u := make([]byte, 16)
	for i := 0; i < 4; i++ {
		u[i*4] = byte(5 + i)
	}
	return xrt.Buffers{{Group: 0, Binding: 0}: make([]byte, 16), {Group: 0, Binding: 1}: u}
}

func c16Backends() []c16Backend {
	return []c16Backend{
		{"hlsl", func(m *ir.Module, ep string) (o c16Obs) {
			src, info, err, pn := nagax.HLSL(m, *hlsl.DefaultOptions())
			if pn != nil || err != nil {
				o.compileErr = errStr(err, pn)
				return
			}
			p, err := hlslx.Parse(src)
			if err != nil {
				o.malformed = err.Error()
				return
			}
			o.problems = p.Problems()
			name := ep
			if ti, ok := info.(*hlsl.TranslationInfo); ok && ti != nil {
				if n, ok := ti.EntryPointNames[ep]; ok {
					name = n
				}
			} else if ti, ok := info.(hlsl.TranslationInfo); ok {
				if n, ok := ti.EntryPointNames[ep]; ok {
					name = n
				}
			}
			found := false
			for _, e := range p.EntryPoints() {
				if e.Name == name {
					found = true
				}
			}
			o.epMissing = !found
			b := c16Buffers()
			if err := p.Exec(b, hlslx.Opts{Opts: xrt.Opts{EntryPoint: name}}); err != nil {
				o.execErr = err.Error()
				var u *xrt.Unsupported
				o.unsupported = errors.As(err, &u)
			}
			o.out = b[xrt.Binding{Group: 0, Binding: 0}]
			return
		}},
		{"msl", func(m *ir.Module, ep string) (o c16Obs) {
			opts := msl.DefaultOptions()
			slot0, slot1, sb := uint8(0), uint8(1), uint8(30)
			opts.PerEntryPointMap = map[string]msl.EntryPointResources{ep: {Resources: map[ir.ResourceBinding]msl.BindTarget{
				{Group: 0, Binding: 0}: {Buffer: &slot0, Mutable: true}, {Group: 0, Binding: 1}: {Buffer: &slot1}}, SizesBuffer: &sb}}
			src, info, err, pn := nagax.MSL(m, opts)
			if pn != nil || err != nil {
				o.compileErr = errStr(err, pn)
				return
			}
			p, err := mslx.Parse(src)
			if err != nil {
				o.malformed = err.Error()
				return
			}
			o.problems = p.Problems()
			name := info.EntryPointNames[ep]
			found := false
			for _, k := range p.Kernels() {
				if k.Name == name {
					found = true
				}
			}
			o.epMissing = !found
			b := c16Buffers()
			err = p.Exec(b, mslx.Opts{Opts: xrt.Opts{EntryPoint: name}, BufferSlots: map[int]xrt.Binding{0: {Group: 0, Binding: 0}, 1: {Group: 0, Binding: 1}},
				SizesOrder: []xrt.Binding{{Group: 0, Binding: 0}}, WorkgroupSize: [3]uint32{1, 1, 1}})
			if err != nil {
				o.execErr = err.Error()
				var u *xrt.Unsupported
				o.unsupported = errors.As(err, &u)
			}
			o.out = b[xrt.Binding{Group: 0, Binding: 0}]
			return
		}},
		{"glsl", func(m *ir.Module, ep string) (o c16Obs) {
			g := glsl.DefaultOptions()
			g.LangVersion = glsl.Version450
			g.EntryPoint = ep
			src, _, err, pn := nagax.GLSL(m, g)
			if pn != nil || err != nil {
				o.compileErr = errStr(err, pn)
				return
			}
			p, err := glslx.Parse(src)
			if err != nil {
				o.malformed = err.Error()
				return
			}
			o.problems = p.Problems()
			b := c16Buffers()
			if err := p.Exec(b, glslx.Opts{}); err != nil {
				o.execErr = err.Error()
				var u *xrt.Unsupported
				o.unsupported = errors.As(err, &u)
			}
			o.out = b[xrt.Binding{Group: 0, Binding: 0}]
			return
		}},
	}
}

// problemClass strips the concrete identifier from a Problems() entry.
func problemClass(p string) string {
	if i := strings.Index(p, ":"); i > 0 {
		return p[:i]
	}
	return errClass(p)
}

func c16Check(r *explore.Run, names map[string]string, label string, base map[string]c16Obs, posTag string) {
	src := c16Source(names)
	m, _, err, pn := nagax.Front(src)
	if pn != nil {
		r.Skip("naga panic (C10)")
		return
	}
	if err != nil {
		r.Skip("name rejected by the WGSL front end (reserved word or invalid identifier)")
		return
	}
	for _, be := range c16Backends() {
		r.Count("evaluations", 1)
		o := be.run(m, names["EP"])
		b := base[be.name]
		rp := map[string]any{"names": names, "backend": be.name, "src": src}
		fail := func(class, detail string) {
			r.Violate(explore.Violation{Key: "C16|" + be.name + "|" + posTag + "|" + class + "|" + label,
				Detail: fmt.Sprintf("%s output for identifier %s at %s: %s", be.name, label, posTag, detail), Replay: rp})
		}
		switch {
		case o.compileErr != "":
			fail("backend-error", o.compileErr)
			continue
		case o.malformed != "":
			fail("not-well-formed", trunc(o.malformed, 200))
			continue
		}
		baseProblems := map[string]bool{}
		for _, p := range b.problems {
			baseProblems[p] = true
		}
		var newp []string
		for _, p := range o.problems {
			if baseProblems[p] {
				continue
			}
			lp := strings.ToLower(p)
			switch {
			case strings.Contains(lp, "duplicate") || strings.Contains(lp, "same spelling"):
				newp = append(newp, p) // two declarations with one spelling in one scope
			case strings.Contains(lp, "keyword") || strings.Contains(lp, "reserved word") || strings.Contains(lp, "predeclared") || strings.Contains(lp, "gl_"):
				if m := quoted.FindStringSubmatch(p); m != nil && certainKeyword(be.name, m[1]) {
					newp = append(newp, p)
				}
			case strings.Contains(lp, "hides") || strings.Contains(lp, "intrinsic") || strings.Contains(lp, "builtin"):
				newp = append(newp, p) // a user declaration captures a builtin that the text calls
			}
		}
		if len(newp) > 0 {
			sort.Strings(newp)
			fail("identifier-problem:"+problemClass(newp[0]), strings.Join(newp, "; "))
			continue
		}
		if o.epMissing {
			fail("entry-point-name-not-in-output", "the reported entry-point name does not name a function in the text")
			continue
		}
		if o.unsupported {
			r.Skip("interpreter: unsupported construct")
			continue
		}
		if o.execErr != "" {
			fail("exec:"+errClass(o.execErr), o.execErr)
			continue
		}
		if !bytes.Equal(o.out, b.out) {
			fail("different-result", fmt.Sprintf("result %x differs from the result with neutral names %x (a reference resolves to another entity)", o.out, b.out))
		}
	}
}

func runC16() int {
	r := explore.New("C16")
	// baseline with neutral names
	base := map[string]c16Obs{}
	m0, _, err, pn := nagax.Front(c16Source(c16Neutral))
	if err != nil || pn != nil {
		fmt.Println("HARNESS-ERROR: neutral C16 seed rejected:", err, pn)
		return 2
	}
	for _, be := range c16Backends() {
		o := be.run(m0, c16Neutral["EP"])
		if o.compileErr != "" || o.malformed != "" || o.execErr != "" {
			fmt.Println("HARNESS-ERROR: neutral C16 seed fails for", be.name, ":", o.compileErr, o.malformed, o.execErr)
			return 2
		}
		base[be.name] = o
	}
	set := map[string]bool{}
	var names []string
	add := func(l []string) {
		for _, n := range l {
			if !set[n] && n != "" {
				set[n] = true
				names = append(names, n)
			}
		}
	}
	add(c16NagaPatterns)
	add(hlslx.Keywords())
	add(mslx.Keywords())
	add(glslx.Keywords())
	// case and suffix variants of a keyword sample
	var variants []string
	for i, n := range names {
		if i%9 == 0 && len(n) > 1 {
			variants = append(variants, strings.ToUpper(n), strings.ToUpper(n[:1])+n[1:], n+"_", n+"1", "_"+n)
		}
	}
	add(variants)
	// WGSL lets a user declaration shadow a builtin function: names of the builtins the seed itself
	// calls would change the meaning of the WGSL program and are therefore not candidate names.
	seedBuiltins := wordSet("abs min max clamp select dot floor sqrt length countOneBits firstLeadingBit workgroupBarrier u32 i32 f32 vec2 vec3 vec4 array")
	// WGSL builtin function names double as target-language builtin names; whether a user function
	// of that name captures naga's own calls depends on overload/lookup rules the interpreters only
	// approximate, so they are not candidate names either (target-only builtins such as mul, lerp,
	// frac, countbits, popcount, findMSB remain). Likewise names of texture/sampler types, which the
	// interpreters parse as types.
	wgslBuiltins := wordSet("sin cos tan asin acos atan atan2 sinh cosh tanh asinh acosh atanh exp exp2 log log2 pow sqrt inverseSqrt sign ceil round fract trunc step smoothstep mix fma cross distance normalize reflect refract faceForward any all transpose determinant modf frexp ldexp saturate degrees radians reverseBits extractBits insertBits countLeadingZeros countTrailingZeros firstTrailingBit quantizeToF16 arrayLength bitcast")
	kept := names[:0]
	for _, n := range names {
		ln := strings.ToLower(n)
		if seedBuiltins[n] || wgslBuiltins[n] || strings.HasPrefix(ln, "texture") || strings.HasPrefix(ln, "depth") || strings.HasPrefix(ln, "sampler") || strings.HasPrefix(ln, "_texture") || strings.HasPrefix(ln, "_depth") || strings.HasPrefix(ln, "_sampler") {
			continue
		}
		kept = append(kept, n)
	}
	names = kept
	sort.Strings(names)
	c16ListedNames = names
	r.Extra("names", len(names))
	r.Extra("positions", len(c16Positions))
	type job struct {
		names map[string]string
		label string
		pos   string
	}
	var jobs []job
	for _, n := range names {
		for _, pos := range c16Positions {
			mm := map[string]string{}
			for k, v := range c16Neutral {
				mm[k] = v
			}
			mm[pos] = n
			jobs = append(jobs, job{mm, n, pos})
		}
	}
	// pairs from the adversarial subset at pairs of positions
	pairPositions := [][2]string{{"FN", "FN2"}, {"ST", "ST2"}, {"LVAR", "LLET"}, {"PARAM", "LVAR"}, {"PRIV", "WG"}, {"STO", "UNI"}, {"FN", "PRIV"}, {"ST", "FN"}, {"CN", "LLET"}, {"EP", "FN"}, {"MEM", "LVAR"}, {"AL", "ST"}}
	if r.Thorough() {
		pairPositions = nil
		for i := range c16Positions {
			for j := i + 1; j < len(c16Positions); j++ {
				pairPositions = append(pairPositions, [2]string{c16Positions[i], c16Positions[j]})
			}
		}
	}
	seedB := wordSet("abs min max clamp select dot floor sqrt length countOneBits firstLeadingBit")
	for ai, a := range c16Adversarial {
		for bi, b := range c16Adversarial {
			if ai == bi || seedB[a] || seedB[b] {
				continue
			}
			for _, pp := range pairPositions {
				mm := map[string]string{}
				for k, v := range c16Neutral {
					mm[k] = v
				}
				mm[pp[0]], mm[pp[1]] = a, b
				jobs = append(jobs, job{mm, a + "+" + b, pp[0] + "+" + pp[1]})
			}
		}
	}
	r.Extra("cases", len(jobs))
	if os.Getenv("C16_ONLY") != "" { // authoring aid: run only the named extension parts
		jobs = nil
	}
	r.ParallelFor(len(jobs), func(i int) {
		j := jobs[i]
		r.Distinct(j.pos)
		c16Check(r, j.names, j.label, base, j.pos)
	})
	r.Sample(map[string]any{"name": "float3", "position": "LVAR", "source": c16Source(func() map[string]string {
		mm := map[string]string{}
		for k, v := range c16Neutral {
			mm[k] = v
		}
		mm["LVAR"] = "float3"
		return mm
	}())})
	if rc := c16RunExtensions(r); rc != 0 {
		return rc
	}
	printKeys(r)
	return r.Finish("(1) fixed lists: a fixed executable seed with one entity of every kind (2 structs sharing a member name, alias, const, private/workgroup/storage/uniform globals, 2 functions, parameter, local var, let, entry point) x every name from the union of independent HLSL, MSL/C++14 and GLSL reserved-word/builtin lists, naga helper/temporary patterns, case/suffix variants and non-ASCII identifiers, at every one of 15 positions; plus ordered pairs from a 48-name adversarial subset at pairs of positions (all position pairs in the thorough tier). "+
		"(2) self-collision closure, per seed (stages: vertex + 2 fragment + compute entry points with IO structs, bare parameters, builtins, texture+sampler, uniform/storage/private globals; vin: vertex entry point with a struct input; helpers: matCx2 in uniform, runtime array behind an atomic, struct/array constructors, signed div/mod, workgroup array and atomic, for loop, pointer parameter, atomic compare-exchange, modf/frexp, names differing only in case): every spelling DECLARED in the text emitted under neutral names by any backend that is not a user name (read by an independent declaration reader, nothing matched by pattern) x every user entity of the seed; then every spelling that is new in such an output x every other entity while the first renaming stays (quick: parents restricted to one entity per entity kind x one spelling per character-shape class; thorough: all parents, and a third level from per-kind parents). "+
		"(3) identifier character structure: every WGSL identifier of at most 4 (thorough 5) symbols over {a A _ 1 e-acute alpha CJK math-bold-x} at a local, a private global and a struct member, then the spelling it was emitted with at a second entity of the same scope; every ordered pair of identifiers of at most 3 symbols that agree after case folding and underscore merging (at most 2, thorough 3, symbols: also after replacing or dropping non-ASCII characters) as two locals / two globals / two members; every name of the fixed lists at the same three positions followed by its emitted spelling at the sibling. "+
		"Oracle per emitted text (HLSL and MSL module, GLSL per entry point, all stages): the backend succeeds; an independent scope-resolving reader of the C-family text finds no two declarations of one spelling in one scope, no declared spelling that is a keyword / contains a non-ASCII character / is reserved (GLSL: __ anywhere, gl_ prefix; MSL: __ anywhere, _ + capital) beyond those already present under neutral names; every identifier reference resolves to the declaration in the same position as under neutral names (alpha-comparison of the two texts, member accesses matched against the renamed member declarations); the reported entry-point name names a function of the text; where the dialect interpreter can read the text it reports no new identifier problem and executing every compute entry point gives the same buffers as under neutral names. distinct = (seed, entity tuple) classes exercised",
		[]string{"reserved-word lists are the interpreters' own (written from the language specifications); names the WGSL front end rejects are skipped",
			"identifier problems already present with neutral names (naga's own __-prefixed temporaries) are not attributed to the user name",
			"a candidate spelling equal to a word of the seed text itself (WGSL keywords, builtin and attribute names, swizzles) is skipped: it could change the meaning of the WGSL program",
			"hiding of an outer declaration by an inner one is a violation only when some reference is captured by it (judged by the alpha-comparison); texts that differ from the neutral text in more than spelling are not alpha-compared (counted)",
			"vertex/fragment texts and texts with textures are judged by the declaration reader only (the dialect interpreters execute compute entry points)"})
}
