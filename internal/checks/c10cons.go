package checks

import (
	"fmt"
	"strings"
)

// ---------------------------------------------------------------- C10 generator "constructs"
// Exhaustive single-construct sweeps of semantically invalid but well-formed programs; each program
// holds exactly one instance of the construct, so an error (or crash) on it is not masked by another.
//
//  (1) swizzles: every letter string of length 1..5 over each namespace (xyzw, rgba), the length-6
//      strings that repeat one letter or cycle the namespace, and namespace-mixing strings, on every
//      vector width 2..4 and every base-expression kind (let value, var reference, pointer dereference,
//      pointer member access, private global, uniform buffer, struct member, call result, constructor,
//      store target).
//  (2) builtin calls: every builtin function name x leading-argument pattern (none, texture, texture +
//      sampler, depth texture + comparison sampler, storage texture, pointer to atomic / workgroup
//      variable / runtime array, matrix, struct) x 0..N further arguments of one kind (i32, f32, u32,
//      bool, vec4<f32>, vec2<i32>, texture, pointer to atomic), as a value and as a statement; thorough: also (up to 2 further arguments) as both operands of a binary operator.

var c10SwizzleBases = []struct{ name, decl, body string }{
	{"let", "", "let v = vecW<f32>(1.0); let r = v.S;"},
	{"var", "", "var v = vecW<f32>(1.0); let r = v.S;"},
	{"ptr-deref", "", "var v = vecW<f32>(1.0); let p = &v; let r = (*p).S;"},
	{"ptr-member", "", "var v = vecW<f32>(1.0); let p = &v; let r = p.S;"},
	{"private", "var<private> g: vecW<f32>;", "let r = g.S;"},
	{"uniform", "@group(0) @binding(1) var<uniform> u: vecW<i32>;", "let r = u.S;"},
	{"struct-member", "struct T { m: vecW<u32> }", "var s: T; let r = s.m.S;"},
	{"call-result", "fn mk() -> vecW<f32> { return vecW<f32>(2.0); }", "let r = mk().S;"},
	{"constructor", "", "let r = vecW<bool>(true).S;"},
	{"store-target", "", "var v = vecW<f32>(1.0); v.S = v.S;"},
}

func c10SwizzleStrings(thorough bool) []string {
	var out []string
	maxFull := 5
	if thorough {
		maxFull = 6
	}
	for _, ns := range []string{"xyzw", "rgba"} {
		for l := 1; l <= maxFull; l++ {
			n := 1
			for i := 0; i < l; i++ {
				n *= 4
			}
			for k := 0; k < n; k++ {
				b := make([]byte, l)
				x := k
				for i := 0; i < l; i++ {
					b[i] = ns[x%4]
					x /= 4
				}
				out = append(out, string(b))
			}
		}
		for l := maxFull + 1; l <= 8; l++ { // longer: one repeated letter, and the namespace cycled
			for c := 0; c < 4; c++ {
				out = append(out, strings.Repeat(string(ns[c]), l))
			}
			cyc := make([]byte, l)
			for i := range cyc {
				cyc[i] = ns[i%4]
			}
			out = append(out, string(cyc))
		}
	}
	// namespace mixing and letters of neither namespace
	for l := 2; l <= 6; l++ {
		a, b := make([]byte, l), make([]byte, l)
		for i := 0; i < l; i++ {
			a[i] = "xg"[i%2]
			b[i] = "rxyzwa"[i%6]
		}
		out = append(out, string(a), string(b), strings.Repeat("x", l-1)+"q", strings.Repeat("s", l), "X"+strings.Repeat("y", l-1))
	}
	return out
}

var c10BuiltinNames = strings.Fields(`abs acos acosh all any arrayLength asin asinh atan atan2 atanh ceil clamp cos cosh countLeadingZeros countOneBits
countTrailingZeros cross degrees determinant distance dot dot4I8Packed dot4U8Packed exp exp2 extractBits faceForward firstLeadingBit firstTrailingBit
floor fma fract frexp insertBits inverseSqrt ldexp length log log2 max min mix modf normalize pow quantizeToF16 radians reflect refract reverseBits round
saturate sign sin sinh smoothstep sqrt step tan tanh transpose trunc select bitcast
dpdx dpdxCoarse dpdxFine dpdy dpdyCoarse dpdyFine fwidth fwidthCoarse fwidthFine
textureDimensions textureGather textureGatherCompare textureLoad textureNumLayers textureNumLevels textureNumSamples textureSample textureSampleBias
textureSampleCompare textureSampleCompareLevel textureSampleGrad textureSampleLevel textureSampleBaseClampToEdge textureStore
atomicLoad atomicStore atomicAdd atomicSub atomicMax atomicMin atomicAnd atomicOr atomicXor atomicExchange atomicCompareExchangeWeak
pack4x8snorm pack4x8unorm pack4xI8 pack4xU8 pack4xI8Clamp pack4xU8Clamp pack2x16snorm pack2x16unorm pack2x16float
unpack4x8snorm unpack4x8unorm unpack4xI8 unpack4xU8 unpack2x16snorm unpack2x16unorm unpack2x16float
storageBarrier textureBarrier workgroupBarrier workgroupUniformLoad
subgroupAdd subgroupExclusiveAdd subgroupInclusiveAdd subgroupAll subgroupAnd subgroupAny subgroupBallot subgroupBroadcast subgroupBroadcastFirst
subgroupElect subgroupMax subgroupMin subgroupMul subgroupExclusiveMul subgroupInclusiveMul subgroupOr subgroupShuffle subgroupShuffleDown
subgroupShuffleUp subgroupShuffleXor subgroupXor subgroupBarrier quadBroadcast quadSwapDiagonal quadSwapX quadSwapY
rayQueryInitialize rayQueryProceed rayQueryGetCommittedIntersection rayQueryGetCandidateIntersection rayQueryTerminate
i32 u32 f32 bool f16 vec2 vec3 vec4 vec2f vec3i vec4u mat2x2 mat3x3 mat4x4 mat2x3 mat4x2 mat2x2f array
vec2<f32> vec3<i32> vec4<u32> vec2<bool> mat2x2<f32> mat3x4<f32> array<i32,2> array<f32> bitcast<f32> bitcast<vec2<u32>> bitcast<i32> atomic<u32> ptr<function,i32> texture_2d<f32> sampler
T user0 user2 nope`)

const c10BuiltinPrelude = `struct T { a: i32, b: vec2<f32> }
@group(0) @binding(0) var t: texture_2d<f32>;
@group(0) @binding(1) var s: sampler;
@group(0) @binding(2) var d: texture_depth_2d;
@group(0) @binding(3) var c: sampler_comparison;
@group(0) @binding(4) var st: texture_storage_2d<rgba8unorm, write>;
@group(0) @binding(5) var<storage, read_write> ra: array<u32>;
@group(0) @binding(6) var<storage, read_write> a: atomic<u32>;
var<workgroup> w: u32;
fn user0() -> i32 { return 1; }
fn user2(x: i32, y: f32) -> i32 { return x; }
`

var c10ArgLeads = []struct {
	name string
	args []string
}{
	{"none", nil}, {"tex", []string{"t"}}, {"tex+sampler", []string{"t", "s"}}, {"depth+cmp", []string{"d", "c"}}, {"storage-tex", []string{"st"}},
	{"ptr-atomic", []string{"&a"}}, {"ptr-workgroup", []string{"&w"}}, {"ptr-runtime-array", []string{"&ra"}}, {"matrix", []string{"m"}}, {"struct", []string{"sv"}},
}

var c10ArgKinds = []struct{ name, text string }{
	{"i32", "1"}, {"f32", "1.5"}, {"u32", "1u"}, {"bool", "true"}, {"vec4f", "vf"}, {"vec2i", "vi"}, {"tex", "t"}, {"ptr-atomic", "&a"},
}

func genConstructs(thorough bool) c10Gen {
	type cs struct {
		kind       byte // 's' swizzle, 'b' builtin call
		a, b, c, d int32
		e          int8
	}
	var cases []cs
	sw := c10SwizzleStrings(thorough)
	for si := range sw {
		for w := 2; w <= 4; w++ {
			for bi := range c10SwizzleBases {
				cases = append(cases, cs{kind: 's', a: int32(si), b: int32(w), c: int32(bi)})
			}
		}
	}
	maxMore := 4
	if thorough {
		maxMore = 6
	}
	for ni := range c10BuiltinNames {
		for li := range c10ArgLeads {
			for more := 0; more <= maxMore; more++ {
				for ki := range c10ArgKinds {
					if more == 0 && ki > 0 {
						break
					}
					for form := 0; form < 3; form++ {
						if form == 2 && (more > 2 || !thorough) {
							continue
						}
						cases = append(cases, cs{kind: 'b', a: int32(ni), b: int32(li), c: int32(more), d: int32(ki), e: int8(form)})
					}
				}
			}
		}
	}
	render := func(c cs) string {
		switch c.kind {
		case 's':
			b := c10SwizzleBases[c.c]
			r := strings.NewReplacer("vecW", fmt.Sprintf("vec%d", c.b), ".S", "."+sw[c.a])
			src := ""
			if b.decl != "" {
				src = r.Replace(b.decl) + "\n"
			}
			return src + "@compute @workgroup_size(1) fn main() { " + r.Replace(b.body) + " }\n"
		default:
			args := append([]string{}, c10ArgLeads[c.b].args...)
			for i := 0; i < int(c.c); i++ {
				args = append(args, c10ArgKinds[c.d].text)
			}
			call := c10BuiltinNames[c.a] + "(" + strings.Join(args, ", ") + ")"
			switch c.e {
			case 0:
				call = "let r = " + call + ";"
			case 1:
				call += ";"
			default:
				call = "let r = " + call + " == " + call + ";"
			}
			return c10BuiltinPrelude + "fn h(vf: vec4<f32>, vi: vec2<i32>) { var m = mat2x2<f32>(); var sv: T; " + call + " }\n@compute @workgroup_size(1) fn main() { h(vec4<f32>(1.0), vec2<i32>(1)); }\n"
		}
	}
	return c10Gen{Name: "constructs", Count: len(cases),
		At: func(i int) string { return render(cases[i]) },
		Label: func(i int) string {
			c := cases[i]
			if c.kind == 's' {
				return fmt.Sprintf("swizzle .%s on vec%d (%s)", sw[c.a], c.b, c10SwizzleBases[c.c].name)
			}
			return fmt.Sprintf("call %s(%s + %d x %s) %s", c10BuiltinNames[c.a], c10ArgLeads[c.b].name, c.c, c10ArgKinds[c.d].name, []string{"as value", "as statement", "as operand"}[c.e])
		}}
}
