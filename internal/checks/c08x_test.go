package checks

import (
	"os"
	"sort"
	"testing"

	"verif/internal/nagax"
	"verif/internal/wgen"
	"verif/internal/wref"
)

// Every F8 program must be executable by the reference evaluator without error or undefined behaviour;
// with F8_FRONT=1 (authoring aid) the front-end verdicts are summarised by error class.
func TestF8Reference(t *testing.T) {
	front := os.Getenv("F8_FRONT") != ""
	fams := []*wgen.Family{wgen.F8Order(false), wgen.F8Shadow(), wgen.F8Hosts()}
	if front {
		fams = []*wgen.Family{f8Guarded("F8o"), f8Guarded("F8s"), f8Guarded("F8h")} // programs that crash the compiler are screened out
	}
	for _, f := range fams {
		classes := map[string][]string{}
		for i := 0; i < f.Count; i++ {
			c := f.At(i)
			b := c.Bufs.Clone()
			if c.NoExec {
			} else if err := wref.Exec(c.Mod, "", b, c.Groups, wref.Config{}); err != nil {
				t.Errorf("%s: reference: %v\n%s", c.Sig, err, wgen.Print(c.Mod))
				break
			}
			if front {
				if _, st, err, pn := nagax.Front(wgen.Print(c.Mod)); err != nil || pn != nil {
					k := st + ": "
					if err != nil {
						k += errClass(err.Error())
					} else {
						k += "panic " + pn.Value
					}
					classes[k] = append(classes[k], c.Sig)
					if len(classes[k]) == 1 {
						t.Logf("first of class %q:\n%s", k, wgen.Print(c.Mod))
					}
				}
			}
		}
		var ks []string
		for k := range classes {
			ks = append(ks, k)
		}
		sort.Strings(ks)
		for _, k := range ks {
			n := len(classes[k])
			show := classes[k]
			if n > 60 {
				show = show[:60]
			}
			t.Logf("FRONT %4d x %s\n      %v", n, k, show)
		}
		t.Logf("%s: %d programs", f.Name, f.Count)
	}
}
