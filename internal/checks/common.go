// Package checks holds one function per property; each returns the process exit code.
package checks

import (
	"encoding/json"
	"fmt"
	"os"
	"path/filepath"
	"regexp"
	"sort"
	"strings"

	"verif/internal/explore"
	"verif/internal/wgen"
)

var Registry = map[string]func() int{}

// Worker dispatches isolated worker subprocesses (C10).
func Worker(args []string) int {
	if len(args) > 0 && args[0] == "c10" {
		return c10Worker(args[1:])
	}
	return 2
}

var digits = regexp.MustCompile(`[0-9]+`)
var hexaddr = regexp.MustCompile(`0x[0-9a-fA-F]+`)

// errClass normalises an error message into a stable class.
func errClass(msg string) string {
	msg = hexaddr.ReplaceAllString(msg, "0x#")
	msg = digits.ReplaceAllString(msg, "#")
	msg = strings.Join(strings.Fields(msg), " ")
	if len(msg) > 140 {
		msg = msg[:140]
	}
	return msg
}

// sigClass reduces a case signature to the construct class used in violation keys.
func sigClass(sig string) string {
	p := strings.Split(sig, "/")
	switch p[0] {
	case "F1":
		return strings.Join(p[:len(p)-1], "/") // drop operand source
	case "F2", "F2L":
		return p[0] + "/" + p[1]
	case "F4c":
		return p[0] + "/" + p[1] // composition signature without operand source
	case "F1lit":
		return sig
	case "F13s":
		return p[0] + "/" + p[1] // wrapping; the op sequence is in the detail
	case "F8x":
		if len(p) >= 3 {
			return p[0] + "/" + p[1] + "/" + p[2] // the kinds of the first two bindings
		}
	case "F5reach":
		// entry-point/helper counts, declaration order and the set of touched global kinds
		if len(p) >= 6 {
			kinds := ""
			for _, k := range []string{"S", "P", "W", "U", "Q"} {
				if strings.Contains(p[5], k+"@") {
					kinds += k
				}
			}
			if kinds == "" {
				kinds = "-"
			}
			return strings.Join(p[:3], "/") + "/t=" + kinds
		}
	case "F5":
		if len(p) >= 3 {
			return p[0] + "/" + p[1] + "/" + p[2]
		}
	case "F15ops":
		return strings.Join(p[:len(p)-1], "/")
	case "F3":
		return shapeClass(sig)
	case "F4acc":
		return strings.Join(p[:3], "/") // form without index type / value
	case "F4idx", "F15idx":
		if len(p) >= 4 {
			return strings.Join(p[:4], "/") // family/op/space/object, without index type / value
		}
	}
	return sig
}

// corpus returns the repository's snapshot inputs (name -> source), sorted by name.
func corpus() []wgen.Micro {
	dir := repoDir() + "/snapshot/testdata/in"
	ents, _ := os.ReadDir(dir)
	var out []wgen.Micro
	for _, e := range ents {
		if strings.HasSuffix(e.Name(), ".wgsl") {
			b, err := os.ReadFile(filepath.Join(dir, e.Name()))
			if err == nil {
				out = append(out, wgen.Micro{Name: "corpus/" + strings.TrimSuffix(e.Name(), ".wgsl"), Src: string(b)})
			}
		}
	}
	sort.Slice(out, func(i, j int) bool { return out[i].Name < out[j].Name })
	return out
}

func repoDir() string {
	if d := os.Getenv("VERIF_REPO"); d != "" {
		return d
	}
	return "/repo"
}

func printKeys(r *explore.Run) {
	if os.Getenv("VERIF_PRINT_KEYS") == "" {
		return
	}
	ks := r.ViolationKeys()
	var names []string
	for k := range ks {
		names = append(names, k)
	}
	sort.Strings(names)
	for _, k := range names {
		fmt.Printf("KEY %6d  %s\n", ks[k], k)
	}
}

// validExtra: further families of valid programs contributed by other files of this package (appended in
// init functions); they are presented to every check that consumes quickFamilies (C02, C08, C09 and the
// semantic checks C01/C03/C04/C05).
var validExtra []func(thorough bool) *wgen.Family

// extraFamilyByName: replay support for contributed families (name -> constructor).
var extraFamilyByName = map[string]func() *wgen.Family{}

// families used by most program-space checks.
func quickFamilies(r *explore.Run) []*wgen.Family {
	fams := baseFamilies(r)
	for _, f := range validExtra {
		fams = append(fams, f(r.Thorough()))
	}
	return fams
}

func baseFamilies(r *explore.Run) []*wgen.Family {
	if r.Thorough() {
		return []*wgen.Family{wgen.F1(), wgen.F2(3, false), wgen.F2(5, true), wgen.F2L(3, false), wgen.F2L(4, true), wgen.F4c(true), wgen.F2Mini(5, 3), wgen.F2Mini(4, 4), wgen.F1lit(), wgen.F8x()}
	}
	return []*wgen.Family{wgen.F1(), wgen.F2(2, false), wgen.F2(4, true), wgen.F2L(2, false), wgen.F2L(3, true), wgen.F4c(false), wgen.F2Mini(4, 3), wgen.F2Mini(3, 4), wgen.F1lit(), wgen.F8x()}
}

// prog is one program presented to a per-program check.
type prog struct {
	Sig  string
	Src  string
	Case *wgen.Case // nil for text-only programs (micros, corpus)
}

func (p *prog) replay() map[string]any {
	m := map[string]any{"sig": p.Sig, "src": p.Src}
	if p.Case != nil {
		m["family"] = p.Case.Family
		m["index"] = p.Case.Index
	}
	return m
}

// perProgram: property -> function checking one program (used by run and by replay).
var perProgram = map[string]func(r *explore.Run, p *prog){}

func familyByName(name string) *wgen.Family {
	if f := extraFamilyByName[name]; f != nil {
		return f()
	}
	if name == "F1" {
		return wgen.F1()
	}
	switch name {
	case "F6c":
		return wgen.F6c()
	case "F4acc":
		return wgen.F4Access()
	case "F15ops":
		return wgen.F15Ops()
	case "F15acc":
		return wgen.F15Access()
	case "F15zero":
		return wgen.F15Zero()
	case "F4idx":
		return wgen.F4Idx()
	case "F1lit":
		return wgen.F1lit()
	case "F8x":
		return wgen.F8x()
	case "F4c":
		return wgen.F4c(false)
	case "F4call":
		return wgen.F4c(true)
	case "F15idx":
		return wgen.F15Idx()
	}
	if name == "F3" || name == "F3t" {
		return wgen.F3(name == "F3t")
	}
	var k int
	var mini int
	if n, _ := fmt.Sscanf(name, "F2Lm%dk%d", &mini, &k); n == 2 {
		return wgen.F2LMini(k, mini)
	}
	if n, _ := fmt.Sscanf(name, "F13sd%d", &k); n == 1 {
		return wgen.F13s(k)
	}
	if n, _ := fmt.Sscanf(name, "F2m%dk%d", &mini, &k); n == 2 {
		return wgen.F2Mini(k, mini)
	}
	if n, _ := fmt.Sscanf(name, "F2Lk%d", &k); n == 1 {
		return wgen.F2L(k, strings.HasSuffix(name, "core"))
	}
	if n, _ := fmt.Sscanf(name, "F2k%d", &k); n == 1 {
		return wgen.F2(k, strings.HasSuffix(name, "core"))
	}
	return nil
}

// forEachProgram enumerates families (+ optional text programs) in parallel.
func forEachProgram(r *explore.Run, fams []*wgen.Family, texts []wgen.Micro, fn func(p *prog)) {
	for _, f := range fams {
		f := f
		r.Count("programs", int64(f.Count))
		r.Extra("family_"+f.Name, f.Count)
		r.ParallelFor(f.Count, func(i int) {
			c := f.At(i)
			fn(&prog{Sig: c.Sig, Src: wgen.Print(c.Mod), Case: c})
		})
	}
	r.Count("programs", int64(len(texts)))
	r.ParallelFor(len(texts), func(i int) {
		fn(&prog{Sig: texts[i].Name, Src: texts[i].Src})
	})
}

// Replay re-runs the case stored in a replay file five times and reports whether it reproduces.
func Replay(path string) int {
	b, err := os.ReadFile(path)
	if err != nil {
		fmt.Println("HARNESS-ERROR:", err)
		return 2
	}
	var rep struct {
		Property string         `json:"property"`
		Key      string         `json:"key"`
		Replay   map[string]any `json:"replay"`
	}
	if err := json.Unmarshal(b, &rep); err != nil {
		fmt.Println("HARNESS-ERROR:", err)
		return 2
	}
	fn := perProgram[rep.Property]
	if fn == nil {
		fmt.Println("replay: property", rep.Property, "has no per-program replay; the replay object holds the full case")
		return 2
	}
	p := &prog{}
	p.Sig, _ = rep.Replay["sig"].(string)
	p.Src, _ = rep.Replay["src"].(string)
	if fam, ok := rep.Replay["family"].(string); ok {
		if f := familyByName(fam); f != nil {
			idx, _ := rep.Replay["index"].(float64)
			p.Case = f.At(int(idx))
			p.Src = wgen.Print(p.Case.Mod)
		}
	}
	var first []string
	for i := 0; i < 5; i++ {
		r := explore.New(rep.Property)
		fn(r, p)
		var ks []string
		for k := range r.ViolationKeys() {
			ks = append(ks, k)
		}
		sort.Strings(ks)
		if i == 0 {
			first = ks
		} else if strings.Join(ks, "\n") != strings.Join(first, "\n") {
			fmt.Println("HARNESS-ERROR: replay is not deterministic")
			return 2
		}
	}
	for _, k := range first {
		fmt.Println("reproduced:", k)
	}
	for _, k := range first {
		if k == rep.Key {
			fmt.Printf("VIOLATION property=%s replay=%s\n", rep.Property, path)
			return 1
		}
	}
	fmt.Println("recorded violation does not reproduce on the current tree")
	return 0
}
