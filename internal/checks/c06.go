package checks

import (
	"encoding/binary"
	"fmt"
	"os"
	"strings"

	"github.com/gogpu/naga"
	"github.com/gogpu/naga/ir"
	"github.com/gogpu/naga/spirv"

	"verif/internal/explore"
	"verif/internal/irx"
	"verif/internal/nagax"
	"verif/internal/spv"
	"verif/internal/wgen"
	"verif/internal/wref"
	"verif/internal/xrt"
)

func init() {
	Registry["C06"] = runC06
	perProgram["C06"] = func(r *explore.Run, p *prog) { c06Value(r, p) }
}

// c06Value: a literal program in a value context; the compiled constant program must produce what
// the reference evaluator computes for the same expression.
func c06Value(r *explore.Run, p *prog) {
	c := p.Case
	if c == nil {
		return
	}
	parts := strings.Split(p.Sig, "/")
	ctx := parts[len(parts)-2] + "/" + parts[len(parts)-1]
	sc := strings.Join(parts[1:len(parts)-2], "/")
	full := sc
	sc = opClass(sc)
	_ = full
	ref, err := runRef(c, wref.Config{})
	if err != nil || ref.undef != "" {
		r.Skip("reference cannot evaluate")
		return
	}
	r.Count("evaluations", 1)
	fail := func(class, detail string) {
		r.Violate(explore.Violation{Key: "C06|" + ctx + "|" + sc + "|" + class, Detail: fmt.Sprintf("compile-time evaluation of %s in context %s: %s", sc, ctx, detail), Replay: p.replay()})
	}
	m, stage, ferr, pn := nagax.Front(p.Src)
	if pn != nil {
		r.Skip("naga panic (C10)")
		return
	}
	if ferr != nil {
		fail("rejected:"+errClass(ferr.Error()), "valid constant expressions rejected at "+stage+": "+ferr.Error())
		return
	}
	// observer 1: the IR interpreter on the lowered module
	b1 := c.Bufs.Clone()
	if e := irx.Exec(m, b1, xrt.Opts{NumWorkgroups: c.Groups}); e == nil {
		if d := compareBufs(c, ref.bufs, b1); d != "" {
			fail("wrong-value(ir)", "the lowered module holds a different value: "+d)
			return
		}
	}
	// observer 2: the SPIR-V binary executed
	bin, e2, pn2 := nagax.SPIRV(m, spirv.DefaultOptions())
	if pn2 != nil || e2 != nil {
		r.Skip("spirv backend error (C08)")
		return
	}
	mod, e3 := spv.Parse(bin)
	if e3 != nil {
		return
	}
	b2 := c.Bufs.Clone()
	if e := spv.Exec(mod, b2, xrt.Opts{NumWorkgroups: c.Groups, EntryPoint: "main"}); e != nil {
		if cls, skip := failClass(e); skip == "" {
			fail("exec:"+cls, e.Error())
		}
		return
	}
	if d := compareBufs(c, ref.bufs, b2); d != "" {
		fail("wrong-value", "the compiled constant differs from the run-time value: "+d)
		return
	}
	r.DistinctBytes(b2[xrt.Binding{Group: 0, Binding: 0}])
}

// c06Eval evaluates a scalar constant expression with the reference evaluator.
func c06Eval(e wgen.Expr, t *wgen.Type) (uint32, bool) {
	st := t
	var val wgen.Expr = e
	if t.S == wgen.Bool {
		st = wgen.TU32
		val = &wgen.Cons{Ty: wgen.TU32, Args: []wgen.Expr{e}}
	}
	oarr := wgen.Array(st, 0)
	m := &wgen.Module{}
	m.Globals = append(m.Globals, wgen.Global{Name: "o", Space: "storage", RW: true, Ty: oarr, Group: 0, Binding: 0})
	m.Funcs = append(m.Funcs, &wgen.Func{Name: "main", Stage: "compute", WG: [3]int{1, 0, 0}, Body: []wgen.Stmt{&wgen.Assign{LHS: wgen.Idx(wgen.V("o", oarr), wgen.LitU(0)), Op: "=", RHS: val}}})
	k := xrt.Binding{Group: 0, Binding: 0}
	b := xrt.Buffers{k: make([]byte, 4)}
	if err := wref.Exec(m, "", b, [3]uint32{1, 1, 1}, wref.Config{}); err != nil {
		return 0, false
	}
	return binary.LittleEndian.Uint32(b[k]), true
}

func litText(t *wgen.Type, bits uint32) string {
	return wgen.LitString(&wgen.Lit{Ty: t, Bits: bits})
}

func compiles(src string) (ok bool, msg string, panicked bool) {
	defer func() {
		if r := recover(); r != nil {
			panicked = true
		}
	}()
	out, err := naga.Compile(src)
	if err != nil {
		return false, err.Error(), false
	}
	return len(out) > 0, "", false
}

const c06Hdr = "@group(0) @binding(0) var<storage, read_write> o: array<u32>;\n@group(0) @binding(1) var<storage, read> inp: array<u32>;\n"

// c06Scalar: the non-value contexts for one scalar spec.
// opClass keeps the operator kind and name of a spec signature ("bin/+", "call/select", "conv", "un/-").
func opClass(sig string) string {
	p := strings.Split(sig, "/")
	switch p[0] {
	case "conv", "bitcast":
		return p[0] + "/" + p[1][:strings.IndexAny(p[1]+"<", "<")] + "<-" + strings.TrimLeft(p[len(p)-1], "vec234<")
	case "bin":
		if p[1] == "" { // the division operator splits the signature
			return "bin/div/" + shapeOf(p[len(p)-1])
		}
		return "bin/" + p[1] + "/" + shapeOf(p[len(p)-1])
	}
	if len(p) >= 3 {
		return p[0] + "/" + p[1] + "/" + shapeOf(p[2])
	}
	return sig
}

func shapeOf(t string) string {
	switch {
	case strings.HasPrefix(t, "vec"):
		return "vec"
	case strings.HasPrefix(t, "mat"):
		return "mat"
	}
	return "scalar"
}

func c06Scalar(r *explore.Run, cs wgen.ConstScalar) {
	sc := opClass(cs.Sig)
	fail := func(ctx, class, detail, src string) {
		r.Violate(explore.Violation{Key: "C06|" + ctx + "|" + sc + "|" + class, Detail: fmt.Sprintf("compile-time evaluation of %s in context %s: %s", sc, ctx, detail), Replay: map[string]any{"sig": sc, "src": src}})
	}
	tup := cs.Tup
	if len(tup) > 60 {
		var sub [][]uint32
		for i := 0; i < len(tup); i += len(tup)/60 + 1 {
			sub = append(sub, tup[i])
		}
		tup = sub
	}
	isInt := cs.Ret.S == wgen.I32 || cs.Ret.S == wgen.U32
	var asserts strings.Builder
	type item struct {
		text string
		v    uint32
	}
	var items []item
	for _, t := range tup {
		e := cs.Expr(t)
		v, ok := c06Eval(e, cs.Ret)
		if !ok {
			continue
		}
		if cs.Ret.S == wgen.F32 && isBadFloat(v) {
			continue
		}
		txt := wgen.ExprString(e)
		items = append(items, item{txt, v})
		vt := cs.Ret
		lit := litText(vt, v)
		if cs.Ret.S == wgen.Bool {
			lit = map[uint32]string{0: "false", 1: "true"}[v]
		}
		fmt.Fprintf(&asserts, "const_assert %s == (%s);\n", lit, txt)
	}
	if len(items) == 0 {
		return
	}
	// const_assert: all true assertions accepted together
	r.Count("evaluations", int64(len(items)))
	src := asserts.String() + c06Hdr + "@compute @workgroup_size(1) fn main() { o[0] = 1u; }\n"
	if ok, msg, pn := compiles(src); !pn && !ok {
		// find the first offending assertion for the report
		fail("const_assert", "rejected-true-assertion:"+errClass(msg), "a const_assert that holds under WGSL evaluation is rejected: "+trunc(msg, 200), src)
	}
	// const_assert with a wrong value must be rejected (one program per item)
	for _, it := range items {
		wrong := it.v + 1
		var lit string
		switch cs.Ret.S {
		case wgen.Bool:
			lit = map[uint32]string{0: "true", 1: "false"}[it.v]
		case wgen.F32:
			lit = litText(cs.Ret, it.v^0x00400000)
		default:
			lit = litText(cs.Ret, wrong)
		}
		s := fmt.Sprintf("const_assert %s == (%s);\n%s@compute @workgroup_size(1) fn main() { o[0] = 1u; }\n", lit, it.text, c06Hdr)
		r.Count("evaluations", 1)
		if ok, _, pn := compiles(s); !pn && ok {
			fail("const_assert", "accepted-false-assertion", fmt.Sprintf("const_assert (%s) == %s is accepted although the expression evaluates to %#x", it.text, lit, it.v), s)
			break
		}
	}
	if !isInt {
		return
	}
	signed := cs.Ret.S == wgen.I32
	for _, it := range items {
		sv := int64(it.v)
		if signed {
			sv = int64(int32(it.v))
		}
		// switch selector: the case labelled E must be taken when the selector equals the value of E
		{
			selT := "u32"
			if signed {
				selT = "i32"
			}
			s := fmt.Sprintf("%s@compute @workgroup_size(1) fn main() {\n  let x = bitcast<%s>(inp[0]);\n  switch x { case %s: { o[0] = 1u; } default: { o[0] = 2u; } }\n}\n", c06Hdr, selT, it.text)
			r.Count("evaluations", 1)
			m, _, err, pn := nagax.Front(s)
			if pn == nil && err != nil {
				fail("switch-selector", "rejected:"+errClass(err.Error()), err.Error(), s)
			} else if pn == nil {
				if bin, e2, pn2 := nagax.SPIRV(m, spirv.DefaultOptions()); e2 == nil && pn2 == nil {
					if mod, e3 := spv.Parse(bin); e3 == nil {
						in := make([]byte, 4)
						binary.LittleEndian.PutUint32(in, it.v)
						bufs := xrt.Buffers{{Group: 0, Binding: 0}: make([]byte, 4), {Group: 0, Binding: 1}: in}
						if e := spv.Exec(mod, bufs, xrt.Opts{EntryPoint: "main"}); e == nil {
							if got := binary.LittleEndian.Uint32(bufs[xrt.Binding{Group: 0, Binding: 0}]); got != 1 {
								fail("switch-selector", "wrong-case", fmt.Sprintf("case %s is not taken for selector %d (the selector constant was folded to another value)", it.text, sv), s)
							}
						}
					}
				}
			}
		}
		if sv < 1 || sv > 256 {
			continue
		}
		// array size
		{
			s := fmt.Sprintf("var<private> arr: array<u32, (%s)>;\n%s@compute @workgroup_size(1) fn main() { o[0] = arr[0]; }\n", it.text, c06Hdr)
			r.Count("evaluations", 1)
			m, _, err, pn := nagax.Front(s)
			if pn == nil && err != nil {
				fail("array-size", "rejected:"+errClass(err.Error()), err.Error(), s)
			} else if pn == nil {
				for gi := range m.GlobalVariables {
					g := &m.GlobalVariables[gi]
					if g.Name != "arr" {
						continue
					}
					if at, ok := m.Types[g.Type].Inner.(ir.ArrayType); ok {
						if at.Size.Constant == nil || int64(*at.Size.Constant) != sv {
							got := int64(-1)
							if at.Size.Constant != nil {
								got = int64(*at.Size.Constant)
							}
							fail("array-size", "wrong-value", fmt.Sprintf("array<u32, %s> has %d elements in the lowered module, WGSL evaluates the size to %d", it.text, got, sv), s)
						}
					}
				}
			}
		}
		// workgroup_size
		{
			s := fmt.Sprintf("%s@compute @workgroup_size(%s) fn main() { o[0] = 1u; }\n", c06Hdr, it.text)
			r.Count("evaluations", 1)
			m, _, err, pn := nagax.Front(s)
			if pn == nil && err != nil {
				fail("workgroup_size", "rejected:"+errClass(err.Error()), err.Error(), s)
			} else if pn == nil {
				if bin, e2, pn2 := nagax.SPIRV(m, spirv.DefaultOptions()); e2 == nil && pn2 == nil {
					if mod, e3 := spv.Parse(bin); e3 == nil {
						if ls, e := mod.LocalSize("main"); e == nil && int64(ls[0]) != sv {
							fail("workgroup_size", "wrong-value", fmt.Sprintf("@workgroup_size(%s) gives LocalSize %d, WGSL evaluates it to %d", it.text, ls[0], sv), s)
						}
					}
				}
			}
		}
	}
}

// c06MustReject: integer division / remainder by zero in every compile-time context and shape.
func c06MustReject(r *explore.Run) {
	for _, k := range []string{"i32", "u32"} {
		suf := map[string]string{"i32": "i", "u32": "u"}[k]
		for _, op := range []string{"/", "%"} {
			for w := 1; w <= 4; w++ {
				lhs, rhs := "7"+suf, "0"+suf
				ty := k
				if w > 1 {
					ty = fmt.Sprintf("vec%d<%s>", w, k)
					lhs = fmt.Sprintf("%s(7%s)", ty, suf)
					parts := make([]string, w)
					for i := range parts {
						parts[i] = "1" + suf
					}
					parts[w-1] = "0" + suf
					rhs = ty + "(" + strings.Join(parts, ", ") + ")"
				}
				e := lhs + " " + op + " " + rhs
				outT := "array<" + ty + ">"
				ctxs := map[string]string{
					"let":      fmt.Sprintf("@group(0) @binding(0) var<storage, read_write> o: %s;\n@compute @workgroup_size(1) fn main() { o[0] = %s; }\n", outT, e),
					"modconst": fmt.Sprintf("const c = %s;\n@group(0) @binding(0) var<storage, read_write> o: %s;\n@compute @workgroup_size(1) fn main() { o[0] = c; }\n", e, outT),
					"fnconst":  fmt.Sprintf("@group(0) @binding(0) var<storage, read_write> o: %s;\n@compute @workgroup_size(1) fn main() { const c = %s; o[0] = c; }\n", outT, e),
					"named":    fmt.Sprintf("const a = %s;\nconst b = %s;\n@group(0) @binding(0) var<storage, read_write> o: %s;\n@compute @workgroup_size(1) fn main() { o[0] = a %s b; }\n", lhs, rhs, outT, op),
				}
				for ctx, src := range ctxs {
					r.Count("evaluations", 1)
					if ok, _, pn := compiles(src); !pn && ok {
						opn := map[string]string{"/": "div", "%": "%"}[op]
						r.Violate(explore.Violation{Key: "C06|" + ctx + "|bin/" + opn + "/" + shapeOf(ty) + "/" + k + "|accepted-division-by-zero",
							Detail: fmt.Sprintf("the constant expression %s (context %s) is a shader-creation error in WGSL but compiles", e, ctx), Replay: map[string]any{"src": src}})
					}
				}
			}
		}
	}
}

// c06Syntax: two spellings of compile-time contexts that WGSL allows and that the other checks avoid
// so that a parser defect does not mask the evaluator.
func c06Syntax(r *explore.Run) {
	probes := map[string]string{
		"const_assert-leading-paren": "const_assert (1i + 1i) == 2i;\n" + c06Hdr + "@compute @workgroup_size(1) fn main() { o[0] = 1u; }\n",
		"array-size-bitor-unparenthesised": "var<private> arr: array<u32, 1u | 2u>;\n" + c06Hdr + "@compute @workgroup_size(1) fn main() { o[0] = arr[0]; }\n",
	}
	for name, src := range probes {
		r.Count("evaluations", 1)
		if ok, msg, pn := compiles(src); !pn && !ok {
			r.Violate(explore.Violation{Key: "C06|syntax|" + name + "|rejected", Detail: "valid compile-time context rejected: " + trunc(msg, 200), Replay: map[string]any{"src": src}})
		}
	}
}

func runC06() int {
	r := explore.New("C06")
	only := os.Getenv("VERIF_C06_ONLY") // authoring aid: run one sub-space (no registered command sets it)
	if only != "" {
		c06xOnly(r, only)
		printKeys(r)
		return r.Finish("authoring run of sub-space "+only, nil)
	}
	c06Syntax(r)
	c06xNotRepresentable(r)
	c06xChains(r)
	c06xStructure(r)
	fam := wgen.F6c()
	r.Extra("family_F6c", fam.Count)
	r.ParallelFor(fam.Count, func(i int) {
		c := fam.At(i)
		if c == nil {
			return
		}
		c06Value(r, &prog{Sig: c.Sig, Src: wgen.Print(c.Mod), Case: c})
	})
	scal := wgen.ConstScalars()
	r.Extra("scalar_specs_nonvalue_contexts", len(scal))
	r.ParallelFor(len(scal), func(i int) { c06Scalar(r, scal[i]) })
	c06MustReject(r)
	c := fam.At(fam.Count / 3)
	if c != nil {
		r.Sample(map[string]any{"case": c.Sig, "source_prefix": trunc(wgen.Print(c.Mod), 700)})
	}
	printKeys(r)
	return r.Finish("every F1 operator/builtin/conversion/select on every operand tuple of its alphabet written as literals (suffixed; bare abstract literals with operands on which abstract and concrete arithmetic coincide; named constants) in the value contexts {folded let sub-expression, module const, function const, named constant operands}, scalar and vector/matrix shapes: the compiled constant program is executed (lowered module by the IR interpreter, SPIR-V by the SPIR-V interpreter) and must equal the reference evaluator's run-time value of the same expression. For scalar specs additionally the non-value contexts: const_assert E == v accepted for the WGSL value and rejected for another value, switch case selector (the case labelled E is taken for selector v), array size (element count in the lowered module) and @workgroup_size (LocalSize). Integer / and % by zero must be rejected in every context and shape. Values not representable in the required type (abstract literals, abstract arithmetic, named abstract constants out of range for i32/u32/f32 in 9 conversion contexts; out-of-range suffixed literals; AbstractInt overflow; f32 constant-expression overflow) must be rejected. F6c2 (chains through named constants): every type-compatible triple (op1, op2, operand position) of the scalar exactly-specified operators/builtins/conversions/bitcasts/select over i32/u32/f32/bool, in suffixed and abstract literal style, with A = op1(literals) bound by name and consumed by op2; operand tuples chosen so that A reaches every value class op1 can reach on its alphabet (0, 1, -1, negative, INT_MIN, INT_MAX, UINT_MAX, 2^31, above 2^31, fractional, large, true/false) x <= 2 (quick) / 4 (thorough) boundary valuations of op2's other operands; A placed as module const with/without explicit type, function const with/without type, let; consumer placed as statement sub-expression, module const with/without type, function const, array size, case selector, const_assert (true accepted / false rejected, module and function scope), @workgroup_size (29 layouts). F6c3 (structural folds): every constructor shape of vecN (N=2..4, all compositions of N into scalar and vector arguments x each vector argument flat / splat / zero value / inferred / converted from another element type / nested one level deeper / named constant; whole-vector splat, zero, conversion, identity, inferred), matCxR (from columns in those argument forms, from scalars, zero, identity, inferred), arrays (typed / inferred / zero; scalar, vector, array, matrix, struct elements, N<=4) and structs (incl. nested, with vector/array/matrix members) x every access form (each swizzle letter xyzw/rgba, constant index in i32/u32/abstract spelling, all 2-letter swizzles, 3-/4-letter swizzles (distinct-letter, constant and end-repeat patterns quick; all thorough), swizzle of swizzle, index of swizzle, index of index, member access and their compositions) x constructor inline or bound as module const / function const (typed and untyped) / let x the same consumer contexts (36 layouts); component values pairwise distinct boundary values. Every item is judged separately (batches are split until a whole-program failure is attributed to single items); failing items are attributed to the smallest part that fails on its own (first link, second link, computed constant in the context, named literal operand; flat-constructor access, constructor stored whole) and otherwise reported as interaction failures with exact keys. distinct = distinct constant result buffers / expected-value vectors",
		[]string{"compile-time and run-time evaluation are defined by WGSL to agree for concrete types on these alphabets; shifts are confined to counts < 32 and non-overflowing left operands, float->int conversions to in-range values",
			"f16 literals and AbstractFloat-only matrix constructors are not enumerated (documented limit)",
			"F6c2/F6c3: concrete integer arithmetic wraps in constant expressions as at run time; abstract-style chains are confined to operands (|v| <= 2^15, dyadic floats) for which abstract and concrete evaluation coincide; approximately specified operations are used only as the last link (thorough tier) with tolerance and only on their own alphabet; results that are inf/nan/subnormal and intermediates equal to -0.0 are skipped"})
}
