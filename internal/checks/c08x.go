package checks

// C08 extension: the F8 families (declaration order, shadowing, forward references from every host
// position; internal/wgen/f8*.go) are valid executable programs. They are registered as contributed
// families, so C08 requires every stage and backend to accept them, C02 / C09 inspect what is emitted for
// them, and the semantic checks (C01, C03, C04, C05) execute them against the reference evaluator.
//
// Crash screen. The program-space checks call naga in-process; a Go stack overflow or a non-terminating
// loop inside naga cannot be recovered there and would end the whole run without a verdict. Programs
// whose locals are named like the module-scope entity in their own initialiser (`let g = g * 2;`) are
// exactly the ones on which a name-resolution defect turns into unbounded recursion, so each F8 family
// is first screened in child processes (this binary re-executed with the argument `f8screen`, handled in
// init below because the dispatcher in cmd/vcheck is a shared file): every program is parsed, lowered and
// validated there (the stages that resolve names; the backends work on resolved handles and are no more
// exposed to F8 than to any other family). A program on which the child dies or
// stops making progress is replaced, in this process, by an empty placeholder and announced on stdout
// (a crash on a valid input is the business of C10, as with recovered panics); all other programs are
// checked in-process as usual, so a clean rejection of any of them is still reported as a violation.

import (
	"bufio"
	"fmt"
	"os"
	"os/exec"
	"runtime/debug"
	"sort"
	"strconv"
	"strings"
	"sync"
	"sync/atomic"
	"time"

	"verif/internal/nagax"
	"verif/internal/wgen"
)

var f8Raw = map[string]func() *wgen.Family{
	"F8o":  func() *wgen.Family { return wgen.F8Order(false) },
	"F8ot": func() *wgen.Family { return wgen.F8Order(true) },
	"F8s":  wgen.F8Shadow,
	"F8h":  wgen.F8Hosts,
}

func init() {
	if len(os.Args) >= 6 && os.Args[1] == "f8screen" {
		f8ScreenChild(os.Args[2:])
		os.Exit(0)
	}
	validExtra = append(validExtra,
		func(thorough bool) *wgen.Family {
			if thorough {
				return f8Guarded("F8ot")
			}
			return f8Guarded("F8o")
		},
		func(bool) *wgen.Family { return f8Guarded("F8s") },
		func(bool) *wgen.Family { return f8Guarded("F8h") },
	)
	for name := range f8Raw {
		name := name
		extraFamilyByName[name] = func() *wgen.Family { return f8Guarded(name) }
	}
}

// f8ScreenChild: args = family, shard, shards, start. Announces each index before touching it.
func f8ScreenChild(args []string) {
	debug.SetMaxStack(16 << 20) // the programs are tiny: deeper recursion than this is unbounded, and the default 1 GB takes long to fill
	f := f8Raw[args[0]]()
	shard, _ := strconv.Atoi(args[1])
	shards, _ := strconv.Atoi(args[2])
	start, _ := strconv.Atoi(args[3])
	for i := start; i < f.Count; i++ {
		if i%shards != shard {
			continue
		}
		fmt.Fprintf(os.Stdout, "@%d\n", i)
		src := wgen.Print(f.At(i).Mod)
		m, _, err, pn := nagax.Front(src)
		if err != nil || pn != nil {
			continue
		}
		nagax.Validate(m)
	}
	fmt.Fprintln(os.Stdout, "done")
}

const f8ScreenShards = 8
const f8ScreenStall = 30 * time.Second // no progress on one program for this long: treated as a hang

// f8Screen returns the indices of the family on which a child process died or hung, with the reason.
func f8Screen(name string, count int) map[int]string {
	bad := map[int]string{}
	exe, err := os.Executable()
	if err != nil || os.Getenv("VERIF_F8_NOSCREEN") != "" {
		return bad
	}
	var mu sync.Mutex
	var wg sync.WaitGroup
	for s := 0; s < f8ScreenShards; s++ {
		wg.Add(1)
		go func(s int) {
			defer wg.Done()
			start := 0
			for start < count {
				cmd := exec.Command(exe, "f8screen", name, strconv.Itoa(s), strconv.Itoa(f8ScreenShards), strconv.Itoa(start), "-")
				out, err := cmd.StdoutPipe()
				if err != nil || cmd.Start() != nil {
					return // cannot screen: fall back to in-process only
				}
				last, done := -1, false
				var hung atomic.Bool
				timer := time.AfterFunc(f8ScreenStall, func() { hung.Store(true); cmd.Process.Kill() })
				sc := bufio.NewScanner(out)
				for sc.Scan() {
					timer.Reset(f8ScreenStall)
					line := sc.Text()
					if line == "done" {
						done = true
					} else if strings.HasPrefix(line, "@") {
						last, _ = strconv.Atoi(line[1:])
					}
				}
				timer.Stop()
				cmd.Wait()
				if done {
					return
				}
				if last < 0 {
					return // died before the first program: not attributable, do not loop
				}
				mu.Lock()
				if hung.Load() {
					bad[last] = "no progress for " + f8ScreenStall.String()
				} else {
					bad[last] = "process died (fatal error such as stack overflow)"
				}
				mu.Unlock()
				start = last + 1
			}
		}(s)
	}
	wg.Wait()
	return bad
}

// f8Guarded is the family with the programs that crash the compiler replaced by a placeholder.
func f8Guarded(name string) *wgen.Family {
	f := f8Raw[name]()
	var once sync.Once
	var bad map[int]string
	at := f.At
	f.At = func(i int) *wgen.Case {
		once.Do(func() {
			bad = f8Screen(name, f.Count)
			idx := make([]int, 0, len(bad))
			for k := range bad {
				idx = append(idx, k)
			}
			sort.Ints(idx)
			for n, k := range idx {
				if n == 10 {
					fmt.Printf("F8-SCREEN: ... and %d more in %s\n", len(idx)-10, name)
					break
				}
				fmt.Printf("F8-SCREEN: the compiler crashes on the valid program %s (%s); skipped here, crashes belong to C10\n", at(k).Sig, bad[k])
			}
		})
		c := at(i)
		if why, ok := bad[i]; ok {
			c.Sig += "/skipped-compiler-crash"
			c.Mod = &wgen.Module{Raw: "// " + why + "\n@compute @workgroup_size(1)\nfn main() {\n}"}
			c.NoExec = true
		}
		return c
	}
	return f
}
