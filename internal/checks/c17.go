package checks

import (
	"fmt"
	"sort"
	"strings"

	"github.com/gogpu/naga/glsl"
	"github.com/gogpu/naga/hlsl"
	"github.com/gogpu/naga/ir"
	"github.com/gogpu/naga/msl"
	"github.com/gogpu/naga/spirv"

	"verif/internal/explore"
	"verif/internal/glslx"
	"verif/internal/hlslx"
	"verif/internal/mslx"
	"verif/internal/nagax"
	"verif/internal/spv"
	"verif/internal/wgen"
)

func init() { Registry["C17"] = runC17 }

// SPIR-V enumerants used by the interface model (SPIR-V specification).
const (
	scUniformConstant = 0
	scInput           = 1
	scUniform         = 2
	scOutput          = 3
	scStorageBuffer   = 12
	decBlock          = 2
	decBufferBlock    = 3
	decBuiltIn        = 11
	decNoPerspective  = 13
	decFlat           = 14
	decCentroid       = 16
	decSample         = 17
	decInvariant      = 18
	decNonWritable    = 24
	decLocation       = 30
	decIndex          = 32
	decBinding        = 33
	decDescriptorSet  = 34
)

var spvBuiltin = map[string]map[string]uint32{
	"in":  {"position": 15, "vertex_index": 42, "instance_index": 43, "front_facing": 17, "sample_index": 18, "sample_mask": 20, "global_invocation_id": 28, "local_invocation_id": 27, "local_invocation_index": 29, "workgroup_id": 26, "num_workgroups": 24},
	"out": {"position": 0, "frag_depth": 22, "sample_mask": 20},
}
var spvModel = map[string]uint32{"vertex": 0, "fragment": 4, "compute": 5}

type c17Fail func(class, detail string)

// blend maps "entry/io name" to the @blend_src index of a dual-source output (nil: none modelled).
func c17SPIRV(p *wgen.F5Program, m *ir.Module, ver spirv.Version, fail c17Fail, count func(), blend map[string]int) {
	b, err, pn := nagax.SPIRV(m, spirv.Options{Version: ver, Debug: true})
	if err != nil || pn != nil {
		return
	}
	mod, err := spv.Parse(b)
	if err != nil {
		return
	}
	count()
	vtag := fmt.Sprintf("spirv%d.%d", ver.Major, ver.Minor)
	defs := map[uint32]*spv.Inst{}
	for i := range mod.Instructions {
		in := &mod.Instructions[i]
		if in.ResultID != 0 {
			defs[in.ResultID] = in
		}
	}
	dec := func(id uint32, member int, d uint32) (uint32, bool) {
		for _, x := range mod.Decorate(id, member) {
			if x.Dec == d {
				if len(x.Args) > 0 {
					return x.Args[0], true
				}
				return 0, true
			}
		}
		return 0, false
	}
	varClass := func(id uint32) (uint32, bool) {
		in := defs[id]
		if in == nil || in.Op != spv.OpVariable {
			return 0, false
		}
		return in.Operands()[0], true
	}
	// resource variables are identified by their (DescriptorSet, Binding) decorations and, when two
	// resources share a binding, by the kind of object they point to (naga emits no OpName for globals)
	kindOK := func(id uint32, kind string) bool {
		cls, _ := varClass(id)
		pt := defs[defs[id].TypeID]
		var pointee *spv.Inst
		if pt != nil && pt.Op == spv.OpTypePointer {
			pointee = defs[pt.Operands()[1]]
		}
		switch kind {
		case "uniform":
			_, bb := dec(pointeeID(pt), -1, decBufferBlock)
			return cls == scUniform && !bb
		case "storage_ro", "storage_rw":
			_, bb := dec(pointeeID(pt), -1, decBufferBlock)
			return cls == scStorageBuffer || (cls == scUniform && bb)
		case "sampler", "comparison_sampler":
			return cls == scUniformConstant && pointee != nil && pointee.Op == 26 // OpTypeSampler
		default:
			return cls == scUniformConstant && pointee != nil && pointee.Op == 25 // OpTypeImage
		}
	}
	resID := map[string]uint32{}
	claimed := map[uint32]bool{}
	for _, r := range p.Resources {
		var id uint32
		ok := false
		for vid, in := range defs {
			if in.Op != spv.OpVariable || claimed[vid] {
				continue
			}
			g, okg := dec(vid, -1, decDescriptorSet)
			bb, okb := dec(vid, -1, decBinding)
			if okg && okb && int(g) == r.Group && int(bb) == r.Binding && kindOK(vid, r.Kind) {
				id, ok = vid, true
			}
		}
		if ok {
			claimed[id] = true
		}
		if !ok {
			used := false
			for _, e := range p.Entries {
				for _, u := range e.Uses {
					used = used || u == r.Name
				}
			}
			if used {
				fail(vtag+":resource-missing", fmt.Sprintf("no %s variable decorated DescriptorSet %d Binding %d for %s", r.Kind, r.Group, r.Binding, r.Name))
			}
			continue
		}
		resID[r.Name] = id
		cls, _ := varClass(id)
		switch r.Kind {
		case "uniform":
			if cls != scUniform {
				fail(vtag+":storage-class", fmt.Sprintf("%s (uniform): storage class %d", r.Name, cls))
			}
		case "storage_ro", "storage_rw":
			if cls != scStorageBuffer && cls != scUniform {
				fail(vtag+":storage-class", fmt.Sprintf("%s (storage): storage class %d", r.Name, cls))
			}
			// read-only storage must be NonWritable (on the variable or on every member of its block struct)
			_, nwVar := dec(id, -1, decNonWritable)
			nwMem := false
			if pt := defs[defs[id].TypeID]; pt != nil && pt.Op == spv.OpTypePointer {
				st := pt.Operands()[1]
				if s := defs[st]; s != nil && s.Op == spv.OpTypeStruct {
					nwMem = true
					for mi := range s.Operands() {
						if _, ok := dec(st, mi, decNonWritable); !ok {
							nwMem = false
						}
					}
				}
			}
			if r.Kind == "storage_ro" && !nwVar && !nwMem {
				fail(vtag+":access-mode", r.Name+": read-only storage buffer is not decorated NonWritable")
			}
			if r.Kind == "storage_rw" && (nwVar || nwMem) {
				fail(vtag+":access-mode", r.Name+": read_write storage buffer is decorated NonWritable")
			}
		default:
			if cls != scUniformConstant {
				fail(vtag+":storage-class", fmt.Sprintf("%s (%s): storage class %d, want UniformConstant", r.Name, r.Kind, cls))
			}
		}
	}
	// entry points
	for _, e := range p.Entries {
		var ep *spv.EntryPoint
		for i := range mod.EntryPoints {
			if mod.EntryPoints[i].Name == e.Name {
				ep = &mod.EntryPoints[i]
			}
		}
		if ep == nil {
			fail(vtag+":entry-point-missing", e.Name)
			continue
		}
		if ep.Model != spvModel[e.Stage] {
			fail(vtag+":execution-model", fmt.Sprintf("%s: model %d for stage %s", e.Name, ep.Model, e.Stage))
		}
		if e.Stage == "compute" {
			ok := false
			for _, md := range ep.Modes {
				if md.Mode == 17 && len(md.Args) == 3 && int(md.Args[0]) == e.Workgroup[0] && int(md.Args[1]) == e.Workgroup[1] && int(md.Args[2]) == e.Workgroup[2] {
					ok = true
				}
			}
			if !ok {
				fail(vtag+":local-size", fmt.Sprintf("%s: no LocalSize %v execution mode", e.Name, e.Workgroup))
			}
		}
		if e.Stage == "fragment" {
			ok := false
			for _, md := range ep.Modes {
				if md.Mode == 7 {
					ok = true
				}
			}
			if !ok {
				fail(vtag+":origin-upper-left", e.Name)
			}
		}
		// interface list
		seen := map[uint32]bool{}
		listed := map[string]bool{}
		type ioVar struct {
			id    uint32
			cls   uint32
			loc   int
			bi    int
			idx   int
			flat, nopersp, centroid, sample, invariant bool
		}
		var ios []ioVar
		for _, id := range ep.Interface {
			if seen[id] {
				fail(vtag+":interface-duplicate", fmt.Sprintf("%s lists %%%d twice", e.Name, id))
			}
			seen[id] = true
			cls, ok := varClass(id)
			if !ok {
				continue
			}
			if cls == scInput || cls == scOutput {
				v := ioVar{id: id, cls: cls, loc: -1, bi: -1, idx: -1}
				if ix, ok := dec(id, -1, decIndex); ok {
					v.idx = int(ix)
				}
				if l, ok := dec(id, -1, decLocation); ok {
					v.loc = int(l)
				}
				if bi, ok := dec(id, -1, decBuiltIn); ok {
					v.bi = int(bi)
				}
				_, v.flat = dec(id, -1, decFlat)
				_, v.nopersp = dec(id, -1, decNoPerspective)
				_, v.centroid = dec(id, -1, decCentroid)
				_, v.sample = dec(id, -1, decSample)
				_, v.invariant = dec(id, -1, decInvariant)
				ios = append(ios, v)
				continue
			}
			for n, rid := range resID {
				if rid == id {
					listed[n] = true
				}
			}
		}
		want := map[string]bool{}
		for _, u := range e.Uses {
			want[u] = true
		}
		if ver.Major > 1 || ver.Minor >= 4 {
			for n := range want {
				if !listed[n] {
					fail(vtag+":interface-missing-resource", fmt.Sprintf("%s uses %s but does not list it in OpEntryPoint", e.Name, n))
				}
			}
			for n := range listed {
				if !want[n] {
					fail(vtag+":interface-extra-resource", fmt.Sprintf("%s lists %s which it does not statically use", e.Name, n))
				}
			}
		} else if len(listed) > 0 {
			fail(vtag+":interface-non-io", fmt.Sprintf("%s lists resource variables before SPIR-V 1.4", e.Name))
		}
		check := func(io wgen.F5IO, dir string, cls uint32) {
			var hit *ioVar
			wantIdx, dual := blend[e.Name+"/"+io.Name]
			for i := range ios {
				v := &ios[i]
				if v.cls != cls {
					continue
				}
				if io.Builtin != "" {
					if code, ok := spvBuiltin[dir][io.Builtin]; ok && v.bi == int(code) {
						hit = v
					}
				} else if v.loc == io.Location && v.bi < 0 {
					// the two dual-source outputs share the location and differ by Index: prefer the variable
					// with the wanted Index, fall back to any variable at the location
					if hit == nil || (dual && v.idx == wantIdx && hit.idx != wantIdx) || !dual {
						hit = v
					}
				}
			}
			tag := io.Builtin
			if tag == "" {
				tag = fmt.Sprintf("location(%d)", io.Location)
			}
			if hit == nil {
				fail(vtag+":io-missing", fmt.Sprintf("%s: no %s variable for %s %s", e.Name, dir, tag, io.Name))
				return
			}
			if io.Builtin == "" && cls == scOutput && e.Stage == "fragment" {
				if dual && hit.idx != wantIdx {
					fail(vtag+":blend-src-index", fmt.Sprintf("%s %s %s: @blend_src(%d) output carries Index %d (-1 = no Index decoration)", e.Name, dir, tag, wantIdx, hit.idx))
				}
				if !dual && hit.idx > 0 {
					fail(vtag+":blend-src-index", fmt.Sprintf("%s %s %s: output without @blend_src carries Index %d", e.Name, dir, tag, hit.idx))
				}
			}
			inter := (e.Stage == "fragment" && dir == "in") || (e.Stage == "vertex" && dir == "out")
			if inter && io.Builtin == "" {
				isInt := strings.Contains(io.Type, "u32") || strings.Contains(io.Type, "i32")
				wantFlat := io.Interp == "flat" || (isInt && e.Stage == "fragment")
				if wantFlat != hit.flat && !(isInt && hit.flat) {
					fail(vtag+":interpolation-flat", fmt.Sprintf("%s %s %s: Flat=%v, want %v", e.Name, dir, tag, hit.flat, wantFlat))
				}
				if (io.Interp == "linear") != hit.nopersp {
					fail(vtag+":interpolation-linear", fmt.Sprintf("%s %s %s: NoPerspective=%v", e.Name, dir, tag, hit.nopersp))
				}
				if (io.Sampling == "centroid") != hit.centroid {
					fail(vtag+":sampling-centroid", fmt.Sprintf("%s %s %s: Centroid=%v", e.Name, dir, tag, hit.centroid))
				}
				if (io.Sampling == "sample") != hit.sample {
					fail(vtag+":sampling-sample", fmt.Sprintf("%s %s %s: Sample=%v", e.Name, dir, tag, hit.sample))
				}
			}
			if io.Invariant && !hit.invariant {
				fail(vtag+":invariant", fmt.Sprintf("%s %s %s: Invariant decoration missing", e.Name, dir, tag))
			}
		}
		for _, io := range e.Inputs {
			check(io, "in", scInput)
		}
		for _, io := range e.Outputs {
			check(io, "out", scOutput)
		}
	}
}

func pointeeID(pt *spv.Inst) uint32 {
	if pt == nil || pt.Op != spv.OpTypePointer {
		return 0
	}
	return pt.Operands()[1]
}

func hlslClass(kind string) byte {
	switch kind {
	case "uniform":
		return 'b'
	case "storage_ro", "texture", "depth_texture":
		return 't'
	case "storage_rw", "storage_texture":
		return 'u'
	}
	return 's'
}

func c17HLSL(p *wgen.F5Program, m *ir.Module, mapped bool, fail c17Fail, count func()) {
	c17HLSLEntry(p, m, mapped, "", fail, count)
}

// c17HLSLEntry: with entry != "", only that entry point is compiled (Options.EntryPoint); the registers of
// the declared resources must be the same as for the whole module, the entry function must be present and
// the functions of the other entry points absent.
func c17HLSLEntry(p *wgen.F5Program, m *ir.Module, mapped bool, entry string, fail c17Fail, count func()) {
	o := *hlsl.DefaultOptions()
	o.EntryPoint = entry
	tag := "hlsl-default"
	if entry != "" {
		tag = "hlsl-single-entry-default"
	}
	if mapped {
		tag = "hlsl-mapped"
		if entry != "" {
			tag = "hlsl-single-entry-mapped"
		}
		o.FakeMissingBindings = false
		o.BindingMap = map[hlsl.ResourceBinding]hlsl.BindTarget{}
		for _, r := range p.Resources {
			o.BindingMap[hlsl.ResourceBinding{Group: uint32(r.Group), Binding: uint32(r.Binding)}] = hlsl.BindTarget{Space: uint8(r.Group + 2), Register: uint32(r.Binding + 10)}
		}
	}
	src, info, err, pn := nagax.HLSL(m, o)
	if err != nil || pn != nil {
		return
	}
	prog, err := hlslx.Parse(src)
	if err != nil {
		return
	}
	count()
	res := prog.Resources()
	for _, r := range p.Resources {
		if r.Kind == "sampler" || r.Kind == "comparison_sampler" {
			continue // samplers go through naga's sampler heap indirection
		}
		if r.Shared && mapped {
			continue // a binding map keyed by (group, binding) cannot tell two resources sharing a binding apart
		}
		var hit *hlslx.Resource
		for i := range res {
			n := strings.TrimRight(res[i].Name, "_")
			if n == r.Name {
				hit = &res[i]
			}
		}
		if hit == nil {
			used := false
			for _, e := range p.Entries {
				for _, u := range e.Uses {
					used = used || u == r.Name
				}
			}
			if used {
				fail(tag+":resource-missing", r.Name+" is not declared in the HLSL text")
			}
			continue
		}
		wantReg, wantSpace := uint32(r.Binding), uint32(r.Group)
		if mapped {
			wantReg, wantSpace = uint32(r.Binding+10), uint32(r.Group+2)
		}
		if !hit.HasReg || hit.Reg.Class != hlslClass(r.Kind) || hit.Reg.Index != wantReg || hit.Reg.Space != wantSpace {
			fail(tag+":register", fmt.Sprintf("%s (%s): register(%c%d, space%d) present=%v, want (%c%d, space%d)", r.Name, r.Kind, hit.Reg.Class, hit.Reg.Index, hit.Reg.Space, hit.HasReg, hlslClass(r.Kind), wantReg, wantSpace))
		}
	}
	// reflection: entry-point names exist
	names := map[string]string{}
	switch ti := info.(type) {
	case *hlsl.TranslationInfo:
		if ti != nil {
			names = ti.EntryPointNames
		}
	case hlsl.TranslationInfo:
		names = ti.EntryPointNames
	}
	fns := map[string]bool{}
	for _, f := range prog.Functions() {
		fns[f.Name] = true
	}
	for _, e := range p.Entries {
		if n, ok := names[e.Name]; ok && !fns[n] {
			fail(tag+":entry-point-name", fmt.Sprintf("reflection maps %s to %s, which is not a function in the text", e.Name, n))
		}
		if entry != "" {
			n, ok := names[e.Name]
			if e.Name == entry && !ok {
				fail(tag+":entry-point-name", "no entry-point name reported for the selected entry point "+e.Name)
			}
			if e.Name != entry && (fns[e.Name] || ok && fns[n]) {
				fail(tag+":entry-point-filter", fmt.Sprintf("EntryPoint=%s, but the text also defines %s", entry, e.Name))
			}
		}
	}
}

func c17MSL(p *wgen.F5Program, m *ir.Module, fail c17Fail, count func()) {
	o := msl.DefaultOptions()
	o.PerEntryPointMap = map[string]msl.EntryPointResources{}
	slotOf := map[string]int{}
	for _, e := range p.Entries {
		res := map[ir.ResourceBinding]msl.BindTarget{}
		for i, r := range p.Resources {
			s := uint8(10 + i)
			switch r.Kind {
			case "uniform", "storage_ro", "storage_rw":
				res[ir.ResourceBinding{Group: uint32(r.Group), Binding: uint32(r.Binding)}] = msl.BindTarget{Buffer: &s, Mutable: r.Kind == "storage_rw"}
				slotOf[r.Name] = int(s)
			case "texture", "depth_texture", "storage_texture":
				res[ir.ResourceBinding{Group: uint32(r.Group), Binding: uint32(r.Binding)}] = msl.BindTarget{Texture: &s, Mutable: r.Kind == "storage_texture"}
			default:
				res[ir.ResourceBinding{Group: uint32(r.Group), Binding: uint32(r.Binding)}] = msl.BindTarget{Sampler: &msl.BindSamplerTarget{Slot: s}}
			}
		}
		sb := uint8(29)
		o.PerEntryPointMap[e.Name] = msl.EntryPointResources{Resources: res, SizesBuffer: &sb}
	}
	src, info, err, pn := nagax.MSL(m, o)
	if err != nil || pn != nil {
		return
	}
	prog, err := mslx.Parse(src)
	if err != nil {
		return
	}
	count()
	kern := map[string]mslx.Kernel{}
	for _, k := range prog.Kernels() {
		kern[k.Name] = k
	}
	for _, e := range p.Entries {
		if e.Stage != "compute" {
			continue
		}
		name, ok := info.EntryPointNames[e.Name]
		if !ok {
			fail("msl:entry-point-name", "no entry-point name reported for "+e.Name)
			continue
		}
		k, ok := kern[name]
		if !ok {
			fail("msl:entry-point-name", fmt.Sprintf("reflection maps %s to %s, which is not a kernel in the text", e.Name, name))
			continue
		}
		want := map[string]bool{}
		for _, u := range e.Uses {
			want[u] = true
		}
		for _, r := range p.Resources {
			slot, isBuf := slotOf[r.Name]
			if !isBuf || !want[r.Name] || r.Shared {
				continue
			}
			found := false
			for _, pa := range k.Params {
				if strings.TrimRight(pa.Name, "_") == r.Name {
					found = true
					if pa.Buffer != slot {
						fail("msl:buffer-slot", fmt.Sprintf("%s: %s bound at [[buffer(%d)]], the resource map says %d", e.Name, r.Name, pa.Buffer, slot))
					}
					if r.Kind == "uniform" && pa.Space != "constant" {
						fail("msl:address-space", fmt.Sprintf("%s: uniform %s is in address space %q", e.Name, r.Name, pa.Space))
					}
					if r.Kind == "storage_ro" && !pa.Const {
						fail("msl:access-mode", fmt.Sprintf("%s: read-only storage buffer %s is not const", e.Name, r.Name))
					}
				}
			}
			if !found {
				fail("msl:resource-missing", fmt.Sprintf("%s: no kernel parameter for used resource %s", e.Name, r.Name))
			}
		}
	}
}

func c17GLSL(p *wgen.F5Program, m *ir.Module, fail c17Fail, count func()) {
	for _, e := range p.Entries {
		o := glsl.DefaultOptions()
		o.LangVersion = glsl.Version450
		o.EntryPoint = e.Name
		o.BindingMap = map[glsl.BindingMapKey]uint8{}
		slot := map[string]int{}
		for i, r := range p.Resources {
			o.BindingMap[glsl.BindingMapKey{Group: uint32(r.Group), Binding: uint32(r.Binding)}] = uint8(20 + i)
			slot[r.Name] = 20 + i
		}
		src, info, err, pn := nagax.GLSL(m, o)
		if err != nil || pn != nil {
			continue
		}
		prog, err := glslx.Parse(src)
		if err != nil {
			continue
		}
		count()
		want := map[string]bool{}
		for _, u := range e.Uses {
			want[u] = true
		}
		blocks := prog.Blocks()
		// reflection: every reported uniform/storage block exists in the text, and every buffer block in
		// the text is reported
		inText := map[string]bool{}
		for _, b := range blocks {
			inText[b.Name] = true
		}
		reported := map[string]bool{}
		for _, u := range info.Uniforms {
			reported[u.BlockName] = true
			if !inText[u.BlockName] {
				fail("glsl:reflection-invented-block", fmt.Sprintf("%s: reflection lists block %s which the text does not declare", e.Name, u.BlockName))
			}
		}
		for _, b := range blocks {
			if !reported[b.Name] {
				fail("glsl:reflection-missing-block", fmt.Sprintf("%s: block %s is declared in the text but not reported", e.Name, b.Name))
			}
		}
		for _, u := range info.Uniforms {
			for _, r := range p.Resources {
				if int(u.Binding.Group) == r.Group && int(u.Binding.Binding) == r.Binding && (r.Kind == "uniform" || r.Kind == "storage_ro" || r.Kind == "storage_rw") && want[r.Name] && !r.Shared {
					for _, b := range blocks {
						if b.Name == u.BlockName {
							if b.Binding != slot[r.Name] {
								fail("glsl:layout-binding", fmt.Sprintf("%s: block %s for %s has layout(binding=%d), the binding map says %d", e.Name, b.Name, r.Name, b.Binding, slot[r.Name]))
							}
							wantStorage := "buffer"
							if r.Kind == "uniform" {
								wantStorage = "uniform"
							}
							if b.Storage != wantStorage {
								fail("glsl:block-storage", fmt.Sprintf("%s: block for %s is a %s block", e.Name, r.Name, b.Storage))
							}
						}
					}
				}
			}
		}
		// per-entry-point dead-code elimination: a buffer the entry point does not use must not be declared,
		// a used one must be
		nbuf := 0
		for _, r := range p.Resources {
			if (r.Kind == "uniform" || r.Kind == "storage_ro" || r.Kind == "storage_rw") && want[r.Name] {
				nbuf++
			}
		}
		if len(blocks) != nbuf {
			fail("glsl:block-count", fmt.Sprintf("%s uses %d buffer resources but the text declares %d interface blocks", e.Name, nbuf, len(blocks)))
		}
	}
}

func c17Program(r *explore.Run, p *wgen.F5Program) {
	m, _, err, pn := nagax.Front(p.Src)
	if err != nil || pn != nil {
		r.Skip("front end rejected/panicked (C08/C10): " + errStr(err, pn))
		return
	}
	seen := map[string]bool{}
	fail := func(class, detail string) {
		// construct class: resource kinds + stages (the use masks go into the detail)
		parts := strings.Split(p.Sig, "/")
		sc := parts[1] + "/" + parts[2]
		key := "C17|" + class + "|" + sc
		if seen[key] {
			return
		}
		seen[key] = true
		r.Violate(explore.Violation{Key: key, Detail: class + ": " + detail + "\nprogram " + p.Sig, Replay: map[string]any{"sig": p.Sig, "src": p.Src}})
	}
	count := func() { r.Count("evaluations", 1) }
	c17SPIRV(p, m, spirv.Version1_1, fail, count, nil)
	c17SPIRV(p, m, spirv.Version1_4, fail, count, nil)
	c17HLSL(p, m, false, fail, count)
	c17HLSL(p, m, true, fail, count)
	c17MSL(p, m, fail, count)
	c17GLSL(p, m, fail, count)
	r.Distinct(strings.Join(strings.Split(p.Sig, "/")[1:3], "/"))
}

func runC17() int {
	r := explore.New("C17")
	progs := wgen.F5Programs(r.Thorough())
	r.Count("programs", int64(len(progs)))
	r.ParallelFor(len(progs), func(i int) { c17Program(r, progs[i]) })
	rprogs := c17ReflSelect(progs, r.Thorough())
	r.Extra("reflection_sweep_programs", len(rprogs))
	r.ParallelFor(len(rprogs), func(i int) { c17ReflProgram(r, rprogs[i]) })
	xprogs := wgen.F5XPrograms(r.Thorough())
	r.Count("programs", int64(len(xprogs)))
	r.Extra("attribute_order_programs", len(xprogs))
	r.ParallelFor(len(xprogs), func(i int) { c17XProgram(r, xprogs[i]) })
	eps := wgen.F5EPModules()
	r.Count("programs", int64(len(eps)))
	r.Extra("entry_point_map_modules", len(eps))
	r.ParallelFor(len(eps), func(i int) { c17EPModule(r, eps[i]) })
	c17LinkPass(r) // vertex/fragment linking under hlsl.Options.FragmentEntryPoint, every declaration order of the fragment inputs
	if len(progs) > 0 {
		p := progs[len(progs)/2]
		r.Sample(map[string]any{"program": p.Sig, "source": p.Src})
	}
	var sk []string
	_ = sk
	sort.Strings(sk)
	printKeys(r)
	return r.Finish("F5 interface programs: every multiset of 3 resource kinds out of {uniform, storage ro/rw, sampled/depth/storage texture, sampler, comparison sampler} x 5 stage combinations (1-4 entry points) x use-subsets per entry point (all 64 pairs in the thorough tier, a fixed third plus the all/none rows in the quick tier) x 2 IO signatures per stage (bare parameters and structs; builtins; locations 0,1,2,15; every interpolation/sampling attribute; invariant) x shared/unshared bindings x direct/helper-routed use. An interface model computed by the generator is compared with: SPIR-V 1.1 and 1.4 decorations, storage classes, access modes, execution models/modes and OpEntryPoint interface lists (both directions: nothing missing, nothing invented); HLSL registers/spaces under the default and an explicit binding map; MSL [[buffer(n)]] slots, address spaces and constness under a per-entry-point resource map; GLSL layout(binding) under a binding map, per-entry-point block elimination and the Uniforms reflection against the declared blocks; reflection entry-point names against the functions present. "+
		"ATTRIBUTE ORDER (F5X): one IO item (vertex output + fragment input) x every legal @interpolate(type[, sampling]) x 8 types x {member of separate structs, member of one struct shared by both stages, bare parameter, struct + bare parameter mixed} x {none, @size, @align, @size+@align} x first/last member x ALL permutations of the attribute list; vertex inputs and fragment outputs (member/bare) x permutations; both members of a dual-source struct x all permutations of [@location, @blend_src, extras] (24x24 product reduced to 3 diagonals in the quick tier); @builtin(position) @invariant x permutations (vertex output, fragment input, bare and member); every builtin as a struct member x extras x permutations; @group/@binding in both orders for all 8 resource kinds, @compute/@workgroup_size in both orders (1-3 arguments, literals and const-expressions), a @must_use helper: each compared with the interface model in SPIR-V 1.1/1.4 (Location, Index, Flat/NoPerspective/Centroid/Sample, Invariant, BuiltIn), HLSL (semantics by index, SV_ system values, SV_TargetN, nointerpolation/noperspective/centroid/sample, numthreads, vertex-output/fragment-input semantic agreement), MSL (stage keyword, [[attribute(n)]], [[user(..n)]], [[color(n)]] + index(i), builtin attributes, [[invariant]], the seven interpolation attributes, vertex-output/fragment-input user() agreement) and GLSL 330/450/300es/310es (all ten versions in the thorough tier: layout(location[, index]), flat/noperspective/centroid/sample where the version has them, types, `invariant gl_Position`, local_size, varyings link by location or by name; nothing missing, nothing invented). "+
		"PER-ENTRY-POINT OPTIONS (F5EP): 15 modules of 2-3 entry points (5 stage sets x 3 use patterns over a pool of 6 resources) x every order of the entry points in the source x every assignment of {explicit resource map, no map} x FakeMissingBindings on/off x {complete, sparse} maps: the MSL argument slots of an entry point equal its own map entry, equal those of the same entry point compiled alone with the same entry (nothing leaks between entry points), never collide, and the module fails to compile exactly when one entry point alone does; every order also against the interface model in SPIR-V, HLSL, MSL, GLSL. "+
		"REFLECTION (F5 programs with unshared bindings and an all-using entry point; both IO variants and the thorough use-subset rows in the thorough tier) x all ten GLSL versions x {no map, binding map}: every Uniforms entry names a declared block of the reported kind (uniform vs buffer: IsStorage) and a buffer the entry point uses, every declared block is reported exactly once, block kind follows the WGSL address space where the version has buffer blocks, layout(binding) follows the map where the version has it, TextureMappings/TextureSamplerPairs name declared opaque uniforms with bindings of a used texture/sampler and cover every sampled pair, entry-point names exist; HLSL RegisterBindings against the declared registers in both directions; MSL EntryPointNames, stage keywords, SizesBuffer slot and RequiresSizesBuffer against the extra buffer argument. distinct = resource-kind x stage combinations + attribute-order construct classes + F5EP modules",
		[]string{"the interface model is computed from the generator's own description of the program (static use through the call graph), not from naga",
			"MSL vertex/fragment argument attributes and GLSL in/out location qualifiers are not modelled (documented limit); samplers in HLSL go through naga's sampler heap and are not checked"})
}
