package checks

import (
	"fmt"
	"os"
	"strings"

	"github.com/gogpu/naga/ir"
	"github.com/gogpu/naga/spirv"

	"verif/internal/explore"
	"verif/internal/nagax"
	"verif/internal/spv"
	"verif/internal/wgen"
)

func init() {
	Registry["C07"] = runC07
	perProgram["C07"] = func(r *explore.Run, p *prog) { c07Program(r, p) }
}

// shapeClass reduces an F3 signature to the layout feature it exercises (used in keys).
func shapeClass(sig string) string {
	p := strings.Split(sig, "/")
	if len(p) < 3 {
		return sig
	}
	body := strings.Join(p[1:len(p)-1], "/")
	return "F3/" + body
}

// ---- static: IR layout vs WGSL layout

func c07WalkIR(m *ir.Module, h ir.TypeHandle, t *wgen.Type, path string, bad func(string)) {
	if int(h) >= len(m.Types) {
		bad(path + ": type handle out of range")
		return
	}
	switch in := m.Types[h].Inner.(type) {
	case ir.StructType:
		if t.K != wgen.TStruct || len(in.Members) != len(t.Members) {
			bad(fmt.Sprintf("%s: IR struct shape differs", path))
			return
		}
		offs := wgen.Offsets(t)
		for i, mem := range in.Members {
			if int(mem.Offset) != offs[i] {
				bad(fmt.Sprintf("%s.%s: IR offset %d, WGSL offset %d", path, t.Members[i].Name, mem.Offset, offs[i]))
			}
			c07WalkIR(m, mem.Type, t.Members[i].T, path+"."+t.Members[i].Name, bad)
		}
		if !wgen.HasRuntimeArray(t) && int(in.Span) != wgen.SizeOf(t) {
			bad(fmt.Sprintf("%s: IR span %d, WGSL size %d", path, in.Span, wgen.SizeOf(t)))
		}
	case ir.ArrayType:
		if t.K != wgen.TArray {
			bad(path + ": IR array where WGSL has " + t.String())
			return
		}
		if int(in.Stride) != wgen.Stride(t) {
			bad(fmt.Sprintf("%s: IR array stride %d, WGSL stride %d", path, in.Stride, wgen.Stride(t)))
		}
		c07WalkIR(m, in.Base, t.Elem, path+"[]", bad)
	}
}

// ---- static: SPIR-V decorations vs WGSL layout

type spvTypes struct {
	m    *spv.Module
	defs map[uint32]*spv.Inst
}

func (s *spvTypes) dec(id uint32, member int, dec uint32) (uint32, bool) {
	for _, d := range s.m.Decorate(id, member) {
		if d.Dec == dec && len(d.Args) > 0 {
			return d.Args[0], true
		}
	}
	return 0, false
}

func (s *spvTypes) walk(id uint32, t *wgen.Type, path string, bad func(string)) {
	in := s.defs[id]
	if in == nil {
		return
	}
	ops := in.Operands()
	switch in.Op {
	case spv.OpTypeStruct:
		if t.K != wgen.TStruct {
			// naga wraps non-struct buffer types in a one-member struct: unwrap
			if len(ops) == 1 {
				if off, ok := s.dec(id, 0, spv.DecOffset); !ok || off != 0 {
					bad(path + ": wrapper struct member has no Offset 0 decoration")
				}
				if t.K == wgen.TMat {
					if ms, ok := s.dec(id, 0, spv.DecMatrixStride); !ok || int(ms) != wgen.MatColStride(t) {
						bad(fmt.Sprintf("%s: MatrixStride %d (present=%v), WGSL column stride %d", path, ms, ok, wgen.MatColStride(t)))
					}
				}
				s.walk(ops[0], t, path, bad)
			}
			return
		}
		if len(ops) == 1 {
			// naga may also wrap a struct-typed buffer in a one-member Block struct
			if inner := s.defs[ops[0]]; inner != nil && inner.Op == spv.OpTypeStruct && len(inner.Operands()) == len(t.Members) &&
				!(len(t.Members) == 1 && t.Members[0].T.K == wgen.TStruct) {
				if off, ok := s.dec(id, 0, spv.DecOffset); !ok || off != 0 {
					bad(path + ": wrapper struct member has no Offset 0 decoration")
				}
				s.walk(ops[0], t, path, bad)
				return
			}
		}
		if len(ops) != len(t.Members) {
			bad(path + ": SPIR-V struct member count differs")
			return
		}
		offs := wgen.Offsets(t)
		for i, mid := range ops {
			off, ok := s.dec(id, i, spv.DecOffset)
			if !ok {
				bad(fmt.Sprintf("%s.%s: member has no Offset decoration", path, t.Members[i].Name))
			} else if int(off) != offs[i] {
				bad(fmt.Sprintf("%s.%s: SPIR-V Offset %d, WGSL offset %d", path, t.Members[i].Name, off, offs[i]))
			}
			mt := t.Members[i].T
			base := mt
			for base.K == wgen.TArray {
				base = base.Elem
			}
			if base.K == wgen.TMat {
				if ms, ok := s.dec(id, i, spv.DecMatrixStride); !ok || int(ms) != wgen.MatColStride(base) {
					bad(fmt.Sprintf("%s.%s: MatrixStride %d (present=%v), WGSL column stride %d", path, t.Members[i].Name, ms, ok, wgen.MatColStride(base)))
				}
			}
			s.walk(mid, mt, path+"."+t.Members[i].Name, bad)
		}
	case spv.OpTypeArray, spv.OpTypeRuntimeArray:
		if t.K != wgen.TArray {
			return
		}
		if st, ok := s.dec(id, -1, spv.DecArrayStride); !ok {
			bad(path + ": array type has no ArrayStride decoration")
		} else if int(st) != wgen.Stride(t) {
			bad(fmt.Sprintf("%s: SPIR-V ArrayStride %d, WGSL stride %d", path, st, wgen.Stride(t)))
		}
		s.walk(ops[0], t.Elem, path+"[]", bad)
	}
}

func c07Static(r *explore.Run, p *prog, m *ir.Module) {
	c := p.Case
	sc := shapeClass(p.Sig)
	// IR
	for gi := range m.GlobalVariables {
		g := &m.GlobalVariables[gi]
		if g.Name != "src" {
			continue
		}
		r.Count("evaluations", 1)
		seen := map[string]bool{}
		c07WalkIR(m, g.Type, c.Mod.Global("src").Ty, "src", func(msg string) {
			k := "C07|ir-layout|" + errClass(msg) + "|" + sc
			if !seen[k] {
				seen[k] = true
				r.Violate(explore.Violation{Key: k, Detail: "IR layout of " + p.Sig + " differs from the WGSL layout: " + msg, Replay: p.replay()})
			}
		})
	}
	// SPIR-V decorations (two versions: BufferBlock style and StorageBuffer style)
	for _, o := range []struct {
		n string
		o spirv.Options
	}{{"v1.0", spirv.Options{Version: spirv.Version1_0}}, {"v1.4", spirv.Options{Version: spirv.Version1_4}}} {
		b, err, pn := nagax.SPIRV(m, o.o)
		if err != nil || pn != nil {
			r.Skip("spirv backend error/panic (C08/C10)")
			continue
		}
		mod, err := spv.Parse(b)
		if err != nil {
			continue
		}
		r.Count("evaluations", 1)
		st := &spvTypes{m: mod, defs: map[uint32]*spv.Inst{}}
		for i := range mod.Instructions {
			in := &mod.Instructions[i]
			if in.ResultID != 0 {
				st.defs[in.ResultID] = in
			}
		}
		for _, res := range mod.Resources() {
			if res.B.Group != 0 || res.B.Binding > 1 {
				continue
			}
			v := st.defs[res.ID]
			if v == nil {
				continue
			}
			pt := st.defs[v.TypeID]
			if pt == nil || pt.Op != spv.OpTypePointer {
				continue
			}
			seen := map[string]bool{}
			name := "src"
			if res.B.Binding == 1 {
				name = "dst"
			}
			st.walk(pt.Operands()[1], c.Mod.Global(name).Ty, name, func(msg string) {
				k := "C07|spirv-decorations|" + o.n + "|" + errClass(msg) + "|" + sc
				if !seen[k] {
					seen[k] = true
					rp := p.replay()
					rp["spirv_version"] = o.n
					r.Violate(explore.Violation{Key: k, Detail: "SPIR-V layout decorations of " + p.Sig + " [" + o.n + "] differ from the WGSL layout: " + msg, Replay: rp})
				}
			})
		}
	}
}

var c07Backends = []*semBackend{spirvBackend(), hlslBackend(), mslBackend(), glslBackend()}

func c07Program(r *explore.Run, p *prog) {
	if p.Case == nil {
		return
	}
	if p.Case.Family == "F3x" || p.Case.Family == "F3xt" {
		c07xProgram(r, p) // static-only family (f16, atomics, attribute spellings): c07x.go
		return
	}
	m, _, err, pn := nagax.Front(p.Src)
	if err != nil || pn != nil {
		r.Skip("front end rejected/panicked (C08/C10)")
		return
	}
	if strings.HasSuffix(p.Sig, "/direct") || strings.HasSuffix(p.Sig, "/memberwise") || strings.HasSuffix(p.Sig, "/uniform") {
		c07Static(r, p, m)
	}
	// dynamic: which bytes does every leaf access touch? (the emitted code is executed; a wrong
	// offset/stride/size reads or writes a different sentinel)
	for _, be := range c07Backends {
		sub := *be
		sub.prop = "C07|" + be.name
		semProgramKeyed(r, &sub, p, 0, shapeClass(p.Sig))
	}
}

func runC07() int {
	r := explore.New("C07")
	fam := wgen.F3(r.Thorough())
	famx := wgen.F3x(r.Thorough())
	fams := []*wgen.Family{fam, famx}
	if only := os.Getenv("VERIF_C07_FAMILY"); only != "" { // authoring aid (no registered command sets it): run one family only
		fams = nil
		for _, f := range []*wgen.Family{fam, famx} {
			if f.Name == only {
				fams = append(fams, f)
			}
		}
		r.NotExhaustive("VERIF_C07_FAMILY=" + only)
	}
	forEachProgram(r, fams, nil, func(p *prog) { c07Program(r, p) })
	c := fam.At(fam.Count / 2)
	r.Sample(map[string]any{"shape": c.Sig, "source": wgen.Print(c.Mod)})
	printKeys(r)
	return r.Finish("every host-shareable type tree of F3 (leaves: 3 scalars, 5 vectors, all 9 matCxR; arrays n=1,2,3 and runtime-sized; structs of 1-3 members over a 10-type alphabet, each plain and with one @align(16/32) or @size(+4/+16) attribute; nesting over a 6-type alphabet incl. inner structs carrying @align/@size; thorough adds all triples and a third nesting level) in storage and, where WGSL allows, uniform space. Static: IR member offsets/spans/strides and SPIR-V Offset/ArrayStride/MatrixStride decorations (v1.0 and v1.4) equal the reference WGSL layout. Dynamic: a probe program reads every leaf scalar and copies the whole value (direct, member-wise, via function/private/workgroup variables); the source buffer holds a distinct sentinel per word; the emitted SPIR-V/HLSL/MSL/GLSL is executed by the independent interpreters (which address memory by the emitted code's own layout) and compared with the reference evaluator. distinct = distinct output buffers. F3x (static only, never executed): struct shapes over 24 leaf types {f16, vec2/3/4<f16>, all 9 matCxR<f16>, f32, vec2/3/4<f32>, i32, atomic<u32>, atomic<i32>, 4 matCxR<f32>}, arrays of them (n=1,2,3), runtime-sized tails and nested structs: all 1-member structs x every @align in {natural,2x,16,32,256} x @size in {natural,+4,+16}; all ordered pairs of leaves x 20 attribute placements and all (array,leaf)/(leaf,array)/(leaf,runtime array) pairs x 4; all triples over a 12-type alphabet and all quadruples over a 6-type alphabet with one attribute on each member in turn (thorough: triples of all leaves, quadruples of the 12, 5- and 6-member structs over 4 types); inner structs of 1-2 members with inner attributes in 6 placements; and the spelling family: every @align value (also 4096, 65536) / @size value (also +252, +65532) / align+size pair in both orders on the member at position 0,1,2 over 7 member types x 19 spellings of the const-expression argument (decimal, u/i suffix, hex, hex with suffix, 0X, parenthesised, product, sum, shift, u32() conversion, trailing comma, inner spaces, inner comment, module const declared before / after the struct, typed u32 / i32 const, expression over a const). Each shape in storage (read and read_write globals), uniform (WGSL-valid subset) and workgroup (quick: every fourth shape) placement. Observed against the reference layout wref.Layout: ir.Module.Types (offsets, spans, strides, lengths, scalar widths, ir.TypeSize), SPIR-V Offset/ArrayStride/MatrixStride and type shapes (v1.0, v1.4), the C++ layout of the MSL struct declarations (member offsets, sizeof, array element size, matrix column size, member type class), HLSL cbuffer packing of uniform globals (32-bit types), the byte ranges of the constant-address Load/Store accesses the HLSL text makes on storage buffers (every corner leaf read, and written in the read_write global), and std430/std140 placement of the GLSL blocks",
		[]string{"reference layout: internal/wgen/layout.go for F3, internal/wref/layoutx.go for F3x (WGSL spec, Memory Layout; DESIGN Appendix C.2); f16 and atomics are enumerated only in the static family F3x (the interpreters do not execute 16-bit floats)",
			"F3x limits (counted under skipped): HLSL constant buffers holding 16-bit types are not laid out by the reader (the packing of half is not modelled); when the IR layout of a case already differs from the WGSL layout the backends are not judged for that case; matCx2 uniform members that the HLSL backend splits into columns are not matched by name",
			"workgroup/private/function copies have no host-visible layout: they are checked only through the round trip"})
}
