package checks

import (
	"fmt"
	"os"
	"strings"
	"testing"
	"time"

	"github.com/gogpu/naga"
	"github.com/gogpu/naga/dxil"
	"github.com/gogpu/naga/glsl"
	"github.com/gogpu/naga/hlsl"
	"github.com/gogpu/naga/msl"
	"github.com/gogpu/naga/spirv"

	"verif/internal/wgen"
)

func TestC10ProbeSingles(t *testing.T) {
	if os.Getenv("C10_PROBE") == "" {
		t.Skip()
	}
	fs := c10Features()
	for i := range fs {
		f := &fs[i]
		if strings.HasPrefix(f.Name, os.Getenv("C10_PROBE_SKIP")) && os.Getenv("C10_PROBE_SKIP") != "" {
			continue
		}
		src := c10RenderFeatures([]*c10Feat{f}, 0)
		fmt.Printf("RUN %s\n", f.Name)
		st := "ok"
		t0 := time.Now()
		func() {
			defer func() {
				if r := recover(); r != nil {
					st = "PANIC " + fmt.Sprint(r)
				}
			}()
			ast, err := naga.Parse(src)
			if err != nil {
				st = "parse-err " + trunc(err.Error(), 80)
				return
			}
			m, err := naga.LowerWithSource(ast, src)
			if err != nil {
				st = "lower-err " + trunc(err.Error(), 80)
				return
			}
			if errs, err := naga.Validate(m); err != nil || len(errs) > 0 {
				st = "valid-err " + trunc(fmt.Sprint(errs, err), 80)
			}
		}()
		fmt.Printf("RES %s pair=%v %.3fs %s\n", f.Name, f.Pair, time.Since(t0).Seconds(), strings.ReplaceAll(st, "\n", " "))
	}
}

func TestC10Names(t *testing.T) {
	if os.Getenv("C10_PROBE") == "" {
		t.Skip()
	}
	for i, f := range c10Features() {
		fmt.Printf("N %d %s\n", i, f.Name)
	}
}

func TestC10ProbeFile(t *testing.T) {
	p := os.Getenv("C10_FILE")
	if p == "" {
		t.Skip()
	}
	b, _ := os.ReadFile(p)
	for _, src := range strings.Split(string(b), "\n====\n") {
		ps := c10RunOne(src)
		fmt.Printf("SRC %s\n", trunc(strings.ReplaceAll(src, "\n", " "), 150))
		for _, p := range ps {
			fmt.Printf("  PANIC %s %s %s\n", p.Stage, p.Msg, p.Frame)
		}
		if len(ps) == 0 {
			_, err := naga.Compile(src)
			fmt.Printf("  compile err: %v\n", err)
		}
	}
}

func TestC10StageTimes(t *testing.T) {
	p := os.Getenv("C10_TFILE")
	if p == "" {
		t.Skip()
	}
	b, _ := os.ReadFile(p)
	src := string(b)
	ast, err := naga.Parse(src)
	if err != nil {
		t.Fatal(err)
	}
	m, err := naga.LowerWithSource(ast, src)
	if err != nil {
		t.Fatal(err)
	}
	tm := func(name string, f func()) {
		t0 := time.Now()
		func() {
			defer func() { recover() }()
			f()
		}()
		fmt.Printf("STAGE %s %.2fs\n", name, time.Since(t0).Seconds())
	}
	tm("validate", func() { naga.Validate(m) })
	tm("spirv", func() { naga.GenerateSPIRV(m, spirv.DefaultOptions()) })
	tm("hlsl", func() { hlsl.Compile(m, hlsl.DefaultOptions()) })
	tm("msl", func() { msl.Compile(m, msl.DefaultOptions()) })
	tm("dxil", func() { dxil.Compile(m, dxil.DefaultOptions()) })
	tm("glsl", func() { o := glsl.DefaultOptions(); o.EntryPoint = "main"; glsl.Compile(m, o) })
}

func TestC10GenBuildTimes(t *testing.T) {
	if os.Getenv("C10_PROBE") == "" {
		t.Skip()
	}
	for g := 0; g < 8; g++ {
		t0 := time.Now()
		gs := c10GeneratorsOnly(false, g, true)
		fmt.Printf("BUILD %d %s %.3fs count=%d\n", g, gs[g].Name, time.Since(t0).Seconds(), gs[g].Count)
	}
}

func TestC10C11Parts(t *testing.T) {
	if os.Getenv("C10_PROBE") == "" {
		t.Skip()
	}
	t0 := time.Now()
	ctxs := wgen.C11Ctxs(false)
	fmt.Printf("PART ctxs %d %.3f\n", len(ctxs), time.Since(t0).Seconds())
	t0 = time.Now()
	sk := wgen.C11Skeletons(false)
	fmt.Printf("PART skels %d %.3f\n", len(sk), time.Since(t0).Seconds())
	t0 = time.Now()
	n := 0
	for _, s := range sk {
		n += len(s.Pairs())
	}
	fmt.Printf("PART pairs %d %.3f\n", n, time.Since(t0).Seconds())
	t0 = time.Now()
	g := genC11Programs(false, true)
	fmt.Printf("PART gen %d %.3f\n", g.Split, time.Since(t0).Seconds())
}

func TestC10ProbePair(t *testing.T) {
	spec := os.Getenv("C10_PAIR")
	if spec == "" {
		t.Skip()
	}
	fs := c10Features()
	var ms []*c10Feat
	for _, n := range strings.Split(spec, ",") {
		for i := range fs {
			if fs[i].Name == n {
				ms = append(ms, &fs[i])
			}
		}
	}
	for lay := 0; lay < 2; lay++ {
		src := c10RenderFeatures(ms, lay)
		fmt.Printf("---- layout %d\n%s\n", lay, src)
		for _, p := range c10RunOne(src) {
			fmt.Printf("  PANIC %s %s %s\n", p.Stage, p.Msg, p.Frame)
		}
	}
}
