package checks

import (
	"fmt"
	"os"
	"sort"
	"strings"
	"testing"

	"verif/internal/nagax"
	"verif/internal/spvval"
	"verif/internal/wgen"
)

// TestF1sAccept is an authoring aid: which F1s programs does the front end reject, and with what.
func TestF1sAccept(t *testing.T) {
	ps := wgen.F1sPrograms(os.Getenv("F1S_THOROUGH") != "")
	rej := map[string][]string{}
	acc, shared := 0, 0
	fnd := map[string][]string{}
	for _, p := range ps {
		if p.Shared {
			shared++
		}
		m, stage, err, pn := nagax.Front(p.Src)
		if pn != nil {
			rej["PANIC "+errClass(pn.Value)] = append(rej["PANIC "+errClass(pn.Value)], p.Sig)
			continue
		}
		if err != nil {
			k := stage + ": " + errClass(err.Error())
			rej[k] = append(rej[k], p.Sig)
			continue
		}
		acc++
		b, err, pn := nagax.SPIRV(m, nagax.SPIRVConfigs(0)[0].Opts)
		if pn != nil || err != nil {
			k := "spirv: " + errClass(fmt.Sprint(err, pn))
			rej[k] = append(rej[k], p.Sig)
			continue
		}
		rep := spvval.Validate(b)
		for _, u := range rep.Unsupported {
			k := "UNSUPPORTED " + errClass(u)
			fnd[k] = append(fnd[k], p.Sig)
		}
		for _, f := range rep.Findings {
			k := f.Rule + ": " + errClass(f.Detail)
			fnd[k] = append(fnd[k], p.Sig)
		}
	}
	fmt.Printf("programs=%d shared=%d accepted=%d\n", len(ps), shared, acc)
	dump := func(title string, m map[string][]string) {
		var ks []string
		for k := range m {
			ks = append(ks, k)
		}
		sort.Strings(ks)
		for _, k := range ks {
			n := len(m[k])
			ex := m[k]
			if len(ex) > 4 {
				ex = ex[:4]
			}
			fmt.Printf("%s %5d  %s\n        e.g. %s\n", title, n, k, strings.Join(ex, " ; "))
		}
	}
	dump("REJECT", rej)
	dump("FINDING", fnd)
	if w := os.Getenv("F1S_SHOW"); w != "" {
		for _, p := range ps {
			if strings.Contains(p.Sig, w) {
				fmt.Println("-----", p.Sig)
				fmt.Println(p.Src)
			}
		}
	}
}

func TestC02CoverAndMany(t *testing.T) {
	_, missing := c02CoverSet()
	for _, m := range missing {
		t.Errorf("cover module missing: %s", m)
	}
	ps := wgen.F1sManyPrograms()
	ps = append(ps, wgen.F1sImages())
	for _, p := range ps {
		m, stage, err, pn := nagax.Front(p.Src)
		if err != nil || pn != nil {
			t.Errorf("%s: rejected at %s: %v %v", p.Sig, stage, err, pn)
			continue
		}
		b, err, pn := nagax.SPIRV(m, nagax.SPIRVConfigs(0)[0].Opts)
		if err != nil || pn != nil {
			t.Errorf("%s: spirv: %v %v", p.Sig, err, pn)
			continue
		}
		rep := spvval.Validate(b)
		fmt.Printf("%s: %d bytes, %d findings, unsupported=%v\n", p.Sig, len(b), len(rep.Findings), rep.Unsupported)
		for i, f := range rep.Findings {
			if i < 5 {
				fmt.Println("   ", f.String())
			}
		}
	}
}

// TestF1sBackendErrors is an authoring aid: which (program, option set) pairs does the SPIR-V backend refuse.
func TestF1sBackendErrors(t *testing.T) {
	if os.Getenv("F1S_ERRORS") == "" {
		t.Skip()
	}
	cfgs := append(nagax.SPIRVConfigs(1), c02ExtraConfigs(false)...)
	rej := map[string][]string{}
	for _, p := range wgen.F1sPrograms(false) {
		m, _, err, pn := nagax.Front(p.Src)
		if err != nil || pn != nil {
			continue
		}
		for _, c := range cfgs {
			_, err, pn := nagax.SPIRV(m, c.Opts)
			if err != nil || pn != nil {
				k := errClass(fmt.Sprint(err, pn))
				rej[k] = append(rej[k], p.Sig+" ["+c.Label+"]")
			}
		}
	}
	for k, v := range rej {
		ex := v
		if len(ex) > 6 {
			ex = ex[:6]
		}
		fmt.Printf("%5d %s\n      %s\n", len(v), k, strings.Join(ex, "\n      "))
	}
}
