package checks

import (
	"fmt"
	"os"
	"sort"
	"strings"

	"verif/internal/explore"
)

// ---------------------------------------------------------------- C10 generator "features"
// Pairwise (thorough: three-way) feature interaction. A feature snippet is a small self-contained
// group of module-scope declarations (Decl) plus, optionally, statements that use them (Use) inside an
// entry point of a given stage. '$' in a snippet is replaced by a per-position prefix (a_, b_, c_), so
// the identifiers of two snippets are distinct unless a snippet spells a fixed name on purpose (then
// the clash is the point); "%G" is replaced by the position number (0, 1, 2), so that bindings of two
// snippets differ unless a snippet spells a fixed @group.
//
// Layouts of a combination:  0 = every snippet followed by its own entry point;
//                            1 = all declarations, then ONE entry point (stage of the first snippet)
//                                whose body is the snippets' uses in order.
// Enumerated: every snippet alone; all ordered pairs (incl. a snippet with itself) of the pair set in both
// layouts; every other snippet x the mini core in both orders and layouts; thorough: all ordered pairs of all
// snippets and all ordered triples of the core.

type c10Feat struct {
	Name  string
	Decl  string
	Use   string
	Stage byte // 'c', 'f', 'v'; 0 = the snippet gets no generated entry point
	Pair  bool // member of the pair set (all ordered pairs)
	Core  bool // member of the core (triples)
	Mini  bool // member of the mini core (partners of the snippets outside the pair set)
}

var c10Prefixes = []string{"a_", "b_", "c_"}

func (f *c10Feat) inst(s string, pos int) string {
	s = strings.ReplaceAll(s, "%G", fmt.Sprint(pos))
	return strings.ReplaceAll(s, "$", c10Prefixes[pos])
}

func c10EntryPoint(stage byte, name, body string) string {
	switch stage {
	case 'f':
		return "@fragment fn " + name + "() -> @location(0) vec4<f32> {\n" + body + "  return vec4<f32>(0.0);\n}\n"
	case 'v':
		return "@vertex fn " + name + "() -> @builtin(position) vec4<f32> {\n" + body + "  return vec4<f32>(0.0);\n}\n"
	}
	return "@compute @workgroup_size(1) fn " + name + "() {\n" + body + "}\n"
}

func c10RenderFeatures(fs []*c10Feat, layout int) string {
	var b strings.Builder
	if layout == 0 {
		for pos, f := range fs {
			b.WriteString(f.inst(f.Decl, pos))
			b.WriteString("\n")
			if f.Stage != 0 {
				use := ""
				if f.Use != "" {
					use = "  " + f.inst(f.Use, pos) + "\n"
				}
				b.WriteString(c10EntryPoint(f.Stage, c10Prefixes[pos]+"main", use))
			}
		}
		return b.String()
	}
	var body strings.Builder
	stage := byte(0)
	for pos, f := range fs {
		b.WriteString(f.inst(f.Decl, pos))
		b.WriteString("\n")
		if f.Use != "" {
			body.WriteString("  " + f.inst(f.Use, pos) + "\n")
		}
		if stage == 0 {
			stage = f.Stage
		}
	}
	b.WriteString(c10EntryPoint(stage, "a_main", body.String()))
	return b.String()
}

type c10FeatCase struct {
	n       uint8 // number of snippets
	layout  uint8
	a, b, c uint16
}

func genFeatures(thorough bool) c10Gen {
	feats := c10Features()
	seen := map[string]bool{}
	for i := range feats {
		if seen[feats[i].Name] || strings.ContainsAny(feats[i].Name, "+&|") {
			panic("C10 features: duplicate or malformed snippet name " + feats[i].Name)
		}
		seen[feats[i].Name] = true
	}
	var pairSet, core, mini, rest []int
	for i := range feats {
		if feats[i].Core {
			feats[i].Pair = true
			core = append(core, i)
		}
		if feats[i].Mini {
			mini = append(mini, i)
		}
		if feats[i].Pair {
			pairSet = append(pairSet, i)
		} else {
			rest = append(rest, i)
		}
	}
	var cases []c10FeatCase
	for i := range feats {
		cases = append(cases, c10FeatCase{n: 1, a: uint16(i)})
	}
	addPair := func(a, b int) {
		cases = append(cases, c10FeatCase{n: 2, a: uint16(a), b: uint16(b)})
		if feats[a].Stage != 0 && feats[b].Stage != 0 { // otherwise layout 1 adds nothing over layout 0
			cases = append(cases, c10FeatCase{n: 2, layout: 1, a: uint16(a), b: uint16(b)})
		}
	}
	if thorough {
		for a := range feats {
			for b := range feats {
				addPair(a, b)
			}
		}
		for _, a := range core {
			for _, b := range core {
				for _, c := range core {
					cases = append(cases, c10FeatCase{n: 3, a: uint16(a), b: uint16(b), c: uint16(c)})
					cases = append(cases, c10FeatCase{n: 3, layout: 1, a: uint16(a), b: uint16(b), c: uint16(c)})
				}
			}
		}
	} else {
		for _, a := range pairSet {
			for _, b := range pairSet {
				addPair(a, b)
			}
		}
		for _, x := range rest {
			for _, c := range mini {
				addPair(x, c)
				addPair(c, x)
			}
		}
	}
	members := func(c c10FeatCase) []*c10Feat {
		fs := []*c10Feat{&feats[c.a]}
		if c.n >= 2 {
			fs = append(fs, &feats[c.b])
		}
		if c.n >= 3 {
			fs = append(fs, &feats[c.c])
		}
		return fs
	}
	comboName := func(fs []*c10Feat, layout uint8) string {
		sep := "+"
		if layout == 1 {
			sep = "&" // one shared entry point
		}
		var ns []string
		for _, f := range fs {
			ns = append(ns, f.Name)
		}
		return strings.Join(ns, sep)
	}
	// Phase 2 (combinations) leaves out the snippets that kill the process or exceed the CPU cap on
	// their own: every combination holding one would die the same way before anything else is reached,
	// and a process death costs seconds. They stay reported through their single case.
	skip := map[string]bool{}
	for _, n := range strings.Split(os.Getenv("VERIF_C10_FEAT_SKIP"), ",") {
		if n != "" {
			skip[n] = true
		}
	}
	render := func(i int) string { return c10RenderFeatures(members(cases[i]), int(cases[i].layout)) }
	return c10Gen{Name: "features", Count: len(cases), Split: len(feats),
		At: render,
		Many: func(i int) []string {
			if cases[i].n > 1 {
				for _, f := range members(cases[i]) {
					if skip[f.Name] {
						return nil
					}
				}
			}
			return []string{render(i)}
		},
		SkipEnv: func(fails []c10Failure) string {
			var names []string
			seen := map[string]bool{}
			for _, f := range fails {
				c := cases[f.idx]
				if c.n == 1 && (strings.HasPrefix(f.cls, "fatal|") || strings.HasPrefix(f.cls, "cpu-cap|")) && !seen[feats[c.a].Name] {
					seen[feats[c.a].Name] = true
					names = append(names, feats[c.a].Name)
				}
			}
			sort.Strings(names)
			return "VERIF_C10_FEAT_SKIP=" + strings.Join(names, ",")
		},
		Label: func(i int) string { return "features:" + comboName(members(cases[i]), cases[i].layout) },
		Resolve: func(fails []c10Failure) []explore.Violation {
			// (sub-combination name, failure class) of everything that failed
			failed := map[string]bool{}
			for _, f := range fails {
				c := cases[f.idx]
				failed[comboName(members(c), c.layout)+"|"+f.cls] = true
			}
			var out []explore.Violation
			for _, f := range fails {
				c := cases[f.idx]
				fs := members(c)
				name := comboName(fs, c.layout)
				// smallest sub-combination that fails alone in the same way: singles first, then ordered pairs
				found := false
				if c.n >= 2 {
					for _, m := range fs {
						if failed[m.Name+"|"+f.cls] {
							name, found = m.Name, true
							break
						}
					}
				}
				if !found && c.n == 2 && c.layout == 1 && failed[comboName(fs, 0)+"|"+f.cls] {
					name, found = comboName(fs, 0), true // fails the same way with separate entry points
				}
				if !found && c.n == 3 {
				sub:
					for _, pr := range [][2]int{{0, 1}, {0, 2}, {1, 2}} {
						for _, lay := range []uint8{c.layout, 1 - c.layout} {
							n := comboName([]*c10Feat{fs[pr[0]], fs[pr[1]]}, lay)
							if failed[n+"|"+f.cls] {
								name = n
								break sub
							}
						}
					}
				}
				if f.replay != nil {
					f.replay["sig"] = "C10|feat|" + name + "|\x1ffeatures"
				}
				out = append(out, explore.Violation{Key: "C10|feat|" + name + "|" + f.cls, Detail: f.detail, Replay: f.replay})
			}
			return out
		}}
}
