package checks

import (
	"strconv"
	"strings"
)

// A small independent reader of the *declarations* of C-family shader text (HLSL, MSL, GLSL): structs
// with their members, function signatures, global declarations and interface blocks, with the
// annotations each language attaches to them (HLSL `: SEMANTIC` and `: register(..)`, MSL `[[..]]`,
// GLSL `layout(..)` and qualifiers). Function bodies are skipped. It knows nothing of naga.

type ctTok struct {
	s    string
	kind byte // 'i' identifier, 'n' number, 'p' punctuation
}

func ctLex(src string) []ctTok {
	var out []ctTok
	i := 0
	lineStart := true
	var brk []string // open square brackets
	for i < len(src) {
		c := src[i]
		switch {
		case c == '\n':
			lineStart = true
			i++
		case c == ' ' || c == '\t' || c == '\r':
			i++
		case c == '#' && lineStart:
			for i < len(src) && src[i] != '\n' {
				i++
			}
		case c == '/' && i+1 < len(src) && src[i+1] == '/':
			for i < len(src) && src[i] != '\n' {
				i++
			}
		case c == '/' && i+1 < len(src) && src[i+1] == '*':
			j := strings.Index(src[i+2:], "*/")
			if j < 0 {
				i = len(src)
			} else {
				i += j + 4
			}
		case c == '_' || c >= 'a' && c <= 'z' || c >= 'A' && c <= 'Z':
			j := i
			for j < len(src) && (src[j] == '_' || src[j] >= 'a' && src[j] <= 'z' || src[j] >= 'A' && src[j] <= 'Z' || src[j] >= '0' && src[j] <= '9') {
				j++
			}
			out = append(out, ctTok{src[i:j], 'i'})
			i = j
			lineStart = false
		case c >= '0' && c <= '9':
			j := i
			for j < len(src) && (src[j] == '.' || src[j] == '_' || src[j] >= 'a' && src[j] <= 'z' || src[j] >= 'A' && src[j] <= 'Z' || src[j] >= '0' && src[j] <= '9') {
				j++
			}
			out = append(out, ctTok{src[i:j], 'n'})
			i = j
			lineStart = false
		default:
			two := ""
			if i+1 < len(src) {
				two = src[i : i+2]
			}
			switch {
			case two == "[[":
				brk = append(brk, "[[")
				out = append(out, ctTok{"[[", 'p'})
				i += 2
			case c == '[':
				brk = append(brk, "[")
				out = append(out, ctTok{"[", 'p'})
				i++
			case c == ']':
				// `]]` closes an attribute list only if `[[` opened it (`a[b[0]]` is two index brackets)
				if n := len(brk); n > 0 && brk[n-1] == "[[" && two == "]]" {
					out = append(out, ctTok{"]]", 'p'})
					i += 2
				} else {
					out = append(out, ctTok{"]", 'p'})
					i++
				}
				if n := len(brk); n > 0 {
					brk = brk[:n-1]
				}
			case two == "::":
				out = append(out, ctTok{"::", 'p'})
				i += 2
			default:
				out = append(out, ctTok{string(c), 'p'})
				i++
			}
			lineStart = false
		}
	}
	// a::b::c is one (qualified) identifier
	var merged []ctTok
	for k := 0; k < len(out); k++ {
		if out[k].s == "::" && len(merged) > 0 && merged[len(merged)-1].kind == 'i' && k+1 < len(out) && out[k+1].kind == 'i' {
			merged[len(merged)-1].s += "::" + out[k+1].s
			k++
			continue
		}
		merged = append(merged, out[k])
	}
	return merged
}

// ctAttr is one annotation: MSL `user(loc1)` -> {user, [loc1]}, GLSL layout item `location = 1` -> {location, [1]},
// HLSL `register(t0, space1)` -> {register, [t0 space1]}.
type ctAttr struct {
	Name string
	Args []string
}

type ctVar struct {
	Quals    []string // every identifier written before the name (qualifiers and the type's tokens)
	Type     string   // the last type token (e.g. float4, uvec2, VOut)
	Name     string
	Attrs    []ctAttr // MSL [[..]] attributes / GLSL layout(..) items
	Semantic string   // HLSL
	Register *ctAttr  // HLSL register(..)
}

func (v *ctVar) has(q string) bool {
	for _, x := range v.Quals {
		if x == q {
			return true
		}
	}
	return false
}

func (v *ctVar) attr(name string) (ctAttr, bool) {
	for _, a := range v.Attrs {
		if a.Name == name {
			return a, true
		}
	}
	return ctAttr{}, false
}

func (v *ctVar) attrInt(name string) (int, bool) {
	if a, ok := v.attr(name); ok && len(a.Args) > 0 {
		if n, err := strconv.Atoi(a.Args[0]); err == nil {
			return n, true
		}
	}
	return 0, false
}

type ctStruct struct {
	Name    string
	Members []ctVar
}

type ctFunc struct {
	Stage    string // MSL: vertex, fragment, kernel; "" otherwise
	Name     string
	RetType  string
	RetSem   string // HLSL return semantic
	Params   []ctVar
	PreAttrs []ctAttr // HLSL [numthreads(..)] etc.
}

type ctBlock struct {
	Storage  string // uniform, buffer, cbuffer
	Name     string
	Instance string
	Layout   []ctAttr
	Quals    []string
	Register *ctAttr
}

type ctProgram struct {
	Structs []ctStruct
	Funcs   []ctFunc
	Globals []ctVar // global variable declarations (GLSL in/out/uniform, HLSL resources, MSL constants)
	Blocks  []ctBlock
	Stmts   [][]string // other top-level statements as token spellings (e.g. `invariant gl_Position`)
}

func (p *ctProgram) structByName(n string) *ctStruct {
	for i := range p.Structs {
		if p.Structs[i].Name == n {
			return &p.Structs[i]
		}
	}
	return nil
}

func (p *ctProgram) funcByName(n string) *ctFunc {
	for i := range p.Funcs {
		if p.Funcs[i].Name == n {
			return &p.Funcs[i]
		}
	}
	return nil
}

// ctMatch returns the index of the token closing the bracket opened at toks[i].
func ctMatch(toks []ctTok, i int) int {
	open := toks[i].s
	cl := map[string]string{"(": ")", "{": "}", "[": "]", "[[": "]]", "<": ">"}[open]
	depth := 0
	for j := i; j < len(toks); j++ {
		switch toks[j].s {
		case open:
			depth++
		case cl:
			depth--
			if depth == 0 {
				return j
			}
		}
	}
	return len(toks) - 1
}

// ctSplit splits toks at top-level occurrences of sep (brackets of every kind nest; angle brackets
// nest only when angles is set: parameter lists hold types, never comparisons).
func ctSplit(toks []ctTok, sep string, angles bool) [][]ctTok {
	var out [][]ctTok
	depth := 0
	start := 0
	for i, t := range toks {
		switch t.s {
		case "(", "{", "[", "[[":
			depth++
		case ")", "}", "]", "]]":
			depth--
		case "<":
			if angles {
				depth++
			}
		case ">":
			if angles {
				depth--
			}
		default:
			if t.s == sep && depth == 0 {
				out = append(out, toks[start:i])
				start = i + 1
			}
		}
	}
	if start < len(toks) {
		out = append(out, toks[start:])
	}
	return out
}

// ctAttrList parses `a(x, y), b c(z)` (comma or juxtaposition separated) or `k = v, k2` (layout items).
func ctAttrList(toks []ctTok) []ctAttr {
	var out []ctAttr
	for i := 0; i < len(toks); i++ {
		t := toks[i]
		if t.kind != 'i' {
			continue
		}
		a := ctAttr{Name: t.s}
		if i+1 < len(toks) && toks[i+1].s == "(" {
			j := ctMatch(toks, i+1)
			for _, x := range toks[i+2 : j] {
				if x.s != "," {
					a.Args = append(a.Args, x.s)
				}
			}
			i = j
		} else if i+2 < len(toks) && toks[i+1].s == "=" {
			a.Args = []string{toks[i+2].s}
			i += 2
		}
		out = append(out, a)
	}
	return out
}

// ctDecl parses one declarator: [layout(..)] quals type name [array] [[[attrs]]] [: semantic | : register(..)]
func ctDecl(toks []ctTok) ctVar {
	var v ctVar
	var idents []string
	i := 0
	for i < len(toks) {
		t := toks[i]
		switch {
		case t.s == "layout" && i+1 < len(toks) && toks[i+1].s == "(":
			j := ctMatch(toks, i+1)
			v.Attrs = append(v.Attrs, ctAttrList(toks[i+2:j])...)
			i = j + 1
		case t.s == "[[":
			j := ctMatch(toks, i)
			v.Attrs = append(v.Attrs, ctAttrList(toks[i+1:j])...)
			i = j + 1
		case t.s == "[" || t.s == "(":
			i = ctMatch(toks, i) + 1
		case t.s == "<":
			// template arguments belong to the type token before them
			i = ctMatch(toks, i) + 1
		case t.s == ":":
			// HLSL semantic or register
			if i+1 < len(toks) {
				if toks[i+1].s == "register" && i+2 < len(toks) && toks[i+2].s == "(" {
					j := ctMatch(toks, i+2)
					as := ctAttrList(toks[i+1 : j+1])
					if len(as) > 0 {
						v.Register = &as[0]
					}
					i = j + 1
					continue
				}
				if toks[i+1].kind == 'i' {
					v.Semantic = toks[i+1].s
				}
			}
			i += 2
		case t.s == "=":
			i = len(toks)
		case t.kind == 'i':
			idents = append(idents, t.s)
			i++
		default:
			i++
		}
	}
	// the name is the last identifier written before the first annotation; MSL allows an unnamed parameter
	// (`float4 [[position]]`), which shows as a single identifier that is a type
	if n := len(idents); n >= 2 {
		v.Name = idents[n-1]
		v.Quals = idents[:n-1]
		for k := n - 2; k >= 0; k-- {
			if idents[k] != "const" && idents[k] != "volatile" {
				v.Type = idents[k]
				break
			}
		}
	} else if n == 1 {
		v.Type = idents[0]
		v.Quals = idents
	}
	return v
}

func ctSpell(toks []ctTok) []string {
	out := make([]string, len(toks))
	for i, t := range toks {
		out[i] = t.s
	}
	return out
}

func ctMembers(toks []ctTok) []ctVar {
	var out []ctVar
	for _, m := range ctSplit(toks, ";", false) {
		if len(m) == 0 {
			continue
		}
		// nested function definitions inside a struct (MSL helper structs) are not members
		nested := false
		for _, t := range m {
			if t.s == "{" || t.s == "template" || t.s == "operator" {
				nested = true
			}
		}
		if nested {
			continue
		}
		out = append(out, ctDecl(m))
	}
	return out
}

// ctParse reads the top-level declarations of a translation unit.
func ctParse(src string) *ctProgram {
	toks := ctLex(src)
	p := &ctProgram{}
	i := 0
	var pre []ctAttr // HLSL [attribute] lists in front of a function
	for i < len(toks) {
		// one top-level statement: up to `;` at depth 0, or up to the `}` that closes a function body / cbuffer
		start := i
		if toks[i].s == "[" { // HLSL function attribute
			j := ctMatch(toks, i)
			pre = append(pre, ctAttrList(toks[i+1:j])...)
			i = j + 1
			continue
		}
		first := toks[i].s
		brace := -1
		parenBefore := false
		end := -1
		for j := i; j < len(toks); j++ {
			s := toks[j].s
			if s == "(" || s == "[" || s == "[[" {
				if s == "(" && brace < 0 {
					parenBefore = true
				}
				j = ctMatch(toks, j)
				continue
			}
			if s == "{" {
				brace = j
				cl := ctMatch(toks, j)
				isAggregate := first == "struct" || first == "layout" || first == "uniform" || first == "buffer" || first == "readonly" || first == "writeonly" ||
					first == "coherent" || first == "restrict" || first == "volatile" || first == "typedef" || first == "union" || first == "enum"
				if first == "cbuffer" || (!isAggregate && parenBefore) {
					end = cl
					break
				}
				j = cl
				continue
			}
			if s == ";" {
				end = j
				break
			}
		}
		if end < 0 {
			end = len(toks) - 1
		}
		stmt := toks[start : end+1]
		i = end + 1
		switch {
		case first == ";":
		case first == "struct" && brace >= 0:
			st := ctStruct{}
			if len(stmt) > 1 && stmt[1].kind == 'i' {
				st.Name = stmt[1].s
			}
			b := brace - start
			st.Members = ctMembers(stmt[b+1 : ctMatch(stmt, b)])
			p.Structs = append(p.Structs, st)
		case first == "cbuffer":
			bl := ctBlock{Storage: "cbuffer"}
			b := brace - start
			hd := ctDecl(append([]ctTok{{"cbuffer", 'i'}}, stmt[1:b]...))
			bl.Name, bl.Register = hd.Name, hd.Register
			p.Blocks = append(p.Blocks, bl)
		case brace >= 0 && (first == "layout" || first == "uniform" || first == "buffer" || first == "readonly" || first == "writeonly" || first == "coherent" || first == "restrict" || first == "volatile"):
			// GLSL interface block: [layout(..)] quals uniform|buffer Name { .. } [instance];
			b := brace - start
			hd := ctDecl(stmt[:b])
			bl := ctBlock{Name: hd.Name, Layout: hd.Attrs, Quals: hd.Quals}
			if hd.Name == "" { // `uniform Name {`: a single identifier after the storage word is parsed as the type
				bl.Name = hd.Type
			}
			for _, q := range hd.Quals {
				if q == "uniform" || q == "buffer" {
					bl.Storage = q
				}
			}
			cl := ctMatch(stmt, b)
			if cl+1 < len(stmt) && stmt[cl+1].kind == 'i' {
				bl.Instance = stmt[cl+1].s
			}
			p.Blocks = append(p.Blocks, bl)
		case brace >= 0 && parenBefore && first != "typedef":
			// function definition: [stage] ret name ( params ) [: semantic] { body }
			hd := stmt[:brace-start]
			po := -1
			for k, t := range hd {
				if t.s == "(" {
					po = k
					break
				}
				if t.s == "[[" || t.s == "[" || t.s == "<" {
					// skip annotations in the return type
				}
			}
			if po < 1 {
				break
			}
			pc := ctMatch(hd, po)
			f := ctFunc{PreAttrs: pre}
			var ids []string
			for _, t := range hd[:po] {
				if t.kind == 'i' {
					ids = append(ids, t.s)
				}
			}
			if len(ids) == 0 {
				break
			}
			f.Name = ids[len(ids)-1]
			if len(ids) >= 2 {
				f.RetType = ids[len(ids)-2]
			}
			if ids[0] == "vertex" || ids[0] == "fragment" || ids[0] == "kernel" {
				f.Stage = ids[0]
			}
			for _, pt := range ctSplit(hd[po+1:pc], ",", true) {
				if len(pt) > 0 {
					f.Params = append(f.Params, ctDecl(pt))
				}
			}
			for k := pc + 1; k+1 < len(hd); k++ {
				if hd[k].s == ":" && hd[k+1].kind == 'i' {
					f.RetSem = hd[k+1].s
				}
			}
			p.Funcs = append(p.Funcs, f)
			pre = nil
		default:
			body := stmt
			if len(body) > 0 && body[len(body)-1].s == ";" {
				body = body[:len(body)-1]
			}
			if len(body) == 0 {
				break
			}
			isDecl := false
			switch first {
			case "using", "typedef", "precision", "template":
			default:
				isDecl = true
			}
			if isDecl {
				v := ctDecl(body)
				if v.Name != "" {
					p.Globals = append(p.Globals, v)
				}
			}
			p.Stmts = append(p.Stmts, ctSpell(body))
			pre = nil
		}
	}
	return p
}

// semantic "LOC12" -> ("LOC", 12); "SV_Position" -> ("SV_POSITION", 0). HLSL semantics are case-insensitive.
func ctSemantic(s string) (string, int) {
	s = strings.ToUpper(s)
	j := len(s)
	for j > 0 && s[j-1] >= '0' && s[j-1] <= '9' {
		j--
	}
	n := 0
	if j < len(s) {
		n, _ = strconv.Atoi(s[j:])
	}
	return s[:j], n
}

// trailing decimal digits of an identifier ("loc12" -> 12)
func ctTrailingInt(s string) (int, bool) {
	j := len(s)
	for j > 0 && s[j-1] >= '0' && s[j-1] <= '9' {
		j--
	}
	if j == len(s) {
		return 0, false
	}
	n, err := strconv.Atoi(s[j:])
	return n, err == nil
}
