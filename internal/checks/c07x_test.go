package checks

import "testing"

func TestHLSLBufferAccesses(t *testing.T) {
	src := `
ByteAddressBuffer src : register(t0);
RWByteAddressBuffer dst_ : register(u1, space0);
RWByteAddressBuffer o : register(u2);
void main() {
    half _e1 = src.Load<half>(2+8+40); // comment dst_.Load(99)
    float3 _e2 = asfloat(src.Load3(16));
    uint n = src.Load(i*4+8);
    dst_.Store(4+(2*8), asuint(1.0));
    dst_.Store<half3>(8, v);
    dst_.InterlockedAdd(32, 1, _e9);
    o.Store(0, asuint(x.y));
}`
	skipped := 0
	acc := hlslBufferAccesses(src, func(string) { skipped++ })
	if skipped != 1 {
		t.Errorf("skipped %d, want 1 (the non-constant address)", skipped)
	}
	want0 := []hlslAccess{{load: true, addr: 50, size: 2}, {load: true, addr: 16, size: 12}}
	if len(acc[0]) != len(want0) {
		t.Fatalf("src: %+v", acc[0])
	}
	for i, a := range want0 {
		if acc[0][i] != a {
			t.Errorf("src access %d: %+v, want %+v", i, acc[0][i], a)
		}
	}
	want1 := []hlslAccess{{store: true, addr: 20, size: 4}, {store: true, addr: 8, size: 6}, {load: true, store: true, addr: 32, size: 4}}
	if len(acc[1]) != len(want1) {
		t.Fatalf("dst: %+v", acc[1])
	}
	for i, a := range want1 {
		if acc[1][i] != a {
			t.Errorf("dst access %d: %+v, want %+v", i, acc[1][i], a)
		}
	}
	var msgs []string
	leaves := []c07xLeaf{{Path: "dst.a", Off: 20, Width: 4, Class: "float"}, {Path: "dst.b", Off: 8, Width: 2, Class: "half"}}
	c07xHLSLAddresses(acc[1], leaves, leaves, true, func(m string) { msgs = append(msgs, m) })
	// dst.a: stored exactly, never loaded; dst.b: stored with 6 bytes, never loaded; the Interlocked access at 32 is at no leaf
	if len(msgs) != 4 {
		t.Errorf("messages: %q", msgs)
	}
}
