package checks

import (
	"fmt"
	"sort"
	"strings"
	"sync"

	"github.com/gogpu/naga"

	"verif/internal/explore"
	"verif/internal/wgen"
)

// C11G: the generated family  rule x host position x enclosing function x declaration order
// (internal/wgen/c11g*.go, c11scope.go). Every case is a complete program with exactly one offending
// construct whose byte offset and enclosing module-scope declaration are known by construction; every
// host is validated by a control program (the same host with the group's harmless construct) that naga
// must accept before any "rejected" verdict at that host is counted.

type c11Outcome struct {
	accepted bool
	panicked bool
	msg      string
}

func c11Compile(src string) (o c11Outcome) {
	defer func() {
		if rec := recover(); rec != nil {
			o = c11Outcome{panicked: true}
		}
	}()
	out, err := naga.Compile(src)
	if err == nil && len(out) > 0 {
		return c11Outcome{accepted: true}
	}
	if err != nil {
		o.msg = err.Error()
	}
	return o
}

// c11Judge applies the property's oracle to an offending program: rejected, position inside the
// source, and (semantic rules) inside [lo,hi), the module-scope declaration holding the construct.
func c11Judge(o c11Outcome, src string, lo, hi int) (what, detail string) {
	if o.accepted {
		return "accepted", "the program was compiled to SPIR-V without any error"
	}
	line, col, ok := errorPos(o.msg)
	if !ok {
		return "no-position", "error has no line:column: " + trunc(o.msg, 200)
	}
	off, inb := offsetOf(src, line, col)
	if !inb {
		return "position-out-of-bounds", fmt.Sprintf("reported %d:%d lies outside the source (%s)", line, col, trunc(o.msg, 160))
	}
	if off < lo || off >= hi {
		return "position-outside-declaration", fmt.Sprintf("reported %d:%d (byte %d) is outside the module-scope declaration [%d,%d) containing the offending construct (%s)", line, col, off, lo, hi, trunc(o.msg, 160))
	}
	return "", ""
}

type c11gStats struct {
	mu   sync.Mutex
	dead map[string]int // host class (without function kind / order) + group -> count of rejected controls
	live map[string]int // family -> live control count
	rule map[string]int // rule -> offenders judged
}

func (s *c11gStats) deadHost(class string) {
	s.mu.Lock()
	s.dead[class]++
	s.mu.Unlock()
}

// deadKeys: a dead control of host "form/ctx" and group g is recorded under its form, its context, its
// group and the (context, form) combination, so that the evidence shows which template combinations are
// not live without listing every host.
func deadKeys(class string) []string {
	host, grp, ok := strings.Cut(class, " x ")
	form, ctx, ok2 := strings.Cut(host, "/")
	if !ok || !ok2 {
		return []string{class}
	}
	return []string{"by-form " + form, "by-context " + ctx, "by-group " + grp, "by-context-and-form " + ctx + " x " + form}
}

func (s *c11gStats) add(m map[string]int, k string, n int) {
	s.mu.Lock()
	m[k] += n
	s.mu.Unlock()
}

// judgeOffender compiles one offending program and records the verdict.
func c11gOffender(r *explore.Run, st *c11gStats, p wgen.C11Prog, text, rule, class, family string, extra map[string]any) {
	if text != "" && (p.Site < 0 || p.Site+len(text) > len(p.Src) || p.Src[p.Site:p.Site+len(text)] != text) {
		panic("C11G generator: site offset does not point at the construct: " + rule + " " + class)
	}
	r.Count("evaluations", 1)
	r.Count("offenders_"+family, 1)
	r.Distinct(family + ":" + rule)
	st.add(st.rule, strings.SplitN(rule, "(", 2)[0], 1)
	o := c11Compile(p.Src)
	if o.panicked {
		r.Skip("naga panic (belongs to C10)")
		return
	}
	what, detail := c11Judge(o, p.Src, p.Lo, p.Hi)
	if what == "" {
		return
	}
	rp := map[string]any{"family": family, "rule": rule, "host_class": class, "construct": text, "site_offset": p.Site, "declaration_extent": []int{p.Lo, p.Hi}, "src": p.Src}
	for k, v := range extra {
		rp[k] = v
	}
	r.Violate(explore.Violation{Key: "C11|" + family + ":" + rule + "|" + what + "|" + class,
		Detail: fmt.Sprintf("rule %s broken by `%s` at byte %d (host %s): %s", rule, text, p.Site, class, detail), Replay: rp})
}

// c11gControl compiles a valid control; false = the host is not live (counted, never a violation).
func c11gControl(r *explore.Run, st *c11gStats, src, family, deadClass string) bool {
	r.Count("evaluations", 1)
	r.Count("controls_"+family, 1)
	o := c11Compile(src)
	if o.accepted {
		st.add(st.live, family, 1)
		return true
	}
	r.Skip("valid control not accepted: host not live for this construct group (" + family + ")")
	for _, k := range deadKeys(deadClass) {
		st.deadHost(family + ":" + k)
	}
	return false
}

type c11gJob struct {
	kind             byte // 'f' function-level, 'm' module-level, 'b' binding, 'w' workgroup, 's' scope, 't' token edits
	a, b, c, d, e, f int32
}

func runC11G(r *explore.Run) {
	st := &c11gStats{dead: map[string]int{}, live: map[string]int{}, rule: map[string]int{}}
	thorough := r.Thorough()
	ctxs := wgen.C11Ctxs(thorough)
	forms := wgen.C11Forms
	groups := wgen.C11Groups
	var jobs []c11gJob

	// ---- function-level hosts
	nHosts := 0
	for fi := range forms {
		f := &forms[fi]
		for ci := range ctxs {
			c := &ctxs[ci]
			if c.Depth == 2 && !thorough && !f.Basic {
				continue
			}
			if c.Depth == 3 && !f.Basic {
				continue
			}
			nHosts++
			// position of the statement in its list: statement-hole forms take all three positions; the
			// others rotate over (form, context) in the quick tier and take all three at depth 1 in thorough
			var poss []int32
			if f.Kind == 's' || (thorough && c.Depth == 1) {
				poss = []int32{0, 1, 2}
			} else {
				poss = []int32{int32((2*fi + ci) % 3)}
			}
			if f.Last {
				poss = []int32{2}
			}
			for _, pos := range poss {
				for fnk := 0; fnk < 3; fnk++ {
					for gi := range groups {
						g := &groups[gi]
						if !wgen.C11Applicable(f, g, fnk) {
							continue
						}
						if g.Light && (c.Depth == 3 || (!thorough && (fi+ci)%3 != 0)) {
							continue
						}
						nord := 1
						if g.OrderDep || len(f.Needs) > 0 {
							nord = 2
						}
						for ord := 0; ord < nord; ord++ {
							jobs = append(jobs, c11gJob{kind: 'f', a: int32(fi), b: int32(ci), c: pos, d: int32(fnk), e: int32(gi), f: int32(ord)})
						}
					}
				}
			}
		}
	}
	r.Extra("g_function_hosts(form x context)", nHosts)
	r.Extra("g_forms", len(forms))
	r.Extra("g_block_contexts", len(ctxs))
	r.Extra("g_construct_groups", len(groups))

	// ---- module-level hosts
	for hi := range wgen.C11ModHosts {
		h := &wgen.C11ModHosts[hi]
		for _, ord := range wgen.C11ModOrders(h) {
			for gi := range groups {
				g := &groups[gi]
				if g.Kind != h.Kind || (g.Kind != 't' && !g.ModOK) {
					continue
				}
				jobs = append(jobs, c11gJob{kind: 'm', a: int32(hi), b: int32(ord), e: int32(gi)})
			}
		}
	}
	r.Extra("g_module_hosts", len(wgen.C11ModHosts))
	// ---- bindings
	for ri := range wgen.C11Resources {
		for ord := range wgen.C11BindingOrderNames {
			jobs = append(jobs, c11gJob{kind: 'b', a: int32(ri), b: int32(ord)})
		}
	}
	// ---- workgroup size
	for wi := range wgen.C11WorkgroupCases {
		jobs = append(jobs, c11gJob{kind: 'w', a: int32(wi)})
	}
	// ---- scope pairs
	skels := wgen.C11Skeletons(thorough)
	pairs := make([][]wgen.C11ScopePair, len(skels))
	nPairs := 0
	for si, sk := range skels {
		pairs[si] = sk.Pairs()
		nPairs += len(pairs[si])
		for fnk := 0; fnk < 3; fnk++ {
			// one job per (skeleton, fn kind, declaration slot): the pairs of that slot
			for d := 0; d < sk.NumSlots(); d++ {
				jobs = append(jobs, c11gJob{kind: 's', a: int32(si), b: int32(fnk), c: int32(d)})
			}
		}
	}
	r.Extra("g_scope_skeletons", len(skels))
	r.Extra("g_scope_pairs(decl slot x use slot)", nPairs)
	// ---- token edits (';' and delimiters) on the generated host programs
	for fi := range forms {
		for ci := range ctxs {
			if ctxs[ci].Depth == 1 || (ctxs[ci].Depth == 2 && forms[fi].Basic && thorough) {
				jobs = append(jobs, c11gJob{kind: 't', a: int32(fi), b: int32(ci)})
			}
		}
	}
	r.Extra("g_jobs", len(jobs))

	r.ParallelFor(len(jobs), func(i int) {
		j := jobs[i]
		switch j.kind {
		case 'f':
			c11gFunctionJob(r, st, &forms[j.a], &ctxs[j.b], int(j.c), int(j.d), int(j.f), &groups[j.e])
		case 'm':
			c11gModuleJob(r, st, &wgen.C11ModHosts[j.a], int(j.b), &groups[j.e])
		case 'b':
			c11gBindingJob(r, st, &wgen.C11Resources[j.a], int(j.b))
		case 'w':
			c11gWorkgroupJob(r, st, int(j.a))
		case 's':
			c11gScopeJob(r, st, skels[j.a], pairs[j.a], int(j.b), int(j.c))
		case 't':
			c11gTokenJob(r, st, &forms[j.a], &ctxs[j.b])
		}
	})

	// ---- evidence
	r.Extra("g_live_controls", st.live)
	r.Extra("g_offenders_per_rule", st.rule)
	deadTotal := 0
	dm := map[string]int{}
	type kv struct {
		k string
		n int
	}
	var combos []kv
	for k, n := range st.dead {
		if strings.Contains(k, ":by-context-and-form ") {
			combos = append(combos, kv{k, n})
			continue
		}
		dm[k] = n
		if !strings.Contains(k, ":by-context ") && !strings.Contains(k, ":by-group ") {
			deadTotal += n
		}
	}
	sort.Slice(combos, func(i, j int) bool {
		if combos[i].n != combos[j].n {
			return combos[i].n > combos[j].n
		}
		return combos[i].k < combos[j].k
	})
	for i, e := range combos {
		if i >= 60 {
			dm["(more context-and-form combinations with dead controls)"] = len(combos) - 60
			break
		}
		dm[e.k] = e.n
	}
	r.Extra("g_dead_controls_total", deadTotal)
	r.Extra("g_dead_controls(rejected valid controls; those hosts are not judged for that group)", dm)
	r.Sample(map[string]any{"family": "G", "example": wgen.C11Render(&forms[16], &ctxs[3], 1, wgen.C11FnHelperAfter, 1, &groups[5], groups[5].Offs[0].Text).Src})
}

func c11gFunctionJob(r *explore.Run, st *c11gStats, f *wgen.C11Form, c *wgen.C11Ctx, pos, fnk, ord int, g *wgen.C11Group) {
	class := f.Name + "/" + c.Name + "/" + wgen.C11FnKindNames[fnk] + "/" + wgen.C11OrderNames[ord]
	ctl := wgen.C11Render(f, c, pos, fnk, ord, g, g.Control)
	if !c11gControl(r, st, ctl.Src, "G", f.Name+"/"+c.Name+" x "+g.Name) {
		return
	}
	for i := range g.Offs {
		o := &g.Offs[i]
		p := wgen.C11Render(f, c, pos, fnk, ord, g, o.Text)
		c11gOffender(r, st, p, o.Text, o.Rule+"("+g.Name+":"+o.Var+")", class, "G", map[string]any{"position_in_block": pos})
	}
}

func c11gModuleJob(r *explore.Run, st *c11gStats, h *wgen.C11ModHost, ord int, g *wgen.C11Group) {
	class := h.Name + "/" + wgen.C11ModOrderNames[ord]
	ctl := wgen.C11RenderMod(h, ord, g, g.Control)
	if !c11gControl(r, st, ctl.Src, "M", h.Name+" x "+g.Name) {
		return
	}
	for i := range g.Offs {
		o := &g.Offs[i]
		p := wgen.C11RenderMod(h, ord, g, o.Text)
		c11gOffender(r, st, p, o.Text, o.Rule+"("+g.Name+":"+o.Var+")", class, "M", nil)
	}
}

func c11gBindingJob(r *explore.Run, st *c11gStats, res *wgen.C11Resource, ord int) {
	class := res.Name + "/" + wgen.C11BindingOrderNames[ord]
	live := true
	for a, at := range wgen.C11BindingAttrs {
		if at.Valid && !c11gControl(r, st, wgen.C11RenderBinding(res, a, ord).Src, "B", res.Name+"/"+wgen.C11BindingOrderNames[ord]+" x "+at.Name) {
			live = false
		}
	}
	if !live {
		return
	}
	for a, at := range wgen.C11BindingAttrs {
		if !at.Valid {
			p := wgen.C11RenderBinding(res, a, ord)
			c11gOffender(r, st, p, at.Text, "binding-pairing("+at.Name+")", class, "B", nil)
		}
	}
}

func c11gWorkgroupJob(r *explore.Run, st *c11gStats, wi int) {
	name := wgen.C11WorkgroupCases[wi].Name
	if !c11gControl(r, st, wgen.C11RenderWorkgroup(wi, true).Src, "W", name) {
		return
	}
	c11gOffender(r, st, wgen.C11RenderWorkgroup(wi, false), "", "missing-workgroup-size", name, "W", nil)
}

func c11gScopeJob(r *explore.Run, st *c11gStats, sk *wgen.C11Skeleton, pairs []wgen.C11ScopePair, fnk, d int) {
	// the skeleton itself (no declaration, no use) must be accepted
	for _, p := range pairs {
		if p.D != d {
			continue
		}
		for dk := range wgen.C11DeclKindNames {
			if sk.SlotIsForInit(p.D) && dk != 1 {
				continue // a for-initialiser declares with `var` only
			}
			nuk := 1
			if dk == 1 && sk.SlotIsStmt(p.U) {
				nuk = 2
			}
			for uk := 0; uk < nuk; uk++ {
				class := sk.Name + ":" + sk.SlotLabel(p.D) + "->" + sk.SlotLabel(p.U) + "/" + wgen.C11FnKindNames[fnk]
				rule := "undeclared-identifier(out-of-scope:" + wgen.C11DeclKindNames[dk] + ":" + wgen.C11UseKindNames[uk] + ")"
				if sk.Visible(p) {
					// WGSL says the name is in scope: a valid control (its rejection is not C11's business)
					r.Count("evaluations", 1)
					r.Count("scope_visible_pairs", 1)
					o := c11Compile(sk.Render(p, dk, uk, fnk, false).Src)
					if !o.accepted {
						r.Skip("scope pair that WGSL declares visible is not accepted (not a C11 matter)")
						st.deadHost("S-visible:skeleton " + sk.Name)
					} else {
						st.add(st.live, "S-visible", 1)
					}
					continue
				}
				if !c11gControl(r, st, sk.Render(p, dk, uk, fnk, true).Src, "S", "skeleton "+sk.Name) {
					continue
				}
				c11gOffender(r, st, sk.Render(p, dk, uk, fnk, false), "k", rule, class, "S", nil)
			}
		}
	}
}

// token edits: every mandatory ';' and every delimiter of the host function of a generated (valid)
// host program is deleted, with the exact-token rule of the seed-based check.
func c11gTokenJob(r *explore.Run, st *c11gStats, f *wgen.C11Form, c *wgen.C11Ctx) {
	g := &wgen.C11Group{Kind: f.Kind, Control: "4", Needs: []string{"sink"}}
	switch f.Kind {
	case 's':
		g.Control = "sink(1);"
	case 't':
		g.Control = "array<i32, 4>"
	}
	fnk := wgen.C11FnHelperBefore
	p := wgen.C11Render(f, c, 1, fnk, 0, g, g.Control)
	if !c11gControl(r, st, p.Src, "T", f.Name+"/"+c.Name) {
		return
	}
	s := analyse("G/"+f.Name+"/"+c.Name, p.Src)
	c11Edits(s, func(e c11Edit) {
		if e.rule != "missing-semicolon" && e.rule != "unbalanced-delimiter" {
			return
		}
		if e.site < p.Lo || e.site >= p.Hi {
			return
		}
		r.Count("offenders_T", 1)
		st.add(st.rule, e.rule, 1)
		c11Check(r, s, e)
	})
}

// c11RichSeeds: small programs containing every declaration kind and every statement kind, used as
// additional seeds of the token-edit rules (missing ';' after every statement and declaration kind,
// every delimiter at every nesting level).
var c11RichSeeds = []wgen.Micro{
	{Name: "rich/all-declaration-and-statement-kinds", Src: `struct P {
    a: i32,
    b: vec2<f32>,
}
alias AI = array<i32, 4>;
const C1: i32 = 3;
const C2 = C1 + 1;
override O1: i32 = 2;
override O2: f32;
var<private> pv: i32 = 1;
var<workgroup> wv: array<i32, 4>;
@group(0) @binding(0) var<uniform> ub: vec4<f32>;
@group(0) @binding(1) var<storage, read_write> sb: AI;
@group(0) @binding(2) var tx: texture_2d<f32>;
@group(0) @binding(3) var sm: sampler;
const_assert C1 == 3;
fn helper(a: i32, p: ptr<function, i32>) -> i32 {
    *p = a;
    return a + C2;
}
fn no_result(a: i32) {
    pv = a;
    return;
}
@fragment
fn fsmain(@location(0) uv: vec2<f32>) -> @location(0) vec4<f32> {
    if uv.x < 0.0 {
        discard;
    }
    return textureSample(tx, sm, uv);
}
@compute @workgroup_size(2, 1, 1)
fn main(@builtin(local_invocation_index) li: u32) {
    var acc = C1;
    let q = P(1, vec2<f32>(1.0, 2.0));
    const lc = 2;
    var arr: array<i32, 4>;
    for (var i = 0; i < 4; i++) {
        if i == 2 {
            continue;
        }
        acc += i;
    }
    loop {
        acc++;
        if acc > 10 {
            break;
        }
        continuing {
            acc += lc;
            break if acc > 20;
        }
    }
    while acc > 0 {
        acc--;
    }
    switch acc {
        case 1, 2: {
            acc = 2;
        }
        default: {
            arr[1] = acc;
        }
    }
    {
        let inner = arr[(acc + 1) % 4];
        acc = max(inner, (acc - 1));
    }
    _ = helper(acc, &acc);
    no_result(acc);
    wv[li % 4u] = acc;
    workgroupBarrier();
    sb[0] = wv[0] + pv + q.a + i32(ub.x);
    const_assert lc == 2;
    return;
}
`},
}
