package checks

import (
	"fmt"
	"strings"

	"github.com/gogpu/naga/ir"

	"verif/internal/explore"
	"verif/internal/nagax"
	"verif/internal/wgen"
)

// C09, entry-point and resource bindings at the IR level: the module lowered from every F5X program
// (one interface written with every permutation of every attribute list; see wgen/f5x.go) must carry
// exactly the bindings the WGSL text states, whatever the order of the attributes: @location,
// @interpolate (defaults filled in or left empty), @blend_src, @builtin, @invariant per argument /
// result / struct member, member offsets under @size/@align, @group/@binding, address space and access
// of every resource, stage and workgroup size of every entry point, @id of every override; every
// input/output bound, no two inputs (outputs) of an entry point on one location (+ blend source).
// The plain-attribute subset (F5Xlight) is also contributed to the shared valid-program families, so
// that C02/C08/C09 see attribute orders the test-suite never uses; the remaining F5X programs go
// through the strict validator here.

func init() {
	validExtra = append(validExtra, func(thorough bool) *wgen.Family { return wgen.F5XLight() })
	extraFamilyByName["F5Xlight"] = wgen.F5XLight
	c09Extra = append(c09Extra, c09IOPass)
	perProgram["C09"] = func(r *explore.Run, p *prog) {
		if strings.HasPrefix(p.Sig, "F5X/") && p.Case == nil {
			for _, x := range wgen.F5XPrograms(true) {
				if x.Sig == p.Sig {
					c09IOProgram(r, x, nil)
					return
				}
			}
		}
		c09Program(r, p, nil)
	}
}

type c09Item struct {
	name    string
	ty      ir.TypeHandle
	binding *ir.Binding
	offset  int // struct members: byte offset, -1 otherwise
}

func c09Flatten(m *ir.Module, name string, ty ir.TypeHandle, b *ir.Binding) []c09Item {
	if b != nil && *b != nil {
		return []c09Item{{name: name, ty: ty, binding: b, offset: -1}}
	}
	if int(ty) < len(m.Types) {
		if st, ok := m.Types[ty].Inner.(ir.StructType); ok {
			var out []c09Item
			for i := range st.Members {
				mb := &st.Members[i]
				out = append(out, c09Item{name: mb.Name, ty: mb.Type, binding: mb.Binding, offset: int(mb.Offset)})
			}
			return out
		}
	}
	return []c09Item{{name: name, ty: ty, binding: nil, offset: -1}}
}

var c09Builtin = map[string]ir.BuiltinValue{"position": ir.BuiltinPosition, "vertex_index": ir.BuiltinVertexIndex, "instance_index": ir.BuiltinInstanceIndex,
	"front_facing": ir.BuiltinFrontFacing, "frag_depth": ir.BuiltinFragDepth, "sample_index": ir.BuiltinSampleIndex, "sample_mask": ir.BuiltinSampleMask,
	"local_invocation_id": ir.BuiltinLocalInvocationID, "local_invocation_index": ir.BuiltinLocalInvocationIndex, "global_invocation_id": ir.BuiltinGlobalInvocationID,
	"workgroup_id": ir.BuiltinWorkGroupID, "num_workgroups": ir.BuiltinNumWorkGroups}

var c09Stage = map[string]ir.ShaderStage{"vertex": ir.StageVertex, "fragment": ir.StageFragment, "compute": ir.StageCompute}

func c09DescribeBinding(b *ir.Binding) string {
	if b == nil || *b == nil {
		return "(no binding)"
	}
	switch x := (*b).(type) {
	case ir.BuiltinBinding:
		return fmt.Sprintf("builtin(%d) invariant=%v", x.Builtin, x.Invariant)
	case *ir.BuiltinBinding:
		return fmt.Sprintf("builtin(%d) invariant=%v", x.Builtin, x.Invariant)
	case ir.LocationBinding:
		return c09DescribeLoc(&x)
	case *ir.LocationBinding:
		return c09DescribeLoc(x)
	}
	return fmt.Sprintf("%T", *b)
}

func c09DescribeLoc(l *ir.LocationBinding) string {
	s := fmt.Sprintf("location(%d)", l.Location)
	if l.Interpolation != nil {
		s += fmt.Sprintf(" interpolation(kind %d, sampling %d)", l.Interpolation.Kind, l.Interpolation.Sampling)
	}
	if l.BlendSrc != nil {
		s += fmt.Sprintf(" blend_src(%d)", *l.BlendSrc)
	}
	return s
}

// natural (align, size) of the IO types used by F5X
func c09AlignSize(t string) (int, int) {
	switch t {
	case "f32", "u32", "i32":
		return 4, 4
	case "vec2<f32>", "vec2<i32>", "vec2<u32>":
		return 8, 8
	case "vec3<f32>", "vec3<u32>", "vec3<i32>":
		return 16, 12
	case "vec4<f32>", "vec4<u32>", "vec4<i32>":
		return 16, 16
	}
	return 0, 0 // bool and others: no host-shareable layout
}

func c09IOProgram(r *explore.Run, p *wgen.F5XProgram, st *c09Stats) {
	m, _, err, pn := nagax.Front(p.Src)
	if pn != nil || err != nil {
		r.Skip("front end rejected/panicked (belongs to C08/C10)")
		return
	}
	if !p.Light || p.IROnly {
		// not part of the shared families: the strict validator is applied here
		c09Program(r, &prog{Sig: p.Sig, Src: p.Src}, st)
	}
	r.Count("evaluations", 1)
	r.Count("interface_model_evaluations", 1)
	seen := map[string]bool{}
	fail := func(rule, detail string) {
		key := "C09|" + rule + "|" + p.Class
		if seen[key] {
			return
		}
		seen[key] = true
		r.Violate(explore.Violation{Key: key, Detail: "lowered module of " + p.Sig + ": " + rule + ": " + detail + "\n" + p.Src, Replay: map[string]any{"sig": p.Sig, "src": p.Src}})
	}
	// resources
	for _, res := range p.Resources {
		var g *ir.GlobalVariable
		for i := range m.GlobalVariables {
			if m.GlobalVariables[i].Name == res.Name {
				g = &m.GlobalVariables[i]
			}
		}
		if g == nil {
			fail("io-resource-missing", "no global variable named "+res.Name)
			continue
		}
		if g.Binding == nil || int(g.Binding.Group) != res.Group || int(g.Binding.Binding) != res.Binding {
			fail("io-resource-binding", fmt.Sprintf("%s: binding %+v, WGSL says @group(%d) @binding(%d)", res.Name, g.Binding, res.Group, res.Binding))
		}
		wantSpace := ir.SpaceHandle
		switch res.Kind {
		case "uniform":
			wantSpace = ir.SpaceUniform
		case "storage_ro", "storage_rw":
			wantSpace = ir.SpaceStorage
		}
		if g.Space != wantSpace {
			fail("io-resource-space", fmt.Sprintf("%s (%s): address space %d, want %d", res.Name, res.Kind, g.Space, wantSpace))
		}
		if res.Kind == "storage_ro" && g.Access != ir.StorageRead || res.Kind == "storage_rw" && g.Access != ir.StorageReadWrite {
			fail("io-resource-access", fmt.Sprintf("%s (%s): access mode %d", res.Name, res.Kind, g.Access))
		}
	}
	// overrides
	for _, ov := range p.Overrides {
		var o *ir.Override
		for i := range m.Overrides {
			if m.Overrides[i].Name == ov.Name {
				o = &m.Overrides[i]
			}
		}
		if o == nil {
			fail("io-override-missing", "no override named "+ov.Name)
			continue
		}
		if ov.ID < 0 && o.ID != nil || ov.ID >= 0 && (o.ID == nil || int(*o.ID) != ov.ID) {
			got := "none"
			if o.ID != nil {
				got = fmt.Sprint(*o.ID)
			}
			fail("io-override-id", fmt.Sprintf("%s: @id %s, WGSL says %d (-1 = none)", ov.Name, got, ov.ID))
		}
	}
	// entry points
	for _, e := range p.Entries {
		var ep *ir.EntryPoint
		for i := range m.EntryPoints {
			if m.EntryPoints[i].Name == e.Name {
				ep = &m.EntryPoints[i]
			}
		}
		if ep == nil {
			fail("io-entry-point-missing", e.Name)
			continue
		}
		if ep.Stage != c09Stage[e.Stage] {
			fail("io-stage", fmt.Sprintf("%s: stage %d, WGSL says %s", e.Name, ep.Stage, e.Stage))
		}
		if e.Stage == "compute" && (int(ep.Workgroup[0]) != e.Workgroup[0] || int(ep.Workgroup[1]) != e.Workgroup[1] || int(ep.Workgroup[2]) != e.Workgroup[2]) {
			fail("io-workgroup-size", fmt.Sprintf("%s: workgroup size %v, WGSL says %v", e.Name, ep.Workgroup, e.Workgroup))
		}
		var ins, outs []c09Item
		for _, a := range ep.Function.Arguments {
			ins = append(ins, c09Flatten(m, a.Name, a.Type, a.Binding)...)
		}
		if res := ep.Function.Result; res != nil {
			outs = c09Flatten(m, "(result)", res.Type, res.Binding)
		}
		check := func(dir string, ios []wgen.F5XIO, items []c09Item) {
			if len(ios) != len(items) {
				fail("io-count:"+dir, fmt.Sprintf("%s: %d %sputs in the IR, %d in the WGSL text", e.Name, len(items), dir, len(ios)))
				return
			}
			type slot struct{ loc, src int }
			taken := map[slot]string{}
			off := 0
			for i, io := range ios {
				it := items[i]
				wh := c17Where(e, dir, i)
				tag := fmt.Sprintf("%s %s %s [%s]", e.Name, dir, io.Name, strings.Join(io.Attrs, " "))
				if it.binding == nil || *it.binding == nil {
					fail("io-binding-missing"+wh, tag+": no binding in the IR")
					continue
				}
				var bb *ir.BuiltinBinding
				var lb *ir.LocationBinding
				switch x := (*it.binding).(type) {
				case ir.BuiltinBinding:
					bb = &x
				case *ir.BuiltinBinding:
					bb = x
				case ir.LocationBinding:
					lb = &x
				case *ir.LocationBinding:
					lb = x
				}
				if io.Builtin != "" {
					if bb == nil || bb.Builtin != c09Builtin[io.Builtin] {
						fail("io-builtin"+wh, tag+": IR binding is "+c09DescribeBinding(it.binding))
					} else if bb.Invariant != io.Invariant {
						fail("io-invariant"+wh, fmt.Sprintf("%s: Invariant=%v in the IR", tag, bb.Invariant))
					}
				} else {
					if lb == nil || int(lb.Location) != io.Location {
						fail("io-location"+wh, tag+": IR binding is "+c09DescribeBinding(it.binding))
						continue
					}
					if io.BlendSrc >= 0 && (lb.BlendSrc == nil || int(*lb.BlendSrc) != io.BlendSrc) || io.BlendSrc < 0 && lb.BlendSrc != nil {
						fail("io-blend-src"+wh, tag+": IR binding is "+c09DescribeBinding(it.binding))
					}
					src := -1
					if lb.BlendSrc != nil {
						src = int(*lb.BlendSrc)
					}
					if other, dup := taken[slot{int(lb.Location), src}]; dup {
						fail("io-binding-conflict"+wh, fmt.Sprintf("%s and %s are both bound at %s", tag, other, c09DescribeBinding(it.binding)))
					}
					taken[slot{int(lb.Location), src}] = io.Name
					if c17Interstage(e.Stage, dir) {
						w := c17WantInterp(io)
						got := c17Interp{}
						if lb.Interpolation == nil {
							got.flat = f5xIsIntType(io.Type) // nothing recorded: the WGSL default of the type
						} else {
							got.flat = lb.Interpolation.Kind == ir.InterpolationFlat
							got.linear = lb.Interpolation.Kind == ir.InterpolationLinear
							if !got.flat {
								got.centroid = lb.Interpolation.Sampling == ir.SamplingCentroid
								got.sample = lb.Interpolation.Sampling == ir.SamplingSample
							}
						}
						if got != w {
							fail("io-interpolation"+wh, fmt.Sprintf("%s: IR binding is %s, WGSL says %v", tag, c09DescribeBinding(it.binding), w))
						}
					}
				}
				// member offsets under @size/@align (structs of host-shareable members only)
				if wh == ":member" && off >= 0 {
					al, sz := c09AlignSize(io.Type)
					if al == 0 {
						off = -1
						continue
					}
					if io.Align != 0 {
						al = io.Align
					}
					if io.Size != 0 {
						sz = io.Size
					}
					off = (off + al - 1) / al * al
					if it.offset != off {
						fail("io-member-offset", fmt.Sprintf("%s: member offset %d in the IR, WGSL layout says %d", tag, it.offset, off))
					}
					off += sz
				}
			}
		}
		check("in", e.Inputs, ins)
		check("out", e.Outputs, outs)
	}
	r.Distinct("io:" + p.Class)
}

// c09IOPass is the interface pass over the F5X programs (contributed to runC09 through c09Extra).
func c09IOPass(r *explore.Run, st *c09Stats) string {
	xs := wgen.F5XPrograms(r.Thorough())
	r.Count("programs", int64(len(xs)))
	r.Extra("family_F5X", len(xs))
	r.ParallelFor(len(xs), func(i int) { c09IOProgram(r, xs[i], st) })
	if len(xs) > 0 {
		r.Sample(map[string]any{"program": xs[len(xs)/3].Sig, "source": xs[len(xs)/3].Src})
	}
	return "; in addition every F5X interface program (every permutation of every IO/resource/entry-point attribute list: @location x every legal @interpolate x 8 types x struct member/shared struct/bare/mixed parameter x @size/@align, @blend_src pairs, @builtin+@invariant, every builtin, @group/@binding order for 8 resource kinds, @compute/@workgroup_size order, @id overrides in every order) is lowered and its entry-point bindings, member offsets, resource bindings/spaces/access modes, stages, workgroup sizes and override ids are compared with the interface model of the generator (complete, conflict-free, independent of attribute order), and passed through the strict validator"
}
