package checks

import (
	"encoding/binary"
	"errors"
	"fmt"
	"math"
	"strings"
	"time"

	"github.com/gogpu/naga/ir"
	"github.com/gogpu/naga/msl"

	"verif/internal/explore"
	"verif/internal/nagax"
	"verif/internal/wgen"
	"verif/internal/wref"
	"verif/internal/xrt"
)

func init() {
	Registry["C15"] = runC15
	perProgram["C15"] = func(r *explore.Run, p *prog) { c15Program(r, p) }
}

type c15Config struct {
	backend string
	label   string
	oob     int // wref policy for dynamic accesses; -1 = this backend offers no index policy (access family not applicable)
	run     func(m *ir.Module, c *wgen.Case, o xrt.Opts) (xrt.Buffers, string, error, *nagax.Panic)
}

func c15Configs() []c15Config {
	var out []c15Config
	first := func(be *semBackend) semConfig { return be.configs(0)[0] }
	out = append(out, c15Config{"spirv", "default", -1, first(spirvBackend()).run})
	out = append(out, c15Config{"hlsl", "default(restrict+zeroinit)", wref.OOBClamp, first(hlslBackend()).run})
	out = append(out, c15Config{"glsl", "450", -1, first(glslBackend()).run})
	mk := func(pol msl.BoundsCheckPolicy) func(m *ir.Module, c *wgen.Case, o xrt.Opts) (xrt.Buffers, string, error, *nagax.Panic) {
		be := mslBackend()
		for _, cfg := range be.configs(2) {
			want := ""
			if pol == msl.BoundsCheckRestrict {
				want = "idx=restrict+buf=restrict"
			} else {
				want = "default"
			}
			if cfg.label == want {
				return cfg.run
			}
		}
		panic("msl config not found")
	}
	out = append(out, c15Config{"msl", "index+buffer=restrict", wref.OOBClamp, mk(msl.BoundsCheckRestrict)})
	out = append(out, c15Config{"msl", "index+buffer=read-zero-skip-write(default)", wref.OOBZeroSkip, mk(msl.BoundsCheckReadZeroSkipWrite)})
	return out
}

// convAlternatives: for a float->int conversion case, the set of acceptable values per output leaf:
// NaN input -> any value; out-of-range -> the WGSL clamp or the clamp through the nearest float.
func convAccept(c *wgen.Case, got xrt.Buffers) string {
	in := c.Bufs[xrt.Binding{Group: 0, Binding: 0}]
	outK := xrt.Binding{Group: 0, Binding: 1}
	t := c.BufTypes[outK]
	offs := wgen.LeafOffsets(t, 0, nil)
	toI32 := t.Leaf(0) == wgen.I32
	g := got[outK]
	for li, o := range offs {
		f := math.Float32frombits(binary.LittleEndian.Uint32(in[o:]))
		v := binary.LittleEndian.Uint32(g[o:])
		if f != f {
			continue
		}
		var ok bool
		if toI32 {
			switch {
			case f >= 2147483648.0:
				ok = v == 0x7FFFFFFF || v == 2147483520
			case f <= -2147483648.0:
				ok = v == 0x80000000
			default:
				ok = int32(v) == int32(f)
			}
		} else {
			switch {
			case f >= 4294967296.0:
				ok = v == 0xFFFFFFFF || v == 4294967040
			case f <= 0:
				ok = v == 0
			default:
				ok = v == uint32(f)
			}
		}
		if !ok {
			return fmt.Sprintf("leaf %d: input %v converted to 0x%08x, outside the values WGSL allows", li, f, v)
		}
	}
	return ""
}

// c15IsAccess: families whose programs are dynamic accesses (judged under an index policy).
func c15IsAccess(family string) bool {
	return strings.HasPrefix(family, "F15acc") || strings.HasPrefix(family, "F15idx") ||
		family == "F15xf" || family == "F15xc" || family == "F15xv"
}

// c15Class: the construct class of a case signature (the hostile values go into the failure
// detail, not into the class).
func c15Class(sig string) string {
	sc := sig
	if i := strings.Index(sc, "/idx="); i > 0 {
		sc = sc[:i]
	}
	if strings.HasPrefix(sc, "F15ops/") {
		sc = sc[:strings.LastIndex(sc, "/")] // drop operand source
	}
	return sc
}

func c15Program(r *explore.Run, p *prog) {
	c := p.Case
	if c == nil {
		return
	}
	if strings.HasPrefix(c.Family, "F15xreuse") {
		c15ReuseReplay(r, c)
		return
	}
	m, _, err, pn := nagax.Front(p.Src)
	if err != nil || pn != nil {
		r.Skip("front end rejected/panicked (C08/C10)")
		return
	}
	isAccess := c15IsAccess(c.Family)
	for _, cfg := range c15Configs() {
		if isAccess && cfg.oob < 0 {
			continue
		}
		oob := wref.OOBUndefined
		if isAccess {
			oob = cfg.oob
		}
		ref, rerr := runRef(c, wref.Config{OOB: oob})
		if rerr != nil || ref.undef != "" {
			r.Skip("reference: " + fmt.Sprint(rerr, ref))
			continue
		}
		r.Count("evaluations", int64(c.Groups[0]))
		got, text, err, pn := cfg.run(m, c, xrt.Opts{NumWorkgroups: c.Groups, StepLimit: 200_000 * int64(c.Groups[0]), PoisonLocals: true})
		c15Judge(r, p, cfg.backend, cfg.label, ref, got, text, err, pn)
	}
}

// c15Judge applies the oracle to one execution: no trap, no poison, no malformed output, and the
// WGSL-defined / policy-defined result.
func c15Judge(r *explore.Run, p *prog, backend, label string, ref *refResult, got xrt.Buffers, text string, err error, pn *nagax.Panic) {
	c := p.Case
	if pn != nil {
		r.Skip("naga panic (C10)")
		return
	}
	sc := c15Class(p.Sig)
	isConv := strings.Contains(p.Sig, "/conv/")
	rp := p.replay()
	rp["backend"], rp["config"] = backend, label
	if text != "" {
		rp["emitted"] = trunc(text, 6000)
	}
	idxTag := ""
	if i := strings.Index(p.Sig, "/idx="); i > 0 {
		idxTag = p.Sig[i+1:]
	}
	if err != nil {
		var ce *compileErr
		if errors.As(err, &ce) {
			r.Skip("backend returned an error (C08)")
			return
		}
		class, skip := failClass(err)
		if skip != "" {
			r.Skip(skip)
			return
		}
		r.Violate(explore.Violation{Key: "C15|" + backend + "|" + label + "|" + sc + "|" + class,
			Detail: fmt.Sprintf("%s code for %s [%s] executes an undefined operation on hostile data (%s): %v", backend, p.Sig, label, idxTag, err), Replay: rp})
		return
	}
	var diff string
	if isConv {
		diff = convAccept(c, got)
	} else {
		diff = compareBufs(c, ref.bufs, got)
	}
	if diff != "" {
		r.Violate(explore.Violation{Key: "C15|" + backend + "|" + label + "|" + sc + "|wrong-result",
			Detail: fmt.Sprintf("%s code for %s [%s] does not give the WGSL-defined / policy-defined result (%s): %s", backend, p.Sig, label, idxTag, diff), Replay: rp})
		return
	}
	for _, k := range outBindings(c) {
		r.DistinctBytes(got[k])
	}
}

func runC15() int {
	r := explore.New("C15")
	if r.Thorough() {
		r.SetDeadline(60 * time.Minute)
	}
	fams := []*wgen.Family{wgen.F15Ops(), wgen.F15Access(), wgen.F15Zero(), wgen.F15Idx(), c15LayoutFamily(r.Thorough())}
	forEachProgram(r, fams, nil, func(p *prog) { c15Program(r, p) })
	targets := c15xTargets()
	xf, xc, xv := wgen.F15xForms(r.Thorough()), wgen.F15xChains(r.Thorough()), wgen.F15xValue()
	for _, f := range []*wgen.X15Family{xf, xc, xv} {
		c15xRunFamily(r, f, targets)
	}
	c15RunMixedPolicies(r)
	c15RunReuse(r)
	c := fams[1].At(9)
	r.Sample(map[string]any{"access": c.Sig, "source": wgen.Print(c.Mod)})
	r.Sample(map[string]any{"operator": fams[0].At(5).Sig, "hostile_operands": "0, 1, -1, INT_MIN, INT_MAX; NaN, +-inf, +-2^31, 2^32, +-1e30"})
	for _, f := range []*wgen.X15Family{xf, xc, xv} {
		pr := f.Prog(f.N / 2)
		cc := f.CaseOf(pr, f.N/2, len(pr.Inputs)-1)
		r.Sample(map[string]any{"family": f.Name, "case": cc.Sig, "hostile_tuples_of_this_program": len(pr.Inputs), "source": wgen.Print(cc.Mod)})
	}
	printKeys(r)
	return r.Finish("hardened operators (/ and % signed/unsigned scalar, vector and mixed; unary minus; abs; f32->i32/u32) on every tuple of a hostile operand alphabet x 3 operand sources; every dynamic access form (27 forms: storage/uniform/private/workgroup/function/value arrays, vectors, matrix columns, runtime arrays, nested chains, pointer arguments, atomics; reads, stores, compound assignment) x every representative of the index partition {0, n-1, n, n+1, 2^31-1, 2^31, 2^32-1} x {u32, i32} index type; reads of variables without initialiser (7 types x function/private/workgroup; F15xz: 1-2 workgroup variables of 3 types at every position of the global list among a storage buffer and a private variable, read directly or only through a helper function). "+
		"F15xf: every index-EXPRESSION form (plain, i+1, i-1, i*2, i/2, i>>1, i|1, i+j, i%N, i&(N-1), min(i,N-1), clamp(i,0,N-1), i*0+(N-1) for N in {n-1,n,n+1}, max(i,0), u32(i)/i32(u), bitcast, select both arms, abs, -i, let alias, var alias, the load itself, a function result, a for-loop counter started at i or bounded by i) x every access site (the 27 forms and object x space x {read, write, compound, through a pointer argument}) x {u32,i32} x the transformed-index alphabet {0, n-1, n, n+1, 2n, 2^31-1, 2^31, 2^32-1, -(n-1), -n, -(n+1)}. "+
		"F15xc: every 2- and 3-level access chain (array of array, array of vector, matrix column-then-row, array of matrix, struct member array of array, array of struct with array member, runtime array of array / of struct; outer level shorter, equal and longer than inner) x space x operation x every assignment of {i, j} to the levels including one variable at several levels x index source {let, var, repeated load} x index types x the product of the per-level partitions. "+
		"F15xv: every holder of an aggregate BY VALUE (let, var copy, function parameter, parameter passed on, function result indexed directly or after a let, member of a loaded struct, member of a struct parameter, let of a sub-aggregate, sub-aggregate as argument) x source {storage, uniform, private, constructed} x aggregate {array, vectors, matrix column and column+row, array of vector, array of array, struct member array} x {u32,i32} x partition. "+
		"Mixed MSL policies: F15acc and F15idx again under Index=Restrict+Buffer=ReadZeroSkipWrite and Index=ReadZeroSkipWrite+Buffer=Restrict, each access judged by the policy that governs its address space. "+
		"History: every ordered pair (A, B) of a cover of hostile-data programs (zero-init programs over all global layouts / helper use / entry-point position, workgroup zero-init of 7 types, div/mod/neg/abs wrapper users, workgroup and atomic accesses) compiled on ONE spirv.Backend under 2 option sets, B's words executed and judged; every ordered pair of a smaller cover compiled back to back through the HLSL/MSL/GLSL function API, B's text executed. "+
		"Run under each backend's protective options (SPIR-V default wrappers; HLSL RestrictIndexing+zero-init; MSL Restrict and ReadZeroSkipWrite; GLSL: no index policy exists, operators and zero-init only) in trapping interpreters with poisoned locals; results must equal the WGSL-defined values (x/0=x, x%0=0, INT_MIN/-1=INT_MIN, -INT_MIN=INT_MIN, clamped f->i) and the policy-defined access results (clamped element; zero / skipped write)",
		[]string{"the index alphabet is a partition by the guard's branch outcomes, not the full 2^32 range",
			"SPIR-V and GLSL expose no index bounds policy in this tree: the access families are not applied to them (reported, not claimed)",
			"for NaN inputs of float->int conversions any value is accepted; at the top of the range both the exact clamp and the clamp through the nearest float are accepted",
			"a program of the F15x families is compiled once per policy and executed on every hostile tuple (the tuples differ only in buffer contents)",
			"history depth is 2 (ordered pairs); the text back ends are explored sequentially on a sub-cover"})
}
