package checks

func c10Worker(args []string) int { return 2 }
