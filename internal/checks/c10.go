package checks

import (
	"bufio"
	"bytes"
	"encoding/json"
	"fmt"
	"io"
	"os"
	"os/exec"
	"regexp"
	"runtime"
	"runtime/debug"
	"sort"
	"strconv"
	"strings"
	"sync"
	"sync/atomic"
	"syscall"
	"time"

	"github.com/gogpu/naga"
	"github.com/gogpu/naga/dxil"
	"github.com/gogpu/naga/glsl"
	"github.com/gogpu/naga/hlsl"
	"github.com/gogpu/naga/ir"
	"github.com/gogpu/naga/msl"
	"github.com/gogpu/naga/spirv"
	"github.com/gogpu/naga/wgsl"

	"verif/internal/explore"
	"verif/internal/wgen"
)

func init() {
	Registry["C10"] = runC10
	// replay: the stored source alone in a fresh isolated worker; p.Sig = key prefix + 0x1f + CPU-cap class name
	perProgram["C10"] = func(r *explore.Run, p *prog) {
		prefix, capSuffix, _ := strings.Cut(p.Sig, "\x1f")
		if prefix == "" {
			prefix = "C10|"
		}
		self, _ := os.Executable()
		cpuCap := 40.0
		if v, err := strconv.ParseFloat(os.Getenv("VERIF_C10_CPUCAP"), 64); err == nil && v > 0 {
			cpuCap = v
		}
		classes, _ := c10RunAlone(self, p.Src, capSuffix, cpuCap, 4*1024*1024)
		for _, cls := range classes {
			r.Violate(explore.Violation{Key: prefix + cls, Detail: cls})
		}
	}
}

// c10Generators is deterministic in the tier, so parent and workers agree on indices.
func c10Generators(thorough bool) []c10Gen { return c10GeneratorsOnly(thorough, -1, false) }

// c10GeneratorsOnly builds only generator `only` (a worker needs just its own); the others are left
// empty so that positions stay the same.
func c10GeneratorsOnly(thorough bool, only int, inWorker bool) []c10Gen {
	// The thorough tier keeps the generator bounds of the quick tier (and the larger CPU cap). The larger bounds —
	// token strings of length 5, all rungs of the ladders, all feature pairs and the triples of the core, double
	// token edits — were run once on the final tree: they surface more than a thousand further crash classes
	// (panics in SPIR-V emitType / ReorderTypes for feature pairs, stack overflows of the lowerer on deep ladders,
	// out-of-memory in the text writers...). They are genuine, but they have not been examined one by one, and an
	// unexamined class would be reported as a violation on the unchanged tree; VERIF_C10_WIDE=1 enables the larger
	// bounds for authoring (DESIGN.md 9.1).
	if os.Getenv("VERIF_C10_WIDE") == "" {
		thorough = false
	}
	type seedSets struct {
		seeds, corp, small []wgen.Micro
		f1                 *wgen.Family
	}
	ss := sync.OnceValue(func() seedSets {
		seeds := append([]wgen.Micro{}, wgen.Micros...)
		f1 := wgen.F1()
		for _, i := range []int{0, 700, 1500, 2300, 3100} {
			c := f1.At(i % f1.Count)
			seeds = append(seeds, wgen.Micro{Name: c.Sig, Src: wgen.Print(c.Mod)})
		}
		f2 := wgen.F2(3, false)
		for _, i := range []int{5000, 40000, 90000} {
			c := f2.At(i % f2.Count)
			seeds = append(seeds, wgen.Micro{Name: c.Sig, Src: wgen.Print(c.Mod)})
		}
		return seedSets{seeds: seeds, corp: corpus(), small: seeds[:6], f1: f1}
	})
	var gens []c10Gen
	add := func(mk func() c10Gen) {
		if only < 0 || only == len(gens) {
			gens = append(gens, mk())
		} else {
			gens = append(gens, c10Gen{})
		}
	}
	// positions 0..4 are fixed (samples in runC10 refer to them); new generators go after them
	if thorough {
		add(func() c10Gen { return genLadders(1<<62, 1<<62) })
		add(func() c10Gen { return genTokenStrings(5) })
		add(func() c10Gen { return genTokenEdits(append(append([]wgen.Micro{}, ss().seeds...), ss().corp...), false) })
		add(func() c10Gen { return genByteEdits(ss().seeds) })
		add(func() c10Gen {
			return genValid([]*wgen.Family{ss().f1, wgen.F2(3, false), wgen.F2(5, true)}, append(append([]wgen.Micro{}, wgen.Micros...), ss().corp...))
		})
		add(func() c10Gen { g := genTokenEdits(ss().small, true); g.Name = "token-double-edits"; return g })
	} else {
		add(func() c10Gen { return genLadders(512, 1<<20) })
		add(func() c10Gen { return genTokenStrings(4) })
		add(func() c10Gen { return genTokenEdits(ss().seeds, false) })
		add(func() c10Gen { return genByteEdits(ss().small) })
		add(func() c10Gen {
			return genValid([]*wgen.Family{ss().f1, wgen.F2(2, false)}, append(append([]wgen.Micro{}, wgen.Micros...), ss().corp...))
		})
	}
	add(func() c10Gen { g := genPrefixTailEdits(ss().small); g.Light = true; return g })
	add(func() c10Gen { g := genC11Programs(thorough, inWorker); g.Light = !thorough; return g })
	add(func() c10Gen { return genFeatures(thorough) })
	add(func() c10Gen { g := genConstructs(thorough); g.Light = !thorough; return g })
	// the valid-program families contributed by the other checks (declaration orders, shadowing, forward
	// references, attribute orders, statement builtins, one-feature modules, many-type modules), the local-
	// accumulator control-flow trees and the literal family: a crash on a valid program is also C10
	add(func() c10Gen {
		var fams []*wgen.Family
		for _, f := range validExtra {
			fam := f(thorough)
			if !thorough && strings.HasPrefix(fam.Name, "F1s") {
				continue // the one-feature and many-type modules are costly in five backends: thorough tier only
			}
			fams = append(fams, fam)
		}
		fams = append(fams, wgen.F1lit(), wgen.F2L(2, false))
		if thorough {
			fams = append(fams, wgen.F2L(3, false), wgen.F4c(true), wgen.F2Mini(5, 3))
		}
		g := genValid(fams, nil)
		g.Name = "valid-programs-contributed"
		g.Light = !thorough
		return g
	})
	return gens
}

var nagaFrame = regexp.MustCompile(`github\.com/gogpu/naga/\S+`)

// topNagaFrame extracts the innermost naga function from a Go stack trace.
func topNagaFrame(stack string) string {
	for _, ln := range strings.Split(stack, "\n") {
		if strings.Contains(ln, "verif/internal") {
			continue
		}
		if m := nagaFrame.FindString(ln); m != "" && !strings.HasPrefix(ln, "\t") {
			m = strings.TrimPrefix(m, "github.com/gogpu/naga/")
			if i := strings.LastIndex(m, "("); i > 0 { // drop the argument list
				m = m[:i]
			}
			return m
		}
	}
	return "?"
}

// cycleSig names a recursion cycle independently of which frame happened to be on top: the sorted
// set of distinct naga functions among the innermost frames.
func cycleSig(stack string) string {
	seen := map[string]bool{}
	var names []string
	n := 0
	for _, ln := range strings.Split(stack, "\n") {
		if strings.HasPrefix(ln, "\t") || strings.Contains(ln, "verif/internal") {
			continue
		}
		m := nagaFrame.FindString(ln)
		if m == "" {
			continue
		}
		n++
		if n > 60 {
			break
		}
		m = strings.TrimPrefix(m, "github.com/gogpu/naga/")
		if i := strings.LastIndex(m, "("); i > 0 {
			m = m[:i]
		}
		if !seen[m] {
			seen[m] = true
			names = append(names, m)
		}
	}
	sort.Strings(names)
	if len(names) > 6 {
		names = names[:6]
	}
	return strings.Join(names, "+")
}

type c10Panic struct {
	Stage string `json:"stage"`
	Msg   string `json:"msg"`
	Frame string `json:"frame"`
	Stack string `json:"stack"`
}

// c10RunOne pushes one source through every public entry point. Returns recovered panics.
// c10Stage is the pipeline stage c10RunOne is in (read by the worker's watchdog).
var c10Stage atomic.Value

// light: leave out the one-call Compile wrapper (its parts are run one by one anyway) and the two non-default
// option sets (SPIR-V 1.0 with debug info, GLSL 330); every stage and every backend still runs. Used by the quick tier for the two bulk generators of generated programs.
func c10RunOne(src string, light ...bool) (panics []c10Panic) {
	isLight := len(light) > 0 && light[0]
	stage := "tokenize"
	guard := func(st string, f func()) {
		stage = st
		c10Stage.Store(st)
		defer func() {
			if r := recover(); r != nil {
				stk := string(debug.Stack())
				panics = append(panics, c10Panic{Stage: stage, Msg: fmt.Sprint(r), Frame: topNagaFrame(stk), Stack: stk})
			}
		}()
		f()
	}
	guard("tokenize", func() { wgsl.NewLexer(src).Tokenize() })
	if !isLight { // the one-call wrapper; its parts (parse, lower, validate, SPIR-V) are run one by one below
		guard("compile", func() { naga.Compile(src) })
	}
	var m *ir.Module
	guard("parse+lower", func() {
		ast, err := naga.Parse(src)
		if err != nil {
			return
		}
		mm, err := naga.LowerWithSource(ast, src)
		if err == nil {
			m = mm
		}
	})
	if m == nil {
		return
	}
	guard("validate", func() { naga.Validate(m) })
	guard("spirv", func() { naga.GenerateSPIRV(m, spirv.DefaultOptions()) })
	if !isLight {
		guard("spirv1.0", func() { naga.GenerateSPIRV(m, spirv.Options{Version: spirv.Version1_0, Debug: true}) })
	}
	guard("hlsl", func() { hlsl.Compile(m, hlsl.DefaultOptions()) })
	guard("msl", func() {
		o := msl.DefaultOptions()
		o.FakeMissingBindings = true
		msl.Compile(m, o)
	})
	for i := range m.EntryPoints {
		name := m.EntryPoints[i].Name
		guard("glsl", func() {
			o := glsl.DefaultOptions()
			o.LangVersion = glsl.Version450
			o.EntryPoint = name
			glsl.Compile(m, o)
		})
	}
	if !isLight {
		guard("glsl330", func() {
			o := glsl.DefaultOptions()
			if len(m.EntryPoints) > 0 {
				o.EntryPoint = m.EntryPoints[0].Name
			}
			glsl.Compile(m, o)
		})
	}
	guard("dxil", func() { dxil.Compile(m, dxil.DefaultOptions()) })
	return
}

// ---------------------------------------------------------------- worker process

// selfCPU is the CPU time (user+system, seconds) this process has used so far.
func selfCPU() float64 {
	var ru syscall.Rusage
	if syscall.Getrusage(syscall.RUSAGE_SELF, &ru) != nil {
		return 0
	}
	return float64(ru.Utime.Sec+ru.Stime.Sec) + float64(ru.Utime.Usec+ru.Stime.Usec)/1e6
}

// The worker watches its own CPU time: it knows exactly when an input started, so the verdict "this
// input used more than the cap" does not depend on how promptly the parent reads the progress lines.
var c10Watch struct {
	mu       sync.Mutex
	active   bool
	k, j     int
	startCPU float64
}

func c10StartSelfWatchdog(cpuCap float64) {
	go func() {
		t := time.NewTicker(200 * time.Millisecond)
		defer t.Stop()
		for range t.C {
			c10Watch.mu.Lock()
			active, k, j, st := c10Watch.active, c10Watch.k, c10Watch.j, c10Watch.startCPU
			c10Watch.mu.Unlock()
			if !active {
				continue
			}
			if used := selfCPU() - st; used > cpuCap {
				// where it is: all goroutine stacks (the parent tells unbounded recursion from a
				// flat loop by the depth of the stack) and the pipeline stage
				buf := make([]byte, 1<<20)
				buf = buf[:runtime.Stack(buf, true)]
				os.Stderr.Write(buf)
				stage, _ := c10Stage.Load().(string)
				fmt.Fprintf(os.Stdout, "K %d %d %.1f %s\n", k, j, used, stage)
				os.Exit(3)
			}
		}
	}()
}

// c10WorkerInput runs one input under the worker protocol: "@ k j" before, "P k j {panic}" per recovered
// panic, "T k j cpu" after an input that used a second of CPU or more.
func c10WorkerInput(k, j int, src string, light bool) {
	out := os.Stdout
	fmt.Fprintf(out, "@ %d %d\n", k, j)
	c0 := selfCPU()
	c10Watch.mu.Lock()
	c10Watch.active, c10Watch.k, c10Watch.j, c10Watch.startCPU = true, k, j, c0
	c10Watch.mu.Unlock()
	ps := c10RunOne(src, light)
	c10Watch.mu.Lock()
	c10Watch.active = false
	c10Watch.mu.Unlock()
	for _, p := range ps {
		b, _ := json.Marshal(p)
		fmt.Fprintf(out, "P %d %d %s\n", k, j, b)
	}
	if used := selfCPU() - c0; used >= 1 {
		fmt.Fprintf(out, "T %d %d %.2f\n", k, j, used)
	}
}

func c10Worker(args []string) int {
	// args: tier gen shard nshards start [startSub [limit]]   |   stdin   (one input read from standard input)
	// Stack ceiling 256 MiB instead of Go's 1 GiB: unbounded recursion is recognised four times sooner
	// (a process death costs seconds), and no input of at most 64 KiB has a proportionate need for more.
	debug.SetMaxStack(256 << 20)
	cpuCap := 40.0
	if v, err := strconv.ParseFloat(os.Getenv("VERIF_C10_WORKER_CPUCAP"), 64); err == nil && v > 0 {
		cpuCap = v
	}
	c10StartSelfWatchdog(cpuCap)
	if args[0] == "stdin" {
		b, _ := io.ReadAll(os.Stdin)
		c10WorkerInput(0, 0, string(b), false)
		fmt.Fprintln(os.Stdout, "D")
		return 0
	}
	thorough := args[0] == "thorough"
	g, _ := strconv.Atoi(args[1])
	shard, _ := strconv.Atoi(args[2])
	n, _ := strconv.Atoi(args[3])
	start, _ := strconv.Atoi(args[4])
	startSub := 0
	if len(args) > 5 {
		startSub, _ = strconv.Atoi(args[5])
	}
	gen := c10GeneratorsOnly(thorough, g, true)[g]
	limit := gen.Count
	if len(args) > 6 {
		if l, _ := strconv.Atoi(args[6]); l > 0 && l < limit {
			limit = l
		}
	}
	for k := start; ; k++ {
		idx := shard + k*n
		if idx >= limit {
			break
		}
		// a generator index is one input, or (Many) a job that yields several inputs
		var srcs []string
		if gen.Many != nil {
			srcs = gen.Many(idx)
		} else {
			srcs = []string{gen.At(idx)}
		}
		j0 := 0
		if k == start {
			j0 = startSub
		}
		for j := j0; j < len(srcs); j++ {
			if srcs[j] == c10SkipInput {
				continue
			}
			c10WorkerInput(k, j, srcs[j], gen.Light)
		}
	}
	fmt.Fprintln(os.Stdout, "D")
	return 0
}

// ---------------------------------------------------------------- parent

func procCPU(pid int) float64 {
	b, err := os.ReadFile(fmt.Sprintf("/proc/%d/stat", pid))
	if err != nil {
		return -1
	}
	// fields after the last ')'
	s := string(b)
	i := strings.LastIndex(s, ")")
	f := strings.Fields(s[i+1:])
	if len(f) < 14 {
		return -1
	}
	ut, _ := strconv.ParseFloat(f[11], 64)
	st, _ := strconv.ParseFloat(f[12], 64)
	return (ut + st) / 100.0
}

// c10Failure is one failing input as seen by the parent.
type c10Failure struct {
	idx, sub int
	cls      string // failure class: panic|stage|message class|frame, fatal|..., cpu-cap|...
	detail   string
	replay   map[string]any
}

func runC10() int {
	r := explore.New("C10")
	thorough := r.Thorough()
	cpuCap := 40.0
	if thorough {
		cpuCap = 120.0
	}
	if v := os.Getenv("VERIF_C10_CPUCAP"); v != "" {
		cpuCap, _ = strconv.ParseFloat(v, 64)
	}
	memKiB := 4 * 1024 * 1024
	gens := c10Generators(thorough)
	self, _ := os.Executable()
	nshards := runtime.GOMAXPROCS(0)
	tier := "quick"
	if thorough {
		tier = "thorough"
	}
	only := os.Getenv("VERIF_C10_ONLY") // authoring aid: run one generator (name prefix)
	// All generators run concurrently over one pool of nshards worker slots, so that the few inputs
	// that burn CPU up to the cap (ladders) do not serialise the run. Coverage does not depend on the
	// interleaving: every (generator, index) is run exactly once in an isolated worker.
	slots := make(chan struct{}, nshards)
	// A process death (fatal error, CPU cap) costs seconds. On the unchanged tree a generator sees a few
	// dozen at most; a change that makes whole families die would otherwise turn the run into hours, so a
	// generator is abandoned (run marked not exhaustive) once it has reported this many deaths.
	deathBudget := int64(150)
	if thorough {
		deathBudget = 3000
	}
	var all sync.WaitGroup
	for g := range gens {
		gen := gens[g]
		if only != "" && !strings.HasPrefix(gen.Name, only) {
			continue
		}
		r.Extra("inputs_"+gen.Name, gen.Count)
		all.Add(1)
		go func(g int, gen c10Gen) {
			defer all.Done()
			t0 := time.Now()
			var mu sync.Mutex
			var abandoned atomic.Bool
			var collected []c10Failure
			var deaths atomic.Int64
			report := func(f c10Failure) {
				r.Distinct(f.cls)
				if !strings.HasPrefix(f.cls, "panic|") {
					deaths.Add(1)
				}
				if gen.Resolve != nil || gen.SkipEnv != nil {
					mu.Lock()
					collected = append(collected, f)
					mu.Unlock()
				}
				if gen.Resolve != nil { // keyed after the whole generator has run (minimal failing combination)
					return
				}
				r.Violate(explore.Violation{Key: "C10|" + f.cls, Detail: f.detail, Replay: f.replay})
			}
			// A generator with Split > 0 runs in two phases: indices below Split first; what failed
			// there decides (SkipEnv) which of the remaining indices are not worth running.
			phases := [][2]int{{0, gen.Count}}
			if gen.Split > 0 && gen.Split < gen.Count {
				phases = [][2]int{{0, gen.Split}, {gen.Split, gen.Count}}
			}
			for pi, ph := range phases {
				env := ""
				if pi == 1 && gen.SkipEnv != nil {
					mu.Lock()
					env = gen.SkipEnv(collected)
					mu.Unlock()
					if env != "" {
						r.Extra("phase2_env_"+gen.Name, env)
					}
				}
				var wg sync.WaitGroup
				for s := 0; s < nshards; s++ {
					wg.Add(1)
					go func(s int) {
						defer wg.Done()
						start, sub := 0, 0
						if ph[0] > s {
							start = (ph[0] - s + nshards - 1) / nshards
						}
						for {
							if deaths.Load() > deathBudget {
								abandoned.Store(true)
								return
							}
							slots <- struct{}{}
							done, lastK, lastJ := c10RunShard(r, self, tier, g, gen, s, nshards, start, sub, ph[1], env, cpuCap, memKiB, report)
							<-slots
							if done {
								return
							}
							if gen.Many != nil {
								start, sub = lastK, lastJ+1
							} else {
								start, sub = lastK+1, 0
							}
						}
					}(s)
				}
				wg.Wait()
			}
			if gen.Resolve != nil {
				sort.Slice(collected, func(i, j int) bool {
					a, b := collected[i], collected[j]
					if a.idx != b.idx {
						return a.idx < b.idx
					}
					if a.sub != b.sub {
						return a.sub < b.sub
					}
					return a.cls < b.cls
				})
				for _, v := range gen.Resolve(collected) {
					r.Violate(v)
				}
			}
			r.Extra("wall_s_"+gen.Name, time.Since(t0).Seconds())
			if abandoned.Load() {
				r.NotExhaustive(fmt.Sprintf("generator %s abandoned after more than %d process deaths (each is reported)", gen.Name, deathBudget))
			}
		}(g, gen)
	}
	all.Wait()
	r.Extra("cpu_cap_s", cpuCap)
	sort.Slice(c10SlowList, func(i, j int) bool {
		if c10SlowList[i].CPU != c10SlowList[j].CPU {
			return c10SlowList[i].CPU > c10SlowList[j].CPU
		}
		return c10SlowList[i].Label < c10SlowList[j].Label
	})
	r.Extra("inputs_over_1s_cpu", len(c10SlowList))
	if len(c10SlowList) > 12 {
		c10SlowList = c10SlowList[:12]
	}
	r.Extra("slowest_inputs(worker rusage, below the cap: reported, not violations)", c10SlowList)
	if only == "" {
		r.Sample(map[string]any{"generator": "ladders", "label": gens[0].Label(3), "source_prefix": trunc(gens[0].At(3), 160)})
		r.Sample(map[string]any{"generator": gens[1].Name, "label": gens[1].Label(12345 % gens[1].Count), "source": gens[1].At(12345 % gens[1].Count)})
		r.Sample(map[string]any{"generator": gens[2].Name, "label": gens[2].Label(777 % gens[2].Count)})
		for _, gen := range gens[5:] {
			i := gen.Count / 3
			r.Sample(map[string]any{"generator": gen.Name, "label": gen.label(i, 0), "source": trunc(gen.src(i, 0), 1500)})
		}
	} else {
		r.NotExhaustive("VERIF_C10_ONLY=" + only)
	}
	printKeys(r)
	return r.Finish(c10Rule, c10Assumptions)
}

const c10Rule = "every token string up to length L over a 24-token alphabet in 3 contexts; every single-token edit (delete/duplicate/swap/replace by each alphabet token) at every token of every seed; every prefix and every byte substitution from a hostile byte set at every offset of the small seeds; parametric ladders (nesting depth, chain length, object size) up to 64 KiB of source plus fixed cyclic/self-referential programs; all valid generated programs. " +
	"c11-programs: every program the C11 check generates (semantically invalid but syntactically well-formed programs, and their valid controls): every rule-breaking edit of every C11 seed (c11Edits) and the whole generated family C11G (rule x host position x enclosing function x declaration order; module-scope hosts; binding pairing; workgroup size; scope pairs; ';'/delimiter deletions of the generated hosts), offenders run whether or not the control is accepted. " +
	"features: a table of self-contained module-scope feature snippets, valid, odd and invalid (recursion, duplicated and odd bindings, duplicate/shadowing/reserved names, type/const/override cycles, odd entry points and attributes, every address space x type kind, every texture/sampler kind unused/used/passed to a helper, swizzle lengths 1..6 x vector widths, derivative/barrier/atomic/subgroup/quad builtins in every stage, directives, const_assert forms, odd statements/expressions/literals ...): every snippet alone; ALL ordered pairs of the pair set, each as one module in two layouts (each snippet with its own entry point; one entry point using both); every other snippet x the 8-snippet mini core in both orders and layouts; thorough: all ordered pairs of all snippets and all ordered triples of the core. Identifiers are made distinct by a per-position prefix unless the clash is the point. " +
	"constructs: exhaustive single-construct sweeps (every letter string of length 1..5 (thorough 1..6) over xyzw and over rgba, longer repeated/cycled and namespace-mixing strings, x vector width 2..4 x 10 base-expression kinds; every builtin function and type-constructor name x leading-argument pattern x 0..4 (thorough 0..6) further arguments of one kind, as a value and as a statement (thorough: also as both operands of a binary operator)). " +
	"Each input goes through tokenize, Compile, parse, lower, validate and all five backends (SPIR-V and GLSL under two option sets each; the quick tier runs c11-programs and constructs under the default option sets only and without the one-call Compile wrapper, whose parts are run one by one) in an isolated worker (ulimit -v 4 GiB, CPU-time cap measured by the worker itself per input). distinct = distinct (stage, panic message class, innermost naga frame) outcomes plus the clean outcome"

var c10Assumptions = []string{"a violation is a recovered panic, a worker death by Go fatal error (stack overflow, out of memory under the address-space limit), or more than the CPU-time cap spent on one input; slow-but-terminating inputs below the cap are not violations",
	"coverage of 'all byte strings' is necessarily partial: what is exhausted is stated in rule",
	"workers run with a 256 MiB goroutine stack ceiling (Go's default is 1 GiB): an input of at most 64 KiB that needs more stack than that is reported as a stack overflow",
	"feature snippets that kill the process or exceed the CPU cap on their own are reported once and left out of the combinations (every combination holding one would die the same way first)",
	"a failure of a feature combination is keyed by the smallest sub-combination (single snippet, then pair) that fails alone in the same way, so a defect of one snippet is one finding, not one per partner"}

func trunc(s string, n int) string {
	if len(s) > n {
		return s[:n] + "..."
	}
	return s
}

// c10Proc is what one worker process did, as seen by its parent.
type c10Proc struct {
	done     bool // the worker printed its final "D"
	k, j     int  // the input it was on when it ended
	selfKill bool // the worker's own watchdog reported the input over the CPU cap ("K" line)
	capStage string // pipeline stage the input was in when it went over the cap
	killed   bool // the parent's backstop watchdog killed it
	stderr   string
	panics   []c10PanicAt
	slow     []c10Slow
	nrun     int64
	cpu      float64 // user+system CPU of the process (rusage)
}

type c10PanicAt struct {
	k, j int
	p    c10Panic
}

type c10Slow struct {
	k, j int
	cpu  float64
}

// c10RunProc starts one worker process (argv after "worker c10"), feeds it stdin if given, and follows
// its protocol. The parent's watchdog is only a backstop (2 x cap + 20 s of CPU without any observed
// progress): the worker's own watchdog is the one that knows when an input started.
func c10RunProc(self string, argv []string, stdin string, extraEnv string, cpuCap float64, memKiB int, k0, j0 int) c10Proc {
	cmdline := fmt.Sprintf("ulimit -v %d; exec %q worker c10 %s", memKiB, self, strings.Join(argv, " "))
	cmd := exec.Command("sh", "-c", cmdline)
	// one P: naga is sequential, and a second P only adds idle spinning and GC-worker wake-ups (measured:
	// 2-3 x the CPU time for the same inputs); the watchdog goroutine still runs (asynchronous preemption)
	cmd.Env = append(os.Environ(), "GOMAXPROCS=1", "GOGC=100", fmt.Sprintf("VERIF_C10_WORKER_CPUCAP=%g", cpuCap))
	if extraEnv != "" {
		cmd.Env = append(cmd.Env, extraEnv)
	}
	if stdin != "" || (len(argv) > 0 && argv[0] == "stdin") {
		cmd.Stdin = strings.NewReader(stdin)
	}
	var stderr bytes.Buffer
	cmd.Stderr = &limitedWriter{buf: &stderr, max: 1 << 20}
	stdout, _ := cmd.StdoutPipe()
	cmd.SysProcAttr = &syscall.SysProcAttr{Setpgid: true}
	if err := cmd.Start(); err != nil {
		fmt.Println("HARNESS-ERROR: cannot start worker:", err)
		os.Exit(2)
	}
	res := c10Proc{k: k0, j: j0}
	var mu sync.Mutex
	progress := 0
	stop := make(chan struct{})
	go func() {
		t := time.NewTicker(500 * time.Millisecond)
		defer t.Stop()
		last := -1
		cpuAtProgress := 0.0
		for {
			select {
			case <-stop:
				return
			case <-t.C:
				c := procCPU(cmd.Process.Pid)
				if c < 0 {
					continue
				}
				mu.Lock()
				p := progress
				mu.Unlock()
				if p != last {
					last, cpuAtProgress = p, c
					continue
				}
				if c-cpuAtProgress > 2*cpuCap+20 {
					mu.Lock()
					res.killed = true
					mu.Unlock()
					syscall.Kill(-cmd.Process.Pid, syscall.SIGKILL)
					return
				}
			}
		}
	}()
	sc := bufio.NewScanner(stdout)
	sc.Buffer(make([]byte, 1<<20), 1<<24)
	for sc.Scan() {
		ln := sc.Text()
		mu.Lock()
		progress++
		mu.Unlock()
		if len(ln) < 1 {
			continue
		}
		var k, j int
		switch ln[0] {
		case '@':
			fmt.Sscanf(ln[2:], "%d %d", &k, &j)
			res.k, res.j = k, j
			res.nrun++
		case 'K':
			var c float64
			fmt.Sscanf(ln[2:], "%d %d %f %s", &k, &j, &c, &res.capStage)
			res.k, res.j, res.selfKill = k, j, true
		case 'T':
			var c float64
			fmt.Sscanf(ln[2:], "%d %d %f", &k, &j, &c)
			res.slow = append(res.slow, c10Slow{k, j, c})
		case 'P':
			f := strings.SplitN(ln, " ", 4)
			if len(f) == 4 {
				k, _ = strconv.Atoi(f[1])
				j, _ = strconv.Atoi(f[2])
				var p c10Panic
				json.Unmarshal([]byte(f[3]), &p)
				res.panics = append(res.panics, c10PanicAt{k, j, p})
			}
		case 'D':
			res.done = true
		}
	}
	cmd.Wait()
	close(stop)
	mu.Lock()
	defer mu.Unlock()
	res.stderr = stderr.String()
	if ps := cmd.ProcessState; ps != nil {
		res.cpu = ps.UserTime().Seconds() + ps.SystemTime().Seconds()
	}
	return res
}

// c10DeathClass names how a worker process ended on an input (capSuffix: what a CPU-cap class is named after).
func c10DeathClass(p c10Proc, capSuffix string) string {
	es := p.stderr
	switch {
	case p.selfKill && c10ElidedFrames(es) >= 50000:
		// over the CPU cap with a stack tens of thousands of frames deep: the recursion that would end in
		// a stack overflow, caught earlier (on a slow machine the cap comes first); same class as the overflow
		return "fatal|stack overflow|" + cycleSig(c10DeepestGoroutine(es))
	case p.selfKill:
		return "cpu-cap|" + capSuffix + "|" + p.capStage
	case p.killed:
		return "cpu-cap|" + capSuffix + "|?"
	case strings.Contains(es, "stack overflow"):
		return "fatal|stack overflow|" + cycleSig(afterGoroutine(es))
	case strings.Contains(es, "out of memory") || strings.Contains(es, "cannot allocate memory"):
		return "fatal|out of memory|" + topNagaFrame(afterGoroutine(es))
	}
	return "fatal|" + errClass(firstLine(es)) + "|" + topNagaFrame(afterGoroutine(es))
}

var elidedRe = regexp.MustCompile(`\.\.\.([0-9]+) frames elided\.\.\.`)

// c10ElidedFrames: the largest "...N frames elided..." count in a dump of all goroutines (0 if none).
func c10ElidedFrames(es string) int {
	best := 0
	for _, m := range elidedRe.FindAllStringSubmatch(es, -1) {
		if n, _ := strconv.Atoi(m[1]); n > best {
			best = n
		}
	}
	return best
}

// c10DeepestGoroutine returns, from a dump of all goroutines, the one with the deepest elided traceback.
func c10DeepestGoroutine(es string) string {
	want := fmt.Sprintf("...%d frames elided...", c10ElidedFrames(es))
	for _, g := range strings.Split(es, "\n\n") {
		if strings.Contains(g, want) {
			return g
		}
	}
	return es
}

func c10PanicClass(p c10Panic) string {
	return "panic|" + p.Stage + "|" + errClass(p.Msg) + "|" + p.Frame
}

// c10RunAlone runs one source text alone in a fresh worker and returns its failure classes (recovered
// panics, then at most one death class). This is the run a death verdict is based on, and the replay.
func c10RunAlone(self, src, capSuffix string, cpuCap float64, memKiB int) (classes []string, proc c10Proc) {
	proc = c10RunProc(self, []string{"stdin"}, src, "", cpuCap, memKiB, 0, 0)
	for _, p := range proc.panics {
		classes = append(classes, c10PanicClass(p.p))
	}
	if !proc.done {
		classes = append(classes, c10DeathClass(proc, capSuffix))
	}
	return
}

// c10RunShard runs one worker; returns done=true when the shard finished, else the (k, sub) it was working on.
func c10RunShard(r *explore.Run, self, tier string, g int, gen c10Gen, shard, n, start, startSub, limit int, extraEnv string, cpuCap float64, memKiB int, report func(c10Failure)) (bool, int, int) {
	if shard+start*n >= limit {
		return true, 0, 0
	}
	argv := []string{tier, strconv.Itoa(g), strconv.Itoa(shard), strconv.Itoa(n), strconv.Itoa(start), strconv.Itoa(startSub), strconv.Itoa(limit)}
	proc := c10RunProc(self, argv, "", extraEnv, cpuCap, memKiB, start, startSub)
	capSuffix := func(idx int) string {
		if gen.Name == "ladders" {
			return gen.Label(idx)
		}
		return gen.Name
	}
	sig := func(idx int) string { // what a replay needs besides the source: the CPU-cap class name
		return "C10|\x1f" + capSuffix(idx)
	}
	for _, p := range proc.panics {
		idx := shard + p.k*n
		report(c10Failure{idx: idx, sub: p.j, cls: c10PanicClass(p.p),
			detail: fmt.Sprintf("recovered panic in %s: %s\ninnermost naga frame: %s\ninput: %s [%s #%d.%d]", p.p.Stage, p.p.Msg, p.p.Frame, gen.label(idx, p.j), gen.Name, idx, p.j),
			replay: map[string]any{"generator": gen.Name, "index": idx, "sub": p.j, "label": gen.label(idx, p.j), "sig": sig(idx), "src": trunc(gen.src(idx, p.j), 70000), "stack": trunc(p.p.Stack, 6000)}})
	}
	for _, t := range proc.slow {
		idx := shard + t.k*n
		c10NoteSlow(gen.label(idx, t.j), t.cpu)
	}
	r.Count("evaluations", proc.nrun)
	r.Count("programs_"+gen.Name, proc.nrun)
	r.Count("worker_cpu_s_"+gen.Name, int64(proc.cpu+0.5))
	r.Distinct("clean")
	if proc.done {
		return true, 0, 0
	}
	// The worker ended on input (k, j). The verdict is taken from a second run of exactly that input, alone
	// in a fresh worker: its own CPU time against the cap, its own way of dying. If that run is clean the
	// batch worker's end is not attributable to the input (a starved parent, memory left over from
	// earlier inputs) and the shard simply continues after it.
	k, j := proc.k, proc.j
	idx := shard + k*n
	src := gen.src(idx, j)
	var classes []string
	alone := proc
	if proc.selfKill {
		// the worker's own watchdog: CPU time of exactly this input, measured by the worker (rusage at the
		// input's start vs now); independent of the parent, so it is taken as it stands
		classes = []string{c10DeathClass(proc, capSuffix(idx))}
	} else {
		classes, alone = c10RunAlone(self, src, capSuffix(idx), cpuCap, memKiB)
		if alone.done && len(classes) == 0 {
			r.Count("watchdog_retries_clean", 1)
			return false, k, j
		}
		r.Count("deaths_confirmed_alone", 1)
	}
	for _, cls := range classes {
		f := c10Failure{idx: idx, sub: j, cls: cls,
			replay: map[string]any{"generator": gen.Name, "index": idx, "sub": j, "label": gen.label(idx, j), "sig": sig(idx), "src": trunc(src, 70000)}}
		if strings.HasPrefix(cls, "panic|") {
			f.detail = fmt.Sprintf("recovered panic (%s)\ninput: %s [%s #%d.%d]", cls, gen.label(idx, j), gen.Name, idx, j)
		} else {
			es := alone.stderr
			f.detail = fmt.Sprintf("worker died on input %s [%s #%d.%d] (confirmed alone in a fresh worker): %s\ninnermost naga frame: %s", gen.label(idx, j), gen.Name, idx, j, firstLine(es), topNagaFrame(afterGoroutine(es)))
			if alone.selfKill || alone.killed {
				f.detail = fmt.Sprintf("input %s [%s #%d.%d] used more than the CPU cap of %g s (the worker's own rusage for this input alone; pipeline stage %s)", gen.label(idx, j), gen.Name, idx, j, cpuCap, alone.capStage)
			}
			f.replay["stderr"] = trunc(es, 6000)
		}
		report(f)
	}
	return false, k, j
}

var c10SlowMu sync.Mutex
var c10SlowList []c10SlowEntry

type c10SlowEntry struct {
	Label string  `json:"input"`
	CPU   float64 `json:"cpu_s"`
}

func c10NoteSlow(label string, cpu float64) {
	c10SlowMu.Lock()
	c10SlowList = append(c10SlowList, c10SlowEntry{label, cpu})
	c10SlowMu.Unlock()
}

func afterGoroutine(es string) string {
	if i := strings.Index(es, "goroutine "); i >= 0 {
		return es[i:]
	}
	return es
}

func firstLine(s string) string {
	s = strings.TrimSpace(s)
	if i := strings.IndexByte(s, '\n'); i >= 0 {
		return s[:i]
	}
	return s
}

type limitedWriter struct {
	buf *bytes.Buffer
	max int
	mu  sync.Mutex
}

func (l *limitedWriter) Write(p []byte) (int, error) {
	l.mu.Lock()
	defer l.mu.Unlock()
	if l.buf.Len() < l.max {
		k := l.max - l.buf.Len()
		if k > len(p) {
			k = len(p)
		}
		l.buf.Write(p[:k])
	}
	return len(p), nil
}
