package checks

import (
	"bufio"
	"bytes"
	"encoding/json"
	"fmt"
	"os"
	"os/exec"
	"regexp"
	"runtime"
	"runtime/debug"
	"sort"
	"strconv"
	"strings"
	"sync"
	"syscall"
	"time"

	"github.com/gogpu/naga"
	"github.com/gogpu/naga/dxil"
	"github.com/gogpu/naga/glsl"
	"github.com/gogpu/naga/hlsl"
	"github.com/gogpu/naga/ir"
	"github.com/gogpu/naga/msl"
	"github.com/gogpu/naga/spirv"
	"github.com/gogpu/naga/wgsl"

	"verif/internal/explore"
	"verif/internal/wgen"
)

func init() { Registry["C10"] = runC10 }

// c10Generators is deterministic in the tier, so parent and workers agree on indices.
func c10Generators(thorough bool) []c10Gen {
	seeds := append([]wgen.Micro{}, wgen.Micros...)
	f1 := wgen.F1()
	for _, i := range []int{0, 700, 1500, 2300, 3100} {
		c := f1.At(i % f1.Count)
		seeds = append(seeds, wgen.Micro{Name: c.Sig, Src: wgen.Print(c.Mod)})
	}
	f2 := wgen.F2(3, false)
	for _, i := range []int{5000, 40000, 90000} {
		c := f2.At(i % f2.Count)
		seeds = append(seeds, wgen.Micro{Name: c.Sig, Src: wgen.Print(c.Mod)})
	}
	corp := corpus()
	small := seeds[:6]
	var gens []c10Gen
	if thorough {
		gens = append(gens, genLadders(1<<62, 1<<62))
	} else {
		gens = append(gens, genLadders(512, 1<<20))
	}
	if thorough {
		gens = append(gens, genTokenStrings(5))
		gens = append(gens, genTokenEdits(append(seeds, corp...), false))
		gens = append(gens, genTokenEdits(small, true))
		gens = append(gens, genByteEdits(seeds))
		gens = append(gens, genValid([]*wgen.Family{f1, wgen.F2(3, false), wgen.F2(5, true)}, append(append([]wgen.Micro{}, wgen.Micros...), corp...)))
	} else {
		gens = append(gens, genTokenStrings(4))
		gens = append(gens, genTokenEdits(seeds, false))
		gens = append(gens, genByteEdits(small))
		gens = append(gens, genValid([]*wgen.Family{f1, wgen.F2(2, false)}, append(append([]wgen.Micro{}, wgen.Micros...), corp...)))
	}
	return gens
}

var nagaFrame = regexp.MustCompile(`github\.com/gogpu/naga/\S+`)

// topNagaFrame extracts the innermost naga function from a Go stack trace.
func topNagaFrame(stack string) string {
	for _, ln := range strings.Split(stack, "\n") {
		if strings.Contains(ln, "verif/internal") {
			continue
		}
		if m := nagaFrame.FindString(ln); m != "" && !strings.HasPrefix(ln, "\t") {
			m = strings.TrimPrefix(m, "github.com/gogpu/naga/")
			if i := strings.LastIndex(m, "("); i > 0 { // drop the argument list
				m = m[:i]
			}
			return m
		}
	}
	return "?"
}

// cycleSig names a recursion cycle independently of which frame happened to be on top: the sorted
// set of distinct naga functions among the innermost frames.
func cycleSig(stack string) string {
	seen := map[string]bool{}
	var names []string
	n := 0
	for _, ln := range strings.Split(stack, "\n") {
		if strings.HasPrefix(ln, "\t") || strings.Contains(ln, "verif/internal") {
			continue
		}
		m := nagaFrame.FindString(ln)
		if m == "" {
			continue
		}
		n++
		if n > 60 {
			break
		}
		m = strings.TrimPrefix(m, "github.com/gogpu/naga/")
		if i := strings.LastIndex(m, "("); i > 0 {
			m = m[:i]
		}
		if !seen[m] {
			seen[m] = true
			names = append(names, m)
		}
	}
	sort.Strings(names)
	if len(names) > 6 {
		names = names[:6]
	}
	return strings.Join(names, "+")
}

type c10Panic struct {
	Stage string `json:"stage"`
	Msg   string `json:"msg"`
	Frame string `json:"frame"`
	Stack string `json:"stack"`
}

// c10RunOne pushes one source through every public entry point. Returns recovered panics.
func c10RunOne(src string) (panics []c10Panic) {
	stage := "tokenize"
	guard := func(st string, f func()) {
		stage = st
		defer func() {
			if r := recover(); r != nil {
				stk := string(debug.Stack())
				panics = append(panics, c10Panic{Stage: stage, Msg: fmt.Sprint(r), Frame: topNagaFrame(stk), Stack: stk})
			}
		}()
		f()
	}
	guard("tokenize", func() { wgsl.NewLexer(src).Tokenize() })
	guard("compile", func() { naga.Compile(src) })
	var m *ir.Module
	guard("parse+lower", func() {
		ast, err := naga.Parse(src)
		if err != nil {
			return
		}
		mm, err := naga.LowerWithSource(ast, src)
		if err == nil {
			m = mm
		}
	})
	if m == nil {
		return
	}
	guard("validate", func() { naga.Validate(m) })
	guard("spirv", func() { naga.GenerateSPIRV(m, spirv.DefaultOptions()) })
	guard("spirv1.0", func() { naga.GenerateSPIRV(m, spirv.Options{Version: spirv.Version1_0, Debug: true}) })
	guard("hlsl", func() { hlsl.Compile(m, hlsl.DefaultOptions()) })
	guard("msl", func() {
		o := msl.DefaultOptions()
		o.FakeMissingBindings = true
		msl.Compile(m, o)
	})
	for i := range m.EntryPoints {
		name := m.EntryPoints[i].Name
		guard("glsl", func() {
			o := glsl.DefaultOptions()
			o.LangVersion = glsl.Version450
			o.EntryPoint = name
			glsl.Compile(m, o)
		})
	}
	guard("glsl330", func() {
		o := glsl.DefaultOptions()
		if len(m.EntryPoints) > 0 {
			o.EntryPoint = m.EntryPoints[0].Name
		}
		glsl.Compile(m, o)
	})
	guard("dxil", func() { dxil.Compile(m, dxil.DefaultOptions()) })
	return
}

// ---------------------------------------------------------------- worker process

func c10Worker(args []string) int {
	// args: tier gen shard nshards start
	thorough := args[0] == "thorough"
	g, _ := strconv.Atoi(args[1])
	shard, _ := strconv.Atoi(args[2])
	n, _ := strconv.Atoi(args[3])
	start, _ := strconv.Atoi(args[4])
	gen := c10Generators(thorough)[g]
	out := os.Stdout
	for k := start; ; k++ {
		idx := shard + k*n
		if idx >= gen.Count {
			break
		}
		fmt.Fprintf(out, "@ %d\n", k)
		src := gen.At(idx)
		t0 := time.Now()
		ps := c10RunOne(src)
		if os.Getenv("VERIF_C10_TIMES") != "" {
			fmt.Fprintf(os.Stderr, "T %.3f %s\n", time.Since(t0).Seconds(), gen.Label(idx))
		}
		for _, p := range ps {
			b, _ := json.Marshal(p)
			fmt.Fprintf(out, "P %d %s\n", k, b)
		}
	}
	fmt.Fprintln(out, "D")
	return 0
}

// ---------------------------------------------------------------- parent

func procCPU(pid int) float64 {
	b, err := os.ReadFile(fmt.Sprintf("/proc/%d/stat", pid))
	if err != nil {
		return -1
	}
	// fields after the last ')'
	s := string(b)
	i := strings.LastIndex(s, ")")
	f := strings.Fields(s[i+1:])
	if len(f) < 14 {
		return -1
	}
	ut, _ := strconv.ParseFloat(f[11], 64)
	st, _ := strconv.ParseFloat(f[12], 64)
	return (ut + st) / 100.0
}

func runC10() int {
	r := explore.New("C10")
	thorough := r.Thorough()
	cpuCap := 40.0
	if thorough {
		cpuCap = 120.0
	}
	if v := os.Getenv("VERIF_C10_CPUCAP"); v != "" {
		cpuCap, _ = strconv.ParseFloat(v, 64)
	}
	memKiB := 4 * 1024 * 1024
	gens := c10Generators(thorough)
	self, _ := os.Executable()
	nshards := runtime.GOMAXPROCS(0)
	tier := "quick"
	if thorough {
		tier = "thorough"
	}
	for g, gen := range gens {
		t0 := time.Now()
		defer func(name string) { _ = name }(gen.Name)
		r.Extra("inputs_"+gen.Name, gen.Count)
		r.Count("evaluations", int64(gen.Count))
		var wg sync.WaitGroup
		for s := 0; s < nshards; s++ {
			wg.Add(1)
			go func(s int) {
				defer wg.Done()
				start := 0
				for {
					done, last := c10RunShard(r, self, tier, g, gen, s, nshards, start, cpuCap, memKiB)
					if done {
						return
					}
					start = last + 1
				}
			}(s)
		}
		wg.Wait()
		r.Extra("wall_s_"+gen.Name, time.Since(t0).Seconds())
	}
	r.Extra("cpu_cap_s", cpuCap)
	r.Sample(map[string]any{"generator": "ladders", "label": gens[0].Label(3), "source_prefix": trunc(gens[0].At(3), 160)})
	r.Sample(map[string]any{"generator": gens[1].Name, "label": gens[1].Label(12345 % gens[1].Count), "source": gens[1].At(12345 % gens[1].Count)})
	r.Sample(map[string]any{"generator": gens[2].Name, "label": gens[2].Label(777 % gens[2].Count)})
	printKeys(r)
	return r.Finish("every token string up to length L over a 24-token alphabet in 3 contexts; every single-token edit (delete/duplicate/swap/replace by each alphabet token) at every token of every seed; every prefix and every byte substitution from a hostile byte set at every offset of the small seeds; parametric ladders (nesting depth, chain length, object size) up to 64 KiB of source plus fixed cyclic/self-referential programs; all valid generated programs. Each input goes through tokenize, Compile, parse, lower, validate and all five backends in an isolated worker (ulimit -v 4 GiB, CPU-time cap). distinct = distinct (stage, panic message class, innermost naga frame) outcomes plus the clean outcome",
		[]string{"a violation is a recovered panic, a worker death by Go fatal error (stack overflow, out of memory under the address-space limit), or more than the CPU-time cap spent on one input; slow-but-terminating inputs below the cap are not violations",
			"coverage of 'all byte strings' is necessarily partial: what is exhausted is stated in rule"})
}

func trunc(s string, n int) string {
	if len(s) > n {
		return s[:n] + "..."
	}
	return s
}

// c10RunShard runs one worker; returns done=true when the shard finished, else the last index k it was working on.
func c10RunShard(r *explore.Run, self, tier string, g int, gen c10Gen, shard, n, start int, cpuCap float64, memKiB int) (bool, int) {
	if shard+start*n >= gen.Count {
		return true, 0
	}
	cmdline := fmt.Sprintf("ulimit -v %d; exec %q worker c10 %s %d %d %d %d", memKiB, self, tier, g, shard, n, start)
	cmd := exec.Command("sh", "-c", cmdline)
	cmd.Env = append(os.Environ(), "GOMAXPROCS=2", "GOGC=50")
	var stderr bytes.Buffer
	cmd.Stderr = &limitedWriter{buf: &stderr, max: 1 << 20}
	stdout, _ := cmd.StdoutPipe()
	cmd.SysProcAttr = &syscall.SysProcAttr{Setpgid: true}
	if err := cmd.Start(); err != nil {
		fmt.Println("HARNESS-ERROR: cannot start worker:", err)
		os.Exit(2)
	}
	var mu sync.Mutex
	cur := start
	killedForCPU := false
	stop := make(chan struct{})
	go func() {
		// CPU-time watchdog: no wall-clock oracle. The worker's CPU time is sampled; if it grows by
		// more than the cap while the worker stays on one input, the worker is killed.
		t := time.NewTicker(500 * time.Millisecond)
		defer t.Stop()
		lastK := -1
		cpuAtProgress := 0.0
		for {
			select {
			case <-stop:
				return
			case <-t.C:
				c := procCPU(cmd.Process.Pid)
				if c < 0 {
					continue
				}
				mu.Lock()
				k := cur
				mu.Unlock()
				if k != lastK {
					lastK, cpuAtProgress = k, c
					continue
				}
				if c-cpuAtProgress > cpuCap {
					mu.Lock()
					killedForCPU = true
					mu.Unlock()
					syscall.Kill(-cmd.Process.Pid, syscall.SIGKILL)
					return
				}
			}
		}
	}()
	sc := bufio.NewScanner(stdout)
	sc.Buffer(make([]byte, 1<<20), 1<<24)
	done := false
	for sc.Scan() {
		ln := sc.Text()
		switch {
		case strings.HasPrefix(ln, "@ "):
			k, _ := strconv.Atoi(ln[2:])
			mu.Lock()
			cur = k
			mu.Unlock()
		case strings.HasPrefix(ln, "P "):
			rest := ln[2:]
			sp := strings.IndexByte(rest, ' ')
			k, _ := strconv.Atoi(rest[:sp])
			var p c10Panic
			json.Unmarshal([]byte(rest[sp+1:]), &p)
			idx := shard + k*n
			cls := "panic|" + p.Stage + "|" + errClass(p.Msg) + "|" + p.Frame
			r.Distinct(cls)
			r.Violate(explore.Violation{Key: "C10|" + cls,
				Detail: fmt.Sprintf("recovered panic in %s: %s\ninnermost naga frame: %s\ninput: %s [%s #%d]", p.Stage, p.Msg, p.Frame, gen.Label(idx), gen.Name, idx),
				Replay: map[string]any{"generator": gen.Name, "index": idx, "label": gen.Label(idx), "src": trunc(gen.At(idx), 70000), "stack": trunc(p.Stack, 6000)}})
		case ln == "D":
			done = true
		}
	}
	cmd.Wait()
	close(stop)
	r.Distinct("clean")
	if done {
		return true, 0
	}
	mu.Lock()
	k := cur
	cpuKill := killedForCPU
	mu.Unlock()
	idx := shard + k*n
	es := stderr.String()
	var cls string
	switch {
	case cpuKill:
		cls = "cpu-cap|" + gen.Label(idx)
		if strings.HasPrefix(gen.Name, "tokens") || gen.Name == "token-edits" || gen.Name == "byte-edits" || gen.Name == "valid-programs" {
			cls = "cpu-cap|" + gen.Name
		}
	case strings.Contains(es, "stack overflow"):
		cls = "fatal|stack overflow|" + cycleSig(afterGoroutine(es))
	case strings.Contains(es, "out of memory") || strings.Contains(es, "cannot allocate memory"):
		cls = "fatal|out of memory|" + topNagaFrame(afterGoroutine(es))
	default:
		cls = "fatal|" + errClass(firstLine(es)) + "|" + topNagaFrame(afterGoroutine(es))
	}
	r.Distinct(cls)
	r.Violate(explore.Violation{Key: "C10|" + cls,
		Detail: fmt.Sprintf("worker died on input %s [%s #%d]: %s\ninnermost naga frame: %s", gen.Label(idx), gen.Name, idx, firstLine(es), topNagaFrame(afterGoroutine(es))),
		Replay: map[string]any{"generator": gen.Name, "index": idx, "label": gen.Label(idx), "src": trunc(gen.At(idx), 70000), "stderr": trunc(es, 6000)}})
	return false, k
}

func afterGoroutine(es string) string {
	if i := strings.Index(es, "goroutine "); i >= 0 {
		return es[i:]
	}
	return es
}

func firstLine(s string) string {
	s = strings.TrimSpace(s)
	if i := strings.IndexByte(s, '\n'); i >= 0 {
		return s[:i]
	}
	return s
}

type limitedWriter struct {
	buf *bytes.Buffer
	max int
	mu  sync.Mutex
}

func (l *limitedWriter) Write(p []byte) (int, error) {
	l.mu.Lock()
	defer l.mu.Unlock()
	if l.buf.Len() < l.max {
		k := l.max - l.buf.Len()
		if k > len(p) {
			k = len(p)
		}
		l.buf.Write(p[:k])
	}
	return len(p), nil
}
