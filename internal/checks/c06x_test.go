package checks

import (
	"fmt"
	"os"
	"strings"
	"testing"

	"github.com/gogpu/naga/spirv"

	"verif/internal/explore"
	"verif/internal/irx"
	"verif/internal/nagax"
	"verif/internal/spv"
	"verif/internal/xrt"
	"verif/internal/wgen"
)

// authoring aid: C06X_SIG=<substring of a group signature> go test -run TestC06xGroup
func TestC06xGroup(t *testing.T) {
	want := os.Getenv("C06X_SIG")
	if want == "" {
		t.Skip()
	}
	r := explore.New("C06")
	seen := map[string]bool{}
	c06xDebug = func(key, detail, src string) {
		if !seen[key] {
			seen[key] = true
			fmt.Printf("KEY %s\n  %s\n%s\n", key, detail, src)
		}
	}
	n := 0
	for _, g := range wgen.F6c2Groups(true) {
		if strings.Contains(g.Sig, want) {
			c06xChainGroup(r, g, false)
			n++
			if n > 3 {
				break
			}
		}
	}
}

func TestC06xStructCount(t *testing.T) {
	for _, full := range []bool{false, true} {
		gs := wgen.F6c3Groups(full)
		n := 0
		by := map[string]int{}
		for _, g := range gs {
			n += g.NumAccesses()
			by[strings.SplitN(g.TypeName, "<", 2)[0]] += g.NumAccesses()
		}
		fmt.Println("full", full, "groups", len(gs), "items", n, by)
	}
	gs := wgen.F6c3Groups(false)
	for _, i := range []int{len(gs) - 500, len(gs) - 300, len(gs) - 100, len(gs) - 40, len(gs) - 1} {
		g := gs[i]
		fmt.Println(g.Sig)
		for _, j := range []int{0, g.NumAccesses() / 2, g.NumAccesses() - 1} {
			it := g.Item(j, j%2 == 1)
			for _, b := range it.Binds {
				fmt.Println("   const", b.Name, "=", wgen.ExprString(b.Init))
			}
			fmt.Println("   ", wgen.ExprString(it.Result), "::", it.Result.T())
		}
	}
}

func TestC06xStructGroup(t *testing.T) {
	want := os.Getenv("C06X_SIG")
	if want == "" {
		t.Skip()
	}
	r := explore.New("C06")
	seen := map[string]bool{}
	c06xDebug = func(key, detail, src string) {
		if !seen[key] {
			seen[key] = true
			fmt.Printf("KEY %s\n  %s\n%s\n", key, detail, src)
		}
	}
	groups := wgen.F6c3Groups(false)
	canon := c06xStructCanonMap(groups)
	n := 0
	for _, g := range groups {
		if strings.Contains(g.Sig, want) {
			c06xStructGroup(r, g, canon)
			n++
			if n > 3 {
				break
			}
		}
	}
}

// authoring aid: C06X_SRC=<file> runs one program with both observers and prints binding 0.
func TestC06xSrc(t *testing.T) {
	f := os.Getenv("C06X_SRC")
	if f == "" {
		t.Skip()
	}
	b, _ := os.ReadFile(f)
	m, stage, err, pn := nagax.Front(string(b))
	fmt.Println("front:", stage, err, pn)
	if m == nil {
		return
	}
	k := xrt.Binding{Group: 0, Binding: 0}
	b1 := xrt.Buffers{k: make([]byte, 64), {Group: 0, Binding: 1}: make([]byte, 64)}
	fmt.Println("irx:", irx.Exec(m, b1, xrt.Opts{}), b1[k])
	bin, e2, pn2 := nagax.SPIRV(m, spirv.DefaultOptions())
	fmt.Println("spirv:", e2, pn2)
	mod, e3 := spv.Parse(bin)
	fmt.Println("parse:", e3)
	b2 := xrt.Buffers{k: make([]byte, 64), {Group: 0, Binding: 1}: make([]byte, 64)}
	fmt.Println("spv:", spv.Exec(mod, b2, xrt.Opts{EntryPoint: "main"}), b2[k])
}

func TestC06xProbeDir(t *testing.T) {
	d := os.Getenv("C06X_DIR")
	if d == "" {
		t.Skip()
	}
	es, _ := os.ReadDir(d)
	for _, e := range es {
		if !strings.HasSuffix(e.Name(), ".wgsl") {
			continue
		}
		b, _ := os.ReadFile(d + "/" + e.Name())
		ok, msg, pn := compiles(string(b))
		fmt.Printf("%-16s accepted=%v panic=%v %s\n", e.Name(), ok, pn, trunc(msg, 120))
	}
}
