package checks

import (
	"fmt"
	"sort"
	"strings"

	"github.com/gogpu/naga/ir"
	"github.com/gogpu/naga/msl"
	"github.com/gogpu/naga/spirv"

	"verif/internal/explore"
	"verif/internal/nagax"
	"verif/internal/wgen"
)

// C17, per-entry-point options: for every F5EP module (2-3 entry points of mixed stages over a shared pool
// of resources) x every order of the entry points in the source x every assignment of {explicit resource
// map, no map} to the entry points x FakeMissingBindings on/off x {complete, sparse} maps, the argument
// slots of an entry point in the MSL text must
//   (1) be the slots its own map entry names (where it has one),
//   (2) equal the slots obtained by compiling a module that holds this entry point alone (same globals)
//       with the same map entry: nothing may leak from another entry point's options or position,
//   (3) not collide (two resources of one class on one slot) when the supplied maps are injective,
// and the whole compilation must fail exactly when one of the single-entry compilations fails.
// Every order is also checked against the interface model in SPIR-V, HLSL and GLSL.

type c17MSLObs struct {
	err   string
	slots map[string]string // resource name or "#<type>" (an argument that is not a WGSL resource) -> slot attribute
}

func (o c17MSLObs) String() string {
	if o.err != "" {
		return "error: " + o.err
	}
	var ks []string
	for k := range o.slots {
		ks = append(ks, k)
	}
	sort.Strings(ks)
	var sb strings.Builder
	for _, k := range ks {
		sb.WriteString(k + "=" + o.slots[k] + " ")
	}
	return strings.TrimSpace(sb.String())
}

func c17MSLSlotAttr(v ctVar) string {
	for _, a := range v.Attrs {
		switch a.Name {
		case "buffer", "texture", "sampler":
			return a.Name + "(" + strings.Join(a.Args, ",") + ")"
		}
	}
	for _, a := range v.Attrs {
		if a.Name == "user" {
			return "placeholder"
		}
	}
	return "none"
}

// c17MSLObserve extracts the resource arguments of entry point ep from MSL text.
func c17MSLObserve(prog *ctProgram, info msl.TranslationInfo, ep string, resources []wgen.F5Resource) (c17MSLObs, string) {
	name, ok := info.EntryPointNames[ep]
	if !ok {
		return c17MSLObs{}, "no entry-point name reported for " + ep
	}
	fn := prog.funcByName(name)
	if fn == nil {
		return c17MSLObs{}, fmt.Sprintf("reflection maps %s to %s, which is not a function in the text", ep, name)
	}
	o := c17MSLObs{slots: map[string]string{}}
	for _, pa := range fn.Params {
		if _, ok := pa.attr("stage_in"); ok {
			continue
		}
		io := false
		for _, a := range pa.Attrs {
			if _, isBuiltin := mslBuiltinAttrSet[a.Name]; isBuiltin {
				io = true
			}
		}
		if io {
			continue
		}
		n := strings.TrimRight(pa.Name, "_")
		isRes := false
		for _, r := range resources {
			if r.Name == n {
				isRes = true
			}
		}
		if isRes {
			o.slots[n] = c17MSLSlotAttr(pa)
		} else {
			o.slots["#"+pa.Type] = c17MSLSlotAttr(pa)
		}
	}
	return o, ""
}

var mslBuiltinAttrSet = func() map[string]bool {
	s := map[string]bool{}
	for _, v := range mslBuiltinAttr {
		s[v] = true
	}
	return s
}()

func c17EPMap(m *wgen.F5EPModule, ei int, sparse bool) msl.EntryPointResources {
	res := map[ir.ResourceBinding]msl.BindTarget{}
	skip := ""
	if sparse && len(m.Entries[ei].Uses) > 0 {
		skip = m.Entries[ei].Uses[len(m.Entries[ei].Uses)/2]
	}
	for ri, r := range m.Resources {
		if r.Name == skip {
			continue
		}
		key := ir.ResourceBinding{Group: uint32(r.Group), Binding: uint32(r.Binding)}
		switch r.Kind {
		case "uniform", "storage_ro", "storage_rw":
			s := uint8(5 + 7*ei + ri)
			res[key] = msl.BindTarget{Buffer: &s, Mutable: r.Kind == "storage_rw"}
		case "texture", "depth_texture", "storage_texture":
			s := uint8(3 + 7*ei + ri)
			res[key] = msl.BindTarget{Texture: &s, Mutable: r.Kind == "storage_texture"}
		default:
			s := uint8(1 + 3*ei + ri)
			res[key] = msl.BindTarget{Sampler: &msl.BindSamplerTarget{Slot: s}}
		}
	}
	sb := uint8(28 + ei)
	return msl.EntryPointResources{Resources: res, SizesBuffer: &sb}
}

func c17EPWantSlot(r wgen.F5Resource, ri, ei int) string {
	switch r.Kind {
	case "uniform", "storage_ro", "storage_rw":
		return fmt.Sprintf("buffer(%d)", 5+7*ei+ri)
	case "texture", "depth_texture", "storage_texture":
		return fmt.Sprintf("texture(%d)", 3+7*ei+ri)
	}
	return fmt.Sprintf("sampler(%d)", 1+3*ei+ri)
}

func c17EPModule(r *explore.Run, m *wgen.F5EPModule) {
	n := len(m.Entries)
	perms := wgen.F5XPermutations(n)
	seen := map[string]bool{}
	failk := func(class, cfg, detail, src string) {
		key := "C17|" + class + "|" + m.Sig
		if seen[key] {
			return
		}
		seen[key] = true
		r.Violate(explore.Violation{Key: key, Detail: class + ": " + detail + "\nmodule " + m.Sig + " " + cfg + "\n" + src, Replay: map[string]any{"sig": m.Sig, "config": cfg, "src": src}})
	}
	count := func() { r.Count("evaluations", 1) }

	// every order against the interface model in the other targets
	for _, order := range perms {
		model := m.Model(order)
		mod, _, err, pn := nagax.Front(model.Src)
		if err != nil || pn != nil {
			r.Skip("front end rejected/panicked (C08/C10), F5EP: " + errClass(errStr(err, pn)))
			return
		}
		fail := func(class, detail string) { failk(class, fmt.Sprintf("order=%v", order), detail, model.Src) }
		c17SPIRV(model, mod, spirv.Version1_1, fail, count, nil)
		c17SPIRV(model, mod, spirv.Version1_4, fail, count, nil)
		c17HLSL(model, mod, false, fail, count)
		c17HLSL(model, mod, true, fail, count)
		c17MSL(model, mod, fail, count)
		c17GLSL(model, mod, fail, count)
		c17ReflGLSLPairs(model, mod, "texa", fail, count)
		c17ReflHLSL(model, mod, fail, count)
		c17ReflMSL(model, mod, fail, count)
		for _, e := range model.Entries {
			c17HLSLEntry(model, mod, false, e.Name, fail, count)
			c17HLSLEntry(model, mod, true, e.Name, fail, count)
		}
	}

	compile := func(src string, o msl.Options) (*ctProgram, msl.TranslationInfo, string) {
		mod, _, err, pn := nagax.Front(src)
		if err != nil || pn != nil {
			return nil, msl.TranslationInfo{}, "front: " + errStr(err, pn)
		}
		text, info, err, pn := nagax.MSL(mod, o)
		count()
		if err != nil || pn != nil {
			return nil, info, errClass(errStr(err, pn))
		}
		return ctParse(text), info, ""
	}
	for _, fake := range []bool{false, true} {
		for _, sparse := range []bool{false, true} {
			// reference: each entry point alone, with and without its map entry
			single := map[[2]int]c17MSLObs{}
			for ei := range m.Entries {
				for ex := 0; ex < 2; ex++ {
					o := msl.DefaultOptions()
					o.FakeMissingBindings = fake
					o.PerEntryPointMap = nil
					if ex == 1 {
						o.PerEntryPointMap = map[string]msl.EntryPointResources{m.Entries[ei].Name: c17EPMap(m, ei, sparse)}
					}
					prog, info, cerr := compile(m.Source([]int{ei}), o)
					obs := c17MSLObs{err: cerr}
					if cerr == "" {
						var why string
						obs, why = c17MSLObserve(prog, info, m.Entries[ei].Name, m.Resources)
						if why != "" {
							obs = c17MSLObs{err: "unobservable: " + why}
						}
					}
					single[[2]int{ei, ex}] = obs
				}
			}
			for _, order := range perms {
				src := m.Source(order)
				for assign := 0; assign < 1<<n; assign++ {
					o := msl.DefaultOptions()
					o.FakeMissingBindings = fake
					o.PerEntryPointMap = nil
					var desc []string
					if assign != 0 {
						o.PerEntryPointMap = map[string]msl.EntryPointResources{}
					}
					for ei := range m.Entries {
						if assign&(1<<ei) != 0 {
							o.PerEntryPointMap[m.Entries[ei].Name] = c17EPMap(m, ei, sparse)
						}
					}
					for _, ei := range order {
						desc = append(desc, m.Entries[ei].Name+map[bool]string{true: ":map", false: ":nomap"}[assign&(1<<ei) != 0])
					}
					cfg := fmt.Sprintf("source order [%s] fake=%v sparse=%v", strings.Join(desc, " "), fake, sparse)
					ftag := map[bool]string{true: "fake", false: "nofake"}[fake]
					prog, info, cerr := compile(src, o)
					anySingleErr := ""
					for ei := range m.Entries {
						ex := (assign >> ei) & 1
						if s := single[[2]int{ei, ex}]; s.err != "" {
							anySingleErr = m.Entries[ei].Name + ": " + s.err
						}
					}
					if cerr != "" {
						if anySingleErr == "" {
							failk("msl:epmap-error:"+ftag, cfg, "the module fails to compile ("+cerr+") although every entry point compiles alone with the same options", src)
						}
						continue
					}
					if anySingleErr != "" {
						failk("msl:epmap-error-lost:"+ftag, cfg, "the module compiles although an entry point alone is rejected with the same options ("+anySingleErr+")", src)
						continue
					}
					for ei, e := range m.Entries {
						ex := (assign >> ei) & 1
						obs, why := c17MSLObserve(prog, info, e.Name, m.Resources)
						if why != "" {
							failk("msl:entry-point-name", cfg, why, src)
							continue
						}
						want := single[[2]int{ei, ex}]
						// (1) the entry point's own map
						if ex == 1 {
							for ri, res := range m.Resources {
								got, present := obs.slots[res.Name]
								if !present {
									continue
								}
								if _, mapped := c17EPMap(m, ei, sparse).Resources[ir.ResourceBinding{Group: uint32(res.Group), Binding: uint32(res.Binding)}]; !mapped {
									continue
								}
								if w := c17EPWantSlot(res, ri, ei); got != w {
									failk("msl:epmap-own-map:"+ftag, cfg, fmt.Sprintf("%s: %s is bound at [[%s]], its resource map says [[%s]]", e.Name, res.Name, got, w), src)
								}
							}
						}
						// (2) independence of the other entry points
						if obs.String() != want.String() {
							cls := "msl:epmap-leak:" + ftag + map[int]string{0: ":unmapped", 1: ":mapped"}[ex]
							failk(cls, cfg, fmt.Sprintf("%s: argument slots {%s}; compiled alone with the same map entry: {%s}", e.Name, obs, want), src)
						}
						// (3) no collisions
						bySlot := map[string]string{}
						var names []string
						for k := range obs.slots {
							names = append(names, k)
						}
						sort.Strings(names)
						for _, k := range names {
							s := obs.slots[k]
							if s == "none" || s == "placeholder" {
								continue
							}
							if other, dup := bySlot[s]; dup {
								failk("msl:epmap-collision:"+ftag, cfg, fmt.Sprintf("%s: %s and %s are both bound at [[%s]]", e.Name, other, k, s), src)
							}
							bySlot[s] = k
						}
					}
				}
			}
		}
	}
	r.Distinct(m.Sig)
}
