package checks

import (
	"bytes"
	"fmt"
	"sort"
	"strings"

	"github.com/gogpu/naga/glsl"
	"github.com/gogpu/naga/hlsl"
	"github.com/gogpu/naga/msl"
	"github.com/gogpu/naga/spirv"

	"verif/internal/explore"
	"verif/internal/irx"
	"verif/internal/nagax"
	"verif/internal/wgen"
)

func init() { Registry["C19"] = runC19 }

// c19Out is everything observed for one source text.
type c19Out struct {
	accepted bool
	stage    string
	irHash   string
	spv      []byte
	texts    map[string]string // backend -> text ("" if backend error)
	errs     map[string]string
}

func c19Observe(src string) *c19Out {
	o := &c19Out{texts: map[string]string{}, errs: map[string]string{}}
	m, stage, err, pn := nagax.Front(src)
	if pn != nil {
		o.stage = "panic"
		return o
	}
	if err != nil {
		o.stage = stage
		return o
	}
	o.accepted = true
	o.irHash = irx.HashOpts(m, irx.HashOptions{IgnoreNames: true, IgnoreSpans: true})
	b, err, pn := nagax.SPIRV(m, spirv.Options{Version: spirv.Version1_3})
	if err == nil && pn == nil {
		o.spv = b
	} else {
		o.errs["spirv"] = errStr(err, pn)
	}
	h, _, err, pn := nagax.HLSL(m, *hlsl.DefaultOptions())
	o.texts["hlsl"], o.errs["hlsl"] = h, errStr(err, pn)
	mo := msl.DefaultOptions()
	mo.FakeMissingBindings = true
	ms, _, err, pn := nagax.MSL(m, mo)
	o.texts["msl"], o.errs["msl"] = ms, errStr(err, pn)
	var gl strings.Builder
	var ge []string
	for i := range m.EntryPoints {
		g := glsl.DefaultOptions()
		g.LangVersion = glsl.Version450
		g.EntryPoint = m.EntryPoints[i].Name
		s, _, err, pn := nagax.GLSL(m, g)
		gl.WriteString(s)
		ge = append(ge, errStr(err, pn))
	}
	o.texts["glsl"], o.errs["glsl"] = gl.String(), strings.Join(ge, ";")
	return o
}

// alphaEqual: token-level equality of two outputs up to the renaming that was applied to the
// source: non-identifier tokens must be equal; an identifier token may differ only if the original
// spelling derives from a renamed name and the new spelling derives from its image (naga appends
// suffixes such as "_" or "_1" to user names, and reuses one spelling for unrelated entities in
// different scopes, so a global bijection would be too strict).
func alphaEqual(a, b string, ren map[string]string) bool {
	ta, tb := wgen.Tokenize(a, false), wgen.Tokenize(b, false)
	if len(ta) != len(tb) {
		return false
	}
	for i := range ta {
		if ta[i].Kind != tb[i].Kind {
			return false
		}
		x, y := ta[i].Text, tb[i].Text
		if x == y {
			continue
		}
		if ta[i].Kind != "ident" {
			return false
		}
		ok := false
		for from, to := range ren {
			// (case-insensitive: the HLSL writer derives lower-cased variable names from struct names)
			// and underscore-insensitive: namers collapse/append underscores)
			if strings.Contains(normName(x), normName(from)) && strings.Contains(normName(y), normName(to)) {
				ok = true
				break
			}
		}
		if !ok {
			return false
		}
	}
	return true
}

func normName(s string) string { return strings.ReplaceAll(strings.ToLower(s), "_", "") }

// c19Compare reports how an edited program's observation differs from the base ("" = identical).
func c19Compare(base, ed *c19Out, ren map[string]string) string {
	rename := ren != nil
	if base.accepted != ed.accepted {
		if ed.accepted {
			return "accepted-after-edit"
		}
		return "rejected-after-edit(" + ed.stage + ")"
	}
	if !base.accepted {
		return ""
	}
	if base.irHash != ed.irHash {
		return "lowered-module-differs"
	}
	if !bytes.Equal(base.spv, ed.spv) || base.errs["spirv"] != ed.errs["spirv"] {
		return "spirv-differs"
	}
	for _, be := range []string{"hlsl", "msl", "glsl"} {
		if base.errs[be] != ed.errs[be] && (!rename || (base.errs[be] == "") != (ed.errs[be] == "")) {
			return be + "-error-differs" // (error texts mention names: for renamings only presence is compared)
		}
		if base.texts[be] == ed.texts[be] {
			continue
		}
		if rename && alphaEqual(base.texts[be], ed.texts[be], ren) {
			continue
		}
		return be + "-differs"
	}
	return ""
}

// ---------------------------------------------------------------- edit generators (token level)

var c19Trivia = []struct{ name, text string }{
	{"space", " "}, {"tab", "\t"}, {"lf", "\n"}, {"crlf", "\r\n"}, {"cr", "\r"},
	{"line-comment-lf", "// c\n"}, {"line-comment-crlf", "// c\r\n"}, {"line-comment-cr", "// c\r"},
	{"block-comment-empty", "/**/"}, {"block-comment-nested", "/* a /* b */ c */"}, {"block-comment-lookalikes", "/* * / / * */"},
	{"block-comment-quotes", "/* \" ' ` */"}, {"block-comment-nonascii", "/* é → 日本 */"}, {"block-comment-multiline", "/* a\n b\r\n c */"},
}

var templateHeads = map[string]bool{"vec2": true, "vec3": true, "vec4": true, "array": true, "ptr": true, "atomic": true, "bitcast": true,
	"mat2x2": true, "mat2x3": true, "mat2x4": true, "mat3x2": true, "mat3x3": true, "mat3x4": true, "mat4x2": true, "mat4x3": true, "mat4x4": true,
	"texture_2d": true, "texture_storage_2d": true, "texture_2d_array": true, "texture_3d": true, "texture_cube": true, "texture_multisampled_2d": true, "var": true, "binding_array": true}

type c19Edit struct {
	kind string
	site int
	src  string
}

// triviaEdits: insert each trivia text at every token boundary (before token i, and at the end).
func triviaEdits(src string, toks []wgen.Tok, emit func(e c19Edit)) {
	for i := 0; i <= len(toks); i++ {
		pos := len(src)
		if i < len(toks) {
			pos = toks[i].Start
		}
		for _, tv := range c19Trivia {
			emit(c19Edit{"insert-" + tv.name, i, src[:pos] + tv.text + src[pos:]})
		}
	}
}

// templateEdits: the `>>`, `>=`, `>>=` adjacencies that WGSL's template-list disambiguation defines.
func templateEdits(src string, toks []wgen.Tok, emit func(e c19Edit)) {
	depth := 0
	for i, t := range toks {
		if t.Kind != "punct" {
			continue
		}
		switch t.Text {
		case "<":
			if i > 0 && toks[i-1].Kind == "ident" && templateHeads[toks[i-1].Text] {
				depth++
			} else if depth > 0 && i > 0 && toks[i-1].Kind == "ident" {
				// nested template head not in the table: leave depth unchanged (conservative)
			}
		case ">":
			if depth > 0 {
				depth--
				// remove the whitespace between a template-closing '>' and a following '=' or '>'
				if i+1 < len(toks) && (toks[i+1].Text == "=" || toks[i+1].Text == ">") && toks[i+1].Start > t.End {
					emit(c19Edit{"join-template-close-" + toks[i+1].Text, i, src[:t.End] + src[toks[i+1].Start:]})
				}
			}
		case ">>":
			if depth >= 2 {
				depth -= 2
				emit(c19Edit{"split-template-close->>", i, src[:t.Start+1] + " " + src[t.Start+1:]})
				if i+1 < len(toks) && toks[i+1].Text == "=" && toks[i+1].Start > t.End {
					emit(c19Edit{"join-template-close->>=", i, src[:t.End] + src[toks[i+1].Start:]})
				}
			}
		case ">=":
			if depth >= 1 {
				depth--
				emit(c19Edit{"split-template-close->=", i, src[:t.Start+1] + " " + src[t.Start+1:]})
			}
		case ">>=":
			if depth >= 2 {
				depth -= 2
				emit(c19Edit{"split-template-close->>=", i, src[:t.Start+2] + " " + src[t.Start+2:]})
			}
		}
	}
}

// whitespace removal where it cannot change the token sequence: whitespace between two tokens of
// which at least one is a single-character punctuation that cannot merge with its neighbour.
func wsRemovalEdits(src string, toks []wgen.Tok, emit func(e c19Edit)) {
	safe := func(t wgen.Tok) bool {
		return t.Kind == "punct" && strings.ContainsAny(t.Text, "(){}[],;:@") && len(t.Text) == 1
	}
	for i := 0; i+1 < len(toks); i++ {
		a, b := toks[i], toks[i+1]
		if b.Start == a.End {
			continue
		}
		between := src[a.End:b.Start]
		if strings.Contains(between, "/") { // a comment: removing it is also neutral, keep it simple
			continue
		}
		if safe(a) || safe(b) {
			emit(c19Edit{"remove-whitespace", i, src[:a.End] + src[b.Start:]})
		}
	}
}

// declaredNames finds user-declared identifiers that can be renamed consistently by token
// substitution: names introduced by fn/var/let/const/override/struct/alias and parameter names,
// at least two characters long, not swizzle-like, not entry-point functions.
func declaredNames(toks []wgen.Tok) []string {
	set := map[string]bool{}
	entry := map[string]bool{}
	stage := false
	for i, t := range toks {
		if t.Kind == "punct" && t.Text == "@" && i+1 < len(toks) && (toks[i+1].Text == "compute" || toks[i+1].Text == "vertex" || toks[i+1].Text == "fragment" || toks[i+1].Text == "task" || toks[i+1].Text == "mesh") {
			stage = true
		}
		if t.Kind != "ident" {
			continue
		}
		switch t.Text {
		case "fn":
			if i+1 < len(toks) && toks[i+1].Kind == "ident" {
				if stage {
					entry[toks[i+1].Text] = true
					stage = false
				} else {
					set[toks[i+1].Text] = true
				}
			}
		case "let", "const", "override", "struct", "alias":
			if i+1 < len(toks) && toks[i+1].Kind == "ident" {
				set[toks[i+1].Text] = true
			}
		case "var":
			j := i + 1
			if j < len(toks) && toks[j].Text == "<" {
				for j < len(toks) && toks[j].Text != ">" {
					j++
				}
				j++
			}
			if j < len(toks) && toks[j].Kind == "ident" {
				set[toks[j].Text] = true
			}
		}
	}
	swz := func(s string) bool {
		if len(s) > 4 {
			return false
		}
		for _, c := range s {
			if !strings.ContainsRune("xyzwrgba", c) {
				return false
			}
		}
		return true
	}
	var out []string
	for n := range set {
		if len(n) >= 2 && !swz(n) && !entry[n] && n != "_" {
			out = append(out, n)
		}
	}
	sort.Strings(out)
	return out
}

func renameEdits(src string, toks []wgen.Tok, emit func(e c19Edit, m map[string]string)) {
	names := declaredNames(toks)
	if len(names) == 0 {
		return
	}
	used := map[string]bool{}
	for _, t := range toks {
		if t.Kind == "ident" {
			used[t.Text] = true
		}
	}
	apply := func(kind string, m map[string]string) {
		for _, v := range m {
			if used[v] {
				return // would collide with an existing identifier: not an injective renaming
			}
		}
		var sb strings.Builder
		pos := 0
		for i, t := range toks {
			sb.WriteString(src[pos:t.Start])
			if nv, ok := m[t.Text]; ok && t.Kind == "ident" && !(i > 0 && toks[i-1].Text == "." && false) {
				sb.WriteString(nv)
			} else {
				sb.WriteString(t.Text)
			}
			pos = t.End
		}
		sb.WriteString(src[pos:])
		emit(c19Edit{kind, 0, sb.String()}, m)
	}
	longer, shorter, reversed := map[string]string{}, map[string]string{}, map[string]string{}
	for i, n := range names {
		longer[n] = n + "_renamed_to_something_longer"
		shorter[n] = fmt.Sprintf("q%d", i)
		reversed[n] = fmt.Sprintf("n%03d", len(names)-1-i)
	}
	apply("rename-longer", longer)
	apply("rename-shorter", shorter)
	apply("rename-reverse-order", reversed)
}

// member names also occur after '.', which the token substitution above handles uniformly because
// struct member names are not in the declared set (only module-scope / local declarations are).

// ---------------------------------------------------------------- AST-level edits on generated cases

func parenEdits(c *wgen.Case, emit func(kind string, src string)) {
	// wrap every expression node (one at a time) in redundant parentheses
	var exprs []*wgen.Expr
	var walkE func(e *wgen.Expr)
	var walkS func(s []wgen.Stmt)
	walkE = func(pe *wgen.Expr) {
		if *pe == nil {
			return
		}
		exprs = append(exprs, pe)
		switch e := (*pe).(type) {
		case *wgen.Bin:
			walkE(&e.L)
			walkE(&e.R)
		case *wgen.Un:
			walkE(&e.X)
		case *wgen.Call:
			for i := range e.Args {
				walkE(&e.Args[i])
			}
		case *wgen.Cons:
			for i := range e.Args {
				walkE(&e.Args[i])
			}
		case *wgen.Bitcast:
			walkE(&e.X)
		case *wgen.Index:
			walkE(&e.X)
			walkE(&e.I)
		case *wgen.Field:
			walkE(&e.X)
		case *wgen.Swz:
			walkE(&e.X)
		}
	}
	walkS = func(ss []wgen.Stmt) {
		for _, s := range ss {
			switch s := s.(type) {
			case *wgen.VarDecl:
				walkE(&s.Init)
			case *wgen.Assign:
				walkE(&s.RHS) // (left-hand sides stay as written: `(x) = 1` is also valid WGSL but rarely relevant)
			case *wgen.If:
				walkE(&s.Cond)
				walkS(s.Then)
				walkS(s.Else)
			case *wgen.Switch:
				walkE(&s.Sel)
				for i := range s.Cases {
					walkS(s.Cases[i].Body)
				}
			case *wgen.Loop:
				walkS(s.Body)
				walkS(s.Continuing)
				if s.BreakIf != nil {
					walkE(&s.BreakIf)
				}
			case *wgen.For:
				if s.Cond != nil {
					walkE(&s.Cond)
				}
				walkS(s.Body)
			case *wgen.While:
				walkE(&s.Cond)
				walkS(s.Body)
			case *wgen.Return:
				if s.X != nil {
					walkE(&s.X)
				}
			case *wgen.Block:
				walkS(s.Body)
			}
		}
	}
	for _, f := range c.Mod.Funcs {
		walkS(f.Body)
	}
	for _, pe := range exprs {
		old := *pe
		if _, isCall := old.(*wgen.Call); isCall && old.T() == nil {
			continue
		}
		*pe = &wgen.Paren{X: old}
		emit("redundant-parens", wgen.Print(c.Mod))
		*pe = old
	}
}

// ---------------------------------------------------------------- driver

func c19Seed(r *explore.Run, name, src string, c *wgen.Case, double bool) {
	base := c19Observe(src)
	if !base.accepted {
		r.Skip("seed rejected by the front end (C08)")
		return
	}
	toks := wgen.Tokenize(src, false)
	var first = map[string]bool{}
	check := func(kind string, site int, edited string, rename map[string]string) {
		r.Count("evaluations", 1)
		ed := c19Observe(edited)
		r.Distinct(kind)
		if diff := c19Compare(base, ed, rename); diff != "" {
			key := "C19|" + kind + "|" + diff + "|" + name
			if !first[key] {
				first[key] = true
			}
			r.Violate(explore.Violation{Key: key, Detail: fmt.Sprintf("neutral edit %s at token boundary %d of %s: %s", kind, site, name, diff),
				Replay: map[string]any{"seed": name, "edit": kind, "site": site, "original": trunc(src, 20000), "edited": trunc(edited, 20000)}})
		}
	}
	var edits []c19Edit
	collect := func(e c19Edit) { edits = append(edits, e) }
	triviaEdits(src, toks, collect)
	templateEdits(src, toks, collect)
	wsRemovalEdits(src, toks, collect)
	for _, e := range edits {
		check(e.kind, e.site, e.src, nil)
	}
	renameEdits(src, toks, func(e c19Edit, m map[string]string) { check(e.kind, e.site, e.src, m) })
	if c != nil {
		parenEdits(c, func(kind, s string) { check(kind, 0, s, nil) })
	}
	if double {
		// depth 2: every pair of trivia insertions at the same or adjacent boundary
		for i := 0; i < len(toks); i++ {
			for ai, a := range c19Trivia {
				for bi, b := range c19Trivia {
					if (ai+bi)%3 != 0 { // a fixed third of the pairs per site keeps the thorough tier bounded; all kinds pair with all kinds across sites
						continue
					}
					p1 := toks[i].Start
					s1 := src[:p1] + a.text + b.text + src[p1:]
					check("insert-"+a.name+"+"+b.name, i, s1, nil)
					p2 := toks[i].End
					s2 := src[:p1] + a.text + src[p1:p2] + b.text + src[p2:]
					check("insert-"+a.name+"|"+b.name, i, s2, nil)
				}
			}
		}
	}
}

func runC19() int {
	r := explore.New("C19")
	type seed struct {
		name, src string
		c         *wgen.Case
	}
	var seeds []seed
	for _, m := range wgen.Micros {
		seeds = append(seeds, seed{m.Name, m.Src, nil})
	}
	f1 := wgen.F1()
	step := 101
	if r.Thorough() {
		step = 17
	}
	for i := 0; i < f1.Count; i += step {
		c := f1.At(i)
		seeds = append(seeds, seed{c.Sig, wgen.Print(c.Mod), c})
	}
	f2 := wgen.F2(3, false)
	step2 := 2999
	if r.Thorough() {
		step2 = 499
	}
	for i := 0; i < f2.Count; i += step2 {
		c := f2.At(i)
		seeds = append(seeds, seed{c.Sig, wgen.Print(c.Mod), c})
	}
	corp := corpus()
	cstep := 9
	if r.Thorough() {
		cstep = 1
	}
	for i := 0; i < len(corp); i += cstep {
		seeds = append(seeds, seed{corp[i].Name, corp[i].Src, nil})
	}
	// the template-adjacency family and the trivia seeds also get every classic edit at every boundary
	firstTmpl := len(seeds)
	for _, t := range wgen.C19TmplSeeds() {
		seeds = append(seeds, seed{t.Name, t.Src, nil})
	}
	for _, t := range c19TriviaSeeds {
		seeds = append(seeds, seed{t.name, strings.ReplaceAll(t.src, "§", ""), nil})
	}
	r.Extra("seeds", len(seeds))
	var jobs []c19Job
	for i := range seeds {
		s := seeds[i]
		if c19Part("classic") {
			jobs = append(jobs, func() { c19Seed(r, s.name, s.src, s.c, r.Thorough() && s.c == nil && len(s.src) < 2500) })
		}
		// whitespace edits judged by the reference tokenizer: the new families and every small seed
		if c19Part("ws") && (i >= firstTmpl || len(s.src) < 1500 || (r.Thorough() && len(s.src) < 6000)) {
			jobs = append(jobs, c19WsJob(r, s.name, s.src))
		}
	}
	if c19Part("trivia") {
		jobs = append(jobs, c19TriviaJobs(r)...)
	}
	if c19Part("order") {
		jobs = append(jobs, c19OrderJobs(r)...)
	}
	r.Extra("jobs", len(jobs))
	r.ParallelFor(len(jobs), func(i int) { jobs[i]() })
	r.Sample(map[string]any{"seed": seeds[0].name, "edit": "insert-block-comment-nested at every token boundary", "oracle": "acceptance, lowered-module hash (names/spans erased), SPIR-V bytes, HLSL/MSL/GLSL text"})
	r.Sample(map[string]any{"seed": seeds[3].name, "edit": "rename-reverse-order", "oracle": "texts equal up to one consistent identifier bijection"})
	printKeys(r)
	return r.Finish("for every seed (micro-programs, F1/F2 representatives, corpus files): every trivia insertion (14 kinds: space, tab, LF, CRLF, lone CR, line comments ended by each line break, empty/nested/lookalike/quote/non-ASCII/multi-line block comments) at every token boundary; every `>>`/`>=`/`>>=` adjacency created or split at template-list closers; whitespace removal next to non-merging punctuation; three injective renamings of declared identifiers (longer, shorter, reversed lexicographic order); for generated seeds redundant parentheses around every expression node; thorough adds pairs of insertions at the same/adjacent boundary. Enumerated sub-spaces: (1) every pure-trivia string (per an independent reference scanner of WGSL blankspace/comments: nesting block comments, line comments) of length <= 12 over {/ * a} and <= 8 over {/ * a blank LF}, the latter also with CR LF and lone CR, plus every text of length <= 6 ending inside a line comment closed by each of the 8 WGSL line breaks (and unclosed at end of text), and every WGSL blankspace code point, inserted at 9 characteristic boundaries of each of 2 seeds (thorough: 13/9/7), and every ordered pair of the strings of length <= 8 / <= 5 at 4 pairs of sites; (2) the order family: k=3 (every labelled DAG) and k=4 (stars, Hamiltonian paths, diamonds, empty; thorough every labelled DAG) mutually referring structs / aliases+arrays+structs / functions / constants / mixed struct-fn-const-var declarations, and k independent globals / storage buffers / locals / parameters / struct members, both reference orders, entry point first or last, instantiated with every permutation of the lexicographic order of the k names in 3 length styles, compared up to the renaming; (3) the template-adjacency family (49 seeds: every template-list close followed by every token that may follow it, depths 1..3, plus genuine > >= >> >>= < <= << operators) and every other small seed under every single whitespace removal from the fully spaced form, every single blank//**//LF//-comment insertion into the minimal form, and every filling {nothing, blank, /**/} of every window of 3 consecutive boundaries touching a token with < or >, keeping the candidates whose reference token sequence (WGSL template list discovery) is unchanged. Oracle: acceptance unchanged, lowered module identical up to names/spans, SPIR-V bytes identical, text outputs identical (alpha-equivalent for renamings). distinct = distinct edit kinds exercised",
		[]string{"edits are neutral by the WGSL grammar: trivia between tokens, template-list disambiguation, parenthesised expressions, consistent renaming that avoids existing identifiers and swizzle-like names",
			"entry-point names are kept out of renamings"})
}
