package checks

import (
	"fmt"
	"os"
	"sort"
	"strings"
	"sync"

	"verif/internal/wgen"
)

// ---------------------------------------------------------------- C10 generator "c11-programs"
// Semantically invalid but syntactically well-formed programs: every program the C11 check generates
// (rule-breaking constructs at every host position, and the valid controls of those hosts) is pushed
// through the whole C10 pipeline under C10's oracle. The programs come from C11's own enumerators
// (c11Edits, wgen.C11Render / C11RenderMod / C11RenderBinding / C11RenderWorkgroup / C11Skeleton.Render);
// only the job list (which host x group combinations a tier takes) is restated here, because runC11G
// builds it inline. A job is one host with one construct group: its control and all its offenders
// (the offenders are run whether or not naga accepts the control: C10 has no liveness condition).

type c10c11Job struct {
	kind             byte // 'e' seed edits, 'f' function-level, 'm' module-level, 'b' binding, 'w' workgroup, 's' scope, 't' token edits of a generated host
	a, b, c, d, e, f int32
}

// c10c11Seeds: the seed programs of C11's token-edit family (same selection as runC11, without the
// "accepted by naga" filter: C10 does not depend on what naga accepts).
func c10c11Seeds(thorough bool) []*c11Seed {
	var seeds []*c11Seed
	for _, m := range wgen.Micros {
		seeds = append(seeds, analyse(m.Name, m.Src))
	}
	for _, m := range c11RichSeeds {
		seeds = append(seeds, analyse(m.Name, m.Src))
	}
	f1 := wgen.F1()
	for i := 0; i < f1.Count; i += 173 {
		c := f1.At(i)
		seeds = append(seeds, analyse(c.Sig, wgen.Print(c.Mod)))
	}
	f2 := wgen.F2(3, false)
	st := 1999
	if thorough {
		st = 211
	}
	for i := 0; i < f2.Count; i += st {
		c := f2.At(i)
		seeds = append(seeds, analyse(c.Sig, wgen.Print(c.Mod)))
	}
	return seeds
}

// c10SkipInput marks an input of a job that is not run (phase-2 pruning); positions of the other inputs stay.
const c10SkipInput = "\x00c10-skip\x00"

// genC11Programs: inWorker leaves the seed-edit jobs (which come last) uncounted until one is asked for:
// a worker is told its index limit by the parent and is restarted after every process death, so its
// construction has to be cheap.
func genC11Programs(thorough, inWorker bool) c10Gen {
	seedsOnce := sync.OnceValue(func() []*c11Seed { return c10c11Seeds(thorough) })
	ctxs := wgen.C11Ctxs(thorough)
	forms := wgen.C11Forms
	groups := wgen.C11Groups
	skels := wgen.C11Skeletons(thorough)
	pairs := make([][]wgen.C11ScopePair, len(skels))
	jobs := make([]c10c11Job, 0, 1<<18)
	// function-level hosts: the selection of runC11G
	for fi := range forms {
		f := &forms[fi]
		for ci := range ctxs {
			c := &ctxs[ci]
			if c.Depth == 2 && !thorough && !f.Basic {
				continue
			}
			if c.Depth == 3 && !f.Basic {
				continue
			}
			var poss []int32
			if f.Kind == 's' || (thorough && c.Depth == 1) {
				poss = []int32{0, 1, 2}
			} else {
				poss = []int32{int32((2*fi + ci) % 3)}
			}
			if f.Last {
				poss = []int32{2}
			}
			for _, pos := range poss {
				for fnk := 0; fnk < 3; fnk++ {
					for gi := range groups {
						g := &groups[gi]
						if !wgen.C11Applicable(f, g, fnk) {
							continue
						}
						if g.Light && (c.Depth == 3 || (!thorough && (fi+ci)%3 != 0)) {
							continue
						}
						nord := 1
						if g.OrderDep || len(f.Needs) > 0 {
							nord = 2
						}
						for ord := 0; ord < nord; ord++ {
							jobs = append(jobs, c10c11Job{kind: 'f', a: int32(fi), b: int32(ci), c: pos, d: int32(fnk), e: int32(gi), f: int32(ord)})
						}
					}
				}
			}
		}
	}
	for hi := range wgen.C11ModHosts {
		h := &wgen.C11ModHosts[hi]
		for _, ord := range wgen.C11ModOrders(h) {
			for gi := range groups {
				g := &groups[gi]
				if g.Kind != h.Kind || (g.Kind != 't' && !g.ModOK) {
					continue
				}
				jobs = append(jobs, c10c11Job{kind: 'm', a: int32(hi), b: int32(ord), e: int32(gi)})
			}
		}
	}
	for ri := range wgen.C11Resources {
		for ord := range wgen.C11BindingOrderNames {
			jobs = append(jobs, c10c11Job{kind: 'b', a: int32(ri), b: int32(ord)})
		}
	}
	for wi := range wgen.C11WorkgroupCases {
		jobs = append(jobs, c10c11Job{kind: 'w', a: int32(wi)})
	}
	for si, sk := range skels {
		pairs[si] = sk.Pairs()
		for fnk := 0; fnk < 3; fnk++ {
			for d := 0; d < sk.NumSlots(); d++ {
				jobs = append(jobs, c10c11Job{kind: 's', a: int32(si), b: int32(fnk), c: int32(d)})
			}
		}
	}
	for fi := range forms {
		for ci := range ctxs {
			if ctxs[ci].Depth == 1 || (ctxs[ci].Depth == 2 && forms[fi].Basic && thorough) {
				jobs = append(jobs, c10c11Job{kind: 't', a: int32(fi), b: int32(ci)})
			}
		}
	}

	// Phase 1 = the first job of every (statement form or module host, construct group): each construct
	// at one reference host. A construct that kills the process (or exceeds the CPU cap) there is left out
	// of the other hosts of that (form, group) in phase 2: it would die the same way at each of them, a
	// process death costs seconds, and it is already reported.
	refKey := func(j c10c11Job) string {
		if j.kind == 'f' || j.kind == 'm' {
			return fmt.Sprintf("%c:%d:%d", j.kind, j.a, j.e)
		}
		return ""
	}
	refNum := func(j c10c11Job) int64 {
		if j.kind == 'f' || j.kind == 'm' {
			return int64(j.kind)<<40 | int64(j.a)<<20 | int64(j.e)
		}
		return 0
	}
	split := 0
	{
		seen := map[int64]bool{}
		var first []c10c11Job
		rest := make([]c10c11Job, 0, len(jobs))
		for _, j := range jobs {
			if k := refNum(j); k != 0 && !seen[k] {
				seen[k] = true
				first = append(first, j)
			} else {
				rest = append(rest, j)
			}
		}
		// phase 2: module-level, binding and workgroup jobs before the (many) function-level ones
		sort.SliceStable(rest, func(a, b int) bool {
			return strings.IndexByte("mbwfst", rest[a].kind) < strings.IndexByte("mbwfst", rest[b].kind)
		})
		jobs = append(first, rest...)
		split = len(first)
	}
	nOther := len(jobs)
	jobAt := func(i int) c10c11Job {
		if i < nOther {
			return jobs[i]
		}
		return c10c11Job{kind: 'e', a: int32(i - nOther)}
	}
	skip := map[string]bool{} // "f:form:group:offender" / "m:host:group:offender"
	for _, k := range strings.Split(os.Getenv("VERIF_C10_C11_SKIP"), ",") {
		if k != "" {
			skip[k] = true
		}
	}

	// expand: the programs of one job, with their labels
	expand := func(i int, labels bool) (srcs, labs []string) {
		emit := func(src, lab string) {
			srcs = append(srcs, src)
			if labels {
				labs = append(labs, lab)
			}
		}
		j := jobAt(i)
		switch j.kind {
		case 'e':
			s := seedsOnce()[j.a]
			c11Edits(s, func(e c11Edit) { emit(e.src, fmt.Sprintf("%s@%d", e.rule, e.site)) })
		case 'f':
			f, c, g := &forms[j.a], &ctxs[j.b], &groups[j.e]
			emit(wgen.C11Render(f, c, int(j.c), int(j.d), int(j.f), g, g.Control).Src, "control")
			for k := range g.Offs {
				o := &g.Offs[k]
				if i >= split && skip[fmt.Sprintf("%s:%d", refKey(j), k)] {
					emit(c10SkipInput, o.Rule+"("+o.Var+") [skipped]")
					continue
				}
				emit(wgen.C11Render(f, c, int(j.c), int(j.d), int(j.f), g, o.Text).Src, o.Rule+"("+o.Var+")")
			}
		case 'm':
			h, g := &wgen.C11ModHosts[j.a], &groups[j.e]
			emit(wgen.C11RenderMod(h, int(j.b), g, g.Control).Src, "control")
			for k := range g.Offs {
				o := &g.Offs[k]
				if i >= split && skip[fmt.Sprintf("%s:%d", refKey(j), k)] {
					emit(c10SkipInput, o.Rule+"("+o.Var+") [skipped]")
					continue
				}
				emit(wgen.C11RenderMod(h, int(j.b), g, o.Text).Src, o.Rule+"("+o.Var+")")
			}
		case 'b':
			res := &wgen.C11Resources[j.a]
			for a, at := range wgen.C11BindingAttrs {
				emit(wgen.C11RenderBinding(res, a, int(j.b)).Src, at.Name)
			}
		case 'w':
			emit(wgen.C11RenderWorkgroup(int(j.a), true).Src, "control")
			emit(wgen.C11RenderWorkgroup(int(j.a), false).Src, "missing-workgroup-size")
		case 's':
			sk := skels[j.a]
			fnk, d := int(j.b), int(j.c)
			for _, p := range pairs[j.a] {
				if p.D != d {
					continue
				}
				for dk := range wgen.C11DeclKindNames {
					if sk.SlotIsForInit(p.D) && dk != 1 {
						continue
					}
					nuk := 1
					if dk == 1 && sk.SlotIsStmt(p.U) {
						nuk = 2
					}
					for uk := 0; uk < nuk; uk++ {
						lab := sk.SlotLabel(p.D) + "->" + sk.SlotLabel(p.U) + "/" + wgen.C11DeclKindNames[dk] + "/" + wgen.C11UseKindNames[uk]
						emit(sk.Render(p, dk, uk, fnk, false).Src, lab)
						if !sk.Visible(p) {
							emit(sk.Render(p, dk, uk, fnk, true).Src, lab+"/control")
						}
					}
				}
			}
		case 't':
			f, c := &forms[j.a], &ctxs[j.b]
			g := &wgen.C11Group{Kind: f.Kind, Control: "4", Needs: []string{"sink"}}
			switch f.Kind {
			case 's':
				g.Control = "sink(1);"
			case 't':
				g.Control = "array<i32, 4>"
			}
			p := wgen.C11Render(f, c, 1, wgen.C11FnHelperBefore, 0, g, g.Control)
			emit(p.Src, "control")
			s := analyse("G/"+f.Name+"/"+c.Name, p.Src)
			c11Edits(s, func(e c11Edit) {
				if e.rule != "missing-semicolon" && e.rule != "unbalanced-delimiter" {
					return
				}
				if e.site < p.Lo || e.site >= p.Hi {
					return
				}
				emit(e.src, fmt.Sprintf("%s@%d", e.rule, e.site))
			})
		}
		return
	}
	count := 1 << 60
	if !inWorker {
		count = nOther + len(seedsOnce())
	}
	return c10Gen{Name: "c11-programs", Count: count, Split: split,
		SkipEnv: func(fails []c10Failure) string {
			var ks []string
			seen := map[string]bool{}
			for _, f := range fails {
				if f.idx >= split || f.sub == 0 || !(strings.HasPrefix(f.cls, "fatal|") || strings.HasPrefix(f.cls, "cpu-cap|")) {
					continue
				}
				k := fmt.Sprintf("%s:%d", refKey(jobs[f.idx]), f.sub-1)
				if !seen[k] {
					seen[k] = true
					ks = append(ks, k)
				}
			}
			sort.Strings(ks)
			return "VERIF_C10_C11_SKIP=" + strings.Join(ks, ",")
		},
		Many: func(i int) []string { s, _ := expand(i, false); return s },
		At:   func(i int) string { s, _ := expand(i, false); return s[0] },
		Label: func(i int) string {
			j := jobAt(i)
			switch j.kind {
			case 'e':
				return "c11 seed-edits " + seedsOnce()[j.a].name
			case 'f':
				return fmt.Sprintf("c11g G %s/%s/pos%d/%s/%s x %s", forms[j.a].Name, ctxs[j.b].Name, j.c, wgen.C11FnKindNames[j.d], wgen.C11OrderNames[j.f], groups[j.e].Name)
			case 'm':
				return fmt.Sprintf("c11g M %s/%s x %s", wgen.C11ModHosts[j.a].Name, wgen.C11ModOrderNames[j.b], groups[j.e].Name)
			case 'b':
				return fmt.Sprintf("c11g B %s/%s", wgen.C11Resources[j.a].Name, wgen.C11BindingOrderNames[j.b])
			case 'w':
				return "c11g W " + wgen.C11WorkgroupCases[j.a].Name
			case 's':
				return fmt.Sprintf("c11g S %s/%s/decl-slot%d", skels[j.a].Name, wgen.C11FnKindNames[j.b], j.c)
			case 't':
				return fmt.Sprintf("c11g T %s/%s", forms[j.a].Name, ctxs[j.b].Name)
			}
			return "?"
		},
		SubLabel: func(i, j int) string {
			_, l := expand(i, true)
			if j < len(l) {
				return l[j]
			}
			return "?"
		}}
}
