package checks

import (
	"bytes"
	"fmt"
	"sort"
	"strings"
	"sync"

	"github.com/gogpu/naga/dxil"
	"github.com/gogpu/naga/ir"

	"verif/internal/dxbc"
	"verif/internal/explore"
	"verif/internal/irx"
	"verif/internal/nagax"
	"verif/internal/wgen"
)

func init() {
	Registry["C18"] = runC18
	perProgram["C18"] = func(r *explore.Run, p *prog) { c18Program(r, p, true, nil) }
}

func stageName(s ir.ShaderStage) string {
	switch s {
	case ir.StageVertex:
		return "vertex"
	case ir.StageFragment:
		return "fragment"
	case ir.StageCompute:
		return "compute"
	}
	return ""
}

type c18Want struct {
	space, reg uint32
	optional   bool // the resource may be unused by the entry point (then it is legitimately absent)
}

type c18Map struct {
	label  string
	kind   string // "spread", "shifted", "arraysize"
	m      dxil.BindingMap
	expect []c18Want
}

// c18BindingMaps: the nil map and, when full is set and the module has bound resources, a family of maps:
// identity, shifted (register+3, space+1), and for every binding-array resource the array-size override
// {equal, smaller, larger} (one resource at a time on top of the shifted map).
func c18BindingMaps(m *ir.Module, full bool) []c18Map {
	out := []c18Map{{label: "nil"}}
	if !full {
		return out
	}
	type res struct {
		loc dxil.BindingLocation
		arr *uint32 // binding-array size (nil: not a binding array; 0: unbounded)
	}
	var rs []res
	for gi := range m.GlobalVariables {
		g := &m.GlobalVariables[gi]
		if g.Binding == nil {
			continue
		}
		x := res{loc: dxil.BindingLocation{Group: g.Binding.Group, Binding: g.Binding.Binding}}
		if int(g.Type) < len(m.Types) {
			if ba, ok := m.Types[g.Type].Inner.(ir.BindingArrayType); ok {
				n := uint32(0)
				if ba.Size != nil {
					n = *ba.Size
				}
				x.arr = &n
			}
		}
		rs = append(rs, x)
	}
	if len(rs) == 0 {
		return out
	}
	mk := func(label string, shift uint32, space uint32, override int, size uint32) c18Map {
		bm := dxil.BindingMap{}
		cm := c18Map{label: label, kind: strings.SplitN(label, "[", 2)[0]}
		for i, x := range rs {
			// every resource gets a register space of its own, so ranges cannot overlap by construction
			t := dxil.BindTarget{Space: 10*space + uint32(i), Register: uint32(i)*8 + shift}
			if i == override {
				sz := size
				t.BindingArraySize = &sz
			}
			bm[x.loc] = t
			cm.expect = append(cm.expect, c18Want{space: t.Space, reg: t.Register, optional: true})
		}
		cm.m = bm
		return cm
	}
	out = append(out, mk("spread", 0, 0, -1, 0), mk("shifted", 3, 1, -1, 0))
	for i, x := range rs {
		if x.arr == nil {
			continue
		}
		n := *x.arr
		for _, sz := range []uint32{n, n + 4, 1, 2} {
			if sz == 0 {
				continue
			}
			out = append(out, mk(fmt.Sprintf("arraysize[%d]=%d(type %d)", i, sz, n), 3, 1, i, sz))
		}
	}
	return out
}

type c18Stats struct {
	mu     sync.Mutex
	fired  map[string]int64
	errors map[string]int64
}

func c18Program(r *explore.Run, p *prog, allSM bool, st *c18Stats) {
	m0, _, err, pn := nagax.Front(p.Src)
	if pn != nil || err != nil {
		r.Skip("front end rejected/panicked (belongs to C08/C10)")
		return
	}
	sc := sigClass(p.Sig)
	if strings.HasPrefix(sc, "F2/") {
		sc = "F2"
	}
	if strings.HasPrefix(sc, "F2L/") {
		sc = "F2L"
	}
	sms := []dxil.ShaderModel{dxil.SM6_0}
	if allSM {
		sms = []dxil.ShaderModel{dxil.SM6_0, dxil.SM6_2, dxil.SM6_6}
	}
	for ei := range m0.EntryPoints {
		stage := stageName(m0.EntryPoints[ei].Stage)
		if stage == "" {
			continue // mesh/task etc.: outside the stated stage set
		}
		for _, sm := range sms {
			for _, bypass := range []bool{false, true} {
				for _, bm := range c18BindingMaps(m0, sm == sms[0] && !bypass) {
					m := m0
					if ei != 0 {
						m = irx.Clone(m0)
						m.EntryPoints[0], m.EntryPoints[ei] = m.EntryPoints[ei], m.EntryPoints[0]
					}
					o := dxil.Options{ShaderModel: sm, UseBypassHash: bypass, BindingMap: bm.m}
					b, err, pn := nagax.DXIL(m, o)
					if pn != nil {
						r.Skip("naga panic (belongs to C10)")
						continue
					}
					if err != nil {
						if st != nil {
							st.mu.Lock()
							st.errors[errClass(err.Error())]++
							st.mu.Unlock()
						}
						r.Skip("dxil.Compile returned an ordinary error (allowed by the property)")
						continue
					}
					r.Count("evaluations", 1)
					ex := dxbc.Expect{Stage: stage, SMMajor: int(sm.Major), SMMinor: int(sm.Minor), AllowSMUpgrade: true, BypassHash: bypass}
					if stage == "compute" {
						ws := m.EntryPoints[0].Workgroup
						ex.NumThreads = &[3]uint32{ws[0], ws[1], ws[2]}
					}
					rep := dxbc.Check(b, ex)
					if st != nil {
						st.mu.Lock()
						for k, v := range rep.Fired {
							st.fired[k] += int64(v)
						}
						st.mu.Unlock()
					}
					rp := p.replay()
					rp["entry_point"] = m.EntryPoints[0].Name
					rp["sm"] = []uint32{sm.Major, sm.Minor}
					rp["bypass_hash"] = bypass
					rp["binding_map"] = bm.label
					seen := map[string]bool{}
					for _, f := range rep.Findings {
						key := "C18|" + f.Rule + "|" + errClass(f.Detail) + "|" + sc
						if bm.m != nil && (strings.HasPrefix(f.Rule, "dxmeta.") || strings.HasPrefix(f.Rule, "psv.")) {
							key += "|map:" + bm.kind // resource-level rules are judged per kind of binding map
						}
						if seen[key] {
							continue
						}
						seen[key] = true
						r.Violate(explore.Violation{Key: key, Detail: "DXIL container for " + p.Sig + " entry " + m.EntryPoints[0].Name + " breaks rule " + f.Rule + ": " + f.Detail, Replay: rp})
					}
					// the binding map is honoured: every mapped resource appears in the metadata at its target
					if bm.m != nil {
						for _, want := range bm.expect {
							found := false
							for _, res := range rep.Resources {
								if res.Space == want.space && res.LowerBound == want.reg {
									found = true
								}
							}
							if !found && len(rep.Resources) > 0 && !want.optional {
								r.Violate(explore.Violation{Key: "C18|binding-map|mapped resource not at its target|" + sc + "|map:" + bm.kind,
									Detail: fmt.Sprintf("DXIL container for %s entry %s under binding map %s: no resource at (space %d, register %d) in dx.resources %v", p.Sig, m.EntryPoints[0].Name, bm.label, want.space, want.reg, rep.Resources), Replay: rp})
							}
						}
					}
					if !bypass && sm == dxil.SM6_0 && bm.m == nil {
						r.DistinctBytes(b)
						// determinism: a second call yields identical bytes
						b2, err2, pn2 := nagax.DXIL(m, o)
						if pn2 == nil && (err2 != nil || !bytes.Equal(b, b2)) {
							r.Violate(explore.Violation{Key: "C18|nondeterministic|" + sc, Detail: "two dxil.Compile calls on the same module and options differ for " + p.Sig, Replay: rp})
						}
					}
				}
			}
		}
	}
}

func runC18() int {
	r := explore.New("C18")
	st := &c18Stats{fired: map[string]int64{}, errors: map[string]int64{}}
	f1 := wgen.F1()
	stride, cstride := 2, 4
	if r.Thorough() {
		stride, cstride = 1, 1
	}
	strided := func(f *wgen.Family, st int) *wgen.Family {
		return &wgen.Family{Name: f.Name, Count: (f.Count + st - 1) / st, At: func(i int) *wgen.Case { return f.At(i * st) }}
	}
	fams := []*wgen.Family{strided(f1, stride), wgen.F2(2, false), wgen.F2L(2, false), wgen.F2Mini(4, 3), wgen.F2Mini(3, 4), strided(wgen.F4c(false), cstride), wgen.F1lit()}
	if r.Thorough() {
		fams = append(fams, wgen.F2(4, true), wgen.F2L(3, true), wgen.F2LMini(4, 1), wgen.F2LMini(4, 2), wgen.F2Mini(4, 4))
	}
	texts := append(append([]wgen.Micro{}, wgen.Micros...), corpus()...)
	forEachProgram(r, fams, texts, func(p *prog) { c18Program(r, p, p.Case == nil || r.Thorough(), st) })
	var unex []string
	for _, rule := range dxbc.Rules() {
		if st.fired[rule] == 0 {
			unex = append(unex, rule)
		}
	}
	sort.Strings(unex)
	r.Extra("rule_fire_counts", st.fired)
	r.Extra("rules_unexercised", unex)
	r.Extra("compile_errors_by_class", st.errors)
	r.Sample(map[string]any{"program": "corpus/boids", "entry": "main", "options": "SM 6.0/6.2/6.6 x {retail hash, bypass hash}"})
	printKeys(r)
	return r.Finish("dxil.Compile on every entry point (moved to position 0 on a deep clone) of F1 representatives, F2 trees, micro-programs and the corpus x shader models 6.0/6.2/6.6 x both hash modes; every returned container is checked by an independent DXBC + LLVM-3.7-bitstream reader (79 rules: container arithmetic, digests, program header, bitstream well-formedness, module/function-level operand soundness, typing and SSA dominance, dx metadata vs PSV0, signatures); an error return is allowed; a second call must return identical bytes; distinct = distinct SM6.0 containers",
		[]string{"trusted base: internal/dxbc, written from the DXBC/DXIL/LLVM 3.7 format documentation and cross-checked against llvm-bcanalyzer/llvm-dis on the corpus"})
}
