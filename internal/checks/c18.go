package checks

import (
	"bytes"
	"sort"
	"strings"
	"sync"

	"github.com/gogpu/naga/dxil"
	"github.com/gogpu/naga/ir"

	"verif/internal/dxbc"
	"verif/internal/explore"
	"verif/internal/irx"
	"verif/internal/nagax"
	"verif/internal/wgen"
)

func init() {
	Registry["C18"] = runC18
	perProgram["C18"] = func(r *explore.Run, p *prog) { c18Program(r, p, true, nil) }
}

func stageName(s ir.ShaderStage) string {
	switch s {
	case ir.StageVertex:
		return "vertex"
	case ir.StageFragment:
		return "fragment"
	case ir.StageCompute:
		return "compute"
	}
	return ""
}

type c18Stats struct {
	mu     sync.Mutex
	fired  map[string]int64
	errors map[string]int64
}

func c18Program(r *explore.Run, p *prog, allSM bool, st *c18Stats) {
	m0, _, err, pn := nagax.Front(p.Src)
	if pn != nil || err != nil {
		r.Skip("front end rejected/panicked (belongs to C08/C10)")
		return
	}
	sc := sigClass(p.Sig)
	if strings.HasPrefix(sc, "F2/") {
		sc = "F2"
	}
	if strings.HasPrefix(sc, "F2L/") {
		sc = "F2L"
	}
	sms := []dxil.ShaderModel{dxil.SM6_0}
	if allSM {
		sms = []dxil.ShaderModel{dxil.SM6_0, dxil.SM6_2, dxil.SM6_6}
	}
	for ei := range m0.EntryPoints {
		stage := stageName(m0.EntryPoints[ei].Stage)
		if stage == "" {
			continue // mesh/task etc.: outside the stated stage set
		}
		for _, sm := range sms {
			for _, bypass := range []bool{false, true} {
				m := m0
				if ei != 0 {
					m = irx.Clone(m0)
					m.EntryPoints[0], m.EntryPoints[ei] = m.EntryPoints[ei], m.EntryPoints[0]
				}
				o := dxil.Options{ShaderModel: sm, UseBypassHash: bypass}
				b, err, pn := nagax.DXIL(m, o)
				if pn != nil {
					r.Skip("naga panic (belongs to C10)")
					continue
				}
				if err != nil {
					if st != nil {
						st.mu.Lock()
						st.errors[errClass(err.Error())]++
						st.mu.Unlock()
					}
					r.Skip("dxil.Compile returned an ordinary error (allowed by the property)")
					continue
				}
				r.Count("evaluations", 1)
				ex := dxbc.Expect{Stage: stage, SMMajor: int(sm.Major), SMMinor: int(sm.Minor), AllowSMUpgrade: true, BypassHash: bypass}
				if stage == "compute" {
					ws := m.EntryPoints[0].Workgroup
					ex.NumThreads = &[3]uint32{ws[0], ws[1], ws[2]}
				}
				rep := dxbc.Check(b, ex)
				if st != nil {
					st.mu.Lock()
					for k, v := range rep.Fired {
						st.fired[k] += int64(v)
					}
					st.mu.Unlock()
				}
				rp := p.replay()
				rp["entry_point"] = m.EntryPoints[0].Name
				rp["sm"] = []uint32{sm.Major, sm.Minor}
				rp["bypass_hash"] = bypass
				seen := map[string]bool{}
				for _, f := range rep.Findings {
					key := "C18|" + f.Rule + "|" + errClass(f.Detail) + "|" + sc
					if seen[key] {
						continue
					}
					seen[key] = true
					r.Violate(explore.Violation{Key: key, Detail: "DXIL container for " + p.Sig + " entry " + m.EntryPoints[0].Name + " breaks rule " + f.Rule + ": " + f.Detail, Replay: rp})
				}
				if !bypass && sm == dxil.SM6_0 {
					r.DistinctBytes(b)
					// determinism: a second call yields identical bytes
					b2, err2, pn2 := nagax.DXIL(m, o)
					if pn2 == nil && (err2 != nil || !bytes.Equal(b, b2)) {
						r.Violate(explore.Violation{Key: "C18|nondeterministic|" + sc, Detail: "two dxil.Compile calls on the same module and options differ for " + p.Sig, Replay: rp})
					}
				}
			}
		}
	}
}

func runC18() int {
	r := explore.New("C18")
	st := &c18Stats{fired: map[string]int64{}, errors: map[string]int64{}}
	f1 := wgen.F1()
	stride := 7
	if r.Thorough() {
		stride = 1
	}
	sub := &wgen.Family{Name: "F1", Count: (f1.Count + stride - 1) / stride, At: func(i int) *wgen.Case { return f1.At(i * stride) }}
	fams := []*wgen.Family{sub, wgen.F2(2, false), wgen.F2L(2, false)}
	if r.Thorough() {
		fams = append(fams, wgen.F2(4, true), wgen.F2L(3, true))
	}
	texts := append(append([]wgen.Micro{}, wgen.Micros...), corpus()...)
	forEachProgram(r, fams, texts, func(p *prog) { c18Program(r, p, p.Case == nil || r.Thorough(), st) })
	var unex []string
	for _, rule := range dxbc.Rules() {
		if st.fired[rule] == 0 {
			unex = append(unex, rule)
		}
	}
	sort.Strings(unex)
	r.Extra("rule_fire_counts", st.fired)
	r.Extra("rules_unexercised", unex)
	r.Extra("compile_errors_by_class", st.errors)
	r.Sample(map[string]any{"program": "corpus/boids", "entry": "main", "options": "SM 6.0/6.2/6.6 x {retail hash, bypass hash}"})
	printKeys(r)
	return r.Finish("dxil.Compile on every entry point (moved to position 0 on a deep clone) of F1 representatives, F2 trees, micro-programs and the corpus x shader models 6.0/6.2/6.6 x both hash modes; every returned container is checked by an independent DXBC + LLVM-3.7-bitstream reader (79 rules: container arithmetic, digests, program header, bitstream well-formedness, module/function-level operand soundness, typing and SSA dominance, dx metadata vs PSV0, signatures); an error return is allowed; a second call must return identical bytes; distinct = distinct SM6.0 containers",
		[]string{"trusted base: internal/dxbc, written from the DXBC/DXIL/LLVM 3.7 format documentation and cross-checked against llvm-bcanalyzer/llvm-dis on the corpus"})
}
