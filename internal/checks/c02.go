package checks

import (
	"sort"
	"strings"
	"sync"

	"verif/internal/explore"
	"verif/internal/nagax"
	"verif/internal/spvval"
	"verif/internal/wgen"
)

func init() {
	Registry["C02"] = runC02
	perProgram["C02"] = func(r *explore.Run, p *prog) {
		if strings.HasPrefix(p.Sig, c02HistSigPrefix) {
			c02HistoryReplay(r, p.Sig)
			return
		}
		c02Program(r, p, 1, nil)
		if c02WantsExtra(p) {
			c02ProgramConfigs(r, p, c02ExtraConfigs(false), nil)
		}
	}
}

type ruleStats struct {
	mu    sync.Mutex
	fired map[string]int64
	ops   map[uint16]int64
}

func c02Program(r *explore.Run, p *prog, d int, rs *ruleStats) {
	c02ProgramConfigs(r, p, nagax.SPIRVConfigs(d), rs)
}

// c02ProgramConfigs validates the SPIR-V of one program under the given option sets.
func c02ProgramConfigs(r *explore.Run, p *prog, configs []nagax.SPIRVConfig, rs *ruleStats) {
	m, _, err, pn := nagax.Front(p.Src)
	if pn != nil || err != nil {
		r.Skip("front end rejected/panicked (belongs to C08/C10)")
		return
	}
	sc := sigClass(p.Sig)
	for _, c := range configs {
		b, err, pn := nagax.SPIRV(m, c.Opts)
		if pn != nil {
			r.Skip("naga panic (belongs to C10)")
			continue
		}
		if err != nil {
			r.Skip("backend returned an error (C08)")
			continue
		}
		r.Count("evaluations", 1)
		rep := spvval.Validate(b)
		if rs != nil {
			rs.mu.Lock()
			for k, v := range rep.Fired {
				rs.fired[k] += int64(v)
			}
			for k, v := range rep.Opcodes {
				rs.ops[k] += int64(v)
			}
			rs.mu.Unlock()
		}
		if len(rep.Unsupported) > 0 {
			r.Skip("validator: unsupported construct (verdict undecided)")
			continue
		}
		if c.Dev == 0 {
			r.DistinctBytes(b)
		}
		seen := map[string]bool{}
		for _, f := range rep.Findings {
			key := "C02|" + f.Rule + "|" + errClass(f.Detail) + "|" + sc + "|" + c.Label
			if seen[key] {
				continue
			}
			seen[key] = true
			rp := p.replay()
			rp["config"] = c.Label
			r.Violate(explore.Violation{Key: key, Detail: "SPIR-V for " + p.Sig + " [" + c.Label + "] breaks rule " + f.Rule + ": " + f.Detail, Replay: rp})
		}
	}
}

func runC02() int {
	r := explore.New("C02")
	rs := &ruleStats{fired: map[string]int64{}, ops: map[uint16]int64{}}
	texts := append(append([]wgen.Micro{}, wgen.Micros...), corpus()...)
	forEachProgram(r, quickFamilies(r), texts, func(p *prog) {
		d := 1
		if p.Case != nil && strings.HasPrefix(p.Case.Family, "F2") && !strings.HasPrefix(p.Case.Family, "F2m") && !r.Thorough() {
			d = 0 // the large control-flow families: default options only; the reduced-alphabet trees (F2m*) get every option set
		}
		c02Program(r, p, d, rs)
	})
	c02Extra(r, rs, texts)
	var unex []string
	for _, rule := range spvval.Rules() {
		if rs.fired[rule] == 0 {
			unex = append(unex, rule)
		}
	}
	sort.Strings(unex)
	r.Extra("rule_fire_counts", rs.fired)
	r.Extra("rules_unexercised", unex)
	r.Extra("distinct_opcodes_seen", len(rs.ops))
	r.Sample(map[string]any{"program": "micro/" + wgen.Micros[3].Name, "configs": "spirv.Options within 1 deviation of the default: versions 1.0-1.6, debug, loop bounding off, point size, coordinate adjustment, io16 off"})
	printKeys(r)
	return r.Finish("every SPIR-V binary produced for F1, F2 (node budget per tier), the feature micro-programs and the 172 corpus shaders under every option set within 1 deviation of the default (F2: default only in the quick tier) is checked by an independent structural validator (95+ rules: header, layout order, ids/dominance, type uniqueness, per-opcode typing, block shape, structured control flow, entry-point interfaces, Vulkan layout decorations, capabilities); evaluations = binaries validated; distinct = distinct default-option binaries. "+c02ExtraRule,
		[]string{"the validator (internal/spvval) is the trusted base; rules whose basis in the SPIR-V/Vulkan specifications was uncertain were left out (listed in DESIGN.md)"})
}
