package checks

import (
	"fmt"
	"strings"

	"github.com/gogpu/naga/hlsl"

	"verif/internal/explore"
	"verif/internal/nagax"
)

// C17, vertex/fragment linking under hlsl.Options.FragmentEntryPoint: the option lets the backend strip vertex
// outputs that the named fragment entry point does not read. Whatever the ORDER in which the fragment stage declares
// its inputs — every permutation of the locations, as members of a struct, as bare parameters, as a struct followed
// by bare parameters, with a builtin in between — every location the fragment stage reads must remain in the vertex
// output signature, and a location it does not read may be dropped but nothing else may appear.

func c17LinkPrograms() []struct {
	name, src string
	reads     []int
} {
	locs := []int{0, 1, 3}
	var perms [][]int
	var rec func(cur []int, rest []int)
	rec = func(cur, rest []int) {
		if len(rest) == 0 {
			perms = append(perms, append([]int(nil), cur...))
			return
		}
		for i := range rest {
			nr := append(append([]int(nil), rest[:i]...), rest[i+1:]...)
			rec(append(cur, rest[i]), nr)
		}
	}
	rec(nil, locs)
	vs := "struct VOut { @builtin(position) pos: vec4<f32>, @location(0) a: vec2<f32>, @location(1) b: vec4<f32>, @location(3) c: f32, @location(5) unused: f32 }\n" +
		"@vertex fn vs(@location(0) p: vec4<f32>) -> VOut { var o: VOut; o.pos = p; o.a = p.xy; o.b = p; o.c = p.z; o.unused = p.w; return o; }\n"
	ty := map[int]string{0: "vec2<f32>", 1: "vec4<f32>", 3: "f32"}
	use := map[int]string{0: "vec4<f32>(%s, 0.0, 0.0)", 1: "%s", 3: "vec4<f32>(%s)"}
	var out []struct {
		name, src string
		reads     []int
	}
	for _, pm := range perms {
		for _, k := range []int{3, 2} { // read all three / only the first two of the permutation
			rd := pm[:k]
			tag := strings.Trim(strings.ReplaceAll(fmt.Sprint(rd), " ", "-"), "[]")
			var sum []string
			// bare parameters
			var ps []string
			for _, l := range rd {
				ps = append(ps, fmt.Sprintf("@location(%d) v%d: %s", l, l, ty[l]))
				sum = append(sum, fmt.Sprintf(use[l], fmt.Sprintf("v%d", l)))
			}
			out = append(out, struct {
				name, src string
				reads     []int
			}{"bare/" + tag,
				vs + "@fragment fn fs(" + strings.Join(ps, ", ") + ") -> @location(0) vec4<f32> { return " + strings.Join(sum, " + ") + "; }\n", rd})
			// struct members
			var ms, sum2 []string
			for _, l := range rd {
				ms = append(ms, fmt.Sprintf("@location(%d) v%d: %s", l, l, ty[l]))
				sum2 = append(sum2, fmt.Sprintf(use[l], fmt.Sprintf("i.v%d", l)))
			}
			out = append(out, struct {
				name, src string
				reads     []int
			}{"struct/" + tag,
				vs + "struct FIn { " + strings.Join(ms, ", ") + " }\n@fragment fn fs(i: FIn) -> @location(0) vec4<f32> { return " + strings.Join(sum2, " + ") + "; }\n", rd})
			// struct (first member) followed by bare parameters, with a builtin in between
			if k >= 2 {
				var sum3 []string
				sum3 = append(sum3, fmt.Sprintf(use[rd[0]], fmt.Sprintf("i.v%d", rd[0])))
				var bp []string
				for _, l := range rd[1:] {
					bp = append(bp, fmt.Sprintf("@location(%d) v%d: %s", l, l, ty[l]))
					sum3 = append(sum3, fmt.Sprintf(use[l], fmt.Sprintf("v%d", l)))
				}
				out = append(out, struct {
					name, src string
					reads     []int
				}{"mixed/" + tag,
					vs + fmt.Sprintf("struct FIn { @location(%d) v%d: %s }\n", rd[0], rd[0], ty[rd[0]]) +
						"@fragment fn fs(i: FIn, @builtin(front_facing) ff: bool, " + strings.Join(bp, ", ") + ") -> @location(0) vec4<f32> { return " + strings.Join(sum3, " + ") + "; }\n", rd})
			}
		}
	}
	return out
}

func c17LinkPass(r *explore.Run) {
	progs := c17LinkPrograms()
	r.Extra("link_programs", len(progs))
	r.ParallelFor(len(progs), func(i int) {
		p := progs[i]
		m, _, err, pn := nagax.Front(p.src)
		if err != nil || pn != nil {
			r.Skip("front end rejected/panicked (belongs to C08/C10)")
			return
		}
		var fsIdx = -1
		for k := range m.EntryPoints {
			if m.EntryPoints[k].Name == "fs" {
				fsIdx = k
			}
		}
		if fsIdx < 0 {
			return
		}
		o := *hlsl.DefaultOptions()
		o.FragmentEntryPoint = &hlsl.FragmentEntryPoint{Module: m, Function: &m.EntryPoints[fsIdx].Function}
		src, info, err, pn := nagax.HLSL(m, o)
		if err != nil || pn != nil {
			r.Skip("backend returned an error (belongs to C08)")
			return
		}
		r.Count("evaluations", 1)
		prog := ctParse(src)
		names := hlslEntryNames(info)
		fn := prog.funcByName(names["vs"])
		rp := map[string]any{"program": "link/" + p.name, "src": p.src, "emitted": trunc(src, 6000)}
		fail := func(what, detail string) {
			r.Violate(explore.Violation{Key: "C17|hlsl-link:" + what + "|" + strings.SplitN(p.name, "/", 2)[0], Detail: "link/" + p.name + ": " + detail, Replay: rp})
		}
		if fn == nil {
			fail("entry-point-name", "vertex entry point not found in the text")
			return
		}
		st := prog.structByName(fn.RetType)
		if st == nil {
			fail("vertex-output", "vertex entry point does not return a struct")
			return
		}
		have := map[int]bool{}
		for _, mb := range st.Members {
			sn, si := ctSemantic(mb.Semantic)
			if !strings.HasPrefix(sn, "SV_") {
				have[si] = true
			}
		}
		for _, l := range p.reads {
			if !have[l] {
				fail("consumed-output-stripped", fmt.Sprintf("the fragment entry point reads @location(%d) but the vertex output signature compiled with FragmentEntryPoint has no element for it (has %v)", l, have))
			}
		}
		for l := range have {
			if l != 0 && l != 1 && l != 3 && l != 5 {
				fail("output-invented", fmt.Sprintf("vertex output signature has an element at index %d that corresponds to no WGSL output", l))
			}
		}
	})
}
