package checks

import (
	"verif/internal/xrt"
)

// Seeds of the self-collision closure. Each makes the backends invent many names. Entities are
// written $KEY in the template; the neutral names are chosen so that no two differ only in case
// except where the seed says so on purpose (SB/FB).

func c16BufsStages() xrt.Buffers {
	u := make([]byte, 16)
	for i, f := range []uint32{0x3f800000, 0x40000000, 0x40400000, 0x40800000} { // 1,2,3,4
		u[i*4], u[i*4+1], u[i*4+2], u[i*4+3] = byte(f), byte(f>>8), byte(f>>16), byte(f>>24)
	}
	return xrt.Buffers{{Group: 0, Binding: 0}: make([]byte, 16), {Group: 0, Binding: 1}: u}
}

var c16SeedStages = &c16Seed{name: "stages", bufs: c16BufsStages,
	tmpl: `struct $VOUT { @builtin(position) $MCLIP: vec4<f32>, @location(0) $MUV: vec2<f32>, @location(1) @interpolate(flat) $MTAG: u32 }
struct $FOUT { @location(0) $MCOL: vec4<f32>, @builtin(frag_depth) $MDEPTH: f32 }
alias $AL = vec2<f32>;
const $CN: f32 = 0.5;
@group(0) @binding(0) var<storage, read_write> $STO: array<u32>;
@group(0) @binding(1) var<uniform> $UNI: vec4<f32>;
@group(0) @binding(2) var $TEX: texture_2d<f32>;
@group(0) @binding(3) var $SAMP: sampler;
var<private> $PRIV: f32;
fn $FN($PARAM: f32) -> f32 {
  let $LLET = $PARAM * 2.0;
  return $LLET + $PRIV + $CN;
}
@vertex fn $EPV(@location(0) $VPOS: vec3<f32>, @location(1) $VUV: $AL, @builtin(vertex_index) $VIDX: u32, @builtin(instance_index) $VINST: u32) -> $VOUT {
  var $VLOC: $VOUT;
  $PRIV = $UNI.x;
  $VLOC.$MCLIP = vec4<f32>($VPOS, $FN(1.0));
  $VLOC.$MUV = $VUV * $UNI.yz;
  $VLOC.$MTAG = $VIDX + $VINST;
  return $VLOC;
}
@fragment fn $EPF($FIN: $VOUT, @builtin(front_facing) $FFRONT: bool, @builtin(sample_index) $FSIDX: u32) -> $FOUT {
  var $FLOC: $FOUT;
  let $FLET = textureSample($TEX, $SAMP, $FIN.$MUV);
  $PRIV = f32($FIN.$MTAG + $FSIDX);
  $FLOC.$MCOL = $FLET * $FN($FIN.$MCLIP.x) + $UNI;
  $FLOC.$MDEPTH = select(0.25, 0.75, $FFRONT);
  return $FLOC;
}
@fragment fn $EPG(@location(0) $GUV: vec2<f32>, @builtin(position) $GPOS: vec4<f32>) -> @location(0) vec4<f32> {
  return vec4<f32>($GUV, $GPOS.x, $FN($GPOS.y));
}
@compute @workgroup_size(1) fn $EPC(@builtin(global_invocation_id) $CGID: vec3<u32>, @builtin(local_invocation_index) $CLIDX: u32, @builtin(workgroup_id) $CWID: vec3<u32>) {
  $PRIV = $UNI.w;
  let $CLET = $FN(f32($CGID.x) + 1.0);
  $STO[$CGID.x] = u32($CLET) + $CLIDX + $CWID.x;
  $STO[1] = u32($UNI.y);
}
`,
	ents: []c16Ent{{"VOUT", "Varying", "io-struct"}, {"MCLIP", "clippos", "io-member"}, {"MUV", "texco", "io-member"}, {"MTAG", "tagv", "io-member"},
		{"FOUT", "Pixel", "io-struct"}, {"MCOL", "colour", "io-member"}, {"MDEPTH", "zval", "io-member"},
		{"AL", "Pair", "alias"}, {"CN", "kHalf", "const"}, {"STO", "outbuf", "storage"}, {"UNI", "params", "uniform"},
		{"TEX", "albedo", "handle"}, {"SAMP", "smp", "handle"}, {"PRIV", "carry", "private"},
		{"FN", "helperf", "fn"}, {"PARAM", "argv", "param"}, {"LLET", "resv", "llet"},
		{"EPV", "vsmain", "ep-vs"}, {"VPOS", "vpos", "ep-param"}, {"VUV", "vuv", "ep-param"}, {"VIDX", "vidx", "ep-param"}, {"VINST", "vinst", "ep-param"}, {"VLOC", "vres", "ep-lvar"},
		{"EPF", "fsmain", "ep-fs"}, {"FIN", "fin", "ep-param-struct"}, {"FFRONT", "ffront", "ep-param"}, {"FSIDX", "fsidx", "ep-param"}, {"FLOC", "fres", "ep-lvar"}, {"FLET", "texel", "ep-llet"},
		{"EPG", "fsbare", "ep-fs"}, {"GUV", "guv", "ep-param"}, {"GPOS", "gpos", "ep-param"},
		{"EPC", "csmain", "ep-cs"}, {"CGID", "cgid", "ep-param"}, {"CLIDX", "clidx", "ep-param"}, {"CWID", "cwid", "ep-param"}, {"CLET", "cval", "ep-llet"}},
	eps: []c16EP{{"EPV", "vs"}, {"EPF", "fs"}, {"EPG", "fs"}, {"EPC", "cs"}},
}

// A vertex entry point whose input is a struct (kept apart: the MSL text for this shape is not
// well-formed on the pinned tree, which would take the MSL interpreter away from the other seed).
var c16SeedVin = &c16Seed{name: "vin", bufs: func() xrt.Buffers { return xrt.Buffers{} },
	tmpl: `struct $VIN { @location(0) $MPOS: vec3<f32>, @location(1) $MNRM: vec2<f32>, @builtin(vertex_index) $MVI: u32 }
struct $VOUT { @builtin(position) $MCLIP: vec4<f32>, @location(0) $MUV: vec2<f32> }
@vertex fn $EPV($VARG: $VIN, @location(2) $VEXTRA: f32) -> $VOUT {
  var $VLOC: $VOUT;
  $VLOC.$MCLIP = vec4<f32>($VARG.$MPOS, $VEXTRA + f32($VARG.$MVI));
  $VLOC.$MUV = $VARG.$MNRM;
  return $VLOC;
}
`,
	ents: []c16Ent{{"VIN", "Vertex", "io-struct"}, {"MPOS", "place", "io-member"}, {"MNRM", "nrm", "io-member"}, {"MVI", "vnum", "io-member"},
		{"VOUT", "Varying", "io-struct"}, {"MCLIP", "clippos", "io-member"}, {"MUV", "texco", "io-member"},
		{"EPV", "vsmain", "ep-vs"}, {"VARG", "varg", "ep-param-struct"}, {"VEXTRA", "vextra", "ep-param"}, {"VLOC", "vres", "ep-lvar"}},
	eps: []c16EP{{"EPV", "vs"}},
}

func c16BufsHelpers() xrt.Buffers {
	u := make([]byte, 32)
	for i, f := range []uint32{0x3f800000, 0x40000000, 0x40400000, 0x40800000, 0x40a00000, 0x40c00000, 0x40000000, 0} {
		u[i*4], u[i*4+1], u[i*4+2], u[i*4+3] = byte(f), byte(f>>8), byte(f>>16), byte(f>>24)
	}
	return xrt.Buffers{{Group: 0, Binding: 0}: make([]byte, 32), {Group: 0, Binding: 1}: u, {Group: 0, Binding: 2}: make([]byte, 20)}
}

var c16SeedHelpers = &c16Seed{name: "helpers", bufs: c16BufsHelpers,
	tmpl: `struct $SA { $MA: u32, $MARR: array<u32, 3> }
struct $SB { $MB: u32 }
struct $SM { $MMAT: mat3x2<f32>, $MSCALE: f32 }
struct $SR { $MCNT: atomic<u32>, $MITEMS: array<u32> }
alias $AL = u32;
const $CN: i32 = 3;
@group(0) @binding(0) var<storage, read_write> $STO: array<u32>;
@group(0) @binding(1) var<uniform> $UNI: $SM;
@group(0) @binding(2) var<storage, read_write> $STR: $SR;
var<private> $PRIV: i32;
var<workgroup> $WGA: array<$SA, 2>;
var<workgroup> $WGT: atomic<u32>;
fn $FA($PA: i32, $PB: i32) -> i32 {
  var $LV = $PA / $PB;
  let $LL = $LV % $PB;
  const $LC = 2;
  return $LL + $CN + $LC;
}
fn $FB($PC: $SA) -> u32 {
  var $LACC = 0u;
  for (var $LI = 0u; $LI < 3u; $LI++) { $LACC += $PC.$MARR[$LI]; }
  return $LACC + $PC.$MA;
}
fn $FP($PP: ptr<function, u32>) { *$PP += 1u; }
@compute @workgroup_size(1) fn $EP(@builtin(global_invocation_id) $GID: vec3<u32>, @builtin(local_invocation_index) $LIDX: u32) {
  var $LS = $SA(1u, array<u32, 3>(2u, 3u, 4u));
  $WGA[$LIDX] = $LS;
  let $LB = $SB(5u);
  workgroupBarrier();
  let $LN = arrayLength(&$STR.$MITEMS);
  $PRIV = $FA(i32($GID.x) + 7, 3);
  var $LCNT: $AL = 0u;
  $FP(&$LCNT);
  $STO[0] = $FB($WGA[0]) + u32($PRIV) + $LN + $LB.$MB + $LCNT;
  $STO[1] = u32($UNI.$MMAT[1].x * $UNI.$MSCALE);
  atomicAdd(&$WGT, 1u);
  $STO[2] = atomicLoad(&$WGT);
}
@compute @workgroup_size(1) fn $EQ(@builtin(global_invocation_id) $QID: vec3<u32>) {
  let $QOLD = atomicCompareExchangeWeak(&$STR.$MCNT, 0u, 1u);
  let $QFR = frexp(f32($QID.x) + 1.5);
  let $QMF = modf(f32($QID.x) + 2.25);
  $STO[3] = select(0u, 1u, $QOLD.exchanged) + $QOLD.old_value + u32($QMF.whole) + u32($QFR.exp) + u32($QFR.fract * 4.0);
}
`,
	ents: []c16Ent{{"SA", "Cell", "struct"}, {"MA", "head", "member"}, {"MARR", "rest", "member"}, {"SB", "cell", "struct"}, {"MB", "low", "member"},
		{"SM", "Mats", "uniform-struct"}, {"MMAT", "mm", "mat-member"}, {"MSCALE", "scale", "member"}, {"SR", "Tail", "storage-struct"}, {"MCNT", "count", "atomic-member"}, {"MITEMS", "items", "rtarray-member"},
		{"AL", "Word", "alias"}, {"CN", "kLimit", "const"}, {"STO", "outbuf", "storage"}, {"UNI", "mats", "uniform"}, {"STR", "tailbuf", "storage-struct-var"},
		{"PRIV", "carry", "private"}, {"WGA", "wcells", "workgroup"}, {"WGT", "wtick", "workgroup-atomic"},
		{"FA", "helperf", "fn"}, {"PA", "argv", "param"}, {"PB", "argw", "param"}, {"LV", "tmpv", "lvar"}, {"LL", "resv", "llet"}, {"LC", "ktwo", "lconst"},
		{"FB", "Helperf", "fn"}, {"PC", "argq", "param"}, {"LACC", "acc", "lvar"}, {"LI", "idx", "lvar"},
		{"FP", "bump", "fn"}, {"PP", "ptrp", "ptr-param"},
		{"EP", "csmain", "ep-cs"}, {"GID", "gid", "ep-param"}, {"LIDX", "lidx", "ep-param"}, {"LS", "cl", "ep-lvar"}, {"LB", "sm", "ep-llet"}, {"LN", "nitems", "llet"}, {"LCNT", "cnt", "lvar"},
		{"EQ", "csexotic", "ep-cs"}, {"QID", "qid", "ep-param"}, {"QOLD", "oldv", "llet"}, {"QFR", "frx", "llet"}, {"QMF", "mfx", "llet"}},
	eps: []c16EP{{"EP", "cs"}, {"EQ", "cs"}},
}

var c16SeedChars = &c16Seed{name: "chars", bufs: func() xrt.Buffers { return xrt.Buffers{{Group: 0, Binding: 0}: make([]byte, 16)} },
	tmpl: `struct $ST { $MEM: u32, $MEM2: u32 }
var<private> $GLOB: u32;
var<private> $GLOB2: u32;
@group(0) @binding(0) var<storage, read_write> $STO: array<u32>;
@compute @workgroup_size(1) fn $EP() {
  var $LVAR = 3u;
  var $LVAR2 = 5u;
  var $SV: $ST;
  $SV.$MEM = 7u;
  $SV.$MEM2 = 11u;
  $GLOB = 13u;
  $GLOB2 = 17u;
  $LVAR += $GLOB;
  $LVAR2 += $GLOB2 * 2u;
  $STO[0] = $LVAR;
  $STO[1] = $LVAR2;
  $STO[2] = $SV.$MEM + $SV.$MEM2 * 2u;
  $STO[3] = $GLOB + $GLOB2 * 2u;
}
`,
	ents: []c16Ent{{"ST", "Thing", "struct"}, {"MEM", "field", "member"}, {"MEM2", "second", "member"}, {"GLOB", "counter", "private"}, {"GLOB2", "other", "private"},
		{"STO", "outbuf", "storage"}, {"EP", "entryp", "ep"}, {"LVAR", "tmpv", "lvar"}, {"LVAR2", "auxv", "lvar"}, {"SV", "thing", "lvar"}},
	eps: []c16EP{{"EP", "cs"}},
}
