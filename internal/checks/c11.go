package checks

import (
	"fmt"
	"os"
	"regexp"
	"strconv"
	"strings"
	"time"

	"github.com/gogpu/naga"

	"verif/internal/explore"
	"verif/internal/wgen"
)

func init() { Registry["C11"] = runC11 }

// ---------------------------------------------------------------- seed analysis (token level)

type c11Seed struct {
	name    string
	src     string
	toks    []wgen.Tok
	values  map[string]bool // declared value names (let/var/const/override/params/globals)
	fns     map[string][]string // user function -> parameter types (as source text)
	structs map[string]bool
	members map[string]bool
	mustUse map[string]bool
}

func analyse(name, src string) *c11Seed {
	s := &c11Seed{name: name, src: src, toks: wgen.Tokenize(src, false), values: map[string]bool{}, fns: map[string][]string{}, structs: map[string]bool{}, members: map[string]bool{}, mustUse: map[string]bool{}}
	t := s.toks
	must := false
	for i := 0; i < len(t); i++ {
		if t[i].Text == "@" && i+1 < len(t) && t[i+1].Text == "must_use" {
			must = true
		}
		if t[i].Kind != "ident" {
			continue
		}
		switch t[i].Text {
		case "let", "const", "override":
			if i+1 < len(t) && t[i+1].Kind == "ident" {
				s.values[t[i+1].Text] = true
			}
		case "var":
			j := i + 1
			if j < len(t) && t[j].Text == "<" {
				for j < len(t) && t[j].Text != ">" {
					j++
				}
				j++
			}
			if j < len(t) && t[j].Kind == "ident" {
				s.values[t[j].Text] = true
			}
		case "struct":
			if i+1 < len(t) {
				s.structs[t[i+1].Text] = true
				// members: ident ':' inside the braces
				j := i + 2
				for j < len(t) && t[j].Text != "}" {
					if t[j].Kind == "ident" && j+1 < len(t) && t[j+1].Text == ":" {
						s.members[t[j].Text] = true
					}
					j++
				}
			}
		case "fn":
			if i+2 < len(t) && t[i+1].Kind == "ident" && t[i+2].Text == "(" {
				fname := t[i+1].Text
				if must {
					s.mustUse[fname] = true
					must = false
				}
				// parameters
				j := i + 3
				depth := 0
				var ptypes []string
				for j < len(t) && !(t[j].Text == ")" && depth == 0) {
					if t[j].Text == "(" || t[j].Text == "<" {
						depth++
					}
					if t[j].Text == ")" || t[j].Text == ">" {
						depth--
					}
					if t[j].Text == ">>" {
						depth -= 2
					}
					if depth == 0 && t[j].Kind == "ident" && j+1 < len(t) && t[j+1].Text == ":" && t[j-1].Text != "@" {
						s.values[t[j].Text] = true
						// type text until ',' or ')' at depth 0
						k := j + 2
						d2 := 0
						for k < len(t) && !((t[k].Text == "," || t[k].Text == ")") && d2 == 0) {
							if t[k].Text == "<" || t[k].Text == "(" {
								d2++
							}
							if t[k].Text == ">" || t[k].Text == ")" {
								d2--
							}
							if t[k].Text == ">>" {
								d2 -= 2
							}
							k++
						}
						ptypes = append(ptypes, src[t[j+2].Start:t[k-1].End])
					}
					j++
				}
				s.fns[fname] = ptypes
			}
		}
	}
	return s
}

// declExtents: [start,end) byte ranges of module-scope declarations of src.
func declExtents(src string) [][2]int {
	toks := wgen.Tokenize(src, false)
	var out [][2]int
	depth := 0
	start := -1
	sawBrace := false
	for i, t := range toks {
		if start < 0 {
			start = t.Start
			sawBrace = false
		}
		switch t.Text {
		case "{":
			depth++
			sawBrace = true
		case "(", "[":
			depth++
		case ")", "]":
			depth--
		case "}":
			depth--
			if depth == 0 && sawBrace {
				end := t.End
				if i+1 < len(toks) && toks[i+1].Text == ";" {
					continue
				}
				out = append(out, [2]int{start, end})
				start = -1
			}
		case ";":
			if depth == 0 {
				out = append(out, [2]int{start, t.End})
				start = -1
			}
		}
	}
	if start >= 0 {
		out = append(out, [2]int{start, len(src)})
	}
	return out
}

func extentOf(exts [][2]int, off int) (int, int, bool) {
	for _, e := range exts {
		if off >= e[0] && off < e[1] {
			return e[0], e[1], true
		}
	}
	return 0, 0, false
}

var posLower = regexp.MustCompile(`(?:^|: )(\d+):(\d+): `)
var posParse = regexp.MustCompile(`line (\d+), column (\d+)`)

// errorPos extracts (line, col) from a naga error message.
func errorPos(msg string) (line, col int, ok bool) {
	if m := posParse.FindStringSubmatch(msg); m != nil {
		line, _ = strconv.Atoi(m[1])
		col, _ = strconv.Atoi(m[2])
		return line, col, true
	}
	if m := posLower.FindStringSubmatch(msg); m != nil {
		line, _ = strconv.Atoi(m[1])
		col, _ = strconv.Atoi(m[2])
		return line, col, true
	}
	return 0, 0, false
}

func offsetOf(src string, line, col int) (int, bool) {
	lines := strings.Split(src, "\n")
	if line < 1 || line > len(lines) {
		return 0, false
	}
	if col < 1 || col > len(lines[line-1])+1 {
		return 0, false
	}
	off := 0
	for i := 0; i < line-1; i++ {
		off += len(lines[i]) + 1
	}
	return off + col - 1, true
}

// ---------------------------------------------------------------- edits

type c11Edit struct {
	rule     string
	site     int    // byte offset of the edit in the edited text
	src      string // edited text
	semantic bool   // position must fall within the enclosing module-scope declaration
	exactOff int    // >=0: the reported position must be exactly this offset (syntax edits)
	notBefore bool  // the reported position must not precede the site
}

func replaceTok(src string, t wgen.Tok, with string) string { return src[:t.Start] + with + src[t.End:] }

func isSwizzle(s string) bool {
	if len(s) == 0 || len(s) > 4 {
		return false
	}
	xyzw, rgba := true, true
	for _, c := range s {
		if !strings.ContainsRune("xyzw", c) {
			xyzw = false
		}
		if !strings.ContainsRune("rgba", c) {
			rgba = false
		}
	}
	return xyzw || rgba
}

var builtinFnNames = map[string]bool{"abs": true, "min": true, "max": true, "clamp": true, "dot": true, "length": true, "distance": true, "determinant": true, "mix": true, "smoothstep": true, "step": true, "fma": true,
	"countOneBits": true, "firstLeadingBit": true, "extractBits": true, "pow": true, "sqrt": true, "exp2": true, "log2": true, "sign": true, "fract": true, "trunc": true, "round": true, "modf": true, "frexp": true, "ldexp": true,
	"normalize": true, "cross": true, "transpose": true, "reflect": true, "faceForward": true, "select": true, "arrayLength": true, "textureSample": true, "textureLoad": true, "textureDimensions": true, "textureStore": true,
	"textureSampleCompare": true, "textureSampleLevel": true, "atomicAdd": true, "atomicLoad": true, "atomicStore": true, "atomicMax": true, "atomicMin": true, "workgroupUniformLoad": true, "unpack2x16float": true, "pack2x16float": true, "unpack4x8unorm": true, "pack4x8unorm": true}

func c11Edits(s *c11Seed, emit func(e c11Edit)) {
	t := s.toks
	src := s.src
	inFnBody := func(i int) bool { // token i lies inside some function body
		depth := 0
		inFn := false
		for k := 0; k < i; k++ {
			if t[k].Text == "fn" && t[k].Kind == "ident" && depth == 0 {
				inFn = true
			}
			if t[k].Text == "{" {
				depth++
			}
			if t[k].Text == "}" {
				depth--
				if depth == 0 {
					inFn = false
				}
			}
		}
		return inFn && depth > 0
	}
	for i, tk := range t {
		prev, next := "", ""
		if i > 0 {
			prev = t[i-1].Text
		}
		if i+1 < len(t) {
			next = t[i+1].Text
		}
		switch tk.Kind {
		case "ident":
			isDeclSite := prev == "let" || prev == "var" || prev == "const" || prev == "fn" || prev == "struct" || prev == "override" || prev == "alias" || prev == ">" && false
			// rule: undeclared identifier (value uses)
			if s.values[tk.Text] && !isDeclSite && prev != "." && next != ":" && prev != "@" && inFnBody(i) && !(i >= 2 && t[i-2].Text == "var" && prev == ">") {
				emit(c11Edit{rule: "undeclared-identifier", site: tk.Start, src: replaceTok(src, tk, "zz_undeclared"), semantic: true, exactOff: -1})
			}
			// rule: unknown type (type position: after ':' or '->', or first template argument of array/ptr/atomic)
			if (prev == ":" || prev == "->") && next != "(" && !(i >= 2 && (t[i-2].Text == "case" || t[i-2].Text == "default")) && prev != "::" {
				if s.structs[tk.Text] || templateHeads[tk.Text] || tk.Text == "i32" || tk.Text == "u32" || tk.Text == "f32" || tk.Text == "bool" {
					ed := replaceTok(src, tk, "ZzUnknownType")
					if templateHeads[tk.Text] && next == "<" { // drop the template list too
						j := i + 1
						d := 0
						for j < len(t) {
							if t[j].Text == "<" {
								d++
							} else if t[j].Text == ">" {
								d--
							} else if t[j].Text == ">>" {
								d -= 2
							}
							if d <= 0 {
								break
							}
							j++
						}
						if j < len(t) && t[j].Text != ">>" {
							ed = src[:tk.Start] + "ZzUnknownType" + src[t[j].End:]
						} else {
							ed = ""
						}
					}
					if ed != "" {
						emit(c11Edit{rule: "unknown-type", site: tk.Start, src: ed, semantic: true, exactOff: -1})
					}
				}
			}
			// rule: unknown function (call sites of user functions and builtins)
			if next == "(" && prev != "fn" && prev != "." && prev != "@" && (s.fns[tk.Text] != nil || builtinFnNames[tk.Text]) {
				if _, isUser := s.fns[tk.Text]; isUser || builtinFnNames[tk.Text] {
					emit(c11Edit{rule: "unknown-function", site: tk.Start, src: replaceTok(src, tk, "zz_unknown_fn"), semantic: true, exactOff: -1})
				}
			}
			// rules on user-function calls: argument count and types
			if ptypes, isUser := s.fns[tk.Text]; isUser && next == "(" && prev != "fn" {
				// locate arguments
				j := i + 2
				depth := 0
				argStart := j
				var args [][2]int // token index ranges
				for j < len(t) {
					if (t[j].Text == ")" && depth == 0) || (t[j].Text == "," && depth == 0) {
						if j > argStart {
							args = append(args, [2]int{argStart, j})
						}
						argStart = j + 1
						if t[j].Text == ")" {
							break
						}
					} else if t[j].Text == "(" || t[j].Text == "[" {
						depth++
					} else if t[j].Text == ")" || t[j].Text == "]" {
						depth--
					}
					j++
				}
				closeTok := j
				if closeTok < len(t) {
					// one argument added
					extra := "1"
					if len(args) > 0 {
						extra = ", 1"
					}
					emit(c11Edit{rule: "call-arg-count", site: tk.Start, src: src[:t[closeTok].Start] + extra + src[t[closeTok].Start:], semantic: true, exactOff: -1})
					for ai, a := range args {
						// one argument dropped
						from, to := t[a[0]].Start, t[a[1]-1].End
						if ai+1 < len(args) {
							to = t[args[ai+1][0]].Start
						} else if ai > 0 {
							from = t[args[ai-1][1]-1].End
						}
						emit(c11Edit{rule: "call-arg-count", site: tk.Start, src: src[:from] + src[to:], semantic: true, exactOff: -1})
						// one argument retyped with a suffixed literal of another type
						if ai < len(ptypes) {
							lit := "1.5f"
							if strings.TrimSpace(ptypes[ai]) == "f32" {
								lit = "7u"
							}
							emit(c11Edit{rule: "call-arg-type", site: tk.Start, src: src[:t[a[0]].Start] + lit + src[t[a[1]-1].End:], semantic: true, exactOff: -1})
						}
					}
				}
			}
			// rule: unknown member
			if prev == "." && s.members[tk.Text] && !isSwizzle(tk.Text) {
				emit(c11Edit{rule: "unknown-member", site: tk.Start, src: replaceTok(src, tk, "zz_nomember"), semantic: true, exactOff: -1})
			}
			// rule: swizzle mixing / too wide (swizzle tokens that are not struct member names)
			if prev == "." && isSwizzle(tk.Text) && !s.members[tk.Text] && len(tk.Text) >= 2 {
				emit(c11Edit{rule: "swizzle-mixed", site: tk.Start, src: replaceTok(src, tk, "xg"), semantic: true, exactOff: -1})
				emit(c11Edit{rule: "swizzle-too-wide", site: tk.Start, src: replaceTok(src, tk, "xyzwx"), semantic: true, exactOff: -1})
			}
		case "punct":
			switch tk.Text {
			case ";":
				// rule: missing semicolon. The first token that cannot continue the grammar is the next
				// token when that token is an identifier/keyword or '}' (an operator-like token could continue an expression).
				if next == "" {
					break
				}
				ed := src[:tk.Start] + src[tk.End:]
				exact := -1
				if i+1 < len(t) && (t[i+1].Kind == "ident" || next == "}") && prev != ")" && prev != "]" || (i+1 < len(t) && next == "}") {
					exact = t[i+1].Start - 1
				}
				if prev == "}" { // `};` after a declaration body is optional
					break
				}
				if !inFnBody(i) && exact >= 0 {
					// at module scope the next declaration keyword cannot continue any declaration either
				}
				emit(c11Edit{rule: "missing-semicolon", site: tk.Start, src: ed, exactOff: exact, notBefore: true})
			case "(", ")", "{", "}", "[", "]":
				ed := src[:tk.Start] + src[tk.End:]
				exact := -1
				if (tk.Text == ")" || tk.Text == "]") && next == ";" {
					exact = t[i+1].Start - 1
				}
				emit(c11Edit{rule: "unbalanced-delimiter", site: tk.Start, src: ed, exactOff: exact, notBefore: tk.Text == ")" || tk.Text == "]" || tk.Text == "}"})
			case "@":
				if i+4 < len(t) && t[i+2].Text == "(" && (next == "binding" || next == "group") {
					j := i + 2
					for j < len(t) && t[j].Text != ")" {
						j++
					}
					emit(c11Edit{rule: "binding-pairing(" + next + " removed)", site: tk.Start, src: src[:tk.Start] + src[t[j].End:], semantic: true, exactOff: -1})
				}
				if next == "workgroup_size" && i+2 < len(t) && t[i+2].Text == "(" {
					j := i + 2
					for j < len(t) && t[j].Text != ")" {
						j++
					}
					emit(c11Edit{rule: "missing-workgroup-size", site: tk.Start, src: src[:tk.Start] + src[t[j].End:], semantic: true, exactOff: -1})
				}
			}
		case "number":
			isInt := !strings.ContainsAny(tk.Text, ".eEfh") || strings.HasPrefix(tk.Text, "0x")
			// rule: non-positive array size
			if prev == "," && (next == ">" || next == ">>") && isInt {
				// inside array<T, N>?
				k := i - 1
				d := 0
				for k >= 0 {
					if t[k].Text == ">" {
						d++
					} else if t[k].Text == ">>" {
						d += 2
					} else if t[k].Text == "<" {
						if d == 0 {
							break
						}
						d--
					}
					k--
				}
				if k > 0 && t[k-1].Text == "array" {
					emit(c11Edit{rule: "array-size-zero", site: tk.Start, src: replaceTok(src, tk, "0"), semantic: true, exactOff: -1})
					emit(c11Edit{rule: "array-size-negative", site: tk.Start, src: replaceTok(src, tk, "-1"), semantic: true, exactOff: -1})
				}
			}
			// rule: constant division by zero at const-expression sites (module/function const
			// initialisers, switch case selectors, workgroup_size arguments)
			if isInt && !strings.HasSuffix(tk.Text, "u") && !strings.HasSuffix(tk.Text, "i") {
				site := ""
				// walk back to the start of the statement/declaration
				for k := i - 1; k >= 0; k-- {
					x := t[k].Text
					if x == ";" || x == "{" || x == "}" {
						break
					}
					if x == "const" || x == "case" || x == "workgroup_size" || x == "const_assert" {
						site = x
						break
					}
					if x == "let" || x == "var" || x == "fn" {
						break
					}
				}
				if site != "" && prev == "," && (next == ">" || next == ">>") {
					site = "array-size"
				}
				if site != "" && prev != "@" {
					emit(c11Edit{rule: "const-div-zero@" + site, site: tk.Start, src: replaceTok(src, tk, "("+tk.Text+" / 0)"), semantic: true, exactOff: -1})
					emit(c11Edit{rule: "const-mod-zero@" + site, site: tk.Start, src: replaceTok(src, tk, "("+tk.Text+" % 0)"), semantic: true, exactOff: -1})
				}
			}
		}
	}
	// rules applied at every statement / declaration position
	mu := "\n@must_use fn zz_mu(x: i32) -> i32 { return x; }\n"
	depth := 0
	inFn := false
	parenDepth := 0
	for i, tk := range t {
		if tk.Kind == "ident" && tk.Text == "fn" && depth == 0 {
			inFn = true
		}
		switch tk.Text {
		case "(":
			parenDepth++
		case ")":
			parenDepth--
		case "{":
			depth++
		case "}":
			depth--
			if depth == 0 {
				inFn = false
			}
		}
		atStmt := inFn && depth > 0 && parenDepth == 0 && (tk.Text == ";" || tk.Text == "{" || tk.Text == "}")
		// a position right after '{' of a struct or switch body is not a statement position
		if atStmt && tk.Text == "{" {
			// find the keyword that owns this brace
			k := i - 1
			for k >= 0 && t[k].Text != ";" && t[k].Text != "{" && t[k].Text != "}" {
				if t[k].Text == "switch" || t[k].Text == "struct" {
					atStmt = false
				}
				k--
			}
		}
		if atStmt && tk.Text == "}" {
			// after a closing brace inside a switch body we are between case clauses, not statements:
			// only accept when the enclosing brace is not a switch body — approximated by looking
			// ahead: next token 'case'/'default'/'}' of the switch would make it a non-statement position
			if i+1 < len(t) && (t[i+1].Text == "case" || t[i+1].Text == "default" || t[i+1].Text == "continuing" || t[i+1].Text == "else") {
				atStmt = false
			}
			// conservative: also skip when the following token is '}' (might close a switch)
			if i+1 < len(t) && t[i+1].Text == "}" {
				atStmt = false
			}
		}
		if atStmt && tk.Text == ";" && i+1 < len(t) && (t[i+1].Text == "continuing") {
			// before `continuing` is still a statement position inside the loop body: fine
		}
		if atStmt && i+1 < len(t) && t[i+1].Text == "break" && i+2 < len(t) && t[i+2].Text == "if" {
			// before `break if` inside continuing: inserting a statement is fine
		}
		if atStmt {
			pos := tk.End
			emit(c11Edit{rule: "must-use-discarded", site: pos, src: src[:pos] + " zz_mu(1); " + src[pos:] + mu, semantic: true, exactOff: -1})
			emit(c11Edit{rule: "const-assert-false(stmt)", site: pos, src: src[:pos] + " const_assert false; " + src[pos:], semantic: true, exactOff: -1})
		}
		if depth == 0 && parenDepth == 0 && (tk.Text == ";" || tk.Text == "}") && !(i+1 < len(t) && t[i+1].Text == ";") {
			pos := tk.End
			emit(c11Edit{rule: "const-assert-false(module)", site: pos + 1, src: src[:pos] + "\nconst_assert 1 > 2;" + src[pos:], semantic: true, exactOff: -1})
		}
	}
}

// ---------------------------------------------------------------- oracle

func c11Check(r *explore.Run, s *c11Seed, e c11Edit) {
	r.Count("evaluations", 1)
	r.Distinct(e.rule)
	var msg string
	accepted := false
	panicked := false
	func() {
		defer func() {
			if rec := recover(); rec != nil {
				panicked = true
			}
		}()
		out, err := naga.Compile(e.src)
		if err == nil && len(out) > 0 {
			accepted = true
			return
		}
		if err != nil {
			msg = err.Error()
		}
	}()
	if panicked {
		r.Skip("naga panic (belongs to C10)")
		return
	}
	rp := map[string]any{"seed": s.name, "rule": e.rule, "site_offset": e.site, "edited": trunc(e.src, 20000)}
	fail := func(what, detail string) {
		r.Violate(explore.Violation{Key: "C11|" + e.rule + "|" + what + "|" + s.name,
			Detail: fmt.Sprintf("rule %s broken at byte %d of %s: %s", e.rule, e.site, s.name, detail), Replay: rp})
	}
	if accepted {
		fail("accepted", "the program was compiled to SPIR-V without any error")
		return
	}
	line, col, ok := errorPos(msg)
	if !ok {
		fail("no-position", "error has no line:column prefix: "+trunc(msg, 200))
		return
	}
	off, inb := offsetOf(e.src, line, col)
	if !inb {
		fail("position-out-of-bounds", fmt.Sprintf("reported %d:%d lies outside the source (%s)", line, col, trunc(msg, 160)))
		return
	}
	if e.semantic {
		exts := declExtents(e.src)
		a, b, found := extentOf(exts, e.site)
		if found && !(off >= a && off < b) {
			fail("position-outside-declaration", fmt.Sprintf("reported %d:%d (byte %d) is outside the module-scope declaration [%d,%d) containing the offending construct (%s)", line, col, off, a, b, trunc(msg, 160)))
		}
		return
	}
	if e.exactOff >= 0 {
		// exactOff is expressed in the edited text (token start shifted by the one deleted byte)
		if off != e.exactOff {
			fail("position-not-first-offending-token", fmt.Sprintf("reported %d:%d (byte %d), the first token that cannot continue the grammar starts at byte %d (%s)", line, col, off, e.exactOff, trunc(msg, 160)))
		}
		return
	}
	if e.notBefore && off < e.site-1 {
		// allow the token immediately before the site? no: the error cannot precede the first changed byte
		// (a delimiter deletion leaves everything before it grammatical); one exception: an opening
		// delimiter deletion is reported where its closer is met, so only closers use notBefore.
		fail("position-before-edit", fmt.Sprintf("reported %d:%d (byte %d) precedes the edit at byte %d (%s)", line, col, off, e.site, trunc(msg, 160)))
	}
}

func runC11() int {
	r := explore.New("C11")
	if r.Thorough() {
		r.SetDeadline(45 * time.Minute)
	}
	if d, err := strconv.Atoi(os.Getenv("VERIF_C11_DEADLINE_S")); err == nil && d > 0 { // authoring aid: smoke-test a tier
		r.SetDeadline(time.Duration(d) * time.Second)
	}
	var seeds []*c11Seed
	for _, m := range wgen.Micros {
		seeds = append(seeds, analyse(m.Name, m.Src))
	}
	for _, m := range c11RichSeeds {
		if c11Compile(m.Src).accepted {
			seeds = append(seeds, analyse(m.Name, m.Src))
		} else {
			r.Skip("rich seed program is not accepted (not used as a seed)")
		}
	}
	f1 := wgen.F1()
	for i := 0; i < f1.Count; i += 173 {
		c := f1.At(i)
		seeds = append(seeds, analyse(c.Sig, wgen.Print(c.Mod)))
	}
	f2 := wgen.F2(3, false)
	st := 1999
	if r.Thorough() {
		st = 211
	}
	for i := 0; i < f2.Count; i += st {
		c := f2.At(i)
		seeds = append(seeds, analyse(c.Sig, wgen.Print(c.Mod)))
	}
	r.Extra("seeds", len(seeds))
	perRule := map[string]int{}
	type job struct {
		s *c11Seed
		e c11Edit
	}
	var jobs []job
	for _, s := range seeds {
		c11Edits(s, func(e c11Edit) {
			jobs = append(jobs, job{s, e})
			perRule[strings.Split(e.rule, "(")[0]]++
		})
	}
	r.Extra("edits_per_rule", perRule)
	r.ParallelFor(len(jobs), func(i int) { c11Check(r, jobs[i].s, jobs[i].e) })
	r.Count("offenders_seed_edits", int64(len(jobs)))
	runC11G(r)
	if len(jobs) > 0 {
		j := jobs[len(jobs)/3]
		r.Sample(map[string]any{"seed": j.s.name, "rule": j.e.rule, "site_offset": j.e.site})
	}
	printKeys(r)
	return r.Finish("(1) every (seed, rule, site) triple: for each seed (micro-programs, F1/F2 representatives, a program holding every declaration and statement kind) each diagnosed rule is broken at every syntactic site where it applies (identifier uses, type uses, call sites incl. one argument dropped/added/retyped, member accesses, swizzles, every statement and declaration position for @must_use discards and const_assert false, every resource attribute, every array size, every mandatory ';', every delimiter, @workgroup_size, every const-expression integer literal for /0 and %0). "+
		"(2) generated family C11G = rule x host position x enclosing function x declaration order: complete programs assembled from templates, each with exactly one offending construct at a known byte offset inside a known module-scope declaration. Function-scope hosts = statement form with a hole (g_forms: let/var/const initialisers, assignment and compound-assignment sides, if/else-if/while/for-init/-condition/-update/break-if/switch-selector/case-selector headers, return values, user-call/nested-call/builtin/select/constructor/conversion/bitcast arguments, array indices on both sides incl. ++/--, &arr[E], *p, pointer arguments, binary/unary/&&/|| operands, phony assignment, local array sizes, const_assert operands, statement holes, type holes) x block context (g_block_contexts: function body, then/else/else-if/2nd else-if, while/for/loop bodies, continuing with and without break-if, every switch-clause position incl. default first/last/mixed, nested blocks 1-3 deep, and all 10x10 depth-2 compositions for the basic forms; thorough: depth-2 for every form, depth-3 for the basic ones) x position first/middle/last (all three for statement holes, rotating otherwise) x {entry point, helper declared before its caller, helper declared after its caller} x {support declarations before, after the functions} x construct group (undeclared identifier incl. names that exist in another function or as a struct member; unknown function; user calls with one argument too few/too many/retyped for i32, f32, vector, struct and pointer parameters; unknown member on let/var/global/parameter/returned/constructed/nested struct values; swizzles mixing xyzw/rgba, longer than 4, beyond the vector width; constant division/remainder by zero written with literals, folded zeros, module and local constants, i32 and u32; @must_use discards; false const_assert; statement calls; unknown types and non-positive array sizes written as literals, expressions, constants, nested element types). Light groups (vector/struct/pointer calls, local member and swizzle groups, literal division) are placed in one third of the (form, context) hosts in the quick tier. "+
		"Module-scope hosts (g_module_hosts: const/var<private>/override initialisers, array sizes in alias/struct member/var/parameter, @workgroup_size x/y/z, @group/@binding/@location/@align/@size arguments, const_assert, and every type position: alias, struct member, private/workgroup/storage var, parameter, return type, pointer pointee, constructor, array element) x order of the offending declaration relative to its users (alone, before all users, between two users, after its users). @group without @binding and vice versa x 9 resource kinds x 5 orders relative to the entry points using the resource; compute entry point without @workgroup_size in 12 layouts. "+
		"(3) scope pairs: for every skeleton (one control-flow construct, every construct nested in every child scope of every construct; thorough: chains of three) every ordered pair (declaration slot d, use slot u or a peer function) x {let, var, const} x {value use, store} x function kind; the WGSL scoping rule decides visibility; visible pairs are controls, all others must be rejected. "+
		"(4) the ';' and delimiter deletions of (1) applied to the host function of every generated host program. "+
		"Every host is validated by a control (same host, harmless construct of the same group) that must be accepted, otherwise the host is counted as not live and not judged (g_dead_controls). Oracle: naga.Compile returns an error and no output; the line:column lies inside the source; for semantic rules inside the module-scope declaration containing the offending construct; for ';' and ')'/']' deletions whose first offending token is determined by construction, exactly that token. distinct = distinct (family, rule, construct variant) classes exercised",
		[]string{"sites are found with an independent tokenizer; seeds are ASCII so that line:column maps to byte offsets unambiguously",
			"exact-token positions are demanded only where the grammar determines them; other delimiter deletions only require an in-bounds position not before the edit",
			"a generated host whose valid control is rejected is not a C11 matter (it is counted and listed in g_dead_controls); a scope pair that WGSL declares visible and naga rejects is likewise only counted",
			"the expectation for every generated case comes from the WGSL rules the generator encodes (scoping, const-expression contexts, call signatures), never from naga's messages"})
}
