package checks

// c16read.go: a small, tolerant, dialect-parameterised reader of C-family shader text (HLSL, MSL, GLSL)
// that recovers *only* what C16 needs for every shader stage: the declarations with their scopes, the
// declaration each identifier reference resolves to under the block-scope rules the three languages
// share (innermost enclosing declaration that precedes the use), and a spelling-free ("alpha")
// rendering of the token stream. It knows the grammar of declarations, not any spelling naga uses.
// The full interpreters (hlslx/mslx/glslx) remain the primary readers where they support the text;
// this reader covers what they do not (vertex/fragment stages in GLSL, textures and samplers).

import (
	"fmt"
	"sort"
	"strings"
)

type cTok struct {
	k    byte // 'i' identifier, 'n' number, 'p' punctuation
	s    string
	line int
}

type cDecl struct {
	Name   string
	Kind   string // struct, member, function, param, local, global, typedef, block, block-member, cbuffer, tparam
	Scope  int
	Parent int // parent scope id, -1 for the global scope
	Line   int
	Sig    string // functions: parameter type spellings
	tok    int
}

type cScope struct {
	parent int
	kind   string // global, struct, func, block
	names  map[string]int
	fns    map[string][]int
}

// cProblem is one finding about a declaration; text carries the spelling but no line number.
type cProblem struct {
	class string
	decl  int // declaration index, -1 when not attached to one
	text  string
}

// resolution classes of identifier tokens (cRead.res); values >= 0 are declaration indices
const (
	cResNone     = -1 // not an identifier
	cResFree     = -2 // resolves to nothing declared in the text (keyword, builtin, namespace)
	cResMember   = -3 // after . or -> (needs types; handled by the member relation)
	cResDeclName = -4 // the declared name of a declaration
	cResQual     = -5 // component after :: (qualified lookup, not lexical)
	cResSemantic = -6 // HLSL semantic / register / packoffset word
)

type cRead struct {
	dialect  string
	toks     []cTok
	res      []int
	decls    []cDecl
	scopes   []cScope
	problems []cProblem
	err      string
	pos      int
	cur      int // current scope
}

func isIdentStart(c byte) bool {
	return c == '_' || (c >= 'a' && c <= 'z') || (c >= 'A' && c <= 'Z') || c >= 0x80
}
func isIdentPart(c byte) bool { return isIdentStart(c) || (c >= '0' && c <= '9') }

func cLex(src, dialect string) ([]cTok, string) {
	var out []cTok
	line := 1
	i := 0
	n := len(src)
	lineStart := true
	for i < n {
		c := src[i]
		switch {
		case c == '\n':
			line++
			i++
			lineStart = true
			continue
		case c == ' ' || c == '\t' || c == '\r':
			i++
			continue
		case c == '/' && i+1 < n && src[i+1] == '/':
			for i < n && src[i] != '\n' {
				i++
			}
			continue
		case c == '/' && i+1 < n && src[i+1] == '*':
			i += 2
			for i+1 < n && !(src[i] == '*' && src[i+1] == '/') {
				if src[i] == '\n' {
					line++
				}
				i++
			}
			i += 2
			continue
		case c == '#' && lineStart:
			for i < n && src[i] != '\n' {
				if src[i] == '\\' && i+1 < n && src[i+1] == '\n' {
					line++
					i++
				}
				i++
			}
			continue
		}
		lineStart = false
		switch {
		case isIdentStart(c):
			j := i
			for j < n && isIdentPart(src[j]) {
				j++
			}
			out = append(out, cTok{'i', src[i:j], line})
			i = j
		case c >= '0' && c <= '9' || (c == '.' && i+1 < n && src[i+1] >= '0' && src[i+1] <= '9'):
			j := i
			for j < n {
				d := src[j]
				if isIdentPart(d) && d < 0x80 || d == '.' {
					j++
					continue
				}
				if (d == '+' || d == '-') && j > i && (src[j-1] == 'e' || src[j-1] == 'E' || src[j-1] == 'p' || src[j-1] == 'P') &&
					!(len(src[i:j]) > 1 && (src[i+1] == 'x' || src[i+1] == 'X') && (src[j-1] == 'e' || src[j-1] == 'E')) {
					j++
					continue
				}
				break
			}
			out = append(out, cTok{'n', src[i:j], line})
			i = j
		case c == '"':
			j := i + 1
			for j < n && src[j] != '"' && src[j] != '\n' {
				if src[j] == '\\' {
					j++
				}
				j++
			}
			out = append(out, cTok{'n', src[i:min(j+1, n)], line})
			i = j + 1
		case c == '[' && dialect == "msl" && i+1 < n && src[i+1] == '[':
			// C++ attribute [[ ... ]]: dropped (its words are neither declarations nor references)
			depth := 0
			j := i
			for j < n {
				if src[j] == '[' {
					depth++
				} else if src[j] == ']' {
					depth--
					if depth == 0 {
						break
					}
				} else if src[j] == '\n' {
					line++
				}
				j++
			}
			if j >= n {
				return out, fmt.Sprintf("line %d: unterminated attribute", line)
			}
			i = j + 1
		default:
			if i+1 < n {
				two := src[i : i+2]
				switch two {
				case "::", "->", "++", "--", "<<", ">>", "<=", ">=", "==", "!=", "&&", "||", "+=", "-=", "*=", "/=", "%=", "&=", "|=", "^=":
					out = append(out, cTok{'p', two, line})
					i += 2
					continue
				}
			}
			out = append(out, cTok{'p', string(c), line})
			i++
		}
	}
	return out, ""
}

// words that begin a statement that is not a declaration, or structure the text; all of them are
// reserved words in each of the three languages
var cStmtWords = wordSet("return break continue goto else do case default if while switch for")

func (r *cRead) tk(i int) *cTok {
	if i < 0 || i >= len(r.toks) {
		return &cTok{k: 'p', s: "\x00"}
	}
	return &r.toks[i]
}
func (r *cRead) at(s string) bool   { return r.tk(r.pos).s == s && r.tk(r.pos).k != 'n' }
func (r *cRead) isIdent(i int) bool { return r.tk(i).k == 'i' }
func (r *cRead) eof() bool          { return r.pos >= len(r.toks) }

type cBail struct{ msg string }

func (r *cRead) fail(f string, a ...any) {
	panic(cBail{fmt.Sprintf("line %d: ", r.tk(r.pos).line) + fmt.Sprintf(f, a...)})
}

func (r *cRead) push(kind string) int {
	r.scopes = append(r.scopes, cScope{parent: r.cur, kind: kind, names: map[string]int{}})
	r.cur = len(r.scopes) - 1
	return r.cur
}
func (r *cRead) pop() { r.cur = r.scopes[r.cur].parent }

func (r *cRead) lookup(name string) int {
	for s := r.cur; s >= 0; s = r.scopes[s].parent {
		if r.scopes[s].kind == "struct" {
			continue // member names are not found by unqualified lookup from nested text in the emitted subset
		}
		if d, ok := r.scopes[s].names[name]; ok {
			return d
		}
	}
	return -1
}

func (r *cRead) problem(f string, a ...any) {
	t := fmt.Sprintf(f, a...)
	class := t
	if i := strings.Index(t, ":"); i > 0 {
		class = t[:i]
	}
	r.problems = append(r.problems, cProblem{class: class, decl: len(r.decls) - 1, text: t})
}

// declare records a declaration of the identifier token at index ti in scope sc.
func (r *cRead) declare(ti int, kind string, sc int, sig string) int {
	t := r.tk(ti)
	name := t.s
	d := cDecl{Name: name, Kind: kind, Scope: sc, Parent: r.scopes[sc].parent, Line: t.line, Sig: sig, tok: ti}
	r.decls = append(r.decls, d)
	idx := len(r.decls) - 1
	r.res[ti] = cResDeclName
	r.lexical(kind, name)
	if kind == "cbuffer" {
		return idx // cbuffer names live in a name space of their own
	}
	if kind == "tparam" {
		r.scopes[sc].names[name] = idx
		return idx
	}
	if old, ok := r.scopes[sc].names[name]; ok {
		od := r.decls[old]
		if !(od.Kind == "function" && kind == "function") { // overloads are judged by finishFn
			r.problem("duplicate: %s %q redeclares the %s of the same spelling in one scope (%s scope)", kind, name, od.Kind, r.scopes[sc].kind)
		}
	} else if r.scopes[sc].kind != "struct" {
		// hiding: an enclosing scope declares the same spelling, so two distinct entities that are both
		// in scope here share one spelling
		for s := r.scopes[sc].parent; s >= 0; s = r.scopes[s].parent {
			if r.scopes[s].kind == "struct" {
				continue
			}
			if o, ok := r.scopes[s].names[name]; ok {
				r.problem("hides: %s %q hides the %s of the same spelling declared in an enclosing scope", kind, name, r.decls[o].Kind)
				break
			}
		}
	}
	r.scopes[sc].names[name] = idx
	return idx
}

// finishFn completes a function declaration once its parameter types are known: two functions of one
// name in one scope are distinct entities only if their parameter types differ; a prototype and its
// definition are one entity.
func (r *cRead) finishFn(idx int, sig string, proto bool) {
	d := &r.decls[idx]
	d.Sig = sig
	if proto {
		d.tok = -1
	}
	sc := &r.scopes[d.Scope]
	if sc.fns == nil {
		sc.fns = map[string][]int{}
	}
	for _, o := range sc.fns[d.Name] {
		od := r.decls[o]
		if od.Sig == sig && od.tok >= 0 && !proto {
			r.problems = append(r.problems, cProblem{class: "duplicate", decl: idx, text: fmt.Sprintf("duplicate: function %q with parameter types (%s) is defined twice", d.Name, sig)})
		}
	}
	sc.fns[d.Name] = append(sc.fns[d.Name], idx)
}

// lexical judges the spelling of a declared identifier against the lexical rules of the target.
func (r *cRead) lexical(kind, name string) {
	for i := 0; i < len(name); i++ {
		if name[i] >= 0x80 {
			r.problem("illegal-identifier: %s %q contains a non-ASCII character", kind, name)
			break
		}
	}
	switch r.dialect {
	case "glsl":
		if strings.Contains(name, "__") {
			r.problem("reserved-double-underscore: %s %q contains two consecutive underscores (reserved in GLSL)", kind, name)
		}
		if strings.HasPrefix(name, "gl_") {
			r.problem("reserved-gl-prefix: %s %q begins with gl_ (reserved in GLSL)", kind, name)
		}
		if certainGLSL[name] {
			r.problem("keyword: %s %q is a GLSL keyword or reserved word", kind, name)
		}
	case "msl":
		if strings.Contains(name, "__") {
			r.problem("reserved-double-underscore: %s %q contains two consecutive underscores (reserved to the implementation in C++)", kind, name)
		} else if len(name) >= 2 && name[0] == '_' && name[1] >= 'A' && name[1] <= 'Z' {
			r.problem("reserved-underscore-capital: %s %q begins with an underscore and a capital letter (reserved to the implementation in C++)", kind, name)
		}
		if certainCpp[name] {
			r.problem("keyword: %s %q is a C++14/MSL keyword", kind, name)
		}
	case "hlsl":
		if certainHLSL[name] {
			r.problem("keyword: %s %q is an HLSL keyword, reserved word or predeclared type", kind, name)
		}
	}
}

// ref resolves an identifier token used as a reference.
func (r *cRead) ref(ti int) {
	if !r.isIdent(ti) || r.res[ti] != cResNone {
		return
	}
	prev := r.tk(ti - 1)
	if prev.k == 'p' {
		switch prev.s {
		case ".", "->":
			r.res[ti] = cResMember
			return
		case "::":
			r.res[ti] = cResQual
			return
		}
	}
	if d := r.lookup(r.toks[ti].s); d >= 0 {
		r.res[ti] = d
	} else {
		r.res[ti] = cResFree
	}
}

// skipBalanced consumes one bracketed group starting at the current opening token, resolving the
// identifiers inside as references.
func (r *cRead) skipBalanced() {
	open := r.tk(r.pos).s
	closeOf := map[string]string{"(": ")", "[": "]", "{": "}", "<": ">"}
	cl, ok := closeOf[open]
	if !ok {
		r.fail("expected an opening bracket, found %q", open)
	}
	r.pos++
	for !r.eof() {
		t := r.tk(r.pos)
		if t.k == 'p' {
			switch t.s {
			case cl:
				r.pos++
				return
			case "(", "[", "{":
				r.skipBalanced()
				continue
			case ")", "]", "}":
				r.fail("unbalanced %q inside %q", t.s, open)
			case "<":
				if open == "<" {
					r.skipBalanced()
					continue
				}
			case ">>":
				if open == "<" { // closes two template lists
					t.s = ">"
					return
				}
			}
		}
		if t.k == 'i' {
			r.ref(r.pos)
		}
		r.pos++
	}
	r.fail("unterminated %q", open)
}

// expr consumes tokens up to (not including) a terminator at bracket depth 0.
func (r *cRead) expr(terms ...string) {
	for !r.eof() {
		t := r.tk(r.pos)
		if t.k == 'p' {
			for _, x := range terms {
				if t.s == x {
					return
				}
			}
			switch t.s {
			case "(", "[", "{":
				r.skipBalanced()
				continue
			case ")", "]", "}":
				r.fail("unbalanced %q in an expression", t.s)
			}
		}
		if t.k == 'i' {
			r.ref(r.pos)
		}
		r.pos++
	}
}

// templateArgsEnd returns the index after a balanced <...> starting at i, or -1 when the tokens from i
// do not look like a template-argument list (only names, ::, numbers, commas and nested lists inside).
func (r *cRead) templateArgsEnd(i int) int {
	if r.tk(i).s != "<" || r.tk(i).k != 'p' {
		return -1
	}
	depth := 0
	for ; i < len(r.toks); i++ {
		t := r.tk(i)
		switch {
		case t.k == 'i' || t.k == 'n':
		case t.s == "<":
			depth++
		case t.s == ">":
			depth--
			if depth == 0 {
				return i + 1
			}
		case t.s == ">>":
			depth -= 2
			if depth <= 0 {
				return i + 1
			}
		case t.s == "::" || t.s == ",":
		default:
			return -1
		}
	}
	return -1
}

type cUnit struct {
	first, last int // token range of the name path (first..last), template arguments excluded
	end         int // index after the unit including template arguments
}

// chain reads the longest run of declaration-specifier units (names, qualified names, template
// instances, layout(...) qualifiers, pointer/reference marks) starting at the current position. It
// does not consume anything: it returns the units and the index of the token that follows.
func (r *cRead) chain() ([]cUnit, int) {
	var us []cUnit
	i := r.pos
	for {
		if !r.isIdent(i) {
			break
		}
		u := cUnit{first: i}
		j := i
		for r.tk(j+1).s == "::" && r.tk(j+1).k == 'p' && r.isIdent(j+2) {
			j += 2
		}
		u.last = j
		u.end = j + 1
		if r.dialect == "glsl" && r.tk(u.first).s == "layout" && u.first == u.last && r.tk(u.end).s == "(" {
			// GLSL layout qualifier: skip its parenthesised list
			depth := 0
			k := u.end
			for ; k < len(r.toks); k++ {
				if r.tk(k).s == "(" {
					depth++
				} else if r.tk(k).s == ")" {
					depth--
					if depth == 0 {
						break
					}
				}
			}
			u.end = k + 1
		} else if e := r.templateArgsEnd(u.end); e > 0 {
			nx := r.tk(e)
			if nx.k == 'i' || nx.s == "&" || nx.s == "*" || nx.s == "(" || nx.s == "&&" {
				u.end = e
			}
		}
		us = append(us, u)
		i = u.end
		for len(us) > 0 && r.tk(i).k == 'p' && (r.tk(i).s == "&" || r.tk(i).s == "*" || r.tk(i).s == "&&") && (r.isIdent(i+1) || r.tk(i+1).s == "&" || r.tk(i+1).s == "*") {
			i++
		}
	}
	return us, i
}

// refUnits resolves the names of specifier units (type names, qualifiers) as references.
func (r *cRead) refUnits(us []cUnit) {
	for _, u := range us {
		for k := u.first; k < u.end; k++ {
			if r.isIdent(k) {
				r.ref(k)
			}
		}
	}
}

func (r *cRead) unitText(us []cUnit) string {
	var b strings.Builder
	for _, u := range us {
		for k := u.first; k < u.end; k++ {
			b.WriteString(r.tk(k).s)
		}
		b.WriteByte(' ')
	}
	return b.String()
}

// semantic consumes an HLSL ": WORD" / ": register(...)" / ": packoffset(...)" suffix.
func (r *cRead) semantic() {
	for r.at(":") && r.isIdent(r.pos+1) {
		r.pos++
		r.res[r.pos] = cResSemantic
		r.pos++
		if r.at("(") {
			depth := 0
			for !r.eof() {
				if r.at("(") {
					depth++
				} else if r.at(")") {
					depth--
					if depth == 0 {
						r.pos++
						break
					}
				} else if r.isIdent(r.pos) {
					r.res[r.pos] = cResSemantic
				}
				r.pos++
			}
		}
	}
}

func (r *cRead) varKind() string {
	switch r.scopes[r.cur].kind {
	case "global":
		return "global"
	case "struct":
		return "member"
	}
	return "local"
}

// declarators: the current token is the first declared name of a variable/member/typedef declaration.
func (r *cRead) declarators(kind string, sc int) {
	for {
		for r.at("*") || r.at("&") {
			r.pos++
		}
		if !r.isIdent(r.pos) {
			r.fail("expected a declared name, found %q", r.tk(r.pos).s)
		}
		nameTok := r.pos
		r.pos++
		for r.at("[") {
			r.skipBalanced()
		}
		if r.dialect == "hlsl" {
			r.semantic()
		}
		// C and its descendants: the scope of a name begins after its declarator, before the initialiser
		r.declare(nameTok, kind, sc, "")
		if r.at("=") {
			r.pos++
			r.expr(",", ";")
		} else if r.at("{") && r.dialect == "msl" {
			r.skipBalanced()
		}
		if r.at(",") {
			r.pos++
			continue
		}
		if r.at(";") {
			r.pos++
			return
		}
		r.fail("expected , or ; after a declarator, found %q", r.tk(r.pos).s)
	}
}

func (r *cRead) params() string {
	// current token is "("
	r.pos++
	var sig []string
	for !r.eof() {
		if r.at(")") {
			r.pos++
			return strings.Join(sig, ",")
		}
		if r.at(",") {
			r.pos++
			continue
		}
		us, next := r.chain()
		if len(us) == 0 {
			r.fail("unexpected %q in a parameter list", r.tk(r.pos).s)
		}
		if len(us) == 1 {
			// unnamed parameter or (void)
			r.refUnits(us)
			r.pos = next
			sig = append(sig, r.unitText(us))
		} else {
			nameU := us[len(us)-1]
			if nameU.first != nameU.last || nameU.end != nameU.last+1 {
				r.fail("parameter name is not a plain identifier")
			}
			r.refUnits(us[:len(us)-1])
			sig = append(sig, r.unitText(us[:len(us)-1]))
			r.pos = nameU.first
			nameTok := r.pos
			r.pos++
			for r.at("[") {
				sig[len(sig)-1] += "[]"
				r.skipBalanced()
			}
			if r.dialect == "hlsl" {
				r.semantic()
			}
			r.declare(nameTok, "param", r.cur, "")
			if r.at("=") {
				r.pos++
				r.expr(",", ")")
			}
		}
		if !r.at(",") && !r.at(")") {
			r.fail("expected , or ) in a parameter list, found %q", r.tk(r.pos).s)
		}
	}
	r.fail("unterminated parameter list")
	return ""
}

func (r *cRead) items(until string) {
	for !r.eof() {
		if until != "" && r.at(until) {
			return
		}
		r.statement()
	}
	if until != "" {
		r.fail("missing %q", until)
	}
}

func (r *cRead) blockBody(kind string) {
	// current token is "{"
	r.pos++
	r.push(kind)
	r.items("}")
	r.pos++
	r.pop()
}

func (r *cRead) statement() {
	t := r.tk(r.pos)
	if t.k == 'p' {
		switch t.s {
		case ";":
			r.pos++
			return
		case "{":
			r.blockBody("block")
			return
		case "[":
			if r.dialect == "hlsl" { // statement / function attribute
				depth := 0
				for !r.eof() {
					if r.at("[") {
						depth++
					} else if r.at("]") {
						depth--
						if depth == 0 {
							r.pos++
							break
						}
					} else if r.isIdent(r.pos) {
						r.res[r.pos] = cResSemantic
					}
					r.pos++
				}
				return
			}
		}
		r.expr(";")
		if r.at(";") {
			r.pos++
		}
		return
	}
	if t.k == 'n' {
		r.expr(";")
		r.pos++
		return
	}
	// identifier
	switch t.s {
	case "if", "while", "switch":
		r.res[r.pos] = cResFree
		r.pos++
		if !r.at("(") {
			r.fail("expected ( after %s", t.s)
		}
		r.skipBalanced()
		r.statement()
		return
	case "else", "do":
		r.res[r.pos] = cResFree
		r.pos++
		r.statement()
		return
	case "for":
		r.res[r.pos] = cResFree
		r.pos++
		if !r.at("(") {
			r.fail("expected ( after for")
		}
		r.pos++
		r.push("block")
		r.statement() // init (declaration or expression, consumes ;)
		r.expr(";")
		r.pos++
		r.expr(")")
		r.pos++
		r.statement()
		r.pop()
		return
	case "case":
		r.res[r.pos] = cResFree
		r.pos++
		r.expr(":")
		r.pos++
		return
	case "default":
		r.res[r.pos] = cResFree
		r.pos++
		if r.at(":") {
			r.pos++
		}
		return
	case "return", "break", "continue", "discard", "goto":
		if t.s == "discard" && r.dialect == "msl" {
			break // not a word of C++: an ordinary identifier there
		}
		r.res[r.pos] = cResFree
		r.pos++
		r.expr(";")
		r.pos++
		return
	case "precision":
		if r.dialect == "glsl" {
			for !r.eof() && !r.at(";") {
				if r.isIdent(r.pos) {
					r.res[r.pos] = cResFree
				}
				r.pos++
			}
			r.pos++
			return
		}
	case "using":
		if r.dialect == "msl" {
			for !r.eof() && !r.at(";") {
				if r.isIdent(r.pos) {
					r.res[r.pos] = cResFree
				}
				r.pos++
			}
			r.pos++
			return
		}
	case "template":
		if r.dialect == "msl" && r.tk(r.pos+1).s == "<" {
			// template header: its parameters are declared in a scope of their own that lasts for the
			// templated declaration
			r.res[r.pos] = cResFree
			r.pos += 2
			r.push("block")
			for !r.eof() && !r.at(">") {
				if r.isIdent(r.pos) && (r.tk(r.pos+1).s == "," || r.tk(r.pos+1).s == ">") && r.isIdent(r.pos-1) {
					r.declare(r.pos, "tparam", r.cur, "")
				} else if r.isIdent(r.pos) {
					r.res[r.pos] = cResFree
				}
				r.pos++
			}
			r.pos++
			r.statement()
			r.pop()
			return
		}
	}
	us, next := r.chain()
	n := len(us)
	nt := r.tk(next)
	first := r.tk(us[0].first).s
	plainLast := n >= 1 && us[n-1].first == us[n-1].last && us[n-1].end == us[n-1].last+1
	hasOperator := false
	for _, u := range us {
		if r.dialect == "msl" && r.tk(u.first).s == "operator" {
			hasOperator = true
		}
	}
	switch {
	case r.dialect == "glsl" && first == "layout" && n == 2 && plainLast && nt.s == ";" && certainGLSL[r.tk(us[1].first).s] && r.scopes[r.cur].kind == "global":
		// qualifier-only declaration: layout(...) in;
		r.refUnits(us)
		r.pos = next + 1
		return
	case hasOperator:
		// conversion / operator function: declares no name
		r.refUnits(us)
		r.pos = next
		r.push("func")
		if r.at("(") {
			r.params()
		}
		for !r.eof() && !r.at("{") && !r.at(";") {
			r.pos++
		}
		if r.at("{") {
			r.pos++
			r.items("}")
			r.pos++
		} else {
			r.pos++
		}
		r.pop()
		return
	case (first == "struct" || first == "class") && n == 2 && plainLast && nt.s == "{":
		r.res[us[0].first] = cResFree
		r.declare(us[1].first, "struct", r.cur, "")
		r.pos = next + 1
		r.push("struct")
		r.items("}")
		r.pos++
		r.pop()
		if r.isIdent(r.pos) || r.at("*") {
			r.declarators(r.varKind(), r.cur)
		} else if r.at(";") {
			r.pos++
		}
		return
	case (first == "struct" || first == "class") && n == 2 && nt.s == ";":
		r.res[us[0].first] = cResFree
		r.ref(us[1].first)
		r.pos = next + 1
		return
	case r.dialect == "hlsl" && (first == "cbuffer" || first == "tbuffer") && n == 2 && plainLast:
		r.res[us[0].first] = cResFree
		r.declare(us[1].first, "cbuffer", r.cur, "")
		r.pos = next
		r.semantic()
		if !r.at("{") {
			r.fail("expected { after cbuffer name")
		}
		r.pos++
		r.items("}") // members belong to the enclosing scope
		r.pos++
		if r.at(";") {
			r.pos++
		}
		return
	case r.dialect == "glsl" && n >= 2 && plainLast && nt.s == "{" && r.scopes[r.cur].kind == "global":
		// interface block: qualifiers, block name, { members } [instance [array]] ;
		r.refUnits(us[:n-1])
		r.declare(us[n-1].first, "block", r.cur, "")
		// find the closing brace to see whether there is an instance name
		depth, k := 0, next
		for ; k < len(r.toks); k++ {
			if r.tk(k).s == "{" && r.tk(k).k == 'p' {
				depth++
			} else if r.tk(k).s == "}" && r.tk(k).k == 'p' {
				depth--
				if depth == 0 {
					break
				}
			}
		}
		hasInstance := r.isIdent(k + 1)
		r.pos = next + 1
		if hasInstance {
			r.push("struct")
			r.items("}")
			r.pop()
		} else {
			r.items("}")
		}
		r.pos++
		if hasInstance {
			r.declarators("global", r.cur)
		} else if r.at(";") {
			r.pos++
		}
		return
	case n >= 2 && plainLast && nt.s == "(" && !cStmtWords[first]:
		// function declaration or definition
		r.refUnits(us[:n-1])
		idx := r.declare(us[n-1].first, "function", r.cur, "?")
		r.pos = next
		r.push("func")
		sig := r.params()
		for r.isIdent(r.pos) && !r.at("{") { // const, override, ...
			r.res[r.pos] = cResFree
			r.pos++
		}
		for r.at("&&") || r.at("&") {
			r.pos++
		}
		if r.dialect == "hlsl" {
			r.semantic()
		}
		switch {
		case r.at("{"):
			r.finishFn(idx, sig, false)
			r.pos++
			r.items("}") // the outermost block of a function shares the parameters' scope
			r.pos++
		case r.at(";"):
			r.finishFn(idx, sig, true)
			r.pos++
		default:
			r.fail("expected a function body or ; , found %q", r.tk(r.pos).s)
		}
		r.pop()
		return
	case n >= 2 && plainLast && !cStmtWords[first] && (nt.s == ";" || nt.s == "=" || nt.s == "," || nt.s == "[" || nt.s == ":" && r.dialect == "hlsl" || nt.s == "{" && r.dialect == "msl"):
		kind := r.varKind()
		if first == "typedef" {
			kind = "typedef"
		}
		r.refUnits(us[:n-1])
		r.pos = us[n-1].first
		r.declarators(kind, r.cur)
		return
	}
	// expression statement
	r.expr(";")
	if r.at(";") {
		r.pos++
	}
}

// cParse reads one translation unit.
func cParse(src, dialect string) (rd *cRead) {
	rd = &cRead{dialect: dialect}
	toks, lerr := cLex(src, dialect)
	rd.toks = toks
	rd.res = make([]int, len(toks))
	for i := range rd.res {
		rd.res[i] = cResNone
	}
	if lerr != "" {
		rd.err = lerr
		return
	}
	rd.scopes = []cScope{{parent: -1, kind: "global", names: map[string]int{}}}
	rd.cur = 0
	defer func() {
		if x := recover(); x != nil {
			if b, ok := x.(cBail); ok {
				rd.err = b.msg
				return
			}
			panic(x)
		}
	}()
	rd.items("")
	// every identifier token, declared or not, must be spelled in ASCII
	seen := map[string]bool{}
	for i, t := range rd.toks {
		if t.k != 'i' || rd.res[i] == cResDeclName || seen[t.s] {
			continue
		}
		for j := 0; j < len(t.s); j++ {
			if t.s[j] >= 0x80 {
				seen[t.s] = true
				rd.problems = append(rd.problems, cProblem{class: "illegal-identifier", decl: -1, text: fmt.Sprintf("illegal-identifier: identifier %q contains a non-ASCII character", t.s)})
				break
			}
		}
	}
	return
}

// declNames returns the distinct declared spellings in order of first declaration.
func (r *cRead) declNames() []string {
	seen := map[string]bool{}
	var out []string
	for _, d := range r.decls {
		if !seen[d.Name] {
			seen[d.Name] = true
			out = append(out, d.Name)
		}
	}
	return out
}

func (r *cRead) hasFunction(name string) bool {
	for _, d := range r.decls {
		if d.Kind == "function" && d.Scope == 0 && d.Name == name {
			return true
		}
	}
	return false
}

// alpha renders the token stream with every spelling that depends on naming choices removed:
// references become the index of the declaration they resolve to, declared names become their kind.
// Two texts that differ only by a consistent renaming have equal renderings.
func (r *cRead) alpha() []string {
	out := make([]string, len(r.toks))
	for i, t := range r.toks {
		switch {
		case t.k != 'i':
			out[i] = t.s
		case r.res[i] >= 0:
			out[i] = fmt.Sprintf("#%d", r.res[i])
		case r.res[i] == cResDeclName:
			out[i] = "#decl"
		case r.res[i] == cResMember:
			out[i] = ".member"
		case r.res[i] == cResFree, r.res[i] == cResQual, r.res[i] == cResSemantic, r.res[i] == cResNone:
			out[i] = t.s
		}
	}
	return out
}

// cCompare judges a text against the text emitted for the same program under neutral names. It
// returns a failure class and detail, or "" when every reference resolves to the declaration in the
// same position as in the neutral text. structural=false means the two texts differ in more than
// spelling, which this comparison does not judge.
func cCompare(base, got *cRead) (class, detail string, structural bool) {
	a, b := base.alpha(), got.alpha()
	if len(a) != len(b) || len(base.decls) != len(got.decls) {
		return "", "", false
	}
	for i := range a {
		ar, br := base.res[i], got.res[i]
		if base.toks[i].k != 'i' || got.toks[i].k != 'i' {
			if a[i] != b[i] {
				return "", "", false
			}
			continue
		}
		if (ar == cResDeclName) != (br == cResDeclName) || (ar == cResMember) != (br == cResMember) || (ar == cResSemantic) != (br == cResSemantic) || (ar == cResQual) != (br == cResQual) {
			return "", "", false
		}
	}
	for i := range base.decls {
		if base.decls[i].Kind != got.decls[i].Kind {
			return "", "", false
		}
	}
	// member relation: pairs (spelling under neutral names, spelling now) of the member declarations
	type pair struct{ a, b string }
	mem := map[pair]bool{}
	memA := map[string]bool{}
	memB := map[string]bool{}
	for i := range base.decls {
		k := base.decls[i].Kind
		if k == "member" || k == "block-member" || r2scopeIsStruct(base, i) {
			mem[pair{base.decls[i].Name, got.decls[i].Name}] = true
			memA[base.decls[i].Name] = true
			memB[got.decls[i].Name] = true
		}
	}
	for i := range a {
		if base.toks[i].k != 'i' {
			continue
		}
		ar, br := base.res[i], got.res[i]
		ta, tb := base.toks[i], got.toks[i]
		switch {
		case ar >= 0 || br >= 0:
			if ar != br {
				return "resolves-elsewhere", fmt.Sprintf("line %d: %q resolves to %s; under neutral names the token in this position (%q) resolves to %s", tb.line, tb.s, got.declDesc(br), ta.s, base.declDesc(ar)), true
			}
		case ar == cResMember:
			if mem[pair{ta.s, tb.s}] {
				continue
			}
			if ta.s == tb.s && !memA[ta.s] && !memB[tb.s] {
				continue // member of a predeclared type, swizzle, method
			}
			return "member-access-elsewhere", fmt.Sprintf("line %d: member access .%s stands where .%s stands under neutral names, and no member declaration was renamed that way", tb.line, tb.s, ta.s), true
		case ar == cResFree || ar == cResQual || ar == cResSemantic:
			if ta.s != tb.s && ar != cResSemantic {
				return "", "", false
			}
		}
	}
	return "", "", true
}

func r2scopeIsStruct(r *cRead, d int) bool { return r.scopes[r.decls[d].Scope].kind == "struct" }

func (r *cRead) declDesc(d int) string {
	if d < 0 {
		return "no declaration in the text (a built-in or keyword)"
	}
	x := r.decls[d]
	return fmt.Sprintf("the %s %q declared at line %d", x.Kind, x.Name, x.Line)
}

// cNewProblems returns the problems of got that the neutral text does not have. When the two texts
// have the same declaration structure a problem is matched by (class, declaration position) so that a
// problem naga's own names have under neutral names is not attributed to the user's name; otherwise by
// its text.
func cNewProblems(base, got *cRead, aligned bool) []string {
	type k struct {
		class string
		decl  int
	}
	haveK := map[k]int{}
	haveT := map[string]int{}
	for _, p := range base.problems {
		haveK[k{p.class, p.decl}]++
		haveT[p.text]++
	}
	var out []string
	for _, p := range got.problems {
		if aligned && p.decl >= 0 {
			if haveK[k{p.class, p.decl}] > 0 {
				haveK[k{p.class, p.decl}]--
				continue
			}
		} else if haveT[p.text] > 0 {
			haveT[p.text]--
			continue
		}
		out = append(out, p.text)
	}
	sort.Strings(out)
	return out
}
