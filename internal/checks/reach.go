package checks

import "verif/internal/wgen"

// F5reach (internal/wgen/f5reach.go): modules with two or three compute entry points sharing helper
// functions and module-scope variables; every (module, executed entry point) pair is one case. The
// family is run by the four semantic checks C01/C03/C04/C05 through the semExtra hook.
func init() {
	semExtra = append(semExtra, func(thorough bool) *wgen.Family { return wgen.F5Reach(thorough) })
	extraFamilyByName["F5reach"] = func() *wgen.Family { return wgen.F5Reach(false) }
	extraFamilyByName["F5reachT"] = func() *wgen.Family { return wgen.F5Reach(true) }
}
