package checks

import (
	"os"
	"strings"
	"testing"

	"verif/internal/wgen"
)

// TestC02Dump writes the sources of programs whose signature contains $C02_DUMP to $C02_DUMP_DIR (authoring aid).
func TestC02Dump(t *testing.T) {
	w, dir := os.Getenv("C02_DUMP"), os.Getenv("C02_DUMP_DIR")
	if w == "" || dir == "" {
		t.Skip()
	}
	n := 0
	put := func(sig, src string) {
		if strings.Contains(sig, w) {
			os.WriteFile(dir+"/"+strings.NewReplacer("/", "_", "<", "(", ">", ")", " ", "").Replace(sig)+".wgsl", []byte(src), 0o644)
			n++
		}
	}
	for _, p := range wgen.F1sPrograms(false) {
		put(p.Sig, p.Src)
	}
	for _, p := range wgen.F1sManyPrograms() {
		put(p.Sig, p.Src)
	}
	i := wgen.F1sImages()
	put(i.Sig, i.Src)
	t.Logf("%d programs written", n)
}
