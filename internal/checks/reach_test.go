package checks

import (
	"os"
	"strings"
	"testing"
	"time"

	"verif/internal/explore"
	"verif/internal/wgen"
)

// TestReachFamilyAlone runs F5reach alone through the four semantic backends and reports the wall
// time and the violation classes (authoring aid: VERIF_REACH_TIMING=1 go test -tags verif -run
// TestReachFamilyAlone ./internal/checks/).
func TestReachFamilyAlone(t *testing.T) {
	if os.Getenv("VERIF_REACH_TIMING") == "" {
		t.Skip("set VERIF_REACH_TIMING=1")
	}
	f := wgen.F5Reach(false)
	stride := 1
	if os.Getenv("VERIF_REACH_STRIDE") != "" {
		stride = 16
	}
	for _, be := range []*semBackend{spirvBackend(), hlslBackend(), mslBackend(), glslBackend()} {
		r := explore.New(be.prop)
		st := time.Now()
		r.ParallelFor(f.Count, func(i int) {
			if i%stride != 0 {
				return
			}
			c := f.At(i)
			semProgram(r, be, &prog{Sig: c.Sig, Src: wgen.Print(c.Mod), Case: c}, 0)
		})
		classes := map[string]int{}
		for k, n := range r.ViolationKeys() {
			p := strings.Split(k, "|")
			kinds := ""
			for _, kd := range []string{"S@", "P@", "W@", "U@", "Q@"} {
				if strings.Contains(p[1], kd) {
					kinds += kd[:1]
				}
			}
			classes[kinds+"|"+p[len(p)-1]] += n
		}
		t.Logf("%s: %d cases in %.1fs, %d violation keys, classes %v", be.prop, f.Count, time.Since(st).Seconds(), len(r.ViolationKeys()), classes)
	}
}
