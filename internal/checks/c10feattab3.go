package checks

import (
	"fmt"
	"strings"
)

func c10FeatStatements() []c10Feat {
	sb := "@group(%G) @binding(0) var<storage, read_write> $o: array<i32>;"
	return []c10Feat{
		fc("stmt-switch-forms", sb, "switch $o[0] { case 1: { $o[1] = 1; } case 2, 3: { $o[1] = 2; } case 4, default: { $o[1] = 3; } }  switch $o[2] { default: { } }  switch $o[3] { default { break; } case 7 { } }"),
		fc("stmt-switch-no-default", sb, "switch $o[0] { case 1: { $o[1] = 1; } }"),
		fc("stmt-switch-empty", sb, "switch $o[0] { }"),
		fc("stmt-switch-dup-case", sb, "switch $o[0] { case 1: { } case 1: { } default: { } }"),
		fc("stmt-switch-dup-default", sb, "switch $o[0] { default: { } default: { } }"),
		fc("stmt-switch-mixed-sign", sb, "switch $o[0] { case 1u: { } case -1: { } default: { } }"),
		fc("stmt-switch-on-float", "", "switch 1.5 { case 1.5: { } default: { } }"),
		fc("stmt-switch-on-bool", "", "switch true { case true: { } default: { } }"),
		fc("stmt-switch-on-vec", "", "switch vec2<i32>(1) { default: { } }"),
		fc("stmt-switch-case-runtime", sb, "let $k = $o[1]; switch $o[0] { case $k: { } default: { } }"),
		fc("stmt-switch-case-const-expr", "const $k = 2;", "switch 1 { case $k + 1, $k * 4: { } default: { } }"),
		fc("stmt-switch-fallthrough", sb, "switch $o[0] { case 1: { fallthrough; } default: { } }"),
		fc("stmt-switch-all-return", "fn $f(a: i32) -> i32 { switch a { case 1: { return 1; } default: { return 2; } } }", "_ = $f(1);"),
		fc("stmt-switch-all-break", sb, "switch $o[0] { case 0: { break; } default: { break; } } $o[1] = 1;"),
		fc("stmt-switch-in-loop-continue", sb, "var $i = 0; loop { if $i > 3 { break; } switch $i { case 1: { $i += 2; continue; } default: { } } $i++; }"),
		fc("stmt-switch-nested", sb, "switch $o[0] { case 1: { switch $o[1] { case 1: { break; } default: { switch $o[2] { default: { } } } } } default: { } }"),
		fc("stmt-switch-huge-case", "", "switch 1 { case 2147483647: { } case -2147483648: { } case 4294967295: { } default: { } }"),
		fc("stmt-loop-infinite", "", "loop { }"),
		fc("stmt-loop-forms", sb, "var $i = 0; loop { if $i > 4 { break; } continuing { $i++; } } loop { $i--; continuing { break if $i < 0; } } while $i < 3 { $i++; } for (var $j = 0; $j < 2; $j++) { $o[$j] = $i; } for (;;) { break; }"),
		fc("stmt-loop-continuing-only", "", "var $i = 0; loop { continuing { $i++; break if $i > 2; } }"),
		fc("stmt-loop-continuing-empty", "", "loop { break; continuing { } }"),
		fc("stmt-loop-continuing-not-last", "", "var $i = 0; loop { continuing { $i++; } break; }"),
		fc("stmt-loop-two-continuing", "", "var $i = 0; loop { break; continuing { $i++; } continuing { $i++; } }"),
		fc("stmt-loop-break-if-not-last", "", "var $i = 0; loop { continuing { break if $i > 2; $i++; } }"),
		fc("stmt-loop-break-if-outside", "", "var $i = 0; loop { break if $i > 2; }"),
		fc("stmt-loop-return-in-continuing", "fn $f() -> i32 { loop { continuing { return 1; } } }", "_ = $f();"),
		fc("stmt-loop-break-in-continuing", "", "loop { continuing { break; } }"),
		fc("stmt-loop-continue-in-continuing", "", "loop { break; continuing { continue; } }"),
		fc("stmt-loop-discard-in-continuing", "", "loop { break; continuing { discard; } }"),
		fc("stmt-loop-nested-continuing", "", "var $i = 0; loop { if $i > 5 { break; } continuing { loop { $i++; if $i > 2 { break; } continuing { $i++; } } } }"),
		fc("stmt-loop-var-in-body-used-in-continuing", "", "loop { let $k = 1; var $m = 2; if $m > $k { break; } continuing { $m += $k; break if $m > 10; } }"),
		fc("stmt-loop-continue-before-decl", "", "var $i = 0; loop { if $i > 3 { break; } if $i == 1 { $i = 2; continue; } let $k = $i; continuing { $i += $k + 1; } }"),
		fc("stmt-break-outside", "", "break;"),
		fc("stmt-continue-outside", "", "continue;"),
		fc("stmt-break-in-if", "", "if true { break; }"),
		fc("stmt-continue-in-switch", "", "switch 1 { default: { continue; } }"),
		fc("stmt-for-forms", sb, "for (var $i = 0; $i < 2; $i += 1) { } for (let $k = 1; $k < 0;) { } var $j = 0; for ($j = 1; ; $j++) { break; } for (; $j < 4; ) { $j++; } for ($o[0] = 1; $o[0] < 3; $o[0]++) { }"),
		fc("stmt-for-call-clauses", "fn $g() -> i32 { return 1; }\nfn $h() {}", "for ($h(); $g() < 0; $h()) { }"),
		fc("stmt-for-bad-clauses", "", "for (var $i = 0, $j = 0; $i < 2; $i++) { } for (1; 2; 3) { } for (var $k = 0; $k; $k++) { }"),
		fc("stmt-for-missing-semicolons", "", "for (var $i = 0) { } for () { }"),
		fc("stmt-while-forms", sb, "while false { } while true { break; } while ($o[0] < 3) { $o[0]++; continue; }"),
		fc("stmt-while-non-bool", "", "while 1 { }"),
		fc("stmt-if-forms", sb, "if $o[0] > 0 { } else if $o[0] < 0 { $o[1] = 1; } else if ($o[0] == 7) { } else { $o[1] = 2; } if (true) { } if false { } else { }"),
		fc("stmt-if-non-bool", sb, "if $o[0] { } if 1 { } if vec2<bool>(true) { }"),
		fc("stmt-if-no-braces", sb, "if true $o[0] = 1;"),
		fc("stmt-if-else-chain-deep", sb, "if $o[0] == 0 { }"+strings.Repeat(" else if $o[0] == 1 { $o[1] += 1; }", 40)+" else { }"),
		fc("stmt-else-alone", "", "else { }"),
		fc("stmt-blocks-nested", sb, "{ { { $o[0] = 1; { } } } { let $k = 1; { let $k = 2.0; { let $k = true; } } } }"),
		fc("stmt-empty", "", ";;;"),
		fc("stmt-phony", sb, "_ = 1; _ = $o[0]; _ = vec3<f32>(1.0); _ = &$o; _ = $o[1] + $o[2];"),
		fc("stmt-phony-bad", sb, "_ = $o; _ += 1; let _ = 1; _;"),
		fc("stmt-phony-void-call", "fn $v() {}", "_ = $v();"),
		fc("stmt-phony-type", "", "_ = i32; _ = vec3<f32>;"),
		fc("stmt-incdec", sb, "var $i = 0; $i++; $i--; $o[0]++; $o[$i]--; var $v = vec2<i32>(); $v.x++; $v[1]--;"),
		fc("stmt-incdec-bad", sb, "let $k = 1; $k++; var $f = 1.0; $f++; var $v = vec2<i32>(); $v++; var $b = true; $b--; 1++; ++$f; $f++ ++;"),
		fc("stmt-incdec-as-expr", "", "var $i = 0; let $j = $i++; let $k = $i-- + 1;"),
		fc("stmt-assign-to-let", "", "let $k = 1; $k = 2;"),
		fc("stmt-assign-to-const", "const $k = 1;", "$k = 2; $k += 1;"),
		fc("stmt-assign-to-param", "fn $f(a: i32) { a = 1; a += 1; a++; }", "$f(1);"),
		fc("stmt-assign-to-rvalue", "", "1 = 2; (1 + 2) = 3; vec2<f32>(1.0).x = 2.0;"),
		fc("stmt-assign-to-fn", "fn $f() {}", "$f = 1; $f() = 1;"),
		fc("stmt-assign-to-type", "", "i32 = 1; vec3<f32> = vec3<f32>(1.0);"),
		fc("stmt-assign-to-uniform", "@group(%G) @binding(0) var<uniform> $u: vec4<f32>;", "$u = vec4<f32>(1.0); $u.x = 1.0;"),
		fc("stmt-assign-to-readonly-storage", "@group(%G) @binding(0) var<storage, read> $u: array<f32>;", "$u[0] = 1.0; $u[1] += 1.0;"),
		fc("stmt-assign-type-mismatch", "", "var $i = 1; $i = 1.5; $i = 1u; $i = true; $i = vec2<i32>(1);"),
		fc("stmt-assign-swizzle", "", "var $v = vec4<f32>(); $v.xy = vec2<f32>(1.0); $v.zw += vec2<f32>(1.0);"),
		fc("stmt-assign-component", "", "var $v = vec4<f32>(); $v.x = 1.0; $v[2] = 2.0; $v.w += $v.x; var $m = mat2x2<f32>(); $m[1] = $v.xy; $m[0][1] = 3.0; $m[1].x *= 2.0;"),
		fc("stmt-assign-dynamic-component", sb, "var $v = vec4<f32>(); var $m = mat3x3<f32>(); let $i = $o[0]; $v[$i] = 1.0; $m[$i][$i] = 2.0; $m[$i] = vec3<f32>(1.0); $m[1][$i] += 1.0;"),
		fc("stmt-compound-all-ops", sb, "var $i = 7; $i += 1; $i -= 2; $i *= 3; $i /= 2; $i %= 5; $i &= 6; $i |= 8; $i ^= 3; $i <<= 2u; $i >>= 1u; $o[0] += $i; var $b = true; $b &= false; $b |= true;"),
		fc("stmt-compound-through-ptr", "fn $f(p: ptr<function, vec3<f32>>, m: ptr<function, mat2x2<f32>>) { *p *= 2.0; (*p).y /= 3.0; p.x -= 1.0; *m *= 2.0; (*m)[1] += vec2<f32>(1.0); *m *= *m; }", "var $v = vec3<f32>(1.0); var $m = mat2x2<f32>(); $f(&$v, &$m);"),
		fc("stmt-compound-struct-member-self", "struct $S { pos: vec4<f32>, m: mat4x4<f32> }", "var $s: $S; $s.pos /= $s.m * $s.pos; $s.pos *= $s.pos.w; $s.m *= $s.m;"),
		fc("stmt-compound-mixed-types", "", "var $v = vec3<f32>(); $v *= mat3x3<f32>(); $v += 1.0; $v *= 2; var $f = 1.0; $f *= $v;"),
		fc("stmt-var-forms", "", "var $a: i32; var $b = 1u; var $c: f32 = 1; var<function> $d: bool = true; let $e: vec2<f32> = vec2(1); const $f: u32 = 7; const $g = vec3(1, 2, 3).y;"),
		fc("stmt-var-no-type-no-init", "", "var $a; let $b; const $c;"),
		fc("stmt-let-no-init", "", "let $b: i32;"),
		fc("stmt-const-runtime-init", sb, "const $c = $o[0];"),
		fc("stmt-let-type-mismatch", "", "let $a: i32 = 1.5; let $b: u32 = -1; let $c: f32 = 1u; let $d: vec2<f32> = vec3<f32>(1.0); var $e: bool = 1;"),
		fc("stmt-let-abstract-overflow", "", "let $a: i32 = 2147483648; let $b: u32 = 4294967296; let $c = 9223372036854775807; let $d: f32 = 1e39; let $e = 3.5e38 * 10.0;"),
		fc("stmt-var-shadows", "var<private> $g: i32;", "let $g = 1.0; { var $g = true; { let $g = vec2<u32>(); } }"),
		fc("stmt-var-of-void", "fn $v() {}", "var $a = $v(); let $b: i32 = $v();"),
		fc("stmt-use-before-decl", "", "$a = 1; var $a = 2; let $b = $b;"),
		fc("stmt-return-in-entry", "", "return;"),
		fc("stmt-return-value-in-entry", "", "return 1;"),
		ff("stmt-discard-forms", "fn $h(a: f32) { if a > 0.0 { discard; } }", "$h(1.0); if false { discard; } loop { discard; }"),
		fc("stmt-discard-in-compute", "", "discard;"),
		fc("stmt-call-forms", "fn $g(a: i32, b: f32) -> i32 { return a; }", "_ = $g(1, 2.0); _ = $g(1, 2); _ = $g(1u, 2.0); _ = $g(1, 2.0,); _ = $g(b: 2.0, a: 1);"),
		fc("stmt-call-templated", "fn $g() {}", "$g<i32>(); $g<>();"),
		fc("stmt-expression-statement", "", "1 + 2; $nope; (1);"),
		fc("stmt-static-assert-old", "", "static_assert true;"),
		fc("stmt-unbalanced-close", "", "} {"),
		fc("stmt-unbalanced-paren", "", "let $a = (1 + 2;"),
	}
}

func c10FeatExpressions() []c10Feat {
	sb := "@group(%G) @binding(0) var<storage, read_write> $o: array<i32>;"
	return []c10Feat{
		fc("expr-int-literal-edges", "", "let $a = -2147483648; let $b: i32 = -2147483648; let $c = 2147483647i; let $d = 4294967295u; let $e = 0x7fffffff; let $f = 0xFFFFFFFFu; let $g = 0x80000000; let $h = -0x80000000; let $i = 0u; let $j = -0; let $k = 00; let $l = 0x; let $m = 1i32;"),
		fc("expr-int-literal-overflow", "", "let $a = 2147483648i; let $b = 4294967296u; let $c = 99999999999999999999; let $d = -1u; let $e = 0xFFFFFFFFFFFFFFFFF;"),
		fc("expr-float-literal-edges", "", "let $a = 1e38f; let $b = 3.4028235e38; let $c = 1e-45f; let $d = 0x1p127f; let $e = 0x1.fffffep127; let $f = 0x1p-149; let $g = .5; let $h = 5.; let $i = 1e+5; let $j = 0x.8p1; let $k = 1f; let $l = 0f; let $m = 1.0e0f; let $n = 0x1P+4; let $p = -0.0;"),
		fc("expr-float-literal-overflow", "", "let $a = 1e39f; let $b = 1e400; let $c = 0x1p128f; let $d = 0x1p1024; let $e = 1e-400; let $f = 1e99999999999; let $g = 0x1p99999999999; let $h = 65505.0h; let $i = 1e; let $j = 0x1p; let $k = 1.2.3; let $l = 1e5e5;"),
		fc("expr-const-div-zero", "", "let $a = 1 / 0; let $b = 1 % 0; let $c = 1u / 0u; let $d = 1.0 / 0.0; let $e = 1.0 % 0.0; let $f = vec2<i32>(1, 2) / vec2<i32>(1, 0); const $g = 1 / (1 - 1);"),
		fc("expr-const-overflow", "", "let $a = 2147483647 + 1; let $b = i32(2147483647) + 1; let $c = -2147483648 / -1; let $d = i32(-2147483648) / -1; let $e = i32(-2147483648) % -1; let $f = 65536 * 65536; let $g = 0u - 1u; let $h = -(-2147483648); let $i = abs(i32(-2147483648)); let $j = 3.0e38f * 10.0f; let $k = 9223372036854775807 + 1; let $l = -9223372036854775807 - 2;"),
		fc("expr-const-shift", "", "let $a = 1 << 31u; let $b = 1 << 32u; let $c = 1u << 32u; let $d = 1i << 31u; let $e = 1 << 63u; let $f = 1 << 64u; let $g = 1 >> 100u; let $h = -1 >> 31u; let $i = 1 << -1; let $j = 1u << 1; let $k = 1u << 4294967295u; let $l = vec2<u32>(1u) << vec2<u32>(33u); let $m = 1 << 1.0;"),
		fc("expr-runtime-div-shift", sb, "let $x = $o[0]; let $u = u32($x); $o[1] = $x / $o[2] + $x % $o[3] + ($x << $u) + ($x >> 33u) + $x / 0 + $x % 0 + i32($u / 0u) + (-2147483647 - 1) / $x;"),
		fc("expr-conversions", sb, "let $x = $o[0]; let $f = f32($x); _ = i32($f) + i32(true) + i32(1e20) + i32(u32($x)); _ = u32(-1.0) + u32($f) + u32(-1) ; _ = bool($x) && bool($f) && bool(0u); _ = f32(1u) + f32(false); _ = vec3<i32>(vec3<f32>($f)) + vec3<i32>(vec3<bool>(true)); _ = i32(); _ = vec2<f32>(); _ = bool(); _ = mat2x2<f32>();"),
		fc("expr-conversions-bad", "", "_ = i32(1, 2); _ = f32(vec2<f32>()); _ = vec2<f32>(1.0, 2.0, 3.0); _ = vec3<f32>(vec2<f32>()); _ = vec4<f32>(vec2<f32>(), 1.0); _ = mat2x2<f32>(1.0); _ = mat2x2<i32>(); _ = i32(\"s\"); _ = vec2<vec2<f32>>(); _ = vec5<f32>(); _ = vec2<f32, f32>(); _ = vec2<>(); _ = mat2x2<>(); _ = mat5x5<f32>(); _ = vec2<bogus>();"),
		fc("expr-bitcast", sb, "let $x = $o[0]; _ = bitcast<f32>($x); _ = bitcast<u32>($x); _ = bitcast<i32>($x); _ = bitcast<vec2<f32>>(vec2<i32>($x)); _ = bitcast<u32>(1.5); _ = bitcast<f32>(0x7fc00000); _ = bitcast<f32>(0x7f800000u); _ = bitcast<i32>(4294967295u);"),
		fc("expr-bitcast-bad", "", "_ = bitcast<vec2<f32>>(1); _ = bitcast<bool>(1); _ = bitcast<f32>(true); _ = bitcast(1); _ = bitcast<>(1); _ = bitcast<f32>(); _ = bitcast<f32>(1, 2); _ = bitcast<f32, i32>(1); _ = bitcast<$Nope>(1); _ = bitcast<vec3<f32>>(vec2<f32>());"),
		fc("expr-constructors", "", "_ = vec2(1, 2); _ = vec3(1.0, 2, 3u); _ = vec4(vec2(1), vec2(2.0)); _ = vec4<f32>(1.0, vec2<f32>(2.0), 3.0); _ = vec3<f32>(vec2<f32>(1.0), 3.0); _ = vec3<f32>(1.0, vec2<f32>(1.0)); _ = mat2x2(1.0, 2.0, 3.0, 4.0); _ = mat2x3<f32>(vec3<f32>(), vec3<f32>()); _ = mat3x2(vec2(1.0), vec2(2.0), vec2(3.0)); _ = mat4x4<f32>(mat4x4<f32>()); _ = mat2x2(mat2x2<f32>()); _ = vec2<bool>(true, false); _ = vec3<u32>(vec3<i32>(1)); _ = vec2f(1.0); _ = vec3i(); _ = vec4u(1u); _ = mat3x3f();"),
		fc("expr-matrix-ops", "", "var $m = mat3x3<f32>(); var $n = mat2x3<f32>(); var $v = vec3<f32>(1.0); _ = $m * $v; _ = $v * $m; _ = $m * $m; _ = $m * transpose($n) ; _ = $n * vec2<f32>(1.0); _ = $m + $m; _ = $m - $m; _ = -$m; _ = $m * 2.0; _ = 2.0 * $m; _ = determinant($m); _ = transpose($n)[1]; _ = $m[2][1]; _ = $m[1].zyx;"),
		fc("expr-matrix-ops-bad", "", "var $m = mat3x3<f32>(); var $n = mat2x3<f32>(); _ = $m * $n; _ = $m / $m; _ = $m + 1.0; _ = $m == $m; _ = $m % $m; _ = $n * vec3<f32>(); _ = !$m; _ = $m[3]; _ = $m[0][3]; _ = $m.x; _ = determinant($n); _ = $m & $m;"),
		fc("expr-vector-index", sb, "var $v = vec4<f32>(1.0); let $i = $o[0]; _ = $v[0]; _ = $v[3]; _ = $v[$i]; _ = $v[u32($i)]; let $w = vec3<i32>(1); _ = $w[$i]; _ = vec2<f32>(1.0)[1]; _ = vec2<f32>(1.0)[$i];"),
		fc("expr-vector-index-oob", "", "var $v = vec4<f32>(1.0); _ = $v[4]; _ = $v[-1]; _ = $v[4294967295u]; _ = $v[2147483648]; let $w = vec2<i32>(1); _ = $w[2]; _ = vec3<f32>(1.0)[3]; $v[4] = 1.0; _ = $v[1][0];"),
		fc("expr-select", sb, "let $c = $o[0] > 0; _ = select(1, 2, $c); _ = select(vec2<f32>(1.0), vec2<f32>(2.0), $c); _ = select(vec3<i32>(1), vec3<i32>(2), vec3<bool>($c)); _ = select(1.0, 2, true); _ = select(1u, 2u, vec2<bool>(true)); _ = select(1, 2.0, 1);"),
		fc("expr-logical", sb, "let $a = $o[0] > 0; let $b = $o[1] < 0; _ = $a && $b || !$a; _ = $a & $b | $a; _ = ($a || $b) && ($a != $b); _ = all(vec2<bool>($a, $b)) || any(vec3<bool>($a)); _ = !vec2<bool>($a, $b); _ = $a && 1; _ = 1 || $b; _ = $a & vec2<bool>($b);"),
		fc("expr-short-circuit-side-effects", "fn $g(p: ptr<function, i32>) -> bool { *p += 1; return *p > 2; }", "var $x = 0; if $g(&$x) && $g(&$x) || $g(&$x) { $x = 0; } let $r = $g(&$x) && ($g(&$x) || $g(&$x));"),
		fc("expr-comparison-chain", "", "let $a = 1 < 2 < 3; let $b = 1 == 2 == true; let $c = 1 < 2 > 3;"),
		fc("expr-template-ambiguity", "", "let $a = 1; let $b = 2; let $c = 3; _ = $a < $b; _ = $a<$b>($c); _ = $a < $b > $c; _ = vec2<i32>(1) < vec2<i32>(2); _ = ($a < $b) == ($c > $b); _ = array<i32, 2>(1, 2)[0] < 3; _ = $a >> $b; _ = array<vec2<i32>,2>()[0].x >= 1; var $d = 1; $d >>= 1u; _ = $a<$b, $c>(1);"),
		fc("expr-precedence-mix", "", "let $a = 1; let $b = 2; _ = $a + $b << 1u; _ = $a & $b == 1; _ = $a | $b & $a ^ $b; _ = $a < $b == true; _ = -$a * -$b; _ = - - $a; _ = !!true; _ = ~~$a; _ = -~$a; _ = $a-- $b; _ = $a - -$b; _ = $a &&& $b;"),
		fc("expr-unary-bad", "", "_ = -true; _ = !1; _ = ~1.0; _ = -vec2<bool>(true); _ = !vec2<f32>(); _ = -1u; _ = ~true; _ = - ; _ = +1;"),
		fc("expr-binary-type-mismatch", "", "_ = 1i + 1u; _ = 1.0f + 1i; _ = true + true; _ = vec2<f32>() + vec3<f32>(); _ = vec2<i32>() * 1.0; _ = 1 && 2; _ = 1.5 & 2.5; _ = 1.0 << 1u; _ = vec2<f32>() < 1.0; _ = true < false; _ = 1 % 1.5f; _ = \"a\" + 1;"),
		fc("expr-abstract-materialise", "", "let $a = 1 + 1.0; let $b = 1 + 1u; let $c = 1.0 + 1f; let $d = vec2(1, 2) + vec2(1.0); let $e = array(1, 2.0); var $f = 1; $f = 2; let $g: f32 = 1; let $h: u32 = 1; let $i = 1 / 2; let $j = 1 / 2.0; let $k = max(1, 2.0); let $l = clamp(1, 0.0, 2u);"),
		fc("expr-deep-parens", "", "let $a = "+strings.Repeat("(", 64)+"1"+strings.Repeat(")", 64)+";"),
		fc("expr-deep-unary", "", "let $a = "+strings.Repeat("-", 64)+"1; let $b = "+strings.Repeat("!", 64)+"true;"),
		fc("expr-long-chain", sb, "let $x = $o[0]; $o[1] = $x"+strings.Repeat(" + $x", 200)+";"),
		fc("expr-string-literal", "", "let $a = \"hello\"; let $b = 'c';"),
		fc("expr-member-on-call", "struct $S { a: vec3<f32> }\nfn $f() -> $S { return $S(); }\nfn $g() -> array<$S, 2> { return array<$S, 2>(); }", "_ = $f().a.y; _ = $g()[1].a.zx; _ = $f().a[2]; _ = $S().a; _ = $S(vec3<f32>(1.0)).a.xx.y;"),
		fc("expr-builtin-math", sb, "let $f = f32($o[0]); let $v = vec3<f32>($f); _ = sin($f) + cos($f) + tan($f) + asin($f) + acos($f) + atan($f) + atan2($f, $f) + sinh($f) + cosh($f) + tanh($f) + asinh($f) + acosh($f) + atanh($f) + exp($f) + exp2($f) + log($f) + log2($f) + pow($f, $f) + sqrt($f) + inverseSqrt($f) + abs($f) + sign($f) + floor($f) + ceil($f) + round($f) + trunc($f) + fract($f) + saturate($f) + degrees($f) + radians($f) + fma($f, $f, $f) + mix($f, $f, $f) + step($f, $f) + smoothstep($f, $f, $f) + clamp($f, 0.0, 1.0) + min($f, $f) + max($f, $f) + length($v) + distance($v, $v) + dot($v, $v) + quantizeToF16($f) + ldexp($f, 2) + frexp($f).fract + modf($f).whole; _ = cross($v, $v) + normalize($v) + reflect($v, $v) + refract($v, $v, $f) + faceForward($v, $v, $v) + mix($v, $v, $f) + frexp($v).fract + modf($v).fract;"),
		fc("expr-builtin-int", sb, "let $i = $o[0]; let $u = u32($i); let $v = vec2<u32>($u); _ = countOneBits($i) + countLeadingZeros($i) + countTrailingZeros($i) + firstLeadingBit($i) + firstTrailingBit($i) + reverseBits($i) + extractBits($i, 1u, 2u) + insertBits($i, $i, 3u, 4u) + abs($i) + sign($i) + clamp($i, 0, 1) + min($i, 1) + max($i, 1) + dot(vec2<i32>($i), vec2<i32>($i)); _ = firstLeadingBit($v) + extractBits($v, 31u, 31u) + insertBits($v, $v, 40u, 40u) + countOneBits($v); _ = pack4x8snorm(vec4<f32>()) + pack4x8unorm(vec4<f32>()) + pack2x16snorm(vec2<f32>()) + pack2x16unorm(vec2<f32>()) + pack2x16float(vec2<f32>()) + pack4xI8(vec4<i32>()) + pack4xU8(vec4<u32>()) + pack4xI8Clamp(vec4<i32>()) + pack4xU8Clamp(vec4<u32>()) + dot4U8Packed($u, $u) + u32(dot4I8Packed($u, $u)); _ = unpack4x8snorm($u) + unpack4x8unorm($u); _ = unpack2x16snorm($u) + unpack2x16unorm($u) + unpack2x16float($u); _ = unpack4xI8($u); _ = unpack4xU8($u);"),
		fc("expr-builtin-const-eval", "const $a = sqrt(4.0) + pow(2.0, 3.0) + f32(countOneBits(7) + firstLeadingBit(-1) + extractBits(255, 2u, 3u)) + length(vec2(3.0, 4.0)) + dot(vec3(1.0), vec3(2.0)) + clamp(5.0, 0.0, 1.0) + select(1.0, 2.0, true) + mix(1.0, 2.0, 0.5) + f32(pack4x8unorm(vec4(1.0))) + unpack2x16float(15360u).x + modf(1.5).fract + frexp(8.0).fract;\nconst $b = sqrt(-1.0);\nconst $c = log(0.0);\nconst $d = pow(0.0, -1.0);\nconst $e = acos(2.0);\nconst $f = extractBits(1, 33u, 40u);\nconst $g = ldexp(1.0, 2000);\nconst $h = clamp(1, 3, 2);\nconst $i = smoothstep(1.0, 1.0, 1.0);\nconst $j = normalize(vec3(0.0));", "_ = $a + $b + $c + $d + $e + f32($f) + $g + f32($h) + $i + $j.x;"),
		fc("expr-builtin-wrong-args", "", "_ = sin(); _ = sin(1); _ = sin(1, 2); _ = sin(true); _ = dot(1.0, 2.0); _ = cross(vec2<f32>(), vec2<f32>()); _ = length(); _ = clamp(1); _ = select(1, 2); _ = min(1); _ = abs(); _ = frexp(); _ = modf(1); _ = pow(1.0); _ = all(1); _ = any(); _ = arrayLength(); _ = arrayLength(1); _ = determinant(1.0); _ = transpose(vec2<f32>()); _ = pack4x8unorm(1.0); _ = unpack4x8unorm(); _ = extractBits(1); _ = insertBits(1, 2); _ = ldexp(1.0); _ = fma(1.0, 2.0);"),
		fc("expr-builtin-as-value", "", "let $a = sin; let $b = max; _ = textureSample; _ = atomicAdd;"),
		fc("expr-builtin-templated", "", "_ = sin<f32>(1.0); _ = max<i32>(1, 2); _ = vec2<f32><f32>(1.0);"),
		fc("expr-frexp-modf-struct", sb, "let $f = f32($o[0]); let $r = frexp($f); let $m = modf(vec2<f32>($f)); var $s = frexp(1.5); $s = frexp(2.5); $o[0] = $r.exp + i32($m.whole.y) + $s.exp; let $t: __frexp_result_f32 = frexp(1.0);"),
	}
}

// every address space x every type kind, valid and invalid pairs alike
func c10FeatSpaces() []c10Feat {
	type kind struct{ name, pre, ty, use string }
	kinds := []kind{
		{"i32", "", "i32", "_ = $v;"},
		{"bool", "", "bool", "_ = $v;"},
		{"f16", "", "f16", "_ = $v;"},
		{"vec3f", "", "vec3<f32>", "_ = $v.y;"},
		{"vec2bool", "", "vec2<bool>", "_ = $v.y;"},
		{"mat2x2", "", "mat2x2<f32>", "_ = $v[1].x;"},
		{"mat3x3", "", "mat3x3<f32>", "_ = $v[2][1];"},
		{"array4", "", "array<i32, 4>", "_ = $v[1];"},
		{"array-vec3", "", "array<vec3<f32>, 2>", "_ = $v[1].z;"},
		{"array-runtime", "", "array<i32>", "_ = $v[0];"},
		{"struct", "struct $T { a: i32, b: vec3<f32>, c: array<f32, 2> }\n", "$T", "_ = $v.c[1] + $v.b.x;"},
		{"struct-runtime-last", "struct $T { a: i32, b: array<f32> }\n", "$T", "_ = $v.b[0];"},
		{"struct-runtime-not-last", "struct $T { b: array<f32>, a: i32 }\n", "$T", "_ = $v.a;"},
		{"struct-empty", "struct $T {}\n", "$T", "let $x = $v;"},
		{"struct-bool", "struct $T { a: bool }\n", "$T", "_ = $v.a;"},
		{"struct-nested-atomic", "struct $I { a: atomic<u32> }\nstruct $T { i: array<$I, 2> }\n", "$T", "_ = atomicLoad(&$v.i[1].a);"},
		{"atomic", "", "atomic<u32>", "_ = atomicAdd(&$v, 1u);"},
		{"array-atomic", "", "array<atomic<i32>, 2>", "_ = atomicLoad(&$v[1]);"},
		{"ptr", "", "ptr<function, i32>", "_ = *$v;"},
		{"texture", "", "texture_2d<f32>", "_ = textureDimensions($v);"},
		{"sampler", "", "sampler", ""},
		{"storage-texture", "", "texture_storage_2d<rgba8unorm, write>", "textureStore($v, vec2<i32>(0), vec4<f32>(1.0));"},
		{"unknown-type", "", "$Nope", "_ = $v;"},
	}
	spaces := []struct{ name, decl string }{
		{"private", "var<private> $v: %T;"},
		{"workgroup", "var<workgroup> $v: %T;"},
		{"uniform", "@group(%G) @binding(0) var<uniform> $v: %T;"},
		{"storage-read", "@group(%G) @binding(0) var<storage> $v: %T;"},
		{"storage-rw", "@group(%G) @binding(0) var<storage, read_write> $v: %T;"},
		{"handle", "@group(%G) @binding(0) var $v: %T;"},
		{"push-constant", "var<push_constant> $v: %T;"},
		{"function", ""},
		{"param", ""},
		{"let", ""},
	}
	var out []c10Feat
	for _, k := range kinds {
		for _, s := range spaces {
			var f c10Feat
			switch s.name {
			case "function":
				f = fc("space-function-"+k.name, strings.TrimSuffix(k.pre, "\n"), "var $v: "+k.ty+"; "+k.use)
			case "param":
				f = fc("space-param-"+k.name, k.pre+"fn $f($v: "+k.ty+") { "+k.use+" }", "")
			case "let":
				f = fc("space-let-"+k.name, k.pre+"fn $f() -> "+k.ty+" { var r: "+k.ty+"; return r; }", "let $v = $f(); "+k.use)
			default:
				f = fc("space-"+s.name+"-"+k.name, k.pre+strings.ReplaceAll(s.decl, "%T", k.ty), k.use)
			}
			out = append(out, f)
		}
	}
	return out
}

// texture / sampler / storage-texture variables of every kind: unused, used, passed to a helper
func c10FeatTextures() []c10Feat {
	type tk struct{ name, ty, use string }
	c2 := "vec2<i32>(0)"
	kinds := []tk{
		{"1d", "texture_1d<f32>", "textureLoad(%t, 0, 0) + vec4<f32>(f32(textureDimensions(%t)))"},
		{"2d", "texture_2d<f32>", "textureLoad(%t, " + c2 + ", 0) + textureSampleLevel(%t, %s, vec2<f32>(0.5), 0.0) + vec4<f32>(f32(textureNumLevels(%t)))"},
		{"2d-array", "texture_2d_array<f32>", "textureLoad(%t, " + c2 + ", 0, 0) + textureSampleLevel(%t, %s, vec2<f32>(0.5), 1, 0.0) + vec4<f32>(f32(textureNumLayers(%t)))"},
		{"3d", "texture_3d<f32>", "textureLoad(%t, vec3<i32>(0), 0) + textureSampleLevel(%t, %s, vec3<f32>(0.5), 0.0)"},
		{"cube", "texture_cube<f32>", "textureSampleLevel(%t, %s, vec3<f32>(0.5), 0.0) + vec4<f32>(vec2<f32>(textureDimensions(%t)), 0.0, 0.0)"},
		{"cube-array", "texture_cube_array<f32>", "textureSampleLevel(%t, %s, vec3<f32>(0.5), 1, 0.0)"},
		{"2d-i32", "texture_2d<i32>", "vec4<f32>(textureLoad(%t, " + c2 + ", 0))"},
		{"2d-u32", "texture_2d<u32>", "vec4<f32>(textureLoad(%t, " + c2 + ", 0)) + vec4<f32>(textureGather(1, %t, %s, vec2<f32>(0.5)))"},
		{"ms", "texture_multisampled_2d<f32>", "textureLoad(%t, " + c2 + ", 1) + vec4<f32>(f32(textureNumSamples(%t)))"},
		{"depth-2d", "texture_depth_2d", "vec4<f32>(textureLoad(%t, " + c2 + ", 0) + textureSampleCompareLevel(%t, %c, vec2<f32>(0.5), 0.5) + textureSampleLevel(%t, %s, vec2<f32>(0.5), 0)) + textureGatherCompare(%t, %c, vec2<f32>(0.5), 0.5)"},
		{"depth-2d-array", "texture_depth_2d_array", "vec4<f32>(textureSampleCompareLevel(%t, %c, vec2<f32>(0.5), 1, 0.5)) + textureGather(%t, %s, vec2<f32>(0.5), 0)"},
		{"depth-cube", "texture_depth_cube", "vec4<f32>(textureSampleCompareLevel(%t, %c, vec3<f32>(0.5), 0.5))"},
		{"depth-cube-array", "texture_depth_cube_array", "vec4<f32>(textureSampleCompareLevel(%t, %c, vec3<f32>(0.5), 1, 0.5))"},
		{"depth-ms", "texture_depth_multisampled_2d", "vec4<f32>(textureLoad(%t, " + c2 + ", 1))"},
		{"storage-1d-write", "texture_storage_1d<rgba8unorm, write>", "vec4<f32>(f32(textureDimensions(%t))); textureStore(%t, 0, vec4<f32>(1.0))"},
		{"storage-2d-write", "texture_storage_2d<rgba16float, write>", "vec4<f32>(0.0); textureStore(%t, " + c2 + ", vec4<f32>(1.0))"},
		{"storage-2d-read", "texture_storage_2d<r32float, read>", "textureLoad(%t, " + c2 + ")"},
		{"storage-2d-rw", "texture_storage_2d<r32uint, read_write>", "vec4<f32>(textureLoad(%t, " + c2 + ")); textureStore(%t, " + c2 + ", vec4<u32>(1u))"},
		{"storage-2d-array-write", "texture_storage_2d_array<rgba32sint, write>", "vec4<f32>(0.0); textureStore(%t, " + c2 + ", 1, vec4<i32>(1))"},
		{"storage-3d-write", "texture_storage_3d<rgba32float, write>", "vec4<f32>(0.0); textureStore(%t, vec3<i32>(0), vec4<f32>(1.0))"},
		{"storage-bgra", "texture_storage_2d<bgra8unorm, write>", "vec4<f32>(0.0); textureStore(%t, " + c2 + ", vec4<f32>(1.0))"},
		{"storage-bad-format", "texture_storage_2d<bogus, write>", "vec4<f32>(0.0); textureStore(%t, " + c2 + ", vec4<f32>(1.0))"},
		{"storage-no-access", "texture_storage_2d<rgba8unorm>", "vec4<f32>(0.0); textureStore(%t, " + c2 + ", vec4<f32>(1.0))"},
		{"storage-no-args", "texture_storage_2d", "vec4<f32>(0.0)"},
		{"external", "texture_external", "textureLoad(%t, " + c2 + ") + textureSampleBaseClampToEdge(%t, %s, vec2<f32>(0.5))"},
		{"2d-no-args", "texture_2d", "vec4<f32>(0.0)"},
		{"2d-bad-sample-type", "texture_2d<bool>", "vec4<f32>(0.0)"},
		{"2d-vec-sample-type", "texture_2d<vec4<f32>>", "vec4<f32>(0.0)"},
		{"2d-two-args", "texture_2d<f32, f32>", "vec4<f32>(0.0)"},
		{"depth-with-args", "texture_depth_2d<f32>", "vec4<f32>(0.0)"},
		{"ms-i32", "texture_multisampled_2d<i32>", "vec4<f32>(textureLoad(%t, " + c2 + ", 0))"},
	}
	var out []c10Feat
	for _, k := range kinds {
		decl := "@group(%G) @binding(0) var $t: " + k.ty + ";\n@group(%G) @binding(1) var $s: sampler;\n@group(%G) @binding(2) var $c: sampler_comparison;"
		r := strings.NewReplacer("%t", "$t", "%s", "$s", "%c", "$c")
		use := "var $r = " + r.Replace(k.use) + ";"
		out = append(out, fc("tex-"+k.name+"-unused", decl, ""))
		u := fc("tex-"+k.name+"-used", decl, use)
		// helper taking the texture (and both samplers) as parameters
		rp := strings.NewReplacer("%t", "t", "%s", "s", "%c", "c")
		h := fc("tex-"+k.name+"-helper", decl+"\nfn $h(t: "+k.ty+", s: sampler, c: sampler_comparison) -> vec4<f32> { var r = "+rp.Replace(k.use)+"; return r; }\nfn $h2(t: "+k.ty+", s: sampler, c: sampler_comparison) -> vec4<f32> { return $h(t, s, c); }", "_ = $h2($t, $s, $c);")
		out = append(out, u, h)
	}
	// implicit-derivative sampling and sampler kinds, fragment stage
	fr := "@group(%G) @binding(0) var $t: texture_2d<f32>;\n@group(%G) @binding(1) var $s: sampler;\n@group(%G) @binding(2) var $d: texture_depth_2d;\n@group(%G) @binding(3) var $c: sampler_comparison;"
	out = append(out,
		ff("tex-sample-implicit", fr, "_ = textureSample($t, $s, vec2<f32>(0.5)) + textureSampleBias($t, $s, vec2<f32>(0.5), 1.0) + textureSampleGrad($t, $s, vec2<f32>(0.5), vec2<f32>(0.1), vec2<f32>(0.1)) + vec4<f32>(textureSampleCompare($d, $c, vec2<f32>(0.5), 0.5)) + textureSample($t, $s, vec2<f32>(0.5), vec2<i32>(1, -1)) + textureGather(2, $t, $s, vec2<f32>(0.5), vec2<i32>(1));"),
		fc("tex-sample-implicit-in-compute", fr, "_ = textureSample($t, $s, vec2<f32>(0.5));"),
		ff("tex-sample-wrong-sampler", fr, "_ = textureSample($t, $c, vec2<f32>(0.5)); _ = textureSampleCompare($d, $s, vec2<f32>(0.5), 0.5); _ = textureSample($s, $t, vec2<f32>(0.5)); _ = textureSample($t, $t, vec2<f32>(0.5));"),
		ff("tex-sample-too-few-args", fr, "_ = textureSample($t, $s); _ = textureSample($t); _ = textureSample(); _ = textureLoad($t); _ = textureSampleLevel($t, $s, vec2<f32>(0.5)); _ = textureSampleCompare($d, $c, vec2<f32>(0.5)); _ = textureGather($t, $s); _ = textureDimensions(); _ = textureSampleGrad($t, $s, vec2<f32>(0.5));"),
		ff("tex-sample-too-many-args", fr, "_ = textureSample($t, $s, vec2<f32>(0.5), vec2<i32>(0), 1, 2, 3); _ = textureLoad($t, vec2<i32>(0), 0, 0, 0); _ = textureDimensions($t, 0, 0);"),
		ff("tex-sample-wrong-coord", fr, "_ = textureSample($t, $s, 0.5); _ = textureSample($t, $s, vec3<f32>(0.5)); _ = textureSample($t, $s, vec2<i32>(0)); _ = textureLoad($t, vec2<f32>(0.0), 0); _ = textureLoad($t, 0, 0); _ = textureLoad($t, vec2<i32>(0), 0.5);"),
		ff("tex-sample-offset-runtime", fr+"\n@group(%G) @binding(4) var<uniform> $u: vec2<i32>;", "_ = textureSample($t, $s, vec2<f32>(0.5), $u); _ = textureSample($t, $s, vec2<f32>(0.5), vec2<i32>(100, -100));"),
		ff("tex-assign", fr, "var $x = $t; let $y = $s; $t = $t; var $z: texture_2d<f32>; let $w = array<sampler, 2>($s, $s);"),
		ff("tex-compare-arith", fr, "_ = $t == $t; _ = $s + $s; _ = -$t; _ = $t.x; _ = $s[0]; _ = $t();"),
		ff("tex-in-struct-ctor", "struct $S { a: i32 }\n"+fr, "_ = $S($t); _ = vec4<f32>($s); _ = f32($t); _ = array<i32, 1>($t);"),
		ff("tex-return-value", fr, "return $t;"),
		ff("tex-as-index", fr, "var $a = array<i32, 2>(); _ = $a[$t]; _ = $a[$s];"),
		fc("tex-store-readonly", "@group(%G) @binding(0) var $t: texture_2d<f32>;\n@group(%G) @binding(1) var $r: texture_storage_2d<r32float, read>;", "textureStore($t, vec2<i32>(0), vec4<f32>(1.0)); textureStore($r, vec2<i32>(0), vec4<f32>(1.0)); textureStore($r); textureStore();"),
		fc("tex-store-wrong-value", "@group(%G) @binding(0) var $w: texture_storage_2d<rgba8unorm, write>;\n@group(%G) @binding(1) var $u: texture_storage_2d<r32uint, write>;", "textureStore($w, vec2<i32>(0), vec4<u32>(1u)); textureStore($u, vec2<i32>(0), vec4<f32>(1.0)); textureStore($w, vec2<i32>(0), 1.0); textureStore($w, 0, vec4<f32>(1.0)); _ = textureLoad($w, vec2<i32>(0));"),
		fc("tex-sampler-only", "@group(%G) @binding(0) var $s: sampler;\n@group(%G) @binding(1) var $c: sampler_comparison;\nfn $h(s: sampler, c: sampler_comparison) {}", "$h($s, $c);"),
		fc("tex-sampler-templated", "@group(%G) @binding(0) var $s: sampler<f32>;", ""),
		fc("tex-helper-shared-by-two", "@group(%G) @binding(0) var $t1: texture_2d<f32>;\n@group(%G) @binding(1) var $t2: texture_2d<f32>;\n@group(%G) @binding(2) var $s1: sampler;\n@group(%G) @binding(3) var $s2: sampler;\nfn $h(t: texture_2d<f32>, s: sampler) -> vec4<f32> { return textureSampleLevel(t, s, vec2<f32>(0.5), 0.0); }", "_ = $h($t1, $s1) + $h($t2, $s2) + $h($t1, $s2);"),
		fc("tex-helper-recursive", "@group(%G) @binding(0) var $t: texture_2d<f32>;\nfn $h(t: texture_2d<f32>, n: i32) -> vec4<f32> { if n <= 0 { return textureLoad(t, vec2<i32>(0), 0); } return $h(t, n - 1); }", "_ = $h($t, 2);"),
		fc("tex-helper-wrong-kind", "@group(%G) @binding(0) var $t: texture_3d<f32>;\n@group(%G) @binding(1) var $s: sampler;\nfn $h(t: texture_2d<f32>, s: sampler_comparison) {}", "$h($t, $s);"),
		fc("tex-private", "var<private> $t: texture_2d<f32>;\nvar<private> $s: sampler;", "_ = textureDimensions($t);"),
		fc("tex-function-var", "", "var $t: texture_2d<f32>; var $s: sampler; _ = textureDimensions($t);"),
		fc("tex-in-array", "@group(%G) @binding(0) var $t: array<texture_2d<f32>, 2>;", "_ = textureDimensions($t[0]);"),
	)
	return out
}

// swizzles of every length 1..6 on every vector width (in-range letters repeated cyclically); the full
// letter-pattern x base-expression space is the "constructs" generator
func c10FeatSwizzles() []c10Feat {
	var out []c10Feat
	for w := 2; w <= 4; w++ {
		for l := 1; l <= 6; l++ {
			sw := ""
			for i := 0; i < l; i++ {
				sw += string("xyzw"[i%w])
			}
			f := fc(fmt.Sprintf("swizzle-vec%d-len%d", w, l), "", fmt.Sprintf("var $v = vec%d<f32>(1.0); let $r = $v.%s;", w, sw))
			out = append(out, f)
		}
	}
	return out
}

// derivative / barrier / atomic / subgroup / quad / discard builtins in every stage
func c10FeatStageBuiltins() []c10Feat {
	groups := []struct{ name, decl, use string }{
		{"derivatives", "", "let $f = 1.5; _ = dpdx($f) + dpdy($f) + fwidth($f) + dpdxCoarse($f) + dpdyCoarse($f) + fwidthCoarse($f) + dpdxFine($f) + dpdyFine($f) + fwidthFine($f); _ = dpdx(vec3<f32>($f)) + fwidth(vec3<f32>($f));"},
		{"derivatives-bad-args", "", "_ = dpdx(1); _ = dpdx(); _ = dpdx(1.0, 2.0); _ = fwidth(true); _ = dpdy(vec2<i32>());"},
		{"barriers", "", "workgroupBarrier(); storageBarrier(); textureBarrier();"},
		{"barriers-bad-args", "", "workgroupBarrier(1); _ = storageBarrier(); let $x = workgroupBarrier();"},
		{"workgroup-uniform-load", "var<workgroup> $w: u32;\nvar<workgroup> $wa: array<vec2<f32>, 2>;\nvar<workgroup> $at: atomic<u32>;", "_ = workgroupUniformLoad(&$w); _ = workgroupUniformLoad(&$wa)[1].x; _ = workgroupUniformLoad(&$at);"},
		{"workgroup-uniform-load-bad", "var<private> $p: u32;", "_ = workgroupUniformLoad(&$p); _ = workgroupUniformLoad($p); _ = workgroupUniformLoad();"},
		{"atomics-storage", "@group(%G) @binding(0) var<storage, read_write> $a: atomic<u32>;", "_ = atomicAdd(&$a, 1u); atomicStore(&$a, atomicLoad(&$a)); _ = atomicCompareExchangeWeak(&$a, 1u, 2u).old_value;"},
		{"atomics-workgroup", "var<workgroup> $a: atomic<i32>;", "_ = atomicMax(&$a, 1); _ = atomicExchange(&$a, 2);"},
		{"subgroup-ops", "", "let $u = 1u; let $f = 1.0; _ = subgroupAdd($u) + subgroupMul($u) + subgroupMin($u) + subgroupMax($u) + subgroupAnd($u) + subgroupOr($u) + subgroupXor($u) + subgroupExclusiveAdd($u) + subgroupInclusiveAdd($u) + subgroupExclusiveMul($u) + subgroupInclusiveMul($u) + subgroupBroadcastFirst($u) + subgroupBroadcast($u, 1u) + subgroupShuffle($u, 1u) + subgroupShuffleXor($u, 1u) + subgroupShuffleUp($u, 1u) + subgroupShuffleDown($u, 1u); _ = subgroupBallot(true); _ = subgroupElect(); _ = subgroupAll(true) && subgroupAny(false); _ = subgroupAdd(vec3<f32>($f));"},
		{"subgroup-ops-enabled", "enable subgroups;", "_ = subgroupAdd(1u); _ = subgroupBallot(true); _ = subgroupElect(); subgroupBarrier();"},
		{"subgroup-ops-bad-args", "", "_ = subgroupAdd(); _ = subgroupAdd(true); _ = subgroupBroadcast(1u); _ = subgroupBroadcast(1u, 1.0); _ = subgroupBallot(); _ = subgroupBallot(1); _ = subgroupShuffle(1u, 2u, 3u); _ = subgroupElect(1);"},
		{"quad-ops", "", "let $u = 1u; _ = quadBroadcast($u, 1u) + quadSwapX($u) + quadSwapY($u) + quadSwapDiagonal($u); _ = quadSwapX(vec2<f32>(1.0));"},
		{"quad-ops-bad-args", "", "_ = quadBroadcast(1u); _ = quadSwapX(); _ = quadSwapY(1u, 2u); _ = quadSwapDiagonal(true);"},
		{"discard", "", "if false { discard; }"},
		{"ray-query", "@group(%G) @binding(0) var $acc: acceleration_structure;", "var $rq: ray_query; rayQueryInitialize(&$rq, $acc, RayDesc(0u, 0xFFu, 0.1, 100.0, vec3<f32>(0.0), vec3<f32>(0.0, 1.0, 0.0))); loop { if !rayQueryProceed(&$rq) { break; } } let $i = rayQueryGetCommittedIntersection(&$rq); _ = $i.t;"},
	}
	stages := []struct {
		name string
		mk   func(name, decl, use string) c10Feat
	}{{"compute", fc}, {"fragment", ff}, {"vertex", fv}}
	var out []c10Feat
	for _, g := range groups {
		for _, s := range stages {
			f := s.mk("stage-"+s.name+"-"+g.name, g.decl, g.use)
			out = append(out, f)
		}
		// the same uses inside a helper called from the stage's entry point
		h := fc("stage-helper-"+g.name, g.decl+"\nfn $h() { "+g.use+" }", "$h();")
		h.Decl = strings.TrimPrefix(h.Decl, "\n")
		out = append(out, h)
	}
	return out
}
