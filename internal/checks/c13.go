package checks

import (
	"bytes"
	"fmt"
	"strings"

	"github.com/gogpu/naga/dxil"
	"github.com/gogpu/naga/ir"

	"verif/internal/explore"
	"verif/internal/irx"
	"verif/internal/nagax"
	"verif/internal/wgen"
	"verif/internal/xrt"
)

func init() {
	Registry["C13"] = runC13
	perProgram["C13"] = func(r *explore.Run, p *prog) { c13Program(r, p, 2, &c12Totals{}) }
}

type c13Pass struct {
	name     string
	ssa      bool // introduces SSA expression kinds (Alias/Phi)
	run      func(m *ir.Module) (*ir.Module, error)
	dxilOnly bool // a DXIL-internal pass (may run on SSA states)
}

func inPlace(f func(m *ir.Module)) func(m *ir.Module) (*ir.Module, error) {
	return func(m *ir.Module) (*ir.Module, error) { f(m); return m, nil }
}

func c13Passes() []c13Pass {
	return []c13Pass{
		{"CompactUnused", false, inPlace(ir.CompactUnused), false},
		{"CompactConstants", false, inPlace(ir.CompactConstants), false},
		{"CompactExpressions", false, inPlace(ir.CompactExpressions), false},
		{"CompactTypes", false, inPlace(ir.CompactTypes), false},
		{"ReorderTypes", false, inPlace(ir.ReorderTypes), false},
		{"DeduplicateEmits", false, inPlace(ir.DeduplicateEmits), false},
		{"InlineAll", false, func(m *ir.Module) (*ir.Module, error) {
			return m, ir.InlineUserFunctions(m, func(*ir.Function) bool { return true })
		}, false},
		{"InlineNone", false, func(m *ir.Module) (*ir.Module, error) {
			return m, ir.InlineUserFunctions(m, func(*ir.Function) bool { return false })
		}, false},
		{"sroa", false, inPlace(dxil.VerifSROA), true},
		{"mem2reg", true, func(m *ir.Module) (*ir.Module, error) { return m, dxil.VerifMem2Reg(m) }, true},
		{"dce", false, inPlace(dxil.VerifDCE), true},
		{"dxil-pipeline", true, func(m *ir.Module) (*ir.Module, error) {
			pm, err := dxil.VerifPrepareModule(m)
			if err != nil {
				return nil, err
			}
			return pm, dxil.VerifRunOptPasses(pm)
		}, true},
	}
}

func applyPass(p c13Pass, m *ir.Module) (out *ir.Module, err error, pn string) {
	defer func() {
		if r := recover(); r != nil {
			pn = fmt.Sprint(r)
		}
	}()
	out, err = p.run(m)
	return
}

// findingSet: IR-rule finding classes (rule + expression/statement kind mentioned in the detail).
func findingSet(rep *irx.Report) map[string]bool {
	s := map[string]bool{}
	for _, f := range rep.Findings {
		kind := ""
		if i := strings.Index(f.Detail, "(ir."); i >= 0 {
			if j := strings.Index(f.Detail[i:], ")"); j > 0 {
				kind = f.Detail[i+1 : i+j]
			}
		}
		s[f.Rule+":"+kind] = true
	}
	return s
}

// c13Exec runs a module on the case inputs with the IR interpreter.
func c13Exec(m *ir.Module, c *wgen.Case) (xrt.Buffers, error) {
	b := c.Bufs.Clone()
	err := irx.Exec(m, b, xrt.Opts{NumWorkgroups: c.Groups, StepLimit: 200_000 * int64(c.Groups[0])})
	return b, err
}

func bufsEqual(c *wgen.Case, a, b xrt.Buffers) bool {
	for _, k := range outBindings(c) {
		if !bytes.Equal(a[k], b[k]) {
			return false
		}
	}
	return true
}

// f2Shape returns the sorted set of compound-construct letters of an F2/F2L signature (b block, e if/else,
// f for, i if, l loop, q else-if chain, s switch, w while), prefixed by H when the tree contains a helper call
// statement, or "-" for a tree of other leaves only.
func f2Shape(sig string) string {
	p := strings.SplitN(sig, "/", 3)
	if len(p) < 3 {
		return "-"
	}
	var have [26]bool
	call := false
	for _, ch := range p[2] {
		if ch >= 'a' && ch <= 'z' {
			have[ch-'a'] = true
		}
		if ch == 'H' {
			call = true
		}
	}
	out := ""
	if call {
		out = "H" // the tree contains a helper call statement
	}
	for i, h := range have {
		if h {
			out += string(rune('a' + i))
		}
	}
	if out == "" {
		return "-"
	}
	return out
}

func c13Program(r *explore.Run, p *prog, depth int, tot *c12Totals) {
	c13ProgramOnly(r, p, depth, tot, nil)
}

// c13ProgramOnly restricts the transitions to the named passes (nil: all twelve).
func c13ProgramOnly(r *explore.Run, p *prog, depth int, tot *c12Totals, only map[string]bool) {
	c := p.Case
	if c == nil {
		return
	}
	m0, _, err, pn := nagax.Front(p.Src)
	if err != nil || pn != nil {
		r.Skip("front end rejected/panicked")
		return
	}
	base, berr := c13Exec(m0, c)
	if berr != nil {
		if cls, skip := failClass(berr); skip != "" || cls != "" {
			r.Skip("IR interpreter cannot run the unmodified module: " + cls + skip)
			return
		}
	}
	baseFindings := findingSet(irx.Validate(m0, irx.ValidateOpts{SkipNagaValidate: true}))
	passes := c13Passes()
	sc := strings.Join(strings.Split(p.Sig, "/")[:2], "/") // family + position / operator kind
	if strings.HasPrefix(p.Sig, "F2/") || strings.HasPrefix(p.Sig, "F2L/") {
		sc += "/" + f2Shape(p.Sig) // + the set of compound constructs in the tree
	}
	if strings.HasPrefix(p.Sig, "F13s/") {
		// wrapping + the set of operations in the sequence
		parts := strings.Split(p.Sig, "/")
		set := map[string]bool{}
		for _, o := range strings.Split(strings.TrimSuffix(parts[len(parts)-1], "."), ".") {
			set[o] = true
		}
		var ops []string
		for _, o := range []string{"cp", "pa", "ra", "rd", "sa", "sb", "sv", "wr"} {
			if set[o] {
				ops = append(ops, o)
			}
		}
		sc = parts[0] + "/" + parts[1] + "/" + strings.Join(ops, "+")
	}
	if strings.HasPrefix(p.Sig, "F1/") {
		sc = "F1/" + strings.Split(p.Sig, "/")[len(strings.Split(p.Sig, "/"))-1] // operand source (buf/let/var/fn/asg)
	}
	type state struct {
		mod      *ir.Module
		path     []string
		ssa      bool
		last     int
		findings map[string]bool // IR-rule finding classes of this state
		result   xrt.Buffers     // IR-interpreter result of this state (nil: does not execute)
	}
	h0 := irx.Hash(m0)
	seen := map[string]bool{h0: true}
	frontier := []state{{mod: m0, last: -1, findings: baseFindings, result: base}}
	nstates, ntrans := 1, 0
	for d := 0; d < depth && len(frontier) > 0; d++ {
		var next []state
		for _, st := range frontier {
			for pi, ps := range passes {
				if only != nil && !only[ps.name] {
					continue
				}
				if st.ssa && !ps.dxilOnly {
					// the exported ir.* passes are defined on modules without the DXIL-only SSA
					// expression kinds; they are not applied to states produced by mem2reg
					continue
				}
				ntrans++
				r.Count("evaluations", 1)
				in := irx.Clone(st.mod)
				hin := irx.Hash(in)
				out, err, pn := applyPass(ps, in)
				path := append(append([]string{}, st.path...), ps.name)
				pathS := strings.Join(path, ",")
				rp := p.replay()
				rp["passes"] = path
				if pn != "" {
					r.Violate(explore.Violation{Key: "C13|panic|" + ps.name + "|" + errClass(pn) + "|" + sc,
						Detail: fmt.Sprintf("pass sequence %s panics on %s: %s", pathS, p.Sig, pn), Replay: rp})
					continue
				}
				if err != nil {
					r.Violate(explore.Violation{Key: "C13|error|" + ps.name + "|" + errClass(err.Error()) + "|" + sc,
						Detail: fmt.Sprintf("pass sequence %s fails on valid module %s: %v", pathS, p.Sig, err), Replay: rp})
					continue
				}
				ssa := st.ssa || ps.ssa
				// (a) well-formedness: no finding class that the input module did not already have
				// (each transition is judged against its own input state, so a defect is attributed to
				// the pass that introduces it and not to every pass run afterwards)
				rep := irx.Validate(out, irx.ValidateOpts{AllowSSA: ssa, SkipNagaValidate: true})
				outFindings := findingSet(rep)
				if ssa {
					// On states that contain the DXIL-only SSA kinds (Alias/Phi) only the purely structural
					// rules are judged; typing and emit-discipline rules are defined for the pre-SSA IR.
					for k := range outFindings {
						rule := k[:strings.Index(k, ":")]
						switch rule {
						case "handle-range", "after-terminator", "return-paths", "return-type", "break-continue":
						default:
							delete(outFindings, k)
						}
					}
				}
				for k := range outFindings {
					if !st.findings[k] {
						r.Violate(explore.Violation{Key: "C13|ill-formed|" + ps.name + "|" + k + "|" + sc,
							Detail: fmt.Sprintf("after passes %s the module of %s breaks IR rule %s", pathS, p.Sig, k), Replay: rp})
					}
				}
				// (b) behaviour preserved on every input of the case
				got, eerr := c13Exec(out, c)
				if st.result == nil {
					// the input state already failed to execute: nothing to compare against
					if eerr != nil {
						got = nil
					}
				} else if eerr != nil {
					cls, skip := failClass(eerr)
					if skip == "" {
						r.Violate(explore.Violation{Key: "C13|behaviour|" + ps.name + "|" + cls + "|" + sc,
							Detail: fmt.Sprintf("after passes %s the module of %s no longer executes: %v", pathS, p.Sig, eerr), Replay: rp})
					} else {
						r.Skip(skip)
					}
					got = nil
				} else if !bufsEqual(c, st.result, got) {
					r.Violate(explore.Violation{Key: "C13|behaviour|" + ps.name + "|different-result|" + sc,
						Detail: fmt.Sprintf("after passes %s the module of %s computes a different result than before the last pass: %s", pathS, p.Sig, compareBufs(c, st.result, got)), Replay: rp})
				} else {
					for _, k := range outBindings(c) {
						r.DistinctBytes(got[k])
					}
				}
				// (c) idempotence: the same pass applied again is a self-loop
				hout := irx.Hash(out)
				again := irx.Clone(out)
				out2, err2, pn2 := applyPass(ps, again)
				if pn2 == "" && err2 == nil && irx.Hash(out2) != hout {
					r.Violate(explore.Violation{Key: "C13|not-idempotent|" + ps.name + "|" + sc,
						Detail: fmt.Sprintf("running %s twice (after %s) on %s gives a different module than running it once: %s", ps.name, strings.Join(st.path, ","), p.Sig, trunc(irx.Diff(out, out2), 300)), Replay: rp})
				}
				_ = hin
				if !seen[hout] {
					seen[hout] = true
					nstates++
					next = append(next, state{mod: out, path: path, ssa: ssa, last: pi, findings: outFindings, result: got})
				}
			}
		}
		frontier = next
	}
	tot.mu.Lock()
	tot.states += int64(nstates)
	tot.transitions += int64(ntrans)
	tot.traces += int64(ntrans)
	if nstates > tot.maxStates {
		tot.maxStates = nstates
	}
	tot.mu.Unlock()
}

func runC13() int {
	r := explore.New("C13")
	tot := &c12Totals{}
	depth := 2
	fams := []*wgen.Family{wgen.F2(2, false), wgen.F2L(2, false)}
	f1stride := 23
	if r.Thorough() {
		// larger families at the same depth; depth 3 is explored on the smallest trees only (below): the failure
		// classes of depth-3 sequences on the larger families are not triaged, and an untriaged class would be
		// reported as a violation on the unchanged tree
		fams = []*wgen.Family{wgen.F2(3, true), wgen.F2(2, false), wgen.F2L(3, true), wgen.F2L(2, false)}
		f1stride = 5
	}
	// F1 representatives (every f1stride-th program: helper-call and compound-assignment sources included)
	f1 := wgen.F1()
	sub := &wgen.Family{Name: "F1", Count: (f1.Count + f1stride - 1) / f1stride, At: func(i int) *wgen.Case { return f1.At(i * f1stride) }}
	fams = append(fams, sub)
	forEachProgram(r, fams, nil, func(p *prog) { c13Program(r, p, depth, tot) })
	if r.Thorough() {
		forEachProgram(r, []*wgen.Family{wgen.F2(1, false), wgen.F2L(1, false)}, nil, func(p *prog) { c13Program(r, p, 3, tot) })
	}
	// wide and shallow: each pass that rewrites function bodies (inliner, sroa, mem2reg, dce, the whole DXIL
	// pipeline) once (depth 1) on every tree of two reduced alphabets with a larger node budget, with
	// function-local accumulators: stores to promotable locals under deeper nesting of if/else/return and
	// of loop/break/continue
	wide := []*wgen.Family{wgen.F2LMini(4, 1), wgen.F2LMini(4, 2), wgen.F2LMini(3, 4), wgen.F13s(3)}
	if r.Thorough() {
		wide = []*wgen.Family{wgen.F2LMini(5, 1), wgen.F2LMini(5, 2), wgen.F2LMini(4, 4), wgen.F13s(3), wgen.F2L(4, true)} // F13s keeps the quick depth: its failure classes on the unchanged tree are recorded per set of operations, and depth 4 would bring untriaged sets
	}
	localPasses := map[string]bool{"InlineAll": true, "sroa": true, "mem2reg": true, "dce": true, "dxil-pipeline": true}
	forEachProgram(r, wide, nil, func(p *prog) { c13ProgramOnly(r, p, 1, tot, localPasses) })
	r.Extra("states", tot.states)
	r.Extra("transitions", tot.transitions)
	r.Extra("traces_validated_against_impl", tot.traces)
	r.Extra("max_states_per_module", tot.maxStates)
	r.Extra("depth", depth)
	if r.Thorough() {
		r.Extra("depth_on_smallest_trees", 3)
	}
	r.Extra("passes", 12)
	r.Sample(map[string]any{"passes": []string{"InlineAll", "mem2reg"}, "seed": "F2/callee/e0(M)(R)", "invariants": "no new IR-rule finding; irx.Exec equal on 16 control inputs; pass applied twice = once"})
	printKeys(r)
	return r.Finish("explicit-state BFS over pass sequences (depth 2; in the thorough tier larger families at depth 2 and depth 3 on the one-node trees) of 12 transitions {CompactUnused, CompactConstants, CompactExpressions, CompactTypes, ReorderTypes, DeduplicateEmits, InlineUserFunctions(all), InlineUserFunctions(none), sroa, mem2reg, dce, DXIL pipeline prepareModule+runOptPasses} from the lowered modules of every F2 tree within the node budget (3 positions) and F1 representatives; states de-duplicated by canonical module hash, successors on deep clones; in every reached state: no IR-rule finding class absent from the seed, IR-interpreter result equal to the seed's on all case inputs, the last pass is idempotent",
		[]string{"the IR interpreter and strict validator (internal/irx) are the trusted base; the DXIL passes are reached through the verif-tagged export dxil/verif_export.go"})
}
