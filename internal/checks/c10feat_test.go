package checks

import "testing"

// The feature table is well-formed (unique names) and has the size the C10 rule text promises.
func TestC10FeatureTable(t *testing.T) {
	fs := c10Features()
	npair, ncore := 0, 0
	for _, f := range fs {
		if f.Core {
			ncore++
		}
		if f.Pair || f.Core {
			npair++
		}
	}
	q, th := genFeatures(false), genFeatures(true)
	t.Logf("snippets=%d pair-set=%d core=%d quick-cases=%d thorough-cases=%d", len(fs), npair, ncore, q.Count, th.Count)
	if len(fs) < 60 || ncore != 25 {
		t.Fatalf("snippets=%d core=%d", len(fs), ncore)
	}
	c := genConstructs(false)
	p := genC11Programs(false, false)
	t.Logf("constructs=%d c11-jobs=%d", c.Count, p.Count)
}
