package checks

import (
	"os"
	"fmt"
	"testing"

	"verif/internal/nagax"
	"verif/internal/wgen"
	"verif/internal/wref"
)

func TestC15xDev(t *testing.T) {
	for _, f := range []*wgen.X15Family{wgen.F15xForms(false), wgen.F15xChains(false), wgen.F15xValue()} {
		offs := f.Offsets()
		fmt.Println(f.Name, "programs", f.N, "cases", offs[f.N])
		rej := map[string]int{}
		shown := 0
		for p := 0; p < f.N; p++ {
			pr := f.Prog(p)
			c := f.CaseOf(pr, p, 0)
			src := wgen.Print(c.Mod)
			_, _, err, pn := nagax.Front(src)
			if err != nil || pn != nil {
				k := errClass(fmt.Sprint(err, pn))
				rej[k]++
				if rej[k] == 1 && shown < 8 {
					shown++
					fmt.Println("REJECT", c.Sig, err, pn, "\n", src)
				}
				continue
			}
			for k := range pr.Inputs {
				cc := f.CaseOf(pr, p, k)
				for _, oob := range []int{wref.OOBClamp, wref.OOBZeroSkip} {
					ref, rerr := runRef(cc, wref.Config{OOB: oob})
					if rerr != nil || ref.undef != "" {
						t.Fatalf("ref fails on %s: %v %v\n%s", cc.Sig, rerr, ref, src)
					}
				}
			}
		}
		fmt.Println(f.Name, "rejections", rej)
	}
	l := wgen.F15xLayouts(false)
	fmt.Println("layouts", l.Count)
	fmt.Println(wgen.Print(l.At(l.Count - 1).Mod))
}

func TestC15xShow(t *testing.T) {
	b, err := os.ReadFile(os.Getenv("WGSL"))
	if err != nil {
		t.Skip()
	}
	m, _, err, pn := nagax.Front(string(b))
	if err != nil || pn != nil {
		t.Fatal(err, pn)
	}
	for _, cfg := range nagax.MSLConfigs(2) {
		if cfg.Label == "idx=restrict+buf=restrict" || cfg.Label == "default" {
			o := cfg.Opts
			s, _, err, _ := nagax.MSL(m, o)
			fmt.Println("=====MSL", cfg.Label, err)
			fmt.Println(s)
		}
	}
	s, _, err, _ := nagax.HLSL(m, nagax.HLSLConfigs(0)[0].Opts)
	fmt.Println("=====HLSL", err)
	fmt.Println(s)
}

func TestC15xCover(t *testing.T) {
	cnt := map[string]int{}
	for _, c := range c15ReuseCases(false) {
		m, _, err, pn := nagax.Front(wgen.Print(c.Mod))
		if err != nil || pn != nil {
			fmt.Println("FRONT", c.Sig, err, pn)
			continue
		}
		ref, err := c15RefMain(c)
		if err != nil {
			fmt.Println("REF", c.Sig, err)
			continue
		}
		for _, os := range c15ReuseOpts() {
			b, err, pn := nagax.SPIRV(m, os.o)
			if err != nil || pn != nil {
				fmt.Println("COMPILE", c.Sig, os.name, err, pn)
				continue
			}
			cl, d := c15SpirvRun(c, ref, b)
			if cl != "" {
				cnt[cl]++
				if cnt[cl] < 4 {
					fmt.Println("UNCLEAN", c.Sig, os.name, cl, d)
					fmt.Println(wgen.Print(c.Mod))
				}
			}
		}
	}
	fmt.Println(cnt)
}
