package checks

import (
	"fmt"
	"strings"

	"github.com/gogpu/naga/glsl"
	"github.com/gogpu/naga/hlsl"
	"github.com/gogpu/naga/ir"
	"github.com/gogpu/naga/msl"
	"github.com/gogpu/naga/spirv"

	"verif/internal/explore"
	"verif/internal/glslx"
	"verif/internal/hlslx"
	"verif/internal/irx"
	"verif/internal/mslx"
	"verif/internal/nagax"
	"verif/internal/spv"
	"verif/internal/wgen"
	"verif/internal/wref"
	"verif/internal/xrt"
)

func init() { Registry["C14"] = runC14 }

type c14Route struct {
	name string
	// run returns the output buffer, an error from naga (resolution or backend), and an execution error
	run func(m *ir.Module, pc map[string]float64) (out []byte, nagaErr string, execErr error)
}

func c14Bufs() xrt.Buffers {
	b := make([]byte, 12)
	for i := range b {
		b[i] = 0xCD
	}
	return xrt.Buffers{{Group: 0, Binding: 0}: b}
}

func c14Resolve(m *ir.Module, pc map[string]float64) (res *ir.Module, es string) {
	defer func() {
		if r := recover(); r != nil {
			es = "panic:" + errClass(fmt.Sprint(r))
		}
	}()
	c := ir.CloneModuleForOverrides(m)
	k := ir.PipelineConstants{}
	for n, v := range pc {
		k[n] = v
	}
	if err := ir.ProcessOverrides(c, k); err != nil {
		return nil, "err:" + errClass(err.Error())
	}
	return c, ""
}

func c14Routes() []c14Route {
	key := xrt.Binding{Group: 0, Binding: 0}
	slot := map[int]xrt.Binding{0: key}
	mslOpts := func() msl.Options {
		o := msl.DefaultOptions()
		s0, sb := uint8(0), uint8(30)
		o.PerEntryPointMap = map[string]msl.EntryPointResources{"main": {Resources: map[ir.ResourceBinding]msl.BindTarget{{Group: 0, Binding: 0}: {Buffer: &s0, Mutable: true}}, SizesBuffer: &sb}}
		return o
	}
	runMSL := func(src string, info msl.TranslationInfo) ([]byte, error) {
		p, err := mslx.Parse(src)
		if err != nil {
			return nil, err
		}
		b := c14Bufs()
		err = p.Exec(b, mslx.Opts{Opts: xrt.Opts{EntryPoint: info.EntryPointNames["main"]}, BufferSlots: slot, SizesOrder: []xrt.Binding{key}, WorkgroupSize: [3]uint32{1, 1, 1}})
		return b[key], err
	}
	runGLSL := func(src string) ([]byte, error) {
		p, err := glslx.Parse(src)
		if err != nil {
			return nil, err
		}
		b := c14Bufs()
		err = p.Exec(b, glslx.Opts{})
		return b[key], err
	}
	return []c14Route{
		{"ProcessOverrides+ir", func(m *ir.Module, pc map[string]float64) ([]byte, string, error) {
			res, es := c14Resolve(m, pc)
			if es != "" {
				return nil, es, nil
			}
			b := c14Bufs()
			err := irx.Exec(res, b, xrt.Opts{})
			return b[key], "", err
		}},
		{"ProcessOverrides+spirv", func(m *ir.Module, pc map[string]float64) ([]byte, string, error) {
			res, es := c14Resolve(m, pc)
			if es != "" {
				return nil, es, nil
			}
			bin, err, pn := nagax.SPIRV(res, spirv.DefaultOptions())
			if err != nil || pn != nil {
				return nil, errStr(err, pn), nil
			}
			mod, err := spv.Parse(bin)
			if err != nil {
				return nil, "", err
			}
			b := c14Bufs()
			err = spv.Exec(mod, b, xrt.Opts{EntryPoint: "main"})
			return b[key], "", err
		}},
		{"ProcessOverrides+hlsl", func(m *ir.Module, pc map[string]float64) ([]byte, string, error) {
			res, es := c14Resolve(m, pc)
			if es != "" {
				return nil, es, nil
			}
			src, _, err, pn := nagax.HLSL(res, *hlsl.DefaultOptions())
			if err != nil || pn != nil {
				return nil, errStr(err, pn), nil
			}
			p, err := hlslx.Parse(src)
			if err != nil {
				return nil, "", err
			}
			b := c14Bufs()
			err = p.Exec(b, hlslx.Opts{})
			return b[key], "", err
		}},
		{"ProcessOverrides+msl", func(m *ir.Module, pc map[string]float64) ([]byte, string, error) {
			res, es := c14Resolve(m, pc)
			if es != "" {
				return nil, es, nil
			}
			src, info, err, pn := nagax.MSL(res, mslOpts())
			if err != nil || pn != nil {
				return nil, errStr(err, pn), nil
			}
			out, e := runMSL(src, info)
			return out, "", e
		}},
		{"ProcessOverrides+glsl", func(m *ir.Module, pc map[string]float64) ([]byte, string, error) {
			res, es := c14Resolve(m, pc)
			if es != "" {
				return nil, es, nil
			}
			o := glsl.DefaultOptions()
			o.LangVersion = glsl.Version450
			o.EntryPoint = "main"
			src, _, err, pn := nagax.GLSL(res, o)
			if err != nil || pn != nil {
				return nil, errStr(err, pn), nil
			}
			out, e := runGLSL(src)
			return out, "", e
		}},
		{"msl.PipelineConstants", func(m *ir.Module, pc map[string]float64) ([]byte, string, error) {
			o := mslOpts()
			o.PipelineConstants = map[string]float64{}
			for k, v := range pc {
				o.PipelineConstants[k] = v
			}
			src, info, err, pn := nagax.MSL(m, o)
			if err != nil || pn != nil {
				return nil, errStr(err, pn), nil
			}
			out, e := runMSL(src, info)
			return out, "", e
		}},
		{"glsl.PipelineConstants", func(m *ir.Module, pc map[string]float64) ([]byte, string, error) {
			o := glsl.DefaultOptions()
			o.LangVersion = glsl.Version450
			o.EntryPoint = "main"
			o.PipelineConstants = ir.PipelineConstants{}
			for k, v := range pc {
				o.PipelineConstants[k] = v
			}
			src, _, err, pn := nagax.GLSL(m, o)
			if err != nil || pn != nil {
				return nil, errStr(err, pn), nil
			}
			out, e := runGLSL(src)
			return out, "", e
		}},
	}
}

func c14Program(r *explore.Run, p *wgen.F6oProg) {
	src := p.OverrideSource()
	m, stage, err, pn := nagax.Front(src)
	sc := strings.Join(strings.Split(p.Sig, "/")[1:3], "/")
	if pn != nil {
		r.Skip("naga panic (C10)")
		return
	}
	if err != nil {
		r.Violate(explore.Violation{Key: "C14|front-end|" + sc + "|" + errClass(err.Error()), Detail: "valid override program rejected at " + stage + ": " + err.Error(), Replay: map[string]any{"sig": p.Sig, "src": src}})
		return
	}
	h0 := irx.Hash(m)
	type vm struct {
		label string
		pc    map[string]float64
		v     *float64
	}
	maps := []vm{{"absent", map[string]float64{}, nil}}
	for _, v := range p.Values() {
		v := v
		k := "X"
		if p.HasID {
			k = "7"
		}
		maps = append(maps, vm{fmt.Sprintf("%s=%v", k, v), map[string]float64{k: v}, &v})
	}
	for _, mp := range maps {
		// left shift in an override expression must not lose bits (pipeline-creation error otherwise): skip such values
		if p.DerivOp == "<<" && mp.v != nil {
			x := uint32(int64(*mp.v))
			if p.XType.S == wgen.I32 {
				if int32(x<<1)>>1 != int32(x) {
					continue
				}
			} else if (x<<1)>>1 != x {
				continue
			}
		}
		if p.DerivOp == "<<" && mp.v == nil && p.Default != nil && p.XType.S == wgen.U32 && (*p.Default<<1)>>1 != *p.Default {
			continue
		}
		ref, ok := p.Substituted(mp.v)
		var want []byte
		if ok {
			b := ref.Bufs.Clone()
			if e := wref.Exec(ref.Mod, "", b, ref.Groups, wref.Config{}); e != nil {
				r.Skip("reference cannot evaluate the substituted program")
				continue
			}
			want = b[xrt.Binding{Group: 0, Binding: 0}]
		}
		for _, rt := range c14Routes() {
			r.Count("evaluations", 1)
			out, nerr, xerr := rt.run(m, mp.pc)
			rp := map[string]any{"sig": p.Sig, "src": src, "constants": mp.label, "route": rt.name}
			key := func(class string) string { return "C14|" + rt.name + "|" + sc + "|" + class }
			if !ok {
				// neither a value nor a default: resolution must report an error
				if nerr == "" && xerr == nil {
					r.Violate(explore.Violation{Key: key("missing-value-accepted"), Detail: fmt.Sprintf("%s: override X has no default and no value was supplied, yet %s produced output", p.Sig, rt.name), Replay: rp})
				}
				continue
			}
			if nerr != "" {
				r.Violate(explore.Violation{Key: key("naga-error:" + nerr), Detail: fmt.Sprintf("%s [%s] via %s: naga reports %s for a resolvable module", p.Sig, mp.label, rt.name, nerr), Replay: rp})
				continue
			}
			if xerr != nil {
				cls, skip := failClass(xerr)
				if skip != "" {
					r.Skip(skip)
					continue
				}
				r.Violate(explore.Violation{Key: key("exec:" + cls), Detail: fmt.Sprintf("%s [%s] via %s: %v", p.Sig, mp.label, rt.name, xerr), Replay: rp})
				continue
			}
			if string(out) != string(want) {
				which := "absent"
				if mp.v != nil {
					which = "supplied"
				}
				r.Violate(explore.Violation{Key: key("wrong-value(" + which + ")"), Detail: fmt.Sprintf("%s [%s] via %s: result %x, the substituted WGSL program gives %x", p.Sig, mp.label, rt.name, out, want), Replay: rp})
				continue
			}
			r.DistinctBytes(out)
		}
		if h := irx.Hash(m); h != h0 {
			r.Violate(explore.Violation{Key: "C14|caller-module-modified|" + sc, Detail: p.Sig + ": override resolution altered the caller's module", Replay: map[string]any{"sig": p.Sig, "src": src}})
			h0 = h
		}
	}
}

// c14Sizes: overrides used as @workgroup_size arguments and as workgroup array sizes, including
// sizes derived from another override.
func c14Sizes(r *explore.Run) {
	type prog struct{ name, decl, wgExpr, arrExpr string }
	progs := []prog{
		{"direct", "override X: u32 = 4u;\n", "X", "X"},
		{"direct-id", "@id(7) override X: u32 = 4u;\n", "X", "X"},
		{"nodefault", "override X: u32;\n", "X", "X"},
		{"derived", "override X: u32 = 4u;\noverride Y: u32 = X * 2u;\n", "Y", "Y"},
		{"expression", "override X: u32 = 4u;\n", "X + 1u", "X * 2u"},
		{"i32", "override X: i32 = 4;\n", "X", "X"},
	}
	for _, p := range progs {
		src := p.decl + "var<workgroup> w: array<u32, " + p.arrExpr + ">;\n@group(0) @binding(0) var<storage, read_write> o: array<u32>;\n@compute @workgroup_size(" + p.wgExpr + ") fn main() { w[0] = 1u; o[0] = w[0]; }\n"
		m, _, err, pn := nagax.Front(src)
		if pn != nil {
			continue
		}
		if err != nil {
			r.Violate(explore.Violation{Key: "C14|sizes|" + p.name + "|front-end:" + errClass(err.Error()), Detail: "valid override program rejected: " + err.Error(), Replay: map[string]any{"src": src}})
			continue
		}
		vals := []float64{1, 7, 64}
		type vm struct {
			label string
			pc    map[string]float64
			x     float64
			ok    bool
		}
		var maps []vm
		if p.name != "nodefault" {
			maps = append(maps, vm{"absent", map[string]float64{}, 4, true})
		} else {
			maps = append(maps, vm{"absent", map[string]float64{}, 0, false})
		}
		key := "X"
		if p.name == "direct-id" {
			key = "7"
		}
		for _, v := range vals {
			maps = append(maps, vm{fmt.Sprintf("%s=%v", key, v), map[string]float64{key: v}, v, true})
		}
		for _, mp := range maps {
			r.Count("evaluations", 1)
			wantWG, wantArr := mp.x, mp.x
			switch p.name {
			case "derived":
				wantWG, wantArr = mp.x*2, mp.x*2
			case "expression":
				wantWG, wantArr = mp.x+1, mp.x*2
			}
			res, es := c14Resolve(m, mp.pc)
			rp := map[string]any{"src": src, "constants": mp.label}
			if !mp.ok {
				if es == "" {
					r.Violate(explore.Violation{Key: "C14|sizes|" + p.name + "|missing-value-accepted", Detail: "override without default and without value resolved without error", Replay: rp})
				}
				continue
			}
			if es != "" {
				r.Violate(explore.Violation{Key: "C14|sizes|" + p.name + "|naga-error:" + es, Detail: "resolution fails: " + es, Replay: rp})
				continue
			}
			// array size in the resolved module
			for gi := range res.GlobalVariables {
				g := &res.GlobalVariables[gi]
				if g.Name != "w" {
					continue
				}
				if at, ok := res.Types[g.Type].Inner.(ir.ArrayType); ok {
					got := int64(-1)
					if at.Size.Constant != nil {
						got = int64(*at.Size.Constant)
					}
					if got != int64(wantArr) {
						r.Violate(explore.Violation{Key: "C14|sizes|" + p.name + "|array-size", Detail: fmt.Sprintf("[%s] workgroup array has %d elements after resolution, want %v", mp.label, got, wantArr), Replay: rp})
					}
				}
			}
			bin, err, pn := nagax.SPIRV(res, spirv.DefaultOptions())
			if err != nil || pn != nil {
				r.Violate(explore.Violation{Key: "C14|sizes|" + p.name + "|spirv-error:" + errStr(err, pn), Detail: "SPIR-V backend rejects the resolved module: " + errStr(err, pn), Replay: rp})
				continue
			}
			if mod, e := spv.Parse(bin); e == nil {
				if ls, e2 := mod.LocalSize("main"); e2 == nil && float64(ls[0]) != wantWG {
					r.Violate(explore.Violation{Key: "C14|sizes|" + p.name + "|workgroup-size", Detail: fmt.Sprintf("[%s] LocalSize is %d, want %v", mp.label, ls[0], wantWG), Replay: rp})
				}
			}
		}
	}
}

func runC14() int {
	r := explore.New("C14")
	c14Sizes(r)
	progs := wgen.F6oPrograms()
	r.Count("programs", int64(len(progs)))
	r.ParallelFor(len(progs), func(i int) { c14Program(r, progs[i]) })
	p := progs[len(progs)/2]
	r.Sample(map[string]any{"program": p.Sig, "source": p.OverrideSource(), "constants": "absent, and each of the type's value alphabet by name or by @id"})
	printKeys(r)
	return r.Finish("F6o override programs: a primary override X of each type {bool, i32, u32, f32}, with and without @id, with no default and with two defaults, and a derived override Y = X op literal for every arithmetic, bit, shift, comparison, unary, conversion and select operator of the type, used in expressions and (by variant) in a private global initialiser or inside nested control flow x every value map {absent, each value of the type's alphabet by name or by @id} x 7 routes {ProcessOverrides then IR interpreter / SPIR-V / HLSL / MSL / GLSL, msl.Options.PipelineConstants, glsl.Options.PipelineConstants}. Oracle: the same program with X replaced by a const of the supplied value converted to X's type (or the default) under the reference evaluator; no value and no default must be an error; the caller's module hash is unchanged. distinct = distinct result buffers",
		[]string{"supplied values are representable in the override's type (unrepresentable values are a pipeline-creation error in WebGPU and are not asserted)",
			"left shifts that lose bits are pipeline-creation errors and are skipped"})
}
