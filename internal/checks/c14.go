package checks

import (
	"fmt"
	"os"
	"strings"

	"github.com/gogpu/naga/ir"
	"github.com/gogpu/naga/spirv"

	"verif/internal/explore"
	"verif/internal/glslx"
	"verif/internal/hlslx"
	"verif/internal/nagax"
	"verif/internal/spv"
	"verif/internal/wgen"
)

func init() { Registry["C14"] = runC14 }

func c14Resolve(m *ir.Module, pc map[string]float64) (res *ir.Module, es string) {
	defer func() {
		if r := recover(); r != nil {
			es = "panic:" + errClass(fmt.Sprint(r))
		}
	}()
	c := ir.CloneModuleForOverrides(m)
	k := ir.PipelineConstants{}
	for n, v := range pc {
		k[n] = v
	}
	if err := ir.ProcessOverrides(c, k); err != nil {
		return nil, "err:" + errClass(err.Error())
	}
	return c, ""
}

// c14Sizes: overrides used as @workgroup_size arguments (every dimension) and as workgroup array sizes,
// including sizes derived from another override and sizes given by an override expression. Observed in
// the resolved module's array type, in the SPIR-V LocalSize, the HLSL
// numthreads attribute and the GLSL local_size layout (ProcessOverrides route and glsl PipelineConstants).
func c14Sizes(r *explore.Run) {
	type prog struct {
		name, decl string
		wg         [3]string
		arr        string
		wantWG     func(x float64) [3]float64
		wantArr    func(x float64) float64
		key        string
		noDefault  bool
	}
	id := func(x float64) float64 { return x }
	x1 := func(x float64) [3]float64 { return [3]float64{x, 1, 1} }
	progs := []prog{
		{name: "direct", decl: "override X: u32 = 4u;\n", wg: [3]string{"X"}, arr: "X", wantWG: x1, wantArr: id},
		{name: "direct-id", decl: "@id(7) override X: u32 = 4u;\n", wg: [3]string{"X"}, arr: "X", wantWG: x1, wantArr: id, key: "7"},
		{name: "nodefault", decl: "override X: u32;\n", wg: [3]string{"X"}, arr: "X", wantWG: x1, wantArr: id, noDefault: true},
		{name: "derived", decl: "override X: u32 = 4u;\noverride Y: u32 = X * 2u;\n", wg: [3]string{"Y"}, arr: "Y", wantWG: func(x float64) [3]float64 { return [3]float64{2 * x, 1, 1} }, wantArr: func(x float64) float64 { return 2 * x }},
		{name: "expression", decl: "override X: u32 = 4u;\n", wg: [3]string{"X + 1u"}, arr: "X * 2u", wantWG: func(x float64) [3]float64 { return [3]float64{x + 1, 1, 1} }, wantArr: func(x float64) float64 { return 2 * x }},
		{name: "i32", decl: "override X: i32 = 4;\n", wg: [3]string{"X"}, arr: "X", wantWG: x1, wantArr: id},
		{name: "dim-y", decl: "override X: u32 = 4;\n", wg: [3]string{"2", "X"}, arr: "3", wantWG: func(x float64) [3]float64 { return [3]float64{2, x, 1} }, wantArr: func(float64) float64 { return 3 }},
		{name: "dim-z", decl: "override X: u32 = 4;\n", wg: [3]string{"1", "2", "X"}, arr: "3", wantWG: func(x float64) [3]float64 { return [3]float64{1, 2, x} }, wantArr: func(float64) float64 { return 3 }},
		{name: "dims-xyz", decl: "override X: u32 = 4;\noverride Y: u32 = X + 1;\n", wg: [3]string{"X", "Y", "2"}, arr: "3", wantWG: func(x float64) [3]float64 { return [3]float64{x, x + 1, 2} }, wantArr: func(float64) float64 { return 3 }},
		{name: "derived-reverse", decl: "override Y: u32 = X * 2;\noverride X: u32 = 4;\n", wg: [3]string{"Y"}, arr: "3", wantWG: func(x float64) [3]float64 { return [3]float64{2 * x, 1, 1} }, wantArr: func(float64) float64 { return 3 }},
		{name: "second-entry-point", decl: "override X: u32 = 4;\n@compute @workgroup_size(X, 2) fn aux() { w[1] = 2u; }\n", wg: [3]string{"X"}, arr: "3", wantWG: x1, wantArr: func(float64) float64 { return 3 }},
	}
	for _, p := range progs {
		wg := p.wg[0]
		for _, d := range p.wg[1:] {
			if d != "" {
				wg += ", " + d
			}
		}
		src := p.decl + "var<workgroup> w: array<u32, " + p.arr + ">;\n@group(0) @binding(0) var<storage, read_write> o: array<u32>;\n@compute @workgroup_size(" + wg + ") fn main() { w[0] = 1u; o[0] = w[0]; }\n"
		if p.name == "second-entry-point" { // aux is declared after main
			src = "override X: u32 = 4;\nvar<workgroup> w: array<u32, 3>;\n@group(0) @binding(0) var<storage, read_write> o: array<u32>;\n@compute @workgroup_size(X) fn main() { w[0] = 1u; o[0] = w[0]; }\n@compute @workgroup_size(X, 2) fn aux() { w[1] = 2u; }\n"
		}
		m, _, err, pn := nagax.Front(src)
		if pn != nil {
			continue
		}
		if err != nil {
			r.Violate(explore.Violation{Key: "C14|sizes|" + p.name + "|front-end:" + errClass(err.Error()), Detail: "valid override program rejected: " + err.Error(), Replay: map[string]any{"src": src}})
			continue
		}
		type vm struct {
			label string
			pc    map[string]float64
			x     float64
			ok    bool
		}
		maps := []vm{{"absent", map[string]float64{}, 4, !p.noDefault}}
		key := "X"
		if p.key != "" {
			key = p.key
		}
		for _, v := range []float64{1, 7, 64} {
			maps = append(maps, vm{fmt.Sprintf("%s=%v", key, v), map[string]float64{key: v}, v, true})
		}
		for _, mp := range maps {
			r.Count("evaluations", 1)
			wantWG, wantArr := p.wantWG(mp.x), p.wantArr(mp.x)
			m, _, _, _ = nagax.Front(src)
			res, es := c14Resolve(m, mp.pc)
			rp := map[string]any{"src": src, "constants": mp.label}
			if !mp.ok {
				if es == "" {
					r.Violate(explore.Violation{Key: "C14|sizes|" + p.name + "|missing-value-accepted", Detail: "override without default and without value resolved without error", Replay: rp})
				}
				continue
			}
			if es != "" {
				r.Violate(explore.Violation{Key: "C14|sizes|" + p.name + "|naga-error:" + es, Detail: "resolution fails: " + es, Replay: rp})
				continue
			}
			// array size in the resolved module
			for gi := range res.GlobalVariables {
				g := &res.GlobalVariables[gi]
				if g.Name != "w" {
					continue
				}
				if at, ok := res.Types[g.Type].Inner.(ir.ArrayType); ok {
					got := int64(-1)
					if at.Size.Constant != nil {
						got = int64(*at.Size.Constant)
					}
					if got != int64(wantArr) {
						r.Violate(explore.Violation{Key: "C14|sizes|" + p.name + "|array-size", Detail: fmt.Sprintf("[%s] workgroup array has %d elements after resolution, want %v", mp.label, got, wantArr), Replay: rp})
					}
				}
			}
			check := func(route string, got [3]uint32) {
				r.Count("evaluations", 1)
				for d := 0; d < 3; d++ {
					if float64(got[d]) != wantWG[d] {
						r.Violate(explore.Violation{Key: "C14|sizes|" + p.name + "|workgroup-size:" + route, Detail: fmt.Sprintf("[%s] %s: workgroup size of main is %v, want %v", mp.label, route, got, wantWG), Replay: rp})
						return
					}
				}
			}
			bin, err, pn := nagax.SPIRV(res, spirv.DefaultOptions())
			if err != nil || pn != nil {
				r.Violate(explore.Violation{Key: "C14|sizes|" + p.name + "|spirv-error:" + errStr(err, pn), Detail: "SPIR-V backend rejects the resolved module: " + errStr(err, pn), Replay: rp})
			} else if mod, e := spv.Parse(bin); e == nil {
				if ls, e2 := mod.LocalSize("main"); e2 == nil {
					check("spirv", ls)
				}
				if p.name == "second-entry-point" {
					if ls, e2 := mod.LocalSize("aux"); e2 == nil {
						r.Count("evaluations", 1)
						if float64(ls[0]) != mp.x || ls[1] != 2 {
							r.Violate(explore.Violation{Key: "C14|sizes|" + p.name + "|workgroup-size:spirv(aux)", Detail: fmt.Sprintf("[%s] workgroup size of the second entry point is %v, want [%v 2 1]", mp.label, ls, mp.x), Replay: rp})
						}
					}
				}
			}
			if text, _, err, pn := nagax.HLSL(res, nagax.HLSLConfigs(0)[0].Opts); err == nil && pn == nil {
				if hp, e := hlslx.Parse(text); e == nil {
					for _, ep := range hp.EntryPoints() {
						if ep.Name == "main" {
							check("hlsl", ep.NumThreads)
						}
						if ep.Name == "aux" {
							r.Count("evaluations", 1)
							if w := ep.NumThreads; float64(w[0]) != mp.x || w[1] != 2 {
								r.Violate(explore.Violation{Key: "C14|sizes|" + p.name + "|workgroup-size:hlsl(aux)", Detail: fmt.Sprintf("[%s] numthreads of the second entry point is %v, want [%v 2 1]", mp.label, w, mp.x), Replay: rp})
							}
						}
					}
				}
			}
			gopts := nagax.GLSLConfigs(0)[0].Opts
			gopts.EntryPoint = "main"
			if text, _, err, pn := nagax.GLSL(res, gopts); err == nil && pn == nil {
				if gp, e := glslx.Parse(text); e == nil {
					check("glsl", gp.LocalSize())
				}
			}
			// glsl.Options.PipelineConstants on a fresh module
			if len(mp.pc) > 0 {
				fm, _, _, _ := nagax.Front(src)
				gopts.PipelineConstants = ir.PipelineConstants(pcClone(mp.pc))
				text, _, err, pn := nagax.GLSL(fm, gopts)
				if err != nil || pn != nil {
					r.Violate(explore.Violation{Key: "C14|sizes|" + p.name + "|glsl.PipelineConstants-error:" + errStr(err, pn), Detail: fmt.Sprintf("[%s] glsl.Options.PipelineConstants fails: %s", mp.label, errStr(err, pn)), Replay: rp})
				} else if gp, e := glslx.Parse(text); e == nil {
					check("glsl.PipelineConstants", gp.LocalSize())
				}
			}
		}
	}
}

// c14Parts: the sub-spaces of the check (VERIF_C14_PARTS=a,b restricts a run to some of them: authoring aid).
func c14Part(name string) bool {
	sel := os.Getenv("VERIF_C14_PARTS")
	if sel == "" {
		return true
	}
	for _, p := range strings.Split(sel, ",") {
		if p == name {
			return true
		}
	}
	return false
}

func runC14() int {
	r := explore.New("C14")
	th := r.Thorough()
	if c14Part("sizes") {
		c14Sizes(r)
	}
	routes := c14xRoutes()
	var all []*wgen.OvProg
	add := func(part string, ps []*wgen.OvProg) {
		if !c14Part(part) {
			return
		}
		r.Extra("programs_"+part, len(ps))
		maps := 0
		for _, p := range ps {
			maps += len(p.Maps)
		}
		r.Extra("value_maps_"+part, maps)
		if len(ps) > 0 {
			p := ps[len(ps)/2]
			var labels []string
			for _, m := range p.Maps {
				labels = append(labels, m.Label)
			}
			r.Sample(map[string]any{"program": p.Sig, "source": p.Source(), "constants": strings.Join(labels, " ; ")})
		}
		all = append(all, ps...)
	}
	add("spell", wgen.F6oSpell())
	add("comp", wgen.F6oComp())
	add("shape", wgen.F6oShapes(th))
	add("ops", wgen.F6oOps(th))
	add("chain", wgen.F6oChains(th))
	if th {
		add("cf", wgen.F6oCf(2, 3, []string{"entry", "callee", "calleeval"}, []string{"direct", "folded", "let"}, 5))
		add("inj", wgen.F6oInj([]string{"buf", "let", "var", "fn", "asg"}, true))
	} else {
		add("cf", wgen.F6oCf(2, 0, []string{"entry", "callee"}, []string{"direct", "folded"}, 3))
		add("inj", wgen.F6oInj([]string{"var", "fn"}, false))
	}
	r.Count("programs", int64(len(all)))
	if os.Getenv("VERIF_PRINT_KEYS") != "" {
		seen := map[string]bool{}
		for _, p := range all {
			if k := p.Part + " " + p.Class; !seen[k] {
				seen[k] = true
				fmt.Println("CLASS", k)
			}
		}
	}
	r.ParallelFor(len(all), func(i int) { c14xProgram(r, routes, all[i]) })
	if c14Part("hist") {
		hp := c14HistoryPrograms(th)
		r.Extra("programs_hist", len(hp))
		depth := 2
		if th {
			depth = 3
		}
		r.Extra("history_depth", depth)
		r.ParallelFor(len(hp), func(i int) { c14History(r, hp[i], depth) })
	}
	printKeys(r)
	return r.Finish("(1) sizes: overrides as @workgroup_size arguments and workgroup array sizes (direct, by @id, without default, derived, in an expression). "+
		"(2) spell: spellings {bare, suffixed, conversion call, parenthesised} of defaults and of literal operands in initialisers. "+
		"(2b) comp: overrides inside vector / splat / array / struct constructors in module-scope initialisers and function bodies with component access, swizzle and dynamic indexing, vector select, and initialisers that combine overrides with named module constants, per numeric type. "+
		"(3) shape: every dependency shape over <= 3 overrides {single, pair, independent, chain, fan-in, fan-out, diamond edge} x type assignment (4 uniform, 2 mixed with conversions at the edges) x operator x which roots have defaults x @id placement {none, all, alternate} x declaration order {dependency, reverse} x every subset of supplied overrides. "+
		"(4) ops: every scalar operator/builtin/conversion/bitcast of the F1 tables with the override in each single operand position (literal elsewhere, two literal variants) and in all positions x site {function body, derived override initialiser, module-scope var initialiser, helper function body followed by further statements} x {absent, every value of the operator's boundary alphabet}. "+
		"(5) chain: outer(inner(X)) for every type-compatible pair of core forms (binary operator with a literal on either side, unary, conversion, bitcast) in a function body and (binary x binary) in a derived initialiser. "+
		"(6) cf: every F2 control-flow tree up to the node budget x position {entry, callee[, value-returning callee]} with the steering literals (loop bounds, condition operands, counters, marker multipliers, switch selector term) replaced by overrides x rewriting mode {direct, folded override expression[, let]} x value maps that change trip counts and branches. "+
		"(7) inj: a foldable override use injected at the start of each function of every F1 operator-table program (operand sources var, fn) and F4 access program. "+
		"(8) hist: breadth-first search over operation sequences {resolve(A), resolve(B), msl/glsl PipelineConstants(A/B), plain spirv/hlsl/msl/glsl} of depth <= 2 on ONE lowered module, states de-duplicated by module hash. "+
		"All of (2)-(7) x 7 routes {ProcessOverrides then IR interpreter / SPIR-V / HLSL / MSL / GLSL, msl.Options.PipelineConstants, glsl.Options.PipelineConstants}, each on a freshly lowered module. Oracle: the same program with each override replaced by a const of the supplied value converted to its type (or its initialiser) under the reference evaluator; no value and no default must be an error; the caller's module is unchanged after every operation (changed part classified); history: each operation's result equals its result on a fresh module. distinct = distinct result buffers",
		[]string{"supplied values are representable in the override's type (unrepresentable values are a pipeline-creation error in WebGPU and are not asserted)",
			"override-expressions whose pipeline-creation-time evaluation overflows, divides by zero or shifts lossily are asserted as 'error or the wrapped value'; cases where WGSL leaves the value to the implementation (inexact conversions, inf/nan/subnormal intermediates) are skipped and counted",
			"for carrier programs (cf, inj) a mismatch that the same backend also shows on the substituted program is the backend's (C01/C03-C05) and is skipped and counted"})
}
