package checks

import (
	"errors"
	"fmt"
	"os"
	"strings"
	"sync"

	"github.com/gogpu/naga/ir"
	"github.com/gogpu/naga/msl"
	"github.com/gogpu/naga/spirv"

	"verif/internal/explore"
	"verif/internal/hlslx"
	"verif/internal/mslx"
	"verif/internal/nagax"
	"verif/internal/spv"
	"verif/internal/wgen"
	"verif/internal/wref"
	"verif/internal/xrt"
)

// C15, extended spaces (see internal/wgen/f15x.go):
//
//	F15xf  index-expression forms x access sites          (guard elision keyed on the form of the index)
//	F15xc  access chains x assignments of {i, j} to levels (guard elision keyed on equality of indices)
//	F15xv  aggregates held by value                        (guards that only exist on the pointer paths)
//	reuse  ordered pairs of hostile-data programs compiled on ONE spirv.Backend (history dimension),
//	       and ordered pairs compiled back to back through the text back ends' function API
//
// Programs of the F15x families differ from their hostile inputs only in the contents of one
// buffer, so each program is lowered and compiled once per policy and executed on every tuple.

func init() {
	extraFamilyByName["F15xf"] = func() *wgen.Family { return wgen.F15xForms(thoroughTier()).Flat() }
	extraFamilyByName["F15xc"] = func() *wgen.Family { return wgen.F15xChains(thoroughTier()).Flat() }
	extraFamilyByName["F15xv"] = func() *wgen.Family { return wgen.F15xValue().Flat() }
	extraFamilyByName["F15xz"] = func() *wgen.Family { return wgen.F15xLayouts(thoroughTier()) }
	for _, tier := range []string{"quick", "thorough"} {
		tier := tier
		extraFamilyByName["F15xreuse-"+tier] = func() *wgen.Family { return c15ReuseFamily(tier == "thorough") }
	}
}

func thoroughTier() bool { return os.Getenv("VERIF_TIER") == "thorough" }

// c15xTarget: one protective option set; prepare compiles a module once and returns the function
// that executes the emitted code on a buffer valuation.
type c15xTarget struct {
	backend, label string
	oob            int
	prepare        func(m *ir.Module, c *wgen.Case) (run func(bufs xrt.Buffers, o xrt.Opts) error, text string, err error, pn *nagax.Panic)
}

func c15xMSLPrepare(opts msl.Options) func(m *ir.Module, c *wgen.Case) (func(xrt.Buffers, xrt.Opts) error, string, error, *nagax.Panic) {
	return func(m *ir.Module, c *wgen.Case) (func(xrt.Buffers, xrt.Opts) error, string, error, *nagax.Panic) {
		opts := opts
		// explicit resource map: buffer slot = binding number, sizes buffer in slot 30 (as the C04 runner)
		res := map[ir.ResourceBinding]msl.BindTarget{}
		slots := map[int]xrt.Binding{}
		var sizes []xrt.Binding
		for gi := range m.GlobalVariables {
			g := &m.GlobalVariables[gi]
			if g.Binding == nil {
				continue
			}
			slot := uint8(g.Binding.Binding)
			res[*g.Binding] = msl.BindTarget{Buffer: &slot, Mutable: true}
			slots[int(slot)] = xrt.Binding{Group: g.Binding.Group, Binding: g.Binding.Binding}
		}
		for _, g := range c.Mod.Globals {
			if (g.Space == "storage" || g.Space == "uniform") && wgen.HasRuntimeArray(g.Ty) {
				sizes = append(sizes, xrt.Binding{Group: uint32(g.Group), Binding: uint32(g.Binding)})
			}
		}
		sb := uint8(30)
		opts.PerEntryPointMap = map[string]msl.EntryPointResources{"main": {Resources: res, SizesBuffer: &sb}}
		opts.FakeMissingBindings = false
		src, info, err, pn := nagax.MSL(m, opts)
		if pn != nil || err != nil {
			return nil, "", wrapCompile(err), pn
		}
		p, err := mslx.Parse(src)
		if err != nil {
			return nil, src, err, nil
		}
		ep := info.EntryPointNames["main"]
		wg := entryWG(c)
		return func(bufs xrt.Buffers, o xrt.Opts) error {
			o.EntryPoint = ep
			return p.Exec(bufs, mslx.Opts{Opts: o, BufferSlots: slots, SizesOrder: sizes, WorkgroupSize: wg})
		}, src, nil, nil
	}
}

func c15xTargets() []c15xTarget {
	var out []c15xTarget
	hopts := nagax.HLSLConfigs(0)[0].Opts
	out = append(out, c15xTarget{"hlsl", "default(restrict+zeroinit)", wref.OOBClamp, func(m *ir.Module, c *wgen.Case) (func(xrt.Buffers, xrt.Opts) error, string, error, *nagax.Panic) {
		src, _, err, pn := nagax.HLSL(m, hopts)
		if pn != nil || err != nil {
			return nil, "", wrapCompile(err), pn
		}
		p, err := hlslx.Parse(src)
		if err != nil {
			return nil, src, err, nil
		}
		return func(bufs xrt.Buffers, o xrt.Opts) error {
			o.EntryPoint = ""
			return p.Exec(bufs, hlslx.Opts{Opts: o})
		}, src, nil, nil
	}})
	var restrict, rzsw *msl.Options
	for _, cfg := range nagax.MSLConfigs(2) {
		cfg := cfg
		switch cfg.Label {
		case "idx=restrict+buf=restrict":
			restrict = &cfg.Opts
		case "default":
			rzsw = &cfg.Opts
		}
	}
	if restrict == nil || rzsw == nil {
		panic("msl config not found")
	}
	out = append(out, c15xTarget{"msl", "index+buffer=restrict", wref.OOBClamp, c15xMSLPrepare(*restrict)})
	out = append(out, c15xTarget{"msl", "index+buffer=read-zero-skip-write(default)", wref.OOBZeroSkip, c15xMSLPrepare(*rzsw)})
	return out
}

// c15xRunFamily: every program of the family, compiled once per target, executed on every hostile tuple.
func c15xRunFamily(r *explore.Run, fam *wgen.X15Family, targets []c15xTarget) {
	offs := fam.Offsets()
	r.Count("programs", int64(offs[fam.N]))
	r.Extra("family_"+fam.Name, offs[fam.N])
	r.Extra("family_"+fam.Name+"_distinct_programs", fam.N)
	fresh := os.Getenv("VERIF_C15X_FRESH") != "" // authoring aid: compile per case through the ordinary path
	r.ParallelFor(fam.N, func(p int) {
		pr := fam.Prog(p)
		cases := make([]*wgen.Case, len(pr.Inputs))
		for k := range cases {
			cases[k] = fam.CaseOf(pr, p, k)
		}
		src := wgen.Print(cases[0].Mod)
		if fresh {
			for _, c := range cases {
				c15Program(r, &prog{Sig: c.Sig, Src: src, Case: c})
			}
			return
		}
		m, _, err, pn := nagax.Front(src)
		if err != nil || pn != nil {
			for range cases {
				r.Skip("front end rejected/panicked (C08/C10)")
			}
			r.Count("f15x_front_end_rejected_programs", 1)
			return
		}
		refs := map[int][]*refResult{}
		for _, t := range targets {
			if refs[t.oob] == nil {
				rs := make([]*refResult, len(cases))
				for k, c := range cases {
					ref, rerr := runRef(c, wref.Config{OOB: t.oob})
					if rerr != nil || ref.undef != "" {
						r.Skip("reference: " + fmt.Sprint(rerr, ref))
						continue
					}
					rs[k] = ref
				}
				refs[t.oob] = rs
			}
			run, text, cerr, pn := t.prepare(m, cases[0])
			r.Count("compilations", 1)
			for k, c := range cases {
				ref := refs[t.oob][k]
				if ref == nil {
					continue
				}
				r.Count("evaluations", int64(c.Groups[0]))
				pp := &prog{Sig: c.Sig, Src: src, Case: c}
				if pn != nil || cerr != nil {
					c15Judge(r, pp, t.backend, t.label, ref, nil, text, cerr, pn)
					continue
				}
				bufs := c.Bufs.Clone()
				xerr := run(bufs, xrt.Opts{NumWorkgroups: c.Groups, StepLimit: 200_000 * int64(c.Groups[0]), PoisonLocals: true})
				c15Judge(r, pp, t.backend, t.label, ref, bufs, text, xerr, nil)
			}
		}
	})
}

// ---------------------------------------------------------------- history dimension: reused back ends

type c15rEnt struct {
	c   *wgen.Case
	mod *ir.Module
	ref xrt.Buffers
}

// c15ReuseCases: the history alphabet — zero-init programs over every global layout, workgroup
// zero-init of every type, hardened operators (wrapper functions are cached per Backend), workgroup
// and atomic accesses.
func c15ReuseCases(thorough bool) []*wgen.Case {
	var out []*wgen.Case
	lay := wgen.F15xLayouts(thorough)
	for i := 0; i < lay.Count; i++ {
		out = append(out, lay.At(i))
	}
	z := wgen.F15Zero()
	for i := 0; i < z.Count; i++ {
		if c := z.At(i); strings.HasPrefix(c.Sig, "F15zero/workgroup") {
			out = append(out, c)
		}
	}
	ops := wgen.F15Ops()
	for i := 0; i < ops.Count; i++ {
		c := ops.At(i)
		if !strings.HasSuffix(c.Sig, "/buf") || strings.Contains(c.Sig, "/conv/") {
			continue
		}
		if strings.Contains(c.Sig, "vec2") || strings.Contains(c.Sig, "vec4") {
			continue
		}
		if strings.Count(c.Sig, "vec3") == 1 { // mixed vector/scalar: thorough only
			if !thorough {
				continue
			}
		}
		out = append(out, c)
	}
	acc := wgen.F4Access()
	for i := 0; i < acc.Count; i++ {
		c := acc.At(i)
		if !strings.HasSuffix(c.Sig, "/u32/idx=0x0") && !strings.HasSuffix(c.Sig, "/u32/idx=0x2") {
			continue
		}
		if strings.Contains(c.Sig, "workgroup") || strings.Contains(c.Sig, "atomic") || strings.Contains(c.Sig, "private") {
			out = append(out, c)
		}
	}
	return out
}

func c15ReuseOpts() []struct {
	name string
	o    spirv.Options
} {
	v14 := spirv.DefaultOptions()
	v14.Version = spirv.Version1_4
	return []struct {
		name string
		o    spirv.Options
	}{{"default", spirv.DefaultOptions()}, {"v1.4", v14}}
}

func c15RefMain(c *wgen.Case) (xrt.Buffers, error) {
	b := c.Bufs.Clone()
	if err := wref.Exec(c.Mod, "main", b, c.Groups, wref.Config{}); err != nil {
		return nil, err
	}
	return b, nil
}

func c15ExecOpts(c *wgen.Case) xrt.Opts {
	return xrt.Opts{EntryPoint: "main", NumWorkgroups: c.Groups, StepLimit: 200_000 * int64(c.Groups[0]), PoisonLocals: true}
}

// c15SpirvRun executes SPIR-V words for case c and applies the oracle; "" = clean.
func c15SpirvRun(c *wgen.Case, ref xrt.Buffers, words []byte) (class, detail string) {
	mod, err := spv.Parse(words)
	if err != nil {
		return "malformed-output:" + errClass(err.Error()), err.Error()
	}
	bufs := c.Bufs.Clone()
	if err := spv.Exec(mod, bufs, c15ExecOpts(c)); err != nil {
		cl, skip := failClass(err)
		if skip != "" {
			return "skip", skip
		}
		return cl, err.Error()
	}
	if d := compareBufs(c, ref, bufs); d != "" {
		return "wrong-result", d
	}
	return "", ""
}

// c15ReuseCover lowers the history alphabet and keeps the programs that are clean on a fresh Backend
// under every option set (the others are judged by the per-program families, not here).
func c15ReuseCover(r *explore.Run, thorough bool) []c15rEnt {
	var out []c15rEnt
	for _, c := range c15ReuseCases(thorough) {
		m, _, err, pn := nagax.Front(wgen.Print(c.Mod))
		if err != nil || pn != nil {
			continue
		}
		ref, err := c15RefMain(c)
		if err != nil {
			continue
		}
		ok := true
		for _, os := range c15ReuseOpts() {
			b, err, pn := nagax.SPIRV(m, os.o)
			if err != nil || pn != nil {
				ok = false
				break
			}
			if cl, _ := c15SpirvRun(c, ref, b); cl != "" {
				ok = false
				break
			}
		}
		if ok {
			out = append(out, c15rEnt{c, m, ref})
		} else if r != nil {
			r.Count("reuse_not_clean_on_fresh_backend", 1)
		}
	}
	return out
}

// c15ReusePair: Compile(A) then Compile(B) on one Backend; B's words are executed and judged.
func c15ReusePair(r *explore.Run, tierName string, cover []c15rEnt, oi, ai, bi int) {
	os := c15ReuseOpts()[oi]
	a, b := cover[ai], cover[bi]
	var outB []byte
	var errB error
	var pan any
	func() {
		defer func() { pan = recover() }()
		be := spirv.NewBackend(os.o)
		_, _ = be.Compile(a.mod)
		w, err := be.Compile(b.mod)
		outB, errB = append([]byte(nil), w...), err
	}()
	r.Count("evaluations", 1)
	r.Count("reuse_pairs", 1)
	if pan != nil {
		r.Skip("naga panic (C10)")
		return
	}
	n := len(cover)
	rp := map[string]any{"family": "F15xreuse-" + tierName, "index": (oi*n+ai)*n + bi, "sig": b.c.Sig, "first": a.c.Sig, "second": b.c.Sig,
		"options": os.name, "first_src": wgen.Print(a.c.Mod), "src": wgen.Print(b.c.Mod)}
	key := func(class string) string {
		return "C15|spirv|reuse:" + os.name + "|" + c15Class(b.c.Sig) + "|after " + a.c.Family + "|" + class
	}
	if errB != nil {
		r.Violate(explore.Violation{Key: key("compile-error"), Detail: fmt.Sprintf("Compile(%s) fails on a Backend that previously compiled %s, and succeeds on a fresh one: %v", b.c.Sig, a.c.Sig, errB), Replay: rp})
		return
	}
	cl, detail := c15SpirvRun(b.c, b.ref, outB)
	switch cl {
	case "":
		r.DistinctBytes(outB)
	case "skip":
		r.Skip(detail)
	default:
		r.Violate(explore.Violation{Key: key(cl), Detail: fmt.Sprintf("SPIR-V for %s compiled on a Backend that previously compiled %s [%s] is not safe on hostile data (a fresh Backend's output is): %s", b.c.Sig, a.c.Sig, os.name, detail), Replay: rp})
	}
}

func c15TierName(thorough bool) string {
	if thorough {
		return "thorough"
	}
	return "quick"
}

// c15ReuseFamily presents the pairs as a family for replay: index = (option, first, second).
func c15ReuseFamily(thorough bool) *wgen.Family {
	cover := c15ReuseCover(nil, thorough)
	n := len(cover)
	name := "F15xreuse-" + c15TierName(thorough)
	return &wgen.Family{Name: name, Count: len(c15ReuseOpts()) * n * n, At: func(i int) *wgen.Case {
		c := *cover[i%n].c
		c.Family, c.Index = name, i
		return &c
	}}
}

func c15ReuseReplay(r *explore.Run, c *wgen.Case) {
	thorough := strings.HasSuffix(c.Family, "thorough")
	cover := c15ReuseCover(nil, thorough)
	n := len(cover)
	if n == 0 {
		return
	}
	i := c.Index
	c15ReusePair(r, c15TierName(thorough), cover, i/(n*n), i/n%n, i%n)
}

func c15RunReuse(r *explore.Run) {
	cover := c15ReuseCover(r, r.Thorough())
	n := len(cover)
	r.Extra("reuse_cover_programs", n)
	nOpts := len(c15ReuseOpts())
	tn := c15TierName(r.Thorough())
	r.ParallelFor(nOpts*n*n, func(k int) {
		c15ReusePair(r, tn, cover, k/(n*n), k/n%n, k%n)
	})
	if r.Thorough() {
		c15RunReuseTriples(r, cover)
	}
	c15RunTextHistory(r, cover)
}

// c15RunTextHistory: the text back ends have no Backend object, but the same question applies to
// their function API: is Compile(B) right when Compile(A) ran just before it in the same process?
// Every ordered pair of a small cover, strictly sequentially (nothing else compiles meanwhile);
// B's text is executed and judged. Zero-init is the observable: every program here reads variables
// that have no initialiser.
func c15RunTextHistory(r *explore.Run, cover []c15rEnt) {
	var sub []c15rEnt
	seen := map[string]bool{}
	for _, e := range cover {
		if len(e.c.Mod.Funcs) == 0 {
			continue
		}
		// one representative per (family, set of global kinds); single entry point only (the text
		// runners address the entry point `main` by name where they can, the first one otherwise)
		staged := 0
		for _, f := range e.c.Mod.Funcs {
			if f.Stage != "" {
				staged++
			}
		}
		if staged != 1 {
			continue
		}
		cls := e.c.Family
		if e.c.Family == "F15xz" {
			p := strings.Split(e.c.Sig, "/")
			cls += "/" + p[1] + "/" + p[2]
		} else if e.c.Family == "F15zero" {
			cls = e.c.Sig
		} else {
			cls = c15Class(e.c.Sig)
		}
		if seen[cls] {
			continue
		}
		seen[cls] = true
		sub = append(sub, e)
	}
	max := 14
	if r.Thorough() {
		max = 40
	}
	if len(sub) > max {
		// spread over the cover deterministically
		var pick []c15rEnt
		for i := 0; i < max; i++ {
			pick = append(pick, sub[i*len(sub)/max])
		}
		sub = pick
	}
	type be struct {
		name string
		run  func(m *ir.Module, c *wgen.Case, o xrt.Opts) (xrt.Buffers, string, error, *nagax.Panic)
	}
	bes := []be{
		{"hlsl", hlslBackend().configs(0)[0].run},
		{"msl", mslBackend().configs(0)[0].run},
		{"glsl", glslBackend().configs(0)[0].run},
	}
	r.Extra("text_history_cover_programs", len(sub))
	n := len(sub)
	var wg sync.WaitGroup
	for _, b := range bes {
		b := b
		wg.Add(1)
		go func() {
			defer wg.Done()
			// outcome of B after every A; B is judged only where history changes its outcome: clean after
			// some predecessor, not clean after another (a B that is never clean is a matter of the
			// per-program families, not of history)
			cls := make([]string, n*n)
			errs := make([]string, n*n)
			texts := make([]string, n*n)
			for ai, a := range sub {
				for bi, e := range sub {
					_, _, _, _ = b.run(a.mod, a.c, c15ExecOpts(a.c))
					got, text, err, pn := b.run(e.mod, e.c, c15ExecOpts(e.c))
					r.Count("evaluations", 1)
					r.Count("text_history_pairs", 1)
					cl := c15OutcomeClass(err, pn)
					if cl == "" {
						if d := compareBufs(e.c, e.ref, got); d != "" {
							cl, err = "wrong-result", errors.New(d)
						}
					}
					cls[ai*n+bi] = cl
					if cl != "" {
						errs[ai*n+bi], texts[ai*n+bi] = fmt.Sprint(err), text
					}
				}
			}
			for bi, e := range sub {
				clean := false
				for ai := range sub {
					if cls[ai*n+bi] == "" {
						clean = true
					}
				}
				if !clean {
					continue
				}
				for ai, a := range sub {
					cl := cls[ai*n+bi]
					if cl == "" || cl == "skip" {
						continue
					}
					r.Violate(explore.Violation{Key: "C15|" + b.name + "|history|" + c15Class(e.c.Sig) + "|after " + a.c.Family + "|" + cl,
						Detail: fmt.Sprintf("%s text for %s compiled right after %s is not safe on hostile data, after other programs it is: %s", b.name, e.c.Sig, a.c.Sig, errs[ai*n+bi]),
						Replay: map[string]any{"first": a.c.Sig, "second": e.c.Sig, "first_src": wgen.Print(a.c.Mod), "src": wgen.Print(e.c.Mod), "backend": b.name, "emitted": trunc(texts[ai*n+bi], 6000)}})
				}
			}
		}()
	}
	wg.Wait()
}

func c15OutcomeClass(err error, pn *nagax.Panic) string {
	if pn != nil {
		return "panic"
	}
	if err == nil {
		return ""
	}
	var ce *compileErr
	if errors.As(err, &ce) {
		return "compile-error"
	}
	cl, skip := failClass(err)
	if skip != "" {
		return "skip"
	}
	return cl
}

// ---------------------------------------------------------------- MSL: Index and Buffer policies that differ

// c15SpaceOf: the address space a F15idx / F15acc case indexes ("" = not classified).
func c15SpaceOf(sig string) string {
	p := strings.Split(sig, "/")
	if len(p) < 3 {
		return ""
	}
	if p[0] == "F15idx" {
		return p[2]
	}
	if p[0] == "F15acc" {
		switch {
		case strings.HasPrefix(p[2], "storage-"), strings.HasPrefix(p[2], "atomic-"):
			return "storage"
		case strings.HasPrefix(p[2], "uniform-"):
			return "uniform"
		case strings.HasPrefix(p[2], "private-"):
			return "private"
		case strings.HasPrefix(p[2], "workgroup-"):
			return "workgroup"
		case strings.HasPrefix(p[2], "function-"), p[2] == "pointer-argument":
			return "function"
		case strings.HasPrefix(p[2], "value-"):
			return "value"
		}
	}
	return ""
}

// c15RunMixedPolicies: the two MSL option sets in which the Index policy (function/private/workgroup
// objects and values) and the Buffer policy (storage/uniform buffers) DIFFER, over every case of
// F15acc and F15idx; the expected behaviour of a case is that of the policy governing its space.
// With both policies equal (the other option sets of this check) a back end that consulted the
// wrong one of the two would go unnoticed.
func c15RunMixedPolicies(r *explore.Run) {
	type mixed struct {
		label       string
		index, buff int
		prepare     func(m *ir.Module, c *wgen.Case) (func(xrt.Buffers, xrt.Opts) error, string, error, *nagax.Panic)
	}
	var ms []mixed
	for _, cfg := range nagax.MSLConfigs(1) {
		switch cfg.Label {
		case "idx=restrict":
			ms = append(ms, mixed{"index=restrict,buffer=read-zero-skip-write", wref.OOBClamp, wref.OOBZeroSkip, c15xMSLPrepare(cfg.Opts)})
		case "buf=restrict":
			ms = append(ms, mixed{"index=read-zero-skip-write,buffer=restrict", wref.OOBZeroSkip, wref.OOBClamp, c15xMSLPrepare(cfg.Opts)})
		}
	}
	if len(ms) != 2 {
		panic("msl mixed-policy configs not found")
	}
	for _, f := range []*wgen.Family{wgen.F15Access(), wgen.F15Idx()} {
		f := f
		r.Extra("mixed_policy_cases_"+f.Name, f.Count)
		r.ParallelFor(f.Count, func(i int) {
			c := f.At(i)
			sp := c15SpaceOf(c.Sig)
			if sp == "" {
				r.Skip("mixed policies: space of the access not classified")
				return
			}
			src := wgen.Print(c.Mod)
			m, _, err, pn := nagax.Front(src)
			if err != nil || pn != nil {
				r.Skip("front end rejected/panicked (C08/C10)")
				return
			}
			for _, mx := range ms {
				oob := mx.index
				if sp == "storage" || sp == "uniform" {
					oob = mx.buff
				}
				ref, rerr := runRef(c, wref.Config{OOB: oob})
				if rerr != nil || ref.undef != "" {
					r.Skip("reference: " + fmt.Sprint(rerr, ref))
					continue
				}
				r.Count("evaluations", 1)
				pp := &prog{Sig: c.Sig, Src: src, Case: c}
				run, text, cerr, pn := mx.prepare(m, c)
				if pn != nil || cerr != nil {
					c15Judge(r, pp, "msl", mx.label, ref, nil, text, cerr, pn)
					continue
				}
				bufs := c.Bufs.Clone()
				xerr := run(bufs, xrt.Opts{NumWorkgroups: c.Groups, StepLimit: 200_000, PoisonLocals: true})
				c15Judge(r, pp, "msl", mx.label, ref, bufs, text, xerr, nil)
			}
		})
	}
}

// ---------------------------------------------------------------- history depth 3 (thorough)

// c15RunReuseTriples: Compile(A); Compile(B); Compile(C) on one Backend over a sub-cover; C is judged.
func c15RunReuseTriples(r *explore.Run, cover []c15rEnt) {
	var sub []c15rEnt
	const max = 28
	for i := 0; i < max && i < len(cover); i++ {
		sub = append(sub, cover[i*len(cover)/max])
	}
	n := len(sub)
	o := c15ReuseOpts()[0]
	r.Extra("reuse_triples", n*n*n)
	r.ParallelFor(n*n*n, func(k int) {
		a, b, c := sub[k/(n*n)], sub[k/n%n], sub[k%n]
		var out []byte
		var cerr error
		var pan any
		func() {
			defer func() { pan = recover() }()
			be := spirv.NewBackend(o.o)
			_, _ = be.Compile(a.mod)
			_, _ = be.Compile(b.mod)
			w, err := be.Compile(c.mod)
			out, cerr = append([]byte(nil), w...), err
		}()
		r.Count("evaluations", 1)
		if pan != nil || cerr != nil {
			r.Skip("third compile failed or panicked (pairs judge this)")
			return
		}
		cl, detail := c15SpirvRun(c.c, c.ref, out)
		if cl == "" || cl == "skip" {
			return
		}
		r.Violate(explore.Violation{Key: "C15|spirv|reuse3:" + o.name + "|" + c15Class(c.c.Sig) + "|after " + a.c.Family + "," + b.c.Family + "|" + cl,
			Detail: fmt.Sprintf("SPIR-V for %s compiled third on a Backend after %s and %s is not safe on hostile data: %s", c.c.Sig, a.c.Sig, b.c.Sig, detail),
			Replay: map[string]any{"first": a.c.Sig, "second": b.c.Sig, "third": c.c.Sig, "src": wgen.Print(c.c.Mod)}})
	})
}

// c15LayoutFamily: the single-entry-point programs of F15xz as an ordinary per-program family
// (zero initialisation of every workgroup variable, at every position of the global list, used
// directly or only through a helper function) for all back ends.
func c15LayoutFamily(thorough bool) *wgen.Family {
	all := wgen.F15xLayouts(thorough)
	var idx []int
	for i := 0; i < all.Count; i++ {
		if strings.HasSuffix(all.At(i).Sig, "/main-first") {
			idx = append(idx, i)
		}
	}
	return &wgen.Family{Name: "F15xz", Count: len(idx), At: func(i int) *wgen.Case { return all.At(idx[i]) }}
}
