package checks

import (
	"fmt"
	"os"
	"strings"

	"verif/internal/explore"
	"verif/internal/wgen"
)

// C19 extensions: three exhaustively enumerated sub-spaces of meaning-neutral edits.
//
//   (1) trivia strings: every string up to a length bound over {/ * a blank LF} (and over {/ * a}
//       to a larger bound) that an independent reference scanner classifies as pure trivia, put at
//       a handful of characteristic token boundaries of two small seeds; line comments are closed by
//       every line break;
//   (2) renaming as order permutation: the wgen C19 order family instantiated with every
//       permutation of the lexicographic order of its k names, in three length styles;
//   (3) template-close adjacency: the wgen C19 template family (and the other small seeds) under
//       every whitespace removal/insertion the reference tokenizer (with template-list discovery)
//       judges neutral, including all fillings of 3-boundary windows around `<`/`>` tokens.

// ---------------------------------------------------------------- (1) trivia strings

// '§' marks an insertion site; the site names follow in order.
var c19TriviaSeeds = []struct {
	name  string
	src   string
	sites []string
}{
	{"trivia/compute",
		"§@group(0) @binding(0)\nvar<storage, read_write> o: array<vec2<§f32>§>;\n@compute @workgroup_size(1)\nfn main() {\n    let a = o[0].x *§ 2.0 §/ 3.0§;\n    o[1] = vec2<f32>(a§,§ 1.0);\n}§",
		[]string{"start", "in-template-list", "between-template-closers", "after-star", "before-slash", "before-semicolon", "before-comma", "after-comma", "end"}},
	{"trivia/fragment",
		"struct S {§ a: vec4<f32>, b: array<i32, 2§> }\n@group(0) @binding(0) var<uniform> u: S;\nfn h(p: ptr<function, i32>§) -> i32 { return *p >>§ 1u; }\n@fragment fn fs() -> @§location(0) vec4<f32> {\n    var k = u.b[1];\n    if h(&k) >=§ 0 §{ return u.a; }\n    return vec4<f32>(0.0)§;\n}\n§",
		[]string{"after-brace", "before-template-close", "after-template-close", "after-shift", "inside-attribute", "after-ge", "before-brace", "before-semicolon", "end"}},
}

func c19TriviaClassName(s string) string {
	hasLine, hasBlock, nested := false, false, false
	// (classification only labels the violation key; it follows the reference scanner's structure)
	i, n := 0, len(s)
	for i < n {
		if s[i] == '/' && i+1 < n && s[i+1] == '/' {
			hasLine = true
			for i < n && s[i] != '\n' && s[i] != '\r' && s[i] != '\v' && s[i] != '\f' && s[i] < 0x80 {
				i++
			}
			continue
		}
		if s[i] == '/' && i+1 < n && s[i+1] == '*' {
			hasBlock = true
			depth := 1
			i += 2
			for depth > 0 && i+1 < n {
				switch {
				case s[i] == '/' && s[i+1] == '*':
					depth++
					nested = true
					i += 2
				case s[i] == '*' && s[i+1] == '/':
					depth--
					i += 2
				default:
					i++
				}
			}
			continue
		}
		i++
	}
	switch {
	case hasLine && hasBlock:
		return "line+block"
	case hasLine:
		return "line"
	case nested:
		return "block-nested"
	case hasBlock:
		return "block"
	}
	return "blank"
}

// c19LineBreaks: every WGSL line break (LF is the alphabet's own).
var c19LineBreaks = []struct{ name, text string }{
	{"lf", "\n"}, {"crlf", "\r\n"}, {"cr", "\r"}, {"vt", "\v"}, {"ff", "\f"}, {"nel", "\u0085"}, {"ls", "\u2028"}, {"ps", "\u2029"},
}

type c19TriviaStr struct {
	text string
	set  string
	eof  bool // neutral only at the very end of the text (ends inside a line comment)
}

// c19TriviaSpace builds the enumerated trivia strings (deterministic order, no duplicates).
func c19TriviaSpace(thorough bool) []c19TriviaStr {
	lenA, lenB, lenL := 12, 8, 6
	if thorough {
		lenA, lenB, lenL = 13, 9, 7
	}
	seen := map[string]bool{}
	var out []c19TriviaStr
	add := func(s, set string, eof bool) {
		if !seen[s] {
			seen[s] = true
			out = append(out, c19TriviaStr{s, set, eof})
		}
	}
	full := []string{"/", "*", "a", " ", "\n"}
	// A: sequences of (nested) block comments over {/ * a}
	for _, s := range wgen.C19TriviaStrings([]string{"/", "*", "a"}, lenA, wgen.C19Trivia, true) {
		add(s, "A", false)
	}
	// B: block comments, line comments closed by LF, blanks, in every interleaving
	bs := wgen.C19TriviaStrings(full, lenB, wgen.C19Trivia, true)
	for _, s := range bs {
		add(s, "B", false)
	}
	// B': the same with every LF written as CR LF and as a lone CR
	for _, s := range bs {
		if strings.Contains(s, "\n") {
			add(strings.ReplaceAll(s, "\n", "\r\n"), "B-crlf", false)
			add(strings.ReplaceAll(s, "\n", "\r"), "B-cr", false)
		}
	}
	// L: texts that end inside a line comment (`/*`, `*/`, `//` inside it mean nothing): closed by
	// each line break, and unclosed at the end of the text
	for _, s := range wgen.C19TriviaStrings(full, lenL, wgen.C19TriviaToEOL, true) {
		for _, lb := range c19LineBreaks {
			add(s+lb.text, "L-"+lb.name, false)
		}
		add(s, "L-eof", true)
	}
	// W: every WGSL blankspace code point on its own and in front of an empty block comment
	for _, b := range c19Blanks {
		add(b.text, "W-"+b.name, false)
		add(b.text+"/**/", "W-"+b.name, false)
	}
	return out
}

// c19Blanks: every WGSL blankspace code point.
var c19Blanks = []struct{ name, text string }{
	{"space", " "}, {"tab", "\t"}, {"lf", "\n"}, {"vt", "\v"}, {"ff", "\f"}, {"cr", "\r"}, {"nel", "\u0085"},
	{"lrm", "\u200E"}, {"rlm", "\u200F"}, {"ls", "\u2028"}, {"ps", "\u2029"},
}

// c19Part: authoring aid (VERIF_C19_PART=classic|ws|trivia|order runs one sub-space only; never set by a registered command).
func c19Part(name string) bool {
	p := os.Getenv("VERIF_C19_PART")
	return p == "" || p == name
}

type c19Job func()

func c19TriviaJobs(r *explore.Run) []c19Job {
	space := c19TriviaSpace(r.Thorough())
	r.Extra("trivia_strings", len(space))
	var jobs []c19Job
	for si := range c19TriviaSeeds {
		sd := c19TriviaSeeds[si]
		parts := strings.Split(sd.src, "§")
		if len(parts) != len(sd.sites)+1 {
			panic("c19: site list does not match the markers of " + sd.name)
		}
		src := strings.Join(parts, "")
		base := c19Observe(src)
		if !base.accepted {
			r.Skip("trivia seed rejected by the front end (C08): " + sd.name)
			continue
		}
		baseToks, _ := wgen.C19Lex(src)
		for site := range sd.sites {
			site := site
			prefix := strings.Join(parts[:site+1], "")
			suffix := strings.Join(parts[site+1:], "")
			const chunk = 512
			for lo := 0; lo < len(space); lo += chunk {
				lo := lo
				hi := lo + chunk
				if hi > len(space) {
					hi = len(space)
				}
				jobs = append(jobs, func() {
					for _, ts := range space[lo:hi] {
						if ts.eof && suffix != "" {
							continue
						}
						edited := prefix + ts.text + suffix
						// the reference tokenizer must agree that the token sequence is unchanged
						if t2, ok := wgen.C19Lex(edited); !ok || !wgen.C19SameTokens(baseToks, t2) {
							r.Count("trivia_candidates_not_neutral_at_site", 1)
							continue
						}
						kind := "enum-trivia:" + c19TriviaClassName(ts.text) + "/" + ts.set + "@" + sd.sites[site]
						r.Count("evaluations", 1)
						r.Count("trivia_enum_evaluations", 1)
						r.Distinct("enum-trivia:" + c19TriviaClassName(ts.text) + "/" + ts.set)
						ed := c19Observe(edited)
						if diff := c19Compare(base, ed, nil); diff != "" {
							r.Violate(explore.Violation{Key: "C19|" + kind + "|" + diff + "|" + sd.name,
								Detail: fmt.Sprintf("pure-trivia string %q inserted at site %s of %s: %s", ts.text, sd.sites[site], sd.name, diff),
								Replay: map[string]any{"seed": sd.name, "edit": kind, "inserted": ts.text, "original": src, "edited": edited}})
						}
					}
				})
			}
		}
	}
	jobs = append(jobs, c19TriviaPairJobs(r)...)
	return jobs
}

// c19TriviaPairSites: pairs of sites of the first trivia seed that receive two trivia strings at once
// (a scanner that leaves state behind after one comment shows at the next one).
var c19TriviaPairSites = [][2]string{{"start", "before-semicolon"}, {"in-template-list", "between-template-closers"}, {"after-star", "before-slash"}, {"after-comma", "end"}}

func c19TriviaPairJobs(r *explore.Run) []c19Job {
	lenA, lenB := 8, 5
	if r.Thorough() {
		lenA, lenB = 10, 6
	}
	var set []string
	seen := map[string]bool{}
	for _, s := range append(wgen.C19TriviaStrings([]string{"/", "*", "a"}, lenA, wgen.C19Trivia, true),
		wgen.C19TriviaStrings([]string{"/", "*", "a", " ", "\n"}, lenB, wgen.C19Trivia, true)...) {
		if !seen[s] {
			seen[s] = true
			set = append(set, s)
		}
	}
	r.Extra("trivia_pair_strings", len(set))
	sd := c19TriviaSeeds[0]
	parts := strings.Split(sd.src, "§")
	src := strings.Join(parts, "")
	base := c19Observe(src)
	if !base.accepted {
		return nil
	}
	baseToks, _ := wgen.C19Lex(src)
	siteIdx := func(name string) int {
		for i, n := range sd.sites {
			if n == name {
				return i
			}
		}
		panic("c19: unknown site " + name)
	}
	var jobs []c19Job
	for _, sp := range c19TriviaPairSites {
		s1, s2 := siteIdx(sp[0]), siteIdx(sp[1])
		pre := strings.Join(parts[:s1+1], "")
		mid := strings.Join(parts[s1+1:s2+1], "")
		post := strings.Join(parts[s2+1:], "")
		kind := "enum-trivia-pair@" + sp[0] + "+" + sp[1]
		for ai := range set {
			a := set[ai]
			jobs = append(jobs, func() {
				for _, b := range set {
					edited := pre + a + mid + b + post
					if t2, ok := wgen.C19Lex(edited); !ok || !wgen.C19SameTokens(baseToks, t2) {
						r.Count("trivia_candidates_not_neutral_at_site", 1)
						continue
					}
					r.Count("evaluations", 1)
					r.Count("trivia_pair_evaluations", 1)
					r.Distinct("enum-trivia-pair")
					ed := c19Observe(edited)
					if diff := c19Compare(base, ed, nil); diff != "" {
						r.Violate(explore.Violation{Key: "C19|" + kind + "|" + diff + "|" + sd.name,
							Detail: fmt.Sprintf("pure-trivia strings %q and %q inserted at sites %s and %s of %s: %s", a, b, sp[0], sp[1], sd.name, diff),
							Replay: map[string]any{"seed": sd.name, "edit": kind, "inserted": []string{a, b}, "original": src, "edited": edited}})
					}
				}
			})
		}
	}
	return jobs
}

// ---------------------------------------------------------------- (2) renaming as order permutation

func c19OrderJobs(r *explore.Run) []c19Job {
	cases := wgen.C19OrderCases(r.Thorough())
	r.Extra("order_cases", len(cases))
	perms := map[int][][]int{3: wgen.C19Perms(3), 4: wgen.C19Perms(4)}
	var jobs []c19Job
	for ci := range cases {
		c := cases[ci]
		jobs = append(jobs, func() {
			baseNames := wgen.C19Names(perms[c.K][0], 0)
			src := c.Source(baseNames)
			base := c19Observe(src)
			if !base.accepted {
				r.Skip("order-family seed rejected by the front end (C08): " + strings.Join(strings.Split(c.Name, "/")[:3], "/"))
				return
			}
			r.Count("order_cases_accepted", 1)
			group := strings.Join(strings.Split(c.Name, "/")[:3], "/")
			for pi, p := range perms[c.K] {
				for style := 0; style < wgen.C19NameStyleCount; style++ {
					if pi == 0 && style == 0 {
						continue
					}
					names := wgen.C19Names(p, style)
					ren := map[string]string{}
					for i := range names {
						ren[baseNames[i]] = names[i]
					}
					edited := c.Source(names)
					kind := fmt.Sprintf("rename-order-perm/style%d", style)
					r.Count("evaluations", 1)
					r.Count("order_perm_evaluations", 1)
					r.Distinct(kind)
					ed := c19Observe(edited)
					if diff := c19Compare(base, ed, ren); diff != "" {
						r.Violate(explore.Violation{Key: "C19|" + kind + "|" + diff + "|" + group,
							Detail: fmt.Sprintf("%s: names %v instead of %v (same program up to renaming): %s", c.Name, names, baseNames, diff),
							Replay: map[string]any{"seed": c.Name, "edit": kind, "names": names, "original": src, "edited": edited}})
					}
				}
			}
		})
	}
	return jobs
}

// ---------------------------------------------------------------- (3) whitespace edits judged by the reference tokenizer

func c19WsJob(r *explore.Run, name, src string) c19Job {
	return func() {
		base := c19Observe(src)
		if !base.accepted {
			if strings.HasPrefix(name, "tmpl/") {
				r.Skip("template-family seed rejected by the front end (C08): " + name)
			}
			return
		}
		if strings.HasPrefix(name, "tmpl/") {
			r.Count("tmpl_seeds_accepted", 1)
		}
		disc := wgen.C19WhitespaceEdits(src, 3, func(e wgen.C19WsEdit) {
			r.Count("evaluations", 1)
			r.Count("ws_edit_evaluations", 1)
			r.Distinct(e.Kind)
			ed := c19Observe(e.Src)
			if diff := c19Compare(base, ed, nil); diff != "" {
				r.Violate(explore.Violation{Key: "C19|" + e.Kind + "|" + diff + "|" + name,
					Detail: fmt.Sprintf("whitespace edit %s at token boundary %d of %s (reference token sequence unchanged): %s", e.Kind, e.Site, name, diff),
					Replay: map[string]any{"seed": name, "edit": e.Kind, "site": e.Site, "original": trunc(src, 20000), "edited": trunc(e.Src, 20000)}})
			}
		})
		r.Count("ws_candidates_not_neutral", int64(disc))
	}
}
