package checks

// C07, static part for the F3x family (internal/wgen/f3x*.go): type trees with f16, atomics and
// spelled @align/@size attributes. Nothing is executed. For every program the layout naga assigns is
// read back through independent readers and compared with the reference WGSL layout (wref.Layout):
//
//   ir      ir.Module.Types: member offsets, struct spans, array strides/lengths, scalar widths, ir.TypeSize
//   spirv   Offset / ArrayStride / MatrixStride decorations and type shapes (v1.0 and v1.4)
//   msl     the struct declarations of the emitted text laid out by the C++ rules of internal/mslx
//   hlsl    uniform buffers: the cbuffer laid out by the packing rules of internal/hlslx (32-bit types only);
//           storage buffers: the byte ranges of the constant-address Load/Store accesses (c07x_hlsl.go)
//   glsl    interface blocks laid out by the std430/std140 calculator of internal/glslx (declarations
//           only: glslx.ParseLayout, which also lays out float16_t / f16vecN / f16matCxR)
//
// A construct a reader does not model (HLSL half types in a cbuffer, members a backend splits or
// renames) is counted as skipped, never as a violation. When the IR layout of a case already
// differs from the WGSL layout, that is the violation reported for the case and the backends (which
// take their offsets from the IR) are not judged for it.

import (
	"fmt"
	"regexp"
	"strings"

	"github.com/gogpu/naga/ir"
	"github.com/gogpu/naga/msl"
	"github.com/gogpu/naga/spirv"

	"verif/internal/explore"
	"verif/internal/glslx"
	"verif/internal/hlslx"
	"verif/internal/mslx"
	"verif/internal/nagax"
	"verif/internal/spv"
	"verif/internal/wgen"
	"verif/internal/wref"
)

func init() {
	extraFamilyByName["F3x"] = func() *wgen.Family { return wgen.F3x(false) }
	extraFamilyByName["F3xt"] = func() *wgen.Family { return wgen.F3x(true) }
}

// c07xSelfCheck: the generator-side layout helpers and the oracle were written separately; they must agree.
func c07xSelfCheck(t *wgen.XT, l *wref.XLayout) {
	if wgen.XAlignOf(t) != l.Align || wgen.XSizeOf(t) != l.Size {
		panic(fmt.Sprintf("HARNESS-ERROR: wgen and wref layouts disagree on %s: %d/%d vs %d/%d", t.Sig(), wgen.XAlignOf(t), wgen.XSizeOf(t), l.Align, l.Size))
	}
	switch t.K {
	case wgen.XArray:
		if wgen.XStride(t) != l.Stride {
			panic("HARNESS-ERROR: wgen and wref strides disagree on " + t.Sig())
		}
		c07xSelfCheck(t.Elem, l.Elem)
	case wgen.XStruct:
		for i, o := range wgen.XOffsets(t) {
			if o != l.Offsets[i] {
				panic("HARNESS-ERROR: wgen and wref offsets disagree on " + t.Sig())
			}
			c07xSelfCheck(t.Members[i].T, l.Members[i])
		}
	}
}

// ---------------------------------------------------------------- IR

func c07xScalarKindOK(k ir.ScalarKind, s string) bool {
	switch s {
	case "f16", "f32":
		return k == ir.ScalarFloat
	case "i32":
		return k == ir.ScalarSint
	case "u32":
		return k == ir.ScalarUint
	}
	return false
}

func c07xWalkIR(m *ir.Module, h ir.TypeHandle, l *wref.XLayout, path string, bad func(string)) {
	if int(h) >= len(m.Types) {
		bad(path + ": type handle out of range")
		return
	}
	t := l.T
	if !l.Runtime {
		if sz := ir.TypeSize(m, h); int(sz) != l.Size {
			bad(fmt.Sprintf("%s: ir.TypeSize %d, WGSL size %d (%s)", path, sz, l.Size, kindName(t)))
		}
	}
	scalar := func(sc ir.ScalarType) {
		if int(sc.Width) != l.Scalar || !c07xScalarKindOK(sc.Kind, t.S) {
			bad(fmt.Sprintf("%s: IR scalar kind %d width %d where WGSL has %s", path, sc.Kind, sc.Width, kindName(t)))
		}
	}
	switch in := m.Types[h].Inner.(type) {
	case ir.StructType:
		if t.K != wgen.XStruct || len(in.Members) != len(t.Members) {
			bad(fmt.Sprintf("%s: IR struct shape differs", path))
			return
		}
		for i, mem := range in.Members {
			if int(mem.Offset) != l.Offsets[i] {
				bad(fmt.Sprintf("%s.%s: IR offset %d, WGSL offset %d", path, t.Members[i].Name, mem.Offset, l.Offsets[i]))
			}
			c07xWalkIR(m, mem.Type, l.Members[i], path+"."+t.Members[i].Name, bad)
		}
		if !l.Runtime && int(in.Span) != l.Size {
			bad(fmt.Sprintf("%s: IR span %d, WGSL size %d", path, in.Span, l.Size))
		}
	case ir.ArrayType:
		if t.K != wgen.XArray {
			bad(path + ": IR array where WGSL has " + kindName(t))
			return
		}
		if int(in.Stride) != l.Stride {
			bad(fmt.Sprintf("%s: IR array stride %d, WGSL stride %d", path, in.Stride, l.Stride))
		}
		if (in.Size.Constant == nil) != (t.Len == 0) || (in.Size.Constant != nil && int(*in.Size.Constant) != t.Len) {
			bad(fmt.Sprintf("%s: IR array length differs from WGSL length %d", path, t.Len))
		}
		c07xWalkIR(m, in.Base, l.Elem, path+"[]", bad)
	case ir.MatrixType:
		if t.K != wgen.XMat || int(in.Columns) != t.C || int(in.Rows) != t.N {
			bad(path + ": IR matrix shape where WGSL has " + kindName(t))
			return
		}
		scalar(in.Scalar)
	case ir.VectorType:
		if t.K != wgen.XVec || int(in.Size) != t.N {
			bad(path + ": IR vector shape where WGSL has " + kindName(t))
			return
		}
		scalar(in.Scalar)
	case ir.ScalarType:
		if t.K != wgen.XScalar {
			bad(path + ": IR scalar where WGSL has " + kindName(t))
			return
		}
		scalar(in)
	case ir.AtomicType:
		if t.K != wgen.XAtomic {
			bad(path + ": IR atomic where WGSL has " + kindName(t))
			return
		}
		scalar(in.Scalar)
	default:
		bad(fmt.Sprintf("%s: IR type %T where WGSL has %s", path, in, kindName(t)))
	}
}

// kindName is the type spelled without lengths/attributes detail that would split keys needlessly.
func kindName(t *wgen.XT) string {
	sc := map[string]string{"f16": "half", "f32": "float", "i32": "int", "u32": "uint"}[t.S]
	switch t.K {
	case wgen.XArray:
		return "array"
	case wgen.XStruct:
		return "struct"
	case wgen.XVec:
		return "vec<" + sc + ">"
	case wgen.XMat:
		return "mat<" + sc + ">"
	case wgen.XAtomic:
		return "atomic<" + sc + ">"
	}
	return sc
}

// c07xClass normalises a message into a failure class: numbers and member letters are dropped,
// type classes (which carry no digits) are kept.
func c07xClass(msg string) string {
	return errClass(c07xMember.ReplaceAllString(msg, ".m"))
}

var c07xMember = regexp.MustCompile(`\.m[a-f]\b`)

// ---------------------------------------------------------------- SPIR-V

type spvX struct {
	m      *spv.Module
	defs   map[uint32]*spv.Inst
	layout bool // explicit layout required (storage / uniform)
}

func (s *spvX) dec(id uint32, member int, dec uint32) (uint32, bool) {
	for _, d := range s.m.Decorate(id, member) {
		if d.Dec == dec && len(d.Args) > 0 {
			return d.Args[0], true
		}
	}
	return 0, false
}

func (s *spvX) constant(id uint32) (uint32, bool) {
	in := s.defs[id]
	if in == nil || in.Op != spv.OpConstant || len(in.Operands()) == 0 {
		return 0, false
	}
	return in.Operands()[0], true
}

func (s *spvX) leaf(id uint32, l *wref.XLayout, path string, bad func(string)) {
	t := l.T
	in := s.defs[id]
	if in == nil {
		return
	}
	ops := in.Operands()
	scalar := func(id uint32) {
		sc := s.defs[id]
		if sc == nil || len(sc.Operands()) == 0 {
			return
		}
		w := int(sc.Operands()[0])
		isF := t.S == "f16" || t.S == "f32"
		if (sc.Op == spv.OpTypeFloat) != isF || (sc.Op != spv.OpTypeFloat && sc.Op != spv.OpTypeInt) || w != 8*l.Scalar {
			bad(fmt.Sprintf("%s: SPIR-V scalar op %d width %d where WGSL has %s", path, sc.Op, w, kindName(t)))
		}
	}
	vector := func(id uint32, n int) {
		v := s.defs[id]
		if v == nil || v.Op != spv.OpTypeVector || len(v.Operands()) < 2 || int(v.Operands()[1]) != n {
			bad(fmt.Sprintf("%s: SPIR-V type is not a %d-component vector where WGSL has %s", path, n, kindName(t)))
			return
		}
		scalar(v.Operands()[0])
	}
	switch t.K {
	case wgen.XScalar, wgen.XAtomic:
		scalar(id)
	case wgen.XVec:
		vector(id, t.N)
	case wgen.XMat:
		if in.Op != spv.OpTypeMatrix || len(ops) < 2 || int(ops[1]) != t.C {
			bad(fmt.Sprintf("%s: SPIR-V type is not a %d-column matrix where WGSL has %s", path, t.C, kindName(t)))
			return
		}
		vector(ops[0], t.N)
	}
}

func (s *spvX) walk(id uint32, l *wref.XLayout, path string, top bool, bad func(string)) {
	in := s.defs[id]
	if in == nil {
		return
	}
	t := l.T
	ops := in.Operands()
	if in.Op == spv.OpTypeStruct && top && len(ops) == 1 {
		// naga wraps a buffer's store type in a one-member Block struct (always for non-struct types);
		// a one-member WGSL struct holding a struct is the only shape for which the two readings coincide
		inner := s.defs[ops[0]]
		wrapsStruct := t.K == wgen.XStruct && inner != nil && inner.Op == spv.OpTypeStruct && len(inner.Operands()) == len(t.Members) &&
			!(len(t.Members) == 1 && t.Members[0].T.K == wgen.XStruct)
		if t.K != wgen.XStruct || wrapsStruct {
			if s.layout {
				if off, ok := s.dec(id, 0, spv.DecOffset); !ok || off != 0 {
					bad(path + ": wrapper struct member has no Offset 0 decoration")
				}
				if l.ColStride != 0 {
					if ms, ok := s.dec(id, 0, spv.DecMatrixStride); !ok || int(ms) != l.ColStride {
						bad(fmt.Sprintf("%s: MatrixStride %d (present=%v), WGSL column stride %d", path, ms, ok, l.ColStride))
					}
				}
			}
			s.walk(ops[0], l, path, false, bad)
			return
		}
	}
	switch t.K {
	case wgen.XStruct:
		if in.Op != spv.OpTypeStruct || len(ops) != len(t.Members) {
			bad(path + ": SPIR-V struct member count differs")
			return
		}
		for i, mid := range ops {
			mp := path + "." + t.Members[i].Name
			if s.layout {
				off, ok := s.dec(id, i, spv.DecOffset)
				if !ok {
					bad(mp + ": member has no Offset decoration")
				} else if int(off) != l.Offsets[i] {
					bad(fmt.Sprintf("%s: SPIR-V Offset %d, WGSL offset %d", mp, off, l.Offsets[i]))
				}
				if cs := l.Members[i].ColStride; cs != 0 {
					if ms, ok := s.dec(id, i, spv.DecMatrixStride); !ok || int(ms) != cs {
						bad(fmt.Sprintf("%s: MatrixStride %d (present=%v), WGSL column stride %d", mp, ms, ok, cs))
					}
				}
			}
			s.walk(mid, l.Members[i], mp, false, bad)
		}
	case wgen.XArray:
		if (in.Op != spv.OpTypeArray && in.Op != spv.OpTypeRuntimeArray) || len(ops) == 0 {
			bad(path + ": SPIR-V type is not an array")
			return
		}
		if (in.Op == spv.OpTypeRuntimeArray) != (t.Len == 0) {
			bad(path + ": SPIR-V array runtime-sizedness differs")
		} else if t.Len != 0 && len(ops) > 1 {
			if n, ok := s.constant(ops[1]); ok && int(n) != t.Len {
				bad(fmt.Sprintf("%s: SPIR-V array length %d, WGSL length %d", path, n, t.Len))
			}
		}
		if s.layout {
			if st, ok := s.dec(id, -1, spv.DecArrayStride); !ok {
				bad(path + ": array type has no ArrayStride decoration")
			} else if int(st) != l.Stride {
				bad(fmt.Sprintf("%s: SPIR-V ArrayStride %d, WGSL stride %d", path, st, l.Stride))
			}
		}
		s.walk(ops[0], l.Elem, path+"[]", false, bad)
	default:
		s.leaf(id, l, path, bad)
	}
}

// ---------------------------------------------------------------- MSL

func mslScalarOK(k mslx.Kind, s string) bool {
	switch s {
	case "f16":
		return k == mslx.KHalf
	case "f32":
		return k == mslx.KFloat
	case "i32":
		return k == mslx.KInt
	case "u32":
		return k == mslx.KUInt
	}
	return false
}

// c07xWalkMSL compares the C++ layout of mt with l. It returns false when mt is a construct the
// comparison does not model (counted as skipped by the caller).
func c07xWalkMSL(mt *mslx.Type, l *wref.XLayout, path string, bad func(string), skip func(string)) {
	if mt == nil {
		skip("msl: type not resolved")
		return
	}
	t := l.T
	switch t.K {
	case wgen.XStruct:
		if mt.Kind != mslx.KStruct {
			skip("msl: WGSL struct is not an MSL struct")
			return
		}
		for i, m := range t.Members {
			var f *mslx.Field
			for k := range mt.Fields {
				if mt.Fields[k].Name == m.Name {
					f = &mt.Fields[k]
				}
			}
			if f == nil {
				skip("msl: struct member not found by name")
				continue
			}
			if f.Off != l.Offsets[i] {
				bad(fmt.Sprintf("%s.%s: MSL (C++) offset %d, WGSL offset %d [%s after %s]", path, m.Name, f.Off, l.Offsets[i], kindName(m.T), prevKind(t, i)))
			}
			c07xWalkMSL(f.T, l.Members[i], path+"."+m.Name, bad, skip)
		}
		if !l.Runtime && mt.Size != l.Size {
			bad(fmt.Sprintf("%s: MSL sizeof %d, WGSL size %d", path, mt.Size, l.Size))
		}
	case wgen.XArray:
		at := mt
		if at.Kind == mslx.KStruct && len(at.Fields) == 1 && at.Fields[0].T.Kind == mslx.KArray {
			// naga wraps fixed-size arrays in a one-member struct so that they are copyable values
			if at.Fields[0].Off != 0 {
				bad(path + ": MSL array wrapper member is not at offset 0")
			}
			at = at.Fields[0].T
		}
		if at.Kind != mslx.KArray {
			skip("msl: WGSL array is not an MSL array")
			return
		}
		if at.Elem.Size != l.Stride {
			bad(fmt.Sprintf("%s: MSL array element size (stride) %d, WGSL stride %d [%s]", path, at.Elem.Size, l.Stride, kindName(t.Elem)))
		}
		if t.Len != 0 && at.N != t.Len {
			bad(fmt.Sprintf("%s: MSL array length %d, WGSL length %d", path, at.N, t.Len))
		}
		c07xWalkMSL(at.Elem, l.Elem, path+"[]", bad, skip)
	case wgen.XScalar:
		if mt.Kind < mslx.KBool || mt.Kind > mslx.KHalf {
			skip("msl: WGSL scalar is not an MSL scalar")
			return
		}
		if !mslScalarOK(mt.Kind, t.S) {
			bad(fmt.Sprintf("%s: MSL type %s where WGSL has %s", path, mt, kindName(t)))
		}
	case wgen.XAtomic:
		if mt.Kind != mslx.KAtomic {
			skip("msl: WGSL atomic is not an MSL atomic")
			return
		}
		if !mslScalarOK(mt.Elem.Kind, t.S) {
			bad(fmt.Sprintf("%s: MSL type %s where WGSL has %s", path, mt, kindName(t)))
		}
	case wgen.XVec:
		if mt.Kind != mslx.KVec && mt.Kind != mslx.KPackedVec {
			skip("msl: WGSL vector is not an MSL vector")
			return
		}
		if mt.N != t.N || !mslScalarOK(mt.Elem.Kind, t.S) {
			bad(fmt.Sprintf("%s: MSL type %s where WGSL has %s", path, mt, kindName(t)))
		}
	case wgen.XMat:
		if mt.Kind != mslx.KMat {
			skip("msl: WGSL matrix is not an MSL matrix")
			return
		}
		if mt.N != t.C || mt.Rows != t.N || mt.Elem == nil || mt.Elem.Elem == nil || !mslScalarOK(mt.Elem.Elem.Kind, t.S) {
			bad(fmt.Sprintf("%s: MSL type %s where WGSL has %s", path, mt, kindName(t)))
		} else if mt.Elem.Size != l.ColStride {
			bad(fmt.Sprintf("%s: MSL matrix column size %d, WGSL column stride %d", path, mt.Elem.Size, l.ColStride))
		}
	}
}

func prevKind(t *wgen.XT, i int) string {
	if i == 0 {
		return "start"
	}
	return kindName(t.Members[i-1].T)
}

// ---------------------------------------------------------------- HLSL (cbuffer)

func c07xWalkHLSL(ml *hlslx.MemberLayout, l *wref.XLayout, base int, path string, bad func(string), skip func(string)) {
	t := l.T
	switch t.K {
	case wgen.XStruct:
		for i, m := range t.Members {
			var f *hlslx.MemberLayout
			for k := range ml.Members {
				if ml.Members[k].Name == m.Name {
					f = &ml.Members[k]
				}
			}
			if f == nil {
				skip("hlsl: struct member not found by name (split matrix)")
				continue
			}
			if f.Offset != base+l.Offsets[i] {
				bad(fmt.Sprintf("%s.%s: HLSL cbuffer offset %d, WGSL offset %d [%s after %s]", path, m.Name, f.Offset-base, l.Offsets[i], kindName(m.T), prevKind(t, i)))
			}
			c07xWalkHLSL(f, l.Members[i], f.Offset, path+"."+m.Name, bad, skip)
		}
	case wgen.XArray:
		if ml.Count == 0 {
			skip("hlsl: WGSL array is not an HLSL array")
			return
		}
		if ml.Stride != l.Stride {
			bad(fmt.Sprintf("%s: HLSL cbuffer array stride %d, WGSL stride %d [%s]", path, ml.Stride, l.Stride, kindName(t.Elem)))
		}
		if ml.Count != t.Len {
			bad(fmt.Sprintf("%s: HLSL array length %d, WGSL length %d", path, ml.Count, t.Len))
		}
		if t.Elem.K == wgen.XStruct {
			c07xWalkHLSL(ml, l.Elem, ml.Offset, path+"[]", bad, skip)
		}
	case wgen.XMat:
		if ml.Stride == 0 {
			skip("hlsl: WGSL matrix is not an HLSL matrix")
			return
		}
		if !ml.RowMajor {
			skip("hlsl: column_major matrix member")
			return
		}
		if ml.Stride != l.ColStride {
			bad(fmt.Sprintf("%s: HLSL cbuffer matrix register stride %d, WGSL column stride %d", path, ml.Stride, l.ColStride))
		}
	case wgen.XScalar, wgen.XVec:
		if ml.Size != l.Size {
			bad(fmt.Sprintf("%s: HLSL member occupies %d bytes, WGSL size %d (%s)", path, ml.Size, l.Size, kindName(t)))
		}
	}
}

// ---------------------------------------------------------------- GLSL (std430 / std140 blocks)

func c07xWalkGLSL(f *glslx.Field, l *wref.XLayout, path string, bad func(string), skip func(string)) {
	t := l.T
	if t.K == wgen.XArray {
		if f.ArrayLen == 0 {
			skip("glsl: WGSL array is not a GLSL array")
			return
		}
		if f.Stride != l.Stride {
			bad(fmt.Sprintf("%s: GLSL array stride %d, WGSL stride %d [%s]", path, f.Stride, l.Stride, kindName(t.Elem)))
		}
		if (f.ArrayLen < 0) != (t.Len == 0) || (t.Len != 0 && f.ArrayLen != t.Len) {
			bad(fmt.Sprintf("%s: GLSL array length %d, WGSL length %d", path, f.ArrayLen, t.Len))
		}
		l, t, path = l.Elem, t.Elem, path+"[]"
		// the element's own members / matrix stride are reported on the same Field
		if t.K == wgen.XScalar || t.K == wgen.XVec || t.K == wgen.XAtomic {
			return
		}
	}
	switch t.K {
	case wgen.XStruct:
		for i, m := range t.Members {
			var mf *glslx.Field
			for k := range f.Members {
				if f.Members[k].Name == m.Name {
					mf = &f.Members[k]
				}
			}
			if mf == nil {
				skip("glsl: struct member not found by name")
				continue
			}
			if mf.Offset != l.Offsets[i] {
				bad(fmt.Sprintf("%s.%s: GLSL block offset %d, WGSL offset %d [%s after %s]", path, m.Name, mf.Offset, l.Offsets[i], kindName(m.T), prevKind(t, i)))
			}
			c07xWalkGLSL(mf, l.Members[i], path+"."+m.Name, bad, skip)
		}
	case wgen.XMat:
		if f.MatrixStride == 0 {
			skip("glsl: WGSL matrix is not a GLSL matrix")
			return
		}
		if f.RowMajor {
			skip("glsl: row_major matrix member")
			return
		}
		if f.MatrixStride != l.ColStride {
			bad(fmt.Sprintf("%s: GLSL matrix stride %d, WGSL column stride %d (%s)", path, f.MatrixStride, l.ColStride, kindName(t)))
		}
	case wgen.XScalar, wgen.XVec, wgen.XAtomic:
		if f.Size != l.Size {
			bad(fmt.Sprintf("%s: GLSL member of type %s occupies %d bytes, WGSL size %d (%s)", path, f.Type, f.Size, l.Size, kindName(t)))
		}
	}
}

// c07xFeatures is the coarse construct class used in the keys of the two observers whose known
// defects fail on tens of thousands of shapes (GLSL blocks, HLSL byte addresses): which layout
// features the type tree has, not the tree itself (the replay data and the detail carry the tree).
func c07xFeatures(t *wgen.XT) string {
	var attr, f16vec, f16, mat2 bool
	var walk func(t *wgen.XT)
	walk = func(t *wgen.XT) {
		switch t.K {
		case wgen.XArray:
			walk(t.Elem)
		case wgen.XStruct:
			for _, m := range t.Members {
				attr = attr || m.Align != 0 || m.Size != 0
				walk(m.T)
			}
		default:
			f16 = f16 || t.S == "f16"
			f16vec = f16vec || (t.S == "f16" && (t.K == wgen.XVec || t.K == wgen.XMat))
			mat2 = mat2 || (t.S == "f32" && t.K == wgen.XMat && t.N == 2)
		}
	}
	walk(t)
	var fs []string
	for _, f := range []struct {
		on bool
		n  string
	}{{attr, "attr"}, {f16vec, "f16vec"}, {f16 && !f16vec, "f16scalar"}, {mat2, "matCx2f32"}} {
		if f.on {
			fs = append(fs, f.n)
		}
	}
	if len(fs) == 0 {
		return "plain"
	}
	return strings.Join(fs, "+")
}

// ---------------------------------------------------------------- per program

func c07xProgram(r *explore.Run, p *prog) {
	thorough := p.Case.Family == "F3xt"
	xc := wgen.F3xShapeAt(thorough, p.Case.Index)
	lay := wref.Layout(xc.T)
	c07xSelfCheck(xc.T, lay)
	sc := xc.Sig
	coarse := "F3x/" + xc.Sub + "/" + xc.Mode + "/" + c07xFeatures(xc.T)
	r.Count("f3x_programs_"+xc.Sub, 1)

	m, stage, err, pn := nagax.Front(p.Src)
	if err != nil || pn != nil {
		why := "panic"
		if err != nil {
			why = errClass(err.Error())
		}
		r.Skip("F3x: front end (" + stage + ") rejected/panicked (C08/C10): " + why)
		return
	}
	violate := func(seen map[string]bool, key, detail string, extra map[string]any) {
		if seen[key] {
			return
		}
		seen[key] = true
		rp := p.replay()
		for k, v := range extra {
			rp[k] = v
		}
		r.Violate(explore.Violation{Key: key, Detail: detail, Replay: rp})
	}

	// ---- IR
	irBad := false
	seen := map[string]bool{}
	for _, g := range xc.Globals {
		for gi := range m.GlobalVariables {
			gv := &m.GlobalVariables[gi]
			if gv.Name != g.Name {
				continue
			}
			r.Count("evaluations", 1)
			c07xWalkIR(m, gv.Type, lay, g.Name, func(msg string) {
				irBad = true
				msg = strings.TrimPrefix(msg, g.Name)
				violate(seen, "C07|ir-layout|"+c07xClass(msg)+"|"+sc, "IR layout of "+xc.Sig+" differs from the WGSL layout: "+g.Name+msg, nil)
			})
		}
	}
	if irBad {
		r.Skip("F3x: backends not judged (the IR layout already differs from the WGSL layout)")
		return
	}
	r.Distinct(fmt.Sprintf("x|%d|%d|%v", lay.Size, lay.Align, lay.Offsets))

	// ---- SPIR-V
	for _, o := range []struct {
		n string
		o spirv.Options
	}{{"v1.0", spirv.Options{Version: spirv.Version1_0}}, {"v1.4", spirv.Options{Version: spirv.Version1_4}}} {
		b, err, pn := nagax.SPIRV(m, o.o)
		if err != nil || pn != nil {
			r.Skip("F3x: spirv backend error/panic (C08/C10)")
			continue
		}
		mod, err := spv.Parse(b)
		if err != nil {
			r.Skip("F3x: spirv reader rejected the module")
			continue
		}
		r.Count("evaluations", 1)
		st := &spvX{m: mod, defs: map[uint32]*spv.Inst{}}
		for i := range mod.Instructions {
			in := &mod.Instructions[i]
			if in.ResultID != 0 {
				st.defs[in.ResultID] = in
			}
		}
		seen := map[string]bool{}
		found := 0
		for i := range mod.Instructions {
			v := &mod.Instructions[i]
			if v.Op != spv.OpVariable {
				continue
			}
			bind, ok := st.dec(v.ResultID, -1, spv.DecBinding)
			if !ok {
				continue
			}
			var g *wgen.XGlobal
			for k := range xc.Globals {
				if xc.Globals[k].Space != "workgroup" && xc.Globals[k].Binding == int(bind) {
					g = &xc.Globals[k]
				}
			}
			pt := st.defs[v.TypeID]
			if g == nil || pt == nil || pt.Op != spv.OpTypePointer || len(pt.Operands()) < 2 {
				continue
			}
			found++
			st.layout = true
			st.walk(pt.Operands()[1], lay, "", true, func(msg string) {
				violate(seen, "C07|spirv-decorations|"+o.n+"|"+c07xClass(msg)+"|"+sc, "SPIR-V layout decorations of "+xc.Sig+" ["+o.n+"] differ from the WGSL layout: "+g.Name+msg, map[string]any{"spirv_version": o.n})
			})
		}
		if found == 0 {
			r.Skip("F3x: no buffer variable found in the SPIR-V module")
		}
	}

	// ---- MSL
	func() {
		opts := nagax.MSLConfigs(0)[0].Opts
		res := map[ir.ResourceBinding]msl.BindTarget{}
		for gi := range m.GlobalVariables {
			g := &m.GlobalVariables[gi]
			if g.Binding == nil {
				continue
			}
			slot := uint8(g.Binding.Binding)
			res[*g.Binding] = msl.BindTarget{Buffer: &slot, Mutable: true}
		}
		sb := uint8(30)
		opts.PerEntryPointMap = map[string]msl.EntryPointResources{"main": {Resources: res, SizesBuffer: &sb}}
		opts.FakeMissingBindings = false
		src, info, err, pn := nagax.MSL(m, opts)
		if err != nil || pn != nil {
			r.Skip("F3x: msl backend error/panic (C08/C10)")
			return
		}
		mp, err := mslx.Parse(src)
		if err != nil {
			r.Skip("F3x: msl reader: " + errClass(err.Error()))
			return
		}
		r.Count("evaluations", 1)
		seen := map[string]bool{}
		bad := func(msg string) {
			violate(seen, "C07|msl-layout|"+c07xClass(msg)+"|"+sc, "C++ layout of the MSL declarations of "+xc.Sig+" differs from the WGSL layout: "+msg, nil)
		}
		// every struct declared for the type tree, by name (covers workgroup-only uses too)
		done := 0
		var structs func(l *wref.XLayout)
		structs = func(l *wref.XLayout) {
			switch l.T.K {
			case wgen.XArray:
				structs(l.Elem)
			case wgen.XStruct:
				if st := mp.StructType(l.T.Name); st != nil {
					done++
					c07xWalkMSL(st, l, l.T.Name, bad, r.Skip)
				} else {
					r.Skip("msl: struct not found by name")
				}
			}
		}
		structs(lay)
		// the buffer parameters of the kernel (arrays and bare types have no named struct)
		if xc.T.K != wgen.XStruct {
			for slot, pt := range mp.BufferParamTypes(info.EntryPointNames["main"]) {
				for _, g := range xc.Globals {
					if g.Space != "workgroup" && g.Binding == slot {
						done++
						c07xWalkMSL(pt, lay, g.Name, bad, r.Skip)
					}
				}
			}
		}
		if done == 0 {
			r.Skip("F3x: msl: nothing to lay out")
		}
	}()

	// ---- HLSL: byte addresses of storage-buffer accesses
	if xc.Mode != "uniform" {
		func() {
			src, _, err, pn := nagax.HLSL(m, nagax.HLSLConfigs(0)[0].Opts)
			if err != nil || pn != nil {
				r.Skip("F3x: hlsl backend error/panic (C08/C10)")
				return
			}
			acc := hlslBufferAccesses(src, r.Skip)
			seen := map[string]bool{}
			for _, g := range xc.Globals {
				if g.Space != "storage" {
					continue
				}
				a, ok := acc[g.Binding]
				if !ok {
					r.Skip("F3x: hlsl: no byte-address buffer at the register of the binding")
					continue
				}
				r.Count("evaluations", 1)
				mk := func(ps []wgen.XProbe) (out []c07xLeaf) {
					for _, p := range ps {
						cl := map[string]string{"f16": "half", "f32": "float", "i32": "int", "u32": "uint"}[p.S]
						if p.Atomic {
							cl = "atomic<" + cl + ">"
						}
						out = append(out, c07xLeaf{Path: p.Path, Off: p.Off, Width: p.Width, Class: cl})
					}
					return
				}
				c07xHLSLAddresses(a, mk(wgen.XProbes(g.Name, g.T)), mk(wgen.XAllLeaves(g.Name, g.T)), g.RW, func(msg string) {
					cls, _, _ := strings.Cut(msg, " :: ")
					violate(seen, "C07|hlsl-address|"+c07xClass(cls)+"|"+coarse, "HLSL byte-address accesses of "+xc.Sig+" do not coincide with the WGSL offsets ("+g.Name+"): "+msg, nil)
				})
			}
		}()
	}

	// ---- HLSL: constant buffers
	if xc.Mode == "uniform" {
		func() {
			if xc.T.UsesF16() {
				r.Skip("F3x: hlsl cbuffer with 16-bit types (packing of half is not modelled by the reader)")
				return
			}
			src, _, err, pn := nagax.HLSL(m, nagax.HLSLConfigs(0)[0].Opts)
			if err != nil || pn != nil {
				r.Skip("F3x: hlsl backend error/panic (C08/C10)")
				return
			}
			hp, err := hlslx.Parse(src)
			if err != nil {
				r.Skip("F3x: hlsl reader: " + errClass(err.Error()))
				return
			}
			var cbs []string
			for _, rs := range hp.Resources() {
				if rs.Kind == "cbuffer" {
					cbs = append(cbs, rs.Name)
				}
			}
			if len(cbs) != 1 {
				r.Skip("F3x: hlsl: expected exactly one cbuffer")
				return
			}
			ms, ok := hp.CBufferLayout(cbs[0])
			if !ok || len(ms) != 1 {
				r.Skip("F3x: hlsl: cbuffer does not hold exactly one member")
				return
			}
			r.Count("evaluations", 1)
			seen := map[string]bool{}
			if ms[0].Offset != 0 {
				violate(seen, "C07|hlsl-cbuffer|member not at offset #|"+sc, "cbuffer member is not at offset 0", nil)
			}
			c07xWalkHLSL(&ms[0], lay, 0, "src", func(msg string) {
				violate(seen, "C07|hlsl-cbuffer|"+c07xClass(msg)+"|"+sc, "HLSL constant-buffer packing of "+xc.Sig+" differs from the WGSL layout: "+msg, nil)
			}, r.Skip)
		}()
	}

	// ---- GLSL
	func() {
		opts := nagax.GLSLConfigs(0)[0].Opts
		opts.EntryPoint = "main"
		src, _, err, pn := nagax.GLSL(m, opts)
		if err != nil || pn != nil {
			r.Skip("F3x: glsl backend error/panic (C08/C10)")
			return
		}
		gp, err := glslx.ParseLayout(src)
		if err != nil {
			r.Skip("F3x: glsl reader: " + errClass(err.Error()))
			return
		}
		seen := map[string]bool{}
		found := 0
		for _, b := range gp.Blocks() {
			bd, err := gp.BindingOf(b.Name, glslx.Opts{})
			if err != nil {
				continue
			}
			for _, g := range xc.Globals {
				if g.Space == "workgroup" || g.Binding != int(bd.Binding) || bd.Group != 0 {
					continue
				}
				if len(b.Members) != 1 {
					r.Skip("F3x: glsl: block does not hold exactly one member")
					continue
				}
				want := "std430"
				if g.Space == "uniform" {
					want = "std140"
				}
				if b.Packing != want {
					r.Skip("F3x: glsl: block packing is " + b.Packing)
					continue
				}
				found++
				r.Count("evaluations", 1)
				if b.Members[0].Offset != 0 {
					violate(seen, "C07|glsl-layout|member not at offset #|"+coarse, "block member is not at offset 0", nil)
				}
				c07xWalkGLSL(&b.Members[0], lay, g.Name, func(msg string) {
					msg = strings.TrimPrefix(msg, g.Name)
					violate(seen, "C07|glsl-layout|"+b.Packing+"|"+c07xClass(msg)+"|"+coarse, b.Packing+" placement of the GLSL block of "+xc.Sig+" differs from the WGSL layout: "+g.Name+msg, nil)
				}, r.Skip)
			}
		}
		if found == 0 {
			r.Skip("F3x: glsl: no block matched a buffer")
		}
	}()
}
