package checks

import (
	"os"
	"sort"
	"strings"
	"unicode/utf8"

	"verif/internal/explore"
)

// ---------------------------------------------------------------- closure plans

// c16Reps returns the first entity of every kind.
func c16Reps(s *c16Seed) []c16Ent {
	seen := map[string]bool{}
	var out []c16Ent
	for _, e := range s.ents {
		if !seen[e.kind] {
			seen[e.kind] = true
			out = append(out, e)
		}
	}
	return out
}

// c16ClosurePlan: level 1 = every harvested spelling at every entity. Deeper levels: every spelling
// that is new in a parent's output, at every entity other than the parent's; in the quick tier only
// parents whose entity is the representative of its kind and whose spelling is the representative of
// its character-shape bucket are expanded; in the thorough tier all level-1 parents are expanded, and
// level-2 parents whose entities are all representatives and whose first spelling is a representative.
func c16ClosurePlan(r *explore.Run, s *c16Seed) c16Plan {
	depth := 2
	if r.Thorough() {
		depth = 3
	}
	repEnt := map[string]bool{}
	for _, e := range c16Reps(s) {
		repEnt[e.key] = true
	}
	repName := map[string]bool{}
	pl := c16Plan{name: "closure_" + s.name, seed: s, depth: depth}
	pl.level1 = func(harvest []string) []c16Job {
		// representative spellings: the harvest is sorted; one spelling per shape bucket. The bucket is
		// computed from the character classes of the spelling only (case pattern, underscores, digits),
		// never from what the spelling says.
		seen := map[string]bool{}
		for _, h := range harvest {
			b := c16Shape(h)
			if !seen[b] {
				seen[b] = true
				repName[h] = true
			}
		}
		r.Extra(pl.name+"_shape_buckets", len(seen))
		var jobs []c16Job
		for _, h := range harvest {
			for _, e := range s.ents {
				jobs = append(jobs, c16Job{set: [][2]string{{e.key, h}}, depth: 1})
			}
		}
		return jobs
	}
	pl.deeper = func(parent c16Job, fresh []string) []c16Job {
		if !r.Thorough() {
			last := parent.set[len(parent.set)-1]
			if parent.depth >= 2 || !repEnt[last[0]] || !repName[last[1]] {
				return nil
			}
		} else if parent.depth >= 2 {
			if !repName[parent.set[0][1]] {
				return nil
			}
			for _, kv := range parent.set {
				if !repEnt[kv[0]] {
					return nil
				}
			}
		}
		var jobs []c16Job
		for _, f := range fresh {
			for _, e := range s.ents {
				used := false
				for _, kv := range parent.set {
					if kv[0] == e.key {
						used = true
					}
				}
				if used {
					continue
				}
				set := append(append([][2]string{}, parent.set...), [2]string{e.key, f})
				jobs = append(jobs, c16Job{set: set, depth: parent.depth + 1})
			}
		}
		return jobs
	}
	return pl
}

// c16Shape abstracts a spelling to its character-class pattern: leading underscores, case of the first
// letter, whether it has an inner underscore, an inner capital, a trailing digit, a trailing underscore.
func c16Shape(h string) string {
	var b strings.Builder
	t := strings.TrimLeft(h, "_")
	switch len(h) - len(t) {
	case 0:
	case 1:
		b.WriteString("_")
	default:
		b.WriteString("__")
	}
	if t != "" {
		switch c := t[0]; {
		case c >= 'A' && c <= 'Z':
			b.WriteString("U")
		case c >= 'a' && c <= 'z':
			b.WriteString("l")
		default:
			b.WriteString("d")
		}
	}
	if len(t) > 2 {
		mid := t[1 : len(t)-1]
		if strings.Contains(mid, "_") {
			b.WriteString("-in_")
		}
		if strings.ContainsAny(mid, "ABCDEFGHIJKLMNOPQRSTUVWXYZ") {
			b.WriteString("-inU")
		}
	}
	if t != "" {
		switch c := t[len(t)-1]; {
		case c >= '0' && c <= '9':
			b.WriteString("-9")
		case c == '_':
			b.WriteString("-_")
		}
	}
	return b.String()
}

// ---------------------------------------------------------------- identifier character structure

var c16Alphabet = []string{"a", "A", "_", "1", "é", "α", "中", "𝐱"}

// c16Idents enumerates, shortest first and in alphabet order, every string over the alphabet of at most
// n symbols that is a WGSL identifier (not starting with a digit or two underscores, not a lone _).
func c16Idents(n int) []string {
	var out []string
	var level []string = []string{""}
	for l := 1; l <= n; l++ {
		var next []string
		for _, p := range level {
			for _, c := range c16Alphabet {
				next = append(next, p+c)
			}
		}
		for _, s := range next {
			if c16ValidWGSLIdent(s) {
				out = append(out, s)
			}
		}
		level = next
	}
	return out
}

var c16Siblings = map[string]string{"LVAR": "LVAR2", "GLOB": "GLOB2", "MEM": "MEM2"}

// c16Skeletons: two identifiers that agree on one of these abstractions are candidates for being
// sanitised to one spelling (the abstractions are the generic things an identifier sanitiser can do:
// fold case, merge or drop underscores, replace or drop characters outside ASCII).
func c16Skeletons(s string, coarse bool) []string {
	fold := func(t string) string {
		t = strings.ToLower(t)
		for strings.Contains(t, "__") {
			t = strings.ReplaceAll(t, "__", "_")
		}
		return strings.Trim(t, "_")
	}
	out := []string{"f:" + fold(s)}
	if coarse {
		var rep, drop strings.Builder
		for _, c := range s {
			if c < utf8.RuneSelf {
				rep.WriteRune(c)
				drop.WriteRune(c)
			} else {
				rep.WriteByte('_')
			}
		}
		out = append(out, "r:"+fold(rep.String()), "d:"+fold(drop.String()))
	}
	return out
}

func c16Pairs(fineLen, coarseLen int) [][2]string {
	set := map[[2]string]bool{}
	add := func(ids []string, coarse bool) {
		classes := map[string][]string{}
		for _, id := range ids {
			for _, k := range c16Skeletons(id, coarse) {
				classes[k] = append(classes[k], id)
			}
		}
		for _, v := range classes {
			for _, a := range v {
				for _, b := range v {
					if a != b {
						set[[2]string{a, b}] = true
					}
				}
			}
		}
	}
	add(c16Idents(fineLen), false)
	add(c16Idents(coarseLen), true)
	out := make([][2]string, 0, len(set))
	for p := range set {
		out = append(out, p)
	}
	sort.Slice(out, func(i, j int) bool {
		if out[i][0] != out[j][0] {
			return out[i][0] < out[j][0]
		}
		return out[i][1] < out[j][1]
	})
	return out
}

func c16CharPlans(r *explore.Run) []c16Plan {
	n, fineLen, coarseLen := 4, 3, 2
	if r.Thorough() {
		n, fineLen, coarseLen = 5, 3, 3
	}
	ids := c16Idents(n)
	r.Extra("chars_identifiers", len(ids))
	single := c16Plan{name: "chars_single", seed: c16SeedChars, depth: 2}
	single.level1 = func([]string) []c16Job {
		var jobs []c16Job
		for _, id := range ids {
			for _, p := range []string{"LVAR", "GLOB", "MEM"} {
				jobs = append(jobs, c16Job{set: [][2]string{{p, id}}, depth: 1})
			}
		}
		return jobs
	}
	// the spelling an identifier is emitted with, given to a second entity of the same scope
	single.deeper = func(parent c16Job, fresh []string) []c16Job {
		var jobs []c16Job
		for _, f := range fresh {
			jobs = append(jobs, c16Job{set: [][2]string{parent.set[0], {c16Siblings[parent.set[0][0]], f}}, depth: 2})
		}
		return jobs
	}
	pairs := c16Pairs(fineLen, coarseLen)
	r.Extra("chars_pairs", len(pairs))
	pair := c16Plan{name: "chars_pairs", seed: c16SeedChars, depth: 1}
	pair.level1 = func([]string) []c16Job {
		var jobs []c16Job
		for _, pr := range pairs {
			for _, p := range []string{"LVAR", "GLOB", "MEM"} {
				jobs = append(jobs, c16Job{set: [][2]string{{p, pr[0]}, {c16Siblings[p], pr[1]}}, depth: 1})
			}
		}
		return jobs
	}
	// every name of the fixed lists (reserved words and predeclared names of the three targets, helper
	// patterns, case and suffix variants) at the three positions, then the spelling it was emitted with
	// (the escaped form of a reserved word) at a second entity of the same scope
	listed := c16Plan{name: "chars_listed", seed: c16SeedChars, depth: 2, deeper: single.deeper}
	listed.level1 = func([]string) []c16Job {
		var jobs []c16Job
		for _, id := range c16ListedNames {
			for _, p := range []string{"LVAR", "GLOB", "MEM"} {
				jobs = append(jobs, c16Job{set: [][2]string{{p, id}}, depth: 1})
			}
		}
		return jobs
	}
	return []c16Plan{single, pair, listed}
}

// c16ListedNames is the candidate list of the fixed-list part (set by runC16).
var c16ListedNames []string

// c16RunExtensions runs the closure and the character-structure parts.
func c16RunExtensions(r *explore.Run) int {
	only := os.Getenv("C16_ONLY") // authoring aid: comma-separated subset of stages,vin,helpers,chars
	want := func(n string) bool { return only == "" || strings.Contains(","+only+",", ","+n+",") }
	for _, s := range []*c16Seed{c16SeedStages, c16SeedVin, c16SeedHelpers} {
		if !want(s.name) {
			continue
		}
		if rc := c16RunPlan(r, c16ClosurePlan(r, s)); rc != 0 {
			return rc
		}
	}
	if want("chars") {
		for _, pl := range c16CharPlans(r) {
			if rc := c16RunPlan(r, pl); rc != 0 {
				return rc
			}
		}
	}
	return 0
}
