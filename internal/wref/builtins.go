package wref

import (
	"math"
	"math/bits"

	w "verif/internal/wgen"
)

func map1f(x Val, t *w.Type, fn func(float64) float64) Val {
	out := make([]uint32, len(x.S))
	for i, a := range x.S {
		out[i] = fb(float32(fn(float64(f(a)))))
	}
	return Val{T: t, S: out}
}
func map1u(x Val, t *w.Type, fn func(uint32) uint32) Val {
	out := make([]uint32, len(x.S))
	for i, a := range x.S {
		out[i] = fn(a)
	}
	return Val{T: t, S: out}
}
func at(v Val, i int) uint32 {
	if len(v.S) == 1 {
		return v.S[0]
	}
	return v.S[i]
}
func mapN(t *w.Type, n int, fn func(i int) uint32) Val {
	out := make([]uint32, n)
	for i := range out {
		out[i] = fn(i)
	}
	return Val{T: t, S: out}
}

func fmin32(a, b float32) float32 {
	if b < a {
		return b
	}
	return a
}
func fmax32(a, b float32) float32 {
	if a < b {
		return b
	}
	return a
}
func imin(k w.SK, a, b uint32) uint32 {
	if k == w.I32 {
		if int32(b) < int32(a) {
			return b
		}
		return a
	}
	if b < a {
		return b
	}
	return a
}
func imax(k w.SK, a, b uint32) uint32 {
	if k == w.I32 {
		if int32(a) < int32(b) {
			return b
		}
		return a
	}
	if a < b {
		return b
	}
	return a
}

func fdotv(a, b []uint32) float32 {
	ps := make([]float32, len(a))
	for i := range a {
		ps[i] = float32(f(a[i]) * f(b[i]))
	}
	return fsum(ps)
}
func flen64(a []uint32) float64 {
	s := 0.0
	for _, x := range a {
		s += float64(f(x)) * float64(f(x))
	}
	return math.Sqrt(s)
}

func (m *machine) builtin(sc *scope, e *w.Call) Val {
	// builtins taking pointers
	switch e.Fn {
	case "arrayLength":
		l := m.eval(sc, e.Args[0]).P
		return Val{T: w.TU32, S: []uint32{uint32(l.T.Len)}}
	case "atomicLoad":
		l := m.eval(sc, e.Args[0]).P
		return Val{T: e.Ty, S: []uint32{m.read(l)[0]}}
	case "atomicStore":
		l := m.eval(sc, e.Args[0]).P
		m.write(l, m.eval(sc, e.Args[1]).S)
		return Val{}
	case "atomicAdd", "atomicSub", "atomicMin", "atomicMax", "atomicAnd", "atomicOr", "atomicXor", "atomicExchange":
		l := m.eval(sc, e.Args[0]).P
		v := m.eval(sc, e.Args[1]).S[0]
		old := m.read(l)[0]
		k := l.T.S
		var nv uint32
		switch e.Fn {
		case "atomicAdd":
			nv = old + v
		case "atomicSub":
			nv = old - v
		case "atomicMin":
			nv = imin(k, old, v)
		case "atomicMax":
			nv = imax(k, old, v)
		case "atomicAnd":
			nv = old & v
		case "atomicOr":
			nv = old | v
		case "atomicXor":
			nv = old ^ v
		case "atomicExchange":
			nv = v
		}
		m.write(l, []uint32{nv})
		return Val{T: e.Ty, S: []uint32{old}}
	case "atomicCompareExchangeWeak":
		// result struct {old_value, exchanged}; the reference never fails spuriously, and
		// generators only use old_value (exchanged may legitimately be false on real hardware).
		l := m.eval(sc, e.Args[0]).P
		cmp := m.eval(sc, e.Args[1]).S[0]
		v := m.eval(sc, e.Args[2]).S[0]
		old := m.read(l)[0]
		ex := uint32(0)
		if old == cmp {
			m.write(l, []uint32{v})
			ex = 1
		}
		return Val{T: e.Ty, S: []uint32{old, ex}}
	}
	args := make([]Val, len(e.Args))
	for i, a := range e.Args {
		args[i] = m.eval(sc, a)
	}
	return Builtin(e.Fn, args, e.Ty)
}

// Builtin evaluates a value builtin. Exported for the const-expression evaluator.
func Builtin(name string, a []Val, t *w.Type) Val {
	k := w.F32
	if len(a) > 0 && a[0].T != nil {
		k = a[0].T.S
	}
	n := 1
	if t != nil {
		n = t.NumScalars()
	}
	switch name {
	case "select":
		return mapN(t, n, func(i int) uint32 {
			if at(a[2], i) != 0 {
				return at(a[1], i)
			}
			return at(a[0], i)
		})
	case "all":
		r := uint32(1)
		for _, x := range a[0].S {
			r &= x
		}
		return Val{T: t, S: []uint32{r}}
	case "any":
		r := uint32(0)
		for _, x := range a[0].S {
			r |= x
		}
		return Val{T: t, S: []uint32{r}}
	case "abs":
		return map1u(a[0], t, func(x uint32) uint32 {
			switch k {
			case w.F32:
				return x &^ 0x80000000
			case w.I32:
				if int32(x) < 0 {
					return -x
				}
			}
			return x
		})
	case "min", "max":
		return mapN(t, n, func(i int) uint32 {
			x, y := at(a[0], i), at(a[1], i)
			if k == w.F32 {
				if name == "min" {
					return fb(fmin32(f(x), f(y)))
				}
				return fb(fmax32(f(x), f(y)))
			}
			if name == "min" {
				return imin(k, x, y)
			}
			return imax(k, x, y)
		})
	case "clamp":
		return mapN(t, n, func(i int) uint32 {
			x, lo, hi := at(a[0], i), at(a[1], i), at(a[2], i)
			if k == w.F32 {
				return fb(fmin32(fmax32(f(x), f(lo)), f(hi)))
			}
			return imin(k, imax(k, x, lo), hi)
		})
	case "saturate":
		return map1u(a[0], t, func(x uint32) uint32 { return fb(fmin32(fmax32(f(x), 0), 1)) })
	case "sign":
		return map1u(a[0], t, func(x uint32) uint32 {
			if k == w.F32 {
				v := f(x)
				switch {
				case v > 0:
					return fb(1)
				case v < 0:
					return fb(-1)
				}
				return fb(0) // sign(±0) = 0 (sign of zero not compared: see generators)
			}
			v := int32(x)
			switch {
			case v > 0:
				return 1
			case v < 0:
				return 0xFFFFFFFF
			}
			return 0
		})
	case "floor":
		return map1f(a[0], t, math.Floor)
	case "ceil":
		return map1f(a[0], t, math.Ceil)
	case "trunc":
		return map1f(a[0], t, math.Trunc)
	case "round":
		return map1f(a[0], t, roundEven)
	case "fract":
		return map1u(a[0], t, func(x uint32) uint32 {
			v := f(x)
			return fb(float32(v - float32(math.Floor(float64(v)))))
		})
	case "sqrt":
		return map1f(a[0], t, math.Sqrt)
	case "inverseSqrt":
		return map1f(a[0], t, func(x float64) float64 { return 1 / math.Sqrt(x) })
	case "sin":
		return map1f(a[0], t, math.Sin)
	case "cos":
		return map1f(a[0], t, math.Cos)
	case "tan":
		return map1f(a[0], t, math.Tan)
	case "asin":
		return map1f(a[0], t, math.Asin)
	case "acos":
		return map1f(a[0], t, math.Acos)
	case "atan":
		return map1f(a[0], t, math.Atan)
	case "sinh":
		return map1f(a[0], t, math.Sinh)
	case "cosh":
		return map1f(a[0], t, math.Cosh)
	case "tanh":
		return map1f(a[0], t, math.Tanh)
	case "asinh":
		return map1f(a[0], t, math.Asinh)
	case "acosh":
		return map1f(a[0], t, math.Acosh)
	case "atanh":
		return map1f(a[0], t, math.Atanh)
	case "exp":
		return map1f(a[0], t, math.Exp)
	case "exp2":
		return map1f(a[0], t, math.Exp2)
	case "log":
		return map1f(a[0], t, math.Log)
	case "log2":
		return map1f(a[0], t, math.Log2)
	case "degrees":
		return map1f(a[0], t, func(x float64) float64 { return x * 180 / math.Pi })
	case "radians":
		return map1f(a[0], t, func(x float64) float64 { return x * math.Pi / 180 })
	case "atan2":
		return mapN(t, n, func(i int) uint32 {
			return fb(float32(math.Atan2(float64(f(at(a[0], i))), float64(f(at(a[1], i))))))
		})
	case "pow":
		return mapN(t, n, func(i int) uint32 {
			return fb(float32(math.Pow(float64(f(at(a[0], i))), float64(f(at(a[1], i))))))
		})
	case "step":
		return mapN(t, n, func(i int) uint32 {
			if f(at(a[0], i)) <= f(at(a[1], i)) {
				return fb(1)
			}
			return fb(0)
		})
	case "fma":
		return mapN(t, n, func(i int) uint32 {
			return fb(float32(float64(f(at(a[0], i)))*float64(f(at(a[1], i))) + float64(f(at(a[2], i)))))
		})
	case "mix":
		return mapN(t, n, func(i int) uint32 {
			x, y, z := float64(f(at(a[0], i))), float64(f(at(a[1], i))), float64(f(at(a[2], i)))
			return fb(float32(x*(1-z) + y*z))
		})
	case "smoothstep":
		return mapN(t, n, func(i int) uint32 {
			lo, hi, x := float64(f(at(a[0], i))), float64(f(at(a[1], i))), float64(f(at(a[2], i)))
			tt := math.Min(math.Max((x-lo)/(hi-lo), 0), 1)
			return fb(float32(tt * tt * (3 - 2*tt)))
		})
	case "dot":
		if k == w.F32 {
			s := 0.0
			for i := range a[0].S {
				s += float64(f(a[0].S[i])) * float64(f(a[1].S[i]))
			}
			return Val{T: t, S: []uint32{fb(float32(s))}}
		}
		var s uint32
		for i := range a[0].S {
			s += a[0].S[i] * a[1].S[i]
		}
		return Val{T: t, S: []uint32{s}}
	case "cross":
		x, y := a[0].S, a[1].S
		g := func(i int) float64 { return float64(f(x[i])) }
		h := func(i int) float64 { return float64(f(y[i])) }
		return Val{T: t, S: []uint32{
			fb(float32(g(1)*h(2) - g(2)*h(1))),
			fb(float32(g(2)*h(0) - g(0)*h(2))),
			fb(float32(g(0)*h(1) - g(1)*h(0))),
		}}
	case "length":
		return Val{T: t, S: []uint32{fb(float32(flen64(a[0].S)))}}
	case "distance":
		s := 0.0
		for i := range a[0].S {
			d := float64(f(a[0].S[i])) - float64(f(a[1].S[i]))
			s += d * d
		}
		return Val{T: t, S: []uint32{fb(float32(math.Sqrt(s)))}}
	case "normalize":
		l := flen64(a[0].S)
		return map1f(a[0], t, func(x float64) float64 { return x / l })
	case "faceForward":
		// faceForward(e1,e2,e3) = select(-e1, e1, dot(e2,e3) < 0)
		s := 0.0
		for i := range a[1].S {
			s += float64(f(a[1].S[i])) * float64(f(a[2].S[i]))
		}
		return map1u(a[0], t, func(x uint32) uint32 {
			if s < 0 {
				return x
			}
			return x ^ 0x80000000
		})
	case "reflect":
		// e1 - 2*dot(e2,e1)*e2
		s := 0.0
		for i := range a[0].S {
			s += float64(f(a[1].S[i])) * float64(f(a[0].S[i]))
		}
		return mapN(t, n, func(i int) uint32 {
			return fb(float32(float64(f(a[0].S[i])) - 2*s*float64(f(a[1].S[i]))))
		})
	case "transpose":
		mt := a[0].T
		out := make([]uint32, len(a[0].S))
		// result has C'=N rows->cols: out[r][c] = in[c][r]
		for c := 0; c < mt.C; c++ {
			for r := 0; r < mt.N; r++ {
				out[r*mt.C+c] = a[0].S[c*mt.N+r]
			}
		}
		return Val{T: t, S: out}
	case "determinant":
		mt := a[0].T
		g := func(c, r int) float64 { return float64(f(a[0].S[c*mt.N+r])) }
		var d float64
		switch mt.N {
		case 2:
			d = g(0, 0)*g(1, 1) - g(1, 0)*g(0, 1)
		case 3:
			d = g(0, 0)*(g(1, 1)*g(2, 2)-g(2, 1)*g(1, 2)) - g(1, 0)*(g(0, 1)*g(2, 2)-g(2, 1)*g(0, 2)) + g(2, 0)*(g(0, 1)*g(1, 2)-g(1, 1)*g(0, 2))
		case 4:
			d = det4(g)
		}
		return Val{T: t, S: []uint32{fb(float32(d))}}
	case "countOneBits":
		return map1u(a[0], t, func(x uint32) uint32 { return uint32(bits.OnesCount32(x)) })
	case "countLeadingZeros":
		return map1u(a[0], t, func(x uint32) uint32 { return uint32(bits.LeadingZeros32(x)) })
	case "countTrailingZeros":
		return map1u(a[0], t, func(x uint32) uint32 { return uint32(bits.TrailingZeros32(x)) })
	case "reverseBits":
		return map1u(a[0], t, bits.Reverse32)
	case "firstLeadingBit":
		if k == w.I32 {
			return map1u(a[0], t, firstLeadingBitI)
		}
		return map1u(a[0], t, firstLeadingBitU)
	case "firstTrailingBit":
		return map1u(a[0], t, firstTrailingBit)
	case "extractBits":
		return map1u(a[0], t, func(x uint32) uint32 { return extractBits(x, k == w.I32, a[1].S[0], a[2].S[0]) })
	case "insertBits":
		return mapN(t, n, func(i int) uint32 { return insertBits(at(a[0], i), at(a[1], i), a[2].S[0], a[3].S[0]) })
	case "dot4U8Packed":
		var s uint32
		for i := 0; i < 4; i++ {
			s += (a[0].S[0] >> (8 * i) & 0xFF) * (a[1].S[0] >> (8 * i) & 0xFF)
		}
		return Val{T: t, S: []uint32{s}}
	case "dot4I8Packed":
		var s int32
		for i := 0; i < 4; i++ {
			s += int32(int8(a[0].S[0]>>(8*i))) * int32(int8(a[1].S[0]>>(8*i)))
		}
		return Val{T: t, S: []uint32{uint32(s)}}
	case "pack4xU8":
		var r uint32
		for i := 0; i < 4; i++ {
			r |= (a[0].S[i] & 0xFF) << (8 * i)
		}
		return Val{T: t, S: []uint32{r}}
	case "pack4xI8":
		var r uint32
		for i := 0; i < 4; i++ {
			r |= (a[0].S[i] & 0xFF) << (8 * i)
		}
		return Val{T: t, S: []uint32{r}}
	case "pack4xU8Clamp":
		var r uint32
		for i := 0; i < 4; i++ {
			v := a[0].S[i]
			if v > 255 {
				v = 255
			}
			r |= v << (8 * i)
		}
		return Val{T: t, S: []uint32{r}}
	case "pack4xI8Clamp":
		var r uint32
		for i := 0; i < 4; i++ {
			v := int32(a[0].S[i])
			if v > 127 {
				v = 127
			}
			if v < -128 {
				v = -128
			}
			r |= (uint32(v) & 0xFF) << (8 * i)
		}
		return Val{T: t, S: []uint32{r}}
	case "unpack4xU8":
		return mapN(t, 4, func(i int) uint32 { return a[0].S[0] >> (8 * i) & 0xFF })
	case "unpack4xI8":
		return mapN(t, 4, func(i int) uint32 { return uint32(int32(int8(a[0].S[0] >> (8 * i)))) })
	case "ldexp":
		return mapN(t, n, func(i int) uint32 {
			return fb(float32(math.Ldexp(float64(f(at(a[0], i))), int(int32(at(a[1], i))))))
		})
	}
	bug("builtin %s", name)
	return Val{}
}

func det4(g func(c, r int) float64) float64 {
	// Laplace expansion along column 0
	minor := func(skipC, skipR int) float64 {
		var cs, rs []int
		for i := 0; i < 4; i++ {
			if i != skipC {
				cs = append(cs, i)
			}
			if i != skipR {
				rs = append(rs, i)
			}
		}
		h := func(c, r int) float64 { return g(cs[c], rs[r]) }
		return h(0, 0)*(h(1, 1)*h(2, 2)-h(2, 1)*h(1, 2)) - h(1, 0)*(h(0, 1)*h(2, 2)-h(2, 1)*h(0, 2)) + h(2, 0)*(h(0, 1)*h(1, 2)-h(1, 1)*h(0, 2))
	}
	d := 0.0
	sign := 1.0
	for r := 0; r < 4; r++ {
		d += sign * g(0, r) * minor(0, r)
		sign = -sign
	}
	return d
}
