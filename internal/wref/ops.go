package wref

import (
	"math"
	"math/bits"

	w "verif/internal/wgen"
)

func f(b uint32) float32  { return math.Float32frombits(b) }
func fb(x float32) uint32 { return math.Float32bits(x) }
func b2u(b bool) uint32 {
	if b {
		return 1
	}
	return 0
}

func unop(op string, x Val, t *w.Type) Val {
	out := make([]uint32, len(x.S))
	for i, a := range x.S {
		switch op {
		case "-":
			if x.T.S == w.F32 {
				out[i] = a ^ 0x80000000
			} else {
				out[i] = -a
			}
		case "!":
			out[i] = a ^ 1
		case "~":
			out[i] = ^a
		default:
			bug("unop %s", op)
		}
	}
	return Val{T: t, S: out}
}

// binType computes the WGSL result type of l op r.
func binType(op string, l, r *w.Type) *w.Type {
	switch op {
	case "==", "!=", "<", "<=", ">", ">=":
		if l.K == w.TVec {
			return w.Vec(w.Bool, l.N)
		}
		return w.TBool
	case "&&", "||":
		return w.TBool
	case "<<", ">>":
		return l
	case "*":
		switch {
		case l.K == w.TMat && r.K == w.TMat:
			return w.Mat(r.C, l.N)
		case l.K == w.TMat && r.K == w.TVec:
			return w.Vec(w.F32, l.N)
		case l.K == w.TVec && r.K == w.TMat:
			return w.Vec(w.F32, r.C)
		}
	}
	if l.K == w.TScalar && r.K != w.TScalar {
		return r
	}
	return l
}

// BinType is exported for generators.
func BinType(op string, l, r *w.Type) *w.Type { return binType(op, l, r) }

func scalarBin(op string, k w.SK, a, b uint32) uint32 {
	switch k {
	case w.F32:
		x, y := f(a), f(b)
		switch op {
		case "+":
			return fb(float32(x + y))
		case "-":
			return fb(float32(x - y))
		case "*":
			return fb(float32(x * y))
		case "/":
			return fb(float32(x / y))
		case "%":
			// truncated remainder: x - y*trunc(x/y); math.Mod is exact fmod (sign of dividend)
			return fb(float32(math.Mod(float64(x), float64(y))))
		case "==":
			return b2u(x == y)
		case "!=":
			return b2u(x != y)
		case "<":
			return b2u(x < y)
		case "<=":
			return b2u(x <= y)
		case ">":
			return b2u(x > y)
		case ">=":
			return b2u(x >= y)
		}
	case w.I32:
		x, y := int32(a), int32(b)
		switch op {
		case "+":
			return a + b
		case "-":
			return a - b
		case "*":
			return a * b
		case "/":
			if y == 0 || (x == math.MinInt32 && y == -1) {
				return a
			}
			return uint32(x / y)
		case "%":
			if y == 0 || (x == math.MinInt32 && y == -1) {
				return 0
			}
			return uint32(x % y)
		case "&":
			return a & b
		case "|":
			return a | b
		case "^":
			return a ^ b
		case "<<":
			return a << (b & 31)
		case ">>":
			return uint32(x >> (b & 31))
		case "==":
			return b2u(x == y)
		case "!=":
			return b2u(x != y)
		case "<":
			return b2u(x < y)
		case "<=":
			return b2u(x <= y)
		case ">":
			return b2u(x > y)
		case ">=":
			return b2u(x >= y)
		}
	case w.U32:
		switch op {
		case "+":
			return a + b
		case "-":
			return a - b
		case "*":
			return a * b
		case "/":
			if b == 0 {
				return a
			}
			return a / b
		case "%":
			if b == 0 {
				return 0
			}
			return a % b
		case "&":
			return a & b
		case "|":
			return a | b
		case "^":
			return a ^ b
		case "<<":
			return a << (b & 31)
		case ">>":
			return a >> (b & 31)
		case "==":
			return b2u(a == b)
		case "!=":
			return b2u(a != b)
		case "<":
			return b2u(a < b)
		case "<=":
			return b2u(a <= b)
		case ">":
			return b2u(a > b)
		case ">=":
			return b2u(a >= b)
		}
	case w.Bool:
		switch op {
		case "&", "&&":
			return a & b
		case "|", "||":
			return a | b
		case "==":
			return b2u(a == b)
		case "!=":
			return b2u(a != b)
		}
	}
	bug("scalarBin %s on %v", op, k)
	return 0
}

func binop(op string, l, r Val, t *w.Type) Val {
	if op == "*" && (l.T.K == w.TMat || r.T.K == w.TMat) {
		return matMul(l, r, t)
	}
	if (l.T.K == w.TMat || r.T.K == w.TMat) && (op == "+" || op == "-") {
		out := make([]uint32, len(l.S))
		for i := range out {
			out[i] = scalarBin(op, w.F32, l.S[i], r.S[i])
		}
		return Val{T: t, S: out}
	}
	n := len(l.S)
	if len(r.S) > n {
		n = len(r.S)
	}
	k := l.T.S
	out := make([]uint32, n)
	for i := 0; i < n; i++ {
		a, b := l.S[0], r.S[0]
		if len(l.S) > 1 {
			a = l.S[i]
		}
		if len(r.S) > 1 {
			b = r.S[i]
		}
		out[i] = scalarBin(op, k, a, b)
	}
	return Val{T: t, S: out}
}

// fdot computes sum of products in order with f32 rounding at each step (one admissible order).
func fsum(xs []float32) float32 {
	var s float32
	for i, x := range xs {
		if i == 0 {
			s = x
		} else {
			s = float32(s + x)
		}
	}
	return s
}

func matMul(l, r Val, t *w.Type) Val {
	col := func(m Val, c int) []uint32 { return m.S[c*m.T.N : (c+1)*m.T.N] }
	switch {
	case l.T.K == w.TMat && r.T.K == w.TScalar:
		out := make([]uint32, len(l.S))
		for i := range out {
			out[i] = fb(float32(f(l.S[i]) * f(r.S[0])))
		}
		return Val{T: t, S: out}
	case l.T.K == w.TScalar && r.T.K == w.TMat:
		out := make([]uint32, len(r.S))
		for i := range out {
			out[i] = fb(float32(f(l.S[0]) * f(r.S[i])))
		}
		return Val{T: t, S: out}
	case l.T.K == w.TMat && r.T.K == w.TVec:
		// (M*v)[row] = sum_k M[k][row]*v[k]
		out := make([]uint32, l.T.N)
		for row := 0; row < l.T.N; row++ {
			ps := make([]float32, l.T.C)
			for k := 0; k < l.T.C; k++ {
				ps[k] = float32(f(col(l, k)[row]) * f(r.S[k]))
			}
			out[row] = fb(fsum(ps))
		}
		return Val{T: t, S: out}
	case l.T.K == w.TVec && r.T.K == w.TMat:
		// (v*M)[j] = dot(v, M[j])
		out := make([]uint32, r.T.C)
		for j := 0; j < r.T.C; j++ {
			ps := make([]float32, r.T.N)
			for k := 0; k < r.T.N; k++ {
				ps[k] = float32(f(l.S[k]) * f(col(r, j)[k]))
			}
			out[j] = fb(fsum(ps))
		}
		return Val{T: t, S: out}
	case l.T.K == w.TMat && r.T.K == w.TMat:
		// (A*B)[j][row] = sum_k A[k][row]*B[j][k]
		rows, inner, cols := l.T.N, l.T.C, r.T.C
		out := make([]uint32, rows*cols)
		for j := 0; j < cols; j++ {
			for row := 0; row < rows; row++ {
				ps := make([]float32, inner)
				for k := 0; k < inner; k++ {
					ps[k] = float32(f(col(l, k)[row]) * f(col(r, j)[k]))
				}
				out[j*rows+row] = fb(fsum(ps))
			}
		}
		return Val{T: t, S: out}
	}
	bug("matMul shapes")
	return Val{}
}

// ---------------------------------------------------------------- integer builtins

func firstLeadingBitU(x uint32) uint32 {
	if x == 0 {
		return 0xFFFFFFFF
	}
	return uint32(31 - bits.LeadingZeros32(x))
}
func firstLeadingBitI(x uint32) uint32 {
	if x == 0 || x == 0xFFFFFFFF {
		return 0xFFFFFFFF
	}
	if int32(x) < 0 {
		return firstLeadingBitU(^x)
	}
	return firstLeadingBitU(x)
}
func firstTrailingBit(x uint32) uint32 {
	if x == 0 {
		return 0xFFFFFFFF
	}
	return uint32(bits.TrailingZeros32(x))
}
func extractBits(x uint32, signed bool, off, cnt uint32) uint32 {
	o := off
	if o > 32 {
		o = 32
	}
	c := cnt
	if c > 32-o {
		c = 32 - o
	}
	if c == 0 {
		return 0
	}
	if c == 32 {
		return x
	}
	v := (x >> o) & ((1 << c) - 1)
	if signed && v&(1<<(c-1)) != 0 {
		v |= ^uint32(0) << c
	}
	return v
}
func insertBits(e, newbits, off, cnt uint32) uint32 {
	o := off
	if o > 32 {
		o = 32
	}
	c := cnt
	if c > 32-o {
		c = 32 - o
	}
	if c == 0 {
		return e
	}
	var mask uint32
	if c == 32 {
		mask = 0xFFFFFFFF
	} else {
		mask = ((1 << c) - 1) << o
	}
	return (e &^ mask) | ((newbits << o) & mask)
}

func roundEven(x float64) float64 { return math.RoundToEven(x) }
