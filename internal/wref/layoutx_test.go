package wref

import (
	"testing"

	w "verif/internal/wgen"
)

// The worked example of the WGSL specification (Memory Layout, "Structure Layout Rules").
func TestLayoutSpecExample(t *testing.T) {
	a := w.XSt("A",
		w.XM{Name: "u", T: w.XS("f32")}, w.XM{Name: "v", T: w.XS("f32")}, w.XM{Name: "w", T: w.XV("f32", 2)},
		w.XM{Name: "x", T: w.XS("f32"), Size: 16})
	la := Layout(a)
	if la.Align != 8 || la.Size != 32 || la.Offsets[2] != 8 || la.Offsets[3] != 16 {
		t.Fatalf("A: %+v", la)
	}
	b := w.XSt("B",
		w.XM{Name: "a", T: w.XV("f32", 2)}, w.XM{Name: "b", T: w.XV("f32", 3)}, w.XM{Name: "c", T: w.XS("f32")},
		w.XM{Name: "d", T: w.XS("f32")}, w.XM{Name: "e", T: a, Align: 16}, w.XM{Name: "f", T: w.XV("f32", 3)},
		w.XM{Name: "g", T: w.XArr(a, 3)}, w.XM{Name: "h", T: w.XS("i32")})
	lb := Layout(b)
	want := []int{0, 16, 28, 32, 48, 80, 96, 192}
	for i, o := range want {
		if lb.Offsets[i] != o {
			t.Errorf("B member %d: offset %d, want %d", i, lb.Offsets[i], o)
		}
	}
	if lb.Align != 16 || lb.Size != 208 || lb.Members[6].Stride != 32 {
		t.Errorf("B: align %d size %d stride %d", lb.Align, lb.Size, lb.Members[6].Stride)
	}
}

// Alignment and size table, 16-bit rows.
func TestLayoutF16(t *testing.T) {
	for _, c := range []struct {
		t           *w.XT
		align, size int
	}{
		{w.XS("f16"), 2, 2}, {w.XV("f16", 2), 4, 4}, {w.XV("f16", 3), 8, 6}, {w.XV("f16", 4), 8, 8},
		{w.XMt("f16", 2, 2), 4, 8}, {w.XMt("f16", 3, 2), 4, 12}, {w.XMt("f16", 4, 2), 4, 16},
		{w.XMt("f16", 2, 3), 8, 16}, {w.XMt("f16", 3, 3), 8, 24}, {w.XMt("f16", 4, 3), 8, 32},
		{w.XMt("f16", 2, 4), 8, 16}, {w.XMt("f16", 3, 4), 8, 24}, {w.XMt("f16", 4, 4), 8, 32},
		{w.XMt("f32", 3, 3), 16, 48}, {w.XMt("f32", 4, 2), 8, 32}, {w.XAt("u32"), 4, 4},
		{w.XArr(w.XS("f16"), 3), 2, 6}, {w.XArr(w.XV("f16", 3), 2), 8, 16},
	} {
		l := Layout(c.t)
		if l.Align != c.align || l.Size != c.size {
			t.Errorf("%s: align %d size %d, want %d %d", c.t, l.Align, l.Size, c.align, c.size)
		}
		if w.XAlignOf(c.t) != c.align || w.XSizeOf(c.t) != c.size {
			t.Errorf("%s (generator side): align %d size %d, want %d %d", c.t, w.XAlignOf(c.t), w.XSizeOf(c.t), c.align, c.size)
		}
	}
}
