// Package wref is the reference WGSL model: an interpreter of the wgen AST written from the WGSL
// specification (memory layout lives in wgen/layout.go). It knows nothing about naga.
package wref
