package wref

import (
	"fmt"
	"math"

	w "verif/internal/wgen"
	"verif/internal/xrt"
)

// Undefined: WGSL does not define (or makes indeterminate) the result of this execution; the
// case is outside every "WGSL defines the result" property and is skipped by callers.
type Undefined struct{ Why string }

func (u *Undefined) Error() string { return "wgsl-undefined: " + u.Why }

// OOB policy for indices outside an object.
const (
	OOBUndefined = iota // return *Undefined (default)
	OOBClamp            // 'restrict': clamp the index to the last element
	OOBZeroSkip         // 'read-zero-skip-write'
)

type Config struct {
	OOB      int
	MaxSteps int64 // 0 = 1e6
}

// Val is a value: flattened leaf scalars (bool = 0/1) or a pointer.
type Val struct {
	T *w.Type
	S []uint32
	P *Loc
}

// Loc is a memory reference: a window over the leaf scalars of some object.
type Loc struct {
	T    *w.Type
	S    []uint32
	Null bool // produced by OOBZeroSkip: reads give zero, writes are dropped
	RO   bool
}

type binding struct {
	v     Val
	loc   *Loc
	isVar bool
}

type scope struct {
	m      map[string]*binding
	parent *scope
}

func (s *scope) get(n string) *binding {
	for c := s; c != nil; c = c.parent {
		if b, ok := c.m[n]; ok {
			return b
		}
	}
	return nil
}
func (s *scope) set(n string, b *binding) { s.m[n] = b }
func newScope(p *scope) *scope            { return &scope{m: map[string]*binding{}, parent: p} }

type ctl int

const (
	cNone ctl = iota
	cBreak
	cContinue
	cReturn
)

type machine struct {
	mod   *w.Module
	cfg   Config
	steps int64
	glob  *scope
	ret   Val
	// barrier support
	barrier func()
	// per-invocation builtins
	gid, lid, wid, nwg [3]uint32
	lidx              uint32
	wgGlobals         map[string]*Loc
}

type evalPanic struct{ err error }

func undef(format string, a ...any) { panic(evalPanic{&Undefined{fmt.Sprintf(format, a...)}}) }
func bug(format string, a ...any)   { panic(evalPanic{fmt.Errorf("wref bug: "+format, a...)}) }

func (m *machine) step() {
	m.steps++
	if m.steps > m.cfg.MaxSteps {
		panic(evalPanic{&xrt.StepLimit{Steps: m.cfg.MaxSteps}})
	}
}

// Exec runs the entry point over bufs (modified in place; only leaf bytes are written).
func Exec(mod *w.Module, entry string, bufs xrt.Buffers, groups [3]uint32, cfg Config) (err error) {
	if cfg.MaxSteps == 0 {
		cfg.MaxSteps = 1_000_000
	}
	for i := range groups {
		if groups[i] == 0 {
			groups[i] = 1
		}
	}
	var fn *w.Func
	if entry == "" {
		fn = mod.Entry()
	} else {
		fn = mod.Func(entry)
	}
	if fn == nil || fn.Stage != "compute" {
		return fmt.Errorf("wref: no compute entry point %q", entry)
	}
	defer func() {
		if r := recover(); r != nil {
			if ep, ok := r.(evalPanic); ok {
				err = ep.err
				return
			}
			panic(r)
		}
	}()
	base := &machine{mod: mod, cfg: cfg}
	base.glob = newScope(nil)
	// module constants
	for _, c := range mod.Consts {
		v := base.eval(base.glob, c.Init)
		base.glob.set(c.Name, &binding{v: v})
	}
	// buffers
	type bound struct {
		g   *w.Global
		t   *w.Type
		loc *Loc
	}
	var bounds []bound
	for i := range mod.Globals {
		g := &mod.Globals[i]
		switch g.Space {
		case "storage", "uniform":
			key := xrt.Binding{Group: uint32(g.Group), Binding: uint32(g.Binding)}
			buf, ok := bufs[key]
			if !ok {
				return fmt.Errorf("wref: no buffer for %s", key)
			}
			t := g.Ty
			if w.HasRuntimeArray(t) {
				t = w.Fix(t, w.RuntimeCount(t, len(buf)))
			}
			loc := &Loc{T: t, S: w.Decode(t, buf), RO: !(g.Space == "storage" && g.RW)}
			base.glob.set(g.Name, &binding{loc: loc, isVar: true})
			if !loc.RO {
				bounds = append(bounds, bound{g, t, loc})
			}
		}
	}
	wg := fn.WG
	for i := range wg {
		if wg[i] == 0 {
			wg[i] = 1
		}
	}
	nInv := wg[0] * wg[1] * wg[2]
	for gz := uint32(0); gz < groups[2]; gz++ {
		for gy := uint32(0); gy < groups[1]; gy++ {
			for gx := uint32(0); gx < groups[0]; gx++ {
				// workgroup variables: fresh zero per workgroup
				wgl := map[string]*Loc{}
				for i := range mod.Globals {
					g := &mod.Globals[i]
					if g.Space == "workgroup" {
						wgl[g.Name] = &Loc{T: g.Ty, S: make([]uint32, g.Ty.NumScalars())}
					}
				}
				run := func(li int, barrier func()) {
					mm := &machine{mod: mod, cfg: cfg, glob: newScope(base.glob), barrier: barrier}
					mm.steps = 0
					lx := uint32(li % wg[0])
					ly := uint32(li / wg[0] % wg[1])
					lz := uint32(li / (wg[0] * wg[1]))
					mm.lid = [3]uint32{lx, ly, lz}
					mm.wid = [3]uint32{gx, gy, gz}
					mm.nwg = groups
					mm.gid = [3]uint32{gx*uint32(wg[0]) + lx, gy*uint32(wg[1]) + ly, gz*uint32(wg[2]) + lz}
					mm.lidx = uint32(li)
					for n, l := range wgl {
						mm.glob.set(n, &binding{loc: l, isVar: true})
					}
					for i := range mod.Globals {
						g := &mod.Globals[i]
						if g.Space == "private" {
							l := &Loc{T: g.Ty, S: make([]uint32, g.Ty.NumScalars())}
							if g.Init != nil {
								copy(l.S, mm.eval(mm.glob, g.Init).S)
							}
							mm.glob.set(g.Name, &binding{loc: l, isVar: true})
						}
					}
					var args []Val
					for _, p := range fn.Params {
						args = append(args, mm.builtinArg(p))
					}
					mm.call(fn, args)
				}
				if nInv == 1 {
					run(0, func() {})
				} else {
					if e := runGroup(nInv, run); e != nil {
						return e
					}
				}
			}
		}
	}
	for _, b := range bounds {
		key := xrt.Binding{Group: uint32(b.g.Group), Binding: uint32(b.g.Binding)}
		w.Encode(b.t, b.loc.S, bufs[key])
	}
	return nil
}

// runGroup runs n invocations as coroutines in invocation order, switching at barriers.
func runGroup(n int, run func(li int, barrier func())) (err error) {
	type msg struct {
		done bool
		pan  any
	}
	resume := make([]chan struct{}, n)
	yield := make(chan msg)
	alive := make([]bool, n)
	for i := 0; i < n; i++ {
		resume[i] = make(chan struct{})
		alive[i] = true
		go func(i int) {
			<-resume[i]
			defer func() {
				if r := recover(); r != nil {
					yield <- msg{done: true, pan: r}
					return
				}
				yield <- msg{done: true}
			}()
			run(i, func() {
				yield <- msg{}
				<-resume[i]
			})
		}(i)
	}
	var firstPanic any
	for {
		any := false
		for i := 0; i < n; i++ {
			if !alive[i] {
				continue
			}
			any = true
			resume[i] <- struct{}{}
			mg := <-yield
			if mg.done {
				alive[i] = false
				if mg.pan != nil && firstPanic == nil {
					firstPanic = mg.pan
				}
			}
		}
		if !any {
			break
		}
		if firstPanic != nil {
			// drain the others: let them run to completion is unsafe; abandon (goroutines leak, acceptable for error path)
			break
		}
	}
	if firstPanic != nil {
		if ep, ok := firstPanic.(evalPanic); ok {
			return ep.err
		}
		panic(firstPanic)
	}
	return nil
}

func (m *machine) builtinArg(p w.Param) Val {
	v3 := func(a [3]uint32) Val { return Val{T: w.Vec(w.U32, 3), S: []uint32{a[0], a[1], a[2]}} }
	switch p.Attr {
	case "@builtin(global_invocation_id)":
		return v3(m.gid)
	case "@builtin(local_invocation_id)":
		return v3(m.lid)
	case "@builtin(workgroup_id)":
		return v3(m.wid)
	case "@builtin(num_workgroups)":
		return v3(m.nwg)
	case "@builtin(local_invocation_index)":
		return Val{T: w.TU32, S: []uint32{m.lidx}}
	}
	bug("entry param attr %q", p.Attr)
	return Val{}
}

func (m *machine) call(fn *w.Func, args []Val) Val {
	sc := newScope(m.glob)
	for i, p := range fn.Params {
		sc.set(p.Name, &binding{v: args[i]})
	}
	c := m.block(sc, fn.Body)
	if c == cReturn && fn.Ret != nil {
		return m.ret
	}
	if fn.Ret != nil {
		bug("function %s fell off the end", fn.Name)
	}
	return Val{}
}

func (m *machine) block(parent *scope, b []w.Stmt) ctl {
	sc := newScope(parent)
	for _, s := range b {
		if c := m.stmt(sc, s); c != cNone {
			return c
		}
	}
	return cNone
}

func zero(t *w.Type) Val { return Val{T: t, S: make([]uint32, t.NumScalars())} }

func (m *machine) stmt(sc *scope, s w.Stmt) ctl {
	m.step()
	switch s := s.(type) {
	case *w.VarDecl:
		switch s.Kind {
		case "var":
			l := &Loc{T: s.Ty, S: make([]uint32, s.Ty.NumScalars())}
			if s.Init != nil {
				copy(l.S, m.eval(sc, s.Init).S)
			}
			sc.set(s.Name, &binding{loc: l, isVar: true})
		default:
			v := m.eval(sc, s.Init)
			if v.P == nil {
				v = Val{T: v.T, S: append([]uint32(nil), v.S...)}
			}
			sc.set(s.Name, &binding{v: v})
		}
	case *w.Assign:
		l := m.lval(sc, s.LHS)
		var v Val
		if s.Op == "=" {
			v = m.eval(sc, s.RHS)
		} else {
			cur := Val{T: l.T, S: append([]uint32(nil), m.read(l)...)}
			r := m.eval(sc, s.RHS)
			op := s.Op[:len(s.Op)-1]
			v = binop(op, cur, r, binType(op, cur.T, r.T))
		}
		m.write(l, v.S)
	case *w.IncDec:
		l := m.lval(sc, s.LHS)
		cur := m.read(l)[0]
		if s.Inc {
			cur++
		} else {
			cur--
		}
		m.write(l, []uint32{cur})
	case *w.If:
		if m.eval(sc, s.Cond).S[0] != 0 {
			return m.block(sc, s.Then)
		} else if s.HasElse || len(s.Else) > 0 {
			return m.block(sc, s.Else)
		}
	case *w.Switch:
		sel := m.eval(sc, s.Sel).S[0]
		def := -1
		hit := -1
		for i, c := range s.Cases {
			if c.Default {
				def = i
			}
			for _, e := range c.Sels {
				if m.eval(sc, e).S[0] == sel {
					hit = i
				}
			}
		}
		if hit < 0 {
			hit = def
		}
		if hit >= 0 {
			c := m.block(sc, s.Cases[hit].Body)
			if c == cBreak {
				return cNone
			}
			return c
		}
	case *w.Loop:
		for {
			m.step()
			// body and continuing share a scope chain: continuing sees body's declarations
			bsc := newScope(sc)
			c := cNone
			for _, b := range s.Body {
				if c = m.stmt(bsc, b); c != cNone {
					break
				}
			}
			if c == cBreak {
				return cNone
			}
			if c == cReturn {
				return c
			}
			csc := newScope(bsc)
			for _, b := range s.Continuing {
				if c2 := m.stmt(csc, b); c2 != cNone {
					if c2 == cReturn {
						return c2
					}
					bug("break/continue in continuing")
				}
			}
			if s.BreakIf != nil && m.eval(csc, s.BreakIf).S[0] != 0 {
				return cNone
			}
		}
	case *w.For:
		fsc := newScope(sc)
		if s.Init != nil {
			m.stmt(fsc, s.Init)
		}
		for {
			m.step()
			if s.Cond != nil && m.eval(fsc, s.Cond).S[0] == 0 {
				return cNone
			}
			c := m.block(fsc, s.Body)
			if c == cBreak {
				return cNone
			}
			if c == cReturn {
				return c
			}
			if s.Upd != nil {
				m.stmt(fsc, s.Upd)
			}
		}
	case *w.While:
		for {
			m.step()
			if m.eval(sc, s.Cond).S[0] == 0 {
				return cNone
			}
			c := m.block(sc, s.Body)
			if c == cBreak {
				return cNone
			}
			if c == cReturn {
				return c
			}
		}
	case *w.Break:
		return cBreak
	case *w.Continue:
		return cContinue
	case *w.Return:
		if s.X != nil {
			v := m.eval(sc, s.X)
			m.ret = Val{T: v.T, S: append([]uint32(nil), v.S...), P: v.P}
		}
		return cReturn
	case *w.Block:
		return m.block(sc, s.Body)
	case *w.ExprStmt:
		m.eval(sc, s.X)
	case *w.Barrier:
		if m.barrier != nil {
			m.barrier()
		}
	case *w.ConstAssert:
		if m.eval(sc, s.X).S[0] == 0 {
			bug("const_assert false in a valid program")
		}
	default:
		bug("stmt %T", s)
	}
	return cNone
}

func (m *machine) read(l *Loc) []uint32 {
	if l.Null {
		return make([]uint32, l.T.NumScalars())
	}
	return l.S
}
func (m *machine) write(l *Loc, v []uint32) {
	if l.Null {
		return
	}
	if l.RO {
		bug("write to read-only location")
	}
	if len(v) != len(l.S) {
		bug("write size %d into %d (%s)", len(v), len(l.S), l.T)
	}
	copy(l.S, v)
}

// sub returns the sub-location i of l (array element, vector component, matrix column, struct member).
func (m *machine) subLoc(l *Loc, i int) *Loc {
	t := l.T
	var et *w.Type
	var off, n, count int
	switch t.K {
	case w.TArray:
		et, n, count = t.Elem, t.Elem.NumScalars(), t.Len
		off = i * n
	case w.TVec:
		et, n, count = w.Scalar(t.S), 1, t.N
		off = i
	case w.TMat:
		et, n, count = w.Vec(t.S, t.N), t.N, t.C
		off = i * n
	case w.TStruct:
		count = len(t.Members)
		for k := 0; k < i; k++ {
			off += t.Members[k].T.NumScalars()
		}
		et, n = t.Members[i].T, t.Members[i].T.NumScalars()
	default:
		bug("subLoc of %s", t)
	}
	if l.Null {
		return &Loc{T: et, Null: true}
	}
	if i < 0 || i >= count {
		bug("subLoc index %d of %d", i, count)
	}
	return &Loc{T: et, S: l.S[off : off+n], RO: l.RO}
}

func count(t *w.Type) int {
	switch t.K {
	case w.TArray:
		return t.Len
	case w.TVec:
		return t.N
	case w.TMat:
		return t.C
	}
	return 0
}

// index applies the OOB policy; ok=false means "null location".
func (m *machine) index(i uint32, signed bool, n int) (int, bool) {
	in := int64(i)
	if signed {
		in = int64(int32(i))
	}
	if in >= 0 && in < int64(n) {
		return int(in), true
	}
	switch m.cfg.OOB {
	case OOBClamp:
		// restrict: index clamped as unsigned min(u32(i), n-1)
		if int64(i) > int64(n-1) {
			return n - 1, true
		}
		return int(i), true
	case OOBZeroSkip:
		return 0, false
	}
	undef("index %d out of bounds (len %d)", in, n)
	return 0, false
}

func (m *machine) lval(sc *scope, e w.Expr) *Loc {
	switch e := e.(type) {
	case *w.Ref:
		b := sc.get(e.Name)
		if b == nil {
			bug("unbound %s", e.Name)
		}
		if b.isVar {
			return b.loc
		}
		if b.v.P != nil {
			bug("pointer let used as reference without deref: %s", e.Name)
		}
		bug("%s is not a variable", e.Name)
	case *w.Paren:
		return m.lval(sc, e.X)
	case *w.Deref:
		v := m.eval(sc, e.X)
		if v.P == nil {
			bug("deref of non-pointer")
		}
		return v.P
	case *w.Index:
		l := m.lval(sc, e.X)
		iv := m.eval(sc, e.I)
		i, ok := m.index(iv.S[0], iv.T.S == w.I32, count(l.T))
		if !ok || l.Null {
			return &Loc{T: e.Ty, Null: true}
		}
		return m.subLoc(l, i)
	case *w.Field:
		l := m.lval(sc, e.X)
		for i, mb := range l.T.Members {
			if mb.Name == e.Name {
				return m.subLoc(l, i)
			}
		}
		bug("no member %s", e.Name)
	case *w.Swz:
		if len(e.Pat) != 1 {
			bug("multi-component swizzle as reference")
		}
		l := m.lval(sc, e.X)
		return m.subLoc(l, swzIndex(e.Pat[0]))
	}
	bug("not an lvalue: %T", e)
	return nil
}

func swzIndex(c byte) int {
	switch c {
	case 'x', 'r':
		return 0
	case 'y', 'g':
		return 1
	case 'z', 'b':
		return 2
	}
	return 3
}

func isRefExpr(sc *scope, e w.Expr) bool {
	switch e := e.(type) {
	case *w.Ref:
		b := sc.get(e.Name)
		return b != nil && b.isVar
	case *w.Paren:
		return isRefExpr(sc, e.X)
	case *w.Deref:
		return true
	case *w.Index:
		return isRefExpr(sc, e.X)
	case *w.Field:
		return isRefExpr(sc, e.X)
	case *w.Swz:
		return len(e.Pat) == 1 && isRefExpr(sc, e.X)
	}
	return false
}

func (m *machine) eval(sc *scope, e w.Expr) Val {
	m.step()
	switch e := e.(type) {
	case *w.Lit:
		return Val{T: e.Ty, S: []uint32{e.Bits}}
	case *w.Paren:
		return m.eval(sc, e.X)
	case *w.Ref:
		b := sc.get(e.Name)
		if b == nil {
			bug("unbound %s", e.Name)
		}
		if b.isVar {
			return Val{T: b.loc.T, S: append([]uint32(nil), m.read(b.loc)...)}
		}
		return b.v
	case *w.AddrOf:
		return Val{T: e.Ty, P: m.lval(sc, e.X)}
	case *w.Deref:
		l := m.eval(sc, e.X).P
		return Val{T: l.T, S: append([]uint32(nil), m.read(l)...)}
	case *w.Index:
		if isRefExpr(sc, e) {
			l := m.lval(sc, e)
			return Val{T: l.T, S: append([]uint32(nil), m.read(l)...)}
		}
		x := m.eval(sc, e.X)
		iv := m.eval(sc, e.I)
		i, ok := m.index(iv.S[0], iv.T.S == w.I32, count(x.T))
		if !ok {
			return zero(e.Ty)
		}
		n := e.Ty.NumScalars()
		return Val{T: e.Ty, S: x.S[i*n : (i+1)*n]}
	case *w.Field:
		if isRefExpr(sc, e) {
			l := m.lval(sc, e)
			return Val{T: l.T, S: append([]uint32(nil), m.read(l)...)}
		}
		x := m.eval(sc, e.X)
		off := 0
		for _, mb := range x.T.Members {
			n := mb.T.NumScalars()
			if mb.Name == e.Name {
				return Val{T: mb.T, S: x.S[off : off+n]}
			}
			off += n
		}
		bug("no member %s", e.Name)
	case *w.Swz:
		x := m.eval(sc, e.X)
		out := make([]uint32, len(e.Pat))
		for i := range e.Pat {
			out[i] = x.S[swzIndex(e.Pat[i])]
		}
		return Val{T: e.Ty, S: out}
	case *w.Un:
		return unop(e.Op, m.eval(sc, e.X), e.Ty)
	case *w.Bin:
		if e.Op == "&&" {
			l := m.eval(sc, e.L)
			if l.S[0] == 0 {
				return l
			}
			return m.eval(sc, e.R)
		}
		if e.Op == "||" {
			l := m.eval(sc, e.L)
			if l.S[0] != 0 {
				return l
			}
			return m.eval(sc, e.R)
		}
		l := m.eval(sc, e.L)
		r := m.eval(sc, e.R)
		return binop(e.Op, l, r, e.Ty)
	case *w.Cons:
		return m.cons(sc, e)
	case *w.Bitcast:
		x := m.eval(sc, e.X)
		return Val{T: e.Ty, S: x.S}
	case *w.Call:
		if e.User {
			fn := m.mod.Func(e.Fn)
			args := make([]Val, len(e.Args))
			for i, a := range e.Args {
				args[i] = m.eval(sc, a)
				if args[i].P == nil {
					args[i].S = append([]uint32(nil), args[i].S...)
				}
			}
			return m.call(fn, args)
		}
		return m.builtin(sc, e)
	}
	bug("eval %T", e)
	return Val{}
}

func (m *machine) cons(sc *scope, e *w.Cons) Val {
	t := e.Ty
	if len(e.Args) == 0 {
		return zero(t)
	}
	var flat []uint32
	var kinds []w.SK
	for _, a := range e.Args {
		v := m.eval(sc, a)
		flat = append(flat, v.S...)
		for i := range v.S {
			kinds = append(kinds, v.T.Leaf(i))
		}
	}
	switch t.K {
	case w.TScalar:
		return Val{T: t, S: []uint32{convert(flat[0], kinds[0], t.S)}}
	case w.TVec:
		out := make([]uint32, t.N)
		if len(flat) == 1 {
			for i := range out {
				out[i] = convert(flat[0], kinds[0], t.S)
			}
			return Val{T: t, S: out}
		}
		if len(flat) != t.N {
			bug("vec cons %d from %d", t.N, len(flat))
		}
		for i := range out {
			out[i] = convert(flat[i], kinds[i], t.S)
		}
		return Val{T: t, S: out}
	case w.TMat, w.TArray, w.TStruct:
		if len(flat) != t.NumScalars() {
			bug("cons %s from %d scalars", t, len(flat))
		}
		return Val{T: t, S: flat}
	}
	bug("cons %s", t)
	return Val{}
}

// convert a scalar between kinds with WGSL value-conversion semantics.
func convert(b uint32, from, to w.SK) uint32 {
	if from == to {
		return b
	}
	switch to {
	case w.Bool:
		switch from {
		case w.F32:
			f := math.Float32frombits(b)
			if f != 0 { // NaN != 0 true
				return 1
			}
			return 0
		}
		if b != 0 {
			return 1
		}
		return 0
	case w.I32:
		switch from {
		case w.Bool, w.U32:
			return b
		case w.F32:
			return uint32(f2i(math.Float32frombits(b)))
		}
	case w.U32:
		switch from {
		case w.Bool, w.I32:
			return b
		case w.F32:
			return f2u(math.Float32frombits(b))
		}
	case w.F32:
		switch from {
		case w.Bool:
			if b != 0 {
				return math.Float32bits(1)
			}
			return 0
		case w.I32:
			return math.Float32bits(float32(int32(b)))
		case w.U32:
			return math.Float32bits(float32(b))
		}
	}
	bug("convert %v->%v", from, to)
	return 0
}

// f2i: truncate toward zero, clamp to the i32 range (NaN -> 0; callers keep NaN out of compared inputs).
func f2i(f float32) int32 {
	if f != f {
		return 0
	}
	if f >= 2147483648.0 {
		return math.MaxInt32
	}
	if f <= -2147483648.0 {
		return math.MinInt32
	}
	return int32(f)
}
func f2u(f float32) uint32 {
	if f != f {
		return 0
	}
	if f >= 4294967296.0 {
		return math.MaxUint32
	}
	if f <= 0 {
		return 0
	}
	return uint32(f)
}
