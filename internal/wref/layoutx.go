package wref

// Reference WGSL memory layout for the F3x type trees (f16, atomics, @align/@size), DESIGN.md
// Appendix C.2 / WGSL "Memory Layout" (Alignment and Size, Structure Member Layout, Array Layout).
// This is the oracle of C07's static checks. It is written directly from the table and does not use
// the generator-side helpers of internal/wgen (which exist only to decide what is permitted); the
// check asserts that both agree on every enumerated type.

import w "verif/internal/wgen"

// XLayout is the layout of one type node.
type XLayout struct {
	T         *w.XT
	Align     int
	Size      int // runtime-sized arrays: one element
	Stride    int // arrays: element stride
	ColStride int // matrices (and arrays of matrices, however deep): column stride
	Scalar    int // byte width of the leaf scalar (scalars, vectors, matrices, atomics)
	Runtime   bool
	Elem      *XLayout   // arrays
	Members   []*XLayout // structs
	Offsets   []int      // structs: member offsets
}

func ceilTo(k, n int) int { return (n + k - 1) / k * k }

func scalarWidth(s string) int {
	switch s {
	case "f16":
		return 2
	case "f32", "i32", "u32":
		return 4
	}
	panic("wref.Layout: scalar " + s)
}

// Layout computes the WGSL layout of t.
func Layout(t *w.XT) *XLayout {
	l := &XLayout{T: t}
	switch t.K {
	case w.XScalar, w.XAtomic:
		// i32, u32, f32, atomic<T>: 4/4; f16: 2/2
		l.Scalar = scalarWidth(t.S)
		l.Align, l.Size = l.Scalar, l.Scalar
	case w.XVec:
		// vec2<T>: align 2w size 2w; vec3<T>: align 4w size 3w; vec4<T>: align 4w size 4w
		l.Scalar = scalarWidth(t.S)
		l.Size = t.N * l.Scalar
		l.Align = []int{0, 0, 2, 4, 4}[t.N] * l.Scalar
	case w.XMat:
		// matCxR<T>: AlignOf(vecR<T>); SizeOf(array<vecR<T>, C>)
		l.Scalar = scalarWidth(t.S)
		va := []int{0, 0, 2, 4, 4}[t.N] * l.Scalar
		vs := t.N * l.Scalar
		l.Align = va
		l.ColStride = ceilTo(va, vs)
		l.Size = t.C * l.ColStride
	case w.XArray:
		// array<E, N>: AlignOf(E); N * roundUp(AlignOf(E), SizeOf(E))
		l.Elem = Layout(t.Elem)
		l.Align = l.Elem.Align
		l.Stride = ceilTo(l.Elem.Align, l.Elem.Size)
		l.ColStride = l.Elem.ColStride
		n := t.Len
		if n == 0 {
			n, l.Runtime = 1, true
		}
		l.Size = n * l.Stride
	case w.XStruct:
		// member i: align = @align or AlignOf, size = @size or SizeOf;
		// offset(0) = 0, offset(i) = roundUp(align(i), offset(i-1) + size(i-1));
		// AlignOf(S) = max member align; SizeOf(S) = roundUp(AlignOf(S), offset(last) + size(last))
		end, maxA := 0, 1
		for _, m := range t.Members {
			ml := Layout(m.T)
			a, s := ml.Align, ml.Size
			if m.Align != 0 {
				a = m.Align
			}
			if m.Size != 0 {
				s = m.Size
			}
			off := ceilTo(a, end)
			l.Members = append(l.Members, ml)
			l.Offsets = append(l.Offsets, off)
			end = off + s
			if a > maxA {
				maxA = a
			}
			l.Runtime = ml.Runtime
		}
		l.Align = maxA
		l.Size = ceilTo(maxA, end)
	}
	return l
}
