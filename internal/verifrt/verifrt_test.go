package verifrt

import (
	"fmt"
	"reflect"
	"sort"
	"strings"
	"testing"
)

type sk struct {
	A uint32
	B string
}

func collect[K comparable, V any](m map[K]V, site string) []K {
	var ks []K
	for k := range MapSeq2(m, site) {
		ks = append(ks, k)
	}
	return ks
}

func TestMapSeq2Orders(t *testing.T) {
	defer Install(nil)
	m := map[int]string{5: "e", 1: "a", 4: "d", 2: "b", 3: "c"}
	cases := []struct {
		o    Order
		want []int
	}{
		{Order{Kind: Asc}, []int{1, 2, 3, 4, 5}},
		{Order{Kind: Desc}, []int{5, 4, 3, 2, 1}},
		{Order{Kind: Rot, R: 1}, []int{2, 3, 4, 5, 1}},
		{Order{Kind: Rot, R: 7}, []int{3, 4, 5, 1, 2}},
		{Order{Kind: RotHalf}, []int{3, 4, 5, 1, 2}},
	}
	for _, c := range cases {
		ctl := &Controller{Order: c.o}
		Install(ctl)
		if got := collect(m, "s"); !reflect.DeepEqual(got, c.want) {
			t.Errorf("%v: got %v want %v", c.o, got, c.want)
		}
		mx, hits := ctl.SiteStats()
		if mx["s"] != 5 || hits["s"] != 1 {
			t.Errorf("site stats %v %v", mx, hits)
		}
	}
	// Values are the ones current at visit time.
	Install(&Controller{Order: Order{Kind: Asc}})
	var vs []string
	for k, v := range MapSeq2(m, "s") {
		if k == 1 {
			m[3] = "changed"
		}
		vs = append(vs, v)
	}
	if strings.Join(vs, "") != "abchangedde" {
		t.Errorf("values: %v", vs)
	}
	// Per-site override.
	Install(&Controller{Order: Order{Kind: Asc}, SiteOrder: map[string]Order{"x": {Kind: Desc}}})
	if got := collect(m, "x"); got[0] != 5 {
		t.Errorf("site override ignored: %v", got)
	}
	if got := collect(m, "y"); got[0] != 1 {
		t.Errorf("global order lost: %v", got)
	}
	// Struct and string keys.
	Install(&Controller{Order: Order{Kind: Asc}})
	ms := map[sk]int{{2, "a"}: 1, {1, "z"}: 2, {1, "b"}: 3}
	if got := collect(ms, "k"); !reflect.DeepEqual(got, []sk{{1, "b"}, {1, "z"}, {2, "a"}}) {
		t.Errorf("struct keys: %v", got)
	}
	mstr := map[string]bool{"b": true, "a": true, "c": true}
	if got := collect(mstr, "k"); strings.Join(got, "") != "abc" {
		t.Errorf("string keys: %v", got)
	}
	// Early exit.
	n := 0
	for range MapSeq2(m, "s") {
		n++
		if n == 2 {
			break
		}
	}
	if n != 2 {
		t.Errorf("break: %d", n)
	}
}

func TestMapSeq2DeleteAndInsertDuringWalk(t *testing.T) {
	defer Install(nil)
	for _, o := range []Order{{Kind: Native}, {Kind: Asc}, {Kind: Desc}, {Kind: Rot, R: 2}} {
		Install(&Controller{Order: o})
		m := map[int]int{1: 1, 2: 2, 3: 3, 4: 4, 5: 5, 6: 6}
		var seen []int
		for k := range MapSeq2(m, "d") {
			seen = append(seen, k)
			// Delete every key not yet visited but one; insert a new key.
			if len(seen) == 1 {
				kept := false
				for j := 1; j <= 6; j++ {
					if j != k && !kept {
						kept = true
						continue
					}
					if j != k {
						delete(m, j)
					}
				}
				m[100+k] = 0
			}
		}
		// Exactly: the first key, the one kept, and possibly (native only) the inserted one.
		if len(seen) < 2 || len(seen) > 3 {
			t.Errorf("%v: visited %v", o, seen)
		}
		for _, k := range seen[1:] {
			if _, ok := m[k]; !ok {
				t.Errorf("%v: visited deleted key %d", o, k)
			}
		}
		if o.Kind != Native && len(seen) != 2 {
			t.Errorf("%v: ordered walk visited an inserted key: %v", o, seen)
		}
	}
}

func TestPassThroughIsNative(t *testing.T) {
	Install(nil)
	m := map[string]int{"a": 1, "b": 2, "c": 3}
	got := collect(m, "p")
	sort.Strings(got)
	if strings.Join(got, "") != "abc" {
		t.Errorf("%v", got)
	}
	var nilm map[string]int
	if len(collect(nilm, "p")) != 0 {
		t.Error("nil map")
	}
	Yield("anything") // must be a no-op
}

func TestYieldRouting(t *testing.T) {
	defer Install(nil)
	var got []string
	c := &Controller{Sites: map[string]struct{}{"a.F": {}, "a.G": {}}, OnYield: func(tid int, site string) { got = append(got, fmt.Sprint(tid, " ", site)) }}
	c.Decide = func(site string) bool { return site != "a.G" }
	Install(c)
	Yield("a.F") // not a registered thread
	if len(got) != 0 {
		t.Fatalf("unregistered goroutine yielded: %v", got)
	}
	done := make(chan bool)
	go func() {
		c.RegisterThread(3)
		Yield("a.F")
		Yield("a.G") // Decide says no
		Yield("a.H") // not enabled
		c.UnregisterThread()
		Yield("a.F")
		done <- true
	}()
	<-done
	if !reflect.DeepEqual(got, []string{"3 a.F"}) {
		t.Errorf("got %v", got)
	}
}

type inner struct {
	x   int
	s   []string
	m   map[string]int
	p   *inner
	f   func()
	any any
}

func TestHashAndDump(t *testing.T) {
	mk := func() *inner {
		a := &inner{x: 1, s: []string{"p", "q"}, m: map[string]int{}, any: sk{1, "v"}}
		for i := 0; i < 50; i++ {
			a.m[fmt.Sprint("k", i)] = i
		}
		a.p = &inner{x: 2, p: a} // cycle
		return a
	}
	a, b := mk(), mk()
	// Different insertion history, same content.
	delete(b.m, "k3")
	b.m["k3"] = 3
	if Hash(a) != Hash(b) || DumpString(a) != DumpString(b) {
		t.Fatal("equal structures hash differently")
	}
	h0 := Hash(a)
	a.p.x = 3
	if Hash(a) == h0 {
		t.Error("change through pointer not seen")
	}
	a.p.x = 2
	a.m["k7"] = 70
	if Hash(a) == h0 {
		t.Error("map value change not seen")
	}
	d, ok := FirstDiff(DumpString(b), DumpString(a))
	if !ok || !strings.Contains(d, `.m["k7"]`) {
		t.Errorf("first diff: %q", d)
	}
	if p := DiffPath(DumpString(b), DumpString(a)); p != `#0*.m["k7"]` {
		t.Errorf("diff path %q", p)
	}
	a.m["k7"] = 7
	a.any = sk{1, "w"}
	if Hash(a) == h0 {
		t.Error("interface payload change not seen")
	}
	a.any = sk{1, "v"}
	a.f = func() {}
	if Hash(a) != h0 {
		t.Error("function values must not count")
	}
	a.s = append(a.s[:1:1], "z")
	if Hash(a) == h0 {
		t.Error("slice element change not seen")
	}
}

var testGlobal = map[string][]int{"a": {1}}
var testTable = map[string]int{"x": 1}

func TestGlobals(t *testing.T) {
	RegisterGlobal("t.testGlobal", &testGlobal)
	RegisterGlobal("t.testTable", &testTable, "ro")
	h, hot := GlobalsHash(), GlobalsHashHot()
	testGlobal["a"][0] = 2
	if GlobalsHash() == h || GlobalsHashHot() == hot {
		t.Error("write to a package-level variable not seen")
	}
	testGlobal["a"][0] = 1
	if GlobalsHash() != h || GlobalsHashHot() != hot {
		t.Error("restore not seen")
	}
	testTable["x"] = 2
	if GlobalsHash() == h {
		t.Error("full hash must include read-only tables")
	}
	if GlobalsHashHot() != hot {
		t.Error("hot hash must leave read-only tables out")
	}
	if !strings.Contains(GlobalsDump(), `t.testTable["x"] = 2`) {
		t.Errorf("dump:\n%s", GlobalsDump())
	}
}

func TestCompareKeysTotalOrder(t *testing.T) {
	var a, b any = int32(1), "s"
	ks := []any{a, b, nil, int32(0)}
	sort.Slice(ks, func(i, j int) bool {
		return CompareKeys(reflect.ValueOf(&ks[i]).Elem(), reflect.ValueOf(&ks[j]).Elem()) < 0
	})
	if ks[0] != nil || ks[1] != int32(0) || ks[2] != int32(1) || ks[3] != "s" {
		t.Errorf("%v", ks)
	}
}

func TestNagaDepthOutsideNaga(t *testing.T) {
	if d := NagaDepth(); d != 0 {
		t.Errorf("depth %d", d)
	}
}
