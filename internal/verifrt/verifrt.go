// Package verifrt is the runtime behind the C12 instrumentation. The build
// overlay injects it into naga as github.com/gogpu/naga/verifrt; instrumented
// naga calls Yield at every function entry and walks maps through MapSeq2.
// With no controller installed every entry point is a pass-through guarded by
// one atomic load. Standard library only.
package verifrt

import (
	"iter"
	"reflect"
	"runtime"
	"slices"
	"strings"
	"sync"
	"sync/atomic"
)

// OrderKind selects how MapSeq2 walks a map.
type OrderKind int

const (
	Native  OrderKind = iota // the runtime's own (randomised) order
	Asc                      // ascending in the total key order of CompareKeys
	Desc                     // descending
	Rot                      // ascending rotated left by R (mod len)
	RotHalf                  // ascending rotated left by len/2
)

type Order struct {
	Kind OrderKind
	R    int
}

func (o Order) String() string {
	switch o.Kind {
	case Native:
		return "native"
	case Asc:
		return "asc"
	case Desc:
		return "desc"
	case Rot:
		return "rot" + itoa(o.R)
	case RotHalf:
		return "rothalf"
	}
	return "?"
}

func itoa(n int) string {
	if n == 0 {
		return "0"
	}
	var b [20]byte
	i := len(b)
	neg := n < 0
	if neg {
		n = -n
	}
	for n > 0 {
		i--
		b[i] = byte('0' + n%10)
		n /= 10
	}
	if neg {
		i--
		b[i] = '-'
	}
	return string(b[i:])
}

// Controller is the harness's handle on instrumented code. Fields other than
// the thread table must not be changed after Install.
type Controller struct {
	// A Yield at an enabled site (AllSites, or a member of Sites) first asks
	// Decide (nil = yes), on whatever goroutine called; only if it says yes is
	// the caller looked up in the thread table, and OnYield runs when the
	// caller is a registered harness thread. OnYield == nil disables yields.
	OnYield  func(tid int, site string)
	Decide   func(site string) bool
	AllSites bool
	Sites    map[string]struct{}

	// Order applies to every map-range site; SiteOrder overrides it per site.
	Order     Order
	SiteOrder map[string]Order

	mu      sync.Mutex
	tids    map[uint64]int
	siteMax map[string]int
	siteHit map[string]int
}

var active atomic.Pointer[Controller]

// Install makes c the controller (nil restores pass-through).
func Install(c *Controller) { active.Store(c) }

// Active returns the installed controller or nil.
func Active() *Controller { return active.Load() }

// RegisterThread binds the calling goroutine to harness thread tid.
func (c *Controller) RegisterThread(tid int) {
	g := goid()
	c.mu.Lock()
	if c.tids == nil {
		c.tids = map[uint64]int{}
	}
	c.tids[g] = tid
	c.mu.Unlock()
}

// UnregisterThread removes the calling goroutine's binding.
func (c *Controller) UnregisterThread() {
	g := goid()
	c.mu.Lock()
	delete(c.tids, g)
	c.mu.Unlock()
}

// ThreadID reports the harness thread bound to the calling goroutine.
func (c *Controller) ThreadID() (int, bool) {
	g := goid()
	c.mu.Lock()
	t, ok := c.tids[g]
	c.mu.Unlock()
	return t, ok
}

// SiteStats returns, per map-range site reached while c was installed, the
// largest len(m) seen and the number of walks.
func (c *Controller) SiteStats() (max map[string]int, hits map[string]int) {
	c.mu.Lock()
	defer c.mu.Unlock()
	max, hits = map[string]int{}, map[string]int{}
	for k, v := range c.siteMax {
		max[k] = v
	}
	for k, v := range c.siteHit {
		hits[k] = v
	}
	return
}

func (c *Controller) noteSite(site string, n int) {
	c.mu.Lock()
	if c.siteMax == nil {
		c.siteMax, c.siteHit = map[string]int{}, map[string]int{}
	}
	if old, ok := c.siteMax[site]; !ok || n > old {
		c.siteMax[site] = n
	}
	c.siteHit[site]++
	c.mu.Unlock()
}

// Yield is called at the entry of every instrumented function.
func Yield(site string) {
	c := active.Load()
	if c == nil {
		return
	}
	c.yield(site)
}

func (c *Controller) yield(site string) {
	if c.OnYield == nil {
		return
	}
	if !c.AllSites {
		if _, ok := c.Sites[site]; !ok {
			return
		}
	}
	if c.Decide != nil && !c.Decide(site) {
		return
	}
	tid, ok := c.ThreadID()
	if !ok {
		return
	}
	c.OnYield(tid, site)
}

// goid parses the goroutine id from the stack header ("goroutine N [").
func goid() uint64 {
	var buf [40]byte
	n := runtime.Stack(buf[:], false)
	const p = len("goroutine ")
	var id uint64
	for i := p; i < n; i++ {
		ch := buf[i]
		if ch < '0' || ch > '9' {
			break
		}
		id = id*10 + uint64(ch-'0')
	}
	return id
}

const nagaPrefix = "github.com/gogpu/naga"

// NagaDepth counts the naga frames (verifrt excluded) on the calling
// goroutine's stack: 1 inside a public entry point called from the harness.
func NagaDepth() int {
	var pcs [256]uintptr
	n := runtime.Callers(2, pcs[:])
	fr := runtime.CallersFrames(pcs[:n])
	d := 0
	for {
		f, more := fr.Next()
		if strings.HasPrefix(f.Function, nagaPrefix) && !strings.HasPrefix(f.Function, nagaPrefix+"/verifrt.") {
			d++
		}
		if !more {
			break
		}
	}
	return d
}

// MapSeq2 stands in for the operand of `for k, v := range m`. In pass-through
// and Native mode it is the native loop. Otherwise it snapshots the keys,
// orders them as the controller says and, like the native loop, yields the
// value current at visit time, skips keys deleted during the walk and
// tolerates insertions (new keys are not visited, which the language permits).
func MapSeq2[M ~map[K]V, K comparable, V any](m M, site string) iter.Seq2[K, V] {
	c := active.Load()
	if c == nil {
		return func(yield func(K, V) bool) {
			for k, v := range m {
				if !yield(k, v) {
					return
				}
			}
		}
	}
	return func(yield func(K, V) bool) {
		n := len(m)
		c.noteSite(site, n)
		o := c.Order
		if so, ok := c.SiteOrder[site]; ok {
			o = so
		}
		var keys []K
		if o.Kind != Native && n >= 2 {
			keys = make([]K, 0, n)
			for k := range m {
				if k != k { // NaN-bearing key: cannot be looked up again
					keys = nil
					break
				}
				keys = append(keys, k)
			}
		}
		if keys == nil {
			for k, v := range m {
				if !yield(k, v) {
					return
				}
			}
			return
		}
		SortKeys(keys)
		r := 0
		switch o.Kind {
		case Desc:
			slices.Reverse(keys)
		case Rot:
			r = o.R % n
		case RotHalf:
			r = n / 2
		}
		for i := range keys {
			k := keys[(i+r)%n]
			v, ok := m[k]
			if !ok {
				continue
			}
			if !yield(k, v) {
				return
			}
		}
	}
}

// SortKeys sorts keys ascending in the total order of CompareKeys.
func SortKeys[K comparable](keys []K) {
	switch ks := any(keys).(type) {
	case []string:
		slices.Sort(ks)
		return
	case []int:
		slices.Sort(ks)
		return
	case []uint32:
		slices.Sort(ks)
		return
	case []uint64:
		slices.Sort(ks)
		return
	case []int32:
		slices.Sort(ks)
		return
	}
	slices.SortFunc(keys, func(a, b K) int {
		return CompareKeys(reflect.ValueOf(&a).Elem(), reflect.ValueOf(&b).Elem())
	})
}

func cmpOrd[T int64 | uint64 | float64 | string | uintptr](a, b T) int {
	if a < b {
		return -1
	}
	if a > b {
		return 1
	}
	return 0
}

// CompareKeys is a total order over values of one comparable type: numbers and
// strings by value, false < true, structs and arrays lexicographically,
// interfaces by (nil first, dynamic type name, value), pointers and channels by
// address (stable within a process).
func CompareKeys(a, b reflect.Value) int {
	switch a.Kind() {
	case reflect.Bool:
		x, y := a.Bool(), b.Bool()
		if x == y {
			return 0
		}
		if !x {
			return -1
		}
		return 1
	case reflect.Int, reflect.Int8, reflect.Int16, reflect.Int32, reflect.Int64:
		return cmpOrd(a.Int(), b.Int())
	case reflect.Uint, reflect.Uint8, reflect.Uint16, reflect.Uint32, reflect.Uint64, reflect.Uintptr:
		return cmpOrd(a.Uint(), b.Uint())
	case reflect.Float32, reflect.Float64:
		return cmpOrd(a.Float(), b.Float())
	case reflect.Complex64, reflect.Complex128:
		x, y := a.Complex(), b.Complex()
		if c := cmpOrd(real(x), real(y)); c != 0 {
			return c
		}
		return cmpOrd(imag(x), imag(y))
	case reflect.String:
		return cmpOrd(a.String(), b.String())
	case reflect.Pointer, reflect.Chan, reflect.UnsafePointer:
		return cmpOrd(uintptr(a.UnsafePointer()), uintptr(b.UnsafePointer()))
	case reflect.Struct:
		for i := 0; i < a.NumField(); i++ {
			if c := CompareKeys(a.Field(i), b.Field(i)); c != 0 {
				return c
			}
		}
		return 0
	case reflect.Array:
		for i := 0; i < a.Len(); i++ {
			if c := CompareKeys(a.Index(i), b.Index(i)); c != 0 {
				return c
			}
		}
		return 0
	case reflect.Interface:
		if a.IsNil() || b.IsNil() {
			switch {
			case a.IsNil() && b.IsNil():
				return 0
			case a.IsNil():
				return -1
			}
			return 1
		}
		x, y := a.Elem(), b.Elem()
		if x.Type() != y.Type() {
			if c := cmpOrd(x.Type().String(), y.Type().String()); c != 0 {
				return c
			}
			return cmpOrd(x.Type().PkgPath(), y.Type().PkgPath())
		}
		return CompareKeys(x, y)
	}
	return 0
}
