package verifrt

import (
	"fmt"
	"hash/fnv"
	"io"
	"math"
	"reflect"
	"slices"
	"sort"
	"strconv"
	"strings"
	"sync"
	"unsafe"
)

// Global is one registered package-level variable (Ptr is &variable).
type Global struct {
	Name string
	Ptr  any
	// RO: the instrumenter proved by syntax that no code writes this table;
	// it is left out of the per-point "hot" fingerprint.
	RO bool
}

var globals []Global

// RegisterGlobal is called from generated init functions, one call per package-level var.
func RegisterGlobal(name string, ptr any, flags ...string) {
	g := Global{Name: name, Ptr: ptr}
	for _, f := range flags {
		if f == "ro" {
			g.RO = true
		}
	}
	globals = append(globals, g)
}

// Globals returns the registered package-level variables sorted by name.
func Globals() []Global {
	globalsOnce.Do(func() {
		sorted = slices.Clone(globals)
		sort.Slice(sorted, func(i, j int) bool { return sorted[i].Name < sorted[j].Name })
	})
	return sorted
}

var (
	globalsOnce sync.Once
	sorted      []Global
)

// opaquePkgs are packages whose struct types carry lazily initialised or
// synchronisation state that is not program-visible data.
var opaquePkgs = map[string]bool{
	"sync": true, "sync/atomic": true, "regexp": true, "regexp/syntax": true,
	"reflect": true, "time": true, "os": true, "math/rand": true, "unicode": true,
	"text/template": true, "internal/sync": true,
}

func opaque(t reflect.Type) bool {
	if opaquePkgs[t.PkgPath()] {
		return true
	}
	return t.PkgPath() == "strings" && t.Name() == "Replacer"
}

// sink receives the canonical walk. path segments nest; leaf closes a path.
type sink interface {
	push(seg string)
	pushIdx(i int)
	pop()
	leaf(s string)
	leafU(kind byte, u uint64) // 'i' signed, 'u' unsigned, 'f' float32 bits, 'd' float64 bits
	leafQ(s string)            // string value (quoted in text form)
}

type hashSink struct {
	h   uint64
	buf []byte
}

const (
	fnvOff   = 14695981039346656037
	fnvPrime = 1099511628211
)

func (s *hashSink) w(b string) {
	h := s.h
	for i := 0; i < len(b); i++ {
		h = (h ^ uint64(b[i])) * fnvPrime
	}
	s.h = (h ^ 0xff) * fnvPrime
}
func (s *hashSink) push(seg string) { s.w(seg) }
func (s *hashSink) pushIdx(i int) {
	s.h = (s.h ^ uint64(i) ^ 0x5bd1e995) * fnvPrime
}
func (s *hashSink) pop()          { s.h = (s.h ^ 0x7d) * fnvPrime }
func (s *hashSink) leaf(v string) { s.w(v) }
func (s *hashSink) leafU(kind byte, u uint64) {
	s.h = ((s.h^uint64(kind))*fnvPrime ^ u) * fnvPrime
	s.h ^= s.h >> 29
}
func (s *hashSink) leafQ(v string) { s.w(v) }

type textSink struct {
	w    io.Writer
	path []string
}

func (s *textSink) push(seg string) { s.path = append(s.path, seg) }
func (s *textSink) pushIdx(i int)   { s.path = append(s.path, "["+strconv.Itoa(i)+"]") }
func (s *textSink) pop()            { s.path = s.path[:len(s.path)-1] }
func (s *textSink) leafQ(v string)  { s.leaf(strconv.Quote(v)) }
func (s *textSink) leafU(kind byte, u uint64) {
	switch kind {
	case 'i':
		s.leaf(strconv.FormatInt(int64(u), 10))
	case 'u':
		s.leaf(strconv.FormatUint(u, 10))
	case 'f':
		s.leaf("f32:" + strconv.FormatUint(u, 16))
	default:
		s.leaf("f64:" + strconv.FormatUint(u, 16))
	}
}
func (s *textSink) leaf(v string) {
	io.WriteString(s.w, strings.Join(s.path, ""))
	io.WriteString(s.w, " = ")
	io.WriteString(s.w, v)
	io.WriteString(s.w, "\n")
}

type ptrKey struct {
	p unsafe.Pointer
	t reflect.Type
}

type walker struct {
	s     sink
	seen  map[ptrKey]int
	depth int
}

// Dump writes a canonical, deterministic text form of the values reachable
// from roots (pointers are followed, maps are walked in key order, unexported
// fields are included, function values and synchronisation internals are not):
// one "path = value" line per leaf.
func Dump(w io.Writer, roots ...any) {
	wk := &walker{s: &textSink{w: w}, seen: map[ptrKey]int{}}
	wk.roots(roots)
}

// DumpString is Dump into a string.
func DumpString(roots ...any) string {
	var b strings.Builder
	Dump(&b, roots...)
	return b.String()
}

// Hash is a 64-bit digest of the same walk Dump performs.
func Hash(roots ...any) uint64 {
	hs := &hashSink{h: fnvOff}
	wk := &walker{s: hs, seen: map[ptrKey]int{}}
	wk.roots(roots)
	return hs.h
}

// GlobalsHash digests every registered package-level variable.
func GlobalsHash() uint64 { return globalsHash(true) }

// GlobalsHashHot digests the package-level variables not classified RO.
func GlobalsHashHot() uint64 { return globalsHash(false) }

func globalsHash(all bool) uint64 {
	hs := &hashSink{h: fnvOff}
	wk := &walker{s: hs, seen: map[ptrKey]int{}}
	for _, g := range Globals() {
		if g.RO && !all {
			continue
		}
		hs.push(g.Name)
		wk.value(reflect.ValueOf(g.Ptr).Elem())
		hs.pop()
	}
	return hs.h
}

// GlobalsDump is the text form behind GlobalsHash.
func GlobalsDump() string {
	var b strings.Builder
	wk := &walker{s: &textSink{w: &b}, seen: map[ptrKey]int{}}
	for _, g := range Globals() {
		wk.s.push(g.Name)
		wk.value(reflect.ValueOf(g.Ptr).Elem())
		wk.s.pop()
	}
	return b.String()
}

// FirstDiff returns the path of the first line at which two dumps differ,
// with both values; ok is false when the dumps are equal.
func FirstDiff(a, b string) (detail string, ok bool) {
	la, lb := strings.Split(a, "\n"), strings.Split(b, "\n")
	for i := 0; i < len(la) || i < len(lb); i++ {
		var x, y string
		if i < len(la) {
			x = la[i]
		}
		if i < len(lb) {
			y = lb[i]
		}
		if x != y {
			px, vx, _ := strings.Cut(x, " = ")
			py, vy, _ := strings.Cut(y, " = ")
			if px == py {
				return fmt.Sprintf("%s: %s -> %s", px, vx, vy), true
			}
			return fmt.Sprintf("%s (was: %s)", orEnd(y), orEnd(x)), true
		}
	}
	return "", false
}

func orEnd(s string) string {
	if s == "" {
		return "<end>"
	}
	return s
}

// DiffPath is FirstDiff reduced to the path of the first differing line
// (indices kept), for use in stable violation keys.
func DiffPath(a, b string) string {
	la, lb := strings.Split(a, "\n"), strings.Split(b, "\n")
	for i := 0; i < len(la) || i < len(lb); i++ {
		var x, y string
		if i < len(la) {
			x = la[i]
		}
		if i < len(lb) {
			y = lb[i]
		}
		if x != y {
			if x == "" {
				x = y
			}
			p, _, _ := strings.Cut(x, " = ")
			return p
		}
	}
	return ""
}

func (w *walker) roots(roots []any) {
	for i, r := range roots {
		w.s.push("#" + strconv.Itoa(i))
		v := reflect.ValueOf(r)
		if !v.IsValid() {
			w.s.leaf("nil")
		} else {
			w.value(addressable(v))
		}
		w.s.pop()
	}
}

func addressable(v reflect.Value) reflect.Value {
	if v.CanAddr() {
		return v
	}
	c := reflect.New(v.Type()).Elem()
	c.Set(v)
	return c
}

// value walks v, which is addressable and not read-only.
func (w *walker) value(v reflect.Value) {
	if w.depth > 400 {
		w.s.leaf("<too deep>")
		return
	}
	w.depth++
	w.value1(v)
	w.depth--
}

type fieldInfo struct {
	name     string
	skip     bool
	exported bool
	typ      reflect.Type
}

var structCache = map[reflect.Type][]fieldInfo{} // guarded by structMu
var structMu sync.Mutex

func fieldsOf(t reflect.Type) []fieldInfo {
	structMu.Lock()
	fi, ok := structCache[t]
	if !ok {
		if !opaque(t) {
			fi = make([]fieldInfo, t.NumField())
			for i := range fi {
				sf := t.Field(i)
				fi[i] = fieldInfo{name: "." + sf.Name, skip: sf.Type.Kind() == reflect.Func, exported: sf.IsExported(), typ: sf.Type}
			}
		}
		structCache[t] = fi
	}
	structMu.Unlock()
	return fi
}

func (w *walker) value1(v reflect.Value) {
	switch v.Kind() {
	case reflect.Bool:
		if v.Bool() {
			w.s.leaf("true")
		} else {
			w.s.leaf("false")
		}
	case reflect.Int, reflect.Int8, reflect.Int16, reflect.Int32, reflect.Int64:
		w.s.leafU('i', uint64(v.Int()))
	case reflect.Uint, reflect.Uint8, reflect.Uint16, reflect.Uint32, reflect.Uint64, reflect.Uintptr:
		w.s.leafU('u', v.Uint())
	case reflect.Float32:
		w.s.leafU('f', uint64(math.Float32bits(float32(v.Float()))))
	case reflect.Float64:
		w.s.leafU('d', math.Float64bits(v.Float()))
	case reflect.Complex64, reflect.Complex128:
		c := v.Complex()
		w.s.leaf("c:" + strconv.FormatUint(math.Float64bits(real(c)), 16) + "," + strconv.FormatUint(math.Float64bits(imag(c)), 16))
	case reflect.String:
		w.s.leafQ(v.String())
	case reflect.Func:
		// Function values are not data.
	case reflect.Chan, reflect.UnsafePointer:
		if v.IsNil() {
			w.s.leaf("nil")
		} else {
			w.s.leaf("<" + v.Kind().String() + ">")
		}
	case reflect.Pointer:
		if v.IsNil() {
			w.s.leaf("nil")
			return
		}
		k := ptrKey{v.UnsafePointer(), v.Type()}
		if id, ok := w.seen[k]; ok {
			w.s.leaf("->#" + strconv.Itoa(id))
			return
		}
		w.seen[k] = len(w.seen)
		w.s.push("*")
		w.value(v.Elem())
		w.s.pop()
	case reflect.Interface:
		if v.IsNil() {
			w.s.leaf("nil")
			return
		}
		e := v.Elem()
		w.s.push(typeLabel(e.Type()))
		w.value(addressable(e))
		w.s.pop()
	case reflect.Slice:
		n := v.Len()
		if v.Type().Elem().Kind() == reflect.Uint8 {
			h := fnv.New64a()
			h.Write(v.Bytes())
			w.s.leaf("bytes[" + strconv.Itoa(n) + "]:" + strconv.FormatUint(h.Sum64(), 16))
			return
		}
		w.s.push(".len")
		w.s.leafU('i', uint64(n))
		w.s.pop()
		for i := 0; i < n; i++ {
			w.s.pushIdx(i)
			w.value(v.Index(i))
			w.s.pop()
		}
	case reflect.Array:
		for i := 0; i < v.Len(); i++ {
			w.s.pushIdx(i)
			w.value(v.Index(i))
			w.s.pop()
		}
	case reflect.Map:
		if v.IsNil() || v.Len() == 0 {
			w.s.leaf("map[0]")
			return
		}
		k := ptrKey{v.UnsafePointer(), v.Type()}
		if id, ok := w.seen[k]; ok {
			w.s.leaf("->#" + strconv.Itoa(id))
			return
		}
		w.seen[k] = len(w.seen)
		if hs, ok := w.s.(*hashSink); ok && !needsOrder(v.Type()) {
			// No pointer identities inside: combine the entries commutatively
			// instead of sorting them.
			saved := hs.h
			var acc uint64
			it := v.MapRange()
			for it.Next() {
				hs.h = fnvOff
				k := it.Key()
				if k.Kind() == reflect.String {
					hs.w(k.String())
				} else {
					w.value(addressable(k))
				}
				w.value(addressable(it.Value()))
				acc += hs.h * 0x9e3779b97f4a7c15
			}
			hs.h = saved
			hs.leafU('m', uint64(v.Len()))
			hs.leafU('m', acc)
			return
		}
		keys := v.MapKeys()
		sort.Slice(keys, func(i, j int) bool { return CompareKeys(keys[i], keys[j]) < 0 })
		w.s.push(".len")
		w.s.leaf(strconv.Itoa(len(keys)))
		w.s.pop()
		for _, key := range keys {
			w.s.push("[" + keyString(key) + "]")
			w.value(addressable(v.MapIndex(key)))
			w.s.pop()
		}
	case reflect.Struct:
		for i, fi := range fieldsOf(v.Type()) {
			if fi.skip {
				continue
			}
			f := v.Field(i)
			if !fi.exported {
				f = reflect.NewAt(fi.typ, unsafe.Pointer(f.UnsafeAddr())).Elem()
			}
			w.s.push(fi.name)
			w.value(f)
			w.s.pop()
		}
	default:
		w.s.leaf("<" + v.Kind().String() + ">")
	}
}

var orderCache sync.Map

// needsOrder reports whether walking a value of map type t can meet a pointer,
// map or interface (whose identities are numbered in visit order).
func needsOrder(t reflect.Type) bool {
	if b, ok := orderCache.Load(t); ok {
		return b.(bool)
	}
	b := hasIdentity(t.Key(), 0) || hasIdentity(t.Elem(), 0)
	orderCache.Store(t, b)
	return b
}

func hasIdentity(t reflect.Type, depth int) bool {
	if depth > 8 {
		return true
	}
	switch t.Kind() {
	case reflect.Pointer, reflect.Map, reflect.Interface, reflect.Chan, reflect.UnsafePointer:
		return true
	case reflect.Slice, reflect.Array:
		return hasIdentity(t.Elem(), depth+1)
	case reflect.Struct:
		for i := 0; i < t.NumField(); i++ {
			if hasIdentity(t.Field(i).Type, depth+1) {
				return true
			}
		}
	}
	return false
}

var labelCache sync.Map

func typeLabel(t reflect.Type) string {
	if s, ok := labelCache.Load(t); ok {
		return s.(string)
	}
	s := "(" + t.String() + ")"
	labelCache.Store(t, s)
	return s
}

// keyString renders a map key compactly and deterministically (pointers by
// nothing but their type: two pointer keys of one map are told apart only by
// position in the sorted order).
func keyString(k reflect.Value) string {
	switch k.Kind() {
	case reflect.String:
		return strconv.Quote(k.String())
	case reflect.Bool:
		return strconv.FormatBool(k.Bool())
	case reflect.Int, reflect.Int8, reflect.Int16, reflect.Int32, reflect.Int64:
		return strconv.FormatInt(k.Int(), 10)
	case reflect.Uint, reflect.Uint8, reflect.Uint16, reflect.Uint32, reflect.Uint64, reflect.Uintptr:
		return strconv.FormatUint(k.Uint(), 10)
	case reflect.Float32, reflect.Float64:
		return strconv.FormatUint(math.Float64bits(k.Float()), 16)
	case reflect.Struct:
		var b strings.Builder
		b.WriteByte('{')
		for i := 0; i < k.NumField(); i++ {
			if i > 0 {
				b.WriteByte(',')
			}
			b.WriteString(keyString(k.Field(i)))
		}
		b.WriteByte('}')
		return b.String()
	case reflect.Array:
		var b strings.Builder
		b.WriteByte('[')
		for i := 0; i < k.Len(); i++ {
			if i > 0 {
				b.WriteByte(',')
			}
			b.WriteString(keyString(k.Index(i)))
		}
		b.WriteByte(']')
		return b.String()
	case reflect.Interface:
		if k.IsNil() {
			return "nil"
		}
		return k.Elem().Type().String() + ":" + keyString(k.Elem())
	case reflect.Pointer, reflect.Chan, reflect.UnsafePointer:
		if k.IsNil() {
			return "nil"
		}
		return "&" + k.Type().String()
	}
	return "?"
}
