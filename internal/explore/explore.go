// Package explore is the shared driver for every check: deterministic sharded enumeration,
// violation collection with replay files, known-finding matching, and evidence output.
package explore

import (
	"crypto/sha256"
	"encoding/hex"
	"encoding/json"
	"fmt"
	"os"
	"path/filepath"
	"runtime"
	"sort"
	"strconv"
	"strings"
	"sync"
	"sync/atomic"
	"time"
)

// Violation is one failing case.
type Violation struct {
	Key    string         `json:"key"`    // stable identity: case signature | config | failure class
	Detail string         `json:"detail"` // human-readable
	Replay map[string]any `json:"replay"` // everything needed to re-run the case
}

// Run is the state of one check run.
type Run struct {
	Property string
	Tier     string
	Seed     int
	Start    time.Time
	Deadline time.Time

	mu         sync.Mutex
	viol       map[string]*Violation // by key
	violCount  map[string]int
	counters   map[string]int64
	distinct   map[string]struct{}
	samples    []any
	notes      []string
	exhaustive bool
	extra      map[string]any
	skipped    map[string]int64
	Root       string // /verif
}

func New(property string) *Run {
	tier := os.Getenv("VERIF_TIER")
	if tier == "" {
		tier = "quick"
	}
	seed, _ := strconv.Atoi(os.Getenv("VERIF_SEED"))
	root := os.Getenv("VERIF_ROOT")
	if root == "" {
		root = "/verif"
	}
	r := &Run{Property: property, Tier: tier, Seed: seed, Start: time.Now(), viol: map[string]*Violation{}, violCount: map[string]int{},
		counters: map[string]int64{}, distinct: map[string]struct{}{}, exhaustive: true, extra: map[string]any{}, skipped: map[string]int64{}, Root: root}
	// Default internal time budget (a check may set its own): reaching it ends the enumeration early with
	// exhaustive=false and the completed index ranges in the notes; it is never a failure and no oracle
	// depends on it. VERIF_DEADLINE_S overrides.
	budget := 20 * time.Minute
	if tier == "thorough" {
		budget = 50 * time.Minute
	}
	if d, err := strconv.Atoi(os.Getenv("VERIF_DEADLINE_S")); err == nil && d > 0 {
		budget = time.Duration(d) * time.Second
	}
	r.Deadline = r.Start.Add(budget)
	return r
}

func (r *Run) Thorough() bool { return r.Tier == "thorough" }

// SetDeadline sets the internal time budget; hitting it makes the run non-exhaustive, never a failure.
func (r *Run) SetDeadline(d time.Duration) { r.Deadline = r.Start.Add(d) }
func (r *Run) Expired() bool {
	return !r.Deadline.IsZero() && time.Now().After(r.Deadline)
}

func (r *Run) Count(name string, n int64) {
	r.mu.Lock()
	r.counters[name] += n
	r.mu.Unlock()
}
func (r *Run) Skip(reason string) {
	r.mu.Lock()
	r.skipped[reason]++
	r.mu.Unlock()
}

// Distinct records an outcome class (for distinct_nontrivial).
func (r *Run) Distinct(class string) {
	r.mu.Lock()
	r.distinct[class] = struct{}{}
	r.mu.Unlock()
}
func (r *Run) DistinctBytes(b []byte) {
	h := sha256.Sum256(b)
	r.Distinct(string(h[:8]))
}
func (r *Run) Sample(s any) {
	r.mu.Lock()
	if len(r.samples) < 6 {
		r.samples = append(r.samples, s)
	}
	r.mu.Unlock()
}
func (r *Run) Note(format string, a ...any) {
	r.mu.Lock()
	r.notes = append(r.notes, fmt.Sprintf(format, a...))
	r.mu.Unlock()
}
func (r *Run) NotExhaustive(why string) {
	r.mu.Lock()
	r.exhaustive = false
	r.notes = append(r.notes, "not exhaustive: "+why)
	r.mu.Unlock()
}
func (r *Run) Extra(k string, v any) {
	r.mu.Lock()
	r.extra[k] = v
	r.mu.Unlock()
}

// Violate records a violation (first occurrence per key keeps its replay data).
func (r *Run) Violate(v Violation) {
	r.mu.Lock()
	r.violCount[v.Key]++
	if _, ok := r.viol[v.Key]; !ok {
		vv := v
		r.viol[v.Key] = &vv
	}
	r.mu.Unlock()
}

// ParallelFor runs fn(i) for i in [0,n) on all cores; order of execution rotates with the seed
// but coverage is identical. Stops early (non-exhaustive) at the deadline.
func (r *Run) ParallelFor(n int, fn func(i int)) {
	workers := runtime.GOMAXPROCS(0)
	if w := os.Getenv("VERIF_WORKERS"); w != "" {
		if x, err := strconv.Atoi(w); err == nil && x > 0 {
			workers = x
		}
	}
	var next int64
	var wg sync.WaitGroup
	var stopped atomic.Bool
	off := 0
	if n > 0 {
		off = ((r.Seed % n) + n) % n
	}
	for w := 0; w < workers; w++ {
		wg.Add(1)
		go func() {
			defer wg.Done()
			for {
				k := int(atomic.AddInt64(&next, 1) - 1)
				if k >= n {
					return
				}
				if r.Expired() {
					if !stopped.Swap(true) {
						r.NotExhaustive(fmt.Sprintf("internal deadline reached after %d of %d indices", k, n))
					}
					return
				}
				fn((k + off) % n)
			}
		}()
	}
	wg.Wait()
}

// ---------------------------------------------------------------- known findings

type KnownFinding struct {
	Property string   `json:"property"`
	ID       string   `json:"id"`
	What     string   `json:"what"`
	Status   string   `json:"status"` // "open" | "fixed:<commit>"
	Keys     []string `json:"keys"`   // exact violation keys, or patterns with '*' wildcards
}

func LoadKnown(root string) ([]KnownFinding, error) {
	b, err := os.ReadFile(filepath.Join(root, "known_findings.json"))
	if err != nil {
		if os.IsNotExist(err) {
			return nil, nil
		}
		return nil, err
	}
	var k []KnownFinding
	if err := json.Unmarshal(b, &k); err != nil {
		return nil, fmt.Errorf("known_findings.json: %w", err)
	}
	return k, nil
}

// loadKFCounts reads kf_counts/<property>.json (tier -> finding id -> number of failing cases on the
// unchanged tree; written by an authoring aid from evidence, never by a registered command).
func loadKFCounts(root, property string) map[string]map[string]int {
	b, err := os.ReadFile(filepath.Join(root, "kf_counts", property+".json"))
	if err != nil {
		return nil
	}
	var m map[string]map[string]int
	if json.Unmarshal(b, &m) != nil {
		return nil
	}
	return m
}

func globMatch(pat, s string) bool {
	if !strings.Contains(pat, "*") {
		return pat == s
	}
	parts := strings.Split(pat, "*")
	if !strings.HasPrefix(s, parts[0]) {
		return false
	}
	s = s[len(parts[0]):]
	for i := 1; i < len(parts); i++ {
		p := parts[i]
		if i == len(parts)-1 {
			return strings.HasSuffix(s, p)
		}
		j := strings.Index(s, p)
		if j < 0 {
			return false
		}
		s = s[j+len(p):]
	}
	return true
}

// ---------------------------------------------------------------- finish

type evidence struct {
	PropertyID  string         `json:"property_id"`
	Tier        string         `json:"tier"`
	Seed        int            `json:"seed"`
	Level       string         `json:"level"`
	Coverage    map[string]any `json:"coverage"`
	Assumptions []string       `json:"assumptions,omitempty"`
	WallS       float64        `json:"wall_s"`
	Violations  int            `json:"violations"`
}

// Finish writes evidence and replay files, prints VIOLATION / KNOWN-FINDING lines, and returns the
// process exit code.
func (r *Run) Finish(rule string, assumptions []string) int {
	known, err := LoadKnown(r.Root)
	if err != nil {
		fmt.Println("HARNESS-ERROR:", err)
		return 2
	}
	keys := make([]string, 0, len(r.viol))
	for k := range r.viol {
		keys = append(keys, k)
	}
	sort.Strings(keys)
	matchedKF := map[string]int{}
	var unlisted []string
	for _, k := range keys {
		hit := ""
		for _, kf := range known {
			if kf.Property != r.Property || !strings.HasPrefix(kf.Status, "open") {
				continue
			}
			for _, p := range kf.Keys {
				if globMatch(p, k) {
					hit = kf.ID
					break
				}
			}
			if hit != "" {
				break
			}
		}
		if hit != "" {
			matchedKF[hit] += r.violCount[k]
		} else {
			unlisted = append(unlisted, k)
		}
	}
	for _, kf := range known {
		if n, ok := matchedKF[kf.ID]; ok {
			fmt.Printf("KNOWN-FINDING: property=%s %s: %s (%d failing cases this run)\n", r.Property, kf.ID, kf.What, n)
		}
	}
	// Population bound: a known finding covers the failing cases recorded when it was triaged, not
	// whatever else later falls into the same class. Enumeration is deterministic, so the number of
	// failing cases per finding and tier is a constant of the unchanged tree; more than that means
	// new failures hide behind the finding, and they are reported (fewer is never an alarm).
	if bounds := loadKFCounts(r.Root, r.Property)[r.Tier]; bounds != nil && os.Getenv("VERIF_KF_NOBOUND") == "" { // (the variable is an authoring aid for re-recording the bounds; no registered command sets it)
		ids := make([]string, 0, len(matchedKF))
		for id := range matchedKF {
			ids = append(ids, id)
		}
		sort.Strings(ids)
		for _, id := range ids {
			max, ok := bounds[id]
			if !ok || matchedKF[id] <= max {
				continue
			}
			key := r.Property + "|known-finding-population|" + id
			var first *Violation
			for _, k := range keys {
				for _, kf := range known {
					if kf.ID != id {
						continue
					}
					for _, p := range kf.Keys {
						if first == nil && globMatch(p, k) {
							first = r.viol[k]
						}
					}
				}
			}
			v := &Violation{Key: key, Detail: fmt.Sprintf("%d cases now fail in the way recorded as known finding %s, which covers %d on the unchanged tree: %d additional failures (first key of the class: %s)", matchedKF[id], id, max, matchedKF[id]-max, first.Key)}
			v.Replay = map[string]any{"known_finding": id, "recorded_cases": max, "observed_cases": matchedKF[id], "first_case_of_class": first.Replay, "first_detail": first.Detail}
			r.viol[key] = v
			r.violCount[key] = matchedKF[id] - max
			unlisted = append(unlisted, key)
		}
	}
	rdir := filepath.Join(r.Root, "replays", r.Property)
	if len(unlisted) > 0 {
		os.MkdirAll(rdir, 0o755)
	}
	for i, k := range unlisted {
		v := r.viol[k]
		h := sha256.Sum256([]byte(k))
		path := filepath.Join(rdir, hex.EncodeToString(h[:6])+".json")
		rep := map[string]any{"property": r.Property, "key": v.Key, "detail": v.Detail, "replay": v.Replay, "occurrences": r.violCount[k]}
		b, _ := json.MarshalIndent(rep, "", " ")
		os.WriteFile(path, b, 0o644)
		if i < 40 {
			fmt.Printf("VIOLATION property=%s replay=%s\n   key: %s\n   %s\n", r.Property, path, v.Key, firstLines(v.Detail, 6))
		}
	}
	if len(unlisted) > 40 {
		fmt.Printf("... and %d more distinct violations (replay files written)\n", len(unlisted)-40)
	}
	cov := map[string]any{}
	for k, v := range r.extra {
		cov[k] = v
	}
	var evals int64
	for k, v := range r.counters {
		cov[k] = v
		if k == "evaluations" {
			evals = v
		}
	}
	_ = evals
	if _, ok := cov["evaluations"]; !ok {
		cov["evaluations"] = int64(0)
	}
	cov["distinct_nontrivial"] = len(r.distinct)
	cov["rule"] = rule
	if len(r.samples) == 0 {
		r.samples = append(r.samples, "(no sample recorded)")
	}
	cov["samples"] = r.samples
	cov["exhaustive"] = r.exhaustive
	if len(r.skipped) > 0 {
		cov["skipped"] = r.skipped
	}
	if len(r.notes) > 0 {
		cov["notes"] = r.notes
	}
	cov["known_findings_matched"] = matchedKF
	cov["distinct_unlisted_violations"] = len(unlisted)
	ev := evidence{PropertyID: r.Property, Tier: r.Tier, Seed: r.Seed, Level: "model_checking", Coverage: cov, Assumptions: assumptions,
		WallS: time.Since(r.Start).Seconds(), Violations: len(unlisted)}
	b, _ := json.MarshalIndent(ev, "", " ")
	os.MkdirAll(filepath.Join(r.Root, "evidence"), 0o755)
	if err := os.WriteFile(filepath.Join(r.Root, "evidence", r.Property+".json"), b, 0o644); err != nil {
		fmt.Println("HARNESS-ERROR:", err)
		return 2
	}
	fmt.Printf("%s tier=%s evaluations=%v distinct=%d violations=%d known=%d exhaustive=%v wall=%.1fs\n", r.Property, r.Tier, cov["evaluations"], len(r.distinct), len(unlisted), len(matchedKF), r.exhaustive, time.Since(r.Start).Seconds())
	if len(unlisted) > 0 {
		return 1
	}
	return 0
}

// ViolationKeys returns all recorded keys (for triage tooling).
func (r *Run) ViolationKeys() map[string]int { return r.violCount }

func firstLines(s string, n int) string {
	ls := strings.Split(s, "\n")
	if len(ls) > n {
		ls = append(ls[:n], "...")
	}
	return strings.Join(ls, "\n   ")
}
