package sched

import (
	"errors"
	"fmt"
	"sort"
	"strings"
	"testing"
)

// counter harness: n threads, each does `steps` read-yield-write increments of
// a shared counter. The lost-update needs one preemption.
type counterH struct {
	n, steps int
	flaky    *int // when set, the point sequence depends on *flaky (divergence test)
	orders   map[string]bool
}

type counterX struct {
	h     *counterH
	x     int
	order []string
}

func (h *counterH) Name() string { return fmt.Sprintf("counter-%d-%d", h.n, h.steps) }
func (h *counterH) Threads() []string {
	s := make([]string, h.n)
	for i := range s {
		s[i] = "inc"
	}
	return s
}
func (h *counterH) Begin() (Execution, error) { return &counterX{h: h}, nil }

func (x *counterX) Body(tid int, t *Thread) string {
	for i := 0; i < x.h.steps; i++ {
		v := x.x
		x.order = append(x.order, fmt.Sprint(tid))
		t.Yield("mid")
		x.x = v + 1
	}
	if x.h.flaky != nil {
		*x.h.flaky++
		if *x.h.flaky%3 == 0 {
			t.Yield("extra")
		}
	}
	return fmt.Sprint(tid, "done")
}
func (x *counterX) AtPoint(p *Point) []Finding { return nil }
func (x *counterX) AtEnd(obs []string) (string, []Finding) {
	if x.h.orders != nil {
		x.h.orders[strings.Join(x.order, "")] = true
	}
	var f []Finding
	if x.x != x.h.n*x.h.steps {
		f = append(f, Finding{Key: "lost update", Detail: fmt.Sprintf("counter = %d, want %d", x.x, x.h.n*x.h.steps)})
	}
	return fmt.Sprint(x.x), f
}

// brute enumerates the segment orders with at most b preemptions: thread i
// consists of steps+1 segments separated by its yields.
func brute(n, segs, b int) map[string]bool {
	out := map[string]bool{}
	var rec func(pos []int, cur int, pre int, acc []byte)
	rec = func(pos []int, cur int, pre int, acc []byte) {
		alive := false
		for _, p := range pos {
			if p < segs {
				alive = true
			}
		}
		if !alive {
			out[string(acc)] = true
			return
		}
		for t := 0; t < n; t++ {
			if pos[t] >= segs {
				continue
			}
			cost := 0
			if cur >= 0 && pos[cur] < segs && t != cur {
				cost = 1
			}
			if pre+cost > b {
				continue
			}
			pos[t]++
			rec(pos, t, pre+cost, append(acc, byte('0'+t)))
			pos[t]--
		}
	}
	rec(make([]int, n), -1, 0, nil)
	return out
}

func TestExploreMatchesBruteForce(t *testing.T) {
	for _, c := range []struct{ n, steps, b int }{{2, 1, 0}, {2, 1, 1}, {2, 2, 2}, {3, 1, 1}, {3, 2, 2}, {2, 3, 3}} {
		h := &counterH{n: c.n, steps: c.steps, orders: map[string]bool{}}
		rep, err := Explore(h, Options{Bound: c.b})
		if err != nil {
			t.Fatal(err)
		}
		want := brute(c.n, c.steps+1, c.b)
		// The harness records a thread id per *read* (one per segment but the last).
		wantOrders := map[string]bool{}
		for k := range want {
			// drop each thread's last segment marker
			cnt := make([]int, c.n)
			var sb strings.Builder
			for i := 0; i < len(k); i++ {
				tid := int(k[i] - '0')
				cnt[tid]++
				if cnt[tid] <= c.steps {
					sb.WriteByte(k[i])
				}
			}
			wantOrders[sb.String()] = true
		}
		if rep.Schedules != len(want) {
			t.Errorf("%+v: explored %d schedules, brute force says %d", c, rep.Schedules, len(want))
		}
		if !sameKeys(h.orders, wantOrders) {
			t.Errorf("%+v: order sets differ: %d vs %d", c, len(h.orders), len(wantOrders))
		}
		if !rep.Exhaustive {
			t.Errorf("%+v: not exhaustive", c)
		}
		sum := 0
		for _, v := range rep.PerBound {
			sum += v
		}
		if sum != rep.Schedules {
			t.Errorf("per-bound counts do not add up")
		}
	}
}

func sameKeys(a, b map[string]bool) bool {
	var x, y []string
	for k := range a {
		x = append(x, k)
	}
	for k := range b {
		y = append(y, k)
	}
	sort.Strings(x)
	sort.Strings(y)
	return strings.Join(x, ",") == strings.Join(y, ",")
}

func TestLostUpdateNeedsOnePreemption(t *testing.T) {
	h := &counterH{n: 2, steps: 1}
	rep, err := Explore(h, Options{Bound: 0})
	if err != nil || len(rep.Violations) != 0 {
		t.Fatalf("bound 0: %v %+v", err, rep.Violations)
	}
	dir := t.TempDir()
	rep, err = Explore(h, Options{Bound: 1, ReplayDir: dir})
	if err != nil {
		t.Fatal(err)
	}
	if len(rep.Violations) != 1 || rep.Violations[0].Key != "lost update" || rep.Violations[0].Preemptions != 1 {
		t.Fatalf("bound 1: %+v", rep.Violations)
	}
	if rep.DistinctEndStates != 2 {
		t.Errorf("end states: %d", rep.DistinctEndStates)
	}
	rf, err := ReadReplay(rep.Violations[0].Replay)
	if err != nil {
		t.Fatal(err)
	}
	if _, ok, err := Replay(h, rf); err != nil || !ok {
		t.Fatalf("replay: %v %v", ok, err)
	}
}

func TestOutOfRangeAndDivergence(t *testing.T) {
	h := &counterH{n: 2, steps: 1}
	if _, err := Execute(h, []int{5}, 0); err == nil || !strings.Contains(err.Error(), "out of range") {
		t.Errorf("out-of-range choice: %v", err)
	}
	if _, err := Execute(h, []int{0, 0, 0, 0, 0, 0, 0, 0, 0}, 0); err == nil {
		t.Errorf("over-long choice list accepted")
	}
	fl := 0
	hf := &counterH{n: 2, steps: 1, flaky: &fl}
	_, err := Explore(hf, Options{Bound: 2})
	if err == nil || !(errors.Is(err, ErrDiverged) || strings.Contains(err.Error(), "out of range") || strings.Contains(err.Error(), "preemptions")) {
		t.Errorf("nondeterministic harness not detected: %v", err)
	}
}

func TestBudget(t *testing.T) {
	h := &counterH{n: 3, steps: 3}
	rep, err := Explore(h, Options{Bound: 2, MaxSchedules: 10})
	if err != nil {
		t.Fatal(err)
	}
	if rep.Exhaustive || rep.Schedules != 10 {
		t.Errorf("budget: %+v", rep)
	}
}
