// Package sched is a CHESS-style schedule explorer over a cooperative
// scheduler. Harness threads are goroutines parked on channels; exactly one
// runs at a time and hands control back at Thread.Yield. The explorer is a
// stateless DFS with iterative preemption bounding: an execution replays a
// recorded choice prefix (an out-of-range choice, or a point sequence that
// differs from the recording, is a hard error), then takes choice 0 — keep
// running the current thread while it is enabled — at every later point;
// afterwards it branches on every later point whose preemption cost fits the
// bound. Switching away from a still-enabled thread costs 1, choosing the next
// thread after an exit (or at the start) costs 0.
package sched

import (
	"encoding/json"
	"errors"
	"fmt"
	"os"
	"path/filepath"
	"sort"
	"strings"
)

// Thread is the handle a body uses to reach the scheduler.
type Thread struct {
	ID     int
	x      *run
	resume chan struct{}
	points int
}

// Yield is a scheduling point: the scheduler decides who runs next.
func (t *Thread) Yield(site string) {
	t.points++
	t.x.events <- event{tid: t.ID, site: site}
	<-t.resume
}

// Points is the number of scheduling points this thread has passed.
func (t *Thread) Points() int { return t.points }

// Point describes the state at one scheduling decision.
type Point struct {
	Index   int
	Running int    // thread that ran up to here; -1 at the start
	Exited  bool   // Running has just finished (or Index == 0)
	Site    string // yield site of Running; "" at start and at exits
	Options []int  // thread ids in choice order (Options[0] == Running when it is still enabled)
}

// Finding is one invariant failure.
type Finding struct {
	Key    string `json:"key"`    // stable identity, used to merge repeats
	Detail string `json:"detail"` // human-readable
}

// Execution is fresh state for one schedule.
type Execution interface {
	// Body runs thread tid to completion and returns its observation.
	Body(tid int, t *Thread) string
	// AtPoint checks invariants at a scheduling point (before the choice).
	AtPoint(p *Point) []Finding
	// AtEnd checks invariants over the thread observations and returns a
	// digest of the end state.
	AtEnd(obs []string) (endState string, f []Finding)
}

// Poisoner is implemented by executions that can tell that process-wide state
// outside the harness's control was changed for good (e.g. a package-level
// variable of the code under test): later executions in this process would
// not start from the same state, so the exploration stops, and the witness is
// to be confirmed by replaying it in fresh processes.
type Poisoner interface {
	Poisoned() bool
}

// Harness creates executions.
type Harness interface {
	Name() string
	Threads() []string // one description per thread body
	Begin() (Execution, error)
}

type event struct {
	tid  int
	exit bool
	site string
	obs  string
}

type run struct {
	events chan event
}

// Trace is what one execution did.
type Trace struct {
	Choices     []int
	Points      int
	Preemptions int
	Findings    []Finding
	EndState    string
	Obs         []string
	PointHash   uint64 // digest of the point sequence
	Poisoned    bool
	// per point, for branching
	nopts  []uint8
	cost   []uint8  // preemptions before the point
	live   []bool   // the running thread was still enabled at the point
	hashAt []uint64 // digest of points 0..i
}

// Signature identifies the observations of a trace (for replay confirmation).
func (t *Trace) Signature() string {
	var keys []string
	for _, f := range t.Findings {
		keys = append(keys, f.Key)
	}
	return fmt.Sprintf("points=%d/%016x end=%s obs=%s findings=%s", t.Points, t.PointHash, t.EndState, strings.Join(t.Obs, ","), strings.Join(keys, "|"))
}

// ErrDiverged reports that a replayed prefix met different scheduling points.
var ErrDiverged = errors.New("sched: execution diverged from the recorded schedule")

func mix(h uint64, s string) uint64 {
	for i := 0; i < len(s); i++ {
		h = (h ^ uint64(s[i])) * 1099511628211
	}
	return (h ^ 0xff) * 1099511628211
}

func mixN(h uint64, n int) uint64 { return (h ^ uint64(n+1)) * 1099511628211 }

// Execute runs one schedule: prefix, then choice 0. wantHash, if nonzero, is
// the digest the point sequence must have at the end of the prefix.
func Execute(h Harness, prefix []int, wantHash uint64) (*Trace, error) {
	ex, err := h.Begin()
	if err != nil {
		return nil, err
	}
	n := len(h.Threads())
	if n == 0 || n > 250 {
		return nil, fmt.Errorf("sched: %d threads", n)
	}
	r := &run{events: make(chan event)}
	ths := make([]*Thread, n)
	done := make([]bool, n)
	obs := make([]string, n)
	for i := range ths {
		t := &Thread{ID: i, x: r, resume: make(chan struct{})}
		ths[i] = t
		go func() {
			<-t.resume
			var o string
			func() {
				defer func() {
					if p := recover(); p != nil {
						o = fmt.Sprintf("panic: %v", p)
					}
				}()
				o = ex.Body(t.ID, t)
			}()
			r.events <- event{tid: t.ID, exit: true, obs: o}
		}()
	}
	tr := &Trace{}
	cur, exited, site := -1, true, ""
	ph := uint64(14695981039346656037)
	var fatal error
	for {
		var opts []int
		if cur >= 0 && !exited {
			opts = append(opts, cur)
		}
		for i := 0; i < n; i++ {
			if !done[i] && !(i == cur && !exited) {
				opts = append(opts, i)
			}
		}
		if len(opts) == 0 {
			break
		}
		idx := tr.Points
		p := &Point{Index: idx, Running: cur, Exited: exited, Site: site, Options: opts}
		ph = mixN(mix(mixN(ph, cur), site), len(opts))
		if exited {
			ph = mixN(ph, 7)
		}
		for _, o := range opts {
			ph = mixN(ph, o)
		}
		if fatal == nil {
			tr.Findings = append(tr.Findings, ex.AtPoint(p)...)
		}
		c := 0
		if idx < len(prefix) && fatal == nil {
			c = prefix[idx]
			if c < 0 || c >= len(opts) {
				fatal = fmt.Errorf("sched: choice %d out of range at point %d (%d options, site %q)", c, idx, len(opts), site)
				c = 0
			}
			if idx == len(prefix)-1 && wantHash != 0 && ph != wantHash && fatal == nil {
				fatal = fmt.Errorf("%w: at point %d (site %q)", ErrDiverged, idx, site)
				c = 0
			}
		}
		tr.Choices = append(tr.Choices, c)
		tr.nopts = append(tr.nopts, uint8(len(opts)))
		tr.cost = append(tr.cost, uint8(min(tr.Preemptions, 255)))
		tr.live = append(tr.live, cur >= 0 && !exited)
		tr.hashAt = append(tr.hashAt, ph)
		tr.Points++
		if cur >= 0 && !exited && opts[c] != cur {
			tr.Preemptions++
		}
		// Hand over and wait for the chosen thread's next event. Even after a
		// fatal replay error every thread is driven to completion so that no
		// goroutine is left parked inside naga.
		ths[opts[c]].resume <- struct{}{}
		ev := <-r.events
		cur, exited, site = ev.tid, ev.exit, ev.site
		if ev.exit {
			done[ev.tid] = true
			obs[ev.tid] = ev.obs
		}
	}
	if fatal != nil {
		return nil, fatal
	}
	if len(prefix) > tr.Points {
		return nil, fmt.Errorf("sched: choice list has %d entries but the execution had %d points", len(prefix), tr.Points)
	}
	tr.PointHash = ph
	tr.Obs = obs
	end, fs := ex.AtEnd(obs)
	tr.EndState = end
	tr.Findings = append(tr.Findings, fs...)
	if p, ok := ex.(Poisoner); ok {
		tr.Poisoned = p.Poisoned()
	}
	return tr, nil
}

// Options bound an exploration.
type Options struct {
	Bound        int // maximum number of preemptions
	MaxSchedules int // 0 = unlimited; exceeding it ends the exploration with Exhaustive=false
	ReplayDir    string
	PerKey       int // replay files written per distinct finding key (default 1)
}

// Violation is a confirmed finding with its witness schedule.
type Violation struct {
	Finding
	Replay      string `json:"replay"`
	Schedules   int    `json:"schedules"` // schedules in which the key was seen
	Preemptions int    `json:"preemptions"`
	Choices     []int  `json:"choices"`
	// Confirmed: the witness was replayed twice in this process with identical
	// observations. False only for witnesses of a poisoned execution, which
	// the caller must confirm in fresh processes.
	Confirmed bool `json:"confirmed"`
}

// Report summarises an exploration.
type Report struct {
	Harness           string         `json:"harness"`
	Bound             int            `json:"bound"`
	Schedules         int            `json:"schedules"`
	PerBound          []int          `json:"schedules_per_bound"` // index = exact preemption count
	PointsMin         int            `json:"points_min"`
	PointsMax         int            `json:"points_max"`
	Transitions       int            `json:"transitions"` // total scheduling decisions executed
	MaxPreemptions    int            `json:"max_preemptions"`
	DistinctEndStates int            `json:"distinct_end_states"`
	Exhaustive        bool           `json:"exhaustive"`
	Poisoned          bool           `json:"poisoned"` // stopped early: process-wide state was changed for good
	Violations        []Violation    `json:"violations"`
	EndStates         map[string]int `json:"-"`
}

type item struct {
	choices []uint8
	hash    uint64
}

// Explore enumerates every schedule of h with at most opt.Bound preemptions,
// in order of increasing preemption count.
func Explore(h Harness, opt Options) (*Report, error) {
	if opt.PerKey <= 0 {
		opt.PerKey = 1
	}
	rep := &Report{Violations: []Violation{}, Harness: h.Name(), Bound: opt.Bound, PerBound: make([]int, opt.Bound+1), Exhaustive: true, EndStates: map[string]int{}, PointsMin: -1}
	queues := make([][]item, opt.Bound+1)
	queues[0] = []item{{}}
	byKey := map[string]*Violation{}
	written := map[string]int{}
	var order []string
	for b := 0; b <= opt.Bound; b++ {
		for len(queues[b]) > 0 {
			if opt.MaxSchedules > 0 && rep.Schedules >= opt.MaxSchedules {
				rep.Exhaustive = false
				queues = nil
				break
			}
			q := queues[b]
			it := q[len(q)-1]
			queues[b] = q[:len(q)-1]
			prefix := make([]int, len(it.choices))
			for i, c := range it.choices {
				prefix[i] = int(c)
			}
			tr, err := Execute(h, prefix, it.hash)
			if err != nil {
				return rep, fmt.Errorf("%s: schedule %v: %w", h.Name(), prefix, err)
			}
			if tr.Preemptions != b {
				return rep, fmt.Errorf("%s: schedule %v: %d preemptions, expected %d", h.Name(), prefix, tr.Preemptions, b)
			}
			rep.Schedules++
			rep.PerBound[b]++
			rep.Transitions += tr.Points
			if rep.PointsMin < 0 || tr.Points < rep.PointsMin {
				rep.PointsMin = tr.Points
			}
			rep.PointsMax = max(rep.PointsMax, tr.Points)
			rep.MaxPreemptions = max(rep.MaxPreemptions, tr.Preemptions)
			rep.EndStates[tr.EndState]++
			seen := map[string]bool{}
			for _, f := range tr.Findings {
				if seen[f.Key] {
					continue
				}
				seen[f.Key] = true
				v := byKey[f.Key]
				if v == nil {
					v = &Violation{Finding: f, Preemptions: tr.Preemptions, Choices: tr.Choices}
					byKey[f.Key] = v
					order = append(order, f.Key)
				}
				v.Schedules++
				if written[f.Key] < opt.PerKey {
					written[f.Key]++
					path, err := confirmAndWrite(h, tr, f, opt.ReplayDir, written[f.Key], !tr.Poisoned)
					if err != nil {
						return rep, err
					}
					if v.Replay == "" {
						v.Replay = path
						v.Confirmed = !tr.Poisoned
					}
				}
			}
			if tr.Poisoned {
				rep.Poisoned = true
				rep.Exhaustive = false
				queues = nil
				break
			}
			// Branch on every point after the prefix.
			for i := len(prefix); i < tr.Points; i++ {
				cost := int(tr.cost[i])
				if tr.live[i] {
					cost++
				}
				if cost > opt.Bound {
					continue
				}
				for c := 1; c < int(tr.nopts[i]); c++ {
					ch := make([]uint8, i+1)
					for j := 0; j < i; j++ {
						ch[j] = uint8(tr.Choices[j])
					}
					ch[i] = uint8(c)
					queues[cost] = append(queues[cost], item{ch, tr.hashAt[i]})
				}
			}
		}
		if queues == nil {
			break
		}
	}
	if rep.PointsMin < 0 {
		rep.PointsMin = 0
	}
	rep.DistinctEndStates = len(rep.EndStates)
	for _, k := range order {
		rep.Violations = append(rep.Violations, *byKey[k])
	}
	return rep, nil
}

// ReplayFile is the on-disk witness of one failing schedule.
type ReplayFile struct {
	Property  string   `json:"property"`
	Harness   string   `json:"harness"`
	Threads   []string `json:"threads"`
	Choices   []int    `json:"choices"`
	Finding   Finding  `json:"finding"`
	Signature string   `json:"signature"`
	// FreshProcess: the recorded execution changed process-wide state; the
	// signature is only meaningful relative to a fresh process, and
	// confirmation compares two fresh-process replays with each other.
	FreshProcess bool `json:"fresh_process,omitempty"`
}

func confirmAndWrite(h Harness, tr *Trace, f Finding, dir string, seq int, confirm bool) (string, error) {
	sig := tr.Signature()
	for i := 0; i < 2 && confirm; i++ {
		again, err := Execute(h, tr.Choices, 0)
		if err != nil {
			return "", fmt.Errorf("%s: replay of %v failed: %w", h.Name(), tr.Choices, err)
		}
		if s := again.Signature(); s != sig {
			return "", fmt.Errorf("%s: replay of %v is not reproducible:\n first: %s\n again: %s", h.Name(), tr.Choices, sig, s)
		}
	}
	if dir == "" {
		return "", nil
	}
	if err := os.MkdirAll(dir, 0o755); err != nil {
		return "", err
	}
	rf := ReplayFile{Property: "C12", Harness: h.Name(), Threads: h.Threads(), Choices: tr.Choices, Finding: f, Signature: sig, FreshProcess: !confirm}
	b, _ := json.MarshalIndent(rf, "", " ")
	name := fmt.Sprintf("%s-%016x-%d.json", sanitize(h.Name()), mix(14695981039346656037, f.Key), seq)
	path := filepath.Join(dir, name)
	return path, os.WriteFile(path, b, 0o644)
}

func sanitize(s string) string {
	var b strings.Builder
	for _, r := range s {
		switch {
		case r >= 'a' && r <= 'z', r >= 'A' && r <= 'Z', r >= '0' && r <= '9', r == '-', r == '_', r == '.':
			b.WriteRune(r)
		default:
			b.WriteByte('_')
		}
	}
	return b.String()
}

// ReadReplay loads a replay file.
func ReadReplay(path string) (*ReplayFile, error) {
	b, err := os.ReadFile(path)
	if err != nil {
		return nil, err
	}
	var rf ReplayFile
	if err := json.Unmarshal(b, &rf); err != nil {
		return nil, fmt.Errorf("%s: %v", path, err)
	}
	return &rf, nil
}

// Replay re-runs a recorded schedule and reports whether the recorded finding
// shows again with the recorded signature.
func Replay(h Harness, rf *ReplayFile) (tr *Trace, reproduced bool, err error) {
	tr, err = Execute(h, rf.Choices, 0)
	if err != nil {
		return nil, false, err
	}
	for _, f := range tr.Findings {
		if f.Key == rf.Finding.Key {
			reproduced = true
		}
	}
	if rf.FreshProcess {
		return tr, reproduced, nil
	}
	return tr, reproduced && tr.Signature() == rf.Signature, nil
}

// SortedEndStates lists the end-state digests seen, most frequent first.
func (r *Report) SortedEndStates() []string {
	var ks []string
	for k := range r.EndStates {
		ks = append(ks, k)
	}
	sort.Slice(ks, func(i, j int) bool {
		if r.EndStates[ks[i]] != r.EndStates[ks[j]] {
			return r.EndStates[ks[i]] > r.EndStates[ks[j]]
		}
		return ks[i] < ks[j]
	})
	return ks
}
