package spv

import (
	"sync"

	"verif/internal/xrt"
)

// memory regions a pointer can designate
const (
	regInvalid = 0 // produced by an out-of-bounds access chain; any access through it traps
	regPriv    = 1 // per-invocation word memory: Private, Function and Input variables
	regWG      = 2 // per-workgroup word memory
	regBuf0    = 3 // regBuf0+k: byte memory of buffer resource k
)

// internal opcodes (the rest of dinst.op values are SPIR-V opcodes; xGLSL+n = GLSL.std.450 n)
const (
	xUnsupported = 0x3F00 + iota
	xCopy
	xConstruct
	xInsert
	xVarInit
	xLoadL
	xStoreL
	xLoadB
	xStoreB
	xACL
	xACB
	xSelectWhole
	xCopyMem
	xDot4x8
	xGLSL = 0x4000
)

type acStep struct {
	kind  uint8 // sStruct ...
	slot  int32 // register holding the index (dynamic steps)
	count uint32
	mul   uint32 // flat words (logical) or byte stride (buffer)
	add   uint32 // struct member: flat offset / byte offset
	ml    uint32 // struct member (buffer): matrix layout of the member
}

const (
	sStruct = iota
	sArray
	sRTArray
	sMatrix
	sVector
)

// dinst is a pre-decoded instruction.
type dinst struct {
	op      uint16
	n       int32
	dst     int32
	a, b, c int32
	t       *typ
	x       []int32
	src     int32 // index of the originating instruction in Module.Instructions
}

type edge struct {
	pc      int32
	copies  []int32 // (dst, src, words) triples
	overlap bool
	unsup   string
	from    uint32 // labels, for fix-up
	to      uint32
}

type function struct {
	id      uint32
	idx     int
	name    string
	entryPC int32
	params  []int32
	paramW  []int32
	paramT  []*typ
	ret     *typ
	calls   []uint32
	uses    []uint32 // global variables referenced
}

type gvar struct {
	id     uint32
	sc     uint32
	buf    int // resource index or -1
	unsup  string
	off    int // word offset in pmem / wmem
	words  int
	init   int32 // slot of initializer or -1
	bi     int   // builtin or -1
	pointe *typ
}

type entry struct {
	name  string
	fn    *function
	local [3]uint32
	err   error
	bufs  []int   // resource indices statically reachable
	gvars []*gvar // reachable global variables
}

type program struct {
	m          *Module
	types      []*typ
	idT        []*typ
	slot       []int32
	unsupID    map[uint32]string
	unknownOps bool
	tmpl       []uint32
	tmplPz     []uint8
	pmemInit   []uint32
	pmemPz     []uint8
	wmemSize   int
	resources  []Resource
	gvars      map[uint32]*gvar
	gvarList   []*gvar
	funcs      map[uint32]*function
	funcList   []*function
	code       []dinst
	edges      []edge
	acs        [][]acStep // access-chain step lists, indexed by dinst.c
	msgs       []string   // messages of xUnsupported, indexed by dinst.a
	entries    []*entry
	glslSets   map[uint32]bool
	maxTmp     int
	hasPoison  bool // module contains OpUndef / undefined shuffle components
	constSet   map[uint32]bool
	pool       sync.Pool
}

func (p *program) entry(name string) (*entry, error) {
	for _, e := range p.entries {
		if name == "" || e.name == name {
			return e, nil
		}
	}
	if name == "" {
		return nil, unsup("module has no GLCompute entry point")
	}
	return nil, unsup("no GLCompute entry point named %q", name)
}

func (p *program) alloc(words int) int32 {
	s := int32(len(p.tmpl))
	for i := 0; i < words; i++ {
		p.tmpl = append(p.tmpl, 0)
		p.tmplPz = append(p.tmplPz, 0)
	}
	return s
}

func (p *program) typeOf(id uint32) (*typ, error) {
	if id == 0 || id >= p.m.Bound || p.types[id] == nil {
		return nil, malf("%%%d is not a type", id)
	}
	return p.types[id], nil
}

// constU32 returns the value of a 32-bit integer (spec) constant.
func (p *program) constU32(id uint32) (uint32, error) {
	if id >= p.m.Bound || p.idT[id] == nil || p.slot[id] < 0 {
		return 0, malf("%%%d is not a constant", id)
	}
	if t := p.idT[id]; t.kind != kInt || t.width != 32 {
		return 0, malf("%%%d is not a 32-bit integer constant", id)
	}
	return p.tmpl[p.slot[id]], nil
}

func (p *program) defValue(id uint32, t *typ) (int32, error) {
	if p.idT[id] != nil || p.types[id] != nil {
		return 0, malf("%%%d defined twice", id)
	}
	p.idT[id] = t
	if t.unsup != "" {
		p.unsupID[id] = t.unsup
		return -1, nil
	}
	if t.flat < 0 {
		return 0, malf("%%%d: value of unsized type %s", id, t)
	}
	s := p.alloc(t.flat)
	p.slot[id] = s
	return s, nil
}

func buildProgram(m *Module) (*program, error) {
	p := &program{m: m, types: make([]*typ, m.Bound), idT: make([]*typ, m.Bound),
		slot: make([]int32, m.Bound), unsupID: map[uint32]string{}, gvars: map[uint32]*gvar{},
		funcs: map[uint32]*function{}, glslSets: map[uint32]bool{}}
	for i := range p.slot {
		p.slot[i] = -1
	}
	p.code = make([]dinst, 0, len(m.Instructions))
	p.tmpl = make([]uint32, 0, 4*int(m.Bound))
	p.tmplPz = make([]uint8, 0, 4*int(m.Bound))
	for id, name := range m.ExtImports {
		if name == "GLSL.std.450" {
			p.glslSets[id] = true
		}
	}
	// pmem word 0 is reserved so that offset 0 is never a live variable (aids debugging only)
	p.pmemInit = append(p.pmemInit, 0)
	p.pmemPz = append(p.pmemPz, 0)
	p.wmemSize = 1

	i := 0
	for ; i < len(m.Instructions); i++ {
		in := &m.Instructions[i]
		if in.Op == OpFunction {
			break
		}
		if err := p.global(in); err != nil {
			return nil, err
		}
	}
	// functions: first register every function (calls may be forward), then decode bodies
	type span struct{ lo, hi int }
	var spans []span
	for j := i; j < len(m.Instructions); {
		in := &m.Instructions[j]
		if in.Op != OpFunction {
			if in.Op == OpLine || in.Op == OpNoLine {
				j++
				continue
			}
			return nil, malf("%s outside a function after the first OpFunction", OpcodeName(in.Op))
		}
		k := j + 1
		for k < len(m.Instructions) && m.Instructions[k].Op != OpFunctionEnd {
			if m.Instructions[k].Op == OpFunction {
				return nil, malf("OpFunction %%%d inside a function", m.Instructions[k].ResultID)
			}
			k++
		}
		if k == len(m.Instructions) {
			return nil, malf("function %%%d has no OpFunctionEnd", in.ResultID)
		}
		if err := p.declareFunction(j, k); err != nil {
			return nil, err
		}
		spans = append(spans, span{j, k})
		j = k + 1
	}
	for _, s := range spans {
		if err := p.decodeFunction(s.lo, s.hi); err != nil {
			return nil, err
		}
	}
	if err := p.buildEntries(); err != nil {
		return nil, err
	}
	p.pool.New = func() any { return newMachine(p) }
	return p, nil
}

// global handles one instruction of the module-level sections.
func (p *program) global(in *Inst) error {
	m := p.m
	w := in.Words
	need := func(n int) error {
		if len(w) < n {
			return malf("%s: needs %d operand words, has %d", OpcodeName(in.Op), n, len(w))
		}
		return nil
	}
	defType := func(t *typ) error {
		id := in.ResultID
		if p.types[id] != nil || p.idT[id] != nil {
			return malf("%%%d defined twice", id)
		}
		t.id = id
		p.types[id] = t
		return nil
	}
	switch in.Op {
	case OpTypeVoid:
		return defType(&typ{kind: kVoid})
	case OpTypeBool:
		return defType(&typ{kind: kBool, flat: 1})
	case OpTypeInt:
		if err := need(3); err != nil {
			return err
		}
		t := &typ{kind: kInt, width: w[1], signed: w[2] != 0, flat: 1}
		if w[1] != 32 {
			t.unsup = itoa(int(w[1])) + "-bit integer type"
		}
		return defType(t)
	case OpTypeFloat:
		if err := need(2); err != nil {
			return err
		}
		t := &typ{kind: kFloat, width: w[1], flat: 1}
		if w[1] != 32 || len(w) > 2 {
			t.unsup = itoa(int(w[1])) + "-bit float type"
		}
		return defType(t)
	case OpTypeVector:
		if err := need(3); err != nil {
			return err
		}
		e, err := p.typeOf(w[1])
		if err != nil {
			return err
		}
		if !e.isScalar() || w[2] < 2 || w[2] > 4 {
			return malf("OpTypeVector %%%d: component type %s, count %d", in.ResultID, e, w[2])
		}
		return defType(&typ{kind: kVector, elem: e, n: int(w[2]), flat: int(w[2]), unsup: e.unsup})
	case OpTypeMatrix:
		if err := need(3); err != nil {
			return err
		}
		e, err := p.typeOf(w[1])
		if err != nil {
			return err
		}
		if e.kind != kVector || e.elem.kind != kFloat || w[2] < 2 || w[2] > 4 {
			return malf("OpTypeMatrix %%%d: column type %s, count %d", in.ResultID, e, w[2])
		}
		return defType(&typ{kind: kMatrix, elem: e, n: int(w[2]), flat: int(w[2]) * e.n, unsup: e.unsup})
	case OpTypeArray:
		if err := need(3); err != nil {
			return err
		}
		e, err := p.typeOf(w[1])
		if err != nil {
			return err
		}
		t := &typ{kind: kArray, elem: e, unsup: e.unsup}
		if why, ok := p.unsupID[w[2]]; ok {
			t.unsup = "array length: " + why
			t.flat = -1
		} else {
			n, err := p.constU32(w[2])
			if err != nil {
				return err
			}
			if n == 0 {
				return malf("OpTypeArray %%%d has length 0", in.ResultID)
			}
			t.n = int(n)
			switch {
			case e.kind == kVoid || e.kind == kFunction || e.kind == kRuntimeArray:
				return malf("OpTypeArray %%%d of %s", in.ResultID, e)
			case e.flat < 0:
				t.flat = -1
			case int64(e.flat)*int64(n) > 1<<24:
				t.unsup = "array larger than 2^24 words"
				t.flat = -1
			default:
				t.flat = e.flat * int(n)
			}
		}
		if a, ok := m.dec(in.ResultID, -1, DecArrayStride); ok && len(a) == 1 {
			t.stride, t.hasStride = a[0], true
		}
		return defType(t)
	case OpTypeRuntimeArray:
		if err := need(2); err != nil {
			return err
		}
		e, err := p.typeOf(w[1])
		if err != nil {
			return err
		}
		t := &typ{kind: kRuntimeArray, elem: e, flat: -1, unsup: e.unsup}
		if a, ok := m.dec(in.ResultID, -1, DecArrayStride); ok && len(a) == 1 {
			t.stride, t.hasStride = a[0], true
		}
		return defType(t)
	case OpTypeStruct:
		t := &typ{kind: kStruct}
		nm := len(w) - 1
		t.members = make([]*typ, nm)
		t.moff = make([]int, nm)
		t.mOffset = make([]uint32, nm)
		t.mHasOffset = make([]bool, nm)
		t.mMat = make([]uint32, nm)
		for k := 0; k < nm; k++ {
			mt, err := p.typeOf(w[1+k])
			if err != nil {
				return err
			}
			if mt.kind == kVoid || mt.kind == kFunction {
				return malf("OpTypeStruct %%%d has a member of type %s", in.ResultID, mt)
			}
			if mt.kind == kRuntimeArray && k != nm-1 {
				return malf("OpTypeStruct %%%d: runtime array is not the last member", in.ResultID)
			}
			t.members[k] = mt
			t.moff[k] = t.flat
			if mt.unsup != "" && t.unsup == "" {
				t.unsup = mt.unsup
			}
			if t.flat >= 0 {
				if mt.flat < 0 {
					t.flat = -1
				} else {
					t.flat += mt.flat
				}
			}
			if a, ok := m.dec(in.ResultID, k, DecOffset); ok && len(a) == 1 {
				t.mOffset[k], t.mHasOffset[k] = a[0], true
			}
			if a, ok := m.dec(in.ResultID, k, DecMatrixStride); ok && len(a) == 1 {
				if a[0] == 0 || a[0] >= mlRowMajor {
					return malf("MatrixStride %d on member %d of %%%d", a[0], k, in.ResultID)
				}
				t.mMat[k] = a[0]
				if _, ok := m.dec(in.ResultID, k, DecRowMajor); ok {
					t.mMat[k] |= mlRowMajor
				}
			}
		}
		_, t.block = m.dec(in.ResultID, -1, DecBlock)
		_, t.bufferBlock = m.dec(in.ResultID, -1, DecBufferBlock)
		return defType(t)
	case OpTypePointer:
		if err := need(3); err != nil {
			return err
		}
		e, err := p.typeOf(w[2])
		if err != nil {
			return err
		}
		return defType(&typ{kind: kPointer, sc: w[1], elem: e, flat: 3, unsup: e.unsup})
	case OpTypeFunction:
		if err := need(2); err != nil {
			return err
		}
		r, err := p.typeOf(w[1])
		if err != nil {
			return err
		}
		t := &typ{kind: kFunction, elem: r, flat: -1}
		for _, id := range w[2:] {
			pt, err := p.typeOf(id)
			if err != nil {
				return err
			}
			t.params = append(t.params, pt)
		}
		return defType(t)
	case OpTypeImage, OpTypeSampler, OpTypeSampledImage, OpTypeOpaque, OpTypeRayQueryKHR,
		OpTypeAccelerationStructureKHR, 34, 35, 36, 37, 38, 322, 327:
		return defType(&typ{kind: kOpaque, flat: -1, unsup: OpcodeName(in.Op)})
	case OpTypeForwardPointer:
		return nil

	case OpConstantTrue, OpConstantFalse, OpSpecConstantTrue, OpSpecConstantFalse:
		t, err := p.typeOf(in.TypeID)
		if err != nil {
			return err
		}
		if t.kind != kBool {
			return malf("%s %%%d of type %s", OpcodeName(in.Op), in.ResultID, t)
		}
		s, err := p.defValue(in.ResultID, t)
		if err != nil {
			return err
		}
		if in.Op == OpConstantTrue || in.Op == OpSpecConstantTrue {
			p.tmpl[s] = 1
		}
	case OpConstant, OpSpecConstant:
		t, err := p.typeOf(in.TypeID)
		if err != nil {
			return err
		}
		if !t.isNumeric() {
			return malf("OpConstant %%%d of type %s", in.ResultID, t)
		}
		if want := int(t.width+31) / 32; len(w)-2 != want {
			return malf("OpConstant %%%d of type %s has %d literal words", in.ResultID, t, len(w)-2)
		}
		s, err := p.defValue(in.ResultID, t)
		if err != nil {
			return err
		}
		if s >= 0 {
			p.tmpl[s] = w[2]
		}
	case OpConstantComposite, OpSpecConstantComposite:
		t, err := p.typeOf(in.TypeID)
		if err != nil {
			return err
		}
		for _, c := range w[2:] {
			if why, ok := p.unsupID[c]; ok && t.unsup == "" {
				p.idT[in.ResultID] = t
				p.unsupID[in.ResultID] = why
				return nil
			}
		}
		s, err := p.defValue(in.ResultID, t)
		if err != nil {
			return err
		}
		if s < 0 {
			return nil
		}
		parts, err := compositeParts(t, len(w)-2, func(k int) (*typ, error) {
			c := w[2+k]
			if c >= m.Bound || p.idT[c] == nil || p.slot[c] < 0 {
				return nil, malf("OpConstantComposite %%%d: constituent %%%d is not a constant", in.ResultID, c)
			}
			return p.idT[c], nil
		})
		if err != nil {
			return err
		}
		off := s
		for k := range parts {
			cs := p.slot[w[2+k]]
			copy(p.tmpl[off:off+int32(parts[k])], p.tmpl[cs:cs+int32(parts[k])])
			copy(p.tmplPz[off:off+int32(parts[k])], p.tmplPz[cs:cs+int32(parts[k])])
			off += int32(parts[k])
		}
	case OpConstantNull:
		t, err := p.typeOf(in.TypeID)
		if err != nil {
			return err
		}
		if t.kind == kPointer {
			p.idT[in.ResultID] = t
			p.unsupID[in.ResultID] = "null pointer constant"
			return nil
		}
		_, err = p.defValue(in.ResultID, t)
		return err
	case OpUndef:
		t, err := p.typeOf(in.TypeID)
		if err != nil {
			return err
		}
		s, err := p.defValue(in.ResultID, t)
		if err != nil {
			return err
		}
		for k := 0; s >= 0 && k < t.flat; k++ {
			p.tmplPz[int(s)+k] = 1
		}
		p.hasPoison = true
	case OpSpecConstantOp, OpConstantSampler:
		t, err := p.typeOf(in.TypeID)
		if err != nil {
			return err
		}
		p.idT[in.ResultID] = t
		p.unsupID[in.ResultID] = OpcodeName(in.Op)
	case OpVariable:
		return p.globalVar(in)
	case OpNop, OpSource, OpSourceContinued, OpSourceExtension, OpName, OpMemberName, OpString, OpLine, OpNoLine,
		OpExtension, OpExtInstImport, OpMemoryModel, OpEntryPoint, OpExecutionMode, OpExecutionModeId,
		OpCapability, OpDecorate, OpMemberDecorate, OpDecorateId, OpDecorateString, OpMemberDecorateString,
		OpModuleProcessed:
	case OpDecorationGroup, OpGroupDecorate, OpGroupMemberDecorate:
		p.unknownOps = true // decoration groups are not expanded: treat layout as unknown
		return unsup("decoration groups")
	default:
		if _, ok := lookupOp(in.Op); !ok {
			p.unknownOps = true
			return nil
		}
		if in.ResultID != 0 {
			// some other known instruction producing a value at module level (e.g. ext inst debug info)
			if in.TypeID != 0 && p.types[in.TypeID] != nil {
				p.idT[in.ResultID] = p.types[in.TypeID]
			}
			p.unsupID[in.ResultID] = OpcodeName(in.Op)
		}
	}
	return nil
}

// compositeParts checks the constituents of a composite construct against type t and returns the
// flat width of each. For vectors, constituents may be scalars or smaller vectors.
func compositeParts(t *typ, n int, part func(k int) (*typ, error)) ([]int, error) {
	out := make([]int, n)
	switch t.kind {
	case kVector:
		total := 0
		for k := 0; k < n; k++ {
			pt, err := part(k)
			if err != nil {
				return nil, err
			}
			s := pt.scalarOf()
			if s == nil || pt.kind == kMatrix || s != t.elem {
				return nil, malf("vector constituent %d has type %s, vector is %s", k, pt, t)
			}
			out[k] = pt.flat
			total += pt.flat
		}
		if total != t.n || n < 2 {
			return nil, malf("vector of %d components constructed from %d constituents totalling %d", t.n, n, total)
		}
	case kMatrix, kArray:
		if n != t.n {
			return nil, malf("%s constructed from %d constituents", t, n)
		}
		for k := 0; k < n; k++ {
			pt, err := part(k)
			if err != nil {
				return nil, err
			}
			if pt != t.elem {
				return nil, malf("constituent %d has type %s (%%%d), expected %s (%%%d)", k, pt, pt.id, t.elem, t.elem.id)
			}
			out[k] = pt.flat
		}
	case kStruct:
		if n != len(t.members) {
			return nil, malf("%s with %d members constructed from %d constituents", t, len(t.members), n)
		}
		for k := 0; k < n; k++ {
			pt, err := part(k)
			if err != nil {
				return nil, err
			}
			if pt != t.members[k] {
				return nil, malf("constituent %d has type %s (%%%d), member type is %s (%%%d)", k, pt, pt.id, t.members[k], t.members[k].id)
			}
			out[k] = pt.flat
		}
	default:
		return nil, malf("composite construct of non-composite type %s", t)
	}
	return out, nil
}

func (p *program) globalVar(in *Inst) error {
	m := p.m
	w := in.Words
	if len(w) < 3 {
		return malf("OpVariable: too few operands")
	}
	pt, err := p.typeOf(in.TypeID)
	if err != nil {
		return err
	}
	if pt.kind != kPointer || pt.sc != w[2] {
		return malf("OpVariable %%%d: result type %s does not match storage class %d", in.ResultID, pt, w[2])
	}
	if w[2] == SCFunction {
		return malf("OpVariable %%%d with Function storage class at module scope", in.ResultID)
	}
	if p.idT[in.ResultID] != nil || p.types[in.ResultID] != nil {
		return malf("%%%d defined twice", in.ResultID)
	}
	p.idT[in.ResultID] = pt
	g := &gvar{id: in.ResultID, sc: w[2], buf: -1, init: -1, bi: -1, pointe: pt.elem}
	p.gvars[g.id] = g
	p.gvarList = append(p.gvarList, g)
	s := p.alloc(3)
	p.slot[in.ResultID] = s
	if pt.unsup != "" {
		g.unsup = pt.unsup
	}
	switch w[2] {
	case SCPrivate, SCInput, SCWorkgroup:
		if g.unsup != "" {
			break
		}
		if pt.elem.flat < 0 {
			return malf("OpVariable %%%d of unsized type %s", in.ResultID, pt.elem)
		}
		g.words = pt.elem.flat
		if w[2] == SCWorkgroup {
			g.off = p.wmemSize
			p.wmemSize += g.words
			p.tmpl[s], p.tmpl[s+1] = regWG, uint32(g.off)
			if len(w) > 3 {
				return malf("Workgroup variable %%%d has an initializer", in.ResultID)
			}
			break
		}
		g.off = len(p.pmemInit)
		p.tmpl[s], p.tmpl[s+1] = regPriv, uint32(g.off)
		for k := 0; k < g.words; k++ {
			p.pmemInit = append(p.pmemInit, 0)
			p.pmemPz = append(p.pmemPz, 1)
		}
		if len(w) > 3 {
			if why, ok := p.unsupID[w[3]]; ok {
				g.unsup = "initializer: " + why
				break
			}
			if w[3] >= m.Bound || p.slot[w[3]] < 0 || p.idT[w[3]] != pt.elem {
				return malf("OpVariable %%%d: initializer %%%d is not a constant of the pointee type", in.ResultID, w[3])
			}
			g.init = p.slot[w[3]]
			copy(p.pmemInit[g.off:], p.tmpl[g.init:int(g.init)+g.words])
			copy(p.pmemPz[g.off:], p.tmplPz[g.init:int(g.init)+g.words])
		}
		if w[2] == SCInput {
			for k := 0; k < g.words; k++ {
				p.pmemPz[g.off+k] = 0
			}
			if a, ok := m.dec(in.ResultID, -1, DecBuiltIn); ok && len(a) == 1 {
				g.bi = int(a[0])
				want := 3
				switch g.bi {
				case BILocalInvocationIndex:
					want = 1
				case BINumWorkgroups, BIWorkgroupId, BILocalInvocationId, BIGlobalInvocationId:
				default:
					g.unsup = "built-in input " + itoa(g.bi)
				}
				if g.unsup == "" && (!pt.elem.isSV(kInt) || pt.elem.flat != want) {
					return malf("built-in %d variable %%%d has type %s", g.bi, in.ResultID, pt.elem)
				}
			} else {
				g.unsup = "Input variable without BuiltIn decoration"
			}
		}
	case SCUniform, SCStorageBuffer:
		set, ok1 := m.dec(in.ResultID, -1, DecDescriptorSet)
		bnd, ok2 := m.dec(in.ResultID, -1, DecBinding)
		if !ok1 || !ok2 || len(set) != 1 || len(bnd) != 1 {
			return malf("buffer variable %%%d lacks DescriptorSet/Binding", in.ResultID)
		}
		st := pt.elem.peelArrays()
		if pt.elem.kind != kStruct {
			g.unsup = "buffer variable that is not a single Block struct"
			if st.kind != kStruct {
				return malf("buffer variable %%%d of non-struct type %s", in.ResultID, pt.elem)
			}
		}
		if !st.block && !st.bufferBlock {
			return malf("buffer variable %%%d: struct %%%d is neither Block nor BufferBlock", in.ResultID, st.id)
		}
		if st.bufferBlock && w[2] != SCUniform {
			return malf("buffer variable %%%d: BufferBlock outside the Uniform storage class", in.ResultID)
		}
		r := Resource{ID: in.ResultID, B: xrt.Binding{Group: set[0], Binding: bnd[0]}, Class: w[2],
			Storage: w[2] == SCStorageBuffer || st.bufferBlock}
		if _, ok := m.dec(in.ResultID, -1, DecNonWritable); ok {
			r.ReadOnly = true
		} else if len(st.members) > 0 {
			r.ReadOnly = true
			for k := range st.members {
				if _, ok := m.dec(st.id, k, DecNonWritable); !ok {
					r.ReadOnly = false
				}
			}
		}
		if !r.Storage {
			r.ReadOnly = true
		}
		g.buf = len(p.resources)
		p.resources = append(p.resources, r)
		p.tmpl[s], p.tmpl[s+1] = uint32(regBuf0+g.buf), 0
	default:
		g.unsup = "variable in storage class " + itoa(int(w[2]))
	}
	if g.unsup != "" {
		p.unsupID[in.ResultID] = g.unsup
	}
	return nil
}

func (p *program) buildEntries() error {
	m := p.m
	for i := range m.EntryPoints {
		ep := &m.EntryPoints[i]
		fn := p.funcs[ep.ID]
		if fn == nil {
			return malf("entry point %q: %%%d is not a function", ep.Name, ep.ID)
		}
		if ep.Model != ModelGLCompute {
			continue
		}
		e := &entry{name: ep.Name, fn: fn}
		p.entries = append(p.entries, e)
		if len(fn.params) != 0 || fn.ret.kind != kVoid {
			return malf("entry point %q is not void()", ep.Name)
		}
		have := false
		for _, md := range ep.Modes {
			if (md.Mode == ModeLocalSize || md.Mode == ModeLocalSizeId) && len(md.Args) == 3 {
				have = true
				for k := 0; k < 3; k++ {
					e.local[k] = md.Args[k]
					if md.Mode == ModeLocalSizeId {
						v, err := p.constU32(md.Args[k])
						if err != nil {
							return err
						}
						e.local[k] = v
					}
				}
			}
		}
		// a constant decorated BuiltIn WorkgroupSize overrides the execution mode
		for _, d := range m.Decorations {
			if d.Dec == DecBuiltIn && d.Member < 0 && len(d.Args) == 1 && d.Args[0] == BIWorkgroupSize {
				if t := p.idT[d.Target]; t != nil && p.slot[d.Target] >= 0 && t.isSV(kInt) && t.flat == 3 {
					s := p.slot[d.Target]
					e.local = [3]uint32{p.tmpl[s], p.tmpl[s+1], p.tmpl[s+2]}
					have = true
				}
			}
		}
		if !have {
			return malf("entry point %q has no LocalSize", ep.Name)
		}
		if e.local[0] == 0 || e.local[1] == 0 || e.local[2] == 0 {
			return malf("entry point %q has a zero LocalSize dimension", ep.Name)
		}
		// reachability + recursion check
		state := map[uint32]int{}
		seenVar := map[uint32]bool{}
		var visit func(f *function) error
		visit = func(f *function) error {
			switch state[f.id] {
			case 1:
				return malf("recursive call graph through function %%%d", f.id)
			case 2:
				return nil
			}
			state[f.id] = 1
			for _, v := range f.uses {
				if !seenVar[v] {
					seenVar[v] = true
					g := p.gvars[v]
					e.gvars = append(e.gvars, g)
					if g.buf >= 0 {
						e.bufs = append(e.bufs, g.buf)
					}
				}
			}
			for _, c := range f.calls {
				if err := visit(p.funcs[c]); err != nil {
					return err
				}
			}
			state[f.id] = 2
			return nil
		}
		if err := visit(fn); err != nil {
			return err
		}
	}
	return nil
}
