package spv

import (
	"fmt"
	"math"
	"strings"
)

// operand formats for disassembly: i = id, l = literal, s = string, * = repeat the previous kind,
// p = (literal, id) pairs repeated. Opcodes not listed print every operand as an id.
var opFmt = map[uint16]string{
	OpSource: "lliS", OpSourceExtension: "s", OpName: "is", OpMemberName: "ils", OpString: "s",
	OpLine: "ill", OpExtension: "s", OpExtInstImport: "s", OpExtInst: "ili*", OpMemoryModel: "ll",
	OpEntryPoint: "lisi*", OpExecutionMode: "ill*", OpExecutionModeId: "ili*", OpCapability: "l",
	OpTypeInt: "ll", OpTypeFloat: "ll", OpTypeVector: "il", OpTypeMatrix: "il",
	OpTypeImage: "illllll*", OpTypePointer: "li", OpTypeForwardPointer: "il",
	OpConstant: "l*", OpSpecConstant: "l*", OpSpecConstantOp: "li*", OpFunction: "li",
	OpVariable: "li*", OpLoad: "il*", OpStore: "iil*", OpCopyMemory: "iil*", OpArrayLength: "il",
	OpDecorate: "ill*", OpMemberDecorate: "illl*", OpDecorateId: "ili*",
	OpVectorShuffle: "iil*", OpCompositeExtract: "il*", OpCompositeInsert: "iil*",
	OpLoopMerge: "iil*", OpSelectionMerge: "il", OpSwitch: "iip", OpPhi: "i*",
	OpSDot: "iil*", OpUDot: "iil*", OpSUDot: "iil*",
}

// Disassemble renders the module as text, one instruction per line (debugging aid).
func (m *Module) Disassemble() string {
	var sb strings.Builder
	fmt.Fprintf(&sb, "; SPIR-V %d.%d generator %#x bound %d schema %d\n", m.Version[0], m.Version[1], m.Generator, m.Bound, m.Schema)
	floatT := map[uint32]bool{}
	for i := range m.Instructions {
		if in := &m.Instructions[i]; in.Op == OpTypeFloat && len(in.Words) >= 2 && in.Words[1] == 32 {
			floatT[in.ResultID] = true
		}
	}
	id := func(x uint32) string {
		if n, ok := m.Names[x]; ok && n != "" {
			return fmt.Sprintf("%%%d(%s)", x, n)
		}
		return fmt.Sprintf("%%%d", x)
	}
	for i := range m.Instructions {
		in := &m.Instructions[i]
		if in.ResultID != 0 {
			fmt.Fprintf(&sb, "%8s = ", fmt.Sprintf("%%%d", in.ResultID))
		} else {
			sb.WriteString("           ")
		}
		sb.WriteString(OpcodeName(in.Op))
		if in.TypeID != 0 {
			sb.WriteString(" " + id(in.TypeID))
		}
		ops := in.Operands()
		f, ok := opFmt[in.Op]
		if !ok {
			f = "i*"
		}
		k := 0
		var last byte = 'i'
		for p := 0; p < len(ops); {
			var c byte
			if k < len(f) {
				c = f[k]
				k++
			} else {
				c = '*'
			}
			if c == '*' {
				c = last
				k = len(f) // stay in repeat mode
			}
			last = c
			switch c {
			case 'i':
				sb.WriteString(" " + id(ops[p]))
				p++
			case 'l':
				if in.Op == OpConstant && floatT[in.TypeID] {
					fmt.Fprintf(&sb, " %v(%#x)", math.Float32frombits(ops[p]), ops[p])
				} else if in.Op == OpExtInst && p == 1 {
					fmt.Fprintf(&sb, " %s", GLSLName(ops[p]))
				} else {
					fmt.Fprintf(&sb, " %d", ops[p])
				}
				p++
			case 's', 'S':
				s, used, _ := decodeString(ops[p:])
				if c == 'S' && len(s) > 40 {
					s = s[:40] + "..."
				}
				fmt.Fprintf(&sb, " %q", s)
				p += used
			case 'p':
				if p+1 < len(ops) {
					fmt.Fprintf(&sb, " %d:%s", ops[p], id(ops[p+1]))
				}
				p += 2
			default:
				fmt.Fprintf(&sb, " %d", ops[p])
				p++
			}
		}
		sb.WriteByte('\n')
	}
	return sb.String()
}
