package spv

import (
	"errors"

	"verif/internal/xrt"
)

type decErr struct{ err error }

type fdec struct {
	p      *program
	fn     *function
	cur    uint32           // current block label
	start  map[uint32]int32 // label -> pc of first instruction
	phis   map[uint32][]phiDef
	fix    []int // edge indices to resolve
	usesID map[uint32]bool
	callID map[uint32]bool
	curIdx int32
}

type phiDef struct {
	dst   int32
	w     int32
	t     *typ
	pairs []uint32 // (value id, parent label)*
	unsup string
}

func (d *fdec) malf(f string, a ...any)  { panic(decErr{malf(f, a...)}) }
func (d *fdec) unsup(f string, a ...any) { panic(decErr{unsup(f, a...)}) }

// val returns the register slot and type of a value id.
func (d *fdec) val(id uint32) (int32, *typ) {
	p := d.p
	if id == 0 || id >= p.m.Bound {
		d.malf("id %%%d out of range", id)
	}
	if why, ok := p.unsupID[id]; ok {
		d.unsup("%s", why)
	}
	t := p.idT[id]
	if t == nil || p.slot[id] < 0 {
		switch {
		case p.types[id] != nil:
			d.malf("type %%%d used as a value", id)
		case p.funcs[id] != nil:
			d.malf("function %%%d used as a value", id)
		case p.unknownOps:
			d.unsup("%%%d is not defined by any instruction this reader knows", id)
		default:
			d.malf("%%%d is used but never defined as a value", id)
		}
	}
	if g := p.gvars[id]; g != nil && !d.usesID[id] {
		d.usesID[id] = true
		d.fn.uses = append(d.fn.uses, id)
	}
	return p.slot[id], t
}

func (d *fdec) typ(id uint32) *typ {
	t, err := d.p.typeOf(id)
	if err != nil {
		panic(decErr{err})
	}
	return t
}

// resType returns the result type, failing with Unsupported when it cannot be interpreted.
func (d *fdec) resType(in *Inst) *typ {
	t := d.typ(in.TypeID)
	if t.unsup != "" {
		d.unsup("%s", t.unsup)
	}
	return t
}

func (d *fdec) emit(di dinst) {
	di.src = d.curIdx
	d.p.code = append(d.p.code, di)
}

func (d *fdec) newEdge(to uint32) int32 {
	p := d.p
	p.edges = append(p.edges, edge{from: d.cur, to: to})
	d.fix = append(d.fix, len(p.edges)-1)
	return int32(len(p.edges) - 1)
}

// declareFunction registers function lo..hi (OpFunction .. OpFunctionEnd) and allocates a static
// register slot for every result id of its body. Frames are static because SPIR-V forbids
// recursion (checked in buildEntries).
func (p *program) declareFunction(lo, hi int) error {
	m := p.m
	in := &m.Instructions[lo]
	if len(in.Words) < 4 {
		return malf("OpFunction: too few operands")
	}
	id := in.ResultID
	if p.types[id] != nil || p.idT[id] != nil || p.funcs[id] != nil {
		return malf("%%%d defined twice", id)
	}
	ft, err := p.typeOf(in.Words[3])
	if err != nil {
		return err
	}
	rt, err := p.typeOf(in.TypeID)
	if err != nil {
		return err
	}
	if ft.kind != kFunction || ft.elem != rt {
		return malf("OpFunction %%%d: function type %%%d does not return %%%d", id, ft.id, rt.id)
	}
	fn := &function{id: id, idx: len(p.funcList), name: m.Names[id], ret: rt, paramT: ft.params}
	p.funcs[id] = fn
	p.funcList = append(p.funcList, fn)
	seenLabel := false
	for j := lo + 1; j < hi; j++ {
		in := &m.Instructions[j]
		switch {
		case in.Op == OpFunctionParameter:
			if seenLabel {
				return malf("OpFunctionParameter after the first block of %%%d", id)
			}
			t, err := p.typeOf(in.TypeID)
			if err != nil {
				return err
			}
			k := len(fn.params)
			if k >= len(ft.params) || ft.params[k] != t {
				return malf("function %%%d: parameter %d does not match its function type", id, k)
			}
			s, err := p.defValue(in.ResultID, t)
			if err != nil {
				return err
			}
			fn.params = append(fn.params, s)
			fn.paramW = append(fn.paramW, int32(t.flat))
		case in.Op == OpLabel:
			seenLabel = true
			if p.types[in.ResultID] != nil || p.idT[in.ResultID] != nil {
				return malf("%%%d defined twice", in.ResultID)
			}
		case in.ResultID != 0 && in.TypeID != 0:
			t, err := p.typeOf(in.TypeID)
			if err != nil {
				return err
			}
			if t.kind == kVoid {
				if p.idT[in.ResultID] != nil {
					return malf("%%%d defined twice", in.ResultID)
				}
				p.idT[in.ResultID] = t
				continue
			}
			if _, err := p.defValue(in.ResultID, t); err != nil {
				return err
			}
			if in.Op == OpUndef {
				s := p.slot[in.ResultID]
				for k := 0; s >= 0 && k < t.flat; k++ {
					p.tmplPz[int(s)+k] = 1
				}
				p.hasPoison = true
			}
		case in.ResultID != 0:
			p.unsupID[in.ResultID] = OpcodeName(in.Op)
		default:
			if _, ok := lookupOp(in.Op); !ok {
				p.unknownOps = true
			}
		}
	}
	if len(fn.params) != len(ft.params) {
		return malf("function %%%d has %d parameters, its type has %d", id, len(fn.params), len(ft.params))
	}
	return nil
}

func (p *program) decodeFunction(lo, hi int) error {
	m := p.m
	fn := p.funcs[m.Instructions[lo].ResultID]
	d := &fdec{p: p, fn: fn, start: map[uint32]int32{}, phis: map[uint32][]phiDef{},
		usesID: map[uint32]bool{}, callID: map[uint32]bool{}}
	fn.entryPC = int32(len(p.code))
	terminated := true // no open block
	first := true
	for j := lo + 1; j < hi; j++ {
		in := &m.Instructions[j]
		switch in.Op {
		case OpFunctionParameter, OpLine, OpNoLine, OpNop, OpUndef:
			continue
		case OpLabel:
			if !terminated {
				return malf("function %%%d: block %%%d is not terminated before label %%%d", fn.id, d.cur, in.ResultID)
			}
			if _, dup := d.start[in.ResultID]; dup {
				return malf("label %%%d defined twice", in.ResultID)
			}
			d.cur = in.ResultID
			d.start[in.ResultID] = int32(len(p.code))
			terminated = false
			if first {
				first = false
			}
			continue
		}
		if terminated {
			return malf("function %%%d: %s outside a block", fn.id, OpcodeName(in.Op))
		}
		d.curIdx = int32(j)
		err := d.inst(in)
		if err != nil {
			var u *xrt.Unsupported
			if !errors.As(err, &u) {
				return err
			}
			p.msgs = append(p.msgs, OpcodeName(in.Op)+": "+u.What)
			d.emit(dinst{op: xUnsupported, a: int32(len(p.msgs) - 1)})
			if in.ResultID != 0 {
				if _, ok := p.unsupID[in.ResultID]; !ok {
					p.unsupID[in.ResultID] = u.What
				}
			}
		}
		switch in.Op {
		case OpBranch, OpBranchConditional, OpSwitch, OpKill, OpReturn, OpReturnValue, OpUnreachable, OpTerminateInvocation:
			terminated = true
		}
	}
	if first {
		// declaration without body
		fn.entryPC = -1
		return nil
	}
	if !terminated {
		return malf("function %%%d: last block %%%d is not terminated", fn.id, d.cur)
	}
	// resolve edges
	for _, ei := range d.fix {
		e := &p.edges[ei]
		pc, ok := d.start[e.to]
		if !ok {
			return malf("function %%%d: branch to %%%d which is not a label of the function", fn.id, e.to)
		}
		e.pc = pc
		for _, ph := range d.phis[e.to] {
			if ph.unsup != "" {
				e.unsup = ph.unsup
				continue
			}
			found := false
			for k := 0; k+1 < len(ph.pairs); k += 2 {
				if ph.pairs[k+1] != e.from {
					continue
				}
				found = true
				v := ph.pairs[k]
				if why, ok := p.unsupID[v]; ok {
					e.unsup = "OpPhi: " + why
					break
				}
				if v >= m.Bound || p.idT[v] == nil || p.slot[v] < 0 {
					return malf("OpPhi in block %%%d: %%%d is not a value", e.to, v)
				}
				if p.idT[v] != ph.t {
					return malf("OpPhi in block %%%d: %%%d has type %s, phi has type %s", e.to, v, p.idT[v], ph.t)
				}
				e.copies = append(e.copies, ph.dst, p.slot[v], ph.w)
				break
			}
			if !found {
				return malf("OpPhi in block %%%d has no operand for predecessor %%%d", e.to, e.from)
			}
		}
		for a := 0; a < len(e.copies); a += 3 {
			for b := 0; b < len(e.copies); b += 3 {
				if a != b && e.copies[a] < e.copies[b+1]+e.copies[b+2] && e.copies[b+1] < e.copies[a]+e.copies[a+2] {
					e.overlap = true
				}
			}
		}
		if n := len(e.copies) / 3; e.overlap {
			tot := 0
			for a := 0; a < n; a++ {
				tot += int(e.copies[3*a+2])
			}
			if tot > p.maxTmp {
				p.maxTmp = tot
			}
		}
	}
	return nil
}

// inst decodes one body instruction.
func (d *fdec) inst(in *Inst) (err error) {
	defer func() {
		if r := recover(); r != nil {
			de, ok := r.(decErr)
			if !ok {
				panic(r)
			}
			err = de.err
		}
	}()
	p := d.p
	ops := in.Operands()
	need := func(n int) {
		if len(ops) < n {
			d.malf("%s: needs %d operands, has %d", OpcodeName(in.Op), n, len(ops))
		}
	}
	dst := int32(-1)
	if in.ResultID != 0 {
		dst = p.slot[in.ResultID]
	}
	name := opName(in.Op)
	// same-shape helpers
	svOf := func(t *typ, k kind, what string) {
		if !t.isSV(k) {
			d.malf("%s %%%d: %s has type %s", name, in.ResultID, what, t)
		}
	}
	switch in.Op {
	case OpPhi:
		rt := d.typ(in.TypeID)
		ph := phiDef{dst: dst, w: int32(rt.flat), t: rt, pairs: ops, unsup: rt.unsup}
		if len(ops)%2 != 0 {
			d.malf("OpPhi %%%d: odd operand count", in.ResultID)
		}
		if d.start[d.cur] != int32(len(p.code)) {
			d.malf("OpPhi %%%d is not at the start of block %%%d", in.ResultID, d.cur)
		}
		d.phis[d.cur] = append(d.phis[d.cur], ph)
		return nil
	case OpLoopMerge, OpSelectionMerge:
		return nil
	case OpVariable:
		need(1)
		pt := d.typ(in.TypeID)
		if pt.kind != kPointer || pt.sc != SCFunction || ops[0] != SCFunction {
			d.malf("OpVariable %%%d in a function must be in the Function storage class", in.ResultID)
		}
		if pt.unsup != "" {
			d.unsup("%s", pt.unsup)
		}
		if pt.elem.flat < 0 {
			d.malf("OpVariable %%%d of unsized type", in.ResultID)
		}
		off := len(p.pmemInit)
		for k := 0; k < pt.elem.flat; k++ {
			p.pmemInit = append(p.pmemInit, 0)
			p.pmemPz = append(p.pmemPz, 1)
		}
		p.tmpl[dst], p.tmpl[dst+1], p.tmpl[dst+2] = regPriv, uint32(off), 0
		di := dinst{op: xVarInit, a: int32(off), n: int32(pt.elem.flat), b: -1}
		if len(ops) > 1 {
			s, t := d.val(ops[1])
			if t != pt.elem {
				d.malf("OpVariable %%%d: initializer type %s differs from %s", in.ResultID, t, pt.elem)
			}
			di.b = s
		}
		d.emit(di)
	case OpLoad:
		need(1)
		rt := d.resType(in)
		ps, pt := d.val(ops[0])
		if pt.kind != kPointer {
			d.malf("OpLoad %%%d through non-pointer %s", in.ResultID, pt)
		}
		if pt.elem != rt {
			d.malf("OpLoad %%%d: result type %s (%%%d) is not the pointee type %s (%%%d)", in.ResultID, rt, rt.id, pt.elem, pt.elem.id)
		}
		if rt.flat < 0 {
			d.malf("OpLoad %%%d of unsized type %s", in.ResultID, rt)
		}
		switch pt.sc {
		case SCFunction, SCPrivate, SCWorkgroup, SCInput:
			d.emit(dinst{op: xLoadL, dst: dst, a: ps, n: int32(rt.flat)})
		case SCUniform, SCStorageBuffer:
			d.emit(dinst{op: xLoadB, dst: dst, a: ps, t: rt})
		default:
			d.unsup("OpLoad from storage class %d", pt.sc)
		}
	case OpStore:
		need(2)
		ps, pt := d.val(ops[0])
		vs, vt := d.val(ops[1])
		if pt.kind != kPointer {
			d.malf("OpStore through non-pointer %s", pt)
		}
		if pt.elem != vt {
			d.malf("OpStore: object type %s (%%%d) is not the pointee type %s (%%%d)", vt, vt.id, pt.elem, pt.elem.id)
		}
		switch pt.sc {
		case SCFunction, SCPrivate, SCWorkgroup:
			d.emit(dinst{op: xStoreL, a: ps, b: vs, n: int32(vt.flat)})
		case SCStorageBuffer, SCUniform:
			d.emit(dinst{op: xStoreB, a: ps, b: vs, t: vt})
		case SCInput:
			d.malf("OpStore to an Input variable")
		default:
			d.unsup("OpStore to storage class %d", pt.sc)
		}
	case OpCopyMemory:
		need(2)
		ts, tt := d.val(ops[0])
		ss, st := d.val(ops[1])
		if tt.kind != kPointer || st.kind != kPointer || tt.elem != st.elem {
			d.malf("OpCopyMemory: pointee types differ (%s, %s)", tt, st)
		}
		if tt.elem.flat < 0 {
			d.malf("OpCopyMemory of unsized type")
		}
		cls := func(sc uint32, store bool) int32 {
			switch sc {
			case SCFunction, SCPrivate, SCWorkgroup:
				return 0
			case SCInput:
				if store {
					d.malf("OpCopyMemory into an Input variable")
				}
				return 0
			case SCUniform, SCStorageBuffer:
				return 1
			}
			d.unsup("OpCopyMemory with storage class %d", sc)
			return 0
		}
		if tt.elem.flat > p.maxTmp {
			p.maxTmp = tt.elem.flat
		}
		d.emit(dinst{op: xCopyMem, a: ts, b: ss, t: tt.elem, n: int32(tt.elem.flat), x: []int32{cls(tt.sc, true), cls(st.sc, false)}})
	case OpAccessChain, OpInBoundsAccessChain:
		need(1)
		rt := d.typ(in.TypeID)
		bs, bt := d.val(ops[0])
		if bt.kind != kPointer || rt.kind != kPointer || rt.sc != bt.sc {
			d.malf("%s %%%d: base %s / result %s", name, in.ResultID, bt, rt)
		}
		buffer := false
		switch bt.sc {
		case SCFunction, SCPrivate, SCWorkgroup, SCInput:
		case SCUniform, SCStorageBuffer:
			buffer = true
		default:
			d.unsup("%s in storage class %d", name, bt.sc)
		}
		cur := bt.elem
		var steps []acStep
		for k, ix := range ops[1:] {
			is, it := d.val(ix)
			if it.kind != kInt {
				d.malf("%s %%%d: index %d has type %s", name, in.ResultID, k, it)
			}
			st := acStep{slot: is}
			switch cur.kind {
			case kStruct:
				if !d.isConst(ix) {
					d.malf("%s %%%d: struct index %d is not a constant", name, in.ResultID, k)
				}
				mi := p.tmpl[is]
				if int(mi) >= len(cur.members) {
					d.malf("%s %%%d: struct member index %d out of range for %%%d", name, in.ResultID, mi, cur.id)
				}
				st.kind, st.slot = sStruct, -1
				if buffer {
					if !cur.mHasOffset[mi] {
						d.malf("%s %%%d: member %d of %%%d has no Offset decoration", name, in.ResultID, mi, cur.id)
					}
					st.add, st.ml = cur.mOffset[mi], cur.mMat[mi]
				} else {
					st.add = uint32(cur.moff[mi])
				}
				cur = cur.members[mi]
			case kArray, kRuntimeArray:
				st.kind, st.count = sArray, uint32(cur.n)
				if cur.kind == kRuntimeArray {
					st.kind = sRTArray
					if !buffer {
						d.malf("%s %%%d: runtime array outside a buffer", name, in.ResultID)
					}
				}
				if buffer {
					if !cur.hasStride {
						d.malf("%s %%%d: array %%%d in a buffer has no ArrayStride", name, in.ResultID, cur.id)
					}
					st.mul = cur.stride
				} else {
					st.mul = uint32(cur.elem.flat)
				}
				cur = cur.elem
			case kMatrix:
				st.kind, st.count, st.mul = sMatrix, uint32(cur.n), uint32(cur.elem.n)
				cur = cur.elem
			case kVector:
				st.kind, st.count, st.mul = sVector, uint32(cur.n), 1
				cur = cur.elem
			default:
				d.malf("%s %%%d: index %d applied to %s", name, in.ResultID, k, cur)
			}
			steps = append(steps, st)
		}
		if cur != rt.elem {
			d.malf("%s %%%d: reaches type %s (%%%d), result pointee is %s (%%%d)", name, in.ResultID, cur, cur.id, rt.elem, rt.elem.id)
		}
		if rt.unsup != "" {
			d.unsup("%s", rt.unsup)
		}
		op := uint16(xACL)
		if buffer {
			op = xACB
		}
		p.acs = append(p.acs, steps)
		d.emit(dinst{op: op, dst: dst, a: bs, c: int32(len(p.acs) - 1)})
	case OpArrayLength:
		need(2)
		rt := d.resType(in)
		bs, bt := d.val(ops[0])
		if rt.kind != kInt || bt.kind != kPointer || bt.elem.kind != kStruct {
			d.malf("OpArrayLength %%%d: bad operand types", in.ResultID)
		}
		st := bt.elem
		mi := int(ops[1])
		if mi != len(st.members)-1 || st.members[mi].kind != kRuntimeArray {
			d.malf("OpArrayLength %%%d: member %d of %%%d is not a trailing runtime array", in.ResultID, mi, st.id)
		}
		if bt.sc != SCStorageBuffer && bt.sc != SCUniform {
			d.unsup("OpArrayLength in storage class %d", bt.sc)
		}
		if !st.mHasOffset[mi] || !st.members[mi].hasStride || st.members[mi].stride == 0 {
			d.malf("OpArrayLength %%%d: runtime array lacks Offset/ArrayStride", in.ResultID)
		}
		d.emit(dinst{op: OpArrayLength, dst: dst, a: bs, b: int32(st.mOffset[mi]), c: int32(st.members[mi].stride)})
	case OpFunctionCall:
		need(1)
		rt := d.typ(in.TypeID)
		callee := p.funcs[ops[0]]
		if callee == nil {
			d.malf("OpFunctionCall %%%d: %%%d is not a function", in.ResultID, ops[0])
		}
		if callee.ret != rt || len(ops)-1 != len(callee.paramT) {
			d.malf("OpFunctionCall %%%d does not match the signature of %%%d", in.ResultID, callee.id)
		}
		if rt.unsup != "" {
			d.unsup("%s", rt.unsup)
		}
		x := []int32{}
		for k, a := range ops[1:] {
			as, at := d.val(a)
			if at != callee.paramT[k] {
				d.malf("OpFunctionCall %%%d: argument %d has type %s, parameter is %s", in.ResultID, k, at, callee.paramT[k])
			}
			x = append(x, as)
		}
		if !d.callID[callee.id] {
			d.callID[callee.id] = true
			d.fn.calls = append(d.fn.calls, callee.id)
		}
		if rt.kind == kVoid {
			dst = -1
		}
		d.emit(dinst{op: OpFunctionCall, dst: dst, a: int32(callee.idx), n: int32(max(rt.flat, 0)), x: x})

	case OpCopyObject, OpCopyLogical:
		need(1)
		rt := d.resType(in)
		s, t := d.val(ops[0])
		if in.Op == OpCopyObject && t != rt {
			d.malf("OpCopyObject %%%d: type mismatch", in.ResultID)
		}
		if in.Op == OpCopyLogical && (!logicallyEqual(t, rt) || t == rt) {
			d.malf("OpCopyLogical %%%d: %s (%%%d) -> %s (%%%d)", in.ResultID, t, t.id, rt, rt.id)
		}
		d.emit(dinst{op: xCopy, dst: dst, a: s, n: int32(rt.flat)})
	case OpBitcast:
		need(1)
		rt := d.resType(in)
		s, t := d.val(ops[0])
		if t.kind == kPointer || rt.kind == kPointer {
			d.unsup("OpBitcast of pointers")
		}
		if rt.scalarOf() == nil || t.scalarOf() == nil || !rt.scalarOf().isNumeric() || !t.scalarOf().isNumeric() ||
			rt.kind == kMatrix || t.kind == kMatrix {
			d.malf("OpBitcast %%%d: %s -> %s", in.ResultID, t, rt)
		}
		if rt.flat != t.flat {
			d.malf("OpBitcast %%%d: %s -> %s changes the total bit width", in.ResultID, t, rt)
		}
		d.emit(dinst{op: xCopy, dst: dst, a: s, n: int32(rt.flat)})
	case OpCompositeConstruct:
		rt := d.resType(in)
		slots := make([]int32, len(ops))
		parts, err := compositeParts(rt, len(ops), func(k int) (*typ, error) {
			s, t := d.val(ops[k])
			slots[k] = s
			return t, nil
		})
		if err != nil {
			panic(decErr{err})
		}
		x := make([]int32, 0, 2*len(ops))
		for k := range parts {
			x = append(x, slots[k], int32(parts[k]))
		}
		d.emit(dinst{op: xConstruct, dst: dst, x: x})
	case OpCompositeExtract:
		need(1)
		rt := d.resType(in)
		s, t := d.val(ops[0])
		off, et := d.walkLiteral(in, t, ops[1:])
		if et != rt {
			d.malf("OpCompositeExtract %%%d: reaches %s (%%%d), result type is %s (%%%d)", in.ResultID, et, et.id, rt, rt.id)
		}
		d.emit(dinst{op: xCopy, dst: dst, a: s + int32(off), n: int32(rt.flat)})
	case OpCompositeInsert:
		need(2)
		rt := d.resType(in)
		os, ot := d.val(ops[0])
		cs, ct := d.val(ops[1])
		if ct != rt {
			d.malf("OpCompositeInsert %%%d: composite type differs from result type", in.ResultID)
		}
		off, et := d.walkLiteral(in, ct, ops[2:])
		if et != ot {
			d.malf("OpCompositeInsert %%%d: object type %s, slot type %s", in.ResultID, ot, et)
		}
		d.emit(dinst{op: xInsert, dst: dst, a: cs, b: os, c: int32(off), n: int32(rt.flat), x: []int32{int32(ot.flat)}})
	case OpVectorExtractDynamic:
		need(2)
		rt := d.resType(in)
		vs, vt := d.val(ops[0])
		is, it := d.val(ops[1])
		if vt.kind != kVector || vt.elem != rt || it.kind != kInt {
			d.malf("OpVectorExtractDynamic %%%d: bad operand types", in.ResultID)
		}
		d.emit(dinst{op: OpVectorExtractDynamic, dst: dst, a: vs, b: is, n: int32(vt.n)})
	case OpVectorInsertDynamic:
		need(3)
		rt := d.resType(in)
		vs, vt := d.val(ops[0])
		cs, ct := d.val(ops[1])
		is, it := d.val(ops[2])
		if vt.kind != kVector || vt != rt || vt.elem != ct || it.kind != kInt {
			d.malf("OpVectorInsertDynamic %%%d: bad operand types", in.ResultID)
		}
		d.emit(dinst{op: OpVectorInsertDynamic, dst: dst, a: vs, b: cs, c: is, n: int32(vt.n)})
	case OpVectorShuffle:
		need(2)
		rt := d.resType(in)
		s1, t1 := d.val(ops[0])
		s2, t2 := d.val(ops[1])
		if rt.kind != kVector || t1.kind != kVector || t2.kind != kVector || t1.elem != rt.elem || t2.elem != rt.elem || len(ops)-2 != rt.n {
			d.malf("OpVectorShuffle %%%d: bad operand types or component count", in.ResultID)
		}
		x := make([]int32, rt.n)
		for k, c := range ops[2:] {
			switch {
			case c == 0xFFFFFFFF:
				x[k] = -1
				p.hasPoison = true
			case int(c) < t1.n:
				x[k] = s1 + int32(c)
			case int(c) < t1.n+t2.n:
				x[k] = s2 + int32(int(c)-t1.n)
			default:
				d.malf("OpVectorShuffle %%%d: component %d out of range", in.ResultID, c)
			}
		}
		d.emit(dinst{op: OpVectorShuffle, dst: dst, x: x})

	case OpSNegate, OpNot, OpBitReverse, OpBitCount:
		need(1)
		rt := d.resType(in)
		s, t := d.val(ops[0])
		svOf(rt, kInt, "result")
		svOf(t, kInt, "operand")
		if t.flat != rt.flat {
			d.malf("%s %%%d: component counts differ", name, in.ResultID)
		}
		d.emit(dinst{op: in.Op, dst: dst, a: s, n: int32(rt.flat)})
	case OpFNegate, OpQuantizeToF16:
		need(1)
		rt := d.resType(in)
		s, t := d.val(ops[0])
		svOf(rt, kFloat, "result")
		if t != rt {
			d.malf("%s %%%d: operand type %s differs from result type %s", name, in.ResultID, t, rt)
		}
		d.emit(dinst{op: in.Op, dst: dst, a: s, n: int32(rt.flat)})
	case OpLogicalNot:
		need(1)
		rt := d.resType(in)
		s, t := d.val(ops[0])
		svOf(rt, kBool, "result")
		if t != rt {
			d.malf("%s %%%d: operand type differs from result type", name, in.ResultID)
		}
		d.emit(dinst{op: in.Op, dst: dst, a: s, n: int32(rt.flat)})
	case OpAny, OpAll:
		need(1)
		rt := d.resType(in)
		s, t := d.val(ops[0])
		if rt.kind != kBool || t.kind != kVector || t.elem.kind != kBool {
			d.malf("%s %%%d: bad operand types", name, in.ResultID)
		}
		d.emit(dinst{op: in.Op, dst: dst, a: s, n: int32(t.n)})
	case OpIsNan, OpIsInf:
		need(1)
		rt := d.resType(in)
		s, t := d.val(ops[0])
		svOf(rt, kBool, "result")
		svOf(t, kFloat, "operand")
		if t.flat != rt.flat {
			d.malf("%s %%%d: component counts differ", name, in.ResultID)
		}
		d.emit(dinst{op: in.Op, dst: dst, a: s, n: int32(rt.flat)})
	case OpConvertFToU, OpConvertFToS, OpConvertSToF, OpConvertUToF:
		need(1)
		rt := d.resType(in)
		s, t := d.val(ops[0])
		fromF := in.Op == OpConvertFToU || in.Op == OpConvertFToS
		if fromF {
			svOf(rt, kInt, "result")
			svOf(t, kFloat, "operand")
		} else {
			svOf(rt, kFloat, "result")
			svOf(t, kInt, "operand")
		}
		if t.flat != rt.flat {
			d.malf("%s %%%d: component counts differ", name, in.ResultID)
		}
		d.emit(dinst{op: in.Op, dst: dst, a: s, n: int32(rt.flat)})
	case OpUConvert, OpSConvert, OpFConvert:
		need(1)
		d.resType(in)
		d.val(ops[0])
		d.malf("%s %%%d between types of equal width", name, in.ResultID)

	case OpIAdd, OpISub, OpIMul, OpUDiv, OpSDiv, OpUMod, OpSRem, OpSMod,
		OpShiftRightLogical, OpShiftRightArithmetic, OpShiftLeftLogical, OpBitwiseOr, OpBitwiseXor, OpBitwiseAnd:
		need(2)
		rt := d.resType(in)
		a, ta := d.val(ops[0])
		b, tb := d.val(ops[1])
		svOf(rt, kInt, "result")
		svOf(ta, kInt, "operand 1")
		svOf(tb, kInt, "operand 2")
		if ta.flat != rt.flat || tb.flat != rt.flat {
			d.malf("%s %%%d: component counts differ", name, in.ResultID)
		}
		d.emit(dinst{op: in.Op, dst: dst, a: a, b: b, n: int32(rt.flat)})
	case OpFAdd, OpFSub, OpFMul, OpFDiv, OpFRem, OpFMod:
		need(2)
		rt := d.resType(in)
		a, ta := d.val(ops[0])
		b, tb := d.val(ops[1])
		svOf(rt, kFloat, "result")
		if ta != rt || tb != rt {
			d.malf("%s %%%d: operand types %s, %s differ from result type %s", name, in.ResultID, ta, tb, rt)
		}
		d.emit(dinst{op: in.Op, dst: dst, a: a, b: b, n: int32(rt.flat)})
	case OpLogicalEqual, OpLogicalNotEqual, OpLogicalOr, OpLogicalAnd:
		need(2)
		rt := d.resType(in)
		a, ta := d.val(ops[0])
		b, tb := d.val(ops[1])
		svOf(rt, kBool, "result")
		if ta != rt || tb != rt {
			d.malf("%s %%%d: operand types differ from result type", name, in.ResultID)
		}
		d.emit(dinst{op: in.Op, dst: dst, a: a, b: b, n: int32(rt.flat)})
	case OpIEqual, OpINotEqual, OpUGreaterThan, OpSGreaterThan, OpUGreaterThanEqual, OpSGreaterThanEqual,
		OpULessThan, OpSLessThan, OpULessThanEqual, OpSLessThanEqual:
		need(2)
		rt := d.resType(in)
		a, ta := d.val(ops[0])
		b, tb := d.val(ops[1])
		svOf(rt, kBool, "result")
		svOf(ta, kInt, "operand 1")
		svOf(tb, kInt, "operand 2")
		if ta.flat != rt.flat || tb.flat != rt.flat {
			d.malf("%s %%%d: component counts differ", name, in.ResultID)
		}
		d.emit(dinst{op: in.Op, dst: dst, a: a, b: b, n: int32(rt.flat)})
	case OpFOrdEqual, OpFUnordEqual, OpFOrdNotEqual, OpFUnordNotEqual, OpFOrdLessThan, OpFUnordLessThan,
		OpFOrdGreaterThan, OpFUnordGreaterThan, OpFOrdLessThanEqual, OpFUnordLessThanEqual,
		OpFOrdGreaterThanEqual, OpFUnordGreaterThanEqual:
		need(2)
		rt := d.resType(in)
		a, ta := d.val(ops[0])
		b, tb := d.val(ops[1])
		svOf(rt, kBool, "result")
		svOf(ta, kFloat, "operand 1")
		if ta != tb || ta.flat != rt.flat {
			d.malf("%s %%%d: operand types differ", name, in.ResultID)
		}
		d.emit(dinst{op: in.Op, dst: dst, a: a, b: b, n: int32(rt.flat)})
	case OpSelect:
		need(3)
		rt := d.resType(in)
		c, tc := d.val(ops[0])
		a, ta := d.val(ops[1])
		b, tb := d.val(ops[2])
		if ta != rt || tb != rt {
			d.malf("OpSelect %%%d: object types differ from result type", in.ResultID)
		}
		switch {
		case tc.kind == kBool:
			if !(rt.isScalar() || rt.kind == kVector || rt.kind == kPointer) && (p.m.Version[0] == 1 && p.m.Version[1] < 4) {
				d.malf("OpSelect %%%d on composite type %s before SPIR-V 1.4", in.ResultID, rt)
			}
			d.emit(dinst{op: xSelectWhole, dst: dst, a: a, b: b, c: c, n: int32(rt.flat)})
		case tc.kind == kVector && tc.elem.kind == kBool:
			if rt.kind != kVector || rt.n != tc.n {
				d.malf("OpSelect %%%d: vector condition with result type %s", in.ResultID, rt)
			}
			d.emit(dinst{op: OpSelect, dst: dst, a: a, b: b, c: c, n: int32(rt.flat)})
		default:
			d.malf("OpSelect %%%d: condition has type %s", in.ResultID, tc)
		}
	case OpDot:
		need(2)
		rt := d.resType(in)
		a, ta := d.val(ops[0])
		b, tb := d.val(ops[1])
		if rt.kind != kFloat || ta.kind != kVector || ta != tb || ta.elem != rt {
			d.malf("OpDot %%%d: bad operand types", in.ResultID)
		}
		d.emit(dinst{op: OpDot, dst: dst, a: a, b: b, n: int32(ta.n)})
	case OpSDot, OpUDot, OpSUDot:
		need(2)
		rt := d.resType(in)
		a, ta := d.val(ops[0])
		b, tb := d.val(ops[1])
		if rt.kind != kInt {
			d.malf("%s %%%d: result type %s", name, in.ResultID, rt)
		}
		sa, sb := int32(1), int32(1)
		if in.Op == OpUDot {
			sa, sb = 0, 0
		} else if in.Op == OpSUDot {
			sb = 0
		}
		switch {
		case ta.kind == kInt && tb.kind == kInt:
			if len(ops) < 3 || ops[2] != 0 {
				d.malf("%s %%%d: scalar operands need PackedVectorFormat4x8Bit", name, in.ResultID)
			}
			d.emit(dinst{op: xDot4x8, dst: dst, a: a, b: b, n: sa, c: sb})
		case ta.kind == kVector && tb.kind == kVector && ta.elem.kind == kInt && tb.elem.kind == kInt && ta.n == tb.n:
			// 32-bit components: products and sums wrap to the 32-bit result width
			d.emit(dinst{op: OpSDot, dst: dst, a: a, b: b, n: int32(ta.n)})
		default:
			d.malf("%s %%%d: bad operand types", name, in.ResultID)
		}
	case OpVectorTimesScalar:
		need(2)
		rt := d.resType(in)
		a, ta := d.val(ops[0])
		b, tb := d.val(ops[1])
		if rt.kind != kVector || rt.elem.kind != kFloat || ta != rt || tb != rt.elem {
			d.malf("OpVectorTimesScalar %%%d: bad operand types", in.ResultID)
		}
		d.emit(dinst{op: in.Op, dst: dst, a: a, b: b, n: int32(rt.flat)})
	case OpMatrixTimesScalar:
		need(2)
		rt := d.resType(in)
		a, ta := d.val(ops[0])
		b, tb := d.val(ops[1])
		if rt.kind != kMatrix || ta != rt || tb != rt.elem.elem {
			d.malf("OpMatrixTimesScalar %%%d: bad operand types", in.ResultID)
		}
		d.emit(dinst{op: OpVectorTimesScalar, dst: dst, a: a, b: b, n: int32(rt.flat)})
	case OpVectorTimesMatrix:
		need(2)
		rt := d.resType(in)
		a, ta := d.val(ops[0]) // vector with R components
		b, tb := d.val(ops[1]) // matrix C x R
		if tb.kind != kMatrix || ta != tb.elem || rt.kind != kVector || rt.n != tb.n || rt.elem != ta.elem {
			d.malf("OpVectorTimesMatrix %%%d: bad operand types (%s * %s -> %s)", in.ResultID, ta, tb, rt)
		}
		d.emit(dinst{op: in.Op, dst: dst, a: a, b: b, n: int32(tb.n), c: int32(tb.elem.n)})
	case OpMatrixTimesVector:
		need(2)
		rt := d.resType(in)
		a, ta := d.val(ops[0]) // matrix C x R
		b, tb := d.val(ops[1]) // vector C
		if ta.kind != kMatrix || tb.kind != kVector || tb.n != ta.n || tb.elem != ta.elem.elem || rt != ta.elem {
			d.malf("OpMatrixTimesVector %%%d: bad operand types (%s * %s -> %s)", in.ResultID, ta, tb, rt)
		}
		d.emit(dinst{op: in.Op, dst: dst, a: a, b: b, n: int32(ta.n), c: int32(ta.elem.n)})
	case OpMatrixTimesMatrix:
		need(2)
		rt := d.resType(in)
		a, ta := d.val(ops[0]) // left: K columns of R rows
		b, tb := d.val(ops[1]) // right: C columns of K rows
		if ta.kind != kMatrix || tb.kind != kMatrix || rt.kind != kMatrix || tb.elem.n != ta.n || rt.n != tb.n || rt.elem != ta.elem {
			d.malf("OpMatrixTimesMatrix %%%d: bad operand types (%s * %s -> %s)", in.ResultID, ta, tb, rt)
		}
		d.emit(dinst{op: in.Op, dst: dst, a: a, b: b, n: int32(tb.n), c: int32(ta.elem.n), x: []int32{int32(ta.n)}})
	case OpTranspose:
		need(1)
		rt := d.resType(in)
		a, ta := d.val(ops[0])
		if ta.kind != kMatrix || rt.kind != kMatrix || rt.n != ta.elem.n || rt.elem.n != ta.n {
			d.malf("OpTranspose %%%d: bad operand types", in.ResultID)
		}
		d.emit(dinst{op: in.Op, dst: dst, a: a, n: int32(ta.n), c: int32(ta.elem.n)})
	case OpOuterProduct:
		need(2)
		rt := d.resType(in)
		a, ta := d.val(ops[0])
		b, tb := d.val(ops[1])
		if rt.kind != kMatrix || ta != rt.elem || tb.kind != kVector || tb.n != rt.n || tb.elem != ta.elem {
			d.malf("OpOuterProduct %%%d: bad operand types", in.ResultID)
		}
		d.emit(dinst{op: in.Op, dst: dst, a: a, b: b, n: int32(rt.n), c: int32(rt.elem.n)})
	case OpBitFieldInsert:
		need(4)
		rt := d.resType(in)
		a, ta := d.val(ops[0])
		b, tb := d.val(ops[1])
		o, to := d.val(ops[2])
		c, tc := d.val(ops[3])
		svOf(rt, kInt, "result")
		if ta != rt || tb != rt || to.kind != kInt || tc.kind != kInt {
			d.malf("OpBitFieldInsert %%%d: bad operand types", in.ResultID)
		}
		d.emit(dinst{op: in.Op, dst: dst, a: a, b: b, n: int32(rt.flat), x: []int32{o, c}})
	case OpBitFieldSExtract, OpBitFieldUExtract:
		need(3)
		rt := d.resType(in)
		a, ta := d.val(ops[0])
		o, to := d.val(ops[1])
		c, tc := d.val(ops[2])
		svOf(rt, kInt, "result")
		if ta != rt || to.kind != kInt || tc.kind != kInt {
			d.malf("%s %%%d: bad operand types", name, in.ResultID)
		}
		d.emit(dinst{op: in.Op, dst: dst, a: a, n: int32(rt.flat), x: []int32{o, c}})

	case OpAtomicLoad, OpAtomicStore, OpAtomicExchange, OpAtomicCompareExchange, OpAtomicCompareExchangeWeak,
		OpAtomicIIncrement, OpAtomicIDecrement, OpAtomicIAdd, OpAtomicISub, OpAtomicSMin, OpAtomicUMin,
		OpAtomicSMax, OpAtomicUMax, OpAtomicAnd, OpAtomicOr, OpAtomicXor:
		need(3)
		ps, pt := d.val(ops[0])
		if pt.kind != kPointer || pt.elem.kind != kInt {
			if pt.kind == kPointer && pt.elem.kind == kFloat {
				d.unsup("float atomics")
			}
			d.malf("%s: pointer operand has type %s", name, pt)
		}
		for _, id := range ops[1:3] {
			if _, t := d.val(id); t.kind != kInt {
				d.malf("%s: scope/semantics operand is not an integer", name)
			}
		}
		di := dinst{op: in.Op, dst: dst, a: ps, b: -1, c: -1}
		switch pt.sc {
		case SCWorkgroup, SCFunction, SCPrivate:
		case SCStorageBuffer, SCUniform:
			di.n = 1
		default:
			d.unsup("%s in storage class %d", name, pt.sc)
		}
		valAt := -1
		switch in.Op {
		case OpAtomicLoad, OpAtomicIIncrement, OpAtomicIDecrement:
		case OpAtomicCompareExchange, OpAtomicCompareExchangeWeak:
			need(6)
			if _, t := d.val(ops[3]); t.kind != kInt {
				d.malf("%s: semantics operand is not an integer", name)
			}
			valAt = 4
			cs, ct := d.val(ops[5])
			if ct != pt.elem {
				d.malf("%s: comparator type differs from pointee", name)
			}
			di.c = cs
		default:
			need(4)
			valAt = 3
		}
		if valAt >= 0 {
			vs, vt := d.val(ops[valAt])
			if vt != pt.elem {
				d.malf("%s: value type %s differs from pointee %s", name, vt, pt.elem)
			}
			di.b = vs
		}
		if in.Op != OpAtomicStore {
			if rt := d.resType(in); rt != pt.elem {
				d.malf("%s %%%d: result type differs from pointee", name, in.ResultID)
			}
		}
		d.emit(di)
	case OpControlBarrier:
		need(3)
		for _, id := range ops[:3] {
			d.val(id)
		}
		d.emit(dinst{op: in.Op})
	case OpMemoryBarrier:
		need(2)
		for _, id := range ops[:2] {
			d.val(id)
		}
		d.emit(dinst{op: in.Op})

	case OpBranch:
		need(1)
		d.emit(dinst{op: in.Op, a: d.newEdge(ops[0])})
	case OpBranchConditional:
		need(3)
		c, tc := d.val(ops[0])
		if tc.kind != kBool {
			d.malf("OpBranchConditional: condition has type %s", tc)
		}
		d.emit(dinst{op: in.Op, a: c, b: d.newEdge(ops[1]), c: d.newEdge(ops[2])})
	case OpSwitch:
		need(2)
		s, ts := d.val(ops[0])
		if ts.kind != kInt {
			d.malf("OpSwitch: selector has type %s", ts)
		}
		if len(ops)%2 != 0 {
			d.malf("OpSwitch: odd number of literal/label words")
		}
		di := dinst{op: in.Op, a: s, b: d.newEdge(ops[1])}
		seen := map[uint32]bool{}
		for k := 2; k+1 < len(ops); k += 2 {
			if seen[ops[k]] {
				d.malf("OpSwitch: duplicate case literal %d", ops[k])
			}
			seen[ops[k]] = true
			di.x = append(di.x, int32(ops[k]), d.newEdge(ops[k+1]))
		}
		d.emit(di)
	case OpReturn:
		if d.fn.ret.kind != kVoid {
			d.malf("OpReturn in function %%%d returning %s", d.fn.id, d.fn.ret)
		}
		d.emit(dinst{op: in.Op})
	case OpReturnValue:
		need(1)
		s, t := d.val(ops[0])
		if t != d.fn.ret {
			d.malf("OpReturnValue of %s in function %%%d returning %s", t, d.fn.id, d.fn.ret)
		}
		d.emit(dinst{op: in.Op, a: s, n: int32(t.flat)})
	case OpKill, OpTerminateInvocation, OpUnreachable:
		d.emit(dinst{op: in.Op})
	case OpExtInst:
		need(2)
		if !p.glslSets[ops[0]] {
			d.unsup("extended instruction set %q", p.m.ExtImports[ops[0]])
		}
		d.glsl(in, dst, ops[1], ops[2:])
	default:
		d.unsup("opcode not implemented")
	}
	return nil
}

func (d *fdec) isConst(id uint32) bool {
	// constants are the values defined before the first function: their slot precedes every
	// function-local slot and they are not variables
	p := d.p
	if p.gvars[id] != nil {
		return false
	}
	return p.constIDs()[id]
}

func (p *program) constIDs() map[uint32]bool {
	if p.constSet == nil {
		p.constSet = map[uint32]bool{}
		for i := range p.m.Instructions {
			in := &p.m.Instructions[i]
			if in.Op == OpFunction {
				break
			}
			switch in.Op {
			case OpConstant, OpConstantTrue, OpConstantFalse, OpConstantComposite, OpConstantNull,
				OpSpecConstant, OpSpecConstantTrue, OpSpecConstantFalse, OpSpecConstantComposite:
				p.constSet[in.ResultID] = true
			}
		}
	}
	return p.constSet
}

// walkLiteral follows literal indexes through a composite held in registers.
func (d *fdec) walkLiteral(in *Inst, t *typ, idx []uint32) (int, *typ) {
	off := 0
	if len(idx) == 0 {
		d.malf("%s %%%d without indexes", OpcodeName(in.Op), in.ResultID)
	}
	for _, ix := range idx {
		i := int(ix)
		switch t.kind {
		case kStruct:
			if i >= len(t.members) {
				d.malf("%s %%%d: member index %d out of range", OpcodeName(in.Op), in.ResultID, i)
			}
			off += t.moff[i]
			t = t.members[i]
		case kArray, kMatrix, kVector:
			if i >= t.n {
				d.malf("%s %%%d: index %d out of range for %s", OpcodeName(in.Op), in.ResultID, i, t)
			}
			off += i * t.elem.flat
			t = t.elem
		default:
			d.malf("%s %%%d: index into %s", OpcodeName(in.Op), in.ResultID, t)
		}
	}
	return off, t
}

// opName formats lazily (decoding must not pay for a string per instruction).
type opName uint16

func (o opName) String() string { return OpcodeName(uint16(o)) }

// logicallyEqual implements the OpCopyLogical matching rule: same structure ignoring decorations.
func logicallyEqual(a, b *typ) bool {
	if a == b {
		return true
	}
	if a.kind != b.kind {
		return false
	}
	switch a.kind {
	case kArray:
		return a.n == b.n && logicallyEqual(a.elem, b.elem)
	case kStruct:
		if len(a.members) != len(b.members) {
			return false
		}
		for i := range a.members {
			if !logicallyEqual(a.members[i], b.members[i]) {
				return false
			}
		}
		return true
	}
	return false
}
