package spv

import (
	"errors"
	"fmt"
	"math"
	"sort"
	"strings"
	"testing"

	"verif/internal/xrt"
)

// A conformance program: WGSL source, initial buffer contents and the output words expected by
// the WGSL specification (derived by hand). Convention: @group(0) @binding(0) is the output.
type approx float64 // float compared with relative tolerance 1e-5 (absolute 1e-6)
type ignore struct{}

type conf struct {
	name           string
	src            string
	bufs           map[int][]byte // binding -> initial bytes (group 0)
	want           []any          // expected words of binding 0: uint32 / int / int32 / float32 (bit exact) / approx / ignore
	want1          []any          // optional: expected words of binding 1
	opts           xrt.Opts
	defect         string // non-empty: known naga defect, the expectation fails today
	zeroInitDefect string // non-empty: known naga defect visible only when locals start as poison
	only           string // restrict to one option set (debugging)
}

func checkWords(got []byte, want []any) error {
	w := getU32(got)
	if len(w) < len(want) {
		return fmt.Errorf("output has %d words, expected at least %d", len(w), len(want))
	}
	var bad []string
	for i, e := range want {
		g := w[i]
		ok := true
		var es string
		switch v := e.(type) {
		case uint32:
			ok, es = g == v, fmt.Sprintf("%#x", v)
		case int:
			ok, es = g == uint32(int32(v)), fmt.Sprintf("%d", v)
		case int32:
			ok, es = g == uint32(v), fmt.Sprintf("%d", v)
		case float32:
			ok, es = g == math.Float32bits(v), fmt.Sprintf("%v", v)
		case float64:
			ok, es = g == math.Float32bits(float32(v)), fmt.Sprintf("%v", v)
		case approx:
			gf := float64(math.Float32frombits(g))
			ok = math.Abs(gf-float64(v)) <= 1e-6+1e-5*math.Abs(float64(v))
			es = fmt.Sprintf("~%v", float64(v))
		case ignore:
		default:
			return fmt.Errorf("bad expectation type %T", e)
		}
		if !ok {
			bad = append(bad, fmt.Sprintf("word %d: got %#x (%d, %v) want %s", i, g, int32(g), math.Float32frombits(g), es))
		}
	}
	if bad != nil {
		return errors.New(strings.Join(bad, "; "))
	}
	return nil
}

func (c *conf) run(m *Module, poison bool) error {
	o := c.opts
	o.PoisonLocals = poison
	bufs := xrt.Buffers{}
	for k, v := range c.bufs {
		bufs[bnd(0, uint32(k))] = append([]byte(nil), v...)
	}
	if _, ok := bufs[bnd(0, 0)]; !ok {
		bufs[bnd(0, 0)] = make([]byte, 4*len(c.want))
	}
	if err := Exec(m, bufs, o); err != nil {
		return fmt.Errorf("Exec: %w", err)
	}
	if err := checkWords(bufs[bnd(0, 0)], c.want); err != nil {
		return err
	}
	if c.want1 != nil {
		if err := checkWords(bufs[bnd(0, 1)], c.want1); err != nil {
			return fmt.Errorf("binding 1: %w", err)
		}
	}
	return nil
}

func runConf(t *testing.T, cases []conf) {
	sets := optionSets()
	var names []string
	for k := range sets {
		names = append(names, k)
	}
	sort.Strings(names)
	for _, c := range cases {
		c := c
		// pass 0: variables without initializer start as zero bytes; pass 1: they start as poison.
		// WGSL zero-initialises every variable, so both passes must give the same result.
		for pass := 0; pass < 2; pass++ {
			name, defect := c.name, c.defect
			if pass == 1 {
				if c.defect != "" {
					continue
				}
				name, defect = c.name+"/poisoned_locals", c.zeroInitDefect
			}
			t.Run(name, func(t *testing.T) {
				var fails []string
				for _, on := range names {
					if c.only != "" && c.only != on {
						continue
					}
					b, err := compileWGSL(t, c.src, sets[on])
					if err != nil {
						fails = append(fails, on+": GenerateSPIRV: "+err.Error())
						continue
					}
					m, err := Parse(b)
					if err != nil {
						t.Fatalf("%s: Parse: %v", on, err)
					}
					if err := c.run(m, pass == 1); err != nil {
						fails = append(fails, on+": "+err.Error())
						if len(fails) == 1 && defect == "" {
							t.Logf("disassembly (%s):\n%s", on, m.Disassemble())
						}
					}
				}
				if defect != "" {
					if len(fails) == 0 {
						t.Logf("recorded naga defect no longer reproduces (fixed?): %s", defect)
						return
					}
					t.Skipf("naga defect: %s\n%s", defect, strings.Join(fails, "\n"))
				}
				if len(fails) > 0 {
					t.Fatalf("%d option sets fail:\n%s\nsource:\n%s", len(fails), strings.Join(fails, "\n"), c.src)
				}
			})
		}
	}
}

const hdrOutU = "@group(0) @binding(0) var<storage, read_write> out: array<u32>;\n"
const hdrOutI = "@group(0) @binding(0) var<storage, read_write> out: array<i32>;\n"
const hdrOutF = "@group(0) @binding(0) var<storage, read_write> out: array<f32>;\n"
const hdrInU = "@group(0) @binding(1) var<storage, read> inp: array<u32>;\n"
const hdrInI = "@group(0) @binding(1) var<storage, read> inp: array<i32>;\n"
const hdrInF = "@group(0) @binding(1) var<storage, read> inp: array<f32>;\n"
const cs1 = "@compute @workgroup_size(1) fn main() {\n"

func TestSmoke(t *testing.T) {
	runConf(t, []conf{{
		name: "add",
		src:  hdrOutU + hdrInU + cs1 + "out[0] = inp[0] + inp[1]; out[1] = inp[0] * inp[1]; }",
		bufs: map[int][]byte{1: u32s(0xFFFFFFFF, 2)},
		want: []any{uint32(1), uint32(0xFFFFFFFE)},
	}})
}
