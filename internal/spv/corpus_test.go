package spv

import (
	"errors"
	"os"
	"path/filepath"
	"sort"
	"strings"
	"testing"

	"github.com/gogpu/naga"
	"github.com/gogpu/naga/ir"
	"github.com/gogpu/naga/spirv"

	"verif/internal/xrt"
)

// knownMalformed lists corpus shaders for which naga emits SPIR-V this reader rejects as malformed
// (confirmed naga defects; see the final report). Value = substring expected in the error.
var knownMalformed = map[string]string{}

// TestCorpus parses and executes every compute entry point of every corpus shader that
// compiles, over zero-filled buffers. No panic, no internal error, no *xrt.Malformed.
func TestCorpus(t *testing.T) {
	files, _ := filepath.Glob("/repo/snapshot/testdata/in/*.wgsl")
	if len(files) == 0 {
		t.Skip("corpus not found")
	}
	sort.Strings(files)
	optSets := []spirv.Options{spirv.DefaultOptions(), {Version: spirv.Version1_0}, {Version: spirv.Version1_3}, {Version: spirv.Version1_6}}
	var compiled, parsed, entries, ok, trapped, unsupported, limited int
	unsupWhy := map[string]int{}
	for _, f := range files {
		src, err := os.ReadFile(f)
		if err != nil {
			t.Fatal(err)
		}
		base := filepath.Base(f)
		mod := lower(string(src))
		if mod == nil {
			continue
		}
		for oi, o := range optSets {
			bin, err := naga.GenerateSPIRV(mod, o)
			if err != nil {
				continue
			}
			compiled++
			m, err := Parse(bin)
			if err != nil {
				t.Errorf("%s[%d]: Parse: %v", base, oi, err)
				continue
			}
			parsed++
			_ = m.Disassemble()
			for _, ep := range m.ComputeEntryPoints() {
				entries++
				bufs := xrt.Buffers{}
				for _, r := range m.Resources() {
					bufs[r.B] = make([]byte, 4096)
				}
				var trace []xrt.Access
				if perr := Exec(m, bufs.Clone(), xrt.Opts{EntryPoint: ep, StepLimit: 5000, PoisonLocals: true}); perr != nil {
					var mal *xrt.Malformed
					if errors.As(perr, &mal) || strings.Contains(perr.Error(), "internal error") {
						t.Errorf("%s[%d] %s (poisoned locals): %v", base, oi, ep, perr)
					}
				}
				err := Exec(m, bufs, xrt.Opts{EntryPoint: ep, StepLimit: 20000, Trace: &trace})
				var mal *xrt.Malformed
				var uns *xrt.Unsupported
				var trap *xrt.Trap
				var lim *xrt.StepLimit
				switch {
				case err == nil:
					ok++
				case errors.As(err, &mal):
					if want, known := knownMalformed[base]; known && strings.Contains(mal.What, want) {
						continue
					}
					t.Errorf("%s[%d] %s: %v", base, oi, ep, err)
				case errors.As(err, &uns):
					if strings.Contains(uns.What, "internal error") {
						t.Errorf("%s[%d] %s: %v", base, oi, ep, err)
					}
					unsupported++
					w := uns.What
					if os.Getenv("SPV_VERBOSE") == "" {
						if i := strings.Index(w, ":"); i > 0 {
							w = w[:i]
						}
					}
					unsupWhy[w]++
				case errors.As(err, &trap):
					trapped++
					if os.Getenv("SPV_VERBOSE") != "" {
						t.Logf("%s[%d] %s: %v", base, oi, ep, err)
					}
				case errors.As(err, &lim):
					limited++
				default:
					t.Errorf("%s[%d] %s: error of unexpected type %T: %v", base, oi, ep, err, err)
				}
			}
		}
	}
	t.Logf("files %d, compiled blobs %d, parsed %d, compute entry points run %d: ok %d, trap %d, unsupported %d, step-limit %d",
		len(files), compiled, parsed, entries, ok, trapped, unsupported, limited)
	var keys []string
	for k := range unsupWhy {
		keys = append(keys, k)
	}
	sort.Strings(keys)
	for _, k := range keys {
		t.Logf("  unsupported %-60s %d", k, unsupWhy[k])
	}
	if entries < 50 {
		t.Errorf("only %d compute entry points were executed", entries)
	}
}

type irModule = ir.Module

func lower(src string) (mod *irModule) {
	defer func() {
		if recover() != nil {
			mod = nil
		}
	}()
	ast, err := naga.Parse(src)
	if err != nil {
		return nil
	}
	m, err := naga.LowerWithSource(ast, src)
	if err != nil {
		return nil
	}
	return m
}
