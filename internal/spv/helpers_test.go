package spv

import (
	"encoding/binary"
	"math"
	"os"
	"testing"

	"github.com/gogpu/naga"
	"github.com/gogpu/naga/spirv"

	"verif/internal/xrt"
)

// every option set the conformance programs are run under
func optionSets() map[string]spirv.Options {
	out := map[string]spirv.Options{"default": spirv.DefaultOptions()}
	for _, v := range []spirv.Version{spirv.Version1_0, spirv.Version1_1, spirv.Version1_2, spirv.Version1_3,
		spirv.Version1_4, spirv.Version1_5, spirv.Version1_6} {
		out["v1."+string(rune('0'+v.Minor))] = spirv.Options{Version: v}
	}
	return out
}

func compileWGSL(t testing.TB, src string, o spirv.Options) ([]byte, error) {
	ast, err := naga.Parse(src)
	if err != nil {
		t.Fatalf("naga.Parse: %v\n%s", err, src)
	}
	mod, err := naga.LowerWithSource(ast, src)
	if err != nil {
		t.Fatalf("naga.Lower: %v\n%s", err, src)
	}
	return naga.GenerateSPIRV(mod, o)
}

func mustModule(t testing.TB, src string, o spirv.Options) *Module {
	b, err := compileWGSL(t, src, o)
	if err != nil {
		t.Fatalf("GenerateSPIRV: %v\n%s", err, src)
	}
	m, err := Parse(b)
	if err != nil {
		t.Fatalf("spv.Parse: %v", err)
	}
	if os.Getenv("SPV_DUMP") != "" {
		t.Log("\n" + m.Disassemble())
	}
	return m
}

func u32s(v ...uint32) []byte {
	b := make([]byte, 4*len(v))
	for i, x := range v {
		binary.LittleEndian.PutUint32(b[4*i:], x)
	}
	return b
}
func i32s(v ...int32) []byte {
	u := make([]uint32, len(v))
	for i, x := range v {
		u[i] = uint32(x)
	}
	return u32s(u...)
}
func f32s(v ...float32) []byte {
	u := make([]uint32, len(v))
	for i, x := range v {
		u[i] = math.Float32bits(x)
	}
	return u32s(u...)
}
func cat(bs ...[]byte) []byte {
	var out []byte
	for _, b := range bs {
		out = append(out, b...)
	}
	return out
}
func getU32(b []byte) []uint32 {
	out := make([]uint32, len(b)/4)
	for i := range out {
		out[i] = binary.LittleEndian.Uint32(b[4*i:])
	}
	return out
}

func bnd(g, b uint32) xrt.Binding { return xrt.Binding{Group: g, Binding: b} }

const (
	intMin  = uint32(0x80000000)
	uintMax = uint32(0xFFFFFFFF)
)

func fb(f float32) uint32 { return math.Float32bits(f) }
