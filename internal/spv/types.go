package spv

type kind uint8

const (
	kVoid kind = iota
	kBool
	kInt
	kFloat
	kVector
	kMatrix
	kArray
	kRuntimeArray
	kStruct
	kPointer
	kFunction
	kOpaque // images, samplers, ... : never executable here
)

// typ is a decoded type. Values are stored flattened: one 32-bit word per scalar (bool = 0/1),
// vectors/matrices (column-major)/arrays/structs as the concatenation of their parts, pointers
// as three words (region, offset, matrix-layout).
type typ struct {
	id      uint32
	kind    kind
	width   uint32 // bits, kInt/kFloat
	signed  bool
	n       int  // vector components, matrix columns, array length
	elem    *typ // vector component, matrix column, array/runtime array element, pointee
	members []*typ
	params  []*typ // kFunction (elem = return type)
	sc      uint32 // kPointer
	flat    int    // words when held in a register; -1 = not holdable (runtime array, opaque)
	moff    []int  // struct: flat offset of each member
	unsup   string // non-empty: reason values of this type cannot be interpreted

	// explicit layout (from decorations)
	stride      uint32 // ArrayStride
	hasStride   bool
	mOffset     []uint32
	mHasOffset  []bool
	mMat        []uint32 // per member: matrix layout word (stride | rowMajor<<31), 0 = none
	block       bool
	bufferBlock bool
}

const mlRowMajor = 1 << 31

func (t *typ) isScalar() bool  { return t.kind == kBool || t.kind == kInt || t.kind == kFloat }
func (t *typ) isNumeric() bool { return t.kind == kInt || t.kind == kFloat }

// scalarOf returns the scalar type of a scalar/vector/matrix, else nil.
func (t *typ) scalarOf() *typ {
	switch t.kind {
	case kBool, kInt, kFloat:
		return t
	case kVector:
		return t.elem
	case kMatrix:
		return t.elem.elem
	}
	return nil
}

// comps returns the component count of a scalar (1) or vector (n); 0 otherwise.
func (t *typ) comps() int {
	switch t.kind {
	case kBool, kInt, kFloat:
		return 1
	case kVector:
		return t.n
	}
	return 0
}

func (t *typ) isSV(k kind) bool { // scalar or vector of kind k
	s := t.scalarOf()
	return s != nil && s.kind == k && t.kind != kMatrix
}

// peelArrays removes array levels.
func (t *typ) peelArrays() *typ {
	for t.kind == kArray || t.kind == kRuntimeArray {
		t = t.elem
	}
	return t
}

func (t *typ) String() string {
	switch t.kind {
	case kVoid:
		return "void"
	case kBool:
		return "bool"
	case kInt:
		if t.signed {
			return "i" + itoa(int(t.width))
		}
		return "u" + itoa(int(t.width))
	case kFloat:
		return "f" + itoa(int(t.width))
	case kVector:
		return "vec" + itoa(t.n) + "<" + t.elem.String() + ">"
	case kMatrix:
		return "mat" + itoa(t.n) + "x" + itoa(t.elem.n)
	case kArray:
		return "array<" + t.elem.String() + "," + itoa(t.n) + ">"
	case kRuntimeArray:
		return "array<" + t.elem.String() + ">"
	case kStruct:
		return "struct%" + itoa(int(t.id))
	case kPointer:
		return "ptr<" + itoa(int(t.sc)) + "," + t.elem.String() + ">"
	case kFunction:
		return "fn"
	}
	return "opaque%" + itoa(int(t.id))
}
