package spv

import (
	"testing"

	"verif/internal/xrt"
)

const S = uint32(0xAAAAAAAA) // sentinel: bytes the program must not touch

func fill(n int) []byte {
	v := make([]uint32, n)
	for i := range v {
		v[i] = S
	}
	return u32s(v...)
}

// Group 3 of the brief: memory layout, address spaces, atomics, barriers, built-in inputs.
// Byte offsets follow the WGSL layout rules (AlignOf/SizeOf/OffsetOf).
func TestConfMemory(t *testing.T) {
	runConf(t, []conf{
		{
			name: "struct_vec3_padding",
			src: `struct T { a: f32, b: vec3<f32>, c: f32 }   // offsets 0, 16, 28; size 32
@group(0) @binding(0) var<storage, read_write> out: T;
` + hdrInF + cs1 + `
  out.a = inp[0]; out.b = vec3<f32>(inp[1], inp[2], inp[3]); out.c = inp[4];
  out.b.y = out.b.y + out.c;
}`,
			bufs: map[int][]byte{0: fill(8), 1: f32s(1, 2, 3, 4, 5)},
			want: []any{float32(1), S, S, S, float32(2), float32(8), float32(4), float32(5)},
		},
		{
			name: "nested_arrays",
			src: `@group(0) @binding(0) var<storage, read_write> out: array<array<u32, 3>, 2>;
` + hdrInU + cs1 + `
  for (var i = 0u; i < 2u; i++) { for (var j = 0u; j < 3u; j++) { out[i][j] = i * 10u + j + inp[0]; } }
  let row = out[1];            // whole inner array load
  out[0][inp[1]] = row[2] + row[0];   // out[0][1] = 112 + 110
}`,
			bufs: map[int][]byte{0: fill(6), 1: u32s(100, 1)},
			want: []any{100, 222, 102, 110, 111, 112},
		},
		{
			name: "array_of_vec3_stride16",
			src: `@group(0) @binding(0) var<storage, read_write> out: array<vec3<f32>, 2>;
` + hdrInF + cs1 + `
  out[1] = vec3<f32>(inp[0], inp[1], inp[2]);
  out[0].y = inp[3];
  out[u32(inp[0])].z = out[1].x + 0.5;     // out[1].z = 1.5
}`,
			bufs: map[int][]byte{0: fill(8), 1: f32s(1, 2, 3, 9)},
			want: []any{S, float32(9), S, S, float32(1), float32(2), float32(1.5), S},
		},
		{
			name: "align_size_attributes",
			src: `struct T { @size(16) a: u32, @align(32) b: u32, c: vec2<u32> }   // a@0, b@32, c@40, size 64
@group(0) @binding(0) var<storage, read_write> out: array<T, 2>;
` + hdrInU + cs1 + `
  out[1].b = inp[0]; out[1].c = vec2<u32>(inp[1], inp[2]); out[0].a = inp[3];
  out[0].c.y = out[1].c.x + out[inp[4]].b;     // 8 + 7
}`,
			bufs: map[int][]byte{0: fill(32), 1: u32s(7, 8, 9, 5, 1)},
			want: []any{5, S, S, S, S, S, S, S, S, S, S, 15, S, S, S, S,
				S, S, S, S, S, S, S, S, 7, S, 8, 9, S, S, S, S},
		},
		{
			name: "array_of_structs_dynamic",
			src: `struct P { pos: vec2<f32>, id: u32 }   // pos@0, id@8, size 16
@group(0) @binding(0) var<storage, read_write> out: array<P>;
@group(0) @binding(1) var<storage, read> inp: array<P>;
` + cs1 + `
  for (var i = 0u; i < 3u; i++) {
    let src = inp[2u - i];
    out[i].pos = src.pos * 2.0;
    out[i].id = src.id + i;
  }
  let whole = inp[1];
  out[3] = whole;
}`,
			bufs: map[int][]byte{0: fill(16), 1: cat(f32s(1, 2), u32s(10, 0), f32s(3, 4), u32s(20, 0), f32s(5, 6), u32s(30, 0))},
			want: []any{float32(10), float32(12), 30, S, float32(6), float32(8), 21, S, float32(2), float32(4), 12, S,
				float32(3), float32(4), 20, ignore{}},
		},
		{
			name: "matrices_in_struct",
			src: `struct M { m2: mat2x2<f32>, m3: mat3x3<f32>, s: f32, m42: mat4x2<f32>, m23: mat2x3<f32> }
// m2@0 (col stride 8), m3@16 (col stride 16), s@64, m42@72 (col stride 8), m23@112 (col stride 16), size 144
@group(0) @binding(0) var<storage, read_write> out: M;
` + hdrInF + cs1 + `
  out.m3 = mat3x3<f32>(inp[1], inp[2], inp[3], inp[4], inp[5], inp[6], inp[7], inp[8], inp[9]);
  out.m2 = mat2x2<f32>(10.0, 11.0, 12.0, 13.0);
  out.m42[3] = vec2<f32>(20.0, 21.0);
  out.m23[1].z = 30.0;
  out.s = 40.0;
  out.m42[u32(inp[1])][u32(inp[0])] = 50.0;      // m42[1][0] @ 72 + 8
  let c = out.m3[2];                             // (7,8,9)
  out.m23[0] = c * 2.0;
  let whole = out.m3;                            // whole-matrix load
  let r = whole * vec3<f32>(1.0, 0.0, 1.0);      // col0 + col2 = (8,10,12)
  out.m42[2] = r.xy;
}`,
			bufs: map[int][]byte{0: fill(36), 1: f32s(0, 1, 2, 3, 4, 5, 6, 7, 8, 9)},
			want: []any{float32(10), float32(11), float32(12), float32(13),
				float32(1), float32(2), float32(3), S, float32(4), float32(5), float32(6), S, float32(7), float32(8), float32(9), S,
				float32(40), S,
				S, S, float32(50), S, float32(8), float32(10), float32(20), float32(21),
				S, S,
				float32(14), float32(16), float32(18), S, S, S, float32(30), S},
		},
		{
			name: "runtime_array_and_arrayLength",
			src: hdrOutU + `struct H { count: u32, pad: u32, data: array<vec2<u32>> }   // data@8, stride 8
@group(0) @binding(1) var<storage, read_write> h: H;
` + cs1 + `
  let n = arrayLength(&h.data);        // (36 - 8) / 8 = 3
  out[0] = n;
  out[1] = arrayLength(&out);          // 16 / 4
  h.data[n - 1u] = vec2<u32>(7u, 8u);
  h.count = n;
  let p = &h.data;
  out[2] = arrayLength(p) + (*p)[2].y; // 3 + 8
  out[3] = h.data[0].x;
}`,
			bufs:  map[int][]byte{0: fill(4), 1: cat(u32s(S, S, 1, 2, 3, 4, 5, 6), u32s(S))},
			want:  []any{3, 4, 11, 1},
			want1: []any{3, S, 1, 2, 3, 4, 7, 8, S},
		},
		{
			name: "uniform_buffer",
			src: hdrOutF + `struct U { scale: vec4<f32>, offs: array<vec4<f32>, 2>, k: u32, m: mat2x2<f32> }   // 0, 16, 48, m@56; size 80
@group(0) @binding(2) var<uniform> u: U;
` + cs1 + `
  for (var i = 0; i < 4; i++) { out[i] = u.scale[i] * u.offs[1][i] + f32(u.k); }
  let whole = u;
  out[4] = whole.offs[0].w + whole.m[1].x;
  let v = u.m * vec2<f32>(1.0, 10.0);    // col0 + 10*col1
  out[5] = v.x; out[6] = v.y;
}`,
			bufs: map[int][]byte{0: fill(7), 2: cat(f32s(1, 2, 3, 4, 5, 6, 7, 8, 10, 20, 30, 40), u32s(100, S), f32s(1, 2, 3, 4), u32s(S, S))},
			want: []any{float32(110), float32(140), float32(190), float32(260), float32(11), float32(31), float32(42)},
		},
		{
			name: "whole_value_copies_across_spaces",
			src: `struct T { a: u32, v: vec3<f32>, arr: array<u32, 3> }   // a@0, v@16, arr@28, size 48
@group(0) @binding(0) var<storage, read_write> out: T;
@group(0) @binding(1) var<storage, read> inp: T;
var<private> p: T;
var<workgroup> w: T;
` + cs1 + `
  var f = inp;
  f.a += 1u;
  p = f;
  p.arr[1] = 50u;
  w = p;
  w.v.y = 2.5;
  out = w;
}`,
			bufs: map[int][]byte{0: fill(12), 1: cat(u32s(41, S, S, S), f32s(1, 2, 3), u32s(7, 8, 9, S, S))},
			want: []any{42, S, S, S, float32(1), float32(2.5), float32(3), 7, 50, 9, S, S},
		},
		{
			name: "pointer_lets",
			src: hdrOutI + hdrInI + `struct T { a: array<i32, 4>, b: i32 }
` + cs1 + `
  var s: T;
  let p = &s.a[inp[0]];
  *p = 7; *p += 1;
  let q = &s.b;
  *q = s.a[inp[0]] * 2;
  out[0] = s.a[2]; out[1] = s.b; out[2] = s.a[0] + s.a[1] + s.a[3];
  let po = &out[4];
  *po = 99;
  let pa = &s.a;
  (*pa)[3] = *po + 1;
  out[3] = s.a[3];
}`,
			bufs:           map[int][]byte{0: fill(5), 1: i32s(2)},
			zeroInitDefect: "function-scope var without initializer is emitted as OpVariable without initializer and never stored: contents undefined in SPIR-V, WGSL requires the zero value",
			want:           []any{8, 16, 0, 100, 99},
		},
		{
			name: "workgroup_barrier_4",
			src: hdrOutU + `var<workgroup> wg: array<u32, 4>;
@compute @workgroup_size(4) fn main(@builtin(local_invocation_index) li: u32) {
  wg[li] = li * 10u + 1u;
  workgroupBarrier();
  out[li] = wg[(li + 1u) % 4u];
  workgroupBarrier();
  if li == 0u { wg[0] = wg[1] + wg[2] + wg[3]; }
  workgroupBarrier();
  out[4u + li] = wg[0] + li;
}`,
			bufs: map[int][]byte{0: fill(8)},
			want: []any{11, 21, 31, 1, 63, 64, 65, 66},
		},
		{
			name: "atomics_storage",
			src: hdrOutU + `struct A { u: atomic<u32>, i: atomic<i32> }
@group(0) @binding(1) var<storage, read_write> a: A;
` + cs1 + `
  out[0] = atomicAdd(&a.u, 5u);          // 10 -> 15
  out[1] = atomicSub(&a.u, 20u);         // 15 -> 0xFFFFFFFB
  out[2] = atomicMax(&a.u, 3u);          // stays
  out[3] = atomicMin(&a.u, 3u);          // -> 3
  out[4] = atomicAnd(&a.u, 6u);          // 3 -> 2
  out[5] = atomicOr(&a.u, 8u);           // 2 -> 10
  out[6] = atomicXor(&a.u, 15u);         // 10 -> 5
  out[7] = atomicExchange(&a.u, 77u);    // 5 -> 77
  let r = atomicCompareExchangeWeak(&a.u, 77u, 100u);
  out[8] = r.old_value; out[9] = select(0u, 1u, r.exchanged);
  let r2 = atomicCompareExchangeWeak(&a.u, 77u, 200u);
  out[10] = r2.old_value; out[11] = select(0u, 1u, r2.exchanged);
  out[12] = atomicLoad(&a.u);
  atomicStore(&a.u, 9u);
  out[13] = bitcast<u32>(atomicMin(&a.i, -5));   // 3 -> -5
  out[14] = bitcast<u32>(atomicMax(&a.i, -7));   // -5 stays
  out[15] = bitcast<u32>(atomicAdd(&a.i, 2147483647));   // -5 -> 2147483642
  out[16] = bitcast<u32>(atomicAdd(&a.i, 10));   // wraps to -2147483644
  out[17] = bitcast<u32>(atomicLoad(&a.i));
}`,
			bufs: map[int][]byte{0: fill(18), 1: u32s(10, 3)},
			want: []any{10, 15, uint32(0xFFFFFFFB), uint32(0xFFFFFFFB), 3, 2, 10, 5, 77, 1, 100, 0, 100,
				3, -5, -5, 2147483642, -2147483644},
			want1: []any{9, -2147483644},
		},
		{
			name: "atomics_workgroup_4",
			src: hdrOutU + `var<workgroup> cnt: atomic<u32>;
var<workgroup> hi: atomic<i32>;
@compute @workgroup_size(4) fn main(@builtin(local_invocation_index) li: u32) {
  atomicAdd(&cnt, li + 1u);
  atomicMax(&hi, i32(li) * 3 - 4);       // -4, -1, 2, 5
  workgroupBarrier();
  out[li] = atomicLoad(&cnt);
  out[4u + li] = bitcast<u32>(atomicLoad(&hi));
}`,
			bufs: map[int][]byte{0: fill(8)},
			want: []any{10, 10, 10, 10, 5, 5, 5, 5},
		},
		{
			name: "builtin_ids",
			src: hdrOutU + `
@compute @workgroup_size(2, 2, 1) fn main(@builtin(global_invocation_id) gid: vec3<u32>, @builtin(local_invocation_id) lid: vec3<u32>,
    @builtin(local_invocation_index) li: u32, @builtin(workgroup_id) wid: vec3<u32>, @builtin(num_workgroups) nwg: vec3<u32>) {
  let idx = (gid.y * 4u + gid.x) * 4u;
  out[idx] = lid.x + lid.y * 10u + lid.z * 100u;
  out[idx + 1u] = li;
  out[idx + 2u] = wid.x + wid.y * 10u + wid.z * 100u;
  out[idx + 3u] = nwg.x * 100u + nwg.y * 10u + nwg.z + gid.z * 1000u;
}`,
			bufs: map[int][]byte{0: fill(32)},
			opts: xrt.Opts{NumWorkgroups: [3]uint32{2, 1, 1}},
			want: []any{
				0, 0, 0, 211, 1, 1, 0, 211, 0, 0, 1, 211, 1, 1, 1, 211, // gy = 0, gx = 0..3
				10, 2, 0, 211, 11, 3, 0, 211, 10, 2, 1, 211, 11, 3, 1, 211, // gy = 1
			},
		},
		{
			name: "dynamic_indexing_function_scope",
			src: hdrOutF + hdrInU + cs1 + `
  var a = array<f32, 4>(10.0, 20.0, 30.0, 40.0);
  let i = inp[0];                       // 1
  a[i] = a[i + 1u] + 1.0;               // a[1] = 31
  out[0] = a[0] + a[1] + a[2] + a[3];   // 111
  var m = mat2x3<f32>(1.0, 2.0, 3.0, 4.0, 5.0, 6.0);
  m[i][inp[1]] = 9.0;                   // m[1][2] = 9
  out[1] = m[1].x + m[1].y + m[1].z;    // 18
  out[2] = m[inp[2]][i];                // m[0][1] = 2
  let v = vec4<f32>(1.0, 2.0, 3.0, 4.0);
  out[3] = v[inp[1]] + v[i];            // 3 + 2
  let ca = array<f32, 3>(7.0, 8.0, 9.0);
  out[4] = ca[inp[1]];                  // dynamic index of a let array: 9
  var vv = vec3<f32>(0.0);
  vv[inp[1]] = 5.0; vv[i] += 1.5;
  out[5] = vv.x * 100.0 + vv.y * 10.0 + vv.z;   // 15 + 5 = 20
  let cm = mat2x2<f32>(1.0, 2.0, 3.0, 4.0);
  out[6] = cm[i][inp[2]];               // cm[1][0] = 3
}`,
			bufs: map[int][]byte{0: fill(7), 1: u32s(1, 2, 0)},
			want: []any{float32(111), float32(18), float32(2), float32(5), float32(9), float32(20), float32(3)},
		},
		{
			name: "array_of_matrices_storage",
			src: `struct W { ms: array<mat2x2<f32>, 2>, big: array<mat3x3<f32>, 2> }   // ms@0 stride 16; big@32 stride 48; size 128
@group(0) @binding(0) var<storage, read_write> out: W;
` + hdrInU + cs1 + `
  out.ms[1][0] = vec2<f32>(1.0, 2.0);          // @16
  out.ms[inp[0]][inp[0]][inp[1]] = 3.0;        // ms[1][1][0] @ 16 + 8
  out.big[1][2].y = 4.0;                       // @ 32 + 48 + 32 + 4 = 116
  out.big[0] = mat3x3<f32>(1.0, 0.0, 0.0, 0.0, 2.0, 0.0, 0.0, 0.0, 3.0);
  let m = out.big[inp[1]];
  out.ms[0][1] = (m * vec3<f32>(1.0, 1.0, 1.0)).yz;     // (2,3) @ 8
}`,
			bufs: map[int][]byte{0: fill(32), 1: u32s(1, 0)},
			want: []any{S, S, float32(2), float32(3), float32(1), float32(2), float32(3), S,
				float32(1), float32(0), float32(0), S, float32(0), float32(2), float32(0), S, float32(0), float32(0), float32(3), S,
				S, S, S, S, S, S, S, S, S, float32(4), S, S},
		},
		{
			name: "storage_barrier_2",
			src: hdrOutU + `
@compute @workgroup_size(2) fn main(@builtin(local_invocation_index) li: u32) {
  if li == 0u { out[0] = 41u; }
  storageBarrier();
  workgroupBarrier();
  if li == 1u { out[1] = out[0] + 1u; }
}`,
			bufs: map[int][]byte{0: fill(2)},
			want: []any{41, 42},
		},
		{
			name: "nested_struct_layout",
			src: `struct Inner { v: vec3<f32>, f: f32 }                       // v@0, f@12, size 16
struct Outer { a: u32, inner: array<Inner, 2>, b: u32 }      // a@0, inner@16 (stride 16), b@48, size 64
@group(0) @binding(0) var<storage, read_write> out: array<Outer>;
` + hdrInU + cs1 + `
  out[1].inner[1].f = 3.0;                       // 64 + 16 + 16 + 12 = 108
  out[1].b = 4u;                                 // 112
  out[0].inner[0].v = vec3<f32>(1.0, 2.0, 3.0);  // 16
  out[inp[0]].inner[inp[1]].v.z = 5.0;           // out[1].inner[0].v.z @ 64 + 16 + 8 = 88
  let whole = out[1].inner[1];
  out[0].inner[1] = Inner(vec3<f32>(whole.f, 7.0, 8.0), 9.0);   // @32
  out[0].a = arrayLength(&out);
}`,
			bufs: map[int][]byte{0: fill(32), 1: u32s(1, 0)},
			want: []any{2, S, S, S, float32(1), float32(2), float32(3), S, float32(3), float32(7), float32(8), float32(9), S, S, S, S,
				S, S, S, S, S, S, float32(5), S, S, S, S, float32(3), 4, S, S, S},
		},
		{
			name: "whole_array_copy_storage",
			src: `@group(0) @binding(0) var<storage, read_write> out: array<vec3<u32>, 2>;
@group(0) @binding(1) var<storage, read> inp: array<vec3<u32>, 2>;
` + cs1 + `
  out = inp;
  var tmp = inp;
  tmp[0].x = tmp[1].z;
  out[0] = tmp[0];
}`,
			bufs: map[int][]byte{0: fill(8), 1: u32s(1, 2, 3, S, 4, 5, 6, S)},
			want: []any{6, 2, 3, ignore{}, 4, 5, 6, ignore{}},
		},
		{
			name: "private_array_and_bool_struct",
			src: hdrOutU + hdrInU + `struct F { on: bool, n: u32, flags: vec2<bool> }
var<private> pa: array<u32, 5>;
var<private> pf: F;
var<workgroup> wf: F;
` + cs1 + `
  for (var i = 0u; i < 5u; i++) { pa[i] = i * i; }
  pa[inp[0]] += 100u;              // pa[3] = 109
  out[0] = pa[0] + pa[1] + pa[2] + pa[3] + pa[4];    // 0+1+4+109+16
  out[1] = select(0u, 1u, pf.on) + pf.n + select(0u, 1u, pf.flags.y);   // zero initialised
  pf.on = inp[0] == 3u; pf.n = 5u; pf.flags = vec2<bool>(false, true);
  wf = pf;
  out[2] = select(0u, 1u, wf.on) * 100u + wf.n * 10u + select(0u, 1u, wf.flags.y) + select(0u, 5u, wf.flags.x);
}`,
			bufs:           map[int][]byte{0: fill(3), 1: u32s(3)},
			zeroInitDefect: "var<private> without/with dropped initializer is emitted as OpVariable without initializer: contents undefined in SPIR-V, WGSL requires the zero value",
			want:           []any{130, 0, 151},
		},
	})
}
