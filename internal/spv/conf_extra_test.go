package spv

import (
	"testing"

	"verif/internal/xrt"
)

// Further programs mixing the four groups.
func TestConfExtras(t *testing.T) {
	runConf(t, []conf{
		{
			name: "side_effect_index_evaluated_once",
			src: hdrOutU + hdrInU + `
var<private> n: u32;
fn next() -> u32 { n = n + 1u; return n; }
` + cs1 + `
  n = 0u;
  var a = array<u32, 4>(10u, 20u, 30u, 40u);
  a[next()] += 5u;           // index evaluated once: a[1] = 25, n = 1
  out[0] = a[1]; out[1] = n;
  a[next()]++;               // a[2] = 31, n = 2
  out[2] = a[2]; out[3] = n;
  out[next() + 3u] = next(); // lhs index first (n=3 -> out[6]), then rhs (n=4)
  out[4] = n;
  var v = vec3<u32>(1u, 2u, 3u);
  v.y++; v[inp[0]] += 10u; v.x -= 1u;
  out[5] = v.x * 10000u + v.y * 100u + v.z;   // (0,3,13)
  out[7]++; out[7] += 2u;
  let p = &a[3]; (*p)++; *p *= 2u;
  out[8] = a[3];             // 82
}`,
			bufs: map[int][]byte{0: u32s(0, 0, 0, 0, 0, 0, 0, 39, 0), 1: u32s(2)},
			want: []any{25, 1, 31, 2, 4, 313, 4, 42, 82},
		},
		{
			name: "atomic_arrays",
			src: hdrOutU + `struct A { cells: array<atomic<u32>, 4>, tail: atomic<i32> }
@group(0) @binding(1) var<storage, read_write> a: A;
var<workgroup> w: array<atomic<u32>, 2>;
@compute @workgroup_size(4) fn main(@builtin(local_invocation_index) li: u32) {
  atomicAdd(&a.cells[li], li + 1u);
  atomicAdd(&a.cells[(li + 1u) % 4u], 10u);
  atomicAdd(&w[li % 2u], 1u << li);      // w[0] = 1 + 4, w[1] = 2 + 8
  atomicSub(&a.tail, i32(li));
  workgroupBarrier();
  out[li] = atomicLoad(&w[li % 2u]);
}`,
			bufs:  map[int][]byte{0: fill(4), 1: u32s(100, 200, 300, 400, 6)},
			want:  []any{5, 10, 5, 10},
			want1: []any{111, 212, 313, 414, 0},
		},
		{
			name: "two_entry_points_shared_globals",
			src: hdrOutU + hdrInU + `
var<private> acc: u32;
fn add(v: u32) { acc = acc + v; }
@compute @workgroup_size(1) fn first() { acc = 1u; add(inp[0]); out[0] = acc; }
@compute @workgroup_size(2) fn second(@builtin(local_invocation_index) li: u32) { acc = 100u; add(li); out[1u + li] = acc; }
`,
			bufs: map[int][]byte{0: fill(3), 1: u32s(41)},
			opts: xrt.Opts{EntryPoint: "second"},
			want: []any{S, 100, 101},
		},
		{
			name: "bool_select_and_matrix_identity",
			src: hdrOutF + hdrInF + cs1 + `
  let c = inp[0] > 0.0;
  let b = select(false, true, c) && select(true, false, !c);
  out[0] = select(1.0, 2.0, b);
  let id = mat3x3<f32>(1.0, 0.0, 0.0, 0.0, 1.0, 0.0, 0.0, 0.0, 1.0);
  let m = mat3x3<f32>(inp[0], 2.0, 3.0, 4.0, 5.0, 6.0, 7.0, 8.0, 10.0);
  let p = id * m * id;
  out[1] = p[0].x + p[1].y + p[2].z;         // 1 + 5 + 10
  let q = m * m;                             // q[0] = m * m[0] = 1*c0 + 2*c1 + 3*c2 = (1+8+21, 2+10+24, 3+12+30)
  out[2] = q[0].x; out[3] = q[0].y; out[4] = q[0].z;
  let r = vec3<f32>(1.0, 1.0, 1.0) * m;      // (6, 15, 25)
  out[5] = r.x; out[6] = r.y; out[7] = r.z;
  var mm = m;
  mm[1] = vec3<f32>(0.0, 0.0, 0.0); mm[2].y = -1.0; mm[0][2] += 1.0;
  out[8] = mm[0].z + mm[1].y + mm[2].y + mm[2].z;   // 4 + 0 - 1 + 10
}`,
			bufs: map[int][]byte{1: f32s(1)},
			want: []any{float32(2), float32(16), float32(30), float32(36), float32(45), float32(6), float32(15), float32(25), float32(13)},
		},
		{
			name: "runtime_array_of_structs_tail_bytes",
			src: hdrOutU + `struct E { k: u32, v: vec2<f32> }    // size 16 (k@0, v@8)
struct B { n: u32, items: array<E> } // items@8 (align 8)
@group(0) @binding(1) var<storage, read_write> b: B;
` + cs1 + `
  let n = arrayLength(&b.items);     // (8 + 2*16 + 12 - 8) / 16 = 2
  out[0] = n;
  for (var i = 0u; i < n; i++) { b.items[i].k = i + 7u; b.items[i].v = vec2<f32>(f32(i), 0.5); }
  b.n = n;
}`,
			bufs:  map[int][]byte{0: fill(1), 1: fill(13)},
			want:  []any{2},
			want1: []any{2, S, 7, S, float32(0), float32(0.5), 8, S, float32(1), float32(0.5), S, S, S},
		},
		{
			name: "deep_pointer_passing",
			src: hdrOutI + hdrInI + `
struct T { a: array<vec2<i32>, 3>, n: i32 }
fn leaf(p: ptr<function, i32>, v: i32) { *p = *p * 10 + v; }
fn mid(p: ptr<function, i32>, v: i32) { leaf(p, v); leaf(p, v + 1); }
fn top(t: ptr<function, T>, i: i32) {
  var tmp = (*t).a[i].y;
  mid(&tmp, 1);
  (*t).a[i].y = tmp;
  (*t).n += 1;
}
` + cs1 + `
  var t: T;
  t.a[1] = vec2<i32>(3, 4);
  top(&t, inp[0]); top(&t, inp[0]);
  out[0] = t.a[1].x; out[1] = t.a[1].y; out[2] = t.n;   // 3, ((4*10+1)*10+2)*10+1)*10+2 = 41212, 2
  var x = 1;
  mid(&x, 5);
  out[3] = x;    // (1*10+5)*10+6 = 156
}`,
			bufs:           map[int][]byte{1: i32s(1)},
			zeroInitDefect: "function-scope var without initializer is emitted as OpVariable without initializer and never stored: contents undefined in SPIR-V, WGSL requires the zero value",
			want:           []any{3, 41212, 2, 156},
		},
		{
			name: "uniform_dynamic_index_and_struct_array",
			src: hdrOutF + `struct L { pos: vec3<f32>, power: f32 }            // 16 bytes
struct U { count: u32, lights: array<L, 3>, tint: vec3<f32> }   // count@0, lights@16 (stride 16), tint@64, size 80
@group(0) @binding(2) var<uniform> u: U;
@group(0) @binding(1) var<storage, read> idx: array<u32>;
` + cs1 + `
  var sum = 0.0;
  for (var i = 0u; i < u.count; i++) { sum += u.lights[i].power * u.lights[i].pos.z; }
  out[0] = sum;                         // 2*3 + 4*6 + 8*9
  out[1] = u.lights[idx[0]].pos.y;      // lights[2].pos.y = 8
  let l = u.lights[idx[1]];             // whole struct load, lights[0]
  out[2] = l.pos.x + l.power;           // 1 + 2
  out[3] = u.tint.z;
}`,
			bufs: map[int][]byte{0: fill(4), 1: u32s(2, 0),
				2: cat(u32s(3, S, S, S), f32s(1, 2, 3, 2, 4, 5, 6, 4, 7, 8, 9, 8), f32s(0.25, 0.5, 0.75), u32s(S))},
			want: []any{float32(102), float32(8), float32(3), float32(0.75)},
		},
		{
			name: "workgroup_reduction_8",
			src: hdrOutU + hdrInU + `var<workgroup> sh: array<u32, 8>;
@compute @workgroup_size(4, 2, 1) fn main(@builtin(local_invocation_index) li: u32, @builtin(local_invocation_id) lid: vec3<u32>) {
  sh[li] = inp[li] + lid.y;
  workgroupBarrier();
  for (var s = 4u; s > 0u; s >>= 1u) {
    if li < s { sh[li] += sh[li + s]; }
    workgroupBarrier();
  }
  if li == 0u { out[0] = sh[0]; }
  out[1u + li] = lid.x + 10u * lid.y;
}`,
			bufs: map[int][]byte{0: fill(9), 1: u32s(1, 2, 3, 4, 5, 6, 7, 8)},
			want: []any{40, 0, 1, 2, 3, 10, 11, 12, 13},
		},
	})
}
