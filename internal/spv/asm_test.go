package spv

import (
	"encoding/binary"
	"math"
)

// tb is a tiny SPIR-V assembler for hand-written interpreter tests (constructs naga never emits).
type tb struct {
	next   uint32
	ver    uint32
	decos  [][]uint32
	types  [][]uint32
	body   [][]uint32
	caps   []uint32
	modes  [][]uint32
	consts map[[2]uint32]uint32

	tVoid, tBool, tU32, tI32, tF32 uint32
	tV2F, tV3F, tV4F, tV2U, tV4U   uint32
	tFnVoid                        uint32
	pSBU32                         uint32 // pointer StorageBuffer u32
	out, inp                       uint32 // buffers: struct { u32[] } at (0,0) and (0,1)
	main                           uint32
	glsl                           uint32
	local                          [3]uint32
	iface                          []uint32
}

func inst(op uint16, ops ...uint32) []uint32 {
	return append([]uint32{uint32(len(ops)+1)<<16 | uint32(op)}, ops...)
}

func (b *tb) id() uint32 { b.next++; return b.next }

func (b *tb) typ(op uint16, ops ...uint32) uint32 {
	id := b.id()
	b.types = append(b.types, inst(op, append([]uint32{id}, ops...)...))
	return id
}
func (b *tb) deco(target, dec uint32, args ...uint32) {
	b.decos = append(b.decos, inst(OpDecorate, append([]uint32{target, dec}, args...)...))
}
func (b *tb) mdeco(target, member, dec uint32, args ...uint32) {
	b.decos = append(b.decos, inst(OpMemberDecorate, append([]uint32{target, member, dec}, args...)...))
}

// global emits a result-producing instruction in the types/constants/globals section.
func (b *tb) global(op uint16, typ uint32, ops ...uint32) uint32 {
	id := b.id()
	b.types = append(b.types, inst(op, append([]uint32{typ, id}, ops...)...))
	return id
}

func (b *tb) konst(typ, v uint32) uint32 {
	if id, ok := b.consts[[2]uint32{typ, v}]; ok {
		return id
	}
	id := b.global(OpConstant, typ, v)
	b.consts[[2]uint32{typ, v}] = id
	return id
}
func (b *tb) cU(v uint32) uint32  { return b.konst(b.tU32, v) }
func (b *tb) cI(v int32) uint32   { return b.konst(b.tI32, uint32(v)) }
func (b *tb) cF(v float32) uint32 { return b.konst(b.tF32, math.Float32bits(v)) }

// ins emits a result-producing instruction in the function body.
func (b *tb) ins(op uint16, typ uint32, ops ...uint32) uint32 {
	id := b.id()
	b.body = append(b.body, inst(op, append([]uint32{typ, id}, ops...)...))
	return id
}
func (b *tb) stmt(op uint16, ops ...uint32) { b.body = append(b.body, inst(op, ops...)) }
func (b *tb) label() uint32 {
	id := b.id()
	b.body = append(b.body, inst(OpLabel, id))
	return id
}
func (b *tb) labelAs(id uint32) { b.body = append(b.body, inst(OpLabel, id)) }

// ld loads word i of the input buffer as type t (bitcast from u32 when needed).
func (b *tb) ld(t uint32, i uint32) uint32 {
	p := b.ins(OpAccessChain, b.pSBU32, b.inp, b.cU(0), b.cU(i))
	v := b.ins(OpLoad, b.tU32, p)
	if t != b.tU32 {
		v = b.ins(OpBitcast, t, v)
	}
	return v
}

// st stores a 32-bit scalar of type t into word i of the output buffer.
func (b *tb) st(i uint32, t, v uint32) {
	if t == b.tBool {
		v = b.ins(OpSelect, b.tU32, v, b.cU(1), b.cU(0))
	} else if t != b.tU32 {
		v = b.ins(OpBitcast, b.tU32, v)
	}
	p := b.ins(OpAccessChain, b.pSBU32, b.out, b.cU(0), b.cU(i))
	b.stmt(OpStore, p, v)
}

func newTB() *tb {
	b := &tb{ver: 0x00010300, consts: map[[2]uint32]uint32{}, local: [3]uint32{1, 1, 1}}
	b.glsl = b.id()
	b.tVoid = b.typ(OpTypeVoid)
	b.tBool = b.typ(OpTypeBool)
	b.tU32 = b.typ(OpTypeInt, 32, 0)
	b.tI32 = b.typ(OpTypeInt, 32, 1)
	b.tF32 = b.typ(OpTypeFloat, 32)
	b.tV2F = b.typ(OpTypeVector, b.tF32, 2)
	b.tV3F = b.typ(OpTypeVector, b.tF32, 3)
	b.tV4F = b.typ(OpTypeVector, b.tF32, 4)
	b.tV2U = b.typ(OpTypeVector, b.tU32, 2)
	b.tV4U = b.typ(OpTypeVector, b.tU32, 4)
	b.tFnVoid = b.typ(OpTypeFunction, b.tVoid)
	rt := b.typ(OpTypeRuntimeArray, b.tU32)
	b.deco(rt, DecArrayStride, 4)
	st := b.typ(OpTypeStruct, rt)
	b.deco(st, DecBlock)
	b.mdeco(st, 0, DecOffset, 0)
	pst := b.typ(OpTypePointer, SCStorageBuffer, st)
	b.pSBU32 = b.typ(OpTypePointer, SCStorageBuffer, b.tU32)
	b.out = b.global(OpVariable, pst, SCStorageBuffer)
	b.inp = b.global(OpVariable, pst, SCStorageBuffer)
	b.deco(b.out, DecDescriptorSet, 0)
	b.deco(b.out, DecBinding, 0)
	b.deco(b.inp, DecDescriptorSet, 0)
	b.deco(b.inp, DecBinding, 1)
	b.main = b.id()
	return b
}

// begin opens the entry function and its first block.
func (b *tb) begin() {
	b.body = append(b.body, inst(OpFunction, b.tVoid, b.main, 0, b.tFnVoid))
	b.label()
}

func strWords(s string) []uint32 {
	bs := append([]byte(s), 0)
	for len(bs)%4 != 0 {
		bs = append(bs, 0)
	}
	out := make([]uint32, len(bs)/4)
	for i := range out {
		out[i] = binary.LittleEndian.Uint32(bs[4*i:])
	}
	return out
}

// finish closes the function (the caller has emitted the terminator) and assembles the binary.
func (b *tb) finish() []byte {
	b.body = append(b.body, inst(OpFunctionEnd))
	var w []uint32
	w = append(w, 0x07230203, b.ver, 0, 0, 0)
	w = append(w, inst(OpCapability, 1)...)
	for _, c := range b.caps {
		w = append(w, inst(OpCapability, c)...)
	}
	w = append(w, inst(OpExtInstImport, append([]uint32{b.glsl}, strWords("GLSL.std.450")...)...)...)
	w = append(w, inst(OpMemoryModel, 0, 1)...)
	ep := append([]uint32{ModelGLCompute, b.main}, strWords("main")...)
	ep = append(ep, b.iface...)
	w = append(w, inst(OpEntryPoint, ep...)...)
	w = append(w, inst(OpExecutionMode, b.main, ModeLocalSize, b.local[0], b.local[1], b.local[2])...)
	for _, m := range b.modes {
		w = append(w, m...)
	}
	for _, s := range [][][]uint32{b.decos, b.types, b.body} {
		for _, i := range s {
			w = append(w, i...)
		}
	}
	w[3] = b.next + 1
	out := make([]byte, 4*len(w))
	for i, x := range w {
		binary.LittleEndian.PutUint32(out[4*i:], x)
	}
	return out
}
